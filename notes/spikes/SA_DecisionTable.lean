/- Design-time feasibility spike (not framework code): decision-table formulation.
   TableOK is a finite check over (slot, child class); `violations` is its executable twin used by
   the failing-input search. -/
namespace A

inductive Cls | atom | num | lambda | ifexp | or_ | and_ | not_ | cmp | bor | bxor | band | shift | arith | term | unary | pow | await_ | trailer | container | tuple | yield_ | walrus | starred
deriving DecidableEq, Repr

def Cls.all : List Cls := [.atom, .num, .lambda, .ifexp, .or_, .and_, .not_, .cmp, .bor, .bxor, .band, .shift, .arith, .term, .unary, .pow, .await_, .trailer, .container, .tuple, .yield_, .walrus, .starred]

inductive Slot | binL (c : Cls) | binR (c : Cls) | unaryArg (isNot : Bool) | boolArg (isOr : Bool) | cmpL | cmpR | ifBody | ifTest | ifElse | callFn | callArg | attrVal | subVal | awaitArg | starVal | compIter | compIf | lamBody | kwVal | dictKey | dictVal
deriving DecidableEq, Repr

def binCls : List Cls := [.bor, .bxor, .band, .shift, .arith, .term, .pow]
def Slot.all : List Slot :=
  binCls.map .binL ++ binCls.map .binR ++ [.unaryArg true, .unaryArg false, .boolArg true, .boolArg false,
   .cmpL, .cmpR, .ifBody, .ifTest, .ifElse, .callFn, .callArg, .attrVal, .subVal, .awaitArg, .starVal, .compIter, .compIf, .lamBody, .kwVal, .dictKey, .dictVal]

/-- the minifier's table (would be Generated), scaled x2 -/
def prec : Cls → Nat
| .lambda => 4 | .ifexp => 6 | .or_ => 8 | .and_ => 10 | .not_ => 12 | .cmp => 14 | .bor => 16 | .bxor => 18 | .band => 20
| .shift => 22 | .arith => 24 | .term => 26 | .unary => 28 | .pow => 30 | .await_ => 32 | .trailer => 34 | .container => 36
| .tuple => 36 | _ => 0

/-- grammar level of an unparenthesised expression of class c (x2), 36 = atom -/
def glevel : Cls → Nat
| .atom | .num | .container => 36
| .trailer => 34 | .await_ => 32 | .pow => 30 | .unary => 28 | .term => 26 | .arith => 24 | .shift => 22
| .band => 20 | .bxor => 18 | .bor => 16 | .cmp => 14 | .not_ => 12 | .and_ => 10 | .or_ => 8
| .ifexp => 6 | .lambda => 6 | .starred => 3 | .tuple => 2 | .walrus => 2 | .yield_ => 1

def need : Slot → Nat
| .binL .pow => 32 | .binR .pow => 28
| .binL c => glevel c | .binR c => glevel c + 2
| .unaryArg true => 12 | .unaryArg false => 28
| .boolArg true => 10 | .boolArg false => 12
| .cmpL | .cmpR => 16
| .ifBody | .ifTest => 8 | .ifElse => 6
| .callFn | .attrVal | .subVal | .awaitArg => 34
| .callArg => 2 | .starVal => 16 | .compIter | .compIf => 8 | .lamBody | .kwVal | .dictKey | .dictVal => 6

def selfWrap : Cls → Bool | .tuple | .yield_ | .walrus => true | _ => false

/-- hand model of the printer's decision -/
def decision (s : Slot) (c : Cls) : Bool :=
  let p := prec c
  selfWrap c ||
  match s with
  | .binL op => p != 0 && (prec op > p || (prec op == p && op == .pow))
  | .binR op => let o := if op == .pow && p == 28 then p else prec op
                p != 0 && (o > p || (o == p && op != .pow))
  | .unaryArg n => p != 0 && (if n then 12 else 28) > p
  | .boolArg o => p != 0 && ((if o then 8 else 10) ≥ p)
  | .cmpL => p != 0 && 14 ≥ p
  | .cmpR => p != 0 && 14 ≥ p
  | .ifBody | .ifTest => p != 0 && 6 ≥ p
  | .ifElse => false
  | .callFn => p != 0 && 34 > p
  | .attrVal => (p != 0 && 34 > p) || c == .num
  | .subVal => p != 0 && 34 > p
  | .awaitArg => p != 0 && 32 ≥ p
  | .starVal => 0 < p && p ≤ 14
  | .compIter | .compIf => p != 0 && 7 > p
  | _ => false

/-- which child classes the parser can ever put in a slot (WFp) -/
def admissible (s : Slot) (c : Cls) : Bool :=
  match c, s with
  | .starred, .callArg => true
  | .starred, _ => false
  | _, _ => true

def entryOK (s : Slot) (c : Cls) : Bool := !admissible s c || decision s c || need s ≤ glevel c
def TableOK : Prop := ∀ s ∈ Slot.all, ∀ c ∈ Cls.all, entryOK s c = true
instance : Decidable TableOK := by unfold TableOK; infer_instance

def violations : List (Slot × Cls) :=
  (Slot.all.flatMap fun s => Cls.all.map fun c => (s, c)).filter fun (s, c) => !entryOK s c
#eval violations
#eval Slot.all.length * Cls.all.length

theorem table_ok : TableOK := by decide +kernel
#print axioms table_ok
end A

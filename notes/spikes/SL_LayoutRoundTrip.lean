/- Design-time feasibility spike (not framework code): suite layout round trip on the
   line-structure level (inline vs indented suites, `;`-merged simple statements, else clauses). -/
namespace L

inductive Stmt
| simple (t : Nat)
| block (h : Nat) (body : List Stmt)
| ifelse (h : Nat) (body orelse : List Stmt)
deriving Repr

inductive Content
| simples (ts : List Nat)            -- `a;b;c`
| header (h : Nat) (inl : List Nat)  -- `while x:` optionally followed by inline simple statements
| els (inl : List Nat)               -- `else:` optionally followed by inline simple statements
deriving Repr, DecidableEq

structure Line where
  indent : Nat
  c : Content
deriving Repr, DecidableEq

def toks : List Stmt → List Nat
| [] => []
| .simple t :: r => t :: toks r
| _ :: r => toks r

mutual
def layStmt (k : Nat) : Stmt → List Line
| .simple t => [⟨k, .simples [t]⟩]
| .block h body =>
    if allSimple body then [⟨k, .header h (toks body)⟩]
    else ⟨k, .header h []⟩ :: layBody (k+1) body
| .ifelse h body orelse =>
    (if allSimple body then [⟨k, .header h (toks body)⟩]
     else ⟨k, .header h []⟩ :: layBody (k+1) body) ++
    (if allSimple orelse then [⟨k, .els (toks orelse)⟩]
     else ⟨k, .els []⟩ :: layBody (k+1) orelse)
def layBody (k : Nat) : List Stmt → List Line
| [] => []
| s :: r => layStmt k s ++ layBody k r
def allSimple : List Stmt → Bool
| [] => true
| .simple _ :: r => allSimple r
| _ :: _ => false
end

-- well-formed: suites non-empty, orelse non-empty
mutual
def WF : Stmt → Prop
| .simple _ => True
| .block _ b => b ≠ [] ∧ WFs b
| .ifelse _ b o => b ≠ [] ∧ o ≠ [] ∧ WFs b ∧ WFs o
def WFs : List Stmt → Prop
| [] => True
| s :: r => WF s ∧ WFs r
end

abbrev P := List Line → Option (List Stmt × List Line)

/-- after a header's body has been read: optional else clause at the same indent, then continue.
    Non-recursive; receives the recursive calls as arguments. -/
def finishHeader (k h : Nat) (body : List Stmt) (rest1 : List Line) (pDeep pSame : P) : Option (List Stmt × List Line) :=
  match rest1 with
  | ⟨k', .els einl⟩ :: rest2 =>
      if k' = k then
        match (if einl ≠ [] then some (einl.map Stmt.simple, rest2) else pDeep rest2) with
        | none => none
        | some (orelse, rest3) =>
          match pSame rest3 with
          | some (ss, rest) => some (.ifelse h body orelse :: ss, rest)
          | none => none
      else
        match pSame rest1 with
        | some (ss, rest) => some (.block h body :: ss, rest)
        | none => none
  | _ =>
      match pSame rest1 with
      | some (ss, rest) => some (.block h body :: ss, rest)
      | none => none

def parseBlock : Nat → Nat → List Line → Option (List Stmt × List Line)
| 0, _, _ => none
| _+1, _, [] => some ([], [])
| f+1, k, l :: ls =>
  if l.indent < k then some ([], l :: ls) else
  match l.c with
  | .els _ => some ([], l :: ls)
  | .simples ts =>
      match parseBlock f k ls with
      | some (ss, rest) => some (ts.map .simple ++ ss, rest)
      | none => none
  | .header h inl =>
      match (if inl ≠ [] then some (inl.map Stmt.simple, ls) else parseBlock f (k+1) ls) with
      | none => none
      | some (body, rest1) => finishHeader k h body rest1 (parseBlock f (k+1)) (parseBlock f k)

def ex : List Stmt := [.simple 1, .ifelse 7 [.simple 2, .block 8 [.simple 3]] [.simple 4], .simple 5]
#eval layBody 0 ex
#eval parseBlock 100 0 (layBody 0 ex)

def Stop (k : Nat) : List Line → Prop
| [] => True
| l :: _ => l.indent < k

def HeadOK (k : Nat) : List Line → Prop
| [] => True
| l :: _ => l.indent < k ∨ (l.indent = k ∧ ∀ i, l.c ≠ .els i)

theorem toks_map : ∀ b, allSimple b = true → (toks b).map Stmt.simple = b
| [], _ => rfl
| .simple t :: r, h => by simp [toks, allSimple] at *; exact toks_map r h
| .block .. :: _, h => by simp [allSimple] at h
| .ifelse .. :: _, h => by simp [allSimple] at h

theorem toks_ne : ∀ b, b ≠ [] → allSimple b = true → toks b ≠ []
| [], h, _ => absurd rfl h
| .simple t :: r, _, _ => by simp [toks]
| .block .. :: _, _, h => by simp [allSimple] at h
| .ifelse .. :: _, _, h => by simp [allSimple] at h

theorem parse_stop (f k : Nat) (rest : List Line) (h : Stop k rest) : parseBlock (f+1) k rest = some ([], rest) := by
  cases rest with
  | nil => simp [parseBlock]
  | cons l ls => simp only [Stop] at h; simp [parseBlock, h]

theorem layStmt_head (k : Nat) (s : Stmt) : ∃ l ls, layStmt k s = l :: ls ∧ l.indent = k ∧ ∀ i, l.c ≠ .els i := by
  cases s with
  | simple t => exact ⟨⟨k, .simples [t]⟩, [], by simp [layStmt], rfl, by simp⟩
  | block h b => by_cases hb : allSimple b = true <;> simp [layStmt, hb]
  | ifelse h b o => by_cases hb : allSimple b = true <;> simp [layStmt, hb]

theorem headOK_body (k : Nat) (r : List Stmt) (rest : List Line) (h : Stop k rest) : HeadOK k (layBody k r ++ rest) := by
  cases r with
  | nil => cases rest with
    | nil => simp [layBody, HeadOK]
    | cons l ls => simp [layBody, HeadOK]; exact Or.inl h
  | cons s r =>
    obtain ⟨l, ls, h1, h2, h3⟩ := layStmt_head k s
    simp [layBody, h1, HeadOK]; exact Or.inr ⟨h2, h3⟩

theorem finish_noelse (k h : Nat) (body : List Stmt) (R : List Line) (ss : List Stmt) (rest : List Line)
    (pDeep pSame : P) (hR : HeadOK k R) (hp : pSame R = some (ss, rest)) :
    finishHeader k h body R pDeep pSame = some (.block h body :: ss, rest) := by
  unfold finishHeader
  cases R with
  | nil => simp [hp]
  | cons l ls =>
    obtain ⟨li, lc⟩ := l
    cases lc with
    | els einl =>
      simp only [HeadOK] at hR
      rcases hR with hlt | ⟨_, hne⟩
      · have : li ≠ k := by omega
        simp [this, hp]
      · exact absurd rfl (hne einl)
    | simples ts => simp [hp]
    | header h' inl => simp [hp]

theorem finish_else (k h : Nat) (body orelse : List Stmt) (einl : List Nat) (E R : List Line) (ss : List Stmt) (rest : List Line)
    (pDeep pSame : P)
    (hE : (if einl ≠ [] then some (einl.map Stmt.simple, E) else pDeep E) = some (orelse, R))
    (hp : pSame R = some (ss, rest)) :
    finishHeader k h body (⟨k, .els einl⟩ :: E) pDeep pSame = some (.ifelse h body orelse :: ss, rest) := by
  unfold finishHeader
  simp only [if_true]
  rw [hE]; simp [hp]

theorem stop_succ_of_headOK {k : Nat} {R : List Line} (h : HeadOK k R) : Stop (k+1) R := by
  cases R with
  | nil => trivial
  | cons l ls => simp only [HeadOK] at h; simp only [Stop]; rcases h with h | ⟨h, _⟩ <;> omega

mutual
theorem rt_stmt : (s : Stmt) → WF s → ∀ (k : Nat) (R : List Line) (ss : List Stmt) (rest : List Line),
    HeadOK k R → (∀ f, f > R.length → parseBlock f k R = some (ss, rest)) →
    ∀ f, f > (layStmt k s ++ R).length → parseBlock f k (layStmt k s ++ R) = some (s :: ss, rest)
| .simple t, _, k, R, ss, rest, _, hR, f, hf => by
    cases f with
    | zero => simp at hf
    | succ f' =>
      simp [layStmt] at hf ⊢
      simp [parseBlock, hR f' (by omega)]
| .block h body, hwf, k, R, ss, rest, hH, hR, f, hf => by
    simp only [WF] at hwf
    cases f with
    | zero => simp at hf
    | succ f' =>
      by_cases hb : allSimple body = true
      · simp [layStmt, hb] at hf ⊢
        simp only [parseBlock]
        simp only [Nat.lt_irrefl, if_false, toks_ne body hwf.1 hb, ne_eq, not_false_eq_true, if_true, toks_map body hb]
        exact finish_noelse k h body R ss rest _ _ hH (hR f' (by omega))
      · simp [layStmt, hb] at hf ⊢
        simp only [parseBlock]
        simp only [Nat.lt_irrefl, if_false, ne_eq, not_true_eq_false]
        rw [rt_body body hwf.2 (k+1) R (stop_succ_of_headOK hH) f' (by simp; omega)]
        exact finish_noelse k h body R ss rest _ _ hH (hR f' (by omega))
| .ifelse h body orelse, hwf, k, R, ss, rest, hH, hR, f, hf => by
    simp only [WF] at hwf
    obtain ⟨hb0, ho0, hwb, hwo⟩ := hwf
    cases f with
    | zero => simp at hf
    | succ f' =>
      have hElse : ∀ (E : List Line), E = (if allSimple orelse then [⟨k, .els (toks orelse)⟩]
            else ⟨k, .els []⟩ :: layBody (k+1) orelse) ++ R → f' > E.length - 1 →
          finishHeader k h body E (parseBlock f' (k+1)) (parseBlock f' k) = some (.ifelse h body orelse :: ss, rest) := by
        intro E hEq hlen
        by_cases ho : allSimple orelse = true
        · simp only [ho, if_true, List.cons_append, List.nil_append] at hEq
          subst hEq
          refine finish_else k h body orelse (toks orelse) R R ss rest _ _ ?_ (hR f' (by simp at hlen; omega))
          simp [toks_ne orelse ho0 ho, toks_map orelse ho]
        · simp only [ho, Bool.false_eq_true, if_false, List.cons_append] at hEq
          subst hEq
          refine finish_else k h body orelse [] _ R ss rest _ _ ?_ (hR f' (by simp at hlen; omega))
          simp only [ne_eq, not_true_eq_false, if_false]
          exact rt_body orelse hwo (k+1) R (stop_succ_of_headOK hH) f' (by simp at hlen ⊢; omega)
      by_cases hb : allSimple body = true
      · simp only [layStmt, hb, if_true, List.cons_append, List.nil_append] at hf ⊢
        simp only [parseBlock]
        simp only [Nat.lt_irrefl, if_false, toks_ne body hb0 hb, ne_eq, not_false_eq_true, if_true, toks_map body hb]
        exact hElse _ rfl (by simp at hf ⊢; omega)
      · simp only [layStmt, hb, Bool.false_eq_true, if_false, List.cons_append, List.append_assoc] at hf ⊢
        simp only [parseBlock]
        simp only [Nat.lt_irrefl, if_false, ne_eq, not_true_eq_false]
        have hstop : Stop (k+1) ((if allSimple orelse then [⟨k, .els (toks orelse)⟩]
            else ⟨k, .els []⟩ :: layBody (k+1) orelse) ++ R) := by
          by_cases ho : allSimple orelse = true <;> simp [ho, Stop]
        rw [rt_body body hwb (k+1) _ hstop f' (by simp at hf ⊢; omega)]
        exact hElse _ rfl (by simp at hf ⊢; omega)
theorem rt_body : (body : List Stmt) → WFs body → ∀ (k : Nat) (rest : List Line), Stop k rest →
    ∀ f, f > (layBody k body ++ rest).length → parseBlock f k (layBody k body ++ rest) = some (body, rest)
| [], _, k, rest, hs, f, hf => by
    cases f with
    | zero => simp at hf
    | succ f' => simpa [layBody] using parse_stop f' k rest hs
| s :: r, hwf, k, rest, hs, f, hf => by
    simp only [WFs] at hwf
    simp only [layBody, List.append_assoc] at hf ⊢
    exact rt_stmt s hwf.1 k (layBody k r ++ rest) r rest (headOK_body k r rest hs)
      (fun f' hf' => rt_body r hwf.2 k rest hs f' hf') f hf
end
#print axioms rt_body
end L

/- Design-time feasibility spike (not framework code): abstract NameAssigner.
   A binding renamed later never receives a name already recorded in any namespace of its
   reservation scope; hence names of bindings with intersecting scopes differ. -/
namespace S3
abbrev Ns := Nat
abbrev Name := String

structure B where
  scope : List Ns          -- reservation scope
  orig : Option Name       -- none for hoisted literals
  pinned : Bool            -- reserved == name up-front (disallowed NameBinding, keyword-able arg)
  allow : Bool
  wants : Name → Bool      -- cost predicate (abstract)

abbrev Assigned := Ns → List Name
abbrev Gen := Assigned → List Ns → Name

def avail (a : Assigned) (n : Name) (sc : List Ns) : Bool := sc.all (fun ns => !(a ns).contains n)
def reserve (n : Name) (sc : List Ns) (a : Assigned) : Assigned :=
  fun ns => if sc.contains ns then n :: a ns else a ns

structure R where
  b : B
  final : Option Name
  renamed : Bool

def decide1 (gen : Gen) (a : Assigned) (b : B) : R :=
  if b.allow then
    let cand := gen a b.scope
    let must := match b.orig with
      | some o => !b.pinned && !avail a o b.scope
      | none => false
    if b.wants cand || must then ⟨b, some cand, true⟩ else ⟨b, b.orig, false⟩
  else ⟨b, b.orig, false⟩

def after (a : Assigned) (r : R) : Assigned :=
  match r.final with
  | some n => reserve n r.b.scope a
  | none => a

def run (gen : Gen) : Assigned → List B → List R
  | _, [] => []
  | a, b :: bs => let r := decide1 gen a b; r :: run gen (after a r) bs

def GenOK (gen : Gen) : Prop := ∀ a sc, avail a (gen a sc) sc = true

theorem reserve_mono {n m : Name} {sc : List Ns} {a : Assigned} {ns : Ns} :
    m ∈ a ns → m ∈ reserve n sc a ns := by
  intro h; unfold reserve; split <;> simp [h]

theorem reserve_mem {n : Name} {sc : List Ns} {a : Assigned} {ns : Ns} (h : ns ∈ sc) :
    n ∈ reserve n sc a ns := by
  unfold reserve; simp [h]

theorem after_mono {a : Assigned} {r : R} {ns : Ns} {m : Name} : m ∈ a ns → m ∈ after a r ns := by
  intro h; unfold after
  cases r.final with
  | some n => exact reserve_mono h
  | none => exact h

theorem not_avail_of_mem {a : Assigned} {n : Name} {sc : List Ns} {ns : Ns}
    (h1 : ns ∈ sc) (h2 : n ∈ a ns) : avail a n sc = false := by
  unfold avail
  apply Bool.eq_false_iff.mpr
  intro hall
  rw [List.all_eq_true] at hall
  have := hall ns h1
  simp [h2] at this

theorem decide1_b (gen : Gen) (a) (b : B) : (decide1 gen a b).b = b := by
  unfold decide1; simp only; repeat' split
  all_goals rfl

theorem decide1_renamed {gen : Gen} {a} {b : B} (h : (decide1 gen a b).renamed = true) :
    (decide1 gen a b).final = some (gen a b.scope) := by
  unfold decide1 at h ⊢; simp only at h ⊢
  by_cases h1 : b.allow = true
  · simp only [h1, if_true] at h ⊢
    generalize (b.wants (gen a b.scope) || match b.orig with
      | some o => !b.pinned && !avail a o b.scope
      | none => false) = c at h ⊢
    cases c <;> simp_all
  · simp [h1] at h

theorem later_fresh (gen : Gen) (hg : GenOK gen) (bs : List B) :
    ∀ (a : Assigned) (ns : Ns) (m : Name), m ∈ a ns →
      ∀ r ∈ run gen a bs, ns ∈ r.b.scope → r.renamed = true → r.final ≠ some m := by
  induction bs with
  | nil => intro a ns m _ r hr; simp [run] at hr
  | cons b bs ih =>
    intro a ns m hm r hr hns hren
    simp only [run, List.mem_cons] at hr
    rcases hr with rfl | hr
    · rw [decide1_b] at hns
      rw [decide1_renamed hren]
      intro heq
      have h1 := hg a b.scope
      injection heq with heq
      rw [heq, not_avail_of_mem hns hm] at h1
      cases h1
    · exact ih _ ns m (after_mono hm) r hr hns hren

theorem final_recorded (gen : Gen) (a : Assigned) (b : B) (n : Name) (ns : Ns)
    (h : (decide1 gen a b).final = some n) (hns : ns ∈ b.scope) :
    n ∈ after a (decide1 gen a b) ns := by
  unfold after; rw [h]; simp only; rw [decide1_b]; exact reserve_mem hns

theorem pairwise_later_renamed (gen : Gen) (hg : GenOK gen) (bs : List B) (a : Assigned) :
    (run gen a bs).Pairwise (fun r1 r2 =>
      r2.renamed = true → (∃ ns, ns ∈ r1.b.scope ∧ ns ∈ r2.b.scope) → r1.final.isSome → r1.final ≠ r2.final) := by
  induction bs generalizing a with
  | nil => simp [run]
  | cons b bs ih =>
    simp only [run, List.pairwise_cons]
    refine ⟨?_, ih _⟩
    intro r2 hr2 hren ⟨ns, h1, h2⟩ hsome
    rw [decide1_b] at h1
    obtain ⟨n, hn⟩ := Option.isSome_iff_exists.mp hsome
    rw [hn]
    have hrec := final_recorded gen a b n ns hn h1
    exact (later_fresh gen hg bs _ ns n hrec r2 hr2 h2 hren).symm

#print axioms pairwise_later_renamed
end S3

/- Design-time feasibility spike (not framework code): fuel-indexed interpreter with a static
   function table; fuel is consumed only by loop iterations and calls, so remove-pass preserves the
   result at every fuel. -/
namespace E

inductive Stmt
| pass
| lit (n : Int)
| print (x : String)
| set (x : String) (v : Int)
| dec (x : String)
| ifnz (x : String) (body orelse : List Stmt)
| whilenz (x : String) (body : List Stmt)
| call (fid : Nat)
| ret
deriving Repr

abbrev Env := String → Int
structure St where
  env : Env
  out : List Int

inductive Res | normal (s : St) | returned (s : St) | timeout

abbrev FTab := Nat → List Stmt   -- second-class functions: id ↦ body

def upd (e : Env) (x : String) (v : Int) : Env := fun y => if y = x then v else e y

mutual
def exec1 (ft : FTab) (fuel : Nat) (s : St) : Stmt → Res
| .pass => .normal s
| .lit _ => .normal s
| .print x => .normal { s with out := s.env x :: s.out }
| .set x v => .normal { s with env := upd s.env x v }
| .dec x => .normal { s with env := upd s.env x (s.env x - 1) }
| .ifnz x b o => if s.env x ≠ 0 then execL ft fuel s b else execL ft fuel s o
| .whilenz x b =>
    if s.env x ≠ 0 then
      match fuel with
      | 0 => .timeout
      | f+1 =>
        match execL ft (f+1) s b with
        | .normal s' => exec1 ft f s' (.whilenz x b)
        | r => r
    else .normal s
| .call fid =>
    match fuel with
    | 0 => .timeout
    | f+1 =>
      match execL ft f s (ft fid) with
      | .returned s' => .normal s'
      | r => r
| .ret => .returned s
termination_by st => (fuel, sizeOf st)
def execL (ft : FTab) (fuel : Nat) (s : St) : List Stmt → Res
| [] => .normal s
| st :: r =>
    match exec1 ft fuel s st with
    | .normal s' => execL ft fuel s' r
    | res => res
termination_by l => (fuel, sizeOf l)
end

mutual
def rp : Stmt → Stmt
| .ifnz x b o => .ifnz x (rpL b) (rpL o)
| .whilenz x b => .whilenz x (rpL b)
| s => s
def rpF : List Stmt → List Stmt     -- filtered + transformed, may be empty
| [] => []
| .pass :: r => rpF r
| s :: r => rp s :: rpF r
def rpL (l : List Stmt) : List Stmt :=    -- suite: keep non-empty with a literal 0
  match rpF l with
  | [] => [.lit 0]
  | l' => l'
end

theorem execL_rpL_of_rpF (ft : FTab) (fuel : Nat) (s : St) (l : List Stmt) :
    execL ft fuel s (rpL l) = execL ft fuel s (rpF l) := by
  unfold rpL
  cases h : rpF l with
  | nil => simp [execL, exec1]
  | cons a b => rfl

def rpT (ft : FTab) : FTab := fun fid => rpL (ft fid)

def Good (ft : FTab) (f : Nat) : Prop :=
  (∀ s st, exec1 (rpT ft) f s (rp st) = exec1 ft f s st) ∧ (∀ s l, execL (rpT ft) f s (rpF l) = execL ft f s l)

mutual
theorem rp_ok (ft : FTab) (fuel : Nat) (ih : ∀ f, f < fuel → Good ft f) (s : St) :
    (st : Stmt) → exec1 (rpT ft) fuel s (rp st) = exec1 ft fuel s st
| .pass => by simp [rp, exec1]
| .lit _ => by simp [rp, exec1]
| .print _ => by simp [rp, exec1]
| .set _ _ => by simp [rp, exec1]
| .dec _ => by simp [rp, exec1]
| .ret => by simp [rp, exec1]
| .ifnz x b o => by
    simp only [rp, exec1]
    rw [execL_rpL_of_rpF, execL_rpL_of_rpF, rpF_ok ft fuel ih s b, rpF_ok ft fuel ih s o]
| .whilenz x b => by
    simp only [rp]
    conv => lhs; rw [exec1.eq_def]
    conv => rhs; rw [exec1.eq_def]
    simp only
    split
    · match fuel, ih with
      | 0, _ => rfl
      | f+1, ih =>
        simp only
        rw [execL_rpL_of_rpF, rpF_ok ft (f+1) ih s b]
        split
        · rename_i s' _
          have := (ih f (by omega)).1 s' (.whilenz x b)
          simp only [rp] at this
          exact this
        · rfl
    · rfl
| .call fid => by
    simp only [rp]
    conv => lhs; rw [exec1.eq_def]
    conv => rhs; rw [exec1.eq_def]
    simp only
    match fuel, ih with
    | 0, _ => rfl
    | f+1, ih =>
      simp only [rpT]
      rw [execL_rpL_of_rpF, (ih f (by omega)).2 s (ft fid)]
theorem rpF_ok (ft : FTab) (fuel : Nat) (ih : ∀ f, f < fuel → Good ft f) (s : St) :
    (l : List Stmt) → execL (rpT ft) fuel s (rpF l) = execL ft fuel s l
| [] => by simp [rpF, execL]
| st :: r => by
    cases st with
    | pass => simp only [rpF]; rw [rpF_ok ft fuel ih s r]; simp [execL, exec1]
    | _ =>
      simp only [rpF]
      rw [execL, execL, rp_ok ft fuel ih s _]
      split
      · rename_i s' _; exact rpF_ok ft fuel ih s' r
      · rfl
end

theorem good_all (ft : FTab) : ∀ f, Good ft f := by
  intro f
  induction f using Nat.strongRecOn with
  | _ f ih => exact ⟨fun s st => rp_ok ft f ih s st, fun s l => rpF_ok ft f ih s l⟩

/-- remove-pass preserves the observable result of a whole program at every fuel -/
theorem remove_pass_preserves (ft : FTab) (fuel : Nat) (s : St) (main : List Stmt) :
    execL (rpT ft) fuel s (rpL main) = execL ft fuel s main := by
  rw [execL_rpL_of_rpF]; exact (good_all ft fuel).2 s main

#print axioms remove_pass_preserves
end E

/- Design-time feasibility spike (not framework code): precedence-driven parenthesisation
   conforms to grammar slot levels.  `lean S1_ParenGrammar.lean` checks in ~2 s. -/
namespace S1

inductive BOp | add | sub | mul | div | pow | bor | shl
deriving DecidableEq, Repr
inductive UOp | neg | not_ | inv
deriving DecidableEq, Repr

inductive Expr
| name (s : String)
| num (n : Nat)
| bin (op : BOp) (l r : Expr)
| un (op : UOp) (e : Expr)
| boolop (isOr : Bool) (vs : List Expr)
| ifexp (b t o : Expr)
| call (f : Expr) (args : List Expr)
| await_ (e : Expr)
deriving Repr

inductive PExpr
| name (s : String)
| num (n : Nat)
| bin (op : BOp) (l r : PExpr)
| un (op : UOp) (e : PExpr)
| boolop (isOr : Bool) (vs : List PExpr)
| ifexp (b t o : PExpr)
| call (f : PExpr) (args : List PExpr)
| await_ (e : PExpr)
| paren (e : PExpr)
deriving Repr

structure Table where
  bin : BOp → Nat
  un : UOp → Nat
  or_ : Nat
  and_ : Nat
  ifexp : Nat
  call : Nat
  await_ : Nat

def prec (t : Table) : Expr → Nat
| .name _ => 0
| .num _ => 0
| .bin op _ _ => t.bin op
| .un op _ => t.un op
| .boolop o _ => if o then t.or_ else t.and_
| .ifexp .. => t.ifexp
| .call .. => t.call
| .await_ _ => t.await_

def wrapIf (b : Bool) (p : PExpr) : PExpr := if b then .paren p else p

mutual
def paren (t : Table) : Expr → PExpr
| .name s => .name s
| .num n => .num n
| .bin op l r =>
    let lp := prec t l; let op_ := t.bin op
    let lhs := wrapIf (lp != 0 && (op_ > lp || (op_ == lp && op == .pow))) (paren t l)
    let rp := prec t r
    let op2 := if op == .pow && rp == 14 then rp else op_
    let rhs := wrapIf (rp != 0 && (op2 > rp || (op2 == rp && op != .pow))) (paren t r)
    .bin op lhs rhs
| .un op e =>
    let rp := prec t e
    .un op (wrapIf (rp != 0 && t.un op > rp) (paren t e))
| .boolop o vs => .boolop o (parenBool t (if o then t.or_ else t.and_) vs)
| .ifexp b c o =>
    .ifexp (wrapIf (prec t b != 0 && (t.ifexp > prec t b || t.ifexp == prec t b)) (paren t b))
           (wrapIf (prec t c != 0 && (t.ifexp > prec t c || t.ifexp == prec t c)) (paren t c)) (paren t o)
| .call f args =>
    let lp := prec t f
    .call (wrapIf (lp != 0 && t.call > lp) (paren t f)) (parenList t args)
| .await_ e =>
    let rp := prec t e
    .await_ (wrapIf (rp != 0 && (t.await_ > rp || t.await_ == rp)) (paren t e))
def parenBool (t : Table) (opp : Nat) : List Expr → List PExpr
| [] => []
| v :: vs =>
    let vp := prec t v
    wrapIf (vp != 0 && (opp > vp || opp == vp)) (paren t v) :: parenBool t opp vs
def parenList (t : Table) : List Expr → List PExpr
| [] => []
| v :: vs => paren t v :: parenList t vs
end

/-- grammar level of the top production (python.gram): atom 18 … ifexp 3 -/
def glevel : PExpr → Nat
| .name _ | .num _ | .paren _ => 18
| .call .. => 17
| .await_ _ => 16
| .bin .pow _ _ => 15
| .un .neg _ | .un .inv _ => 14
| .bin .mul _ _ | .bin .div _ _ => 13
| .bin .add _ _ | .bin .sub _ _ => 12
| .bin .shl _ _ => 11
| .bin .bor _ _ => 8
| .un .not_ _ => 6
| .boolop false _ => 5
| .boolop true _ => 4
| .ifexp .. => 3

def binLevel : BOp → Nat
| .pow => 15 | .mul | .div => 13 | .add | .sub => 12 | .shl => 11 | .bor => 8

mutual
def Gram : PExpr → Prop
| .name _ => True
| .num _ => True
| .paren e => Gram e
| .bin op l r =>
    (if op = .pow then 16 ≤ glevel l ∧ 14 ≤ glevel r
     else binLevel op ≤ glevel l ∧ binLevel op + 1 ≤ glevel r) ∧ Gram l ∧ Gram r
| .un op e => (if op = .not_ then 6 ≤ glevel e else 14 ≤ glevel e) ∧ Gram e
| .boolop o vs => GramAll (if o then 5 else 6) vs
| .ifexp b c o => 4 ≤ glevel b ∧ 4 ≤ glevel c ∧ 3 ≤ glevel o ∧ Gram b ∧ Gram c ∧ Gram o
| .call f args => 17 ≤ glevel f ∧ GramAll 3 args ∧ Gram f
| .await_ e => 17 ≤ glevel e ∧ Gram e
def GramAll (lvl : Nat) : List PExpr → Prop
| [] => True
| v :: vs => lvl ≤ glevel v ∧ Gram v ∧ GramAll lvl vs
end

def pyTable : Table where
  bin := fun | .pow => 15 | .mul | .div => 13 | .add | .sub => 12 | .shl => 11 | .bor => 8
  un := fun | .not_ => 6 | _ => 14
  or_ := 4
  and_ := 5
  ifexp := 3
  call := 17
  await_ := 16

theorem glevel_paren (e : Expr) : glevel (paren pyTable e) = if prec pyTable e = 0 then 18 else prec pyTable e := by
  cases e with
  | name => simp [paren, glevel, prec]
  | num => simp [paren, glevel, prec]
  | bin op l r => cases op <;> simp [paren, glevel, prec, pyTable]
  | un op e => cases op <;> simp [paren, glevel, prec, pyTable]
  | boolop o vs => cases o <;> simp [paren, glevel, prec, pyTable]
  | ifexp => simp [paren, glevel, prec, pyTable]
  | call => simp [paren, glevel, prec, pyTable]
  | await_ => simp [paren, glevel, prec, pyTable]

theorem glevel_wrap (b : Bool) (p : PExpr) : glevel (wrapIf b p) = if b then 18 else glevel p := by
  cases b <;> simp [wrapIf, glevel]
theorem gram_wrap (b : Bool) (p : PExpr) : Gram (wrapIf b p) ↔ Gram p := by
  cases b <;> simp [wrapIf, Gram]

theorem prec_vals (e : Expr) : prec pyTable e ∈ [0,3,4,5,6,8,11,12,13,14,15,16,17] := by
  cases e with
  | bin op => cases op <;> simp [prec, pyTable]
  | un op => cases op <;> simp [prec, pyTable]
  | boolop o => cases o <;> simp [prec, pyTable]
  | _ => simp [prec, pyTable]

theorem binTab (op : BOp) : pyTable.bin op = binLevel op := by cases op <;> rfl
theorem unTab (op : UOp) : pyTable.un op = if op = .not_ then 6 else 14 := by cases op <;> rfl

mutual
theorem gram_paren : (e : Expr) → Gram (paren pyTable e)
| .name _ => by simp [paren, Gram]
| .num _ => by simp [paren, Gram]
| .bin op l r => by
    have hl := gram_paren l; have hr := gram_paren r
    have pl := prec_vals l; have pr := prec_vals r
    simp only [paren, Gram, gram_wrap, glevel_wrap, glevel_paren, hl, hr, and_true, binTab]
    generalize prec pyTable l = a at *
    generalize prec pyTable r = b at *
    cases op <;> simp [binLevel] at * <;> (repeat' split) <;> omega
| .un op e => by
    have h := gram_paren e
    have pe := prec_vals e
    simp only [paren, Gram, gram_wrap, glevel_wrap, glevel_paren, h, and_true, unTab]
    generalize prec pyTable e = a at *
    cases op <;> simp at * <;> (repeat' split) <;> omega
| .boolop o vs => by
    simp only [paren, Gram]
    cases o
    · exact gram_bool 5 6 (by simp) vs
    · exact gram_bool 4 5 (by simp) vs
| .ifexp b c o => by
    have hb := gram_paren b; have hc := gram_paren c; have ho := gram_paren o
    have pb := prec_vals b; have pc := prec_vals c; have po := prec_vals o
    simp only [paren, Gram, gram_wrap, glevel_wrap, glevel_paren, hb, hc, ho, and_true]
    generalize prec pyTable b = x at *
    generalize prec pyTable c = y at *
    generalize prec pyTable o = z at *
    simp [pyTable] at * <;> (repeat' split) <;> omega
| .call f args => by
    have hf := gram_paren f
    have pf := prec_vals f
    simp only [paren, Gram, gram_wrap, glevel_wrap, glevel_paren, hf, and_true]
    refine ⟨?_, gram_list args⟩
    generalize prec pyTable f = x at *
    simp [pyTable] at * <;> (repeat' split) <;> omega
| .await_ e => by
    have h := gram_paren e
    have pe := prec_vals e
    simp only [paren, Gram, gram_wrap, glevel_wrap, glevel_paren, h, and_true]
    generalize prec pyTable e = x at *
    simp [pyTable] at * <;> (repeat' split) <;> omega
theorem gram_bool (opp need : Nat) (h : need = opp + 1 ∧ 4 ≤ opp ∧ opp ≤ 5) : (vs : List Expr) → GramAll need (parenBool pyTable opp vs)
| [] => by simp [parenBool, GramAll]
| v :: vs => by
    have hv := gram_paren v
    have pv := prec_vals v
    simp only [parenBool, GramAll, gram_wrap, glevel_wrap, glevel_paren, hv, true_and]
    refine ⟨?_, gram_bool opp need h vs⟩
    generalize prec pyTable v = x at *
    simp at * <;> (repeat' split) <;> omega
theorem gram_list : (vs : List Expr) → GramAll 3 (parenList pyTable vs)
| [] => by simp [parenList, GramAll]
| v :: vs => by
    have hv := gram_paren v
    have pv := prec_vals v
    simp only [parenList, GramAll, glevel_paren, hv, true_and]
    refine ⟨?_, gram_list vs⟩
    generalize prec pyTable v = x at *
    simp at * <;> (repeat' split) <;> omega
end

#print axioms gram_paren
end S1

import PMV.Sexp
def main : IO Unit := IO.println "pmv"

import PMV.Sexp
import PMV.Driver.Cli
import PMV.Driver.Printer
import PMV.Driver.Fold
import PMV.Driver.Strings
import PMV.Driver.Rename
import PMV.Driver.Minify
import PMV.Driver.PyCore
import PMV.Driver.Exports
import PMV.Driver.Layout
import PMV.Driver.Resolve
import PMV.Driver.Freeze
open PMV

def dispatch (cmd : String) (args : List Sexp) : Option String :=
  match cmd with
  | "ping" => some "pong"
  | "cli.run" => Driver.Cli.run args
  | "cli.kw" => Driver.Cli.kw args
  | "cli.split" => Driver.Cli.split args
  | "cli.violations" => Driver.Cli.violations args
  | "unparse" => Driver.Printer.unparse args
  | "unparse.expr" => Driver.Printer.unparseExpr args
  | "canon" => Driver.Minify.canon args
  | "transform" => Driver.Minify.transform args
  | "pycore.run" => Driver.PyCore.runCmd args
  | "pycore.runO" => Driver.PyCore.runOCmd args
  | "pycore.scopestable" => Driver.PyCore.scopeStableCmd args
  | "pycore.exctable" => Driver.PyCore.excTableCmd args
  | "rename.applyast" => Driver.PyCore.renameApply args
  | "min.applyast" => Driver.PyCore.minApply args
  | "min.full" => Driver.PyCore.minFull args
  | "exports.findall" => Driver.Exports.findAllCmd args
  | "inplace.fn" => Driver.InPlace.fnCmd args
  | "layout.check" => Driver.Layout.check args
  | "resolve.get" => Driver.Resolve.get args
  | "taint.names" => Driver.Resolve.taintNames args
  | "taint.imports" => Driver.Resolve.taintImports args
  | "taint.declared" => Driver.Resolve.taintDeclared args
  | "freeze.locals" => Driver.Freeze.locals args
  | "freeze.globals" => Driver.Freeze.globals args
  | "hoist.collect" => Driver.HoistCollect.collectCmd args
  | "hoist.groups" => Driver.HoistCollect.groupsCmd args
  | "hoist.place" => Driver.Rename.hoistPlace args
  | "rename.assign" => Driver.Rename.assignCmd args
  | "ministring" => Driver.Strings.ministring args
  | "shebang" => Driver.Strings.shebang args
  | "encoding.normal" => Driver.Strings.encodingNormal args
  | "strlex" => Driver.Strings.strlex args
  | "esc.violations" => Driver.Strings.escViolations args
  | "fold" => Driver.Fold.fold args
  | "pyint.eval" => Driver.Fold.pyintEval args
  | "gram.check" => Driver.Printer.gramCheck args
  | "paren.violations" => Driver.Printer.parenViolations args
  | "spacing.violations" => Driver.Printer.spacingViolations args
  | _ => none

def handle (line : String) : String :=
  match Sexp.parse ("(" ++ line ++ ")") with
  | some (.list (.atom cmd :: args)) =>
    match dispatch cmd args with
    | some r => "ok " ++ r
    | none => "err bad-request " ++ cmd
  | _ => "err parse"

partial def loop (hin : IO.FS.Stream) (hout : IO.FS.Stream) : IO Unit := do
  let line ← hin.getLine
  if line.isEmpty then return ()
  hout.putStrLn (handle line)
  hout.flush
  loop hin hout

def main : IO Unit := do loop (← IO.getStdin) (← IO.getStdout)

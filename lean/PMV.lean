import PMV.Sexp
import PMV.Model.Cli
import PMV.Generated.Cli
import PMV.Spec.Docs

import PMV.Model.Cli
/-
  The *documented* meaning of the command line flags and the API defaults, hand-transcribed from
  docs/source/transforms/*.rst and the `minify` docstring.  Never generated from the code.
-/
namespace PMV.Spec.Docs
open PMV.Cli BExp

/-- The 19 documented boolean flags. -/
def docFlags : List String := [
  "--no-combine-imports", "--no-remove-pass", "--remove-literal-statements", "--no-hoist-literals",
  "--no-rename-locals", "--rename-globals", "--no-remove-object-base", "--no-convert-posargs-to-args",
  "--no-preserve-shebang", "--remove-asserts", "--remove-debug", "--no-remove-explicit-return-none",
  "--no-remove-builtin-exception-brackets", "--no-constant-folding", "--no-remove-annotations",
  "--no-remove-variable-annotations", "--no-remove-return-annotations", "--no-remove-argument-annotations",
  "--remove-class-attribute-annotations"]

private def off (f : String) : BExp := (present f).not     -- "--no-X disables X" (default on)
private def on (f : String) : BExp := present f            -- "--X enables X" (default off)
private def annOff (f : String) : BExp := BExp.and (off "--no-remove-annotations") (off f)
private def annOn (f : String) : BExp := BExp.and (off "--no-remove-annotations") (on f)

/-- Documented value of every keyword of `minify` as a function of the flags present. -/
def docKw : List (String × BExp) := [
  ("combine_imports", off "--no-combine-imports"),
  ("remove_pass", off "--no-remove-pass"),
  ("remove_literal_statements", on "--remove-literal-statements"),
  ("hoist_literals", off "--no-hoist-literals"),
  ("rename_locals", off "--no-rename-locals"),
  ("rename_globals", on "--rename-globals"),
  ("remove_object_base", off "--no-remove-object-base"),
  ("convert_posargs_to_args", off "--no-convert-posargs-to-args"),
  ("preserve_shebang", off "--no-preserve-shebang"),
  ("remove_asserts", on "--remove-asserts"),
  ("remove_debug", on "--remove-debug"),
  ("remove_explicit_return_none", off "--no-remove-explicit-return-none"),
  ("remove_builtin_exception_brackets", off "--no-remove-builtin-exception-brackets"),
  ("constant_folding", off "--no-constant-folding"),
  ("remove_annotations.remove_variable_annotations", annOff "--no-remove-variable-annotations"),
  ("remove_annotations.remove_return_annotations", annOff "--no-remove-return-annotations"),
  ("remove_annotations.remove_argument_annotations", annOff "--no-remove-argument-annotations"),
  ("remove_annotations.remove_class_attribute_annotations", annOn "--remove-class-attribute-annotations")]

/-- Documented defaults of the API (`minify` docstring + transform pages: which are on by default). -/
def docApiDefaults : List (String × Bool) := [
  ("combine_imports", true), ("remove_pass", true), ("remove_literal_statements", false),
  ("hoist_literals", true), ("rename_locals", true), ("rename_globals", false),
  ("remove_object_base", true), ("convert_posargs_to_args", true), ("preserve_shebang", true),
  ("remove_asserts", false), ("remove_debug", false), ("remove_explicit_return_none", true),
  ("remove_builtin_exception_brackets", true), ("constant_folding", true),
  ("remove_annotations.remove_variable_annotations", true),
  ("remove_annotations.remove_return_annotations", true),
  ("remove_annotations.remove_argument_annotations", true),
  ("remove_annotations.remove_class_attribute_annotations", false)]

end PMV.Spec.Docs

import PMV.Spec.Layout
/-
  The side condition of T02.4 in syntactic form (`plainL`): no `yield` is visited as a statement inside a header or a
  pattern, and an expression statement prints at least one token.
-/
namespace PMV.Spec.Layout
open PMV PMV.Token PMV.Printer

def isYield : Expr → Bool
  | .yield _ => true
  | .yieldFrom _ => true
  | _ => false


mutual
def patOK : Pattern → Bool
  | .matchValue v => !isYield v
  | .matchSingleton _ => true
  | .matchSequence ps => patsOK ps
  | .matchMapping _ ps _ => patsOK ps
  | .matchClass cls ps _ kps => !isYield cls && patsOK ps && patsOK kps
  | .matchStar _ => true
  | .matchAs none _ => true
  | .matchAs (some p) _ => patOK p
  | .matchOr ps => patsOK ps
def patsOK : List Pattern → Bool
  | [] => true
  | p :: ps => patOK p && patsOK ps
end


/-- a simple statement prints as real tokens -/
def simpleOK (t : PrecTable) : Stmt → Bool
  | .typeAlias n _ _ => !isYield n
  | .annAssign tg _ _ true => !isYield tg
  | .expr v => !(tValue t v).isEmpty
  | .assign ts v => !(ts.isEmpty && (tValue t v).isEmpty)
  | _ => true


mutual
/-- the syntactic side condition -/
def plainS (t : PrecTable) : Stmt → Bool
  | .functionDef _ _ _ body _ _ _ => plainL t body
  | .classDef _ _ _ body _ _ => plainL t body
  | .for_ _ _ _ body orelse => plainL t body && plainL t orelse
  | .while_ _ body orelse => plainL t body && plainL t orelse
  | .if_ _ body orelse => plainL t body && plainL t orelse
  | .with_ _ _ body => plainL t body
  | .match_ _ cases => plainC t cases
  | .try_ _ body handlers orelse finalbody => plainL t body && plainH t handlers && plainL t orelse && plainL t finalbody
  | s => simpleOK t s
def plainL (t : PrecTable) : List Stmt → Bool
  | [] => true
  | s :: ss => plainS t s && plainL t ss
def plainH (t : PrecTable) : List Handler → Bool
  | [] => true
  | .mk _ _ body :: hs => plainL t body && plainH t hs
def plainC (t : PrecTable) : List MatchCase → Bool
  | [] => true
  | .mk pat _ body :: cs => patOK pat && plainL t body && plainC t cs
end


end PMV.Spec.Layout

import PMV.Ast
/-
  Specification side of C02 for expressions, transcribed from CPython's PEG grammar
  (/usr/src/python3.11/Grammar/python.gram, rules `expression` … `atom`) — never derived from the
  printer.  `lvl e` is the grammar level of the top production of a (parenthesised) expression;
  `Gram e` says every child is at least at the level its slot requires, so that the flat text of `e`
  parses back to `erase e`.  Validated against `ast.parse` by the harness (spec validation D).

    0  starred / slice / yield / walrus / non-empty bare tuple (only in slots that admit them)
    1  expression:  lambdef | disjunction 'if' disjunction 'else' expression
    2  disjunction  3 conjunction  4 inversion  5 comparison
    6  bitwise_or   7 bitwise_xor  8 bitwise_and  9 shift_expr  10 sum  11 term
    12 factor       13 power       14 await_primary  15 primary  16 atom
-/
namespace PMV.Spec.Grammar
open PMV

def binLvl : BinOpK → Nat
  | .bitOr => 6 | .bitXor => 7 | .bitAnd => 8 | .lShift => 9 | .rShift => 9
  | .add => 10 | .sub => 10 | .mult => 11 | .matMult => 11 | .div => 11 | .mod => 11 | .floorDiv => 11
  | .pow => 13

/-- required level of the left / right operand of a binary operator. -/
def needL : BinOpK → Nat
  | .pow => 14                      -- power: await_primary '**' factor
  | op => binLvl op                 -- left-recursive rules: same level on the left
def needR : BinOpK → Nat
  | .pow => 12                      -- … '**' factor
  | op => binLvl op + 1             -- next tighter level on the right

def unaryLvl : UnaryOpK → Nat
  | .not_ => 4 | _ => 12
/-- `'not' inversion`, `('+'|'-'|'~') factor`. -/
def needUnary : UnaryOpK → Nat
  | .not_ => 4 | _ => 12

def boolLvl : BoolOpK → Nat
  | .or_ => 2 | .and_ => 3
/-- operands of `or` are conjunctions, of `and` inversions (so nested same-operator BoolOps need parentheses). -/
def needBool : BoolOpK → Nat
  | .or_ => 3 | .and_ => 4

def lvl : Expr → Nat
  | .boolOp op _ => boolLvl op
  | .binOp _ op _ => binLvl op
  | .unaryOp op _ => unaryLvl op
  | .compare .. => 5
  | .lambda .. => 1
  | .ifExp .. => 1
  | .await _ => 14
  | .attribute .. => 15
  | .subscript .. => 15
  | .call .. => 15
  | .tuple [] => 16
  | .tuple (_ :: _) => 0
  | .yield _ => 0
  | .yieldFrom _ => 0
  | .namedExpr .. => 0
  | .starred _ => 0
  | .slice .. => 0
  | _ => 16      -- name, constant, f-string, list, set, dict, comprehensions, generator, paren

def isStarred : Expr → Bool
  | .starred _ => true
  | _ => false
def isSlice : Expr → Bool
  | .slice .. => true
  | _ => false
def isNumConst : Expr → Bool
  | .constant (.int _) => true
  | .constant (.float _) => true
  | .constant (.complex _) => true
  | _ => false

/-- an item of a display / argument list / subscript tuple: an `expression`, or a starred / slice item. -/
def itemOK (e : Expr) : Bool := lvl e ≥ 1 || isStarred e || isSlice e

mutual
def Gram : Expr → Bool
  | .boolOp op vs => gramAll (needBool op) vs
  | .namedExpr tg v => lvl tg ≥ 16 && lvl v ≥ 1 && Gram tg && Gram v
  | .binOp l op r => lvl l ≥ needL op && lvl r ≥ needR op && Gram l && Gram r
  | .unaryOp op v => lvl v ≥ needUnary op && Gram v
  | .lambda a b => lvl b ≥ 1 && gramArguments a && Gram b
  | .ifExp c b o => lvl c ≥ 2 && lvl b ≥ 2 && lvl o ≥ 1 && Gram c && Gram b && Gram o
  | .dict ks vs => gramOpts ks && gramDictVals (ks.map Option.isNone) vs
  | .set es => gramItems es
  | .listComp e gs => lvl e ≥ 1 && Gram e && gramComps gs
  | .setComp e gs => lvl e ≥ 1 && Gram e && gramComps gs
  | .dictComp k v gs => lvl k ≥ 1 && lvl v ≥ 1 && Gram k && Gram v && gramComps gs
  | .generatorExp e gs => lvl e ≥ 1 && Gram e && gramComps gs
  | .await v => lvl v ≥ 15 && Gram v
  | .yield v => gramOpt v
  | .yieldFrom v => lvl v ≥ 1 && Gram v
  | .compare l _ cs => lvl l ≥ 6 && Gram l && gramAll 6 cs
  | .call f as ks => lvl f ≥ 15 && Gram f && gramItems as && gramKeywords ks
  | .joinedStr _ _ => true
  | .constant _ => true
  | .attribute v _ => lvl v ≥ 15 && !isNumConst v && Gram v
  | .subscript v s => lvl v ≥ 15 && Gram v && (lvl s ≥ 1 || isSlice s || lvl s == 0 && !isStarred s) && Gram s
  | .starred v => lvl v ≥ 6 && Gram v
  | .name _ _ => true
  | .list es => gramItems es
  | .tuple es => gramItems es
  | .slice l u s => gramOpt l && gramOpt u && gramOpt s
  | .paren e => Gram e
/-- every element at level ≥ `n`. -/
def gramAll (n : Nat) : List Expr → Bool
  | [] => true
  | e :: es => lvl e ≥ n && Gram e && gramAll n es
def gramItems : List Expr → Bool
  | [] => true
  | e :: es => itemOK e && Gram e && gramItems es
def gramOpt : Option Expr → Bool
  | none => true
  | some e => lvl e ≥ 1 && Gram e
def gramOpts : List (Option Expr) → Bool
  | [] => true
  | e :: es => gramOpt e && gramOpts es
/-- values of a dict display: `'**' bitwise_or` for a `None` key, `expression` otherwise. -/
def gramDictVals : List Bool → List Expr → Bool
  | true :: ks, v :: vs => lvl v ≥ 6 && Gram v && gramDictVals ks vs
  | false :: ks, v :: vs => lvl v ≥ 1 && Gram v && gramDictVals ks vs
  | _, _ => true
def gramKeywords : List Keyword → Bool
  | [] => true
  | .mk _ v :: ks => lvl v ≥ 1 && Gram v && gramKeywords ks
def gramComps : List Comprehension → Bool
  | [] => true
  | .mk tg it ifs _ :: gs => itemOK tg && Gram tg && lvl it ≥ 2 && Gram it && gramAll 2 ifs && gramComps gs
def gramArg : Arg → Bool
  | .mk _ ann => gramOpt ann
def gramArgs : List Arg → Bool
  | [] => true
  | a :: as => gramArg a && gramArgs as
def gramOptArg : Option Arg → Bool
  | none => true
  | some a => gramArg a
def gramArguments : Arguments → Bool
  | .mk po as va ko kd kw ds =>
    gramArgs po && gramArgs as && gramOptArg va && gramArgs ko && gramOpts kd && gramOptArg kw && gramAll 1 ds
end

mutual
/-- Remove every `paren` node. -/
def erase : Expr → Expr
  | .boolOp op vs => .boolOp op (eraseL vs)
  | .namedExpr tg v => .namedExpr (erase tg) (erase v)
  | .binOp l op r => .binOp (erase l) op (erase r)
  | .unaryOp op v => .unaryOp op (erase v)
  | .lambda a b => .lambda (eraseArguments a) (erase b)
  | .ifExp c b o => .ifExp (erase c) (erase b) (erase o)
  | .dict ks vs => .dict (eraseOL ks) (eraseL vs)
  | .set es => .set (eraseL es)
  | .listComp e gs => .listComp (erase e) (eraseComps gs)
  | .setComp e gs => .setComp (erase e) (eraseComps gs)
  | .dictComp k v gs => .dictComp (erase k) (erase v) (eraseComps gs)
  | .generatorExp e gs => .generatorExp (erase e) (eraseComps gs)
  | .await v => .await (erase v)
  | .yield v => .yield (eraseO v)
  | .yieldFrom v => .yieldFrom (erase v)
  | .compare l ops cs => .compare (erase l) ops (eraseL cs)
  | .call f as ks => .call (erase f) (eraseL as) (eraseKeywords ks)
  | .joinedStr s ps => .joinedStr s ps
  | .constant c => .constant c
  | .attribute v a => .attribute (erase v) a
  | .subscript v s => .subscript (erase v) (erase s)
  | .starred v => .starred (erase v)
  | .name i c => .name i c
  | .list es => .list (eraseL es)
  | .tuple es => .tuple (eraseL es)
  | .slice l u s => .slice (eraseO l) (eraseO u) (eraseO s)
  | .paren e => erase e
def eraseL : List Expr → List Expr
  | [] => []
  | e :: es => erase e :: eraseL es
def eraseO : Option Expr → Option Expr
  | none => none
  | some e => some (erase e)
def eraseOL : List (Option Expr) → List (Option Expr)
  | [] => []
  | e :: es => eraseO e :: eraseOL es
def eraseKeywords : List Keyword → List Keyword
  | [] => []
  | .mk a v :: ks => .mk a (erase v) :: eraseKeywords ks
def eraseComps : List Comprehension → List Comprehension
  | [] => []
  | .mk tg it ifs a :: gs => .mk (erase tg) (erase it) (eraseL ifs) a :: eraseComps gs
def eraseArg : Arg → Arg
  | .mk a ann => .mk a (eraseO ann)
def eraseArgs : List Arg → List Arg
  | [] => []
  | a :: as => eraseArg a :: eraseArgs as
def eraseOptArg : Option Arg → Option Arg
  | none => none
  | some a => some (eraseArg a)
def eraseArguments : Arguments → Arguments
  | .mk po as va ko kd kw ds =>
    .mk (eraseArgs po) (eraseArgs as) (eraseOptArg va) (eraseArgs ko) (eraseOL kd) (eraseOptArg kw) (eraseL ds)
end

/-- operand position: a genuine expression (the parser never puts a starred or a slice there). -/
def proper (e : Expr) : Bool := !isStarred e && !isSlice e

mutual
/-- Trees in the image of `ast.parse` (what the property quantifies over): no paren nodes, starred
    and slice only where the grammar admits them, list lengths consistent, non-negative numbers. -/
def WF : Expr → Bool
  | .boolOp _ vs => vs.length ≥ 2 && wfOperands vs
  | .namedExpr tg v => lvl tg ≥ 16 && proper tg && proper v && WF tg && WF v
  | .binOp l _ r => proper l && proper r && WF l && WF r
  | .unaryOp _ v => proper v && WF v
  | .lambda a b => proper b && wfArguments a && WF b
  | .ifExp c b o => proper c && proper b && proper o && WF c && WF b && WF o
  | .dict ks vs => ks.length == vs.length && wfOpts ks && wfOperands vs
  | .set es => wfItems es
  | .listComp e gs => proper e && WF e && wfComps gs
  | .setComp e gs => proper e && WF e && wfComps gs
  | .dictComp k v gs => proper k && proper v && WF k && WF v && wfComps gs
  | .generatorExp e gs => proper e && WF e && wfComps gs
  | .await v => proper v && WF v
  | .yield v => wfOpt v
  | .yieldFrom v => proper v && WF v
  | .compare l ops cs => proper l && WF l && ops.length == cs.length && ops.length ≥ 1 && wfOperands cs
  | .call f as ks => proper f && WF f && wfItems as && wfKeywords ks
  | .joinedStr _ _ => true
  | .constant c => (match c with
      | .int n => n ≥ 0
      | .float r => !r.startsWith "-"
      | .complex r => !r.startsWith "-" && !r.startsWith "("
      | _ => true)
  | .attribute v _ => proper v && WF v
  | .subscript v s => proper v && WF v && !isStarred s && WF s
  | .starred v => proper v && WF v
  | .name _ _ => true
  | .list es => wfItems es
  | .tuple es => wfItems es
  | .slice l u s => wfOpt l && wfOpt u && wfOpt s
  | .paren _ => false
def wfOperands : List Expr → Bool
  | [] => true
  | e :: es => proper e && WF e && wfOperands es
def wfItems : List Expr → Bool
  | [] => true
  | e :: es => WF e && wfItems es
def wfOpt : Option Expr → Bool
  | none => true
  | some e => proper e && WF e
def wfOpts : List (Option Expr) → Bool
  | [] => true
  | e :: es => wfOpt e && wfOpts es
def wfKeywords : List Keyword → Bool
  | [] => true
  | .mk _ v :: ks => proper v && WF v && wfKeywords ks
def wfComps : List Comprehension → Bool
  | [] => true
  | .mk tg it ifs _ :: gs => !isSlice tg && WF tg && proper it && WF it && wfOperands ifs && wfComps gs
def wfArg : Arg → Bool
  | .mk _ ann => wfOpt ann
def wfArgs : List Arg → Bool
  | [] => true
  | a :: as => wfArg a && wfArgs as
def wfOptArg : Option Arg → Bool
  | none => true
  | some a => wfArg a
def wfArguments : Arguments → Bool
  | .mk po as va ko kd kw ds =>
    wfArgs po && wfArgs as && wfOptArg va && wfArgs ko && wfOpts kd && wfOptArg kw && wfOperands ds
end

end PMV.Spec.Grammar

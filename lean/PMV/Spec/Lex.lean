import PMV.Model.Token
/-
  Lexical side of C02: which adjacent token pairs the CPython tokenizer would glue together, stated
  on token classes (Spec), and the obligation that the printer's spacing lists (generated) separate
  every such pair.  Validated against `tokenize` by the harness.
-/
namespace PMV.Spec.Lex
open PMV.Token

/-- Coarse kind of the token about to be emitted. `prefixed` = string/bytes literal whose text
    starts with a letter (`b'..'`, `u'..'`) or any f-string. -/
inductive Next | ident | keyword | number | prefixedStr | prefixedBytes | fstring | other
  deriving DecidableEq, Repr

def Next.all : List Next := [.ident, .keyword, .number, .prefixedStr, .prefixedBytes, .fstring, .other]

def nextOf : Tok → Next
  | .ident _ => .ident
  | .kw _ => .keyword
  | .num _ => .number
  | .strLit r => if startsAlpha r then .prefixedStr else .other
  | .bytesLit r => if startsAlpha r then .prefixedBytes else .other
  | .fstr _ => .fstring
  | _ => .other

/-- Previous token classes whose text ends in a name character. -/
def wordy : List TokType := [.identifier, .keyword, .softKeyword, .numberLiteral]

/-- The tokenizer would read `prev ++ next` as one token (or a different token sequence):
    name/keyword followed by name, keyword, number or a prefixed literal; number followed by a name
    or keyword (`0x1f or` vs `0x1 for`).  Number–number and number–string never occur in a
    grammatical token stream. -/
def glues (prev : TokType) (n : Next) : Bool :=
  match prev, n with
  | .identifier, .other => false
  | .keyword, .other => false
  | .softKeyword, .other => false
  | .identifier, _ => true
  | .keyword, _ => true
  | .softKeyword, _ => true
  | .numberLiteral, .ident => true
  | .numberLiteral, .keyword => true
  | _, _ => false

/-- Does the model put a space before a token of kind `n` after class `prev`? -/
def separates (sp : Spacing) (prev : TokType) : Next → Bool
  | .ident => sp.identifierAfter.contains prev
  | .keyword => sp.keywordAfter.contains prev
  | .number => sp.numberAfter.contains prev
  | .prefixedStr => sp.stringAfter.contains prev
  | .prefixedBytes => sp.bytesAfter.contains prev
  | .fstring => sp.fstringAfter.contains prev
  | .other => false

def allTokTypes : List TokType :=
  [.noToken, .identifier, .keyword, .softKeyword, .numberLiteral, .nonNumberLiteral, .delimiter, .operator,
   .newLine, .endStatement]

def SpacingOK (sp : Spacing) : Bool :=
  allTokTypes.all fun p => Next.all.all fun n => !glues p n || separates sp p n

def violations (sp : Spacing) : List (TokType × Next) :=
  allTokTypes.flatMap fun p => (Next.all.filter fun n => glues p n && !separates sp p n).map fun n => (p, n)

/-- text of a (non-layout) token -/
def text : Tok → String
  | .ident s => s | .kw s => s | .strLit s => s | .bytesLit s => s | .fstr s => s
  | .delim s => s | .op s => s | .num s => s
  | _ => ""

def isLayout : Tok → Bool
  | .newline => true | .indentInc => true | .indentDec => true | .endStmt => true
  | _ => false

end PMV.Spec.Lex

import PMV.Ast
import PMV.Model.PyInt
/-
  PyCore: a fuel-indexed definitional interpreter for a first-order core of Python, over the PMV AST.
  It is the *specification* of behaviour used by C01: observable = printed lines, how the run ends,
  and the final global variables.  Functions are second-class (looked up by name in a static table
  built from the module's top-level `def`s), so no value contains code.  Fuel is consumed only by
  loop iterations and calls; a rewrite that changes neither preserves the result at every fuel.
  Anything outside the core makes the run `stuck` (never a guessed result).  Validated against
  CPython `exec` on generated core programs (spec validation D).
-/
namespace PMV.PyCore
open PMV

inductive Val
  | none | bool (b : Bool) | int (n : Int) | str (s : String)
  deriving DecidableEq, Repr, Inhabited

/-- `str(v)` as `print` shows it -/
def Val.show : Val → String
  | .none => "None"
  | .bool true => "True"
  | .bool false => "False"
  | .int n => toString n
  | .str s => s

def Val.truthy : Val → Bool
  | .none => false
  | .bool b => b
  | .int n => n != 0
  | .str s => s != ""

def Val.asInt : Val → Option Int
  | .int n => some n
  | .bool b => some (if b then 1 else 0)
  | _ => Option.none

abbrev Env := List (String × Val)

def Env.get (e : Env) (x : String) : Option Val := e.lookup x
def Env.set (e : Env) (x : String) (v : Val) : Env :=
  match e with
  | [] => [(x, v)]
  | (y, w) :: rest => if y == x then (y, v) :: rest else (y, w) :: Env.set rest x v

structure St where
  globals : Env
  locals : Option Env        -- some inside a function call
  declGlobal : List String   -- names declared `global` in the running function
  out : List String
  deriving Repr

def St.lookup (s : St) (x : String) : Option Val :=
  match s.locals with
  | some l => (match l.get x with | some v => some v | none => s.globals.get x)
  | none => s.globals.get x

def St.assign (s : St) (x : String) (v : Val) : St :=
  match s.locals with
  | some l => if s.declGlobal.contains x then { s with globals := s.globals.set x v } else { s with locals := some (l.set x v) }
  | none => { s with globals := s.globals.set x v }

/-- how evaluating / executing ends -/
inductive Res (α : Type)
  | ok (a : α)
  | raised (exc : String) (s : St)
  | stuck            -- outside the core
  | timeout          -- fuel exhausted

def pyOp : BinOpK → Option PyInt.Op
  | .add => some .add | .sub => some .sub | .mult => some .mult | .floorDiv => some .floorDiv | .mod => some .mod
  | .bitAnd => some .bitAnd | .bitOr => some .bitOr | .bitXor => some .bitXor | .lShift => some .lShift | .rShift => some .rShift
  | _ => none

def cmpInt : CmpOpK → Int → Int → Option Bool
  | .eq, a, b => some (a == b) | .notEq, a, b => some (a != b) | .lt, a, b => some (a < b) | .ltE, a, b => some (a ≤ b)
  | .gt, a, b => some (a > b) | .gtE, a, b => some (a ≥ b) | _, _, _ => none

/-- `a op b` on values -/
def binVal (a b : Val) (op : BinOpK) : Option (Except String Val) :=
  match a, b, op with
  | .str x, .str y, .add => some (.ok (.str (x ++ y)))
  | .bool x, .bool y, .bitAnd => some (.ok (.bool (x && y)))
  | .bool x, .bool y, .bitOr => some (.ok (.bool (x || y)))
  | .bool x, .bool y, .bitXor => some (.ok (.bool (x != y)))
  | _, _, _ =>
    match a.asInt, b.asInt, pyOp op with
    | some x, some y, some o =>
      (match PyInt.eval o x y with
       | some v => some (.ok (.int v))
       | none => if (o == .floorDiv || o == .mod) && y == 0 then some (.error "ZeroDivisionError") else none)
    | _, _, _ => none

/-- `a op b` for one comparison operator -/
def cmpVal (a b : Val) (op : CmpOpK) : Option (Except String Val) :=
  match a.asInt, b.asInt with
  | some x, some y => (match cmpInt op x y with | some t => some (.ok (.bool t)) | none => none)
  | _, _ =>
    (match op with
     | .eq => some (.ok (.bool (a == b)))
     | .notEq => some (.ok (.bool (a != b)))
     | _ => none)

/-- pure expressions (no calls): `none` = outside the core, `some (Except exc v)` -/
def evalE (s : St) : Expr → Option (Except String Val)
  | .constant .none => some (.ok .none)
  | .constant .true_ => some (.ok (.bool true))
  | .constant .false_ => some (.ok (.bool false))
  | .constant (.int n) => some (.ok (.int n))
  | .constant (.str _ cps) => some (.ok (.str (String.ofList (cps.map Char.ofNat))))
  | .name x _ => (match s.lookup x with | some v => some (.ok v) | none => some (.error "NameError"))
  | .unaryOp .not_ e => (match evalE s e with
      | some (.ok v) => some (.ok (.bool (!v.truthy)))
      | r => r)
  | .unaryOp .uSub e => (match evalE s e with
      | some (.ok v) => (match v.asInt with | some n => some (.ok (.int (-n))) | none => some (.error "TypeError"))
      | r => r)
  | .binOp l op r => (match evalE s l with
      | some (.ok a) => (match evalE s r with
          | some (.ok b) => binVal a b op
          | r' => r')
      | r' => r')
  | .compare l [op] [r] => (match evalE s l with
      | some (.ok a) => (match evalE s r with
          | some (.ok b) => cmpVal a b op
          | r' => r')
      | r' => r')
  | .boolOp .and_ [a, b] => (match evalE s a with
      | some (.ok v) => if v.truthy then evalE s b else some (.ok v)
      | r => r)
  | .boolOp .or_ [a, b] => (match evalE s a with
      | some (.ok v) => if v.truthy then some (.ok v) else evalE s b
      | r => r)
  | .ifExp c a b => (match evalE s c with
      | some (.ok v) => if v.truthy then evalE s a else evalE s b
      | r => r)
  | _ => none

/-- evaluate call arguments left to right -/
def evalArgs (s : St) : List Expr → Option (Except String (List Val))
  | [] => some (.ok [])
  | e :: es =>
    match evalE s e with
    | some (.ok v) => (match evalArgs s es with
        | some (.ok vs) => some (.ok (v :: vs))
        | r => r)
    | some (.error x) => some (.error x)
    | none => none

/-- static function table: name ↦ (parameter names, body) for the module's top-level plain `def`s -/
abbrev FTab := List (String × List String × List Stmt)

def argName : Arg → String
  | .mk n _ => n

def paramNames : Arguments → Option (List String)
  | .mk po args none [] [] none [] => some ((po ++ args).map argName)
  | _ => none

def globalsOf : Stmt → List String
  | .global ns => ns
  | _ => []

/-- names declared `global` at the top level of a function body -/
def declaredGlobals : List Stmt → List String
  | [] => []
  | st :: rest => globalsOf st ++ declaredGlobals rest

inductive Flow
  | normal (s : St) | returned (v : Val) (s : St) | broke (s : St) | continued (s : St)

/-- a statement that is a call of a table function: (function, arguments, assignment target) -/
def callOf : Stmt → Option (String × List Expr × Option String)
  | .expr (.call (.name f _) args []) => if f == "print" then none else some (f, args, none)
  | .assign [.name x _] (.call (.name f _) args []) => some (f, args, some x)
  | _ => none

/-- evaluate, then continue with the value; an exception ends the statement, an expression outside the core is stuck -/
def evalThen (s : St) (e : Expr) (k : Val → Res Flow) : Res Flow :=
  match evalE s e with
  | some (.ok v) => k v
  | some (.error x) => .raised x s
  | none => .stuck

def isConst : Expr → Bool
  | .constant _ => true
  | _ => false

/-- the arguments of a `print(...)` call without keywords -/
def printArgs : Expr → Option (List Expr)
  | .call (.name f _) args [] => if f == "print" then some args else none
  | _ => none

/-- an expression statement that is not a call of a table function -/
def exprStmt (s : St) (e : Expr) : Res Flow :=
  if isConst e then .ok (.normal s)        -- a literal statement does nothing
  else match printArgs e with
    | some args =>
      (match evalArgs s args with
       | some (.ok vs) => .ok (.normal { s with out := s.out ++ [" ".intercalate (vs.map Val.show)] })
       | some (.error x) => .raised x s
       | none => .stuck)
    | none => evalThen s e (fun _ => .ok (.normal s))

def nameOf : Expr → Option (String × Ctx)
  | .name x c => some (x, c)
  | _ => none

def assignTarget : List Expr → Option String
  | [.name x _] => some x
  | _ => none

/-- `raise N` / `raise N()` -/
def raiseName : Option Expr → Option Expr → Option String
  | some (.name n _), none => some n
  | some (.call (.name n _) [] []), none => some n
  | _, _ => none

/-- statements without a nested block and without a call of a table function -/
def simpleExec (s : St) : Stmt → Res Flow
  | .pass => .ok (.normal s)
  | .global _ => .ok (.normal s)
  | .functionDef .. => .ok (.normal s)          -- definitions are in the static table
  | .break_ => .ok (.broke s)
  | .continue_ => .ok (.continued s)
  | .return_ none => .ok (.returned .none s)
  | .return_ (some e) => evalThen s e (fun v => .ok (.returned v s))
  | .expr e => exprStmt s e
  | .assign ts e =>
    (match assignTarget ts with
     | some x => evalThen s e (fun v => .ok (.normal (s.assign x v)))
     | none => .stuck)
  | .augAssign tg op e =>
    (match nameOf tg with
     | some (x, c) => evalThen s (.binOp (.name x c) op e) (fun v => .ok (.normal (s.assign x v)))
     | none => .stuck)
  | .assert_ c _ => evalThen s c (fun v => if v.truthy then .ok (.normal s) else .raised "AssertionError" s)
  | .raise_ e c =>
    (match raiseName e c with
     | some n => .raised n s
     | none => .stuck)
  | _ => .stuck

/-- a function body that falls off its end returns `None` -/
def asCall : Res Flow → Res Flow
  | .ok (.normal s) => .ok (.returned .none s)
  | r => r

mutual
def exec1 (ft : FTab) (fuel : Nat) (s : St) : Stmt → Res Flow
  | .if_ c body orelse =>
    (match evalE s c with
     | some (.ok v) => if v.truthy then execL ft fuel s body else execL ft fuel s orelse
     | some (.error x) => .raised x s
     | none => .stuck)
  | .while_ c body orelse =>
    (match evalE s c with
     | some (.ok v) =>
       if v.truthy then
         match fuel with
         | 0 => .timeout
         | f + 1 =>
           match execL ft (f + 1) s body with
           | .ok (.normal s') => exec1 ft f s' (.while_ c body orelse)
           | .ok (.continued s') => exec1 ft f s' (.while_ c body orelse)
           | .ok (.broke s') => .ok (.normal s')
           | r => r
       else execL ft fuel s orelse
     | some (.error x) => .raised x s
     | none => .stuck)
  | st =>
    match callOf st with
    | some (f, args, target) => callFn ft fuel s f args target
    | none => simpleExec s st
termination_by st => (fuel, 1 + sizeOf st)
def execL (ft : FTab) (fuel : Nat) (s : St) : List Stmt → Res Flow
  | [] => .ok (.normal s)
  | st :: rest =>
    match exec1 ft fuel s st with
    | .ok (.normal s') => execL ft fuel s' rest
    | r => r
termination_by l => (fuel, 1 + sizeOf l)
/-- call a table function with evaluated arguments; `target` receives the result -/
def callFn (ft : FTab) (fuel : Nat) (s : St) (f : String) (args : List Expr) (target : Option String) : Res Flow :=
  match evalArgs s args with
  | some (.ok vs) =>
    (match ft.lookup f with
     | some (params, body) =>
       if params.length != vs.length then .raised "TypeError" s
       else match fuel with
         | 0 => .timeout
         | n + 1 =>
           let inner : St := { globals := s.globals, locals := some (params.zip vs), declGlobal := declaredGlobals body, out := s.out }
           match asCall (execL ft n inner body) with
           | .ok (.returned v s') =>
             let back : St := { s with globals := s'.globals, out := s'.out }
             .ok (.normal (match target with | some x => back.assign x v | none => back))
           | .ok _ => .stuck
           | .raised x s' => .raised x { s with globals := s'.globals, out := s'.out }
           | .stuck => .stuck
           | .timeout => .timeout
     | none => .stuck)
  | some (.error x) => .raised x s
  | none => .stuck
termination_by (fuel, 0)
end

/-- what an observer sees -/
structure Obs where
  out : List String
  ending : String            -- "normal", "raised:<name>", "stuck", "timeout"
  globals : Env
  deriving Repr, DecidableEq

/-- the table entry a top-level statement contributes: plain `def`s with plain positional parameters -/
def defOf : Stmt → Option (String × List String × List Stmt)
  | .functionDef false n args body [] none [] =>
    (match paramNames args with
     | some ps => some (n, ps, body)
     | none => none)
  | _ => none

def collect : List Stmt → FTab
  | [] => []
  | st :: rest =>
    match defOf st with
    | some e => e :: collect rest
    | none => collect rest

def observe (r : Res Flow) (fallback : St) : Obs :=
  match r with
  | .ok (.normal s) => ⟨s.out, "normal", s.globals⟩
  | .ok (.returned _ s) => ⟨s.out, "stuck", s.globals⟩      -- `return` outside a function
  | .ok (.broke s) => ⟨s.out, "stuck", s.globals⟩
  | .ok (.continued s) => ⟨s.out, "stuck", s.globals⟩
  | .raised x s => ⟨s.out, "raised:" ++ x, s.globals⟩
  | .stuck => ⟨fallback.out, "stuck", fallback.globals⟩
  | .timeout => ⟨fallback.out, "timeout", fallback.globals⟩

def St.init : St := ⟨[], none, [], []⟩

def run (fuel : Nat) (m : Module) : Obs := observe (execL (collect m.body) fuel St.init m.body) St.init

end PMV.PyCore

import PMV.Ast
import PMV.Model.PyInt
/-
  PyCore: a fuel-indexed definitional interpreter for a first-order core of Python, over the PMV AST.
  It is the *specification* of behaviour used by C01: observable = printed lines, how the run ends,
  and the final global variables.  Functions are second-class (looked up by name in a static table
  built from the module's top-level `def`s), so no value contains code.  Fuel is consumed only by
  loop iterations and calls; a rewrite that changes neither preserves the result at every fuel.
  Anything outside the core makes the run `stuck` (never a guessed result).  Validated against
  CPython `exec` on generated core programs (spec validation D).
-/
namespace PMV.PyCore
open PMV

inductive Val
  | none | bool (b : Bool) | int (n : Int) | str (s : String)
  | mod (name : String)          -- what an import binds: opaque
  deriving DecidableEq, Repr, Inhabited

/-- `str(v)` as `print` shows it -/
def Val.show : Val → String
  | .none => "None"
  | .bool true => "True"
  | .bool false => "False"
  | .int n => toString n
  | .str s => s
  | .mod n => "<module " ++ n ++ ">"

def Val.truthy : Val → Bool
  | .none => false
  | .bool b => b
  | .int n => n != 0
  | .str s => s != ""
  | .mod _ => true

def Val.asInt : Val → Option Int
  | .int n => some n
  | .bool b => some (if b then 1 else 0)
  | _ => Option.none

abbrev Env := List (String × Val)

def Env.get (e : Env) (x : String) : Option Val := e.lookup x
def Env.set (e : Env) (x : String) (v : Val) : Env :=
  match e with
  | [] => [(x, v)]
  | (y, w) :: rest => if y == x then (y, v) :: rest else (y, w) :: Env.set rest x v

structure St where
  globals : Env
  locals : Option Env        -- some inside a function call
  declGlobal : List String   -- names declared `global` in the running function
  out : List String
  imports : List String := []   -- the import events so far, in order (module and bound name)
  localNames : List String := []  -- the names that are local to the running function: its parameters and every name its body binds
  deriving Repr

/-- is `x` a local variable of the running function (decided statically, as the compiler does) -/
def St.isLocal (s : St) (x : String) : Bool :=
  s.locals.isSome && !s.declGlobal.contains x && s.localNames.contains x

/-- name lookup: a local name is looked up in the locals only (unbound: `UnboundLocalError`), any other name in the globals -/
def St.lookup (s : St) (x : String) : Option Val :=
  if s.isLocal x then s.locals.bind (fun l => l.get x) else s.globals.get x

/-- the exception an unbound name raises -/
def St.unbound (s : St) (x : String) : String := if s.isLocal x then "UnboundLocalError" else "NameError"

/-- assignment: to the locals if the name is local to the running function, else to the globals (module level, or a
    name declared `global`) -/
def St.assign (s : St) (x : String) (v : Val) : St :=
  if s.isLocal x then { s with locals := s.locals.map (fun l => l.set x v) } else { s with globals := s.globals.set x v }

/-- how evaluating / executing ends -/
inductive Res (α : Type)
  | ok (a : α)
  | raised (exc : String) (s : St)
  | stuck            -- outside the core
  | timeout          -- fuel exhausted

def pyOp : BinOpK → Option PyInt.Op
  | .add => some .add | .sub => some .sub | .mult => some .mult | .floorDiv => some .floorDiv | .mod => some .mod
  | .bitAnd => some .bitAnd | .bitOr => some .bitOr | .bitXor => some .bitXor | .lShift => some .lShift | .rShift => some .rShift
  | _ => none

def cmpInt : CmpOpK → Int → Int → Option Bool
  | .eq, a, b => some (a == b) | .notEq, a, b => some (a != b) | .lt, a, b => some (a < b) | .ltE, a, b => some (a ≤ b)
  | .gt, a, b => some (a > b) | .gtE, a, b => some (a ≥ b) | _, _, _ => none

/-- `a op b` on values -/
def binVal (a b : Val) (op : BinOpK) : Option (Except String Val) :=
  match a, b, op with
  | .str x, .str y, .add => some (.ok (.str (x ++ y)))
  | .bool x, .bool y, .bitAnd => some (.ok (.bool (x && y)))
  | .bool x, .bool y, .bitOr => some (.ok (.bool (x || y)))
  | .bool x, .bool y, .bitXor => some (.ok (.bool (x != y)))
  | _, _, _ =>
    match a.asInt, b.asInt, pyOp op with
    | some x, some y, some o =>
      (match PyInt.eval o x y with
       | some v => some (.ok (.int v))
       | none => if (o == .floorDiv || o == .mod) && y == 0 then some (.error "ZeroDivisionError") else none)
    | _, _, _ => none

/-- `a op b` for one comparison operator -/
def cmpVal (a b : Val) (op : CmpOpK) : Option (Except String Val) :=
  match a.asInt, b.asInt with
  | some x, some y => (match cmpInt op x y with | some t => some (.ok (.bool t)) | none => none)
  | _, _ =>
    (match op with
     | .eq => some (.ok (.bool (a == b)))
     | .notEq => some (.ok (.bool (a != b)))
     | _ => none)

/-- pure expressions (no calls): `none` = outside the core, `some (Except exc v)` -/
def evalE (s : St) : Expr → Option (Except String Val)
  | .constant .none => some (.ok .none)
  | .constant .true_ => some (.ok (.bool true))
  | .constant .false_ => some (.ok (.bool false))
  | .constant (.int n) => some (.ok (.int n))
  | .constant (.str _ cps) => some (.ok (.str (String.ofList (cps.map Char.ofNat))))
  | .name x _ =>
    if x == "__debug__" then none       -- only the documented `if __debug__` tests are given a meaning (see `condE`)
    else (match s.lookup x with
      | some (.mod _) => none             -- what an import bound is opaque: using it is outside the core
      | some v => some (.ok v)
      | none => some (.error (s.unbound x)))
  | .unaryOp .not_ e => (match evalE s e with
      | some (.ok v) => some (.ok (.bool (!v.truthy)))
      | r => r)
  | .unaryOp .uSub e => (match evalE s e with
      | some (.ok v) => (match v.asInt with | some n => some (.ok (.int (-n))) | none => some (.error "TypeError"))
      | r => r)
  | .binOp l op r => (match evalE s l with
      | some (.ok a) => (match evalE s r with
          | some (.ok b) => binVal a b op
          | r' => r')
      | r' => r')
  | .compare l [op] [r] => (match evalE s l with
      | some (.ok a) => (match evalE s r with
          | some (.ok b) => cmpVal a b op
          | r' => r')
      | r' => r')
  | .boolOp .and_ [a, b] => (match evalE s a with
      | some (.ok v) => if v.truthy then evalE s b else some (.ok v)
      | r => r)
  | .boolOp .or_ [a, b] => (match evalE s a with
      | some (.ok v) => if v.truthy then some (.ok v) else evalE s b
      | r => r)
  | .ifExp c a b => (match evalE s c with
      | some (.ok v) => if v.truthy then evalE s a else evalE s b
      | r => r)
  | _ => none

/-- evaluate call arguments left to right -/
def evalArgs (s : St) : List Expr → Option (Except String (List Val))
  | [] => some (.ok [])
  | e :: es =>
    match evalE s e with
    | some (.ok v) => (match evalArgs s es with
        | some (.ok vs) => some (.ok (v :: vs))
        | r => r)
    | some (.error x) => some (.error x)
    | none => none

/-- static function table: name ↦ (parameter names, body) for the module's top-level plain `def`s -/
abbrev FTab := List (String × List String × List Stmt)

/-- what a run depends on besides the state: the function table and whether the interpreter runs with `-O`
    (`__debug__` is False and `assert` statements are not executed) -/
structure RunEnv where
  ft : FTab
  opt : Bool := false

def argName : Arg → String
  | .mk n _ => n

def argPlain : Arg → Bool
  | .mk _ none => true
  | _ => false

/-- plain positional parameters without annotations or defaults (an annotation is evaluated when the `def` runs) -/
def paramNames : Arguments → Option (List String)
  | .mk po args none [] [] none [] => if (po ++ args).all argPlain then some ((po ++ args).map argName) else none
  | _ => none

/-- a `def` the static table holds: executing the statement does nothing else -/
def isPlainDef : Stmt → Bool
  | .functionDef false _ args _ [] none [] => (paramNames args).isSome
  | _ => false

def globalsOf : Stmt → List String
  | .global ns => ns
  | _ => []

/-- names declared `global` at the top level of a function body -/
def declaredGlobals : List Stmt → List String
  | [] => []
  | st :: rest => globalsOf st ++ declaredGlobals rest

inductive Flow
  | normal (s : St) | returned (v : Val) (s : St) | broke (s : St) | continued (s : St)

/-- a statement that is a call of a table function: (function, arguments, assignment target) -/
def callOf : Stmt → Option (String × List Expr × Option String)
  | .expr (.call (.name f _) args []) => if f == "print" then none else some (f, args, none)
  | .assign [.name x _] (.call (.name f _) args []) => some (f, args, some x)
  | _ => none

/-- evaluate, then continue with the value; an exception ends the statement, an expression outside the core is stuck -/
def evalThen (s : St) (e : Expr) (k : Val → Res Flow) : Res Flow :=
  match evalE s e with
  | some (.ok v) => k v
  | some (.error x) => .raised x s
  | none => .stuck

def isConst : Expr → Bool
  | .constant _ => true
  | _ => false

/-- the arguments of a `print(...)` call without keywords -/
def printArgs : Expr → Option (List Expr)
  | .call (.name f _) args [] => if f == "print" then some args else none
  | _ => none

/-- an expression statement that is not a call of a table function -/
def exprStmt (s : St) (e : Expr) : Res Flow :=
  if isConst e then .ok (.normal s)        -- a literal statement does nothing
  else match printArgs e with
    | some args =>
      (match evalArgs s args with
       | some (.ok vs) => .ok (.normal { s with out := s.out ++ [" ".intercalate (vs.map Val.show)] })
       | some (.error x) => .raised x s
       | none => .stuck)
    | none => evalThen s e (fun _ => .ok (.normal s))

def nameOf : Expr → Option (String × Ctx)
  | .name x c => some (x, c)
  | _ => none

def assignTarget : List Expr → Option String
  | [.name x _] => some x
  | _ => none

/-- `raise N` / `raise N()` -/
def raiseName : Option Expr → Option Expr → Option String
  | some (.name n _), none => some n
  | some (.call (.name n _) [] []), none => some n
  | _, _ => none

def firstComponent (dotted : String) : String := (dotted.splitOn ".").headD dotted

/-- `import a.b as c`: one import event (what the import machinery is asked for); the bound name is `c`, or the
    first component `a` -/
def importOne (s : St) (a : Alias) : St :=
  let bound := a.asname.getD (firstComponent a.name)
  let s' := s.assign bound (.mod a.name)
  { s' with imports := s'.imports ++ ["import " ++ a.name] }

def importAll (s : St) (names : List Alias) : St := names.foldl importOne s

def fromName (m : Option String) (level : Nat) : String := String.ofList (List.replicate level '.') ++ m.getD ""

/-- `from m import x as y`: one event per name -/
def importFromOne (m : Option String) (level : Nat) (s : St) (a : Alias) : St :=
  let bound := a.asname.getD a.name
  let s' := s.assign bound (.mod (fromName m level ++ ":" ++ a.name))
  { s' with imports := s'.imports ++ ["from " ++ fromName m level ++ " import " ++ a.name] }

def importFromAll (m : Option String) (level : Nat) (s : St) (names : List Alias) : St := names.foldl (importFromOne m level) s

def hasStar (names : List Alias) : Bool := names.any fun a => a.name == "*"

/-- the builtin exception classes (Python 3.12; aliases such as `IOError` are left out: raising them is outside the core) -/
def knownExcs : List String := ["ArithmeticError", "AssertionError", "AttributeError", "BaseException", "BaseExceptionGroup", "BlockingIOError", "BrokenPipeError", "BufferError", "BytesWarning", "ChildProcessError", "ConnectionAbortedError", "ConnectionError", "ConnectionRefusedError", "ConnectionResetError", "DeprecationWarning", "EOFError", "EncodingWarning", "Exception", "ExceptionGroup", "FileExistsError", "FileNotFoundError", "FloatingPointError", "FutureWarning", "GeneratorExit", "ImportError", "ImportWarning", "IndentationError", "IndexError", "InterruptedError", "IsADirectoryError", "KeyError", "KeyboardInterrupt", "LookupError", "MemoryError", "ModuleNotFoundError", "NameError", "NotADirectoryError", "NotImplementedError", "OSError", "OverflowError", "PendingDeprecationWarning", "PermissionError", "ProcessLookupError", "RecursionError", "ReferenceError", "ResourceWarning", "RuntimeError", "RuntimeWarning", "StopAsyncIteration", "StopIteration", "SyntaxError", "SyntaxWarning", "SystemError", "SystemExit", "TabError", "TimeoutError", "TypeError", "UnboundLocalError", "UnicodeDecodeError", "UnicodeEncodeError", "UnicodeError", "UnicodeTranslateError", "UnicodeWarning", "UserWarning", "ValueError", "Warning", "ZeroDivisionError"]

/-- the builtin exception classes strictly between a builtin exception and `Exception` -/
def excParents : String → List String
  | "BlockingIOError" => ["OSError"]
  | "BrokenPipeError" => ["ConnectionError", "OSError"]
  | "BytesWarning" => ["Warning"]
  | "ChildProcessError" => ["OSError"]
  | "ConnectionAbortedError" => ["ConnectionError", "OSError"]
  | "ConnectionError" => ["OSError"]
  | "ConnectionRefusedError" => ["ConnectionError", "OSError"]
  | "ConnectionResetError" => ["ConnectionError", "OSError"]
  | "DeprecationWarning" => ["Warning"]
  | "EncodingWarning" => ["Warning"]
  | "ExceptionGroup" => ["BaseExceptionGroup"]
  | "FileExistsError" => ["OSError"]
  | "FileNotFoundError" => ["OSError"]
  | "FloatingPointError" => ["ArithmeticError"]
  | "FutureWarning" => ["Warning"]
  | "ImportWarning" => ["Warning"]
  | "IndentationError" => ["SyntaxError"]
  | "IndexError" => ["LookupError"]
  | "InterruptedError" => ["OSError"]
  | "IsADirectoryError" => ["OSError"]
  | "KeyError" => ["LookupError"]
  | "ModuleNotFoundError" => ["ImportError"]
  | "NotADirectoryError" => ["OSError"]
  | "NotImplementedError" => ["RuntimeError"]
  | "OverflowError" => ["ArithmeticError"]
  | "PendingDeprecationWarning" => ["Warning"]
  | "PermissionError" => ["OSError"]
  | "ProcessLookupError" => ["OSError"]
  | "RecursionError" => ["RuntimeError"]
  | "ResourceWarning" => ["Warning"]
  | "RuntimeWarning" => ["Warning"]
  | "SyntaxWarning" => ["Warning"]
  | "TabError" => ["IndentationError", "SyntaxError"]
  | "TimeoutError" => ["OSError"]
  | "UnboundLocalError" => ["NameError"]
  | "UnicodeDecodeError" => ["UnicodeError", "ValueError"]
  | "UnicodeEncodeError" => ["UnicodeError", "ValueError"]
  | "UnicodeError" => ["ValueError"]
  | "UnicodeTranslateError" => ["UnicodeError", "ValueError"]
  | "UnicodeWarning" => ["Warning"]
  | "UserWarning" => ["Warning"]
  | "ZeroDivisionError" => ["ArithmeticError"]
  | _ => []

/-- the builtin exceptions that `except Exception` does not catch -/
def excBaseOnly : List String := ["BaseException", "BaseExceptionGroup", "GeneratorExit", "KeyboardInterrupt", "SystemExit"]

/-- the builtin exception classes whose constructor needs arguments: `raise N` / `raise N()` raise `TypeError` -/
def excNeedsArgs : List String := ["BaseExceptionGroup", "ExceptionGroup", "UnicodeDecodeError", "UnicodeEncodeError", "UnicodeTranslateError"]

/-- what `raise N` raises -/
def raisedBy (n : String) : String := if excNeedsArgs.contains n then "TypeError" else n

/-- statements without a nested block and without a call of a table function -/
def simpleExec (s : St) : Stmt → Res Flow
  | .pass => .ok (.normal s)
  | .global _ => .ok (.normal s)
  | .functionDef a n args body decs ret tps =>
    -- definitions are in the static table; a decorated / annotated / async `def` is outside the core
    if isPlainDef (.functionDef a n args body decs ret tps) then .ok (.normal s) else .stuck
  | .break_ => .ok (.broke s)
  | .continue_ => .ok (.continued s)
  | .return_ none => .ok (.returned .none s)
  | .return_ (some e) => evalThen s e (fun v => .ok (.returned v s))
  | .expr e => exprStmt s e
  | .assign ts e =>
    (match assignTarget ts with
     | some x => evalThen s e (fun v => .ok (.normal (s.assign x v)))
     | none => .stuck)
  | .augAssign tg op e =>
    (match nameOf tg with
     | some (x, c) => evalThen s (.binOp (.name x c) op e) (fun v => .ok (.normal (s.assign x v)))
     | none => .stuck)
  | .assert_ c _ => evalThen s c (fun v => if v.truthy then .ok (.normal s) else .raised "AssertionError" s)
  | .annAssign tg _ v simple =>
    -- an annotated name inside a function: the annotation is not evaluated (PEP 526); at module level it is, which is
    -- outside the core
    if s.locals.isSome && simple then
      (match nameOf tg, v with
       | some (x, _), some e => evalThen s e (fun w => .ok (.normal (s.assign x w)))
       | some _, none => .ok (.normal s)
       | none, _ => .stuck)
    else .stuck
  | .import_ names => .ok (.normal (importAll s names))
  | .importFrom m names level => if hasStar names then .stuck else .ok (.normal (importFromAll m level s names))
  | .raise_ e c =>
    (match raiseName e c with
     | some n => if knownExcs.contains n then .raised (raisedBy n) s else .stuck     -- only builtin exception classes are raised by name
     | none => .stuck)
  | _ => .stuck

/-- which raised exception names a handler's type expression catches -/
inductive ExcPat
  | any | names (ns : List String) | unknown
  deriving DecidableEq, Repr

def nameList : List Expr → Option (List String)
  | [] => some []
  | e :: es =>
    match nameOf e, nameList es with
    | some (x, _), some xs => some (x :: xs)
    | _, _ => none

def excKind : Option Expr → ExcPat
  | none => .any
  | some (.tuple es) => (match nameList es with | some ns => .names ns | none => .unknown)
  | some e => (match nameOf e with | some (x, _) => .names [x] | none => .unknown)

/-- does a handler (type pattern, `as` name) catch the raised name: `some true` / `some false`; `none` = outside the
    core (binding the exception object, a type that is not a name or a tuple of names).  Exception classes are
    matched by name, with the builtin hierarchy (`excParents`); a handler naming anything but a builtin exception class
    is outside the core. -/
def catches (p : ExcPat) (asName : Option String) (x : String) : Option Bool :=
  match asName with
  | some _ => none
  | none =>
    match p with
    | .any => some true
    | .names ns =>
      if ns.all knownExcs.contains then
        some (ns.contains x || (excParents x).any ns.contains || (ns.contains "Exception" && !excBaseOnly.contains x) || ns.contains "BaseException")
      else none
    | .unknown => none

/-- the state an outcome carries (`none` for stuck / timeout) -/
def stateOf? : Res Flow → Option St
  | .ok (.normal s) => some s
  | .ok (.returned _ s) => some s
  | .ok (.broke s) => some s
  | .ok (.continued s) => some s
  | .raised _ s => some s
  | _ => none

/-- after a `finally` block that completed normally in state `s2`, the pending outcome resumes in that state -/
def resume (r : Res Flow) (s2 : St) : Res Flow :=
  match r with
  | .ok (.normal _) => .ok (.normal s2)
  | .ok (.returned v _) => .ok (.returned v s2)
  | .ok (.broke _) => .ok (.broke s2)
  | .ok (.continued _) => .ok (.continued s2)
  | .raised x _ => .raised x s2
  | r => r

/-- after the body of a `try`: the `else` clause (not protected by the handlers) or the handlers -/
def afterBody (r0 : Res Flow) (runElse : St → Res Flow) (runHandlers : String → St → Res Flow) : Res Flow :=
  match r0 with
  | .ok (.normal s1) => runElse s1
  | .raised x s1 => runHandlers x s1
  | r => r

/-- the `finally` clause always runs; if it completes normally the pending outcome resumes, otherwise it wins -/
def withFinally (r1 : Res Flow) (runFinally : St → Res Flow) : Res Flow :=
  match stateOf? r1 with
  | none => r1
  | some s1 =>
    match runFinally s1 with
    | .ok (.normal s2) => resume r1 s2
    | rf => rf

/-- `for x in range(e)`: the loop variable and the bound expression; anything else is outside the core -/
def forRange : Expr → Expr → Option (String × Expr)
  | .name x _, .call (.name f _) [e] [] => if f == "range" then some (x, e) else none
  | _, _ => none

/-- the documented spellings of "are we running without -O" -/
def isDebugTest : Expr → Bool
  | .name "__debug__" _ => true
  | .compare (.name "__debug__" _) [.is_] [.constant .true_] => true
  | .compare (.name "__debug__" _) [.isNot] [.constant .false_] => true
  | .compare (.name "__debug__" _) [.eq] [.constant .true_] => true
  | _ => false

def isDbgName : Expr → Bool
  | .name x _ => x == "__debug__"
  | _ => false

/-- `__debug__ <op> e` -/
def debugCmp : Expr → Option (CmpOpK × Expr)
  | .compare (.name x _) [op] [e] => if x == "__debug__" then some (op, e) else none
  | _ => none

/-- what `__debug__ <op> b` asks, for a Boolean `b`: `some true` = "are we running without -O", `some false` = "with -O" -/
def debugSense : CmpOpK → Bool → Option Bool
  | .is_, b => some b
  | .eq, b => some b
  | .isNot, b => some (!b)
  | .notEq, b => some (!b)
  | _, _ => none

/-- the value of an `if` test: `__debug__` itself and its comparisons with a Boolean (a literal, or a name that holds one)
    are True or False according to the `-O` flag; anything else is an ordinary expression -/
def condE (opt : Bool) (s : St) (c : Expr) : Option (Except String Val) :=
  if isDbgName c then some (.ok (.bool (!opt)))
  else match debugCmp c with
    | some (op, e) =>
      (match evalE s e with
       | some (.ok (.bool b)) =>
         (match debugSense op b with
          | some positive => some (.ok (.bool (if positive then !opt else opt)))
          | none => none)
       | some (.ok _) => none
       | some (.error x) => some (.error x)
       | none => none)
    | none => evalE s c

def isAssertStmt : Stmt → Bool
  | .assert_ .. => true
  | _ => false

/-- a function body that falls off its end returns `None` -/
def asCall : Res Flow → Res Flow
  | .ok (.normal s) => .ok (.returned .none s)
  | r => r

/-! ### Which names are local to a function: the binding constructs of the core

The compiler decides statically which names are local to a function: every name the body binds anywhere
(assignment, loop variable, import) unless declared `global`.  `bindTop` computes that list for a body made of
core statements and answers `none` for a body that contains anything else (a nested `def`, `with`, `del`, an
assignment expression, a `global` statement that is not at the top level, …): calling such a function is
outside the core. -/

/-- the expression forms the core evaluates: none of them binds a name or opens a scope -/
def coreE : Expr → Bool
  | .constant _ => true
  | .name _ _ => true
  | .unaryOp _ e => coreE e
  | .binOp l _ r => coreE l && coreE r
  | .compare l [_] [r] => coreE l && coreE r
  | .boolOp _ [a, b] => coreE a && coreE b
  | .ifExp c a b => coreE c && coreE a && coreE b
  | _ => false

/-- an expression, or a call `f(e, …)` of a name with core arguments (statement level only) -/
def coreX : Expr → Bool
  | .call (.name _ _) args [] => args.all coreE
  | e => coreE e

def aliasBound (a : Alias) : String := a.asname.getD (firstComponent a.name)
def fromBound (a : Alias) : String := a.asname.getD a.name

/-- both, appended -/
def oapp (a b : Option (List String)) : Option (List String) :=
  match a, b with
  | some x, some y => some (x ++ y)
  | _, _ => none

def oguard (c : Bool) (r : Option (List String)) : Option (List String) := if c then r else none

mutual
/-- the names a core statement binds (`none`: not a core statement) -/
def bindS : Stmt → Option (List String)
  | .pass => some []
  | .break_ => some []
  | .continue_ => some []
  | .return_ none => some []
  | .return_ (some e) => oguard (coreE e) (some [])
  | .expr e => oguard (coreX e) (some [])
  | .assign ts e => (match assignTarget ts with | some x => oguard (coreX e) (some [x]) | none => none)
  | .augAssign tg _ e => (match nameOf tg with | some (x, _) => oguard (coreE e) (some [x]) | none => none)
  | .assert_ c m => oguard (coreE c && (match m with | some e => coreE e | none => true)) (some [])
  | .annAssign tg ann v simple =>
    (match nameOf tg with
     | some (x, _) => oguard (simple && coreE ann && (match v with | some e => coreE e | none => true)) (some [x])
     | none => none)
  | .import_ names => some (names.map aliasBound)
  | .importFrom _ names _ => oguard (!hasStar names) (some (names.map fromBound))
  | .raise_ e c => oguard (raiseName e c).isSome (some [])
  | .if_ c b o => oguard (coreE c) (oapp (bindL b) (bindL o))
  | .while_ c b o => oguard (coreE c) (oapp (bindL b) (bindL o))
  | .for_ false tg it b o =>
    (match forRange tg it with
     | some (x, e) => oguard (coreE e) (oapp (some [x]) (oapp (bindL b) (bindL o)))
     | none => none)
  | .try_ false b hs o f => oapp (bindL b) (oapp (bindH hs) (oapp (bindL o) (bindL f)))
  | _ => none
def bindL : List Stmt → Option (List String)
  | [] => some []
  | st :: rest => oapp (bindS st) (bindL rest)
def bindH : List Handler → Option (List String)
  | [] => some []
  | .mk ty nm body :: rest => oguard (nm.isNone && excKind ty != .unknown) (oapp (bindL body) (bindH rest))
end

/-- the bound names as a set: without duplicates, sorted (only membership matters to the semantics) -/
def insertName (x : String) : List String → List String
  | [] => [x]
  | y :: ys => if x == y then y :: ys else if x < y then x :: y :: ys else y :: insertName x ys
def canonNames (l : List String) : List String := l.foldr insertName []

/-- a function body: `global` declarations are allowed at its top level -/
def bindTop : List Stmt → Option (List String)
  | [] => some []
  | .global _ :: rest => bindTop rest
  | st :: rest => oapp (bindS st) (bindTop rest)

mutual
def exec1 (ft : RunEnv) (fuel : Nat) (s : St) : Stmt → Res Flow
  | .if_ c body orelse =>
    (match condE ft.opt s c with
     | some (.ok v) => if v.truthy then execL ft fuel s body else execL ft fuel s orelse
     | some (.error x) => .raised x s
     | none => .stuck)
  | .while_ c body orelse =>
    (match evalE s c with
     | some (.ok v) =>
       if v.truthy then
         match fuel with
         | 0 => .timeout
         | f + 1 =>
           match execL ft (f + 1) s body with
           | .ok (.normal s') => exec1 ft f s' (.while_ c body orelse)
           | .ok (.continued s') => exec1 ft f s' (.while_ c body orelse)
           | .ok (.broke s') => .ok (.normal s')
           | r => r
       else execL ft fuel s orelse
     | some (.error x) => .raised x s
     | none => .stuck)
  | .for_ false tg it body orelse =>
    (match forRange tg it with
     | some (x, e) =>
       evalThen s e (fun v =>
         match v.asInt with
         | some n => execFor ft fuel s x 0 n body orelse
         | none => .stuck)
     | none => .stuck)
  | .try_ false body hs orelse fin =>
    -- body; then `else` or the first matching handler; then `finally`, always
    withFinally
      (afterBody (execL ft fuel s body) (fun s1 => execL ft fuel s1 orelse) (fun x s1 => execH ft fuel s1 x hs))
      (fun s1 => execL ft fuel s1 fin)
  | st =>
    if ft.opt && isAssertStmt st then .ok (.normal s)       -- `python -O` does not execute assert statements
    else match callOf st with
      | some (f, args, target) => callFn ft fuel s f args target
      | none => simpleExec s st
termination_by st => (fuel, 1 + sizeOf st)
/-- iterations `i, i+1, …, n-1` of `for x in range(n)`; each iteration costs one unit of fuel -/
def execFor (ft : RunEnv) (fuel : Nat) (s : St) (x : String) (i n : Int) (body orelse : List Stmt) : Res Flow :=
  if i < n then
    match fuel with
    | 0 => .timeout
    | f + 1 =>
      match execL ft (f + 1) (s.assign x (.int i)) body with
      | .ok (.normal s') => execFor ft f s' x (i + 1) n body orelse
      | .ok (.continued s') => execFor ft f s' x (i + 1) n body orelse
      | .ok (.broke s') => .ok (.normal s')
      | r => r
  else execL ft fuel s orelse
termination_by (fuel, 2 + sizeOf body + sizeOf orelse)
/-- the first handler that catches `x` runs; no handler: the exception propagates -/
def execH (ft : RunEnv) (fuel : Nat) (s : St) (x : String) : List Handler → Res Flow
  | [] => .raised x s
  | .mk ty nm hbody :: rest =>
    match catches (excKind ty) nm x with
    | some true => execL ft fuel s hbody
    | some false => execH ft fuel s x rest
    | none => .stuck
termination_by hs => (fuel, 1 + sizeOf hs)
def execL (ft : RunEnv) (fuel : Nat) (s : St) : List Stmt → Res Flow
  | [] => .ok (.normal s)
  | st :: rest =>
    match exec1 ft fuel s st with
    | .ok (.normal s') => execL ft fuel s' rest
    | r => r
termination_by l => (fuel, 1 + sizeOf l)
/-- call a table function with evaluated arguments; `target` receives the result -/
def callFn (ft : RunEnv) (fuel : Nat) (s : St) (f : String) (args : List Expr) (target : Option String) : Res Flow :=
  match evalArgs s args with
  | some (.ok vs) =>
    (match ft.ft.lookup f with
     | some (params, body) =>
       match bindTop body with
       | none => .stuck               -- the body is outside the core
       | some bound =>
       if params.length != vs.length then .raised "TypeError" s
       else match fuel with
         | 0 => .timeout
         | n + 1 =>
           let inner : St := { globals := s.globals, locals := some (params.zip vs), declGlobal := declaredGlobals body, out := s.out,
                               imports := s.imports, localNames := params ++ canonNames bound }
           match asCall (execL ft n inner body) with
           | .ok (.returned v s') =>
             let back : St := { s with globals := s'.globals, out := s'.out, imports := s'.imports }
             .ok (.normal (match target with | some x => back.assign x v | none => back))
           | .ok _ => .stuck
           | .raised x s' => .raised x { s with globals := s'.globals, out := s'.out, imports := s'.imports }
           | .stuck => .stuck
           | .timeout => .timeout
     | none => .stuck)
  | some (.error x) => .raised x s
  | none => .stuck
termination_by (fuel, 0)
end

/-- what an observer sees -/
structure Obs where
  out : List String
  ending : String            -- "normal", "raised:<name>", "stuck", "timeout"
  globals : Env
  imports : List String := []    -- import events, in order
  deriving Repr, DecidableEq

/-- the table entry a top-level statement contributes: plain `def`s with plain positional parameters -/
def defOf : Stmt → Option (String × List String × List Stmt)
  | .functionDef false n args body [] none [] =>
    (match paramNames args with
     | some ps => some (n, ps, body)
     | none => none)
  | _ => none

def collect : List Stmt → FTab
  | [] => []
  | st :: rest =>
    match defOf st with
    | some e => e :: collect rest
    | none => collect rest

def observe (r : Res Flow) (fallback : St) : Obs :=
  match r with
  | .ok (.normal s) => ⟨s.out, "normal", s.globals, s.imports⟩
  | .ok (.returned _ s) => ⟨s.out, "stuck", s.globals, s.imports⟩      -- `return` outside a function
  | .ok (.broke s) => ⟨s.out, "stuck", s.globals, s.imports⟩
  | .ok (.continued s) => ⟨s.out, "stuck", s.globals, s.imports⟩
  | .raised x s => ⟨s.out, "raised:" ++ x, s.globals, s.imports⟩
  | .stuck => ⟨fallback.out, "stuck", fallback.globals, fallback.imports⟩
  | .timeout => ⟨fallback.out, "timeout", fallback.globals, fallback.imports⟩

def St.init : St := ⟨[], none, [], [], [], []⟩

def run (fuel : Nat) (m : Module) : Obs := observe (execL ⟨collect m.body, false⟩ fuel St.init m.body) St.init

/-- the observable under `python -O` -/
def runO (fuel : Nat) (m : Module) : Obs := observe (execL ⟨collect m.body, true⟩ fuel St.init m.body) St.init

end PMV.PyCore

/-
  Specification: the first physical line of a Python source (Lexical analysis §2.1.2): lines end at
  LF, CRLF or a lone CR.
-/
namespace PMV.Spec.Lines

def isLineEnd (c : Nat) : Bool := c == 10 || c == 13

def firstLine (s : List Nat) : List Nat := s.takeWhile (fun c => !isLineEnd c)

end PMV.Spec.Lines

import PMV.Model.Transforms
/-
  Specification side of C05: for a set of enabled options, `canonModule` erases exactly the rewrites
  the documentation allows those options to make (docs/source/transforms/*.rst).  The property then
  reads: canon_O (minify(P, O)) = canon_O (P).  Never derived from the transforms' code.

  * remove_pass / remove_asserts / remove_literal_statements: the statements may disappear from any
    block; a literal `0` statement may stand in for a block that would be empty.
  * remove_debug: an `if` testing `__debug__` (the four truthy spellings) may be replaced by what `-O`
    would run, i.e. its `else` block (nothing when there is none).
  * remove_literal_statements keeps the module docstring when the module uses `__doc__`.
  * combine_imports: import statements are equal up to splitting them into single-name imports.
  * remove_object_base: `object` may disappear from a base list.
  * remove_explicit_return_none: `return None` ≡ `return`; trailing bare `return`s of a function may go.
  * remove_annotations: the four kinds; never in dataclass / NamedTuple / TypedDict classes; a
    value-less annotated name keeps an annotation (the literal `0`).
  * convert_posargs_to_args: positional-only parameters become ordinary parameters.
  * remove_builtin_exception_brackets: `raise N()` ≡ `raise N` for the given un-shadowed builtin exceptions.
-/
namespace PMV.Spec.Rewrites
open PMV PMV.Transforms

structure COpts where
  pass : Bool := false
  asserts : Bool := false
  debug : Bool := false
  literals : Bool := false
  keepModuleDoc : Bool := false      -- the module uses `__doc__`
  imports : Bool := false
  object : Bool := false
  returnNone : Bool := false
  posargs : Bool := false
  ann : AnnOpts := ⟨false, false, false, false⟩
  brackets : List String := []
  deriving Repr

def isZero : Stmt → Bool
  | .expr (.constant (.int 0)) => true
  | _ => false

/-- does any enabled option leave `0` placeholders -/
def COpts.placeholders (c : COpts) : Bool := c.pass || c.asserts || c.debug || c.literals || c.returnNone

def dropStmt (c : COpts) (s : Stmt) : Bool :=
  (c.pass && isPass s) || (c.asserts && isAssert s) || (c.literals && isLiteralStmt s) || (c.placeholders && isZero s)

/-- the four documented truthy spellings of a `__debug__` test -/
def isDebugTest : Expr → Bool
  | .name "__debug__" _ => true
  | .compare (.name "__debug__" _) [.is_] [.constant .true_] => true
  | .compare (.name "__debug__" _) [.isNot] [.constant .false_] => true
  | .compare (.name "__debug__" _) [.eq] [.constant .true_] => true
  | _ => false

/-- under `-O` an `if __debug__:` runs its else block only -/
def debugSplice (c : COpts) : Stmt → List Stmt
  | .if_ test body orelse => if c.debug && isDebugTest test then orelse else [.if_ test body orelse]
  | s => [s]

def splitImport (c : COpts) : Stmt → List Stmt
  | .import_ names => if c.imports then names.map (fun a => .import_ [a]) else [.import_ names]
  | .importFrom m names l => if c.imports then names.map (fun a => .importFrom m [a] l) else [.importFrom m names l]
  | s => [s]

def isBareReturn : Stmt → Bool
  | .return_ none => true
  | _ => false

/-- every bare `return` at the end of the list goes (the transform removes one per run; a function that ends in several
    is the same function with or without them) -/
def dropTrailingBareReturn : List Stmt → List Stmt
  | [] => []
  | s :: ss =>
    match dropTrailingBareReturn ss with
    | [] => if isBareReturn s then [] else [s]
    | r => s :: r

/-- canonical form of a statement list whose statements are already canonical -/
def cSuite (c : COpts) (isFuncBody : Bool) (b : List Stmt) : List Stmt :=
  let b := b.flatMap (debugSplice c)
  let b := b.filter (fun s => !dropStmt c s)
  let b := b.flatMap (splitImport c)
  let b := if c.returnNone && isFuncBody then dropTrailingBareReturn b else b
  -- dropping the trailing return may expose further placeholders: filter once more
  b.filter (fun s => !dropStmt c s)

def cExprOpt (c : COpts) : Option Expr → Option Expr
  | some (.call (.name n x) [] []) => if c.brackets.contains n then some (.name n x) else some (.call (.name n x) [] [])
  | e => e

def cArguments (c : COpts) (a : Arguments) : Arguments := stripArguments c.ann a

/-- positional-only markers are erased in a separate pass over every expression position (`canonModule`) -/
def cExpr (_c : COpts) (e : Expr) : Expr := e

mutual
/-- `cls` = (decorators, bases) of the class whose *namespace* the statement belongs to: a class body and the
    compound statements nested in it (if / for / while / with / try / match), but not a nested def or class -/
def cStmt (c : COpts) (cls : Option (List Expr × List Expr)) : Stmt → Stmt
  | .functionDef a n args body decs ret tps =>
    .functionDef a n (cArguments c args)
      (cSuite c true (cBody c none body)) (decs.map (cExpr c)) (if c.ann.returns then none else ret.map (cExpr c)) tps
  | .classDef n bases kws body decs tps =>
    .classDef n ((if c.object then bases.filter (fun b => !isObjectName b) else bases).map (cExpr c)) kws
      (cSuite c false (cBody c (some (decs, bases)) body)) (decs.map (cExpr c)) tps
  | .return_ v =>
    (match v with
     | some (.constant .none) => if c.returnNone then .return_ none else .return_ v
     | _ => .return_ (v.map (cExpr c)))
  | .annAssign tg ann v simple =>
    (match annAssign c.ann cls tg ann v simple with
     | .assign ts val => .assign ts (cExpr c val)
     | .annAssign tg' ann' v' s' => .annAssign tg' (cExpr c ann') (v'.map (cExpr c)) s'
     | s => s)
  | .raise_ e ca => .raise_ (cExprOpt c e) (cExprOpt c ca)
  | .for_ a tg it body orelse => .for_ a tg (cExpr c it) (cSuite c false (cBody c cls body)) (cSuite c false (cBody c cls orelse))
  | .while_ t body orelse => .while_ (cExpr c t) (cSuite c false (cBody c cls body)) (cSuite c false (cBody c cls orelse))
  | .if_ t body orelse => .if_ (cExpr c t) (cSuite c false (cBody c cls body)) (cSuite c false (cBody c cls orelse))
  | .with_ a items body => .with_ a items (cSuite c false (cBody c cls body))
  | .try_ st body hs orelse fin =>
    .try_ st (cSuite c false (cBody c cls body)) (cHandlers c cls hs) (cSuite c false (cBody c cls orelse)) (cSuite c false (cBody c cls fin))
  | .match_ s cases => .match_ s (cCases c cls cases)
  | .assign ts v => .assign ts (cExpr c v)
  | .expr v => .expr (cExpr c v)
  | s => s
def cBody (c : COpts) (cls : Option (List Expr × List Expr)) : List Stmt → List Stmt
  | [] => []
  | s :: ss => cStmt c cls s :: cBody c cls ss
def cHandlers (c : COpts) (cls : Option (List Expr × List Expr)) : List Handler → List Handler
  | [] => []
  | .mk ty n body :: hs => .mk ty n (cSuite c false (cBody c cls body)) :: cHandlers c cls hs
def cCases (c : COpts) (cls : Option (List Expr × List Expr)) : List MatchCase → List MatchCase
  | [] => []
  | .mk p g body :: cs => .mk p g (cSuite c false (cBody c cls body)) :: cCases c cls cs
end

def isDocstring : Stmt → Bool
  | .expr (.constant (.str _ _)) => true
  | _ => false

/-- canonical form of a module under the enabled options -/
def canonModule (c : COpts) (m0 : Module) : Module :=
  let m := if c.posargs then removePosargs m0 else m0
  match m.body with
  | d :: rest =>
    if c.literals && c.keepModuleDoc && isDocstring d then ⟨d :: cSuite c false (cBody c none rest)⟩
    else ⟨cSuite c false (cBody c none m.body)⟩
  | [] => ⟨[]⟩

end PMV.Spec.Rewrites

/-
  What an integer literal denotes (Python lexical analysis §2.4.5): decimal digits, or `0x` followed
  by hexadecimal digits. `litValue` is the specification used by T02.6.
-/
namespace PMV.Spec.Numbers

def charVal (c : Char) : Option Nat :=
  if '0' ≤ c ∧ c ≤ '9' then some (c.toNat - 48)
  else if 'a' ≤ c ∧ c ≤ 'f' then some (c.toNat - 87)
  else none

/-- value of a big-endian digit string in base `b`. -/
def digitsValue (b : Nat) (cs : List Char) : Option Nat :=
  cs.foldl (fun acc c => do
    let a ← acc
    let d ← charVal c
    if d < b then some (a * b + d) else none) (some 0)

def litValue (cs : List Char) : Option Nat :=
  match cs with
  | '0' :: 'x' :: rest => if rest.isEmpty then none else digitsValue 16 rest
  | [] => none
  | _ => digitsValue 10 cs

end PMV.Spec.Numbers

import PMV.Model.StmtPrinter
import PMV.Spec.Lex
/-
  Layout side of C02.  The printer drives a small state machine (`Token.step`: `newline`, `indent ±1`, `end_statement`, with
  the `rstrip('\n\t;')` behaviour of `TokenPrinter.newline`).  This file gives
    * the same machine one level up (`lstep`): its output is a list of layout tokens — a real token, a line break to a
      given depth, or a `;` — instead of characters;
    * the specification of the layout (`emitBody`): a function from the statement tree that reads like the grammar — one
      line per compound-statement clause, the suite either on the same line (simple statements joined by single `;`) or
      as a block one level deeper, a line break (to the depth of the block) between statements whenever one of the two is
      compound or the block is the module, never an empty line, never a trailing separator.
  `Proofs/Layout*.lean` show that the character-level machine refines `lstep` (T02.5) and that `lstep` over the printer's
  token stream produces exactly `emitBody` (T02.4).
-/
namespace PMV.Spec.Layout
open PMV PMV.Token PMV.Printer

/-- a layout token: a real token (with the space the spacing rule put before it), a line break followed by `depth` tabs, a `;` -/
inductive LTok
  | t (space : Bool) (tok : Tok)
  | nl (depth : Nat)
  | semi
  deriving Repr, DecidableEq

def LTok.isLay : LTok → Bool
  | .t .. => false
  | _ => true

/-- characters of a layout token, reversed (as they sit in `St.code`) -/
def LTok.revChars : LTok → List Char
  | .t sp tok => (Spec.Lex.text tok).toList.reverse ++ (if sp then [' '] else [])
  | .nl d => List.replicate d '\t' ++ ['\n']
  | .semi => [';']

/-- characters of a reversed layout-token list, reversed -/
def revCode : List LTok → List Char
  | [] => []
  | x :: xs => x.revChars ++ revCode xs

structure LSt where
  acc : List LTok      -- reversed
  indent : Nat
  prev : TokType
  deriving Repr

def LSt.init : LSt := ⟨[], 0, .noToken⟩

def lpush (s : LSt) (space : Bool) (tok : Tok) (ty : TokType) : LSt :=
  { s with acc := .t space tok :: s.acc, prev := ty }

def lnewline (s : LSt) : LSt :=
  if s.acc.isEmpty then s else { s with acc := .nl s.indent :: s.acc.dropWhile LTok.isLay, prev := .newLine }

/-- `Token.step`, on layout tokens -/
def lstep (sp : Spacing) (s : LSt) : Tok → LSt
  | .ident x => lpush s (sp.identifierAfter.contains s.prev) (.ident x) .identifier
  | .kw x => lpush s (sp.keywordAfter.contains s.prev) (.kw x) (if sp.softKeywords.contains x then .softKeyword else .keyword)
  | .strLit r => lpush s (startsAlpha r && sp.stringAfter.contains s.prev) (.strLit r) .nonNumberLiteral
  | .bytesLit r => lpush s (startsAlpha r && sp.bytesAfter.contains s.prev) (.bytesLit r) .nonNumberLiteral
  | .fstr x => lpush s (sp.fstringAfter.contains s.prev) (.fstr x) .nonNumberLiteral
  | .delim x => lpush s false (.delim x) .delimiter
  | .op x => lpush s false (.op x) .operator
  | .num x => lpush s (sp.numberAfter.contains s.prev) (.num x) .numberLiteral
  | .newline => lnewline s
  | .indentInc => { s with indent := s.indent + 1 }
  | .indentDec => { s with indent := s.indent - 1 }
  | .endStmt =>
    if s.indent == 0 then { lnewline s with prev := .endStatement }
    else
      match s.acc with
      | .semi :: _ => { s with prev := .endStatement }
      | _ => { s with acc := .semi :: s.acc, prev := .endStatement }

def lrun (sp : Spacing) (ts : List Tok) : LSt := ts.foldl (lstep sp) LSt.init

/-- the text of a token can stand in a line: it is not empty, holds no line break, and its last character is none of
    those `newline` strips (`'\n'`, `'\t'`, `';'`) -/
def textOK (tok : Tok) : Bool :=
  Spec.Lex.isLayout tok ||
    (match (Spec.Lex.text tok).toList.reverse with
     | [] => false
     | c :: _ => !stripChar c)

end PMV.Spec.Layout

/-! ### the layout machine without spacing, and the specification of the layout -/
namespace PMV.Spec.Layout
open PMV PMV.Token PMV.Printer

/-- a layout token without the spacing decision -/
inductive LT
  | t (tok : Tok)
  | nl (depth : Nat)
  | semi
  deriving Repr, DecidableEq

def LT.isLay : LT → Bool
  | .t _ => false
  | _ => true

def LTok.erase : LTok → LT
  | .t _ tok => .t tok
  | .nl d => .nl d
  | .semi => .semi

structure L0 where
  acc : List LT      -- reversed
  indent : Nat
  deriving Repr

def l0newline (s : L0) : L0 :=
  if s.acc.isEmpty then s else { s with acc := .nl s.indent :: s.acc.dropWhile LT.isLay }

def l0step (s : L0) (tok : Tok) : L0 :=
  match tok with
  | .newline => l0newline s
  | .indentInc => { s with indent := s.indent + 1 }
  | .indentDec => { s with indent := s.indent - 1 }
  | .endStmt =>
    if s.indent == 0 then l0newline s
    else
      match s.acc with
      | .semi :: _ => s
      | _ => { s with acc := .semi :: s.acc }
  | tok => { s with acc := .t tok :: s.acc }

/-- the effect of a token list on the layout state -/
def eff (ts : List Tok) (s : L0) : L0 := ts.foldl l0step s

/-- statements the grammar calls compound (they own suites) -/
def isCompoundSyn : Stmt → Bool
  | .functionDef .. => true
  | .classDef .. => true
  | .for_ .. => true
  | .while_ .. => true
  | .if_ .. => true
  | .with_ .. => true
  | .match_ .. => true
  | .try_ .. => true
  | _ => false

def T (xs : List Tok) : List LT := xs.map .t

/-- what separates two consecutive statements of a block at depth `d`: a line break when either is compound or the
    block is the module, a `;` otherwise -/
def sep (d : Nat) (a b : Stmt) : LT :=
  if isCompoundSyn a || isCompoundSyn b || d == 0 then .nl d else .semi

def sepNext (d : Nat) (a : Stmt) : List Stmt → LT
  | b :: _ => sep d a b
  | [] => .nl d

/-- the `else` branch is a sole `if`: the printer writes `elif` -/
def isElifList : List Stmt → Bool
  | [s] => isIfStmt s
  | _ => false

/-- the tokens of a simple statement (the printer's, without the statement end) -/
def simpleToks (t : PrecTable) (st : StmtTable) (s : Stmt) : List Tok := (stmtToks t st s).dropLast

/-! headers of the clauses of compound statements (everything up to and including the colon) -/

def hdrDef (t : PrecTable) (isAsync : Bool) (name : String) (args : Arguments) (returns : Option Expr) (tps : List TypeParam) : List Tok :=
  (if isAsync then [.kw "async"] else []) ++
    .kw "def" :: .ident name :: typeParamsToks t tps ++ .delim "(" :: flatArguments (parenArguments t args) ++
    .delim ")" :: (match returns with | some r => .delim "->" :: tExpr t r | none => []) ++ [.delim ":"]

def hdrClass (t : PrecTable) (name : String) (bases : List Expr) (kws : List Keyword) (tps : List TypeParam) : List Tok :=
  let items := bases.map (tExpr t) ++ kws.map (tKeyword t)
  .kw "class" :: .ident name :: typeParamsToks t tps ++
    (if items.isEmpty then [] else .delim "(" :: commaSep items ++ [.delim ")"]) ++ [.delim ":"]

def hdrFor (t : PrecTable) (isAsync : Bool) (tg it : Expr) : List Tok :=
  (if isAsync then [.kw "async"] else []) ++ .kw "for" :: tExpr t tg ++ .kw "in" :: tExpr t it ++ [.delim ":"]

def hdrWith (t : PrecTable) (isAsync : Bool) (items : List WithItem) : List Tok :=
  (if isAsync then [.kw "async"] else []) ++ .kw "with" :: withItemsToks t items ++ [.delim ":"]

def hdrExcept (t : PrecTable) (star : Bool) (ty : Option Expr) (name : Option String) : List Tok :=
  .kw "except" :: (if star then [.op "*"] else []) ++ tOptExpr t ty ++
    (match name with | some n => [.kw "as", .ident n] | none => []) ++ [.delim ":"]

def hdrCase (t : PrecTable) (pat : Pattern) (guard : Option Expr) : List Tok :=
  .kw "case" :: casePatToks t pat ++ (match guard with | some g => .kw "if" :: tExpr t g | none => []) ++ [.delim ":"]

def decoLines (t : PrecTable) (d : Nat) (decs : List Expr) : List LT :=
  decs.flatMap fun dec => T (.op "@" :: tExpr t dec) ++ [.nl d]

/-- where a suite starts: on a new line one level deeper when it holds a compound statement, else right after the colon -/
def suiteStart (d : Nat) (body : List Stmt) : List LT :=
  if body.any isCompoundSyn then [.nl (d + 1)] else []

mutual
/-- the layout of one statement at depth `d` (`el`: print an `if` as `elif`) -/
def emitS (t : PrecTable) (st : StmtTable) (el : Bool) (d : Nat) : Stmt → List LT
  | .functionDef isAsync name args body decs returns tps =>
    decoLines t d decs ++ T (hdrDef t isAsync name args returns tps) ++ suiteStart d body ++ emitBody t st (d + 1) body
  | .classDef name bases kws body decs tps =>
    decoLines t d decs ++ T (hdrClass t name bases kws tps) ++ suiteStart d body ++ emitBody t st (d + 1) body
  | .for_ isAsync tg it body orelse =>
    T (hdrFor t isAsync tg it) ++ suiteStart d body ++ emitBody t st (d + 1) body ++
      (if orelse.isEmpty then [] else .nl d :: T [.kw "else", .delim ":"] ++ suiteStart d orelse ++ emitBody t st (d + 1) orelse)
  | .while_ c body orelse =>
    T (.kw "while" :: tExpr t c ++ [.delim ":"]) ++ suiteStart d body ++ emitBody t st (d + 1) body ++
      (if orelse.isEmpty then [] else .nl d :: T [.kw "else", .delim ":"] ++ suiteStart d orelse ++ emitBody t st (d + 1) orelse)
  | .if_ c body orelse =>
    T (.kw (if el then "elif" else "if") :: tExpr t c ++ [.delim ":"]) ++ suiteStart d body ++ emitBody t st (d + 1) body ++
      (if orelse.isEmpty then []
       else if isElifList orelse then .nl d :: emitElif t st d orelse
       else .nl d :: T [.kw "else", .delim ":"] ++ suiteStart d orelse ++ emitBody t st (d + 1) orelse)
  | .with_ isAsync items body =>
    T (hdrWith t isAsync items) ++ suiteStart d body ++ emitBody t st (d + 1) body
  | .match_ subj cases =>
    T (.kw "match" :: tExpr t subj ++ [.delim ":"]) ++ (if cases.isEmpty then [] else .nl (d + 1) :: emitCases t st (d + 1) cases)
  | .try_ star body handlers orelse finalbody =>
    T [.kw "try", .delim ":"] ++ suiteStart d body ++ emitBody t st (d + 1) body ++ emitHandlers t st star d handlers ++
      (if orelse.isEmpty then [] else .nl d :: T [.kw "else", .delim ":"] ++ suiteStart d orelse ++ emitBody t st (d + 1) orelse) ++
      (if finalbody.isEmpty then [] else .nl d :: T [.kw "finally", .delim ":"] ++ suiteStart d finalbody ++ emitBody t st (d + 1) finalbody)
  | s => T (simpleToks t st s)
/-- a sole `if` in an `else` branch, printed as `elif` -/
def emitElif (t : PrecTable) (st : StmtTable) (d : Nat) : List Stmt → List LT
  | [] => []
  | s :: _ => emitS t st true d s
/-- the statements of a block at depth `d`, separated by `sep` -/
def emitBody (t : PrecTable) (st : StmtTable) (d : Nat) : List Stmt → List LT
  | [] => []
  | a :: rest =>
    emitS t st false d a ++ (if rest.isEmpty then [] else sepNext d a rest :: emitBody t st d rest)
def emitHandlers (t : PrecTable) (st : StmtTable) (star : Bool) (d : Nat) : List Handler → List LT
  | [] => []
  | .mk ty name body :: hs =>
    .nl d :: T (hdrExcept t star ty name) ++ suiteStart d body ++ emitBody t st (d + 1) body ++ emitHandlers t st star d hs
def emitCases (t : PrecTable) (st : StmtTable) (d : Nat) : List MatchCase → List LT
  | [] => []
  | .mk pat guard body :: cs =>
    T (hdrCase t pat guard) ++ suiteStart d body ++ emitBody t st (d + 1) body ++
      (if cs.isEmpty then [] else .nl d :: emitCases t st d cs)
end

/-- the layout of a module -/
def emitModule (t : PrecTable) (st : StmtTable) (m : Module) : List LT := emitBody t st 0 m.body

/-- no layout token among these (expression and header tokens) -/
def nlay (xs : List Tok) : Bool := xs.all fun x => !Spec.Lex.isLayout x

end PMV.Spec.Layout

/-! ### the decidable side condition: the header and statement tokens are real tokens -/
namespace PMV.Spec.Layout
open PMV PMV.Token PMV.Printer

mutual
/-- every clause header and every simple statement of the tree prints as a non-empty run of real tokens (no layout token
    comes out of an expression; the only printer path that could emit one is a `yield` visited as a statement inside a
    header, which the grammar does not allow) -/
def okS (t : PrecTable) (st : StmtTable) : Stmt → Bool
  | .functionDef isAsync name args body decs returns tps =>
    decs.all (fun dec => nlay (tExpr t dec)) && nlay (hdrDef t isAsync name args returns tps) && okL t st body
  | .classDef name bases kws body decs tps =>
    decs.all (fun dec => nlay (tExpr t dec)) && nlay (hdrClass t name bases kws tps) && okL t st body
  | .for_ isAsync tg it body orelse => nlay (hdrFor t isAsync tg it) && okL t st body && okL t st orelse
  | .while_ c body orelse => nlay (tExpr t c) && okL t st body && okL t st orelse
  | .if_ c body orelse => nlay (tExpr t c) && okL t st body && okL t st orelse
  | .with_ isAsync items body => nlay (hdrWith t isAsync items) && okL t st body
  | .match_ subj cases => nlay (tExpr t subj) && okC t st cases
  | .try_ star body handlers orelse finalbody =>
    okL t st body && okH t st star handlers && okL t st orelse && okL t st finalbody
  | s => nlay (simpleToks t st s) && !(simpleToks t st s).isEmpty
def okL (t : PrecTable) (st : StmtTable) : List Stmt → Bool
  | [] => true
  | s :: ss => okS t st s && okL t st ss
def okH (t : PrecTable) (st : StmtTable) (star : Bool) : List Handler → Bool
  | [] => true
  | .mk ty name body :: hs => nlay (hdrExcept t star ty name) && okL t st body && okH t st star hs
def okC (t : PrecTable) (st : StmtTable) : List MatchCase → Bool
  | [] => true
  | .mk pat guard body :: cs => nlay (hdrCase t pat guard) && okL t st body && okC t st cs
end

/-- the statement table agrees with the grammar on which statements are compound -/
def TableOK (st : StmtTable) : Prop :=
  (∀ s, isCompound st s = isCompoundSyn s) ∧ st.compound.contains "match_case" = true

end PMV.Spec.Layout

/-
  Specification: how CPython's tokenizer delimits a string literal (Lexical analysis §2.4.1).
  A backslash always takes the next character with it; a short string ends at the first unescaped
  quote character and may not contain a raw line break; a long string ends at the first unescaped
  run of three quote characters.  Validated against `tokenize` by the harness.
-/
namespace PMV.Spec.StrLex

/-- scan the body of a short string opened with `q`; result: what follows the closing quote. -/
def scanShort (q : Nat) : List Nat → Option (List Nat)
  | [] => none
  | c :: tl =>
    if c == 92 then
      match tl with
      | _ :: r => scanShort q r
      | [] => none
    else if c == q then some tl
    else if c == 10 || c == 13 then none
    else scanShort q tl

/-- scan the body of a long string opened with `qqq`. -/
def scanLong (q : Nat) : List Nat → Option (List Nat)
  | [] => none
  | c :: tl =>
    if c == 92 then
      match tl with
      | _ :: r => scanLong q r
      | [] => none
    else if c == q && tl.take 2 == [q, q] then some (tl.drop 2)
    else scanLong q tl

/-- the text is exactly one string literal with quote `q` (`quoteLen` = 1 or 3) and nothing else. -/
def isOneLiteral (q : Nat) (quoteLen : Nat) (text : List Nat) : Bool :=
  text.take quoteLen == List.replicate quoteLen q &&
  (if quoteLen == 1 then scanShort q (text.drop 1) == some [] else scanLong q (text.drop 3) == some [])

end PMV.Spec.StrLex

/-
  Model of `rename/resolve_names.py:get_binding` and `rename/util.py:get_nonlocal_namespace`, over an abstract namespace tree:
  a namespace is its kind, its parent, the names bound in it (`namespace.bindings`) and the names it declares `global` /
  `nonlocal`.  Namespaces are numbers, 0 is the module.
-/
namespace PMV.Resolve

inductive NsKind | module | function | class_ | other
  deriving DecidableEq, Repr

structure NsInfo where
  kind : NsKind
  parent : Nat
  bindings : List String
  globals : List String
  nonlocals : List String
  deriving Repr

instance : Inhabited NsInfo := ⟨⟨.module, 0, [], [], []⟩⟩

abbrev Tree := List NsInfo

def info (t : Tree) (n : Nat) : NsInfo := t.getD n default

/-- `get_nonlocal_namespace(node)`: the parent namespace, class bodies skipped (`fuel` bounds the walk by the depth of the tree) -/
def nonlocalNs (t : Tree) : Nat → Nat → Nat
  | 0, n => (info t n).parent
  | fuel + 1, n =>
    let p := (info t n).parent
    if (info t p).kind == .class_ then nonlocalNs t fuel p else p

/-- `get_binding(name, namespace)`: the namespace whose binding answers, `none` when the module does not bind the name either
    (the implementation then creates a builtin or an unresolved binding in the module) -/
def getBinding (t : Tree) (x : String) : Nat → Nat → Option Nat
  | 0, _ => none
  | fuel + 1, n =>
    let i := info t n
    if i.kind != .module && i.globals.contains x then getBinding t x fuel 0
    else if i.kind != .module && i.nonlocals.contains x then getBinding t x fuel (nonlocalNs t t.length n)
    else if i.bindings.contains x then some n
    else if i.kind != .module then getBinding t x fuel (nonlocalNs t t.length n)
    else none

/-! ### specification: Python's lookup path -/

/-- the scopes consulted, in order, for a use of `x` in namespace `n`: the scope itself unless it declares the name `global`
    (then the module alone) or `nonlocal` (then it is skipped); after it the enclosing scopes that are not class bodies, each
    subject to the same rule; the module last -/
def lookupPath (t : Tree) (x : String) : Nat → Nat → List Nat
  | 0, _ => []
  | fuel + 1, n =>
    let i := info t n
    if i.kind == .module then [n]
    else if i.globals.contains x then lookupPath t x fuel 0
    else if i.nonlocals.contains x then lookupPath t x fuel (nonlocalNs t t.length n)
    else n :: lookupPath t x fuel (nonlocalNs t t.length n)

/-- a name resolves to the first scope on its lookup path that binds it -/
def resolveSpec (t : Tree) (x : String) (fuel n : Nat) : Option Nat :=
  (lookupPath t x fuel n).find? fun a => (info t a).bindings.contains x

end PMV.Resolve

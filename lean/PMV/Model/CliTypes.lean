namespace PMV.Cli

/-- One boolean option string of the argparse parser (`store_true` / `store_false`). -/
structure BoolFlag where
  name : String
  dest : String
  const : Bool
  dflt : Bool
  deriving Repr, DecidableEq

/-- Where a keyword argument of `minify` gets its value in `do_minify`. -/
inductive Src where
  | dest : String → Src
  | const : Bool → Src
  deriving Repr, DecidableEq

/-- `do_minify` deviates from the base forwarding for keyword `kw` when namespace entry `guard` equals `val`. -/
structure Override where
  guard : String
  val : Bool
  kw : String
  src : Src
  deriving Repr, DecidableEq

structure Table where
  flags : List BoolFlag
  base : List (String × Src)
  overrides : List Override

end PMV.Cli

import PMV.Spec.PyCore
import PMV.Model.Transforms
/-
  The side condition of the `-O` theorems of C01, as an executable check: a suite transformer leaves the list of
  names every module-level function binds alone (so the static local / global decision is the same afterwards).
-/
namespace PMV.PyCore
open PMV PMV.Transforms

/-- what the transformer does to a function body stored in the table -/
def bodyT (t : SuiteT) (b : List Stmt) : List Stmt := t.funcBodyF (t.suiteF false (travBody t b))

/-- `Stable`, decidably: checked per program where a transform does not keep the bound names of every body -/
def scopeStable (t : SuiteT) (m : Module) : Bool :=
  (collect m.body).all fun e => (bindTop (bodyT t e.2.2)).map canonNames == (bindTop e.2.2).map canonNames

def defName : Stmt → Option String
  | .functionDef _ n _ _ _ _ _ => some n
  | _ => none

/-- the names of the module-level `def` statements (T01.17 needs them distinct: the static table holds one body per name) -/
def defNames : List Stmt → List String
  | [] => []
  | st :: rest => (match defName st with | some n => [n] | none => []) ++ defNames rest

end PMV.PyCore

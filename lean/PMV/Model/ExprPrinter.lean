import PMV.Model.PrecTypes
import PMV.Model.Token
/-
  Model of `expression_printer.ExpressionPrinter`, split in two:
    * `paren t e`  inserts an explicit `Expr.paren` node exactly where the printer emits `(`…`)`
      around a sub-expression (`_lhs`, `_rhs`, `_expression`, `_testlist`, visit_* special cases);
    * `flat e`     emits the token events of a (parenthesised) tree with no decisions left.
  The printed text of an expression is `Token.render sp (flat (paren t e))`.
-/
namespace PMV.Printer
open PMV.Token

/-- `_expression`: yield, non-empty tuple and walrus are wrapped. -/
def needExprParen : Expr → Bool
  | .yield _ => true
  | .yieldFrom _ => true
  | .namedExpr .. => true
  | .tuple (_ :: _) => true
  | _ => false

/-- `_testlist`: yield and walrus are wrapped; tuples stay bare. -/
def needTestlistParen : Expr → Bool
  | .yield _ => true
  | .yieldFrom _ => true
  | .namedExpr .. => true
  | _ => false

def isNum : Expr → Bool
  | .constant (.int _) => true
  | .constant (.float _) => true
  | .constant (.complex _) => true
  | _ => false

def wrapIf (b : Bool) (e : Expr) : Expr := if b then .paren e else e

/-- `_expression(orig)` where `done` is the already processed child. -/
def slotExpr (orig done : Expr) : Expr := wrapIf (needExprParen orig) done
def slotTestlist (orig done : Expr) : Expr := wrapIf (needTestlistParen orig) done
/-- precedence-driven parenthesis around `_expression(child)`. -/
def slotPrec (b : Bool) (orig done : Expr) : Expr := wrapIf b (slotExpr orig done)

/-- `_lhs(left, op_node)` decision. -/
def lhsParen (leftP opP : Nat) (opIsPow : Bool) : Bool :=
  leftP != 0 && (opP > leftP || (opP == leftP && opIsPow))

/-- `_rhs(right, op_node)` decision (`powRhs`: the `right_precedence == 14` special case). -/
def rhsParen (t : PrecTable) (rightP opP : Nat) (opIsPow : Bool) : Bool :=
  let opP := if opIsPow && rightP == t.powRhs then rightP else opP
  rightP != 0 && (opP > rightP || (opP == rightP && !opIsPow))

def starParen (t : PrecTable) (p : Nat) : Bool := 0 < p && p ≤ t.starMax

mutual
/-- Insert the parentheses the printer emits (children first). -/
def paren (t : PrecTable) : Expr → Expr
  | .boolOp op vs => .boolOp op (parenBoolVals t (t.get (boolOpName op)) vs)
  | .namedExpr tg v => .namedExpr (slotExpr tg (paren t tg)) (slotExpr v (paren t v))
  | .binOp l op r =>
    .binOp (slotPrec (lhsParen (prec t l) (t.get (binOpName op)) (op == .pow)) l (paren t l)) op
           (slotPrec (rhsParen t (prec t r) (t.get (binOpName op)) (op == .pow)) r (paren t r))
  | .unaryOp op v =>
    .unaryOp op (slotPrec (prec t v != 0 && t.get (unaryOpName op) > prec t v) v (paren t v))
  | .lambda a b => .lambda (parenArguments t a) (slotExpr b (paren t b))
  | .ifExp c b o =>
    .ifExp (slotPrec (rhsParen t (prec t c) (t.get "IfExp") false) c (paren t c))
           (slotPrec (rhsParen t (prec t b) (t.get "IfExp") false) b (paren t b))
           (slotExpr o (paren t o))
  | .dict ks vs => .dict (parenOptExprs t ks) (parenDictVals t ks vs)
  | .set es => .set (parenExprs t es)
  | .listComp e gs => .listComp (slotExpr e (paren t e)) (parenComps t gs)
  | .setComp e gs => .setComp (slotExpr e (paren t e)) (parenComps t gs)
  | .dictComp k v gs => .dictComp (slotExpr k (paren t k)) (slotExpr v (paren t v)) (parenComps t gs)
  | .generatorExp e gs => .generatorExp (slotExpr e (paren t e)) (parenComps t gs)
  | .await v => .await (slotPrec (rhsParen t (prec t v) (t.get "Await") false) v (paren t v))
  | .yield v => .yield (parenOptExpr t v)
  | .yieldFrom v => .yieldFrom (slotExpr v (paren t v))
  | .compare l ops cs =>
    .compare (slotPrec (prec t l != 0 && prec t l ≤ (match ops with | o :: _ => t.get (cmpOpName o) | [] => 0)) l (paren t l))
      ops (parenComparators t ops cs)
  | .call f as ks =>
    .call (slotPrec (lhsParen (prec t f) (t.get "Call") false) f (paren t f)) (parenExprs t as) (parenKeywords t ks)
  | .joinedStr s ps => .joinedStr s ps
  | .constant c => .constant c
  | .attribute v a =>
    .attribute (slotPrec ((prec t v != 0 && t.get "Attribute" > prec t v) || isNum v) v (paren t v)) a
  | .subscript v s =>
    .subscript (slotPrec (prec t v != 0 && t.subscript > prec t v) v (paren t v))
      (match s with
       | .tuple _ => paren t s          -- `visit_Tuple(node.slice)`: bare
       | _ => slotExpr s (paren t s))
  | .starred v => .starred (slotPrec (starParen t (prec t v)) v (paren t v))
  | .name i c => .name i c
  | .list es => .list (parenExprs t es)
  | .tuple es => .tuple (parenExprs t es)
  | .slice l u s => .slice (parenOptExpr t l) (parenOptExpr t u) (parenOptExpr t s)
  | .paren e => .paren (paren t e)
def parenExprs (t : PrecTable) : List Expr → List Expr
  | [] => []
  | e :: es => slotExpr e (paren t e) :: parenExprs t es
def parenOptExpr (t : PrecTable) : Option Expr → Option Expr
  | none => none
  | some e => some (slotExpr e (paren t e))
def parenOptExprs (t : PrecTable) : List (Option Expr) → List (Option Expr)
  | [] => []
  | e :: es => parenOptExpr t e :: parenOptExprs t es
def parenBoolVals (t : PrecTable) (opP : Nat) : List Expr → List Expr
  | [] => []
  | v :: vs => slotPrec (prec t v != 0 && prec t v ≤ opP) v (paren t v) :: parenBoolVals t opP vs
def parenComparators (t : PrecTable) : List CmpOpK → List Expr → List Expr
  | o :: os, c :: cs => slotPrec (rhsParen t (prec t c) (t.get (cmpOpName o)) false) c (paren t c) :: parenComparators t os cs
  | _, cs => cs     -- malformed (|ops| ≠ |comparators|): `zip` drops them when printing; left as they are
/-- dict values: `**v` (key None) uses the star rule, others `_expression`. -/
def parenDictVals (t : PrecTable) : List (Option Expr) → List Expr → List Expr
  | none :: ks, v :: vs => slotPrec (0 < prec t v && prec t v ≤ t.dictStarMax) v (paren t v) :: parenDictVals t ks vs
  | some _ :: ks, v :: vs => slotExpr v (paren t v) :: parenDictVals t ks vs
  | _, vs => vs
def parenKeywords (t : PrecTable) : List Keyword → List Keyword
  | [] => []
  | .mk a v :: ks => .mk a (slotExpr v (paren t v)) :: parenKeywords t ks
def parenComps (t : PrecTable) : List Comprehension → List Comprehension
  | [] => []
  | .mk tg it ifs a :: gs =>
    .mk (slotExpr tg (paren t tg))
        (slotPrec (rhsParen t (prec t it) (t.get "comprehension") false) it (paren t it))
        (parenCompIfs t ifs) a :: parenComps t gs
def parenCompIfs (t : PrecTable) : List Expr → List Expr
  | [] => []
  | c :: cs => slotPrec (rhsParen t (prec t c) (t.get "comprehension") false) c (paren t c) :: parenCompIfs t cs
def parenArg (t : PrecTable) : Arg → Arg
  | .mk a ann => .mk a (parenOptExpr t ann)
def parenArgs (t : PrecTable) : List Arg → List Arg
  | [] => []
  | a :: as => parenArg t a :: parenArgs t as
def parenOptArg (t : PrecTable) : Option Arg → Option Arg
  | none => none
  | some a => some (parenArg t a)
def parenArguments (t : PrecTable) : Arguments → Arguments
  | .mk po as va ko kd kw ds =>
    .mk (parenArgs t po) (parenArgs t as) (parenOptArg t va) (parenArgs t ko) (parenOptExprs t kd)
        (parenOptArg t kw) (parenExprs t ds)
end

/-! ### Token emission (no decisions) -/

def binOpTok : BinOpK → Tok
  | .add => .op "+" | .sub => .op "-" | .mult => .op "*" | .matMult => .op "@" | .div => .op "/"
  | .mod => .op "%" | .pow => .op "**" | .lShift => .op "<<" | .rShift => .op ">>" | .bitOr => .op "|"
  | .bitXor => .op "^" | .bitAnd => .op "&" | .floorDiv => .op "//"

def unaryOpTok : UnaryOpK → Tok
  | .invert => .op "~" | .not_ => .kw "not" | .uAdd => .op "+" | .uSub => .op "-"

def boolOpTok : BoolOpK → Tok
  | .and_ => .kw "and" | .or_ => .kw "or"

def cmpOpToks : CmpOpK → List Tok
  | .eq => [.op "=="] | .notEq => [.op "!="] | .lt => [.op "<"] | .ltE => [.op "<="]
  | .gt => [.op ">"] | .gtE => [.op ">="] | .is_ => [.kw "is"] | .isNot => [.kw "is", .kw "not"]
  | .in_ => [.kw "in"] | .notIn => [.kw "not", .kw "in"]

def constToks : Const → List Tok
  | .none => [.kw "None"]
  | .true_ => [.kw "True"]
  | .false_ => [.kw "False"]
  | .ellipsis => [.delim ".", .delim ".", .delim "."]
  | .int n => [.num (intText n)]
  | .float r => [.num (floatText r)]
  | .complex r => [.num (imagText r)]
  | .str r _ => [.strLit r]
  | .bytes r _ => [.bytesLit r]

/-- `Delimiter`: items separated by `,`. -/
def commaSep : List (List Tok) → List Tok
  | [] => []
  | [x] => x
  | x :: y :: rest => x ++ .delim "," :: commaSep (y :: rest)

/-- items joined by a separator token. -/
def joinWith (sep : Tok) : List (List Tok) → List Tok
  | [] => []
  | [x] => x
  | x :: y :: rest => x ++ sep :: joinWith sep (y :: rest)

/-- `visit_Dict` items: `**v` for a `None` key, `k:v` otherwise (`zip` semantics). -/
def dictItems : List (Option (List Tok)) → List (List Tok) → List (List Tok)
  | none :: ks, v :: vs => (.op "**" :: v) :: dictItems ks vs
  | some k :: ks, v :: vs => (k ++ .delim ":" :: v) :: dictItems ks vs
  | _, _ => []

/-- positional parameters with their defaults: `noDefault` counts the parameters that have none;
    `,/` follows the last positional-only parameter. -/
def posArgToks : List (List Tok) → Nat → List (List Tok) → Nat → List (List Tok)
  | [], _, _, _ => []
  | a :: as, noDefault, ds, posonlyLeft =>
    let slash : List Tok := if posonlyLeft == 1 then [.delim ",", .op "/"] else []
    match noDefault, ds with
    | 0, d :: ds' => (a ++ .delim "=" :: d ++ slash) :: posArgToks as 0 ds' (posonlyLeft - 1)
    | 0, [] => (a ++ slash) :: posArgToks as 0 [] (posonlyLeft - 1)
    | n + 1, _ => (a ++ slash) :: posArgToks as n ds (posonlyLeft - 1)

/-- keyword-only parameters: each preceded by a literal `,`. -/
def kwOnlyToks : List (List Tok) → List (Option (List Tok)) → List Tok
  | [], _ => []
  | a :: as, d :: ds =>
    .delim "," :: a ++ (match d with | some x => .delim "=" :: x | none => []) ++ kwOnlyToks as ds
  | a :: as, [] => .delim "," :: a ++ kwOnlyToks as []

/-- `visit_Tuple`: `()`, `x,` or `x,y,…` (never its own parentheses). -/
def tupleToks : List (List Tok) → List Tok
  | [] => [.delim "(", .delim ")"]
  | [x] => x ++ [.delim ","]
  | xs => commaSep xs

mutual
def flat : Expr → List Tok
  | .boolOp op vs => joinWith (boolOpTok op) (flatEach vs)
  | .namedExpr tg v => flat tg ++ .op ":=" :: flat v
  | .binOp l op r => flat l ++ binOpTok op :: flat r
  | .unaryOp op v => unaryOpTok op :: flat v
  | .lambda a b => .kw "lambda" :: flatArguments a ++ .delim ":" :: flat b
  | .ifExp c b o => flat b ++ .kw "if" :: flat c ++ .kw "else" :: flat o
  | .dict ks vs => .delim "{" :: commaSep (dictItems (flatOptEach ks) (flatEach vs)) ++ [.delim "}"]
  | .set es => .delim "{" :: commaSep (flatEach es) ++ [.delim "}"]
  | .listComp e gs => .delim "[" :: flat e ++ flatComps gs ++ [.delim "]"]
  | .setComp e gs => .delim "{" :: flat e ++ flatComps gs ++ [.delim "}"]
  | .dictComp k v gs => .delim "{" :: flat k ++ .delim ":" :: flat v ++ flatComps gs ++ [.delim "}"]
  | .generatorExp e gs => .delim "(" :: flat e ++ flatComps gs ++ [.delim ")"]
  | .await v => .kw "await" :: flat v
  | .yield v => .kw "yield" :: flatOpt v
  | .yieldFrom v => .kw "yield" :: .kw "from" :: flat v
  | .compare l ops cs => flat l ++ flatCompareRest ops cs
  | .call f [.generatorExp e gs] [] =>      -- sole generator argument: no extra parens
    flat f ++ .delim "(" :: flat e ++ flatComps gs ++ [.delim ")"]
  | .call f as ks => flat f ++ .delim "(" :: commaSep (flatEach as ++ flatKeywords ks) ++ [.delim ")"]
  | .joinedStr s _ => [.fstr s]
  | .constant c => constToks c
  | .attribute v a => flat v ++ [.delim ".", .ident a]
  | .subscript v s => flat v ++ .delim "[" :: flat s ++ [.delim "]"]
  | .starred v => .op "*" :: flat v
  | .name i _ => [.ident i]
  | .list es => .delim "[" :: commaSep (flatEach es) ++ [.delim "]"]
  | .tuple es => tupleToks (flatEach es)
  | .slice l u s =>
    flatOpt l ++ .delim ":" :: flatOpt u ++ (match s with | some x => .delim ":" :: flat x | none => [])
  | .paren e => .delim "(" :: flat e ++ [.delim ")"]
def flatEach : List Expr → List (List Tok)
  | [] => []
  | e :: es => flat e :: flatEach es
def flatOpt : Option Expr → List Tok
  | none => []
  | some e => flat e
def flatCompareRest : List CmpOpK → List Expr → List Tok
  | o :: os, c :: cs => cmpOpToks o ++ flat c ++ flatCompareRest os cs
  | _, _ => []
def flatOptEach : List (Option Expr) → List (Option (List Tok))
  | [] => []
  | none :: es => none :: flatOptEach es
  | some e :: es => some (flat e) :: flatOptEach es
def flatArgs : List Arg → List (List Tok)
  | [] => []
  | a :: as => flatArg a :: flatArgs as
def flatKeyword : Keyword → List Tok
  | .mk none v => .op "**" :: flat v
  | .mk (some a) v => .ident a :: .delim "=" :: flat v
def flatKeywords : List Keyword → List (List Tok)
  | [] => []
  | k :: ks => flatKeyword k :: flatKeywords ks
def flatComps : List Comprehension → List Tok
  | [] => []
  | .mk tg it ifs a :: gs =>
    (if a then [.kw "async"] else []) ++ .kw "for" :: flat tg ++ .kw "in" :: flat it ++ flatCompIfs ifs ++ flatComps gs
def flatCompIfs : List Expr → List Tok
  | [] => []
  | c :: cs => .kw "if" :: flat c ++ flatCompIfs cs
def flatArg : Arg → List Tok
  | .mk a none => [.ident a]
  | .mk a (some ann) => .ident a :: .delim ":" :: flat ann
def flatArguments : Arguments → List Tok
  | .mk po as va ko kd kw ds =>
    let pos := flatArgs po ++ flatArgs as
    let items := posArgToks pos (pos.length - ds.length) (flatEach ds) po.length
    let kwo := kwOnlyToks (flatArgs ko) (flatOptEach kd)
    let star : List (List Tok) :=
      match va with
      | some v => [(.op "*" :: flatArg v) ++ kwo]
      | none => if ko.isEmpty then [] else [.op "*" :: kwo]
    let kws : List (List Tok) := match kw with | some k => [.op "**" :: flatArg k] | none => []
    commaSep (items ++ star ++ kws)
end

/-- Tokens of an expression as the printer emits them via `visit(e)` (no outer wrapping). -/
def exprToks (t : PrecTable) (e : Expr) : List Tok := flat (paren t e)

end PMV.Printer

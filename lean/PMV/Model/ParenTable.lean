import PMV.Model.ExprPrinter
import PMV.Spec.Grammar
/-
  The parenthesisation decisions of the printer as a finite table (slot × child class), and the
  obligation `TableOK`: wherever the printer does *not* parenthesise, the child's grammar level
  already meets the slot's requirement.  Instantiated on the generated precedence table by `decide`;
  `violations` is its executable twin (witness extractor for the failing-input search).
-/
namespace PMV.Printer
open PMV.Spec.Grammar

inductive Cls
  | boolOp (op : BoolOpK) | binOp (op : BinOpK) | unaryOp (op : UnaryOpK) | compare
  | lambda | ifExp | await | attribute | subscript | call
  | tupleNE | tupleE | set | list | dict | listComp | setComp | dictComp | generatorExp
  | atom0        -- name, constant, f-string: precedence 0, an atom
  | yieldLike    -- yield, yield from, walrus: precedence 0, parenthesised by `_expression`
  deriving DecidableEq, Repr

def allBinOps : List BinOpK :=
  [.add, .sub, .mult, .matMult, .div, .mod, .pow, .lShift, .rShift, .bitOr, .bitXor, .bitAnd, .floorDiv]
def allUnaryOps : List UnaryOpK := [.invert, .not_, .uAdd, .uSub]
def allBoolOps : List BoolOpK := [.and_, .or_]
def allCmpOps : List CmpOpK := [.eq, .notEq, .lt, .ltE, .gt, .gtE, .is_, .isNot, .in_, .notIn]

def Cls.all : List Cls :=
  allBoolOps.map .boolOp ++ allBinOps.map .binOp ++ allUnaryOps.map .unaryOp ++
  [.compare, .lambda, .ifExp, .await, .attribute, .subscript, .call, .tupleNE, .tupleE, .set, .list, .dict,
   .listComp, .setComp, .dictComp, .generatorExp, .atom0, .yieldLike]

/-- class of a proper, paren-free expression. -/
def clsOf : Expr → Cls
  | .boolOp op _ => .boolOp op
  | .binOp _ op _ => .binOp op
  | .unaryOp op _ => .unaryOp op
  | .compare .. => .compare
  | .lambda .. => .lambda
  | .ifExp .. => .ifExp
  | .await _ => .await
  | .attribute .. => .attribute
  | .subscript .. => .subscript
  | .call .. => .call
  | .tuple [] => .tupleE
  | .tuple (_ :: _) => .tupleNE
  | .set _ => .set
  | .list _ => .list
  | .dict .. => .dict
  | .listComp .. => .listComp
  | .setComp .. => .setComp
  | .dictComp .. => .dictComp
  | .generatorExp .. => .generatorExp
  | .yield _ => .yieldLike
  | .yieldFrom _ => .yieldLike
  | .namedExpr .. => .yieldLike
  | _ => .atom0

/-- the common precedence of the comparison operators (all equal when `cmpAllSame`). -/
def cmpP (t : PrecTable) : Nat := t.get "Eq"
def cmpAllSame (t : PrecTable) : Bool := allCmpOps.all fun o => t.get (cmpOpName o) == cmpP t

def precC (t : PrecTable) : Cls → Nat
  | .boolOp op => t.get (boolOpName op)
  | .binOp op => t.get (binOpName op)
  | .unaryOp op => t.get (unaryOpName op)
  | .compare => cmpP t
  | .lambda => t.get "Lambda" | .ifExp => t.get "IfExp" | .await => t.get "Await"
  | .attribute => t.get "Attribute" | .subscript => t.get "Subscript" | .call => t.get "Call"
  | .tupleNE => t.get "Tuple" | .tupleE => t.get "Tuple" | .set => t.get "Set" | .list => t.get "List"
  | .dict => t.get "Dict" | .listComp => t.get "ListComp" | .setComp => t.get "SetComp"
  | .dictComp => t.get "DictComp" | .generatorExp => t.get "GeneratorExp"
  | .atom0 => 0 | .yieldLike => 0

def lvlC : Cls → Nat
  | .boolOp op => boolLvl op
  | .binOp op => binLvl op
  | .unaryOp op => unaryLvl op
  | .compare => 5
  | .lambda => 1 | .ifExp => 1 | .await => 14
  | .attribute => 15 | .subscript => 15 | .call => 15
  | .tupleNE => 0 | .yieldLike => 0
  | _ => 16

def kindParen : Cls → Bool
  | .tupleNE => true
  | .yieldLike => true
  | _ => false

inductive Slot
  | binL (op : BinOpK) | binR (op : BinOpK) | unary (op : UnaryOpK) | boolVal (op : BoolOpK)
  | cmpLeft | cmpRight | ifBody | await | callFunc | attrValue | subValue | starred | dictStar | compIter
  deriving DecidableEq, Repr

def Slot.all : List Slot :=
  allBinOps.map .binL ++ allBinOps.map .binR ++ allUnaryOps.map .unary ++ allBoolOps.map .boolVal ++
  [.cmpLeft, .cmpRight, .ifBody, .await, .callFunc, .attrValue, .subValue, .starred, .dictStar, .compIter]

/-- grammar level the slot requires (Spec). -/
def Slot.need : Slot → Nat
  | .binL op => needL op | .binR op => needR op | .unary op => needUnary op | .boolVal op => needBool op
  | .cmpLeft => 6 | .cmpRight => 6 | .ifBody => 2 | .await => 15 | .callFunc => 15 | .attrValue => 15
  | .subValue => 15 | .starred => 6 | .dictStar => 6 | .compIter => 2

/-- does the printer parenthesise a child of precedence `p` in this slot (Model). -/
def Slot.decide (t : PrecTable) : Slot → Nat → Bool
  | .binL op, p => lhsParen p (t.get (binOpName op)) (op == .pow)
  | .binR op, p => rhsParen t p (t.get (binOpName op)) (op == .pow)
  | .unary op, p => p != 0 && t.get (unaryOpName op) > p
  | .boolVal op, p => p != 0 && p ≤ t.get (boolOpName op)
  | .cmpLeft, p => p != 0 && p ≤ cmpP t
  | .cmpRight, p => rhsParen t p (cmpP t) false
  | .ifBody, p => rhsParen t p (t.get "IfExp") false
  | .await, p => rhsParen t p (t.get "Await") false
  | .callFunc, p => lhsParen p (t.get "Call") false
  | .attrValue, p => p != 0 && t.get "Attribute" > p
  | .subValue, p => p != 0 && t.subscript > p
  | .starred, p => starParen t p
  | .dictStar, p => 0 < p && p ≤ t.dictStarMax
  | .compIter, p => rhsParen t p (t.get "comprehension") false

def entryOK (t : PrecTable) (s : Slot) (c : Cls) : Bool :=
  s.decide t (precC t c) || kindParen c || lvlC c ≥ s.need

def TableOK (t : PrecTable) : Bool :=
  cmpAllSame t && Slot.all.all fun s => Cls.all.all fun c => entryOK t s c

/-- (slot, class) pairs where the printer omits parentheses the grammar needs. -/
def violations (t : PrecTable) : List (Slot × Cls) :=
  Slot.all.flatMap fun s => (Cls.all.filter fun c => !entryOK t s c).map fun c => (s, c)

end PMV.Printer

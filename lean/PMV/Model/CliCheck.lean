import PMV.Model.Cli
import PMV.Spec.Docs
/- The decidable obligation on the generated CLI table and its executable twin (witness extractor). -/
namespace PMV.Cli

/-- Looking a flag up by its option string finds that flag (option strings are unique). -/
def namesUnique (t : Table) : Bool := t.flags.all fun f => t.flags.find? (fun g => g.name == f.name) == some f

/-- Every flag writing `dest` stores the same constant and has the same default. -/
def constsConsistent (t : Table) : Bool :=
  t.flags.all fun f => f.const == constOf t f.dest && f.dflt == defaults t f.dest

/-- Everything the generated table must satisfy for the CLI to mean what the documentation says. -/
def TableOK (t : Table) : Bool :=
  namesUnique t && constsConsistent t
  && Spec.Docs.docFlags.all (fun f => t.flags.any fun g => g.name == f)
  && Spec.Docs.docKw.all (fun ke => match kwExp t ke.1 with
        | some e => equivB e ke.2
        | none => false)
  && t.base.all (fun b => Spec.Docs.docKw.any fun ke => ke.1 == b.1)

/-- Executable twin of `TableOK` for the failing-input search: the keywords whose forwarded value is
    not the documented function of the flags, and documented flags the parser does not know. -/
def violationsPlain (t : Table) : List String :=
  (if namesUnique t then [] else ["names-not-unique"]) ++
  (if constsConsistent t then [] else ["consts-inconsistent"]) ++
  (Spec.Docs.docFlags.filter (fun f => !(t.flags.any fun g => g.name == f))).map ("unknown-flag:" ++ ·) ++
  (Spec.Docs.docKw.filter (fun ke => match kwExp t ke.1 with
        | some e => !(equivB e ke.2)
        | none => true)).map (fun ke => "kw:" ++ ke.1) ++
  (t.base.filter (fun b => !(Spec.Docs.docKw.any fun ke => ke.1 == b.1))).map (fun b => "undocumented-kw:" ++ b.1)

end PMV.Cli

import PMV.Ast
import PMV.Model.Traverse
import PMV.Model.ExprMap
/-
  Model of `transforms/suite_transformer.SuiteTransformer` and of the suite-level transforms
  (RemovePass, RemoveAsserts, RemoveDebug, RemoveLiteralStatements, CombineImports) plus
  RemoveExplicitReturnNone, RemoveObject, RemoveAnnotations and remove_posargs.
-/
namespace PMV.Transforms
open PMV

/-- `Expr(value=Num(0))`: the placeholder left in a block that would otherwise be empty -/
def zeroStmt : Stmt := .expr (.constant (.int 0))

/-- what `suite()` receives as `parent`: only "is it the module" matters -/
abbrev IsModule := Bool

/-- The traversal of SuiteTransformer: `suiteF` is applied (after the children were visited) at the
    statement lists that `visit_ClassDef/FunctionDef/For/If/Try/While/With/Module` pass to `self.suite`;
    handler bodies, match-case bodies and everything under `try*` are reached by `generic_visit` only
    (statements visited one by one, no `suite` call). -/
structure SuiteT where
  suiteF : IsModule → List Stmt → List Stmt
  /-- applied to every statement after its children were processed (`visit_Return`, `visit_ClassDef` hooks) -/
  stmtF : Stmt → Stmt := id
  /-- extra processing of a function body (RemoveExplicitReturnNone.visit_FunctionDef) -/
  funcBodyF : List Stmt → List Stmt := id

mutual
def travStmt (t : SuiteT) : Stmt → Stmt
  | .functionDef a n args body decs ret tps =>
    t.stmtF (.functionDef a n args (t.funcBodyF (t.suiteF false (travBody t body))) decs ret tps)
  | .classDef n bases kws body decs tps => t.stmtF (.classDef n bases kws (t.suiteF false (travBody t body)) decs tps)
  | .for_ a tg it body orelse =>
    .for_ a tg it (t.suiteF false (travBody t body)) (if orelse.isEmpty then [] else t.suiteF false (travBody t orelse))
  | .while_ c body orelse =>
    .while_ c (t.suiteF false (travBody t body)) (if orelse.isEmpty then [] else t.suiteF false (travBody t orelse))
  | .if_ c body orelse =>
    .if_ c (t.suiteF false (travBody t body)) (if orelse.isEmpty then [] else t.suiteF false (travBody t orelse))
  | .with_ a items body => .with_ a items (t.suiteF false (travBody t body))
  | .try_ false body hs orelse fin =>
    .try_ false (t.suiteF false (travBody t body)) (travHandlers t hs)
      (if orelse.isEmpty then [] else t.suiteF false (travBody t orelse))
      (if fin.isEmpty then [] else t.suiteF false (travBody t fin))
  | .try_ true body hs orelse fin =>       -- TryStar: generic_visit
    .try_ true (travBody t body) (travHandlers t hs) (travBody t orelse) (travBody t fin)
  | .match_ s cases => .match_ s (travCases t cases)
  | s => t.stmtF s
def travBody (t : SuiteT) : List Stmt → List Stmt
  | [] => []
  | s :: ss => travStmt t s :: travBody t ss
def travHandlers (t : SuiteT) : List Handler → List Handler
  | [] => []
  | .mk ty n body :: hs => .mk ty n (travBody t body) :: travHandlers t hs
def travCases (t : SuiteT) : List MatchCase → List MatchCase
  | [] => []
  | .mk p g body :: cs => .mk p g (travBody t body) :: travCases t cs
end

def travModule (t : SuiteT) (m : Module) : Module := ⟨t.suiteF true (travBody t m.body)⟩

/-- drop the statements satisfying `q`; leave `0` in a non-module block that would become empty -/
def filterSuite (q : Stmt → Bool) (isModule : IsModule) (b : List Stmt) : List Stmt :=
  let r := b.filter (fun s => !q s)
  if r.isEmpty then (if isModule then [] else [zeroStmt]) else r

def isPass : Stmt → Bool
  | .pass => true
  | _ => false

def isAssert : Stmt → Bool
  | .assert_ .. => true
  | _ => false

/-- `is_literal_statement`: an expression statement holding a Num / Str / NameConstant / Bytes constant -/
def isLiteralStmt : Stmt → Bool
  | .expr (.constant .ellipsis) => false
  | .expr (.constant _) => true
  | _ => false

def isDebugName : Expr → Bool
  | .name "__debug__" _ => true
  | _ => false

/-- `RemoveDebug.can_remove` (after the fix: the left operand must be `__debug__` and there is no else) -/
def canRemoveDebug : Stmt → Bool
  | .if_ test _ orelse =>
    orelse.isEmpty &&
    (match test with
     | .name "__debug__" _ => true
     | .compare l [.is_] [.constant .true_] => isDebugName l
     | .compare l [.isNot] [.constant .false_] => isDebugName l
     | .compare l [.eq] [.constant .true_] => isDebugName l
     | _ => false)
  | _ => false

def isStrStmt : Stmt → Bool
  | .expr (.constant (.str ..)) => true
  | _ => false

/-- `RemovePass.suite`, second part: when the block starts with `pass` and the first statement that stays is a string, that
    string would become the docstring of the block: a `0` takes the place of the leading `pass` -/
def passGuard (b : List Stmt) : List Stmt :=
  match b with
  | .pass :: rest =>
    (match rest.filter (fun s => !isPass s) with
     | s :: _ => if isStrStmt s then zeroStmt :: rest else b
     | [] => b)
  | _ => b

/-- the same guard for the other statement-removing transforms (fix F41): when the block starts with a statement that is removed
    and the first statement that stays is a string, a `0` takes the place of the leading statement -/
def dropGuard (q : Stmt → Bool) (b : List Stmt) : List Stmt :=
  match b with
  | s0 :: rest =>
    if q s0 then
      (match rest.filter (fun s => !q s) with
       | s :: _ => if isStrStmt s then zeroStmt :: rest else b
       | [] => b)
    else b
  | [] => b

/-- does the block start with a string statement (what the compiler takes for a docstring)? -/
def startsWithString (b : List Stmt) : Bool :=
  match b with
  | s :: _ => isStrStmt s
  | [] => false

/-- drop the statements satisfying `q`, behind the docstring guard -/
def guardT (q : Stmt → Bool) : SuiteT := { suiteF := fun m b => filterSuite q m (dropGuard q b) }

def removePass : SuiteT := { suiteF := fun m b => filterSuite isPass m (passGuard b) }
def removeAsserts : SuiteT := guardT isAssert
def removeDebug : SuiteT := guardT canRemoveDebug
def removeLiterals : SuiteT := { suiteF := filterSuite isLiteralStmt }

/-! ### CombineImports -/

/-- merge runs of adjacent `import` statements -/
def combineImport : List Stmt → List Stmt
  | [] => []
  | .import_ a :: rest =>
    match combineImport rest with
    | .import_ b :: rest' => .import_ (a ++ b) :: rest'
    | r => .import_ a :: r
  | s :: rest => s :: combineImport rest

def isStarFrom (names : List Alias) : Bool :=
  match names with
  | [a] => a.name == "*"
  | _ => false

def asImportFrom : Stmt → Option (Option String × List Alias × Nat)
  | .importFrom m a l => some (m, a, l)
  | _ => none

def flushFrom (prev : Option (Option String × Nat)) (acc : List Alias) : List Stmt :=
  match prev, acc with
  | some (m, l), _ :: _ => [.importFrom m acc l]
  | _, _ => []

/-- `combine(statement)`: not a star import, and the first of a group or same module and level as the last accepted one -/
def groupOK (prev : Option (Option String × Nat)) (m : Option String) (a : List Alias) (l : Nat) : Bool :=
  !isStarFrom a && (match prev with | none => true | some (m', l') => m == m' && l == l')

/-- `_combine_import_from`: a stateful pass. `prev` is the module/level of the last statement that was
    *accepted* into a group (it is not reset when a group is flushed, exactly as in the code), `acc` the
    aliases collected so far. -/
def combineFromAux : Option (Option String × Nat) → List Alias → List Stmt → List Stmt
  | prev, acc, [] => flushFrom prev acc
  | prev, acc, s :: rest =>
    match asImportFrom s with
    | some (m, a, l) =>
      if groupOK prev m a l then
        combineFromAux (some (m, l)) (acc ++ a) rest
      else flushFrom prev acc ++ s :: combineFromAux prev [] rest
    | none => flushFrom prev acc ++ s :: combineFromAux prev [] rest

def combineFrom (b : List Stmt) : List Stmt := combineFromAux none [] b

def combineImports : SuiteT := { suiteF := fun _ b => combineFrom (combineImport b) }

/-! ### RemoveExplicitReturnNone -/

def returnNoneStmt : Stmt → Stmt
  | .return_ (some (.constant .none)) => .return_ none
  | s => s

/-- drop a trailing bare `return`; leave `0` if the body becomes empty -/
def dropTrailingReturn (b : List Stmt) : List Stmt :=
  let b' := match b.getLast? with
    | some (.return_ none) => b.dropLast
    | _ => b
  if b'.isEmpty then [zeroStmt] else b'

def removeReturnNone : SuiteT := { suiteF := fun _ b => b, stmtF := returnNoneStmt, funcBodyF := dropTrailingReturn }

/-! ### RemoveObject -/

def isObjectName : Expr → Bool
  | .name "object" _ => true
  | _ => false

def removeObjectStmt : Stmt → Stmt
  | .classDef n bases kws body decs tps => .classDef n (bases.filter (fun b => !isObjectName b)) kws body decs tps
  | s => s

def removeObject : SuiteT := { suiteF := fun _ b => b, stmtF := removeObjectStmt }

/-! ### RemoveAnnotations -/

structure AnnOpts where
  variables : Bool
  returns : Bool
  arguments : Bool
  classAttrs : Bool
  deriving Repr, DecidableEq

def AnnOpts.any (o : AnnOpts) : Bool := o.variables || o.returns || o.arguments || o.classAttrs

def isDataclassDecorator : Expr → Bool
  | .name "dataclass" _ => true
  | .attribute _ "dataclass" => true
  | .call (.name "dataclass" _) _ _ => true
  | .call (.attribute _ "dataclass") _ _ => true
  | _ => false

def isTrickyBase : Expr → Bool
  | .name n _ => n == "NamedTuple" || n == "TypedDict"
  | .attribute _ a => a == "NamedTuple" || a == "TypedDict"
  | _ => false

def stripArg (o : AnnOpts) : Arg → Arg
  | .mk a ann => .mk a (if o.arguments then none else ann)

def stripArguments (o : AnnOpts) : Arguments → Arguments
  | .mk po as va ko kd kw ds => .mk (po.map (stripArg o)) (as.map (stripArg o)) (va.map (stripArg o)) (ko.map (stripArg o)) kd
      (kw.map (stripArg o)) ds

/-- is removal of this annotation switched on (class attribute vs. variable) -/
def annEnabled (o : AnnOpts) (cls : Option (List Expr × List Expr)) : Bool :=
  match cls with
  | some _ => o.classAttrs
  | none => o.variables

/-- dataclass / NamedTuple / TypedDict classes keep their field annotations -/
def annExempt (cls : Option (List Expr × List Expr)) : Bool :=
  match cls with
  | some (decs, bases) => decs.any isDataclassDecorator || bases.any isTrickyBase
  | none => false

/-- `visit_AnnAssign`; `cls` = (decorators, bases) when the statement's namespace is a ClassDef (the class body or a
    compound statement nested in it) -/
def annAssign (o : AnnOpts) (cls : Option (List Expr × List Expr)) (tg ann : Expr) (v : Option Expr) (simple : Bool) : Stmt :=
  if !annEnabled o cls then .annAssign tg ann v simple
  else if annExempt cls then .annAssign tg ann v simple
  else match v with
    | some val => .assign [tg] val
    | none => .annAssign tg (.constant (.int 0)) none simple

mutual
def annStmt (o : AnnOpts) (cls : Option (List Expr × List Expr)) : Stmt → Stmt
  | .functionDef a n args body decs ret tps =>
    .functionDef a n (stripArguments o args) (annBody o none body) decs (if o.returns then none else ret) tps
  | .classDef n bases kws body decs tps => .classDef n bases kws (annBody o (some (decs, bases)) body) decs tps
  | .annAssign tg ann v simple => annAssign o cls tg ann v simple
  | .for_ a tg it body orelse => .for_ a tg it (annBody o cls body) (annBody o cls orelse)
  | .while_ c body orelse => .while_ c (annBody o cls body) (annBody o cls orelse)
  | .if_ c body orelse => .if_ c (annBody o cls body) (annBody o cls orelse)
  | .with_ a items body => .with_ a items (annBody o cls body)
  | .try_ st body hs orelse fin => .try_ st (annBody o cls body) (annHandlers o cls hs) (annBody o cls orelse) (annBody o cls fin)
  | .match_ s cases => .match_ s (annCases o cls cases)
  | s => s
def annBody (o : AnnOpts) (cls : Option (List Expr × List Expr)) : List Stmt → List Stmt
  | [] => []
  | s :: ss => annStmt o cls s :: annBody o cls ss
def annHandlers (o : AnnOpts) (cls : Option (List Expr × List Expr)) : List Handler → List Handler
  | [] => []
  | .mk ty n body :: hs => .mk ty n (annBody o cls body) :: annHandlers o cls hs
def annCases (o : AnnOpts) (cls : Option (List Expr × List Expr)) : List MatchCase → List MatchCase
  | [] => []
  | .mk p g body :: cs => .mk p g (annBody o cls body) :: annCases o cls cs
end

def removeAnnotations (o : AnnOpts) (m : Module) : Module := ⟨annBody o none m.body⟩

/-! ### remove_posargs -/

def mergePosonly : Arguments → Arguments
  | .mk po as va ko kd kw ds => .mk [] (po ++ as) va ko kd kw ds

def removePosargs (m : Module) : Module :=
  Traverse.mapModule ⟨ExprMap.mapE id mergePosonly, ExprMap.mapArguments id mergePosonly, true⟩ m

/-! ### RemoveLiteralStatements with its `__doc__` guard -/

def usesDoc : Expr → Bool
  | .attribute _ "__doc__" => true
  | .name "__doc__" _ => true
  | _ => false

/-- `_doc_in_module`: some `Attribute` or `Name` spelled `__doc__` occurs anywhere in the module -/
def docInModule (m : Module) : Bool :=
  Traverse.anyBody (ExprMap.anyE usesDoc) (ExprMap.anyArguments usesDoc) m.body

def removeLiteralStatements (m : Module) : Module :=
  if docInModule m then m else travModule removeLiterals m

end PMV.Transforms

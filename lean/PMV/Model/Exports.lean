import PMV.Ast
/-
  Model of `rename/util.py:find__all__`: the names a module declares as its interface.  Every literal list assigned
  (plainly, augmented or annotated) to `__all__` by a statement that runs at module level — also inside `if` / `for` /
  `while` / `try` / `with` / `match` blocks, not inside functions or classes — contributes its string elements.
  `allow_rename_globals` adds these names to `preserve_globals`.
-/
namespace PMV.Exports
open PMV

def isAllName : Expr → Bool
  | .name x _ => x == "__all__"
  | _ => false

def strOf : Expr → Option String
  | .constant (.str _ cps) => some (String.ofList (cps.map Char.ofNat))
  | _ => none

/-- the string elements of a list display (anything else assigned to `__all__` is ignored) -/
def listStrings : Expr → List String
  | .list es => es.filterMap strOf
  | _ => []

/-- the value a statement assigns to `__all__`, if it is such an assignment -/
def allValue : Stmt → Option Expr
  | .assign ts v => if ts.any isAllName then some v else none
  | .augAssign tg _ v => if isAllName tg then some v else none
  | .annAssign tg _ (some v) _ => if isAllName tg then some v else none
  | _ => none

def ownNames (st : Stmt) : List String :=
  match allValue st with
  | some v => listStrings v
  | none => []

mutual
def allS : Stmt → List String
  | .functionDef .. => []
  | .classDef .. => []
  | .for_ _ _ _ body orelse => allL body ++ allL orelse
  | .while_ _ body orelse => allL body ++ allL orelse
  | .if_ _ body orelse => allL body ++ allL orelse
  | .with_ _ _ body => allL body
  | .match_ _ cases => allC cases
  | .try_ _ body hs orelse fin => allL body ++ allH hs ++ allL orelse ++ allL fin
  | st => ownNames st
def allL : List Stmt → List String
  | [] => []
  | st :: rest => allS st ++ allL rest
def allH : List Handler → List String
  | [] => []
  | .mk _ _ body :: rest => allL body ++ allH rest
def allC : List MatchCase → List String
  | [] => []
  | .mk _ _ body :: rest => allL body ++ allC rest
end

/-- `find__all__(module)` (as a set: the order of the list does not matter to its use) -/
def findAll (m : Module) : List String := allL m.body

/-! ### specification: statements that run at module level -/

mutual
/-- `st'` is `st` or a statement nested in the blocks of `st`, without entering a function or a class -/
inductive ReachS : Stmt → Stmt → Prop
  | here (st : Stmt) : ReachS st st
  | forBody {a tg it body orelse st'} : ReachL body st' → ReachS (.for_ a tg it body orelse) st'
  | forElse {a tg it body orelse st'} : ReachL orelse st' → ReachS (.for_ a tg it body orelse) st'
  | whileBody {c body orelse st'} : ReachL body st' → ReachS (.while_ c body orelse) st'
  | whileElse {c body orelse st'} : ReachL orelse st' → ReachS (.while_ c body orelse) st'
  | ifBody {c body orelse st'} : ReachL body st' → ReachS (.if_ c body orelse) st'
  | ifElse {c body orelse st'} : ReachL orelse st' → ReachS (.if_ c body orelse) st'
  | withBody {a items body st'} : ReachL body st' → ReachS (.with_ a items body) st'
  | matchCase {s cases st'} : ReachC cases st' → ReachS (.match_ s cases) st'
  | tryBody {star body hs orelse fin st'} : ReachL body st' → ReachS (.try_ star body hs orelse fin) st'
  | tryHandler {star body hs orelse fin st'} : ReachH hs st' → ReachS (.try_ star body hs orelse fin) st'
  | tryElse {star body hs orelse fin st'} : ReachL orelse st' → ReachS (.try_ star body hs orelse fin) st'
  | tryFinally {star body hs orelse fin st'} : ReachL fin st' → ReachS (.try_ star body hs orelse fin) st'
inductive ReachL : List Stmt → Stmt → Prop
  | head {st rest st'} : ReachS st st' → ReachL (st :: rest) st'
  | tail {st rest st'} : ReachL rest st' → ReachL (st :: rest) st'
inductive ReachH : List Handler → Stmt → Prop
  | head {ty nm body rest st'} : ReachL body st' → ReachH (.mk ty nm body :: rest) st'
  | tail {h rest st'} : ReachH rest st' → ReachH (h :: rest) st'
inductive ReachC : List MatchCase → Stmt → Prop
  | head {p g body rest st'} : ReachL body st' → ReachC (.mk p g body :: rest) st'
  | tail {c rest st'} : ReachC rest st' → ReachC (c :: rest) st'
end

/-- a compound statement contributes through its blocks only; `def` and `class` are not entered -/
def isCompound : Stmt → Bool
  | .functionDef .. => true
  | .classDef .. => true
  | .for_ .. => true
  | .while_ .. => true
  | .if_ .. => true
  | .with_ .. => true
  | .match_ .. => true
  | .try_ .. => true
  | _ => false

/-- `s` is exported: some simple statement that runs at module level assigns a list display containing it to `__all__` -/
def Exported (m : Module) (s : String) : Prop :=
  ∃ st v, ReachL m.body st ∧ isCompound st = false ∧ allValue st = some v ∧ s ∈ listStrings v

end PMV.Exports

import PMV.Model.CliTypes
/-
  Model of `python_minifier.__main__`: boolean-flag parsing (argparse store_true/store_false),
  `do_minify` forwarding, the size rule and the output paths of `main()`, `source_modules` over an
  abstract file system.  Import-free (core only) so that the driver links natively.
-/
namespace PMV.Cli

/-- Value of every boolean `dest` of the argparse namespace. -/
abbrev Ns := String → Bool

def defaults (t : Table) : Ns := fun d =>
  match t.flags.find? (fun f => f.dest == d) with
  | some f => f.dflt
  | none => false

/-- The `const` stored by (any) flag writing `dest`. -/
def constOf (t : Table) (d : String) : Bool :=
  match t.flags.find? (fun f => f.dest == d) with
  | some f => f.const
  | none => false

/-- One argv element: a known boolean option string stores its const into its dest; anything else
    (paths, `--output x`, preserve lists) leaves the boolean part of the namespace alone. -/
def step (t : Table) (ns : Ns) (arg : String) : Ns :=
  match t.flags.find? (fun f => f.name == arg) with
  | some f => fun d => if d == f.dest then f.const else ns d
  | none => ns

def parseBools (t : Table) (argv : List String) : Ns := argv.foldl (step t) (defaults t)

def evalSrc (ns : Ns) : Src → Bool
  | .dest d => ns d
  | .const b => b

def evalKwAux (ns : Ns) (k : String) : List Override → Bool → Bool
  | [], base => base
  | o :: os, base =>
    if o.kw == k then
      if ns o.guard == o.val then evalSrc ns o.src else evalKwAux ns k os base
    else evalKwAux ns k os base

/-- The value `do_minify` passes to `minify` for keyword `k` (flattened: `remove_annotations.<field>`);
    `none` when `k` is not forwarded at all. -/
def evalKw (t : Table) (ns : Ns) (k : String) : Option Bool :=
  (t.base.lookup k).map fun s => evalKwAux ns k t.overrides (evalSrc ns s)

/-! ### Boolean expressions over "flag is present on the command line" -/

inductive BExp where
  | lit : Bool → BExp
  | present : String → BExp
  | ite : BExp → BExp → BExp → BExp
  deriving Repr, DecidableEq

namespace BExp
def eval (P : String → Bool) : BExp → Bool
  | lit b => b
  | present f => P f
  | ite c a b => if eval P c then eval P a else eval P b

def vars : BExp → List String
  | lit _ => []
  | present f => [f]
  | ite c a b => vars c ++ vars a ++ vars b

def not (e : BExp) : BExp := ite e (lit false) (lit true)
def and (a b : BExp) : BExp := ite a b (lit false)
end BExp

def subsets {α} : List α → List (List α)
  | [] => [[]]
  | x :: xs => (subsets xs).map (x :: ·) ++ subsets xs

/-- Decide equivalence by enumerating the assignments of the variables that occur. -/
def equivB (e1 e2 : BExp) : Bool :=
  (subsets (e1.vars ++ e2.vars)).all fun s => e1.eval (fun v => s.contains v) == e2.eval (fun v => s.contains v)

def destExpAux (d : String) (dflt : Bool) : List BoolFlag → BExp
  | [] => .lit dflt
  | f :: fs => if f.dest == d then .ite (.present f.name) (.lit f.const) (destExpAux d dflt fs) else destExpAux d dflt fs

/-- The value of namespace entry `d` as a function of which flags are present. -/
def destExp (t : Table) (d : String) : BExp := destExpAux d (defaults t d) t.flags

def srcExp (t : Table) : Src → BExp
  | .dest d => destExp t d
  | .const b => .lit b

def eqExp (e : BExp) (v : Bool) : BExp := if v then e else e.not

def kwExpAux (t : Table) (k : String) : List Override → BExp → BExp
  | [], base => base
  | o :: os, base =>
    if o.kw == k then .ite (eqExp (destExp t o.guard) o.val) (srcExp t o.src) (kwExpAux t k os base)
    else kwExpAux t k os base

def kwExp (t : Table) (k : String) : Option BExp :=
  (t.base.lookup k).map fun s => kwExpAux t k t.overrides (srcExp t s)

/-! ### The size rule and the output paths of `main()` (C13/C14) -/

inductive Mode where
  | stdout | output | inPlace
  deriving Repr, DecidableEq

/-- Result of `do_minify`: `none` = MinificationNotBeneficialError. -/
def doMinify (force : Bool) (src minified : List UInt8) : Option (List UInt8) :=
  if force then some minified
  else if minified.length > src.length then none
  else some minified

/-- What ends up written for one module (for `inPlace` "nothing written" leaves the source). -/
def written (force : Bool) (src minified : List UInt8) : List UInt8 :=
  match doMinify force src minified with
  | some m => m
  | none => src

/-! ### `source_modules` and the main loop over an abstract file system (C15) -/

def isTarget (suffixes : List String) (name : String) : Bool := suffixes.any fun s => name.endsWith s

/-- Outcome of processing one file: the API result for the bytes read, or a failure
    (unreadable / undecodable / unparsable: an exception that propagates out of `main`). -/
inductive Outcome where
  | ok : List UInt8 → Outcome      -- utf-8 bytes of minify(source)
  | fail : Outcome
  deriving Repr

abbrev FS := List (String × List UInt8)

def FS.get (fs : FS) (p : String) : Option (List UInt8) := fs.lookup p
def FS.set (fs : FS) (p : String) (b : List UInt8) : FS :=
  match fs with
  | [] => [(p, b)]
  | (q, c) :: rest => if q == p then (q, b) :: rest else (q, c) :: FS.set rest p b

structure RunState where
  fs : FS
  stdout : List UInt8
  failed : Bool
  deriving Repr

/-- One iteration of the `for path in source_modules(args)` loop. `api` is the (abstract) minify. -/
def visit (force : Bool) (mode : Mode) (outPath : String) (api : List UInt8 → Outcome)
    (st : RunState) (path : String) : RunState :=
  if st.failed then st else
  match st.fs.get path with
  | none => { st with failed := true }
  | some src =>
    match api src with
    | .fail => { st with failed := true }
    | .ok m =>
      let w := written force src m
      match mode with
      | .inPlace => { st with fs := st.fs.set path w }
      | .output => { st with fs := st.fs.set outPath w }
      | .stdout => { st with stdout := st.stdout ++ w }

def runMain (force : Bool) (mode : Mode) (outPath : String) (api : List UInt8 → Outcome)
    (fs : FS) (visitList : List String) : RunState :=
  visitList.foldl (visit force mode outPath api) { fs := fs, stdout := [], failed := false }

/-! ### Whole command: validation, then stdin or path mode -/

structure Args where
  paths : List String
  output : Option String
  inPlace : Bool
  ns : Ns

/-- The five checks at the end of `parse_args()` (each `sys.exit(1)`), in order. -/
def invalid (a : Args) (isDir : String → Bool) : Bool :=
  (a.paths.contains "-" && a.paths.length != 1)
  || (a.paths.contains "-" && a.inPlace)
  || (a.paths.length > 1 && !a.inPlace)
  || (match a.paths with | [p] => isDir p && !a.inPlace | _ => false)
  || (a.ns "remove_class_attribute_annotations" && !a.ns "remove_annotations")

structure Result where
  exit : Nat
  fs : FS
  stdout : List UInt8
  deriving Repr

def modeOf (a : Args) : Mode := if a.inPlace then .inPlace else if a.output.isSome then .output else .stdout

/-- `main()`: `stdin` is the bytes on standard input, `visitList` is what `source_modules` yields,
    `api` the (abstract) result of `minify` with the forwarded keywords. -/
def cliMain (force : Bool) (a : Args) (isDir : String → Bool) (api : List UInt8 → Outcome)
    (fs : FS) (stdin : List UInt8) (visitList : List String) : Result :=
  if invalid a isDir then { exit := 1, fs := fs, stdout := [] }
  else if a.paths == ["-"] then
    match api stdin with
    | .fail => { exit := 1, fs := fs, stdout := [] }
    | .ok m =>
      let w := written force stdin m
      match a.output with
      | some o => { exit := 0, fs := fs.set o w, stdout := [] }
      | none => { exit := 0, fs := fs, stdout := w }
  else
    let r := runMain force (modeOf a) (a.output.getD "") api fs visitList
    { exit := if r.failed then 1 else 0, fs := r.fs, stdout := r.stdout }

/-- `source_modules`: explicit file arguments as they are; for directories every walked file whose
    name ends with one of the suffixes.  `walk d` lists (joined path, file name) in `os.walk` order.
    A file reached again (repeated argument, a directory and a file in it) is visited only the first time;
    the model identifies files by their path (the trees it is compared on contain no symbolic links). -/
def sourceModules (suffixes : List String) (isDir : String → Bool) (walk : String → List (String × String))
    (paths : List String) : List String :=
  (paths.flatMap fun p =>
    if isDir p then ((walk p).filter fun e => isTarget suffixes e.2).map (·.1) else [p]).eraseDups

end PMV.Cli

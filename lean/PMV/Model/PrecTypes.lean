import PMV.Ast
namespace PMV.Printer

/-- The precedence table of `ExpressionPrinter` (values doubled to stay in `Nat`: 3.5 ↦ 7) and the
    numeric literals that the printer compares precedences with.  Generated from the running code. -/
structure PrecTable where
  entries : List (String × Nat)
  starMax : Nat          -- `0 < precedence <= 7` in visit_Starred                     (doubled)
  dictStarMax : Nat      -- `0 < precedence <= 7` in visit_Dict                        (doubled)
  powRhs : Nat           -- `right_precedence == 14` in _rhs                            (doubled)
  subscript : Nat        -- `slice_precedence = 17` in visit_Subscript                  (doubled)
  deriving Repr

def PrecTable.get (t : PrecTable) (k : String) : Nat := (t.entries.lookup k).getD 0

def binOpName : BinOpK → String
  | .add => "Add" | .sub => "Sub" | .mult => "Mult" | .matMult => "MatMult" | .div => "Div"
  | .mod => "Mod" | .pow => "Pow" | .lShift => "LShift" | .rShift => "RShift" | .bitOr => "BitOr"
  | .bitXor => "BitXor" | .bitAnd => "BitAnd" | .floorDiv => "FloorDiv"

def unaryOpName : UnaryOpK → String
  | .invert => "Invert" | .not_ => "Not" | .uAdd => "UAdd" | .uSub => "USub"

def boolOpName : BoolOpK → String
  | .and_ => "And" | .or_ => "Or"

def cmpOpName : CmpOpK → String
  | .eq => "Eq" | .notEq => "NotEq" | .lt => "Lt" | .ltE => "LtE" | .gt => "Gt" | .gtE => "GtE"
  | .is_ => "Is" | .isNot => "IsNot" | .in_ => "In" | .notIn => "NotIn"

/-- `ExpressionPrinter.precedence(node)`. -/
def prec (t : PrecTable) : Expr → Nat
  | .binOp _ op _ => t.get (binOpName op)
  | .unaryOp op _ => t.get (unaryOpName op)
  | .boolOp op _ => t.get (boolOpName op)
  | .compare _ ops _ => match ops.map (fun o => t.get (cmpOpName o)) with
      | [] => 0
      | p :: ps => ps.foldl min p
  | .lambda .. => t.get "Lambda"
  | .ifExp .. => t.get "IfExp"
  | .await _ => t.get "Await"
  | .subscript .. => t.get "Subscript"
  | .call .. => t.get "Call"
  | .attribute .. => t.get "Attribute"
  | .tuple _ => t.get "Tuple"
  | .set _ => t.get "Set"
  | .list _ => t.get "List"
  | .dict .. => t.get "Dict"
  | .listComp .. => t.get "ListComp"
  | .setComp .. => t.get "SetComp"
  | .dictComp .. => t.get "DictComp"
  | .generatorExp .. => t.get "GeneratorExp"
  | _ => 0

end PMV.Printer

/-
  Model of `rename/util.py:allow_rename_locals` and `allow_rename_globals`: which bindings are frozen (`disallow_rename`) before
  names are assigned.  A node of the syntax tree is reduced to what the traversal reads: whether it is a namespace, whether it is
  the module, the bindings attached to it (an identity and the bound name, `none` for bindings without one) and its children.
-/
namespace PMV.Freeze

inductive Node
  | mk (isNamespace isModule : Bool) (bindings : List (Nat × Option String)) (children : List Node)

def listedIn (preserve : List String) : Option String → Bool
  | some n => preserve.contains n
  | none => false

/-- `if rename_locals is False: disallow … elif binding.name in preserve_locals: disallow` -/
def frozenLocal (renameLocals : Bool) (preserve : List String) (b : Nat × Option String) : Bool :=
  !renameLocals || listedIn preserve b.2

mutual
/-- `allow_rename_locals(node, rename_locals, preserve_locals)`: the identities of the bindings it freezes -/
def freezeLocals (renameLocals : Bool) (preserve : List String) : Node → List Nat
  | .mk isNs isMod bs children =>
    (if isNs && !isMod then (bs.filter (frozenLocal renameLocals preserve)).map (·.1) else [])
      ++ freezeLocalsL renameLocals preserve children
def freezeLocalsL (renameLocals : Bool) (preserve : List String) : List Node → List Nat
  | [] => []
  | n :: rest => freezeLocals renameLocals preserve n ++ freezeLocalsL renameLocals preserve rest
end

/-- `allow_rename_globals(module, rename_globals, preserve_globals)` on the module's bindings; `exported` is `find__all__(module)`
    (model: `PMV.Exports.findAll`), `onlyDeclared` the identities for which `is_only_declared` holds -/
def freezeGlobals (renameGlobals : Bool) (preserve exported : List String) (onlyDeclared : List Nat) (bs : List (Nat × Option String)) : List Nat :=
  (bs.filter fun b => !renameGlobals || listedIn (preserve ++ exported) b.2 || onlyDeclared.contains b.1).map (·.1)

/-! ### specification -/

mutual
/-- `b` is a binding of a namespace other than the module, somewhere in the tree -/
inductive LocalBinding : Node → (Nat × Option String) → Prop
  | here {isMod : Bool} {bs children b} : isMod = false → b ∈ bs → LocalBinding (.mk true isMod bs children) b
  | inChild {isNs isMod bs children b} : LocalBindingL children b → LocalBinding (.mk isNs isMod bs children) b
inductive LocalBindingL : List Node → (Nat × Option String) → Prop
  | head {n rest b} : LocalBinding n b → LocalBindingL (n :: rest) b
  | tail {n rest b} : LocalBindingL rest b → LocalBindingL (n :: rest) b
end

end PMV.Freeze

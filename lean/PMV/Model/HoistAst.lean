import PMV.Spec.PyCore
import PMV.Model.RenameAst
/-
  Hoisting repeated literals, as `rename/rename_literals.py` does it on the core statement forms: every occurrence
  of a hoisted constant (a string, `None`, `True`, `False`; not a literal statement) inside the namespace it was
  placed in — the module or one function — is replaced by a name, and `name = constant` is inserted after the
  docstrings of that namespace (`rename/util.py:insert`; statements inserted by the renamer — the parameter copies —
  may sit between them).  `hoistOK` is the checkable condition under which T01.14 proves that the result behaves like
  the original.
-/
namespace PMV.HoistAst
open PMV PMV.PyCore PMV.RenameAst

/-- two constants are the same literal value (the spelling of a string does not matter) -/
def sameConst : Const → Const → Bool
  | .none, .none => true
  | .true_, .true_ => true
  | .false_, .false_ => true
  | .str _ a, .str _ b => a == b
  | .bytes _ a, .bytes _ b => a == b
  | _, _ => false

/-- constant ↦ the name that holds it -/
abbrev CMap := List (Const × String)

def cfind : CMap → Const → Option String
  | [], _ => none
  | (k, a) :: rest, c => if sameConst k c then some a else cfind rest c

mutual
def hoistE (g : CMap) : Expr → Expr
  | .constant c => (match cfind g c with | some a => .name a .load | none => .constant c)
  | .unaryOp op e => .unaryOp op (hoistE g e)
  | .binOp l op r => .binOp (hoistE g l) op (hoistE g r)
  | .compare l ops cs => .compare (hoistE g l) ops (hoistEs g cs)
  | .boolOp op vs => .boolOp op (hoistEs g vs)
  | .ifExp c a b => .ifExp (hoistE g c) (hoistE g a) (hoistE g b)
  | .call f args kws => .call f (hoistEs g args) kws
  | .tuple es => .tuple (hoistEs g es)
  | e => e
def hoistEs (g : CMap) : List Expr → List Expr
  | [] => []
  | e :: es => hoistE g e :: hoistEs g es
end

def hoistO (g : CMap) : Option Expr → Option Expr
  | none => none
  | some e => some (hoistE g e)

/-- a string or bytes literal: as a statement of its own it is left alone (`visit_Str` skips it) -/
def isStrConst : Expr → Bool
  | .constant (.str _ _) => true
  | .constant (.bytes _ _) => true
  | _ => false

mutual
def hoistStmt (g : CMap) : Stmt → Stmt
  | .return_ v => .return_ (hoistO g v)
  | .assign ts v => .assign ts (hoistE g v)
  | .augAssign tg op v => .augAssign tg op (hoistE g v)
  | .annAssign tg ann v simple => .annAssign tg (hoistE g ann) (hoistO g v) simple
  | .for_ a tg it body orelse => .for_ a tg (hoistE g it) (hoistBody g body) (hoistBody g orelse)
  | .while_ c body orelse => .while_ (hoistE g c) (hoistBody g body) (hoistBody g orelse)
  | .if_ c body orelse => .if_ (hoistE g c) (hoistBody g body) (hoistBody g orelse)
  | .try_ st body hs orelse fin => .try_ st (hoistBody g body) (hoistHandlers g hs) (hoistBody g orelse) (hoistBody g fin)
  | .assert_ c msg => .assert_ (hoistE g c) (hoistO g msg)
  | .expr v => if isStrConst v then .expr v else .expr (hoistE g v)   -- a string statement (docstring) is not an occurrence
  | s => s
def hoistBody (g : CMap) : List Stmt → List Stmt
  | [] => []
  | s :: ss => hoistStmt g s :: hoistBody g ss
def hoistHandlers (g : CMap) : List Handler → List Handler
  | [] => []
  | .mk ty nm body :: hs => .mk ty nm (hoistBody g body) :: hoistHandlers g hs
end

/-- `name = constant` -/
def ghostStmt (c : Const) (a : String) : Stmt := .assign [.name a .store] (.constant c)

/-- what sits between the docstrings and the rest of a body: a hoisted constant's assignment, or a statement of the
    input that stays where it is (a parameter copy the renamer inserted) -/
inductive PEntry
  | ghost (c : Const) (a : String)
  | keep
  deriving Repr

/-- weave the assignments into the start of a statement list; the rest is transformed by `f` -/
def weave (f : Stmt → Stmt) : List PEntry → List Stmt → List Stmt
  | [], rest => rest.map f
  | .ghost c a :: pro, rest => ghostStmt c a :: weave f pro rest
  | .keep :: pro, st :: rest => st :: weave f pro rest
  | .keep :: pro, [] => weave f pro []

/-- the body of a function after hoisting: docstrings, the woven start, the transformed statements -/
def hoistFnBody (g : CMap) (pro : List PEntry) (body : List Stmt) : List Stmt :=
  body.takeWhile isDocStmt ++ weave (hoistStmt g) pro (body.dropWhile isDocStmt)

/-- the witness: the module's constants and their order, and per function its own constants and the start of its body -/
structure HoistW where
  proMod : List PEntry
  proFn : String → List PEntry

def ghostsOf : List PEntry → List (Const × String)
  | [] => []
  | .ghost c a :: rest => (c, a) :: ghostsOf rest
  | .keep :: rest => ghostsOf rest

def HoistW.gmod (w : HoistW) : CMap := ghostsOf w.proMod
def HoistW.gloc (w : HoistW) (f : String) : CMap := ghostsOf (w.proFn f)
/-- the constants visible in function `f`: its own, then the module's -/
def HoistW.gfn (w : HoistW) (f : String) : CMap := w.gloc f ++ w.gmod

def hoistTop (w : HoistW) : Stmt → Stmt
  | .functionDef false n args body [] none [] =>
    .functionDef false n args (hoistFnBody (w.gfn n) (w.proFn n) body) [] none []
  | s => hoistStmt w.gmod s

def hoistModule (w : HoistW) (m : Module) : Module :=
  ⟨m.body.takeWhile isDocStmt ++ weave (hoistTop w) w.proMod (m.body.dropWhile isDocStmt)⟩

/-! ### the checkable side condition -/

/-- the value a hoisted constant has in the core (bytes have none: hoisting them is outside the core) -/
def constVal : Const → Option Val
  | .none => some .none
  | .true_ => some (.bool true)
  | .false_ => some (.bool false)
  | .str _ cps => some (.str (String.ofList (cps.map Char.ofNat)))
  | _ => none

def keepCount : List PEntry → Nat
  | [] => 0
  | .ghost _ _ :: rest => keepCount rest
  | .keep :: rest => keepCount rest + 1

/-- a statement that may stay between the inserted assignments: `x = y` between two names -/
def isCopyStmt : Stmt → Bool
  | .assign [.name _ _] (.name _ _) => true
  | _ => false

mutual
/-- does a hoisted constant occur in the expression -/
def hasGhostE (g : CMap) : Expr → Bool
  | .constant c => (cfind g c).isSome
  | .unaryOp _ e => hasGhostE g e
  | .binOp l _ r => hasGhostE g l || hasGhostE g r
  | .compare l _ cs => hasGhostE g l || hasGhostEs g cs
  | .boolOp _ vs => hasGhostEs g vs
  | .ifExp c a b => hasGhostE g c || hasGhostE g a || hasGhostE g b
  | .call _ args _ => hasGhostEs g args
  | .tuple es => hasGhostEs g es
  | _ => false
def hasGhostEs (g : CMap) : List Expr → Bool
  | [] => false
  | e :: es => hasGhostE g e || hasGhostEs g es
end

mutual
/-- no hoisted constant sits in a `__debug__` test (the documented spellings compare with the literal itself) -/
def debugOK (g : CMap) : Stmt → Bool
  | .if_ c body orelse => (!isDebugTest c || !hasGhostE g c) && debugOKL g body && debugOKL g orelse
  | .while_ _ body orelse => debugOKL g body && debugOKL g orelse
  | .for_ _ _ _ body orelse => debugOKL g body && debugOKL g orelse
  | .try_ _ body hs orelse fin => debugOKL g body && debugOKH g hs && debugOKL g orelse && debugOKL g fin
  | _ => true
def debugOKL (g : CMap) : List Stmt → Bool
  | [] => true
  | s :: ss => debugOK g s && debugOKL g ss
def debugOKH (g : CMap) : List Handler → Bool
  | [] => true
  | .mk _ _ body :: hs => debugOKL g body && debugOKH g hs
end


/-- the names that hold hoisted constants, with the value each holds -/
def gvals : CMap → List (String × Val)
  | [] => []
  | (c, a) :: rest => (match constVal c with | some v => [(a, v)] | none => []) ++ gvals rest

def gnames (g : CMap) : List String := g.map (·.2)

/-- the statements that stay between the inserted assignments are copies between names -/
def keepsOK : List PEntry → List Stmt → Bool
  | [], _ => true
  | .ghost _ _ :: pro, rest => keepsOK pro rest
  | .keep :: pro, st :: rest => isCopyStmt st && keepsOK pro rest
  | .keep :: _, [] => false

/-- the condition on one function (`gm`: the module's constants; `pro`: the start of the hoisted body) -/
def fnHoistOK (gm : CMap) (pro : List PEntry) (ps : List String) (body : List Stmt) : Bool :=
  let gl := ghostsOf pro
  let g := gl ++ gm
  let N := fnNames ps body
  let body' := hoistFnBody g pro body
  let bound := match bindTop body with | some b => b | none => []
  let bound' := match bindTop body' with | some b => b | none => []
  let loc := isLoc ps bound (declaredGlobals body)
  let loc' := isLoc ps bound' (declaredGlobals body')
  N.all (fun x => !(gnames g).contains x) &&
  g.all (fun p => (constVal p.1).isSome) &&
  (gnames g).Nodup &&
  keepsOK pro (body.dropWhile isDocStmt) &&
  ((bindTop body').isSome == (bindTop body).isSome) &&
  N.all (fun x => loc' x == loc x) &&
  (gnames gl).all (fun a => loc' a) &&
  (gnames gm).all (fun a => !loc' a)

/-- the names of the module-level statements (the bodies of the functions have their own condition) -/
def topNames : List Stmt → List String
  | [] => []
  | .functionDef .. :: rest => topNames rest
  | st :: rest => namesS st ++ topNames rest

def topDebugOK (g : CMap) : List Stmt → Bool
  | [] => true
  | .functionDef .. :: rest => topDebugOK g rest
  | st :: rest => debugOK g st && topDebugOK g rest

/-- the condition on the module -/
def hoistOK (w : HoistW) (m : Module) : Bool :=
  keepCount w.proMod == 0 &&
  w.gmod.all (fun p => (constVal p.1).isSome) &&
  (gnames w.gmod).Nodup &&
  (reserved ++ topNames m.body).all (fun x => !(gnames w.gmod).contains x) &&
  (collect m.body).all (fun e => fnHoistOK w.gmod (w.proFn e.1) e.2.1 e.2.2)

end PMV.HoistAst

import PMV.Model.ExprPrinter
import PMV.Model.PyInt
/-
  Model of `transforms/constant_folding.FoldConstants`.
  Integer / bool arithmetic is computed by `PyInt.eval` (the specification of Python's semantics);
  float and complex arithmetic and the repr of a negated complex are *oracle parameters* supplied by
  plain CPython (never by the minifier).
-/
namespace PMV.Fold
open PMV PMV.Printer PMV.Token

inductive FVal
  | none | bool (b : Bool) | int (n : Int) | float (neg : Bool) (mag : String) | complex (r : String)
  deriving DecidableEq, Repr

structure Oracle where
  binop : List (String × String)   -- "Op|lkey|rkey" ↦ result key, or "err" when evaluation raises
  neg : List (String × String)     -- value key ↦ key of the negated value (complex results only)

def FVal.key : FVal → String
  | .none => "n"
  | .bool b => if b then "b:1" else "b:0"
  | .int n => "i:" ++ toString n
  | .float neg mag => "f:" ++ (if neg then "-" else "") ++ mag
  | .complex r => "c:" ++ r

def parseKey (s : String) : Option FVal :=
  if s == "n" then some .none
  else if s == "b:1" then some (.bool true)
  else if s == "b:0" then some (.bool false)
  else if s.startsWith "i:" then ((s.drop 2).toString.toInt?).map .int
  else if s.startsWith "f:-" then some (.float true (s.drop 3).toString)
  else if s.startsWith "f:" then some (.float false (s.drop 2).toString)
  else if s.startsWith "c:" then some (.complex (s.drop 2).toString)
  else none

/-- `is_constant_node(node, (Num, NameConstant))` and the value it holds. -/
def operandVal : Expr → Option FVal
  | .constant .none => some .none
  | .constant .true_ => some (.bool true)
  | .constant .false_ => some (.bool false)
  | .constant (.int n) => some (.int n)
  | .constant (.float r) => some (.float false r)       -- literals are non-negative; the text is the magnitude
  | .constant (.complex r) => some (.complex r)
  | _ => none

def opOf : BinOpK → PyInt.Op
  | .add => .add | .sub => .sub | .mult => .mult | .matMult => .matMult | .div => .div | .mod => .mod
  | .pow => .pow | .lShift => .lShift | .rShift => .rShift | .bitOr => .bitOr | .bitXor => .bitXor
  | .bitAnd => .bitAnd | .floorDiv => .floorDiv

def isBitwise : BinOpK → Bool
  | .bitAnd => true | .bitOr => true | .bitXor => true | _ => false

/-- int-like view: (value, is it a bool). -/
def intLike : FVal → Option (Int × Bool)
  | .int n => some (n, false)
  | .bool b => some (if b then 1 else 0, true)
  | _ => none

/-- digits of the decimal representation exceed CPython's int→str limit (4300): `repr` raises. -/
def tooManyDigits (n : Int) : Bool := (decDigits n.natAbs).length > 4300

def valTooBig : FVal → Bool
  | .int n => tooManyDigits n
  | _ => false

/-- The value of `l op r` (none = evaluation raises). -/
def evalBin (orc : Oracle) (op : BinOpK) (l r : FVal) : Option FVal :=
  match intLike l, intLike r with
  | some (a, ab), some (b, bb) =>
    match PyInt.eval (opOf op) a b with
    | some v => if ab && bb && isBitwise op then some (.bool (v != 0)) else some (.int v)
    | none => none
  | _, _ =>
    match orc.binop.lookup (binOpName op ++ "|" ++ l.key ++ "|" ++ r.key) with
    | some k => parseKey k
    | none => none

def isNan : FVal → Bool
  | .float _ mag => mag == "nan"
  | _ => false

/-- `repr` of a complex spells an infinite or nan part as the *names* `inf` / `nan`. -/
def nonFiniteRepr (r : String) : Bool := (r.splitOn "inf").length > 1 || (r.splitOn "nan").length > 1

/-- The literal node chosen for a value (`none`: no node can be built). -/
def newNode (orc : Oracle) : FVal → Option Expr
  | .bool b => some (.constant (if b then .true_ else .false_))
  | .int n =>
    if tooManyDigits n then none
    else if n < 0 then some (.unaryOp .uSub (.constant (.int (-n)))) else some (.constant (.int n))
  | .float neg mag =>
    if neg then some (.unaryOp .uSub (.constant (.float mag))) else some (.constant (.float mag))
  | .complex r =>
    if nonFiniteRepr r then none          -- no literal exists; never evaluated
    else if r.startsWith "-" then
      match orc.neg.lookup ("c:" ++ r) with
      | some k => (match parseKey k with
          | some (.complex r') => some (.unaryOp .uSub (.constant (.complex r')))
          | _ => none)
      | none => none
    else some (.constant (.complex r))
  | .none => none

/-- does the printed literal parse back to the node that was built? (a complex with a real part
    prints as `(a+bj)`, which parses as a BinOp) -/
def reparseOK : Expr → Bool
  | .constant (.complex r) => !r.startsWith "("
  | .unaryOp _ (.constant (.complex r)) => !r.startsWith "("
  | _ => true

def exprText (t : PrecTable) (sp : Spacing) (e : Expr) : String := render sp (exprToks t e)

/-- `visit_BinOp` after the operands have been visited. -/
def foldBinOp (t : PrecTable) (sp : Spacing) (orc : Oracle) (l : Expr) (op : BinOpK) (r : Expr) : Expr :=
  let orig := Expr.binOp l op r
  match operandVal l, operandVal r with
  | some lv, some rv =>
    if op == .div || op == .pow then orig
    else match evalBin orc op lv rv with
      | none => orig
      | some v =>
        if isNan v then orig
        else match newNode orc v with
          | none => orig
          | some nn =>
            if (exprText t sp nn).length ≥ (exprText t sp orig).length then orig
            else if !reparseOK nn then orig
            else nn
  | _, _ => orig

mutual
def foldE (t : PrecTable) (sp : Spacing) (orc : Oracle) : Expr → Expr
  | .boolOp op vs => .boolOp op (foldL t sp orc vs)
  | .namedExpr tg v => .namedExpr (foldE t sp orc tg) (foldE t sp orc v)
  | .binOp l op r => foldBinOp t sp orc (foldE t sp orc l) op (foldE t sp orc r)
  | .unaryOp op v => .unaryOp op (foldE t sp orc v)
  | .lambda a b => .lambda (foldArguments t sp orc a) (foldE t sp orc b)
  | .ifExp c b o => .ifExp (foldE t sp orc c) (foldE t sp orc b) (foldE t sp orc o)
  | .dict ks vs => .dict (foldOL t sp orc ks) (foldL t sp orc vs)
  | .set es => .set (foldL t sp orc es)
  | .listComp e gs => .listComp (foldE t sp orc e) (foldComps t sp orc gs)
  | .setComp e gs => .setComp (foldE t sp orc e) (foldComps t sp orc gs)
  | .dictComp k v gs => .dictComp (foldE t sp orc k) (foldE t sp orc v) (foldComps t sp orc gs)
  | .generatorExp e gs => .generatorExp (foldE t sp orc e) (foldComps t sp orc gs)
  | .await v => .await (foldE t sp orc v)
  | .yield v => .yield (foldO t sp orc v)
  | .yieldFrom v => .yieldFrom (foldE t sp orc v)
  | .compare l ops cs => .compare (foldE t sp orc l) ops (foldL t sp orc cs)
  | .call f as ks => .call (foldE t sp orc f) (foldL t sp orc as) (foldKeywords t sp orc ks)
  | .joinedStr s ps => .joinedStr s ps      -- f-strings are opaque to the model (text supplied by the harness)
  | .constant c => .constant c
  | .attribute v a => .attribute (foldE t sp orc v) a
  | .subscript v s => .subscript (foldE t sp orc v) (foldE t sp orc s)
  | .starred v => .starred (foldE t sp orc v)
  | .name i c => .name i c
  | .list es => .list (foldL t sp orc es)
  | .tuple es => .tuple (foldL t sp orc es)
  | .slice l u s => .slice (foldO t sp orc l) (foldO t sp orc u) (foldO t sp orc s)
  | .paren e => .paren (foldE t sp orc e)
def foldL (t : PrecTable) (sp : Spacing) (orc : Oracle) : List Expr → List Expr
  | [] => []
  | e :: es => foldE t sp orc e :: foldL t sp orc es
def foldO (t : PrecTable) (sp : Spacing) (orc : Oracle) : Option Expr → Option Expr
  | none => none
  | some e => some (foldE t sp orc e)
def foldOL (t : PrecTable) (sp : Spacing) (orc : Oracle) : List (Option Expr) → List (Option Expr)
  | [] => []
  | e :: es => foldO t sp orc e :: foldOL t sp orc es
def foldKeywords (t : PrecTable) (sp : Spacing) (orc : Oracle) : List Keyword → List Keyword
  | [] => []
  | .mk a v :: ks => .mk a (foldE t sp orc v) :: foldKeywords t sp orc ks
def foldComps (t : PrecTable) (sp : Spacing) (orc : Oracle) : List Comprehension → List Comprehension
  | [] => []
  | .mk tg it ifs a :: gs =>
    .mk (foldE t sp orc tg) (foldE t sp orc it) (foldL t sp orc ifs) a :: foldComps t sp orc gs
def foldArg (t : PrecTable) (sp : Spacing) (orc : Oracle) : Arg → Arg
  | .mk a ann => .mk a (foldO t sp orc ann)
def foldArgs (t : PrecTable) (sp : Spacing) (orc : Oracle) : List Arg → List Arg
  | [] => []
  | a :: as => foldArg t sp orc a :: foldArgs t sp orc as
def foldOptArg (t : PrecTable) (sp : Spacing) (orc : Oracle) : Option Arg → Option Arg
  | none => none
  | some a => some (foldArg t sp orc a)
def foldArguments (t : PrecTable) (sp : Spacing) (orc : Oracle) : Arguments → Arguments
  | .mk po as va ko kd kw ds =>
    .mk (foldArgs t sp orc po) (foldArgs t sp orc as) (foldOptArg t sp orc va) (foldArgs t sp orc ko)
        (foldOL t sp orc kd) (foldOptArg t sp orc kw) (foldL t sp orc ds)
end

end PMV.Fold

import PMV.Ast
/-
  Apply an expression transformer at every expression position of a statement tree (the shape of
  `SuiteTransformer.generic_visit` for transformers that only rewrite expressions).
-/
namespace PMV.Traverse
open PMV

structure ExprMap where
  e : Expr → Expr
  args : Arguments → Arguments
  funcTypeParams : Bool        -- is FunctionDef.type_params reached by the traversal

def mapO (f : Expr → Expr) : Option Expr → Option Expr
  | none => none
  | some e => some (f e)

def mapKeyword (f : Expr → Expr) : Keyword → Keyword
  | .mk a v => .mk a (f v)

mutual
def mapPattern (f : Expr → Expr) : Pattern → Pattern
  | .matchValue v => .matchValue (f v)
  | .matchSingleton c => .matchSingleton c
  | .matchSequence ps => .matchSequence (mapPatterns f ps)
  | .matchMapping ks ps r => .matchMapping (ks.map f) (mapPatterns f ps) r
  | .matchClass c ps ka kp => .matchClass (f c) (mapPatterns f ps) ka (mapPatterns f kp)
  | .matchStar n => .matchStar n
  | .matchAs p n => .matchAs (mapOptPattern f p) n
  | .matchOr ps => .matchOr (mapPatterns f ps)
def mapPatterns (f : Expr → Expr) : List Pattern → List Pattern
  | [] => []
  | p :: ps => mapPattern f p :: mapPatterns f ps
def mapOptPattern (f : Expr → Expr) : Option Pattern → Option Pattern
  | none => none
  | some p => some (mapPattern f p)
end

def mapTypeParam (f : Expr → Expr) : TypeParam → TypeParam
  | .typeVar n b d => .typeVar n (mapO f b) (mapO f d)
  | .paramSpec n d => .paramSpec n (mapO f d)
  | .typeVarTuple n d => .typeVarTuple n (mapO f d)

def mapWithItem (f : Expr → Expr) (w : WithItem) : WithItem :=
  ⟨f w.contextExpr, mapO f w.optionalVars⟩

mutual
def mapStmt (m : ExprMap) : Stmt → Stmt
  | .functionDef a n args body decs ret tps =>
    .functionDef a n (m.args args) (mapBody m body) (decs.map m.e) (mapO m.e ret)
      (if m.funcTypeParams then tps.map (mapTypeParam m.e) else tps)
  | .classDef n bases kws body decs tps =>
    .classDef n (bases.map m.e) (kws.map (mapKeyword m.e)) (mapBody m body) (decs.map m.e) (tps.map (mapTypeParam m.e))
  | .return_ v => .return_ (mapO m.e v)
  | .delete ts => .delete (ts.map m.e)
  | .assign ts v => .assign (ts.map m.e) (m.e v)
  | .typeAlias n tps v => .typeAlias (m.e n) (tps.map (mapTypeParam m.e)) (m.e v)
  | .augAssign tg op v => .augAssign (m.e tg) op (m.e v)
  | .annAssign tg ann v s => .annAssign (m.e tg) (m.e ann) (mapO m.e v) s
  | .for_ a tg it body orelse => .for_ a (m.e tg) (m.e it) (mapBody m body) (mapBody m orelse)
  | .while_ c body orelse => .while_ (m.e c) (mapBody m body) (mapBody m orelse)
  | .if_ c body orelse => .if_ (m.e c) (mapBody m body) (mapBody m orelse)
  | .with_ a items body => .with_ a (items.map (mapWithItem m.e)) (mapBody m body)
  | .match_ s cases => .match_ (m.e s) (mapCases m cases)
  | .raise_ e c => .raise_ (mapO m.e e) (mapO m.e c)
  | .try_ st body hs orelse fin => .try_ st (mapBody m body) (mapHandlers m hs) (mapBody m orelse) (mapBody m fin)
  | .assert_ c msg => .assert_ (m.e c) (mapO m.e msg)
  | .expr v => .expr (m.e v)
  | s => s
def mapBody (m : ExprMap) : List Stmt → List Stmt
  | [] => []
  | s :: ss => mapStmt m s :: mapBody m ss
def mapHandlers (m : ExprMap) : List Handler → List Handler
  | [] => []
  | .mk ty n body :: hs => .mk (mapO m.e ty) n (mapBody m body) :: mapHandlers m hs
def mapCases (m : ExprMap) : List MatchCase → List MatchCase
  | [] => []
  | .mk p g body :: cs => .mk (mapPattern m.e p) (mapO m.e g) (mapBody m body) :: mapCases m cs
end

def mapModule (m : ExprMap) (md : Module) : Module := ⟨mapBody m md.body⟩

end PMV.Traverse

namespace PMV.Traverse
open PMV

def anyO (p : Expr → Bool) : Option Expr → Bool
  | none => false
  | some e => p e

mutual
def anyPattern (p : Expr → Bool) : Pattern → Bool
  | .matchValue v => p v
  | .matchSingleton _ => false
  | .matchSequence ps => anyPatterns p ps
  | .matchMapping ks ps _ => ks.any p || anyPatterns p ps
  | .matchClass c ps _ kp => p c || anyPatterns p ps || anyPatterns p kp
  | .matchStar _ => false
  | .matchAs q _ => anyOptPattern p q
  | .matchOr ps => anyPatterns p ps
def anyPatterns (p : Expr → Bool) : List Pattern → Bool
  | [] => false
  | q :: qs => anyPattern p q || anyPatterns p qs
def anyOptPattern (p : Expr → Bool) : Option Pattern → Bool
  | none => false
  | some q => anyPattern p q
end

def anyTypeParam (p : Expr → Bool) : TypeParam → Bool
  | .typeVar _ b d => anyO p b || anyO p d
  | .paramSpec _ d => anyO p d
  | .typeVarTuple _ d => anyO p d

mutual
/-- does `p` hold at some top-level expression position (or `pa` at some `arguments`) of the statement tree? -/
def anyStmt (p : Expr → Bool) (pa : Arguments → Bool) : Stmt → Bool
  | .functionDef _ _ args body decs ret tps =>
    pa args || anyBody p pa body || decs.any p || anyO p ret || tps.any (anyTypeParam p)
  | .classDef _ bases kws body decs tps =>
    bases.any p || kws.any (fun k => match k with | .mk _ v => p v) || anyBody p pa body || decs.any p || tps.any (anyTypeParam p)
  | .return_ v => anyO p v
  | .delete ts => ts.any p
  | .assign ts v => ts.any p || p v
  | .typeAlias n tps v => p n || tps.any (anyTypeParam p) || p v
  | .augAssign tg _ v => p tg || p v
  | .annAssign tg ann v _ => p tg || p ann || anyO p v
  | .for_ _ tg it body orelse => p tg || p it || anyBody p pa body || anyBody p pa orelse
  | .while_ c body orelse => p c || anyBody p pa body || anyBody p pa orelse
  | .if_ c body orelse => p c || anyBody p pa body || anyBody p pa orelse
  | .with_ _ items body => items.any (fun w => p w.contextExpr || anyO p w.optionalVars) || anyBody p pa body
  | .match_ s cases => p s || anyCases p pa cases
  | .raise_ e c => anyO p e || anyO p c
  | .try_ _ body hs orelse fin => anyBody p pa body || anyHandlers p pa hs || anyBody p pa orelse || anyBody p pa fin
  | .assert_ c msg => p c || anyO p msg
  | .expr v => p v
  | _ => false
def anyBody (p : Expr → Bool) (pa : Arguments → Bool) : List Stmt → Bool
  | [] => false
  | s :: ss => anyStmt p pa s || anyBody p pa ss
def anyHandlers (p : Expr → Bool) (pa : Arguments → Bool) : List Handler → Bool
  | [] => false
  | .mk ty _ body :: hs => anyO p ty || anyBody p pa body || anyHandlers p pa hs
def anyCases (p : Expr → Bool) (pa : Arguments → Bool) : List MatchCase → Bool
  | [] => false
  | .mk q g body :: cs => anyPattern p q || anyO p g || anyBody p pa body || anyCases p pa cs
end

end PMV.Traverse

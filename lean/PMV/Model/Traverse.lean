import PMV.Ast
/-
  Apply an expression transformer at every expression position of a statement tree (the shape of
  `SuiteTransformer.generic_visit` for transformers that only rewrite expressions).
-/
namespace PMV.Traverse
open PMV

structure ExprMap where
  e : Expr → Expr
  args : Arguments → Arguments
  funcTypeParams : Bool        -- is FunctionDef.type_params reached by the traversal

def mapO (f : Expr → Expr) : Option Expr → Option Expr
  | none => none
  | some e => some (f e)

def mapKeyword (f : Expr → Expr) : Keyword → Keyword
  | .mk a v => .mk a (f v)

mutual
def mapPattern (f : Expr → Expr) : Pattern → Pattern
  | .matchValue v => .matchValue (f v)
  | .matchSingleton c => .matchSingleton c
  | .matchSequence ps => .matchSequence (mapPatterns f ps)
  | .matchMapping ks ps r => .matchMapping (ks.map f) (mapPatterns f ps) r
  | .matchClass c ps ka kp => .matchClass (f c) (mapPatterns f ps) ka (mapPatterns f kp)
  | .matchStar n => .matchStar n
  | .matchAs p n => .matchAs (mapOptPattern f p) n
  | .matchOr ps => .matchOr (mapPatterns f ps)
def mapPatterns (f : Expr → Expr) : List Pattern → List Pattern
  | [] => []
  | p :: ps => mapPattern f p :: mapPatterns f ps
def mapOptPattern (f : Expr → Expr) : Option Pattern → Option Pattern
  | none => none
  | some p => some (mapPattern f p)
end

def mapTypeParam (f : Expr → Expr) : TypeParam → TypeParam
  | .typeVar n b d => .typeVar n (mapO f b) (mapO f d)
  | .paramSpec n d => .paramSpec n (mapO f d)
  | .typeVarTuple n d => .typeVarTuple n (mapO f d)

def mapWithItem (f : Expr → Expr) (w : WithItem) : WithItem :=
  ⟨f w.contextExpr, mapO f w.optionalVars⟩

mutual
def mapStmt (m : ExprMap) : Stmt → Stmt
  | .functionDef a n args body decs ret tps =>
    .functionDef a n (m.args args) (mapBody m body) (decs.map m.e) (mapO m.e ret)
      (if m.funcTypeParams then tps.map (mapTypeParam m.e) else tps)
  | .classDef n bases kws body decs tps =>
    .classDef n (bases.map m.e) (kws.map (mapKeyword m.e)) (mapBody m body) (decs.map m.e) (tps.map (mapTypeParam m.e))
  | .return_ v => .return_ (mapO m.e v)
  | .delete ts => .delete (ts.map m.e)
  | .assign ts v => .assign (ts.map m.e) (m.e v)
  | .typeAlias n tps v => .typeAlias (m.e n) (tps.map (mapTypeParam m.e)) (m.e v)
  | .augAssign tg op v => .augAssign (m.e tg) op (m.e v)
  | .annAssign tg ann v s => .annAssign (m.e tg) (m.e ann) (mapO m.e v) s
  | .for_ a tg it body orelse => .for_ a (m.e tg) (m.e it) (mapBody m body) (mapBody m orelse)
  | .while_ c body orelse => .while_ (m.e c) (mapBody m body) (mapBody m orelse)
  | .if_ c body orelse => .if_ (m.e c) (mapBody m body) (mapBody m orelse)
  | .with_ a items body => .with_ a (items.map (mapWithItem m.e)) (mapBody m body)
  | .match_ s cases => .match_ (m.e s) (mapCases m cases)
  | .raise_ e c => .raise_ (mapO m.e e) (mapO m.e c)
  | .try_ st body hs orelse fin => .try_ st (mapBody m body) (mapHandlers m hs) (mapBody m orelse) (mapBody m fin)
  | .assert_ c msg => .assert_ (m.e c) (mapO m.e msg)
  | .expr v => .expr (m.e v)
  | s => s
def mapBody (m : ExprMap) : List Stmt → List Stmt
  | [] => []
  | s :: ss => mapStmt m s :: mapBody m ss
def mapHandlers (m : ExprMap) : List Handler → List Handler
  | [] => []
  | .mk ty n body :: hs => .mk (mapO m.e ty) n (mapBody m body) :: mapHandlers m hs
def mapCases (m : ExprMap) : List MatchCase → List MatchCase
  | [] => []
  | .mk p g body :: cs => .mk (mapPattern m.e p) (mapO m.e g) (mapBody m body) :: mapCases m cs
end

def mapModule (m : ExprMap) (md : Module) : Module := ⟨mapBody m md.body⟩

end PMV.Traverse

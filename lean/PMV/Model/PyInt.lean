/-
  Python semantics of the binary operators on `int` operands (unbounded), as the *specification* of
  what evaluating a literal expression yields.  Validated against CPython `eval` by the harness.
  `none` = the evaluation raises (ZeroDivisionError, ValueError for negative shift counts, TypeError
  for `@`) or is outside what can be folded anyway (shift counts that produce > 4300 digits).
-/
namespace PMV.PyInt

/-- bitwise and on integers, two's complement semantics (as Python). `~m = -(m+1)`. -/
def land (a b : Int) : Int :=
  match a, b with
  | .ofNat m, .ofNat n => .ofNat (m &&& n)
  | .ofNat m, .negSucc n => .ofNat (m - (m &&& n))              -- m & ~n
  | .negSucc m, .ofNat n => .ofNat (n - (n &&& m))
  | .negSucc m, .negSucc n => .negSucc (m ||| n)               -- ~m & ~n = ~(m | n)

def lor (a b : Int) : Int :=
  match a, b with
  | .ofNat m, .ofNat n => .ofNat (m ||| n)
  | .ofNat m, .negSucc n => .negSucc (n - (n &&& m))            -- m | ~n = ~(n & ~m)
  | .negSucc m, .ofNat n => .negSucc (m - (m &&& n))
  | .negSucc m, .negSucc n => .negSucc (m &&& n)

def lxor (a b : Int) : Int :=
  match a, b with
  | .ofNat m, .ofNat n => .ofNat (m ^^^ n)
  | .ofNat m, .negSucc n => .negSucc (m ^^^ n)
  | .negSucc m, .ofNat n => .negSucc (m ^^^ n)
  | .negSucc m, .negSucc n => .ofNat (m ^^^ n)

inductive Op | add | sub | mult | matMult | div | mod | pow | lShift | rShift | bitOr | bitXor | bitAnd | floorDiv
  deriving DecidableEq, Repr

/-- largest shift count for which the result is computed; beyond it the result of a left shift of a
    non-zero value has more than 4300 decimal digits and can never be printed (hence never folded). -/
def maxShift : Nat := 20000

def eval (op : Op) (a b : Int) : Option Int :=
  match op with
  | .add => some (a + b)
  | .sub => some (a - b)
  | .mult => some (a * b)
  | .floorDiv => if b = 0 then none else some (Int.fdiv a b)
  | .mod => if b = 0 then none else some (Int.fmod a b)
  | .lShift =>
    if b < 0 then none
    else if a = 0 then some 0
    else if b.toNat > maxShift then none
    else some (a * (2 : Int) ^ b.toNat)
  | .rShift =>
    if b < 0 then none
    else if b.toNat > 100000 then (if a.natAbs < 2 ^ 100000 then some (if a < 0 then -1 else 0) else none)
    else some (Int.fdiv a ((2 : Int) ^ b.toNat))
  | .bitAnd => some (land a b)
  | .bitOr => some (lor a b)
  | .bitXor => some (lxor a b)
  | .matMult => none
  | .div => none      -- never folded (result is a float; excluded by the implementation)
  | .pow => none      -- never folded

end PMV.PyInt

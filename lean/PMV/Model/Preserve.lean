/-
  Model of the preserve-list splitting in `do_minify`:
      for arg in args: names = [name.strip() for name in arg.split(',') if name]; out.extend(names)
  Strings are lists of code points; `ws` is Python's `str.isspace` on a code point (passed in).
-/
namespace PMV.Preserve

def splitComma : List Nat → List (List Nat)
  | [] => [[]]
  | c :: cs =>
    if c = 44 then [] :: splitComma cs
    else match splitComma cs with
      | [] => [[c]]
      | w :: ws => (c :: w) :: ws

def joinComma : List (List Nat) → List Nat
  | [] => []
  | [w] => w
  | w :: w' :: ws => w ++ 44 :: joinComma (w' :: ws)

def lstrip (ws : Nat → Bool) (s : List Nat) : List Nat := s.dropWhile ws
def strip (ws : Nat → Bool) (s : List Nat) : List Nat := (lstrip ws (lstrip ws s).reverse).reverse

def parseArg (ws : Nat → Bool) (arg : List Nat) : List (List Nat) :=
  ((splitComma arg).filter (fun n => !n.isEmpty)).map (strip ws)

def parseArgs (ws : Nat → Bool) (args : List (List Nat)) : List (List Nat) :=
  args.flatMap (parseArg ws)

end PMV.Preserve

/-
  Model of the placement logic of `rename_literals.HoistLiterals.place_bindings` (common prefix of
  the function-namespace paths of all uses) and of `rename.util.insert` (where the new assignment
  goes in a body).
-/
namespace PMV.Hoist

/-- `common_path` -/
def commonPath : List Nat → List Nat → List Nat
  | a :: as, b :: bs => if a == b then a :: commonPath as bs else []
  | _, _ => []

/-- the path accumulated over all references (`if not namespace_path: … else: common_path(…)`) -/
def placePath : List (List Nat) → List Nat
  | [] => []
  | p :: ps => ps.foldl (fun acc q => if acc.isEmpty then q else commonPath acc q) p

/-- the namespace the binding is put in: the last element of the common path -/
def place (paths : List (List Nat)) : Option Nat := (placePath paths).getLast?

/-- `insert(suite, new_node)`: before the first statement that is neither a `from __future__` import nor a
    string-expression statement; at the end when there is none. -/
def insertStmt {α} (leading : α → Bool) (new : α) : List α → List α
  | [] => [new]
  | s :: ss => if leading s then s :: insertStmt leading new ss else new :: s :: ss

end PMV.Hoist

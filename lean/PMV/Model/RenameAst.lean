import PMV.Spec.PyCore
/-
  Applying a renaming of function-local names to a module, as the renamer does it on the core statement forms:
  every occurrence of a name in the function (loads, stores, loop variables, `import … as`, `global`) is replaced
  by its new name; a parameter is not renamed in place (callers may pass it by keyword) — instead the body starts
  with `new = parameter` (`rename/renamer.py`, `rename/util.py:insert`: after the docstring).  `fnOK` is the
  checkable condition under which T01.13 proves that the renamed module behaves like the original.
-/
namespace PMV.RenameAst
open PMV PMV.PyCore

abbrev Ren := String → String

mutual
/-- rename the names of a core expression (other forms are left alone: they are outside the core) -/
def renE (π : Ren) : Expr → Expr
  | .name x c => .name (π x) c
  | .unaryOp op e => .unaryOp op (renE π e)
  | .binOp l op r => .binOp (renE π l) op (renE π r)
  | .compare l ops cs => .compare (renE π l) ops (renEs π cs)
  | .boolOp op vs => .boolOp op (renEs π vs)
  | .ifExp c a b => .ifExp (renE π c) (renE π a) (renE π b)
  | .call f args kws => .call (renE π f) (renEs π args) kws
  | .tuple es => .tuple (renEs π es)
  | e => e
def renEs (π : Ren) : List Expr → List Expr
  | [] => []
  | e :: es => renE π e :: renEs π es
end

def renO (π : Ren) : Option Expr → Option Expr
  | none => none
  | some e => some (renE π e)

def renAlias (π : Ren) (a : Alias) : Alias :=
  match a.asname with
  | some c => { a with asname := some (π c) }
  | none => a

mutual
def renStmt (π : Ren) : Stmt → Stmt
  | .return_ v => .return_ (renO π v)
  | .assign ts v => .assign (renEs π ts) (renE π v)
  | .augAssign tg op v => .augAssign (renE π tg) op (renE π v)
  | .annAssign tg ann v simple => .annAssign (renE π tg) (renE π ann) (renO π v) simple
  | .for_ a tg it body orelse => .for_ a (renE π tg) (renE π it) (renBody π body) (renBody π orelse)
  | .while_ c body orelse => .while_ (renE π c) (renBody π body) (renBody π orelse)
  | .if_ c body orelse => .if_ (renE π c) (renBody π body) (renBody π orelse)
  | .raise_ e c => .raise_ (renO π e) (renO π c)
  | .try_ st body hs orelse fin => .try_ st (renBody π body) (renHandlers π hs) (renBody π orelse) (renBody π fin)
  | .assert_ c msg => .assert_ (renE π c) (renO π msg)
  | .import_ names => .import_ (names.map (renAlias π))
  | .importFrom m names l => .importFrom m (names.map (renAlias π)) l
  | .global ns => .global (ns.map π)
  | .expr v => .expr (renE π v)
  | s => s
def renBody (π : Ren) : List Stmt → List Stmt
  | [] => []
  | s :: ss => renStmt π s :: renBody π ss
def renHandlers (π : Ren) : List Handler → List Handler
  | [] => []
  | .mk ty nm body :: hs => .mk (renO π ty) nm (renBody π body) :: renHandlers π hs
end

/-- a docstring-like statement: `insert` puts new statements after the leading ones -/
def isDocStmt : Stmt → Bool
  | .expr (.constant (.str _ _)) => true
  | _ => false

/-- `new = parameter` -/
def prologueStmt (π : Ren) (p : String) : Stmt := .assign [.name (π p) .store] (.name p .load)

/-- the body of a renamed function: the docstrings, the parameter copies (in the order the renamer inserted them), the
    renamed statements -/
def renFnBody (π : Ren) (pro : List String) (body : List Stmt) : List Stmt :=
  let b := renBody π body
  b.takeWhile isDocStmt ++ pro.map (prologueStmt π) ++ b.dropWhile isDocStmt

/-- per function: its renaming and the parameters that get a copy -/
abbrev RenTable := String → Ren × List String

def renTop (R : RenTable) : Stmt → Stmt
  | .functionDef false n args body [] none [] => .functionDef false n args (renFnBody (R n).1 (R n).2 body) [] none []
  | s => s

/-- the renamed module: module-level code is left alone (rename_globals is off by default) -/
def renModule (R : RenTable) (m : Module) : Module := ⟨m.body.map (renTop R)⟩

/-! ### the checkable side condition -/

mutual
def namesE : Expr → List String
  | .name x _ => [x]
  | .unaryOp _ e => namesE e
  | .binOp l _ r => namesE l ++ namesE r
  | .compare l _ cs => namesE l ++ namesEs cs
  | .boolOp _ vs => namesEs vs
  | .ifExp c a b => namesE c ++ namesE a ++ namesE b
  | .call f args _ => namesE f ++ namesEs args
  | .tuple es => namesEs es
  | _ => []
def namesEs : List Expr → List String
  | [] => []
  | e :: es => namesE e ++ namesEs es
end

def namesO : Option Expr → List String
  | none => []
  | some e => namesE e

mutual
/-- every name that occurs in a statement (in the positions `renStmt` renames) -/
def namesS : Stmt → List String
  | .return_ v => namesO v
  | .assign ts v => namesEs ts ++ namesE v
  | .augAssign tg _ v => namesE tg ++ namesE v
  | .annAssign tg ann v _ => namesE tg ++ namesE ann ++ namesO v
  | .for_ _ tg it body orelse => namesE tg ++ namesE it ++ namesL body ++ namesL orelse
  | .while_ c body orelse => namesE c ++ namesL body ++ namesL orelse
  | .if_ c body orelse => namesE c ++ namesL body ++ namesL orelse
  | .raise_ e c => namesO e ++ namesO c
  | .try_ _ body hs orelse fin => namesL body ++ namesH hs ++ namesL orelse ++ namesL fin
  | .assert_ c msg => namesE c ++ namesO msg
  | .import_ names => names.map aliasBound
  | .importFrom _ names _ => names.map fromBound
  | .global ns => ns
  | .expr v => namesE v
  | _ => []
def namesL : List Stmt → List String
  | [] => []
  | s :: ss => namesS s ++ namesL ss
def namesH : List Handler → List String
  | [] => []
  | .mk ty _ body :: hs => namesO ty ++ namesL body ++ namesH hs
end

/-- names whose meaning is fixed by the semantics (builtins it gives a meaning to, `__debug__`): never renamed -/
def reserved : List String := ["__debug__", "print", "range"]

mutual
/-- the names the semantics resolves outside the function whatever the scope says — called functions, raised and caught
    exception classes — keep their spelling -/
def fixedS (π : Ren) : Stmt → Bool
  | .expr e => (match e with | .call (.name f _) _ [] => π f == f | _ => true)
  | .assign _ e => (match e with | .call (.name f _) _ [] => π f == f | _ => true)
  | .for_ _ _ _ body orelse => fixedL π body && fixedL π orelse
  | .while_ _ body orelse => fixedL π body && fixedL π orelse
  | .if_ _ body orelse => fixedL π body && fixedL π orelse
  | .raise_ e c => (namesO e ++ namesO c).all (fun x => π x == x)
  | .try_ _ body hs orelse fin => fixedL π body && fixedH π hs && fixedL π orelse && fixedL π fin
  | .import_ names => names.all (fun a => a.asname.isSome || π (aliasBound a) == aliasBound a)
  | .importFrom _ names _ => names.all (fun a => a.asname.isSome || π (fromBound a) == fromBound a)
  | _ => true
def fixedL (π : Ren) : List Stmt → Bool
  | [] => true
  | s :: ss => fixedS π s && fixedL π ss
def fixedH (π : Ren) : List Handler → Bool
  | [] => true
  | .mk ty _ body :: hs => (namesO ty).all (fun x => π x == x) && fixedL π body && fixedH π hs
end

/-- the names of a function the condition talks about -/
def fnNames (ps : List String) (body : List Stmt) : List String :=
  reserved ++ ps ++ namesL body ++ (match bindTop body with | some b => b | none => [])

/-- is `x` local to a function with these parameters, bound names and `global` declarations -/
def isLoc (ps bound dg : List String) (x : String) : Bool := !dg.contains x && (ps ++ canonNames bound).contains x

/-- the condition on one function: `π` is injective on the names of the function, moves only its local names, never onto
    a parameter that keeps its own binding; the copied parameters are exactly the renamed ones; the renamed body has the
    renamed local names (so the static local / global decision agrees on every name of the function) -/
def fnOK (π : Ren) (pro : List String) (ps : List String) (body : List Stmt) : Bool :=
  let N := fnNames ps body
  let body' := renFnBody π pro body
  let bound := match bindTop body with | some b => b | none => []
  let bound' := match bindTop body' with | some b => b | none => []
  let loc := isLoc ps bound (declaredGlobals body)
  let loc' := isLoc ps bound' (declaredGlobals body')
  N.all (fun x => N.all (fun y => π x != π y || x == y)) &&
  N.all (fun x => loc x || π x == x) &&
  N.all (fun x => loc' (π x) == loc x) &&
  reserved.all (fun x => π x == x) &&
  ps.all (fun p => pro.contains p == (π p != p)) &&
  pro.all (fun p => ps.contains p && loc' p && N.all (fun x => π x != p)) &&
  pro.Nodup &&
  ((bindTop body').isSome == (bindTop body).isSome) &&
  fixedL π body

/-- … on every function of the module -/
def modOK (R : RenTable) (m : Module) : Bool :=
  (collect m.body).all fun e => fnOK (R e.1).1 (R e.1).2 e.2.1 e.2.2

end PMV.RenameAst

import PMV.Model.Resolve
/-
  Model of the name part of taint detection (`resolve_names.get_binding`, last branch): a lookup that reaches the module without
  finding a binding, for one of the five names through which a program can read or write its namespaces by string, marks the module
  tainted.  The tree is the namespace tree *before* names are resolved (the bindings `bind_names` created).
-/
namespace PMV.Taint
open PMV.Resolve

def triggers : List String := ["exec", "eval", "locals", "globals", "vars"]

/-- one lookup `get_binding(x, n)` made by `resolve_names` -/
abbrev Lookup := String × Nat

def taintsBy (t : Tree) (fuel : Nat) (l : Lookup) : Bool :=
  triggers.contains l.1 && (getBinding t l.1 fuel l.2).isNone

/-- `module.tainted` as far as names are concerned -/
def taintedByNames (t : Tree) (fuel : Nat) (lookups : List Lookup) : Bool := lookups.any (taintsBy t fuel)

end PMV.Taint

/-
  Model of `ministring.MiniString` (strings are lists of code points). The escape dictionaries of
  `to_short` / `to_long` are *generated* from the source; the quote entry (`self.quote` /
  `self.quote[0]`) is handled separately.
-/
namespace PMV.MiniString

structure EscTable where
  short : List (Nat × List Nat)
  long : List (Nat × List Nat)
  shortEscapesQuote : Bool       -- `self.quote: BACKSLASH + self.quote` present in to_short
  longEscapesQuote : Bool        -- `self.quote[0]: BACKSLASH + self.quote[0]` present in to_long
  deriving Repr

def hexDigit (d : Nat) : Nat := if d < 10 then 48 + d else 87 + d

/-- `format(v, '04x')` / `format(v, '08x')` -/
def hexN : Nat → Nat → List Nat
  | 0, _ => []
  | w + 1, v => hexN w (v / 16) ++ [hexDigit (v % 16)]

def emitChar (tbl : List (Nat × List Nat)) (escQuote : Bool) (q : Nat) (safe : Bool) (c : Nat) : List Nat :=
  match tbl.lookup c with
  | some r => r
  | none =>
    if escQuote && c == q then [92, q]
    else if safe && c > 0x7f then
      (if c ≤ 0xffff then 92 :: 117 :: hexN 4 c else 92 :: 85 :: hexN 8 c)
    else [c]

def toShort (t : EscTable) (q : Nat) (safe : Bool) (s : List Nat) : List Nat :=
  s.flatMap (emitChar t.short t.shortEscapesQuote q safe)

def toLong (t : EscTable) (q : Nat) (safe : Bool) (s : List Nat) : List Nat :=
  s.flatMap (emitChar t.long t.longEscapesQuote q safe)

def isSurrogate (c : Nat) : Bool := 0xD800 ≤ c && c ≤ 0xDFFF

/-- `str(MiniString(s, quote))`: the body; `quoteLen` is 1 or 3, `q` the quote character.
    Safe mode is entered when evaluating the first attempt raises a Unicode error (a lone surrogate
    cannot be encoded in the source text). -/
def body (t : EscTable) (q : Nat) (quoteLen : Nat) (s : List Nat) : List Nat :=
  if s.isEmpty then []
  else
    let safe := s.any isSurrogate
    if quoteLen == 1 then toShort t q safe s else toLong t q safe s

/-- the text handed to `eval`: quote + body + quote -/
def evalText (t : EscTable) (q : Nat) (quoteLen : Nat) (s : List Nat) : List Nat :=
  List.replicate quoteLen q ++ body t q quoteLen s ++ List.replicate quoteLen q

end PMV.MiniString

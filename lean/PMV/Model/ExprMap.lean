import PMV.Ast
/-  Bottom-up map over expressions: `f` is applied to every expression node after its children,
    `fa` to every `arguments` node after its parts. -/
namespace PMV.ExprMap
open PMV

mutual
def mapE (f : Expr → Expr) (fa : Arguments → Arguments) : Expr → Expr
  | .boolOp op vs => f (.boolOp op (mapL f fa vs))
  | .namedExpr tg v => f (.namedExpr (mapE f fa tg) (mapE f fa v))
  | .binOp l op r => f (.binOp (mapE f fa l) op (mapE f fa r))
  | .unaryOp op v => f (.unaryOp op (mapE f fa v))
  | .lambda a b => f (.lambda (mapArguments f fa a) (mapE f fa b))
  | .ifExp c b o => f (.ifExp (mapE f fa c) (mapE f fa b) (mapE f fa o))
  | .dict ks vs => f (.dict (mapOL f fa ks) (mapL f fa vs))
  | .set es => f (.set (mapL f fa es))
  | .listComp e gs => f (.listComp (mapE f fa e) (mapComps f fa gs))
  | .setComp e gs => f (.setComp (mapE f fa e) (mapComps f fa gs))
  | .dictComp k v gs => f (.dictComp (mapE f fa k) (mapE f fa v) (mapComps f fa gs))
  | .generatorExp e gs => f (.generatorExp (mapE f fa e) (mapComps f fa gs))
  | .await v => f (.await (mapE f fa v))
  | .yield v => f (.yield (mapO f fa v))
  | .yieldFrom v => f (.yieldFrom (mapE f fa v))
  | .compare l ops cs => f (.compare (mapE f fa l) ops (mapL f fa cs))
  | .call fn as ks => f (.call (mapE f fa fn) (mapL f fa as) (mapKeywords f fa ks))
  | .joinedStr s ps => f (.joinedStr s ps)
  | .constant c => f (.constant c)
  | .attribute v a => f (.attribute (mapE f fa v) a)
  | .subscript v s => f (.subscript (mapE f fa v) (mapE f fa s))
  | .starred v => f (.starred (mapE f fa v))
  | .name i c => f (.name i c)
  | .list es => f (.list (mapL f fa es))
  | .tuple es => f (.tuple (mapL f fa es))
  | .slice l u s => f (.slice (mapO f fa l) (mapO f fa u) (mapO f fa s))
  | .paren e => f (.paren (mapE f fa e))
def mapL (f : Expr → Expr) (fa : Arguments → Arguments) : List Expr → List Expr
  | [] => []
  | e :: es => mapE f fa e :: mapL f fa es
def mapO (f : Expr → Expr) (fa : Arguments → Arguments) : Option Expr → Option Expr
  | none => none
  | some e => some (mapE f fa e)
def mapOL (f : Expr → Expr) (fa : Arguments → Arguments) : List (Option Expr) → List (Option Expr)
  | [] => []
  | e :: es => mapO f fa e :: mapOL f fa es
def mapKeywords (f : Expr → Expr) (fa : Arguments → Arguments) : List Keyword → List Keyword
  | [] => []
  | .mk a v :: ks => .mk a (mapE f fa v) :: mapKeywords f fa ks
def mapComps (f : Expr → Expr) (fa : Arguments → Arguments) : List Comprehension → List Comprehension
  | [] => []
  | .mk tg it ifs a :: gs => .mk (mapE f fa tg) (mapE f fa it) (mapL f fa ifs) a :: mapComps f fa gs
def mapArg (f : Expr → Expr) (fa : Arguments → Arguments) : Arg → Arg
  | .mk a ann => .mk a (mapO f fa ann)
def mapArgs (f : Expr → Expr) (fa : Arguments → Arguments) : List Arg → List Arg
  | [] => []
  | a :: as => mapArg f fa a :: mapArgs f fa as
def mapOptArg (f : Expr → Expr) (fa : Arguments → Arguments) : Option Arg → Option Arg
  | none => none
  | some a => some (mapArg f fa a)
def mapArguments (f : Expr → Expr) (fa : Arguments → Arguments) : Arguments → Arguments
  | .mk po as va ko kd kw ds =>
    fa (.mk (mapArgs f fa po) (mapArgs f fa as) (mapOptArg f fa va) (mapArgs f fa ko) (mapOL f fa kd)
        (mapOptArg f fa kw) (mapL f fa ds))
end

mutual
/-- does any expression node satisfy `p`? -/
def anyE (p : Expr → Bool) : Expr → Bool
  | .boolOp op vs => p (.boolOp op vs) || anyL p vs
  | .namedExpr tg v => p (.namedExpr tg v) || anyE p tg || anyE p v
  | .binOp l op r => p (.binOp l op r) || anyE p l || anyE p r
  | .unaryOp op v => p (.unaryOp op v) || anyE p v
  | .lambda a b => p (.lambda a b) || anyArguments p a || anyE p b
  | .ifExp c b o => p (.ifExp c b o) || anyE p c || anyE p b || anyE p o
  | .dict ks vs => p (.dict ks vs) || anyOL p ks || anyL p vs
  | .set es => p (.set es) || anyL p es
  | .listComp e gs => p (.listComp e gs) || anyE p e || anyComps p gs
  | .setComp e gs => p (.setComp e gs) || anyE p e || anyComps p gs
  | .dictComp k v gs => p (.dictComp k v gs) || anyE p k || anyE p v || anyComps p gs
  | .generatorExp e gs => p (.generatorExp e gs) || anyE p e || anyComps p gs
  | .await v => p (.await v) || anyE p v
  | .yield v => p (.yield v) || anyO p v
  | .yieldFrom v => p (.yieldFrom v) || anyE p v
  | .compare l ops cs => p (.compare l ops cs) || anyE p l || anyL p cs
  | .call fn as ks => p (.call fn as ks) || anyE p fn || anyL p as || anyKeywords p ks
  | .joinedStr s ps => p (.joinedStr s ps) || anyL p ps
  | .constant c => p (.constant c)
  | .attribute v a => p (.attribute v a) || anyE p v
  | .subscript v s => p (.subscript v s) || anyE p v || anyE p s
  | .starred v => p (.starred v) || anyE p v
  | .name i c => p (.name i c)
  | .list es => p (.list es) || anyL p es
  | .tuple es => p (.tuple es) || anyL p es
  | .slice l u s => p (.slice l u s) || anyO p l || anyO p u || anyO p s
  | .paren e => anyE p e
def anyL (p : Expr → Bool) : List Expr → Bool
  | [] => false
  | e :: es => anyE p e || anyL p es
def anyO (p : Expr → Bool) : Option Expr → Bool
  | none => false
  | some e => anyE p e
def anyOL (p : Expr → Bool) : List (Option Expr) → Bool
  | [] => false
  | e :: es => anyO p e || anyOL p es
def anyKeywords (p : Expr → Bool) : List Keyword → Bool
  | [] => false
  | .mk _ v :: ks => anyE p v || anyKeywords p ks
def anyComps (p : Expr → Bool) : List Comprehension → Bool
  | [] => false
  | .mk tg it ifs _ :: gs => anyE p tg || anyE p it || anyL p ifs || anyComps p gs
def anyArg (p : Expr → Bool) : Arg → Bool
  | .mk _ ann => anyO p ann
def anyArgs (p : Expr → Bool) : List Arg → Bool
  | [] => false
  | a :: as => anyArg p a || anyArgs p as
def anyOptArg (p : Expr → Bool) : Option Arg → Bool
  | none => false
  | some a => anyArg p a
def anyArguments (p : Expr → Bool) : Arguments → Bool
  | .mk po as va ko kd kw ds =>
    anyArgs p po || anyArgs p as || anyOptArg p va || anyArgs p ko || anyOL p kd || anyOptArg p kw || anyL p ds
end

end PMV.ExprMap

import PMV.Ast
/-
  Model of `rename/util.py:arg_rename_in_place`: may a parameter be renamed in the signature itself?
  Parameters that a caller can pass by keyword must keep their name in the signature (the renamer may still re-bind
  them to a shorter name inside the body); the exceptions the implementation documents are the first parameter of an
  undecorated or `@classmethod` method (`self` / `cls`), `*args`, `**kwargs` and positional-only parameters.
-/
namespace PMV.InPlace
open PMV

/-- the position of a parameter in a signature -/
inductive Slot
  | posonly (i : Nat) | arg (i : Nat) | vararg | kwonly (i : Nat) | kwarg
  deriving DecidableEq, Repr

/-- what `arg_rename_in_place` reads of the function that owns the parameter -/
structure Fn where
  isLambda : Bool
  inClass : Bool            -- `func.namespace` is a `ClassDef`
  decorators : List Expr
  nPosonly : Nat
  nArgs : Nat

def isClassmethod : List Expr → Bool
  | [.name x _] => x == "classmethod"
  | _ => false

/-- an undecorated or `@classmethod` function whose namespace is a class body -/
def selfLike (f : Fn) : Bool :=
  f.inClass && !f.isLambda && (f.decorators.isEmpty || isClassmethod f.decorators)

/-- `all_args[0]`, when `posonlyargs + args` is not empty -/
def firstSlot (f : Fn) : Option Slot :=
  if 0 < f.nPosonly then some (.posonly 0) else if 0 < f.nArgs then some (.arg 0) else none

def argRenameInPlace (f : Fn) (s : Slot) : Bool :=
  (selfLike f && firstSlot f == some s) ||
  (match s with | .vararg => true | .kwarg => true | _ => false) ||
  (match s with | .posonly _ => true | _ => false)

/-- a caller may pass the parameter by keyword (by the language: positional-or-keyword and keyword-only parameters) -/
def Slot.keywordPassable : Slot → Bool
  | .arg _ => true
  | .kwonly _ => true
  | _ => false

/-- the slots of a signature, in the order `posonlyargs, args, vararg, kwonlyargs, kwarg` -/
def slots (nPosonly nArgs : Nat) (hasVararg : Bool) (nKwonly : Nat) (hasKwarg : Bool) : List Slot :=
  (List.range nPosonly).map .posonly ++ (List.range nArgs).map .arg ++ (if hasVararg then [.vararg] else []) ++
  (List.range nKwonly).map .kwonly ++ (if hasKwarg then [.kwarg] else [])

def ofArguments (isLambda inClass : Bool) (decorators : List Expr) : Arguments → Fn × List Slot
  | .mk posonly args vararg kwonly _ kwarg _ =>
    (⟨isLambda, inClass, decorators, posonly.length, args.length⟩,
     slots posonly.length args.length vararg.isSome kwonly.length kwarg.isSome)

end PMV.InPlace

/-
  The top-level shape of `minify()` as the models assume it: which stage runs under which condition,
  in which order.  The generated table `Generated.pipeline` must equal it (decide): a changed
  condition, a missing taint gate or a reordered stage breaks the obligation.
-/
namespace PMV.Pipeline

def annotationsBlock : String :=
  "ifelse:if isinstance(remove_annotations, bool): remove_annotations_options = RemoveAnnotationsOptions(remove_variable_annotations=remove_annotations, remove_return_annotations=remove_annotations, remove_argument_annotations=remove_annotations, remove_class_attribute_annotations=remove_annotations) elif isinstance(remove_annotations, RemoveAnnotationsOptions): remove_annotations_options = remove_annotatio"

/-- the caller's list is never the object that gets extended: `None` → fresh list, a string → singleton, a list → copy -/
def preserveLocalsBlock : String :=
  "ifelse:if preserve_locals is None: preserve_locals = [] elif isinstance(preserve_locals, str): preserve_locals = [preserve_locals] else: preserve_locals = list(preserve_locals)"
def preserveGlobalsBlock : String :=
  "ifelse:if preserve_globals is None: preserve_globals = [] elif isinstance(preserve_globals, str): preserve_globals = [preserve_globals] else: preserve_globals = list(preserve_globals)"

def shebangBlock : String :=
  "block:shebang_line = _find_shebang(source) ; if shebang_line is not None:\n    return shebang_line + '\\n' + minified"

/-- (condition, action) for every top-level statement of `minify()`, as modelled. -/
def modelled : List (String × String) := [
  ("", "stmt:filename = filename or 'python_minifier.minify source'"),
  ("", "ast.parse"),
  ("", "add_parent"),
  ("", "add_namespace"),
  ("remove_literal_statements", "RemoveLiteralStatements"),
  ("combine_imports", "CombineImports"),
  ("isinstance(remove_annotations, bool)", annotationsBlock),
  ("remove_annotations_options", "RemoveAnnotations"),
  ("remove_pass", "RemovePass"),
  ("remove_object_base", "RemoveObject"),
  ("remove_asserts", "RemoveAsserts"),
  ("remove_debug", "RemoveDebug"),
  ("remove_explicit_return_none", "RemoveExplicitReturnNone"),
  ("constant_folding", "FoldConstants"),
  ("", "bind_names"),
  ("", "resolve_names"),
  -- a taint trigger name that is only declared `global` (never bound in the module) still means the builtin
  ("", "stmt:for binding in module.bindings:\n    if binding.name in ['exec', 'eval', 'locals', 'globals', 'vars'] and is_only_declared(binding):\n        module.tainted = True"),
  ("remove_builtin_exception_brackets and (not module.tainted)", "remove_no_arg_exception_call"),
  ("module.tainted", "taint-gating"),
  ("preserve_locals is None", preserveLocalsBlock),
  ("preserve_globals is None", preserveGlobalsBlock),
  ("", "preserve_locals.extend"),
  ("", "preserve_globals.extend"),
  ("", "allow_rename_locals"),
  ("", "allow_rename_globals"),
  ("hoist_literals and (not module.tainted)", "rename_literals"),
  ("", "rename"),
  ("convert_posargs_to_args", "remove_posargs"),
  ("", "unparse"),
  ("preserve_shebang is True", shebangBlock),
  ("", "stmt:return minified")]

/-- the stages that introduce or change names -/
def nameChanging : List String := ["rename_literals", "rename", "remove_no_arg_exception_call"]

/-- every name-changing stage other than `rename` is gated on `not module.tainted`; `rename` itself runs
    always but only acts on bindings that may be renamed. -/
def taintGated (p : List (String × String)) : Bool :=
  p.all fun (c, a) =>
    (a != "rename_literals" || c == "hoist_literals and (not module.tainted)") &&
    (a != "remove_no_arg_exception_call" || c == "remove_builtin_exception_brackets and (not module.tainted)")

end PMV.Pipeline

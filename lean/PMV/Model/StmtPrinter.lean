import PMV.Model.ExprPrinter
/-
  Model of `module_printer.ModulePrinter`: statements, suites (`_suite`, `_suite_body`), patterns,
  type parameters.  The list of compound statement classes is *generated* from `_suite`.
-/
namespace PMV.Printer
open PMV.Token

structure StmtTable where
  compound : List String       -- `compound_statements` in `_suite`
  dispatch : List String       -- keys of `statements` in `_suite_body`
  deriving Repr

def stmtClass : Stmt → String
  | .functionDef false .. => "FunctionDef"
  | .functionDef true .. => "AsyncFunctionDef"
  | .classDef .. => "ClassDef"
  | .return_ _ => "Return"
  | .delete _ => "Delete"
  | .assign .. => "Assign"
  | .typeAlias .. => "TypeAlias"
  | .augAssign .. => "AugAssign"
  | .annAssign .. => "AnnAssign"
  | .for_ false .. => "For"
  | .for_ true .. => "AsyncFor"
  | .while_ .. => "While"
  | .if_ .. => "If"
  | .with_ false .. => "With"
  | .with_ true .. => "AsyncWith"
  | .match_ .. => "Match"
  | .raise_ .. => "Raise"
  | .try_ false .. => "Try"
  | .try_ true .. => "TryStar"
  | .assert_ .. => "Assert"
  | .import_ _ => "Import"
  | .importFrom .. => "ImportFrom"
  | .global _ => "Global"
  | .nonlocal _ => "Nonlocal"
  | .expr _ => "Expr"
  | .pass => "Pass"
  | .break_ => "Break"
  | .continue_ => "Continue"

/-- `_expression(e)` -/
def tExpr (t : PrecTable) (e : Expr) : List Tok := flat (slotExpr e (paren t e))
/-- `_testlist(e)` -/
def tTestlist (t : PrecTable) (e : Expr) : List Tok := flat (slotTestlist e (paren t e))
/-- `visit(e)`: plain dispatch. For a yield this reaches the *statement* visitor `visit_Yield`, which
    also ends the statement (only a match guard can hold a yield in such a slot). -/
def tVisit (t : PrecTable) (e : Expr) : List Tok :=
  match e with
  | .yield _ => flat (paren t e) ++ [.endStmt]
  | .yieldFrom _ => flat (paren t e) ++ [.endStmt]
  | _ => flat (paren t e)
/-- value position of Expr / Assign / AugAssign: a yield needs no parentheses there. -/
def tValue (t : PrecTable) (e : Expr) : List Tok :=
  match e with
  | .yield _ => flat (paren t e)
  | .yieldFrom _ => flat (paren t e)
  | _ => tTestlist t e

def tOptExpr (t : PrecTable) : Option Expr → List Tok
  | none => []
  | some e => tExpr t e

def tKeyword (t : PrecTable) : Keyword → List Tok
  | .mk none v => .op "**" :: tExpr t v
  | .mk (some a) v => .ident a :: .delim "=" :: tExpr t v

def tAlias (a : Alias) : List Tok :=
  .ident a.name :: (match a.asname with | some n => [.kw "as", .ident n] | none => [])

def constName : Const → String
  | .none => "None" | .true_ => "True" | .false_ => "False" | _ => "?"

def mappingItems : List (List Tok) → List (List Tok) → List (List Tok)
  | k :: ks, p :: ps => (k ++ .delim ":" :: p) :: mappingItems ks ps
  | _, _ => []
def kwdItems : List String → List (List Tok) → List (List Tok)
  | a :: as, p :: ps => (.ident a :: .delim "=" :: p) :: kwdItems as ps
  | _, _ => []
def isMatchAs : Pattern → Bool
  | .matchAs .. => true
  | _ => false
def isMatchAsOrOr : Pattern → Bool
  | .matchAs .. => true
  | .matchOr _ => true
  | _ => false
def parenToksIf (b : Bool) (ts : List Tok) : List Tok := if b then .delim "(" :: ts ++ [.delim ")"] else ts

mutual
def patToks (t : PrecTable) : Pattern → List Tok
  | .matchValue v => tVisit t v
  | .matchSingleton c => [.ident (constName c)]
  | .matchSequence ps => .delim "[" :: commaSep (patsToks t ps) ++ [.delim "]"]
  | .matchMapping ks ps rest =>
    .delim "{" :: commaSep (mappingItems (ks.map (tExpr t)) (patsToks t ps)
        ++ (match rest with | some r => [[.op "**", .ident r]] | none => [])) ++ [.delim "}"]
  | .matchClass cls ps kas kps =>
    tVisit t cls ++ .delim "(" :: commaSep (patsToks t ps ++ kwdItems kas (patsToks t kps)) ++ [.delim ")"]
  | .matchStar n => [.op "*", .ident (n.getD "_")]
  | .matchAs none n => [.ident (n.getD "_")]
  | .matchAs (some p) n => parenToksIf (isMatchAs p) (patToks t p) ++ [.kw "as", .ident (n.getD "_")]
  | .matchOr ps => joinWith (.delim "|") (orItems t ps)
def patsToks (t : PrecTable) : List Pattern → List (List Tok)
  | [] => []
  | p :: ps => patToks t p :: patsToks t ps
/-- alternatives of `|`: MatchAs and MatchOr are parenthesised. -/
def orItems (t : PrecTable) : List Pattern → List (List Tok)
  | [] => []
  | p :: ps => parenToksIf (isMatchAsOrOr p) (patToks t p) :: orItems t ps
end

/-- `case` pattern: a sequence pattern with ≥ 2 elements is printed open (no brackets). -/
def casePatToks (t : PrecTable) : Pattern → List Tok
  | .matchSequence ps => if ps.length < 2 then patToks t (.matchSequence ps) else commaSep (patsToks t ps)
  | p => patToks t p

def typeParamToks (t : PrecTable) : TypeParam → List Tok
  | .typeVar n b d =>
    .ident n :: (match b with | some x => .delim ":" :: tExpr t x | none => [])
      ++ (match d with | some x => .delim "=" :: tExpr t x | none => [])
  | .typeVarTuple n d => .op "*" :: .ident n :: (match d with | some x => .delim "=" :: tExpr t x | none => [])
  | .paramSpec n d => .op "*" :: .op "*" :: .ident n :: (match d with | some x => .delim "=" :: tExpr t x | none => [])

def typeParamsToks (t : PrecTable) (tps : List TypeParam) : List Tok :=
  if tps.isEmpty then [] else .delim "[" :: commaSep (tps.map (typeParamToks t)) ++ [.delim "]"]

def decoratorToks (t : PrecTable) (ds : List Expr) : List Tok :=
  ds.flatMap fun d => .op "@" :: tExpr t d ++ [.newline]

def withItemToks (t : PrecTable) (w : WithItem) : List Tok :=
  tExpr t w.contextExpr ++ (match w.optionalVars with | some v => .kw "as" :: tExpr t v | none => [])

def isNonEmptyTuple : Expr → Bool
  | .tuple (_ :: _) => true
  | _ => false

/-- `visit_With` items: a sole tuple item without `as` gets a second pair of parentheses (otherwise
    `with (a, b):` would be read back as two items). -/
def withItemsToks (t : PrecTable) (items : List WithItem) : List Tok :=
  match items with
  | [w] =>
    if w.optionalVars.isNone && isNonEmptyTuple w.contextExpr then .delim "(" :: withItemToks t w ++ [.delim ")"]
    else withItemToks t w
  | _ => commaSep (items.map (withItemToks t))

def isCompound (st : StmtTable) (s : Stmt) : Bool := st.compound.contains (stmtClass s)

/-- `_suite`: block layout (`enter_block` … `leave_block`) when some statement is compound, else the
    statements follow the colon on the same line. -/
def suiteWrap (block : Bool) (body : List Tok) : List Tok :=
  if block then .indentInc :: .newline :: body ++ [.indentDec, .newline]
  else .indentInc :: body ++ [.indentDec, .newline]

def isIfStmt : Stmt → Bool
  | .if_ .. => true
  | _ => false

/-- `visit_If(node, el=True)` differs from `visit_If(node)` only in the keyword after the newline. -/
def elifOf : List Tok → List Tok
  | nl :: _ :: rest => nl :: .kw "elif" :: rest
  | ts => ts

mutual
def stmtToks (t : PrecTable) (st : StmtTable) : Stmt → List Tok
  | .functionDef isAsync name args body decs returns tps =>
    .newline :: decoratorToks t decs ++ (if isAsync then [.kw "async"] else []) ++
      .kw "def" :: .ident name :: typeParamsToks t tps ++ .delim "(" :: flatArguments (parenArguments t args) ++
      .delim ")" :: (match returns with | some r => .delim "->" :: tExpr t r | none => []) ++
      .delim ":" :: suiteWrap (body.any (isCompound st)) (bodyToks t st body)
  | .classDef name bases kws body decs tps =>
    let items := bases.map (tExpr t) ++ kws.map (tKeyword t)
    .newline :: decoratorToks t decs ++ .kw "class" :: .ident name :: typeParamsToks t tps ++
      (if items.isEmpty then [] else .delim "(" :: commaSep items ++ [.delim ")"]) ++
      .delim ":" :: suiteWrap (body.any (isCompound st)) (bodyToks t st body)
  | .return_ v => .kw "return" :: (match v with | some e => tTestlist t e | none => []) ++ [.endStmt]
  | .delete ts => .kw "del" :: commaSep (ts.map (tExpr t)) ++ [.endStmt]
  | .assign ts v => ts.flatMap (fun tg => tTestlist t tg ++ [.delim "="]) ++ tValue t v ++ [.endStmt]
  | .typeAlias n tps v => .kw "type" :: tVisit t n ++ typeParamsToks t tps ++ .delim "=" :: tExpr t v ++ [.endStmt]
  | .augAssign tg op v => tTestlist t tg ++ binOpTok op :: .delim "=" :: tValue t v ++ [.endStmt]
  | .annAssign tg ann v simple =>
    (if simple then tVisit t tg else .delim "(" :: tExpr t tg ++ [.delim ")"]) ++
      .delim ":" :: tExpr t ann ++ (match v with | some e => .delim "=" :: tExpr t e | none => []) ++ [.endStmt]
  | .for_ isAsync tg it body orelse =>
    .newline :: (if isAsync then [.kw "async"] else []) ++ .kw "for" :: tExpr t tg ++ .kw "in" :: tExpr t it ++
      .delim ":" :: suiteWrap (body.any (isCompound st)) (bodyToks t st body) ++
      (if orelse.isEmpty then [] else .newline :: .kw "else" :: .delim ":" :: suiteWrap (orelse.any (isCompound st)) (bodyToks t st orelse))
  | .while_ c body orelse =>
    .newline :: .kw "while" :: tExpr t c ++ .delim ":" :: suiteWrap (body.any (isCompound st)) (bodyToks t st body) ++
      (if orelse.isEmpty then [] else .kw "else" :: .delim ":" :: suiteWrap (orelse.any (isCompound st)) (bodyToks t st orelse))
  | .if_ c body orelse =>
    .newline :: .kw "if" :: tExpr t c ++ .delim ":" :: suiteWrap (body.any (isCompound st)) (bodyToks t st body) ++ elseToks t st orelse
  | .with_ isAsync items body =>
    .newline :: (if isAsync then [.kw "async"] else []) ++ .kw "with" :: withItemsToks t items ++
      .delim ":" :: suiteWrap (body.any (isCompound st)) (bodyToks t st body)
  | .match_ subj cases => .newline :: .kw "match" :: tExpr t subj ++ .delim ":" :: suiteWrap (st.compound.contains "match_case" || cases.isEmpty) (casesToks t st cases)
  | .raise_ exc cause =>
    .kw "raise" :: tOptExpr t exc ++ (match cause with | some c => .kw "from" :: tExpr t c | none => []) ++ [.endStmt]
  | .try_ star body handlers orelse finalbody =>
    .newline :: .kw "try" :: .delim ":" :: suiteWrap (body.any (isCompound st)) (bodyToks t st body) ++ handlersToks t st star handlers ++
      (if orelse.isEmpty then [] else .kw "else" :: .delim ":" :: suiteWrap (orelse.any (isCompound st)) (bodyToks t st orelse)) ++
      (if finalbody.isEmpty then [] else .kw "finally" :: .delim ":" :: suiteWrap (finalbody.any (isCompound st)) (bodyToks t st finalbody))
  | .assert_ c msg => .kw "assert" :: tExpr t c ++ (match msg with | some m => .delim "," :: tExpr t m | none => []) ++ [.endStmt]
  | .import_ names => .kw "import" :: commaSep (names.map tAlias) ++ [.endStmt]
  | .importFrom m names level =>
    .kw "from" :: List.replicate level (.delim ".") ++ (match m with | some x => [.ident x] | none => []) ++
      .kw "import" :: commaSep (names.map fun a => if a.name == "*" then [.op "*"] else tAlias a) ++ [.endStmt]
  | .global ns => .kw "global" :: commaSep (ns.map fun n => [.ident n]) ++ [.endStmt]
  | .nonlocal ns => .kw "nonlocal" :: commaSep (ns.map fun n => [.ident n]) ++ [.endStmt]
  | .expr v => tValue t v ++ [.endStmt]
  | .pass => [.kw "pass", .endStmt]
  | .break_ => [.kw "break", .endStmt]
  | .continue_ => [.kw "continue", .endStmt]
/-- what follows the body of an `if`/`elif`: nothing, an `elif` chain (`visit_If(el=True)` then a
    newline), or an `else` suite. -/
def elseToks (t : PrecTable) (st : StmtTable) : List Stmt → List Tok
  | [] => []
  | s :: ss =>
    if isIfStmt s && ss.isEmpty then elifOf (stmtToks t st s) ++ [.newline]
    else .kw "else" :: .delim ":" :: suiteWrap (isCompound st s || ss.any (isCompound st)) (stmtToks t st s ++ bodyToks t st ss)
def bodyToks (t : PrecTable) (st : StmtTable) : List Stmt → List Tok
  | [] => []
  | s :: ss => stmtToks t st s ++ bodyToks t st ss
def handlersToks (t : PrecTable) (st : StmtTable) (star : Bool) : List Handler → List Tok
  | [] => []
  | .mk ty name body :: hs =>
    .kw "except" :: (if star then [.op "*"] else []) ++ tOptExpr t ty ++
      (match name with | some n => [.kw "as", .ident n] | none => []) ++
      .delim ":" :: suiteWrap (body.any (isCompound st)) (bodyToks t st body) ++ handlersToks t st star hs
def casesToks (t : PrecTable) (st : StmtTable) : List MatchCase → List Tok
  | [] => []
  | .mk pat guard body :: cs =>
    .kw "case" :: casePatToks t pat ++ (match guard with | some g => .kw "if" :: tExpr t g | none => []) ++
      .delim ":" :: suiteWrap (body.any (isCompound st)) (bodyToks t st body) ++ casesToks t st cs
end

/-- `ModulePrinter()(module)` as a token stream; the text is `Token.render sp (moduleToks …)`. -/
def moduleToks (t : PrecTable) (st : StmtTable) (m : Module) : List Tok := bodyToks t st m.body

end PMV.Printer

import PMV.Ast
/-
  Model of the collecting traversal of `rename/rename_literals.py:HoistLiterals`: which literal occurrences of a
  module are handed to `get_binding(...).add_reference(...)`, in the order of the traversal (`generic_visit` follows
  `_fields`).  These occurrences — and no others — are what `HoistedBinding.rename` replaces by a name.

  * `visit_Str` / `visit_Bytes`: every string / bytes constant, unless its parent is an `Expr` statement;
  * `visit_NameConstant`: every `None` / `True` / `False` (also as a statement of its own);
  * numbers and `...` have no visitor: nothing;
  * `visit_JoinedStr`: the constant parts of an f-string are skipped, the embedded expressions (and those of the
    format specifications) visited — the AST of the models carries exactly those in `parts`;
  * `visit_match_case`: the pattern is not visited, the guard and the body are;
  * `visit_Assign` / `visit_AnnAssign` / `visit_AugAssign`: an assignment to the name `__slots__` whose namespace is
    a class (directly in the class body or in the blocks of its compound statements, not in a function) is not entered.
-/
namespace PMV.HoistCollect
open PMV

/-- the constants `HoistLiterals` has a visitor for -/
def hoistable : Const → Bool
  | .none => true
  | .true_ => true
  | .false_ => true
  | .str _ _ => true
  | .bytes _ _ => true
  | _ => false

def isStrConst : Expr → Bool
  | .constant (.str _ _) => true
  | .constant (.bytes _ _) => true
  | _ => false

def isSlotsName : Expr → Bool
  | .name x _ => x == "__slots__"
  | _ => false

mutual
def colE : Expr → List Const
  | .boolOp _ vs => colEs vs
  | .namedExpr t v => colE t ++ colE v
  | .binOp l _ r => colE l ++ colE r
  | .unaryOp _ e => colE e
  | .lambda a b => colArguments a ++ colE b
  | .ifExp c a b => colE c ++ colE a ++ colE b
  | .dict ks vs => colOEs ks ++ colEs vs
  | .set es => colEs es
  | .listComp e gs => colE e ++ colComps gs
  | .setComp e gs => colE e ++ colComps gs
  | .dictComp k v gs => colE k ++ colE v ++ colComps gs
  | .generatorExp e gs => colE e ++ colComps gs
  | .await e => colE e
  | .yield v => colO v
  | .yieldFrom e => colE e
  | .compare l _ cs => colE l ++ colEs cs
  | .call f as kws => colE f ++ colEs as ++ colKws kws
  | .joinedStr _ parts => colEs parts
  | .constant c => if hoistable c then [c] else []
  | .attribute v _ => colE v
  | .subscript v s => colE v ++ colE s
  | .starred v => colE v
  | .name _ _ => []
  | .list es => colEs es
  | .tuple es => colEs es
  | .slice l u s => colO l ++ colO u ++ colO s
  | .paren e => colE e
def colEs : List Expr → List Const
  | [] => []
  | e :: es => colE e ++ colEs es
def colO : Option Expr → List Const
  | none => []
  | some e => colE e
def colOEs : List (Option Expr) → List Const
  | [] => []
  | o :: os => colO o ++ colOEs os
def colKws : List Keyword → List Const
  | [] => []
  | .mk _ v :: ks => colE v ++ colKws ks
def colComps : List Comprehension → List Const
  | [] => []
  | .mk t i ifs _ :: gs => colE t ++ colE i ++ colEs ifs ++ colComps gs
def colArg : Arg → List Const
  | .mk _ ann => colO ann
def colArgs : List Arg → List Const
  | [] => []
  | a :: as => colArg a ++ colArgs as
def colOArg : Option Arg → List Const
  | none => []
  | some a => colArg a
def colArguments : Arguments → List Const
  | .mk po as va ko kd kw ds => colArgs po ++ colArgs as ++ colOArg va ++ colArgs ko ++ colOEs kd ++ colOArg kw ++ colEs ds
end

def colTypeParam : TypeParam → List Const
  | .typeVar _ b d => colO b ++ colO d
  | .paramSpec _ d => colO d
  | .typeVarTuple _ d => colO d

def colTypeParams : List TypeParam → List Const
  | [] => []
  | t :: ts => colTypeParam t ++ colTypeParams ts

def colWithItems : List WithItem → List Const
  | [] => []
  | w :: ws => colE w.contextExpr ++ colO w.optionalVars ++ colWithItems ws

mutual
/-- `cls`: the namespace of the statement is a class -/
def colS (cls : Bool) : Stmt → List Const
  | .functionDef _ _ args body decs ret tps =>
    colArguments args ++ colL false body ++ colEs decs ++ colO ret ++ colTypeParams tps
  | .classDef _ bases kws body decs tps =>
    colEs bases ++ colKws kws ++ colL true body ++ colEs decs ++ colTypeParams tps
  | .return_ v => colO v
  | .delete ts => colEs ts
  | .assign ts v => if cls && ts.any isSlotsName then [] else colEs ts ++ colE v
  | .typeAlias n tps v => colE n ++ colTypeParams tps ++ colE v
  | .augAssign tg _ v => if cls && isSlotsName tg then [] else colE tg ++ colE v
  | .annAssign tg ann v _ => if cls && isSlotsName tg then [] else colE tg ++ colE ann ++ colO v
  | .for_ _ tg it body orelse => colE tg ++ colE it ++ colL cls body ++ colL cls orelse
  | .while_ c body orelse => colE c ++ colL cls body ++ colL cls orelse
  | .if_ c body orelse => colE c ++ colL cls body ++ colL cls orelse
  | .with_ _ items body => colWithItems items ++ colL cls body
  | .match_ s cases => colE s ++ colC cls cases
  | .raise_ e c => colO e ++ colO c
  | .try_ _ body hs orelse fin => colL cls body ++ colH cls hs ++ colL cls orelse ++ colL cls fin
  | .assert_ c msg => colE c ++ colO msg
  | .expr v => if isStrConst v then [] else colE v
  | .import_ _ => []
  | .importFrom _ _ _ => []
  | .global _ => []
  | .nonlocal _ => []
  | .pass => []
  | .break_ => []
  | .continue_ => []
def colL (cls : Bool) : List Stmt → List Const
  | [] => []
  | s :: ss => colS cls s ++ colL cls ss
def colH (cls : Bool) : List Handler → List Const
  | [] => []
  | .mk ty _ body :: hs => colO ty ++ colL cls body ++ colH cls hs
def colC (cls : Bool) : List MatchCase → List Const
  | [] => []
  | .mk _ g body :: cs => colO g ++ colL cls body ++ colC cls cs
end

/-- the occurrences `HoistLiterals.visit(module)` collects -/
def collect (m : Module) : List Const := colL false m.body

/-! ### specification

  `allS` visits every expression position of the tree, patterns included, with no exception; `blankL` says what is
  excluded, by erasing it: every pattern becomes `_`, every string statement and every class-level assignment to
  `__slots__` becomes `pass`.  (The literal text of an f-string is not part of `parts` in this AST: the encoder leaves
  it in the opaque `text`; that the real traversal skips it is settled by the correspondence.)
-/

mutual
def allP : Pattern → List Const
  | .matchValue v => colE v
  | .matchSingleton c => if hoistable c then [c] else []
  | .matchSequence ps => allPs ps
  | .matchMapping ks ps _ => colEs ks ++ allPs ps
  | .matchClass c ps _ kp => colE c ++ allPs ps ++ allPs kp
  | .matchStar _ => []
  | .matchAs p _ => allOP p
  | .matchOr ps => allPs ps
def allPs : List Pattern → List Const
  | [] => []
  | p :: ps => allP p ++ allPs ps
def allOP : Option Pattern → List Const
  | none => []
  | some p => allP p
end

mutual
def allS : Stmt → List Const
  | .functionDef _ _ args body decs ret tps =>
    colArguments args ++ allL body ++ colEs decs ++ colO ret ++ colTypeParams tps
  | .classDef _ bases kws body decs tps =>
    colEs bases ++ colKws kws ++ allL body ++ colEs decs ++ colTypeParams tps
  | .return_ v => colO v
  | .delete ts => colEs ts
  | .assign ts v => colEs ts ++ colE v
  | .typeAlias n tps v => colE n ++ colTypeParams tps ++ colE v
  | .augAssign tg _ v => colE tg ++ colE v
  | .annAssign tg ann v _ => colE tg ++ colE ann ++ colO v
  | .for_ _ tg it body orelse => colE tg ++ colE it ++ allL body ++ allL orelse
  | .while_ c body orelse => colE c ++ allL body ++ allL orelse
  | .if_ c body orelse => colE c ++ allL body ++ allL orelse
  | .with_ _ items body => colWithItems items ++ allL body
  | .match_ s cases => colE s ++ allC cases
  | .raise_ e c => colO e ++ colO c
  | .try_ _ body hs orelse fin => allL body ++ allH hs ++ allL orelse ++ allL fin
  | .assert_ c msg => colE c ++ colO msg
  | .expr v => colE v
  | .import_ _ => []
  | .importFrom _ _ _ => []
  | .global _ => []
  | .nonlocal _ => []
  | .pass => []
  | .break_ => []
  | .continue_ => []
def allL : List Stmt → List Const
  | [] => []
  | s :: ss => allS s ++ allL ss
def allH : List Handler → List Const
  | [] => []
  | .mk ty _ body :: hs => colO ty ++ allL body ++ allH hs
def allC : List MatchCase → List Const
  | [] => []
  | .mk p g body :: cs => allP p ++ colO g ++ allL body ++ allC cs
end

/-- is this statement one of the excluded simple statements? (`cls`: its namespace is a class) -/
def excluded (cls : Bool) : Stmt → Bool
  | .expr v => isStrConst v
  | .assign ts _ => cls && ts.any isSlotsName
  | .augAssign tg _ _ => cls && isSlotsName tg
  | .annAssign tg _ _ _ => cls && isSlotsName tg
  | _ => false

mutual
def blankS (cls : Bool) : Stmt → Stmt
  | .functionDef a n args body decs ret tps => .functionDef a n args (blankL false body) decs ret tps
  | .classDef n bases kws body decs tps => .classDef n bases kws (blankL true body) decs tps
  | .for_ a tg it body orelse => .for_ a tg it (blankL cls body) (blankL cls orelse)
  | .while_ c body orelse => .while_ c (blankL cls body) (blankL cls orelse)
  | .if_ c body orelse => .if_ c (blankL cls body) (blankL cls orelse)
  | .with_ a items body => .with_ a items (blankL cls body)
  | .match_ s cases => .match_ s (blankC cls cases)
  | .try_ st body hs orelse fin => .try_ st (blankL cls body) (blankH cls hs) (blankL cls orelse) (blankL cls fin)
  | .expr v => if isStrConst v then .pass else .expr v
  | .assign ts v => if cls && ts.any isSlotsName then .pass else .assign ts v
  | .augAssign tg op v => if cls && isSlotsName tg then .pass else .augAssign tg op v
  | .annAssign tg ann v s => if cls && isSlotsName tg then .pass else .annAssign tg ann v s
  | s => s
def blankL (cls : Bool) : List Stmt → List Stmt
  | [] => []
  | s :: ss => blankS cls s :: blankL cls ss
def blankH (cls : Bool) : List Handler → List Handler
  | [] => []
  | .mk ty n body :: hs => .mk ty n (blankL cls body) :: blankH cls hs
def blankC (cls : Bool) : List MatchCase → List MatchCase
  | [] => []
  | .mk _ g body :: cs => .mk (.matchAs none none) g (blankL cls body) :: blankC cls cs
end

/-- the module with everything that must not be touched erased -/
def blank (m : Module) : Module := ⟨blankL false m.body⟩

/-- every literal occurrence of a module, wherever it stands -/
def allLits (m : Module) : List Const := allL m.body

end PMV.HoistCollect

namespace PMV.HoistCollect
open PMV

/-! ### grouping: one hoisted binding per value (`HoistLiterals.get_binding` with the `HoistedValue` key) -/

/-- `HoistedValue.__eq__`: same type and equal value (the spelling of a string does not matter) -/
def sameValue : Const → Const → Bool
  | .none, .none => true
  | .true_, .true_ => true
  | .false_, .false_ => true
  | .str _ a, .str _ b => a == b
  | .bytes _ a, .bytes _ b => a == b
  | _, _ => false

/-- add one occurrence to the dictionary `_hoisted` (insertion order; the first occurrence is the binding's value node) -/
def insertG (c : Const) : List (Const × Nat) → List (Const × Nat)
  | [] => [(c, 1)]
  | (k, n) :: rest => if sameValue k c then (k, n + 1) :: rest else (k, n) :: insertG c rest

/-- the hoisted bindings (value, number of references) for a sequence of collected occurrences -/
def groupsFrom (g : List (Const × Nat)) : List Const → List (Const × Nat)
  | [] => g
  | c :: cs => groupsFrom (insertG c g) cs

def groups (l : List Const) : List (Const × Nat) := groupsFrom [] l

/-- `HoistLiterals._hoisted` after the traversal -/
def bindingsOf (m : Module) : List (Const × Nat) := groups (collect m)

end PMV.HoistCollect

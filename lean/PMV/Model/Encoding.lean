/-
  Model of the name normalisation in `python_minifier._source_encoding` (the PEP 263 declaration of a bytes source, used to decode
  the shebang line): the names CPython's tokenizer takes for UTF-8 and Latin-1 (`get_normal_name` in Parser/tokenizer, mirrored by
  `tokenize._get_normal_name`).  A name is a list of code points (it was decoded as ASCII).
-/
namespace PMV.Encoding

def lowerC (c : Nat) : Nat := if 65 ≤ c ∧ c ≤ 90 then c + 32 else c
def dashC (c : Nat) : Nat := if c = 95 then 45 else c

/-- `name[:12].lower().replace('_', '-')` -/
def norm (name : List Nat) : List Nat := ((name.take 12).map lowerC).map dashC

def utf8 : List Nat := [117, 116, 102, 45, 56]                                   -- "utf-8"
def latin1 : List Nat := [108, 97, 116, 105, 110, 45, 49]                        -- "latin-1"
def iso88591 : List Nat := [105, 115, 111, 45, 56, 56, 53, 57, 45, 49]           -- "iso-8859-1"
def isoLatin1 : List Nat := [105, 115, 111, 45, 108, 97, 116, 105, 110, 45, 49]  -- "iso-latin-1"

/-- `e == p or e.startswith(p + '-')` -/
def isOrDash (p e : List Nat) : Bool := e == p || (p ++ [45]).isPrefixOf e

inductive Enc
  | utf8
  | latin1
  | other (name : List Nat)
  deriving DecidableEq, Repr

/-- the encoding a declared name stands for: UTF-8, Latin-1, or whatever codec has that name -/
def normalName (name : List Nat) : Enc :=
  let e := norm name
  if isOrDash utf8 e then .utf8
  else if isOrDash latin1 e || isOrDash iso88591 e || isOrDash isoLatin1 e then .latin1
  else .other name

end PMV.Encoding

/-
  Model of `token_printer.TokenPrinter`: the printer's output is a sequence of token events; `render`
  replays the `previous_token` state machine (spacing, newline / indent / end_statement with the
  `rstrip('\n\t;')` behaviour).  The spacing lists are *generated* from token_printer.py.
-/
namespace PMV.Token

inductive TokType
  | noToken | identifier | keyword | softKeyword | numberLiteral | nonNumberLiteral
  | delimiter | operator | newLine | endStatement
  deriving DecidableEq, Repr, Inhabited

/-- Which previous-token classes force a space before each kind of token (generated). -/
structure Spacing where
  identifierAfter : List TokType
  keywordAfter : List TokType
  stringAfter : List TokType      -- only when the literal starts with a letter (prefix)
  bytesAfter : List TokType       -- idem
  fstringAfter : List TokType
  numberAfter : List TokType
  softKeywords : List String
  deriving Repr

inductive Tok
  | ident (s : String)
  | kw (s : String)
  | strLit (repr : String)
  | bytesLit (repr : String)
  | fstr (s : String)
  | delim (s : String)
  | op (s : String)
  | num (s : String)
  | newline | indentInc | indentDec | endStmt
  deriving Repr, Inhabited, DecidableEq

structure St where
  code : List Char      -- reversed
  indent : Nat
  prev : TokType
  deriving Repr

def St.init : St := ⟨[], 0, .noToken⟩

def push (st : St) (s : String) (t : TokType) : St :=
  { st with code := s.toList.reverse ++ st.code, prev := t }

def spaceIf (st : St) (cond : Bool) : St :=
  if cond then { st with code := ' ' :: st.code, prev := .delimiter } else st

def stripChar (c : Char) : Bool := c == '\n' || c == '\t' || c == ';'

def doNewline (st : St) : St :=
  if st.code.isEmpty then st
  else { st with code := List.replicate st.indent '\t' ++ '\n' :: st.code.dropWhile stripChar, prev := .newLine }

def isAlpha (c : Char) : Bool := c.isAlpha   -- literal prefixes produced by repr are ASCII letters (b, u)

/-- `len(s) > 0 and s[0].isalpha()` -/
def startsAlpha (r : String) : Bool :=
  match r.toList.head? with
  | some c => isAlpha c
  | none => false

def step (sp : Spacing) (st : St) : Tok → St
  | .ident s => push (spaceIf st (sp.identifierAfter.contains st.prev)) s .identifier
  | .kw s =>
    push (spaceIf st (sp.keywordAfter.contains st.prev)) s (if sp.softKeywords.contains s then .softKeyword else .keyword)
  | .strLit r =>
    push (spaceIf st (startsAlpha r && sp.stringAfter.contains st.prev)) r .nonNumberLiteral
  | .bytesLit r =>
    push (spaceIf st (startsAlpha r && sp.bytesAfter.contains st.prev)) r .nonNumberLiteral
  | .fstr s => push (spaceIf st (sp.fstringAfter.contains st.prev)) s .nonNumberLiteral
  | .delim s => push st s .delimiter
  | .op s => push st s .operator
  | .num s => push (spaceIf st (sp.numberAfter.contains st.prev)) s .numberLiteral
  | .newline => doNewline st
  | .indentInc => { st with indent := st.indent + 1 }
  | .indentDec => { st with indent := st.indent - 1 }
  | .endStmt =>
    if st.indent == 0 then { doNewline st with prev := .endStatement }
    else
      match st.code with
      | ';' :: _ => { st with prev := .endStatement }
      | _ => { st with code := ';' :: st.code, prev := .endStatement }

def run (sp : Spacing) (ts : List Tok) : St := ts.foldl (step sp) St.init

/-- `ModulePrinter.code`: the accumulated text with trailing newline / tab / `;` removed. -/
def render (sp : Spacing) (ts : List Tok) : String :=
  String.ofList ((run sp ts).code.dropWhile stripChar).reverse

/-! ### Number literals -/

/-- base-`b` digits, least significant first (`fuel` > n suffices). -/
def digitsAux (b : Nat) : Nat → Nat → List Nat
  | 0, _ => []
  | f + 1, n => if n < b then [n] else (n % b) :: digitsAux b f (n / b)
def digitsLE (b n : Nat) : List Nat := digitsAux b (n + 1) n
def digitChar (d : Nat) : Char := if d < 10 then Char.ofNat (48 + d) else Char.ofNat (87 + d)
def hexDigits (n : Nat) : List Char := (digitsLE 16 n).reverse.map digitChar
def decDigits (n : Nat) : List Char := (digitsLE 10 n).reverse.map digitChar

/-- `TokenPrinter.integer`: hexadecimal when strictly shorter than decimal. -/
def natChars (n : Nat) : List Char :=
  let d := decDigits n
  let h := '0' :: 'x' :: hexDigits n
  -- `repr` raises beyond the interpreter's 4300-digit conversion limit: the hexadecimal form is used then
  if d.length > 4300 then h else if h.length < d.length then h else d

def intText (v : Int) : String :=
  String.ofList (if v < 0 then '-' :: natChars v.natAbs else natChars v.natAbs)

def startsWith (s p : List Char) : Bool := p.isPrefixOf s
def endsWith (s p : List Char) : Bool := p.reverse.isPrefixOf s.reverse

/-- `s.replace('e+', 'e')`. -/
def dropEPlus : List Char → List Char
  | 'e' :: '+' :: rest => 'e' :: dropEPlus rest
  | c :: rest => c :: dropEPlus rest
  | [] => []

/-- The regex `^(\d+?)(0+).0$` → group1 + 'e' + len(group2). -/
def addE (s : List Char) : Option (List Char) :=
  if s.length < 3 then none else
  let m := s.take (s.length - 2)
  if s.getLast? != some '0' then none else
  if !(m.all Char.isDigit) then none else
  let tz := (m.reverse.takeWhile (· == '0')).length
  let k := max 1 (m.length - tz)
  if k < m.length then some (m.take k ++ 'e' :: decDigits (m.length - k)) else none

/-- `TokenPrinter.floatnumber` applied to `repr(v)`. -/
def floatText (repr : String) : String :=
  let s := dropEPlus repr.toList
  let s := match addE s with | some t => t | none => s
  let s :=
    if s == "inf".toList then "1e999".toList
    else if s == "-inf".toList then "-1e999".toList
    else if startsWith s ['0', '.'] then s.drop 1
    else if startsWith s ['-', '0', '.'] then '-' :: s.drop 2
    else if endsWith s ['.', '0'] then s.take (s.length - 1)
    else s
  String.ofList s

/-- `TokenPrinter.imagnumber` applied to `repr(v)`. -/
def imagText (repr : String) : String :=
  if repr == "infj" || repr == "inf*j" then "1e999j"
  else if repr == "-infj" || repr == "-inf*j" then "-1e999j"
  else repr

end PMV.Token

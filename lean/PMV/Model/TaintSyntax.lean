import PMV.Ast
/-
  Model of the syntactic taint sources of `rename/bind_names.py:NameBinder.visit_alias` and of the only-declared rule of
  `minify()` / `rename/util.py:is_only_declared`:

  * an import alias named `*` (a star import), anywhere in the module — in a function, a class, any block;
  * an import alias whose root module (`name.split('.')[0]`) is `timeit` (its statements are compiled from strings that
    mention the caller's names);
  * a module-level binding of `exec` / `eval` / `locals` / `globals` / `vars` that is only ever *declared* (`global eval`
    in some function) and otherwise only read: the name still means the builtin.

  Together with the name part (`PMV.Taint.taintedByNames`, T09.4) this is all of `module.tainted` on Python 3.
-/
namespace PMV.TaintSyntax
open PMV

/-- `name.split('.')[0]` -/
def rootModule (s : String) : String :=
  match s.splitOn "." with
  | r :: _ => r
  | [] => s

def aliasTaints (a : Alias) : Bool := a.name == "*" || rootModule a.name == "timeit"

/-- does this statement itself (not its blocks) taint the module? -/
def stmtTaints : Stmt → Bool
  | .import_ names => names.any aliasTaints
  | .importFrom _ names _ => names.any aliasTaints
  | _ => false

mutual
/-- the visitor reaches every statement: `generic_visit` enters functions, classes and every block -/
def taintS : Stmt → Bool
  | .functionDef _ _ _ body _ _ _ => taintL body
  | .classDef _ _ _ body _ _ => taintL body
  | .for_ _ _ _ body orelse => taintL body || taintL orelse
  | .while_ _ body orelse => taintL body || taintL orelse
  | .if_ _ body orelse => taintL body || taintL orelse
  | .with_ _ _ body => taintL body
  | .match_ _ cases => taintC cases
  | .try_ _ body hs orelse fin => taintL body || taintH hs || taintL orelse || taintL fin
  | .import_ names => names.any aliasTaints
  | .importFrom _ names _ => names.any aliasTaints
  | _ => false
def taintL : List Stmt → Bool
  | [] => false
  | s :: ss => taintS s || taintL ss
def taintH : List Handler → Bool
  | [] => false
  | .mk _ _ body :: hs => taintL body || taintH hs
def taintC : List MatchCase → Bool
  | [] => false
  | .mk _ _ body :: cs => taintL body || taintC cs
end

/-- `module.tainted` after `bind_names` -/
def taintedByImports (m : Module) : Bool := taintL m.body

/-! ### specification: every statement of the module, at any depth -/

mutual
def subS : Stmt → List Stmt
  | .functionDef a n args body decs ret tps => .functionDef a n args body decs ret tps :: subL body
  | .classDef n bases kws body decs tps => .classDef n bases kws body decs tps :: subL body
  | .for_ a tg it body orelse => .for_ a tg it body orelse :: (subL body ++ subL orelse)
  | .while_ c body orelse => .while_ c body orelse :: (subL body ++ subL orelse)
  | .if_ c body orelse => .if_ c body orelse :: (subL body ++ subL orelse)
  | .with_ a items body => .with_ a items body :: subL body
  | .match_ s cases => .match_ s cases :: subC cases
  | .try_ st body hs orelse fin => .try_ st body hs orelse fin :: (subL body ++ subH hs ++ subL orelse ++ subL fin)
  | s => [s]
def subL : List Stmt → List Stmt
  | [] => []
  | s :: ss => subS s ++ subL ss
def subH : List Handler → List Stmt
  | [] => []
  | .mk _ _ body :: hs => subL body ++ subH hs
def subC : List MatchCase → List Stmt
  | [] => []
  | .mk _ _ body :: cs => subL body ++ subC cs
end

/-- every statement of the module, wherever it stands (source order) -/
def allStmts (m : Module) : List Stmt := subL m.body

/-! ### the only-declared rule -/

/-- what a reference of a module-level binding is, as far as `is_only_declared` looks -/
inductive RefKind | globalDecl | nameLoad | other
  deriving DecidableEq, Repr

/-- `is_only_declared(binding)` over the kinds of `binding.references` -/
def isOnlyDeclared (refs : List RefKind) : Bool :=
  refs.all (fun r => r == .globalDecl || r == .nameLoad) && refs.any (· == .globalDecl)

def triggers : List String := ["exec", "eval", "locals", "globals", "vars"]

/-- the loop of `minify()` over `module.bindings` -/
def taintedByDeclarations (bindings : List (String × List RefKind)) : Bool :=
  bindings.any fun b => triggers.contains b.1 && isOnlyDeclared b.2

end PMV.TaintSyntax

/-
  Every `raise` statement of the package, with the reason it cannot escape `minify()` for a module in
  the image of `ast.parse` on a supported interpreter — or the finding that says it can.
  The generated inventory (`Generated.raiseSites`) must equal the first three columns (C08).
-/
namespace PMV.RaiseSites

inductive Reach
  | api              -- argument validation of the public API (wrong type for remove_annotations)
  | selfCheck        -- UnstableMinification: reachable only if the printer is wrong (excluded by C02)
  | cli              -- command line only, not `minify()`
  | internalGuard    -- guards an invariant of earlier stages (node always has a parent, reference kinds are enumerated)
  | caught           -- raised and caught inside the package (control flow)
  | unknownNode      -- dispatch on a node class / constant type the parser never produces
  | abstractMethod   -- base-class stub, always overridden
  | fstring          -- f-string candidate search: swallowed per candidate; `Unable to create representation` escapes
                     --   only when no candidate parses back (findings F20, F23 were of this kind)
  deriving Repr, DecidableEq

def modelled : List (String × String × String × Reach) := [
  ("__init__.py", "minify", "raise TypeError", .api),
  ("__init__.py", "unparse", "raise UnstableMinification", .selfCheck),
  ("__init__.py", "unparse", "raise UnstableMinification", .selfCheck),
  ("__main__.py", "do_minify", "raise MinificationNotBeneficialError", .cli),
  ("__main__.py", "source_modules.error", "raise os_error", .cli),
  ("ast_annotation/__init__.py", "get_parent", "raise ValueError", .internalGuard),
  ("ast_compare.py", "compare_ast", "raise CompareError", .caught),
  ("ast_compare.py", "compare_ast", "raise CompareError", .caught),
  ("ast_compare.py", "compare_ast", "raise CompareError", .caught),
  ("ast_compare.py", "compare_ast", "raise CompareError", .caught),
  ("expression_printer.py", "ExpressionPrinter.visit_Constant", "raise RuntimeError", .unknownNode),
  ("expression_printer.py", "ExpressionPrinter.visit_Subscript", "raise AssertionError", .unknownNode),
  ("expression_printer.py", "ExpressionPrinter.visit_Unknown", "raise RuntimeError", .unknownNode),
  ("f_string.py", "Bytes.__str__", "raise ValueError", .fstring),
  ("f_string.py", "Bytes.__str__", "raise ValueError", .fstring),
  ("f_string.py", "Bytes._get_quote", "raise ValueError", .fstring),
  ("f_string.py", "FString.candidates", "raise RuntimeError", .unknownNode),
  ("f_string.py", "FormatSpec.candidates", "raise RuntimeError", .unknownNode),
  ("f_string.py", "OuterFString.__str__", "raise UnstableMinification", .selfCheck),
  ("f_string.py", "OuterFString.__str__", "raise UnstableMinification", .selfCheck),
  ("f_string.py", "OuterFString.__str__", "raise ValueError", .fstring),
  ("f_string.py", "Str.__str__", "raise", .fstring),            -- re-raise of a failed candidate before PEP 701 (caught by the search)
  ("f_string.py", "Str.__str__", "raise ValueError", .fstring),
  ("f_string.py", "Str.__str__", "raise ValueError", .fstring),
  ("f_string.py", "Str.__str__", "raise ValueError", .fstring),
  ("f_string.py", "Str._get_quote", "raise ValueError", .fstring),
  ("ministring.py", "MiniString.__str__", "raise", .caught),
  ("rename/binding.py", "Binding.additional_byte_cost", "raise AssertionError", .internalGuard),
  ("rename/binding.py", "Binding.new_mention_count", "raise AssertionError", .internalGuard),
  ("rename/binding.py", "Binding.old_mention_count", "raise AssertionError", .internalGuard),
  ("rename/binding.py", "Binding.rename", "raise NotImplementedError", .abstractMethod),
  ("rename/binding.py", "Binding.should_rename", "raise NotImplementedError", .abstractMethod),
  ("transforms/remove_literal_statements.py", "find_doc", "raise ValueError", .caught),
  ("transforms/remove_literal_statements.py", "find_doc", "raise ValueError", .caught),
  ("transforms/suite_transformer.py", "NodeVisitor.visit_Constant", "raise RuntimeError", .unknownNode),
  ("util.py", "is_constant_node", "raise RuntimeError", .unknownNode)]

/-- node classes of `ast` without a `visit_` method on ModulePrinter: abstract bases, expression contexts,
    module kinds other than Module, and FormattedValue (printed by f_string.py) -/
def notVisited : List String := [
  "AST", "AugLoad", "AugStore", "Del", "FormattedValue", "FunctionType", "Interactive", "Load", "Param", "Store", "Suite",
  "TypeIgnore", "boolop", "cmpop", "excepthandler", "expr", "expr_context", "mod", "operator", "pattern", "slice", "stmt",
  "type_ignore", "type_param", "unaryop"]

end PMV.RaiseSites

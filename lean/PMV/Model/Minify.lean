import PMV.Model.Transforms
import PMV.Model.Fold
import PMV.Model.StmtPrinter
/-
  Model of the transform part of `minify()`: the option-gated sequence of tree transforms, in the
  order of the (generated) pipeline table, up to and excluding scope analysis and renaming, plus
  `remove_posargs`.  `remove_no_arg_exception_call` depends on name resolution: the names it may act
  on (`eligible`) are supplied by the scoping specification, not computed here.
-/
namespace PMV.Minify
open PMV PMV.Transforms

structure Opts where
  annotations : AnnOpts
  removePass : Bool
  removeLiteralStatements : Bool
  combineImports : Bool
  removeObjectBase : Bool
  convertPosargs : Bool
  removeAsserts : Bool
  removeDebug : Bool
  removeExplicitReturnNone : Bool
  removeExceptionBrackets : Bool
  constantFolding : Bool
  deriving Repr

def Opts.allOff : Opts := ⟨⟨false, false, false, false⟩, false, false, false, false, false, false, false, false, false, false⟩

/-- `raise N()` / `raise … from N()` → `raise N` for the eligible builtin exception names -/
def stripCall (eligible : List String) : Option Expr → Option Expr
  | some (.call (.name n c) [] []) => if eligible.contains n then some (.name n c) else some (.call (.name n c) [] [])
  | e => e

def bracketsStmt (eligible : List String) : Stmt → Stmt
  | .raise_ e c => .raise_ (stripCall eligible e) (stripCall eligible c)
  | s => s

/-- exception brackets are removed wherever the raise statement is, so: a traversal touching every statement -/
def removeBrackets (eligible : List String) : SuiteT := { suiteF := fun _ b => b, stmtF := bracketsStmt eligible }

def foldModule (t : Printer.PrecTable) (sp : Token.Spacing) (orc : Fold.Oracle) (m : Module) : Module :=
  Traverse.mapModule ⟨Fold.foldE t sp orc, Fold.foldArguments t sp orc, false⟩ m

/-- the tree transforms of `minify()` in pipeline order -/
def transformM (t : Printer.PrecTable) (sp : Token.Spacing) (orc : Fold.Oracle) (eligible : List String) (o : Opts) (m : Module) : Module :=
  let m := if o.removeLiteralStatements then removeLiteralStatements m else m
  let m := if o.combineImports then travModule combineImports m else m
  let m := if o.annotations.any then removeAnnotations o.annotations m else m
  let m := if o.removePass then travModule removePass m else m
  let m := if o.removeObjectBase then travModule removeObject m else m
  let m := if o.removeAsserts then travModule removeAsserts m else m
  let m := if o.removeDebug then travModule removeDebug m else m
  let m := if o.removeExplicitReturnNone then travModule removeReturnNone m else m
  let m := if o.constantFolding then foldModule t sp orc m else m
  let m := if o.removeExceptionBrackets then travModule (removeBrackets eligible) m else m
  let m := if o.convertPosargs then removePosargs m else m
  m

/-- the module that reaches remove_annotations in the pipeline -/
def beforeAnnotationsM (o : Opts) (m : Module) : Module :=
  let m := if o.removeLiteralStatements then removeLiteralStatements m else m
  if o.combineImports then travModule combineImports m else m

end PMV.Minify

/-
  Model of `rename/renamer.py` (NameAssigner, reservation scopes, sorted_bindings) and of the cost
  functions of `rename/binding.py`, over *abstract bindings*: a binding is its kind, name, flags and
  the list of its references, each with its kind and the chain of namespaces from the reference up
  to (excluding) the binding's home namespace.  Namespaces are numbers.
-/
namespace PMV.Rename

abbrev Ns := Nat

inductive RefKind
  | name                       -- ast.Name in Load / Store / Del context
  | def_                       -- FunctionDef / AsyncFunctionDef / ClassDef name
  | except_                    -- ExceptHandler name
  | decl (count : Nat)         -- Global / Nonlocal statement naming it `count` times
  | alias (hasAsname : Bool)   -- import alias
  | arguments (vararg kwarg : Bool)   -- python 2 style vararg / kwarg strings (never on 3.x)
  | arg (inPlace : Bool)       -- ast.arg; `arg_rename_in_place(node)`
  | matchCapture               -- MatchAs / MatchStar / MatchMapping rest
  | typeParam                  -- TypeVar / TypeVarTuple / ParamSpec
  | literal                    -- a hoisted literal occurrence
  deriving Repr, DecidableEq

structure Ref where
  kind : RefKind
  chain : List Ns              -- namespaces visited walking `node = node.namespace` until the home namespace
  deriving Repr

inductive Kind | name | builtin | hoisted
  deriving Repr, DecidableEq

structure Binding where
  idx : Nat                    -- position in `all_bindings` order
  kind : Kind
  name : Option String         -- none for a hoisted literal
  valueLen : Nat               -- len(repr(value)) for a hoisted literal
  allow : Bool
  reserved : Option String
  home : Ns
  isModule : Bool              -- the home namespace is the module
  /-- when the home is a list/set/dict comprehension: the namespaces from it out to (and including) the first
      one that is not such a comprehension — CPython 3.12 compiles these inline (PEP 709), so the name must be
      free there too -/
  enclosing : List Ns := []
  refs : List Ref
  deriving Repr

/-- `reservation_scope(namespace, binding)` -/
def Binding.scope (b : Binding) : List Ns :=
  (b.home :: (b.enclosing ++ b.refs.flatMap (·.chain))).eraseDups

/-! ### cost model (binding.py) -/

def newMentions (b : Binding) : Nat :=
  match b.kind with
  | .name =>
    let m := b.refs.foldl (fun acc r => acc + (match r.kind with
      | .name => 1 | .def_ => 1 | .except_ => 1 | .decl c => c | .alias _ => 1
      | .arguments v k => (if v then 1 else 0) + (if k then 1 else 0)
      | .arg _ => 0 | .matchCapture => 1 | .typeParam => 1 | .literal => 0)) 0
    m + (if b.refs.any (fun r => match r.kind with | .arg _ => true | _ => false) then 1 else 0)
  | _ => b.refs.length + 1

def oldMentions (b : Binding) : Nat :=
  match b.kind with
  | .name =>
    let m := b.refs.foldl (fun acc r => acc + (match r.kind with
      | .alias false => 1 | .arg false => 1 | _ => 0)) 0
    m + (if b.refs.any (fun r => match r.kind with | .arg false => true | _ => false) then 1 else 0)
  | _ => 1

def additionalBytes (b : Binding) : Nat :=
  match b.kind with
  | .name =>
    b.refs.foldl (fun acc r => acc + (match r.kind with | .alias false => 4 | _ => 0)) 0
      + (if b.refs.any (fun r => match r.kind with | .arg false => true | _ => false) then 2 else 0)
  | _ => 2

/-- length of what a reference currently costs: the name, or the repr of the literal -/
def Binding.curLen (b : Binding) : Nat :=
  match b.name with
  | some n => n.length
  | none => b.valueLen

/-- `binding.should_rename(new_name)` -/
def shouldRename (b : Binding) (newName : String) : Bool :=
  oldMentions b * b.curLen + newMentions b * newName.length + additionalBytes b ≤ b.refs.length * b.curLen

/-! ### the assignment loop -/

abbrev Assigned := Ns → List String

def avail (a : Assigned) (n : String) (sc : List Ns) : Bool := sc.all fun ns => !(a ns).contains n

def reserve (n : String) (sc : List Ns) (a : Assigned) : Assigned :=
  fun ns => if sc.contains ns then n :: a ns else a ns

/-- `available_name(scope, prefix)`: first name of the generator sequence that is free in the scope. -/
def availableName (names : List String) (pfx : String) (a : Assigned) (sc : List Ns) : Option String :=
  (names.map (pfx ++ ·)).find? fun n => avail a n sc

structure Result where
  b : Binding
  final : Option String
  renamed : Bool
  exhausted : Bool := false      -- the finite generator table had no free name (never happens with the real, infinite generator)
  deriving Repr

/-- "no longer efficient, but the original name has been taken by another binding": a NameBinding
    whose own name is not reserved for it must be renamed when that name is no longer free. -/
def mustRename (a : Assigned) (b : Binding) : Bool :=
  match b.kind, b.name with
  | .hoisted, _ => false
  | _, some o => !(b.reserved == some o) && !avail a o b.scope
  | _, none => false

/-- module-level bindings get a `_` prefix unless global renaming was requested -/
def pfxOf (b : Binding) (prefixGlobals : Bool) : String := if b.isModule && prefixGlobals then "_" else ""

/-- one iteration of the loop in `NameAssigner.__call__` -/
def decide1 (names : List String) (prefixGlobals : Bool) (a : Assigned) (b : Binding) : Result :=
  if b.allow then
    match availableName names (pfxOf b prefixGlobals) a b.scope with
    | none => ⟨b, b.name, false, true⟩     -- generator table exhausted: outside the model
    | some cand =>
      if shouldRename b cand || mustRename a b then ⟨b, some cand, true, false⟩ else ⟨b, b.name, false, false⟩
  else ⟨b, b.name, false, false⟩

def after (a : Assigned) (r : Result) : Assigned :=
  match r.final with
  | some n => reserve n r.b.scope a
  | none => a

def loop (names : List String) (prefixGlobals : Bool) : Assigned → List Binding → List Result
  | _, [] => []
  | a, b :: bs => let r := decide1 names prefixGlobals a b; r :: loop names prefixGlobals (after a r) bs

/-- reservations made before the loop: every binding's `reserved` name in its scope, then the
    preserved globals in the module namespace. -/
def initial (bindings : List Binding) (moduleNs : Ns) (reservedGlobals : List String) : Assigned :=
  let a0 : Assigned := fun _ => []
  let a1 := bindings.foldl (fun a b => match b.reserved with | some r => reserve r b.scope a | none => a) a0
  reservedGlobals.foldl (fun a n => reserve n [moduleNs] a) a1

/-- `sorted_bindings`: stable, by descending `new_mention_count`. -/
def sortBindings (bs : List Binding) : List Binding :=
  bs.mergeSort fun x y => newMentions y ≤ newMentions x

/-- `NameAssigner.__call__`: results in processing order. -/
def assign (names : List String) (prefixGlobals : Bool) (moduleNs : Ns) (reservedGlobals : List String)
    (bindings : List Binding) : List Result :=
  loop names prefixGlobals (initial bindings moduleNs reservedGlobals) (sortBindings bindings)

end PMV.Rename

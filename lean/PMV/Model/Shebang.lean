/-
  Model of `python_minifier._find_shebang` and of how `minify()` re-attaches the line.
  Text is a list of code points (or bytes: the regex is the same for both).
-/
namespace PMV.Shebang

def isLineEnd (c : Nat) : Bool := c == 10 || c == 13

/-- `re.match(r'^#![^\r\n]*', source)`: the match, if any -/
def findShebang : List Nat → Option (List Nat)
  | 35 :: 33 :: rest => some (35 :: 33 :: rest.takeWhile (fun c => !isLineEnd c))
  | _ => none

/-- `shebang_line + '\n' + minified` when preservation is on and a shebang was found -/
def attach (preserve : Bool) (source minified : List Nat) : List Nat :=
  if preserve then
    match findShebang source with
    | some s => s ++ 10 :: minified
    | none => minified
  else minified

end PMV.Shebang

/-
  S-expressions: the wire format between the Python harness and the Lean model driver.
  Grammar:  sexp ::= atom | "(" sexp* ")"
  An atom is any run of characters other than whitespace and parentheses.  Python strings that may
  contain arbitrary code points (including lone surrogates, which Lean's `Char` cannot hold) travel as
  atoms of the form  s:HEX,HEX,...  (code points in hex);  identifiers and keywords travel verbatim.
-/
namespace PMV

inductive Sexp where
  | atom : String → Sexp
  | list : List Sexp → Sexp
  deriving Repr, Inhabited, BEq

namespace Sexp

private def isDelim (c : Char) : Bool := c == '(' || c == ')' || c == ' ' || c == '\n' || c == '\t' || c == '\r'

/-- Tokenise: "(" , ")" and atoms. -/
def tokens (s : String) : List String := Id.run do
  let mut out : Array String := #[]
  let mut cur : String := ""
  for c in s.toList do
    if isDelim c then
      if cur != "" then
        out := out.push cur
        cur := ""
      if c == '(' then out := out.push "("
      else if c == ')' then out := out.push ")"
    else
      cur := cur.push c
  if cur != "" then out := out.push cur
  return out.toList

/-- Stack-based parser: no recursion, total. -/
def parseTokens (ts : List String) : Option Sexp := Id.run do
  let mut stack : List (List Sexp) := []
  let mut cur : List Sexp := []   -- reversed
  for t in ts do
    if t == "(" then
      stack := cur :: stack
      cur := []
    else if t == ")" then
      match stack with
      | [] => return none
      | top :: rest =>
        let l := Sexp.list cur.reverse
        cur := l :: top
        stack := rest
    else
      cur := Sexp.atom t :: cur
  match stack, cur with
  | [], [x] => return some x
  | _, _ => return none

def parse (s : String) : Option Sexp := parseTokens (tokens s)

partial def toString : Sexp → String
  | atom a => a
  | list xs => "(" ++ " ".intercalate (xs.map toString) ++ ")"

instance : ToString Sexp := ⟨toString⟩

def hexDigit (c : Char) : Option Nat :=
  if '0' ≤ c ∧ c ≤ '9' then some (c.toNat - '0'.toNat)
  else if 'a' ≤ c ∧ c ≤ 'f' then some (c.toNat - 'a'.toNat + 10)
  else if 'A' ≤ c ∧ c ≤ 'F' then some (c.toNat - 'A'.toNat + 10)
  else none

def parseHex (s : String) : Option Nat :=
  if s.isEmpty then none else
  s.toList.foldl (fun acc c => do let a ← acc; let d ← hexDigit c; pure (a * 16 + d)) (some 0)

/-- Decode an `s:HEX,HEX,...` atom to code points. `s:` alone is the empty string. -/
def codepoints? (a : String) : Option (List Nat) :=
  if a.startsWith "s:" then
    let body := (a.drop 2).toString
    if body.isEmpty then some [] else
    (body.splitOn ",").mapM parseHex
  else none

def hexOf (n : Nat) : String := String.ofList (Nat.toDigits 16 n)

def ofCodepoints (cps : List Nat) : String := "s:" ++ ",".intercalate (cps.map hexOf)

/-- Code points that are valid scalar values become a Lean string (others are dropped; callers that
    care use the code point list itself). -/
def cpsToString (cps : List Nat) : String :=
  String.ofList (cps.filterMap fun n => if n.isValidChar then some (Char.ofNat n) else none)

end Sexp
end PMV

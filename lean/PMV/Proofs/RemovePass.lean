import PMV.Proofs.PyCoreBindInst
import PMV.Proofs.TransformsImports
/-
  remove_pass after the fix that keeps a string statement from becoming a docstring: the suite is `filterSuite isPass` applied to
  `passGuard b` (a leading `pass` replaced by the placeholder `0` when a string statement would move to the front).  `pass` and
  `0` are both statements that do nothing, bind nothing and are erased by the canonical form, so every theorem about the
  plain filter carries over.
-/
namespace PMV.Transforms
open PMV PMV.PyCore PMV.Spec.Rewrites

/-- `passGuard` only ever replaces a leading `pass` by `0` -/
theorem passGuard_cases (b : List Stmt) : passGuard b = b ∨ ∃ rest, b = .pass :: rest ∧ passGuard b = zeroStmt :: rest := by
  unfold passGuard
  split
  · rename_i rest
    split
    · split
      · exact Or.inr ⟨rest, rfl, rfl⟩
      · exact Or.inl rfl
    · exact Or.inl rfl
  · exact Or.inl rfl

@[simp] theorem removePass_suiteF (m : Bool) (b : List Stmt) : removePass.suiteF m b = filterSuite isPass m (passGuard b) := rfl
@[simp] theorem removePass_stmtF (s : Stmt) : removePass.stmtF s = s := rfl
@[simp] theorem removePass_funcBodyF (b : List Stmt) : removePass.funcBodyF b = b := rfl

end PMV.Transforms

namespace PMV.PyCore
open PMV PMV.Transforms PMV.Minify

theorem exec_pass (ft : FTab) (fuel : Nat) (s : St) : exec1 ⟨ft, o⟩ fuel s Stmt.pass = .ok (.normal s) :=
  (isPass_noop (o := o)).exec ft fuel s .pass rfl

theorem execL_passGuard (ft : FTab) (fuel : Nat) (s : St) (b : List Stmt) :
    execL ⟨ft, o⟩ fuel s (passGuard b) = execL ⟨ft, o⟩ fuel s b := by
  rcases passGuard_cases b with h | ⟨rest, hb, h⟩
  · rw [h]
  · rw [h, hb, execL_cons, execL_cons, exec_zero, exec_pass]

theorem collect_passGuard (b : List Stmt) : collect (passGuard b) = collect b := by
  rcases passGuard_cases b with h | ⟨rest, hb, h⟩
  · rw [h]
  · rw [h, hb]; simp [collect, defOf, zeroStmt]

theorem globals_passGuard (b : List Stmt) : declaredGlobals (passGuard b) = declaredGlobals b := by
  rcases passGuard_cases b with h | ⟨rest, hb, h⟩
  · rw [h]
  · rw [h, hb]; simp [declaredGlobals, globalsOf, zeroStmt]

theorem obind_passGuard (f : Stmt → Option (List String)) (hz : f zeroStmt = some []) (hp : f .pass = some []) (b : List Stmt) :
    obind f (passGuard b) = obind f b := by
  rcases passGuard_cases b with h | ⟨rest, hb, h⟩
  · rw [h]
  · rw [h, hb]; simp only [obind, hz, hp]

theorem removePass_sound : Sound o removePass where
  suite := fun ft fuel s m b => by
    rw [removePass_suiteF, execL_filterSuite isPass isPass_noop, execL_passGuard]
  stmt := fun _ _ _ _ => rfl
  body := fun _ _ _ _ => rfl
  globals := by
    intro b
    unfold bodyT
    simp only [removePass_funcBodyF, removePass_suiteF]
    rcases filterSuite_cases isPass false (passGuard (travBody removePass b)) with h | ⟨he, _, hz⟩
    · rw [h, globals_filter isPass (isPass_noop (o := o)), globals_passGuard, globals_trav removePass (fun _ => rfl)]
    · rw [hz, ← globals_trav removePass (fun _ => rfl) b, ← globals_passGuard (travBody removePass b),
        ← globals_filter isPass (isPass_noop (o := o)) (passGuard (travBody removePass b)), he]
      rfl

theorem removePass_table : TableSound removePass where
  stmtDef := fun _ => rfl
  suiteDef := by
    intro b
    simp only [removePass_suiteF]
    rcases filterSuite_cases isPass true (passGuard b) with h | ⟨_, hm, _⟩
    · rw [h, collect_filter isPass (isPass_noop (o := false)), collect_passGuard]
    · cases hm

theorem bindS_zero : bindS zeroStmt = some [] := by simp [zeroStmt, bindS, oguard, coreX, coreE]
theorem bindS0_zero : bindS0 zeroStmt = some [] := bindS0_of_bindS _ bindS_zero
theorem bindS_pass : bindS Stmt.pass = some [] := isPass_binds .pass rfl
theorem bindS0_pass : bindS0 Stmt.pass = some [] := bindS0_of_bindS _ bindS_pass

theorem removePass_bindOK : BindOK removePass where
  stmt := fun _ => rfl
  stmt0 := fun _ => rfl
  suite := by
    intro m b
    simp only [removePass_suiteF]
    rw [bindL_eq, bindL_eq, obind_filterSuite bindS obind_zero_bindS isPass isPass_binds m, obind_passGuard bindS bindS_zero bindS_pass]
  suite0 := by
    intro m b
    simp only [removePass_suiteF]
    rw [bindTop_eq, bindTop_eq,
      obind_filterSuite bindS0 obind_zero_bindS0 isPass (fun st h => bindS0_of_bindS st (isPass_binds st h)) m,
      obind_passGuard bindS0 bindS0_zero bindS0_pass]
  body := fun _ => rfl

end PMV.PyCore

namespace PMV.Transforms
open PMV PMV.Spec.Rewrites

/-- the canonical form does not see the guard: `pass` and the placeholder are both erased -/
theorem canon_passGuard (c : COpts) (hc : FilterOnly c) (hp : c.pass = true) (cls : Option (List Expr × List Expr)) (fb : Bool) (ys : List Stmt) :
    cSuite c fb (cBody c cls (passGuard ys)) = cSuite c fb (cBody c cls ys) := by
  rcases passGuard_cases ys with h | ⟨rest, hb, h⟩
  · rw [h]
  · rw [h, hb, cSuite_filterOnly c hc, cSuite_filterOnly c hc]
    have h1 : dropStmt c (cStmt c cls zeroStmt) = true := by
      rw [cStmt_zero]; simp [dropStmt, COpts.placeholders, hp, isZero, zeroStmt]
    have h2 : dropStmt c (cStmt c cls Stmt.pass) = true := by
      simp [cStmt, dropStmt, hp, isPass]
    simp [cBody, List.filter_cons, h1, h2]

theorem removePass_suite (cls : Option (List Expr × List Expr)) (fb m : Bool) (ys : List Stmt) :
    cSuite { pass := true } fb (cBody { pass := true } cls (filterSuite isPass m (passGuard ys))) =
      cSuite { pass := true } fb (cBody { pass := true } cls ys) := by
  have hc : FilterOnly ({ pass := true } : COpts) := ⟨rfl, rfl, rfl⟩
  rw [cSuite_filterSuite _ hc cls isPass (fun s hs => by simp [dropStmt, hs])
      (by simp [dropStmt, COpts.placeholders, isZero, zeroStmt]) (fun s => (kind_cStmt _ cls s).1) (cStmt_zero _ cls),
    canon_passGuard _ hc rfl]

end PMV.Transforms

import PMV.Proofs.PyCoreMap
import PMV.Model.Scope
/-
  C01 / C05, T01.17: removing annotations refines the PyCore behaviour.  In the core an annotated name inside a
  function is assigned like a plain one (the annotation of a local is not evaluated), a value-less annotation only
  makes the name local (the transform keeps it as `x: 0`), and a `def` with annotated parameters or a return
  annotation — whose annotations are evaluated when the `def` runs — is outside the core, as is an annotated
  assignment at module level.  So wherever the original run stays inside the core, the run without annotations
  is the same.
-/
namespace PMV.PyCore
open PMV PMV.Transforms

variable {o : Bool}

def annFT (a : AnnOpts) : FTab → FTab
  | [] => []
  | (f, ps, b) :: rest => (f, ps, annBody a none b) :: annFT a rest

/-- the table of the transformed module has at least the functions of the original one, transformed -/
def TabLe (a : AnnOpts) (ft ft' : FTab) : Prop :=
  ∀ f ps b, ft.lookup f = some (ps, b) → ft'.lookup f = some (ps, annBody a none b)

theorem globalsOf_ann (a : AnnOpts) (st : Stmt) : globalsOf (annStmt a none st) = globalsOf st := by
  cases st <;> try rfl
  rename_i tg ann v simple
  simp only [annStmt, annAssign]
  split
  · rfl
  · split
    · rfl
    · cases v <;> rfl

theorem declaredGlobals_ann (a : AnnOpts) : ∀ b, declaredGlobals (annBody a none b) = declaredGlobals b
  | [] => rfl
  | st :: rest => by simp [annBody, declaredGlobals, globalsOf_ann, declaredGlobals_ann a rest]

theorem coreX_of_coreE (e : Expr) (h : coreE e = true) : coreX e = true := by
  unfold coreX
  split
  · simp [coreE] at h
  · exact h

theorem oguard_some' {c : Bool} {r : Option (List String)} {l : List String} (h : oguard c r = some l) : c = true ∧ r = some l := by
  cases c <;> simp [oguard] at h
  exact ⟨rfl, h⟩

theorem oguard_some {c : Bool} {r l : List String} (h : oguard c (some r) = some l) : c = true ∧ r = l := by
  cases c <;> simp [oguard] at h
  exact ⟨rfl, h⟩

theorem oapp_some {x y : Option (List String)} {l : List String} (h : oapp x y = some l) :
    ∃ l1 l2, x = some l1 ∧ y = some l2 ∧ l = l1 ++ l2 := by
  cases x <;> cases y <;> simp [oapp] at h
  exact ⟨_, _, rfl, rfl, h.symm⟩

mutual
theorem bindS_ann (a : AnnOpts) : (st : Stmt) → (l : List String) → bindS st = some l → bindS (annStmt a none st) = some l
  | .annAssign tg ann v simple, l, h => by
    simp only [annStmt, annAssign, annEnabled, annExempt]
    by_cases hv : a.variables = true
    · simp only [hv, Bool.not_true, Bool.false_eq_true, if_false]
      simp only [bindS] at h
      cases hn : nameOf tg with
      | none => simp [hn] at h
      | some p =>
        obtain ⟨x, c⟩ := p
        simp only [hn] at h
        obtain ⟨hg, hl⟩ := oguard_some h
        simp only [Bool.and_eq_true] at hg
        have htg : tg = .name x c := by
          cases tg <;> simp [nameOf] at hn
          obtain ⟨h1, h2⟩ := hn; subst h1; subst h2; rfl
        subst htg
        cases v with
        | none => simp [bindS, nameOf, oguard, hg.1.1, coreE, hl]
        | some e => simp [bindS, assignTarget, oguard, coreX_of_coreE e hg.2, hl]
    · simp only [hv, Bool.not_false, if_true]; exact h
  | .if_ c body orelse, l, h => by
    simp only [bindS] at h ⊢
    obtain ⟨hg, h2⟩ := oguard_some' h
    obtain ⟨l1, l2, hb, ho, rfl⟩ := oapp_some h2
    simp [annStmt, bindS, hg, oguard, bindL_ann a body l1 hb, bindL_ann a orelse l2 ho, oapp]
  | .while_ c body orelse, l, h => by
    simp only [bindS] at h ⊢
    obtain ⟨hg, h2⟩ := oguard_some' h
    obtain ⟨l1, l2, hb, ho, rfl⟩ := oapp_some h2
    simp [annStmt, bindS, hg, oguard, bindL_ann a body l1 hb, bindL_ann a orelse l2 ho, oapp]
  | .for_ isAsync tg it body orelse, l, h => by
    cases isAsync
    · simp only [bindS] at h
      cases hf : forRange tg it with
      | none => simp [hf] at h
      | some p =>
        obtain ⟨x, e⟩ := p
        simp only [hf] at h
        obtain ⟨hg, h2⟩ := oguard_some' h
        obtain ⟨l0, l12, h0, h12, rfl⟩ := oapp_some h2
        obtain ⟨l1, l2, hb, ho, rfl⟩ := oapp_some h12
        simp only [Option.some.injEq] at h0
        subst h0
        simp [annStmt, bindS, hf, hg, oguard, bindL_ann a body l1 hb, bindL_ann a orelse l2 ho, oapp]
    · simp [bindS] at h
  | .try_ star body hs orelse fin, l, h => by
    cases star
    · simp only [bindS] at h
      obtain ⟨l1, r1, hb, h1, rfl⟩ := oapp_some h
      obtain ⟨l2, r2, hh, h2, rfl⟩ := oapp_some h1
      obtain ⟨l3, l4, ho, hf, rfl⟩ := oapp_some h2
      simp [annStmt, bindS, bindL_ann a body l1 hb, bindH_ann a hs l2 hh, bindL_ann a orelse l3 ho, bindL_ann a fin l4 hf, oapp]
    · simp [bindS] at h
  | .functionDef .., l, h => by simp [bindS] at h
  | .classDef .., l, h => by simp [bindS] at h
  | .with_ .., l, h => by simp [bindS] at h
  | .match_ .., l, h => by simp [bindS] at h
  | .return_ _, l, h => h
  | .delete _, l, h => h
  | .assign .., l, h => h
  | .typeAlias .., l, h => h
  | .augAssign .., l, h => h
  | .raise_ .., l, h => h
  | .assert_ .., l, h => h
  | .import_ .., l, h => h
  | .importFrom .., l, h => h
  | .global _, l, h => h
  | .nonlocal _, l, h => h
  | .expr _, l, h => h
  | .pass, l, h => h
  | .break_, l, h => h
  | .continue_, l, h => h
theorem bindL_ann (a : AnnOpts) : (b : List Stmt) → (l : List String) → bindL b = some l → bindL (annBody a none b) = some l
  | [], l, h => h
  | st :: rest, l, h => by
    simp only [bindL] at h
    obtain ⟨l1, l2, h1, h2, rfl⟩ := oapp_some h
    simp [annBody, bindL, bindS_ann a st l1 h1, bindL_ann a rest l2 h2, oapp]
theorem bindH_ann (a : AnnOpts) : (hs : List Handler) → (l : List String) → bindH hs = some l → bindH (annHandlers a none hs) = some l
  | [], l, h => h
  | .mk ty nm body :: rest, l, h => by
    simp only [bindH] at h
    obtain ⟨hg, h2⟩ := oguard_some' h
    obtain ⟨l1, l2, hb, hr, rfl⟩ := oapp_some h2
    simp [annHandlers, bindH, hg, oguard, bindL_ann a body l1 hb, bindH_ann a rest l2 hr, oapp]
end

theorem bindTop_ann (a : AnnOpts) : (b : List Stmt) → (l : List String) → bindTop b = some l → bindTop (annBody a none b) = some l
  | [], l, h => h
  | st :: rest, l, h => by
    cases st
    case global ns => simp only [bindTop] at h; simp [annBody, annStmt, bindTop, bindTop_ann a rest l h]
    all_goals
      simp only [bindTop] at h
      obtain ⟨l1, l2, h1, h2, rfl⟩ := oapp_some h
      have hs := bindS_ann a _ l1 h1
      have hr := bindTop_ann a rest l2 h2
      simp only [annBody]
      generalize hst : annStmt a none _ = st' at hs ⊢
      cases st' <;> first
        | (simp [bindS] at hs; done)
        | (simp only [bindTop, hs, hr, oapp])


/-! ### execution -/

def GoodA (o : Bool) (a : AnnOpts) (ft ft' : FTab) (n : Nat) : Prop :=
  (∀ s st, Res.le (exec1 ⟨ft, o⟩ n s st) (exec1 ⟨ft', o⟩ n s (annStmt a none st))) ∧
  (∀ s l, Res.le (execL ⟨ft, o⟩ n s l) (execL ⟨ft', o⟩ n s (annBody a none l)))

theorem callFn_leA (a : AnnOpts) (ft ft' : FTab) (hT : TabLe a ft ft') (n : Nat) (ih : ∀ k, k < n → GoodA o a ft ft' k)
    (s : St) (f : String) (args : List Expr) (tgt : Option String) :
    Res.le (callFn ⟨ft, o⟩ n s f args tgt) (callFn ⟨ft', o⟩ n s f args tgt) := by
  rw [callFn, callFn]
  cases evalArgs s args with
  | none => left; rfl
  | some r =>
    cases r with
    | error x => right; rfl
    | ok vs =>
      cases hl : ft.lookup f with
      | none => left; rfl
      | some pb =>
        obtain ⟨ps, b⟩ := pb
        simp only [hT f ps b hl]
        cases hb : bindTop b with
        | none => left; rfl
        | some bound =>
          simp only [bindTop_ann a b bound hb, declaredGlobals_ann]
          cases n with
          | zero => right; rfl
          | succ k =>
            simp only
            split
            · right; rfl
            · rcases (ih k (Nat.lt_succ_self k)).2
                { globals := s.globals, locals := some (ps.zip vs), declGlobal := declaredGlobals b, out := s.out, imports := s.imports,
                  localNames := ps ++ canonNames bound } b with hb2 | hb2
              · left; simp only [hb2, asCall]
              · right; simp only [hb2]

theorem stripArguments_plain (a : AnnOpts) (args : Arguments) (ps : List String) (h : paramNames args = some ps) :
    stripArguments a args = args := by
  obtain ⟨po, as, va, ko, kd, kw, ds⟩ := args
  cases va <;> cases ko <;> cases kd <;> cases kw <;> cases ds <;> simp [paramNames] at h
  obtain ⟨hall, _⟩ := h
  have hfix : ∀ l : List Arg, (∀ x ∈ l, argPlain x = true) → l.map (stripArg a) = l := by
    intro l hl
    induction l with
    | nil => rfl
    | cons x xs ih =>
      have hx := hl x (by simp)
      obtain ⟨n, ann⟩ := x
      cases ann <;> simp [argPlain] at hx
      simp [stripArg, ih (fun y hy => hl y (by simp [hy]))]
  simp only [stripArguments, Option.map_none, List.map_nil]
  rw [hfix po hall.1, hfix as hall.2]

theorem exec1_def_leA (a : AnnOpts) (ft ft' : FTab) (n : Nat) (s : St) (isAsync : Bool) (nm : String) (args : Arguments)
    (body : List Stmt) (decs : List Expr) (ret : Option Expr) (tps : List TypeParam) :
    Res.le (exec1 ⟨ft, o⟩ n s (.functionDef isAsync nm args body decs ret tps))
      (exec1 ⟨ft', o⟩ n s (annStmt a none (.functionDef isAsync nm args body decs ret tps))) := by
  simp only [annStmt]
  rw [exec1_flat _ _ _ _ rfl, exec1_flat _ _ _ _ rfl, flat_simple _ _ _ _ rfl rfl, flat_simple _ _ _ _ rfl rfl]
  simp only [simpleExec]
  by_cases hp : isPlainDef (.functionDef isAsync nm args body decs ret tps) = true
  · right
    cases isAsync <;> cases decs <;> cases ret <;> cases tps <;> simp [isPlainDef] at hp
    cases hps : paramNames args with
    | none => simp [hps] at hp
    | some ps =>
      simp only [stripArguments_plain a args ps hps, isPlainDef, hps, Option.isSome_some, if_true, ite_self]
  · left; simp only [hp, Bool.false_eq_true, if_false]

theorem exec1_annAssign_leA (a : AnnOpts) (ft ft' : FTab) (n : Nat) (s : St) (tg ann : Expr) (v : Option Expr) (simple : Bool) :
    Res.le (exec1 ⟨ft, o⟩ n s (.annAssign tg ann v simple)) (exec1 ⟨ft', o⟩ n s (annStmt a none (.annAssign tg ann v simple))) := by
  simp only [annStmt, annAssign, annEnabled, annExempt]
  by_cases hv : a.variables = true
  · simp only [hv, Bool.not_true, Bool.false_eq_true, if_false]
    rw [exec1_flat _ _ _ _ rfl, flat_simple _ _ _ _ rfl rfl]
    simp only [simpleExec]
    by_cases hc : (s.locals.isSome && simple) = true
    · simp only [hc, if_true]
      cases hn : nameOf tg with
      | none => left; rfl
      | some p =>
        obtain ⟨x, c⟩ := p
        have htg : tg = .name x c := by
          cases tg <;> simp [nameOf] at hn
          obtain ⟨h1, h2⟩ := hn; subst h1; subst h2; rfl
        subst htg
        cases v with
        | none =>
          right
          rw [exec1_flat _ _ _ _ rfl, flat_simple _ _ _ _ rfl rfl]
          simp only [simpleExec, hc, if_true, nameOf]
        | some e =>
          simp only
          -- the plain assignment: a call of a table function on the right is outside the core in the annotated form
          cases hcall : asNameCall e with
          | some q =>
            left
            obtain ⟨g, c2, as⟩ := q
            rw [asNameCall_some e g c2 as hcall]
            simp [evalThen, evalE]
          | none =>
            right
            have hco : callOf (.assign [.name x c] e) = none := by
              rw [callOf_assign_eq, hcall]; simp [assignTarget]
            rw [exec1_flat _ _ _ _ rfl, flat_simple _ _ _ _ rfl hco]
            simp only [simpleExec, assignTarget]
    · simp only [hc, Bool.false_eq_true, if_false]; left; rfl
  · simp only [hv, Bool.not_false, if_true]
    rw [exec1_flat _ _ _ _ rfl, exec1_flat _ _ _ _ rfl, flat_simple _ _ _ _ rfl rfl, flat_simple _ _ _ _ rfl rfl]
    exact Res.le_refl _

/-- statements that the transform leaves alone -/
theorem flat_leA (a : AnnOpts) (ft ft' : FTab) (hT : TabLe a ft ft') (n : Nat) (ih : ∀ k, k < n → GoodA o a ft ft' k)
    (s : St) (st : Stmt) (hst : isBlockStmt st = false) :
    Res.le (exec1 ⟨ft, o⟩ n s st) (exec1 ⟨ft', o⟩ n s st) := by
  rw [exec1_flat _ _ _ _ hst, exec1_flat _ _ _ _ hst]
  unfold flatExec
  simp only
  by_cases ha : (o && isAssertStmt st) = true
  · simp only [ha, if_true]; exact Res.le_refl _
  · simp only [ha, Bool.false_eq_true, if_false]
    cases callOf st with
    | none => exact Res.le_refl _
    | some p => obtain ⟨f, args, tgt⟩ := p; exact callFn_leA a ft ft' hT n ih s f args tgt

theorem stuck_le (r : Res Flow) : Res.le .stuck r := Or.inl rfl

mutual
theorem exec1_leA (a : AnnOpts) (ft ft' : FTab) (hT : TabLe a ft ft') (n : Nat) (ih : ∀ k, k < n → GoodA o a ft ft' k) :
    (st : Stmt) → (s : St) → Res.le (exec1 ⟨ft, o⟩ n s st) (exec1 ⟨ft', o⟩ n s (annStmt a none st))
  | .if_ c body orelse, s => by
    simp only [annStmt]
    rw [exec1.eq_1, exec1.eq_1]
    show Res.le (match condE o s c with
        | some (.ok v) => if v.truthy then execL ⟨ft, o⟩ n s body else execL ⟨ft, o⟩ n s orelse
        | some (.error x) => .raised x s
        | none => .stuck)
      (match condE o s c with
        | some (.ok v) => if v.truthy then execL ⟨ft', o⟩ n s (annBody a none body) else execL ⟨ft', o⟩ n s (annBody a none orelse)
        | some (.error x) => .raised x s
        | none => .stuck)
    cases condE o s c with
    | none => left; rfl
    | some r =>
      cases r with
      | error x => right; rfl
      | ok v =>
        by_cases hv : v.truthy = true
        · simp only [hv, if_true]; exact execL_leA a ft ft' hT n ih body s
        · simp only [hv, Bool.false_eq_true, if_false]; exact execL_leA a ft ft' hT n ih orelse s
  | .while_ c body orelse, s => by
    simp only [annStmt]
    cases n with
    | zero =>
      rw [exec1.eq_2, exec1.eq_2]
      cases evalE s c with
      | none => left; rfl
      | some r =>
        cases r with
        | error x => right; rfl
        | ok v =>
          by_cases hv : v.truthy = true
          · simp only [hv, if_true]; right; trivial
          · simp only [hv, Bool.false_eq_true, if_false]; exact execL_leA a ft ft' hT 0 ih orelse s
    | succ k =>
      rw [exec1.eq_3, exec1.eq_3]
      cases evalE s c with
      | none => left; rfl
      | some r =>
        cases r with
        | error x => right; rfl
        | ok v =>
          by_cases hv : v.truthy = true
          · simp only [hv, if_true]
            have hw : ∀ s', Res.le (exec1 ⟨ft, o⟩ k s' (.while_ c body orelse))
                (exec1 ⟨ft', o⟩ k s' (.while_ c (annBody a none body) (annBody a none orelse))) := by
              intro s'
              have := (ih k (Nat.lt_succ_self k)).1 s' (.while_ c body orelse)
              simpa only [annStmt] using this
            rcases execL_leA a ft ft' hT (k + 1) ih body s with hb | hb
            · left; rw [hb]
            · rw [hb]
              cases execL ⟨ft, o⟩ (k + 1) s body with
              | ok fl =>
                cases fl with
                | normal s' => exact hw s'
                | continued s' => exact hw s'
                | broke s' => right; rfl
                | returned v s' => right; rfl
              | _ => right; rfl
          · simp only [hv, Bool.false_eq_true, if_false]; exact execL_leA a ft ft' hT (k + 1) ih orelse s
  | .for_ true tg it body orelse, s => by
    simp only [annStmt]
    rw [exec1_flat _ _ _ _ rfl, flat_simple _ _ _ _ rfl rfl]; exact stuck_le _
  | .for_ false tg it body orelse, s => by
    simp only [annStmt]
    rw [exec1.eq_4, exec1.eq_4]
    cases forRange tg it with
    | none => left; rfl
    | some p =>
      obtain ⟨x, e⟩ := p
      simp only
      have hb : ∀ f, f ≤ n → ∀ s, Res.le (execL ⟨ft, o⟩ f s body) (execL ⟨ft', o⟩ f s (annBody a none body)) := by
        intro f hf s
        rcases Nat.lt_or_eq_of_le hf with hlt | heq
        · exact (ih f hlt).2 s body
        · subst heq; exact execL_leA a ft ft' hT f ih body s
      have ho : ∀ f, f ≤ n → ∀ s, Res.le (execL ⟨ft, o⟩ f s orelse) (execL ⟨ft', o⟩ f s (annBody a none orelse)) := by
        intro f hf s
        rcases Nat.lt_or_eq_of_le hf with hlt | heq
        · exact (ih f hlt).2 s orelse
        · subst heq; exact execL_leA a ft ft' hT f ih orelse s
      unfold evalThen
      cases evalE s e with
      | none => left; rfl
      | some r =>
        cases r with
        | error err => right; rfl
        | ok v =>
          simp only []
          cases v.asInt with
          | none => left; rfl
          | some k => exact execFor_le ft ft' body _ orelse _ n hb ho n (Nat.le_refl n) s x 0 k
  | .try_ true body hs orelse fin, s => by
    simp only [annStmt]
    rw [exec1_flat _ _ _ _ rfl, flat_simple _ _ _ _ rfl rfl]; exact stuck_le _
  | .try_ false body hs orelse fin, s => by
    simp only [annStmt]
    rw [exec1.eq_5, exec1.eq_5]
    apply withFinally_le
    · apply afterBody_le
      · exact execL_leA a ft ft' hT n ih body s
      · intro s1; exact execL_leA a ft ft' hT n ih orelse s1
      · intro x s1; exact execH_leA a ft ft' hT n ih hs s1 x
    · intro s1; exact execL_leA a ft ft' hT n ih fin s1
  | .functionDef isAsync nm args body decs ret tps, s => exec1_def_leA a ft ft' n s isAsync nm args body decs ret tps
  | .annAssign tg ann v simple, s => exec1_annAssign_leA a ft ft' n s tg ann v simple
  | .classDef .., s => by
    simp only [annStmt]
    rw [exec1_flat _ _ _ _ rfl, flat_simple _ _ _ _ rfl rfl]; exact stuck_le _
  | .with_ .., s => by
    simp only [annStmt]
    rw [exec1_flat _ _ _ _ rfl, flat_simple _ _ _ _ rfl rfl]; exact stuck_le _
  | .match_ .., s => by
    simp only [annStmt]
    rw [exec1_flat _ _ _ _ rfl, flat_simple _ _ _ _ rfl rfl]; exact stuck_le _
  | .return_ _, s => flat_leA a ft ft' hT n ih s _ rfl
  | .delete _, s => flat_leA a ft ft' hT n ih s _ rfl
  | .assign .., s => flat_leA a ft ft' hT n ih s _ rfl
  | .typeAlias .., s => flat_leA a ft ft' hT n ih s _ rfl
  | .augAssign .., s => flat_leA a ft ft' hT n ih s _ rfl
  | .raise_ .., s => flat_leA a ft ft' hT n ih s _ rfl
  | .assert_ .., s => flat_leA a ft ft' hT n ih s _ rfl
  | .import_ .., s => flat_leA a ft ft' hT n ih s _ rfl
  | .importFrom .., s => flat_leA a ft ft' hT n ih s _ rfl
  | .global _, s => flat_leA a ft ft' hT n ih s _ rfl
  | .nonlocal _, s => flat_leA a ft ft' hT n ih s _ rfl
  | .expr _, s => flat_leA a ft ft' hT n ih s _ rfl
  | .pass, s => flat_leA a ft ft' hT n ih s _ rfl
  | .break_, s => flat_leA a ft ft' hT n ih s _ rfl
  | .continue_, s => flat_leA a ft ft' hT n ih s _ rfl
theorem execH_leA (a : AnnOpts) (ft ft' : FTab) (hT : TabLe a ft ft') (n : Nat) (ih : ∀ k, k < n → GoodA o a ft ft' k) :
    (hs : List Handler) → (s : St) → (x : String) →
      Res.le (execH ⟨ft, o⟩ n s x hs) (execH ⟨ft', o⟩ n s x (annHandlers a none hs))
  | [], s, x => by simp only [annHandlers]; rw [execH.eq_1, execH.eq_1]; exact Res.le_refl _
  | .mk ty nm hbody :: rest, s, x => by
    simp only [annHandlers]
    rw [execH.eq_2, execH.eq_2]
    cases catches (excKind ty) nm x with
    | none => left; rfl
    | some b =>
      cases b with
      | true => exact execL_leA a ft ft' hT n ih hbody s
      | false => exact execH_leA a ft ft' hT n ih rest s x
theorem execL_leA (a : AnnOpts) (ft ft' : FTab) (hT : TabLe a ft ft') (n : Nat) (ih : ∀ k, k < n → GoodA o a ft ft' k) :
    (l : List Stmt) → (s : St) → Res.le (execL ⟨ft, o⟩ n s l) (execL ⟨ft', o⟩ n s (annBody a none l))
  | [], s => by simp only [annBody, execL_nil]; exact Res.le_refl _
  | st :: rest, s => by
    simp only [annBody]
    exact execL_cons_le ft ft' n s st _ rest _ (exec1_leA a ft ft' hT n ih st s) (fun s' => execL_leA a ft ft' hT n ih rest s')
end

theorem goodA_all (a : AnnOpts) (ft ft' : FTab) (hT : TabLe a ft ft') (n : Nat) : GoodA o a ft ft' n := by
  induction n using Nat.strongRecOn with
  | _ n ih => exact ⟨fun s st => exec1_leA a ft ft' hT n ih st s, fun s l => execL_leA a ft ft' hT n ih l s⟩


/-! ### the function table -/

theorem defOf_name (st : Stmt) (f : String) (ps : List String) (b : List Stmt) (h : defOf st = some (f, ps, b)) : defName st = some f := by
  unfold defOf at h
  split at h
  · split at h
    · simp only [Option.some.injEq, Prod.mk.injEq] at h; rw [← h.1]; rfl
    · simp at h
  · simp at h

theorem lookup_collect_defNames : ∀ (l : List Stmt) (f : String) (pb : List String × List Stmt),
    (collect l).lookup f = some pb → f ∈ defNames l
  | [], _, _, h => by simp [collect] at h
  | st :: rest, f, pb, h => by
    simp only [collect] at h
    simp only [defNames, List.mem_append]
    cases hd : defOf st with
    | none => rw [hd] at h; exact Or.inr (lookup_collect_defNames rest f pb h)
    | some e =>
      obtain ⟨g, ps, b⟩ := e
      rw [hd] at h
      simp only [List.lookup] at h
      by_cases hg : (f == g) = true
      · have : f = g := by simpa using hg
        subst this
        left; rw [defOf_name st f ps b hd]; simp
      · have hg' : (f == g) = false := by simpa using hg
        simp only [hg'] at h
        exact Or.inr (lookup_collect_defNames rest f pb h)

theorem defOf_ann (a : AnnOpts) (st : Stmt) (f : String) (ps : List String) (b : List Stmt) (h : defOf st = some (f, ps, b)) :
    defOf (annStmt a none st) = some (f, ps, annBody a none b) := by
  unfold defOf at h
  split at h
  · rename_i n args body
    split at h
    · rename_i ps' hps
      simp only [Option.some.injEq, Prod.mk.injEq] at h
      obtain ⟨h1, h2, h3⟩ := h
      subst h1; subst h2; subst h3
      simp only [annStmt, stripArguments_plain a args ps' hps, ite_self, defOf, hps]
    · simp at h
  · simp at h

theorem defName_ann (a : AnnOpts) (st : Stmt) : defName (annStmt a none st) = defName st := by
  cases st <;> try rfl
  rename_i tg ann v simple
  simp only [annStmt, annAssign]
  split
  · rfl
  · split
    · rfl
    · cases v <;> rfl

theorem tabLe_collect (a : AnnOpts) : ∀ l : List Stmt, (defNames l).Nodup → TabLe a (collect l) (collect (annBody a none l))
  | [], _ => by intro f ps b h; simp [collect] at h
  | st :: rest, hnd => by
    intro f ps b h
    have hnd' : (defNames rest).Nodup := by
      simp only [defNames] at hnd
      exact (List.nodup_append.mp hnd).2.1
    have ih := tabLe_collect a rest hnd'
    simp only [annBody, collect] at h ⊢
    cases hd : defOf st with
    | some e =>
      obtain ⟨g, ps0, b0⟩ := e
      rw [hd] at h
      rw [defOf_ann a st g ps0 b0 hd]
      simp only [List.lookup] at h ⊢
      by_cases hg : (f == g) = true
      · simp only [hg] at h ⊢
        simp only [Option.some.injEq, Prod.mk.injEq] at h
        obtain ⟨h1, h2⟩ := h
        subst h1; subst h2; rfl
      · have hg' : (f == g) = false := by simpa using hg
        simp only [hg'] at h ⊢
        exact ih f ps b h
    | none =>
      rw [hd] at h
      cases hd' : defOf (annStmt a none st) with
      | none => exact ih f ps b h
      | some e =>
        obtain ⟨g, ps0, b0⟩ := e
        simp only [List.lookup]
        have hname : defName st = some g := by rw [← defName_ann a st]; exact defOf_name _ g ps0 b0 hd'
        by_cases hg : (f == g) = true
        · exfalso
          have : f = g := by simpa using hg
          subst this
          have hmem := lookup_collect_defNames rest f (ps, b) h
          simp only [defNames, hname] at hnd
          rw [List.nodup_append] at hnd
          exact hnd.2.2 f (by simp) f hmem rfl
        · have hg' : (f == g) = false := by simpa using hg
          simp only [hg']
          exact ih f ps b h

/-- T01.17: annotation removal refines the behaviour of every module whose module-level `def`s have distinct names:
    unless the original run leaves the core, the module without annotations behaves identically, at every fuel. -/
theorem run_removeAnnotations (a : AnnOpts) (n : Nat) (m : Module) (hnd : (defNames m.body).Nodup)
    (hcore : (run n m).ending ≠ "stuck") : run n (removeAnnotations a m) = run n m := by
  unfold run removeAnnotations at *
  simp only at *
  rcases (goodA_all (o := false) a (collect m.body) (collect (annBody a none m.body)) (tabLe_collect a m.body hnd) n).2 St.init m.body with hs | hs
  · rw [hs] at hcore; simp [observe] at hcore
  · rw [hs]

theorem runO_removeAnnotations (a : AnnOpts) (n : Nat) (m : Module) (hnd : (defNames m.body).Nodup)
    (hcore : (runO n m).ending ≠ "stuck") : runO n (removeAnnotations a m) = runO n m := by
  unfold runO removeAnnotations at *
  simp only at *
  rcases (goodA_all (o := true) a (collect m.body) (collect (annBody a none m.body)) (tabLe_collect a m.body hnd) n).2 St.init m.body with hs | hs
  · rw [hs] at hcore; simp [observe] at hcore
  · rw [hs]

end PMV.PyCore

import PMV.Model.Preserve
namespace PMV.Preserve

theorem splitComma_ne_nil (s : List Nat) : splitComma s ≠ [] := by
  cases s with
  | nil => simp [splitComma]
  | cons c cs =>
    simp only [splitComma]
    split
    · simp
    · split <;> simp

theorem splitComma_nocomma (w : List Nat) (h : 44 ∉ w) : splitComma w = [w] := by
  induction w with
  | nil => rfl
  | cons c cs ih =>
    have hc : c ≠ 44 := fun e => h (e ▸ List.mem_cons_self)
    have hcs : 44 ∉ cs := fun e => h (List.mem_cons_of_mem _ e)
    simp [splitComma, hc, ih hcs]

theorem splitComma_append (w rest : List Nat) (h : 44 ∉ w) :
    splitComma (w ++ 44 :: rest) = w :: splitComma rest := by
  induction w with
  | nil => simp [splitComma]
  | cons c cs ih =>
    have hc : c ≠ 44 := fun e => h (e ▸ List.mem_cons_self)
    have hcs : 44 ∉ cs := fun e => h (List.mem_cons_of_mem _ e)
    simp [splitComma, hc, ih hcs]

theorem split_join : ∀ (names : List (List Nat)), names ≠ [] → (∀ n ∈ names, 44 ∉ n) →
    splitComma (joinComma names) = names
  | [], h, _ => absurd rfl h
  | [w], _, hn => by simpa [joinComma] using splitComma_nocomma w (hn w (by simp))
  | w :: w' :: ws, _, hn => by
    simp only [joinComma]
    rw [splitComma_append w _ (hn w (by simp))]
    rw [split_join (w' :: ws) (by simp) (fun n h => hn n (List.mem_cons_of_mem _ h))]

theorem lstrip_id (ws : Nat → Bool) (s : List Nat) (h : ∀ c, s.head? = some c → ws c = false) :
    lstrip ws s = s := by
  cases s with
  | nil => rfl
  | cons c cs => simp [lstrip, List.dropWhile, h c rfl]

/-- A name with no leading and no trailing whitespace is unchanged by `strip`. -/
theorem strip_id (ws : Nat → Bool) (s : List Nat)
    (h1 : ∀ c, s.head? = some c → ws c = false) (h2 : ∀ c, s.getLast? = some c → ws c = false) :
    strip ws s = s := by
  unfold strip
  rw [lstrip_id ws s h1, lstrip_id ws s.reverse (by simpa using h2)]
  simp

def Clean (ws : Nat → Bool) (n : List Nat) : Prop :=
  n ≠ [] ∧ 44 ∉ n ∧ (∀ c, n.head? = some c → ws c = false) ∧ (∀ c, n.getLast? = some c → ws c = false)

theorem parseArg_join (ws : Nat → Bool) (names : List (List Nat)) (h : ∀ n ∈ names, Clean ws n) :
    parseArg ws (joinComma names) = names := by
  by_cases hnil : names = []
  · subst hnil; simp [parseArg, joinComma, splitComma]
  · unfold parseArg
    rw [split_join names hnil (fun n hn => (h n hn).2.1)]
    have hf : names.filter (fun n => !n.isEmpty) = names := by
      apply List.filter_eq_self.mpr
      intro n hn
      have := (h n hn).1
      cases n <;> simp_all
    rw [hf]
    conv => rhs; rw [← List.map_id names]
    apply List.map_congr_left
    intro n hn
    exact strip_id ws n (h n hn).2.2.1 (h n hn).2.2.2

theorem parseArgs_append (ws : Nat → Bool) (a b : List (List Nat)) :
    parseArgs ws (a ++ b) = parseArgs ws a ++ parseArgs ws b := by
  simp [parseArgs]

end PMV.Preserve

import PMV.Proofs.PyCoreRename
/-
  T01.13, static part: from the checkable condition `fnOK` to the callee claim (the parameter copies at the start of
  the renamed body establish the relation between the two runs) and to the whole-module theorem.
-/
namespace PMV.PyCore
open PMV PMV.RenameAst

variable {o : Bool}

/-! ### docstrings do nothing -/

theorem exec1_doc (ft : FTab) (k : Nat) (s : St) (st : Stmt) (h : isDocStmt st = true) :
    exec1 ⟨ft, o⟩ k s st = .ok (.normal s) := by
  unfold isDocStmt at h
  split at h
  · rw [exec1_flat _ _ _ _ rfl, flat_simple _ _ _ _ rfl rfl]
    rfl
  · simp at h

theorem execL_takeWhile_doc (ft : FTab) (k : Nat) (s : St) (X : List Stmt) : ∀ l : List Stmt,
    execL ⟨ft, o⟩ k s (l.takeWhile isDocStmt ++ X) = execL ⟨ft, o⟩ k s X
  | [] => rfl
  | st :: rest => by
    by_cases hd : isDocStmt st = true
    · simp only [List.takeWhile_cons, hd, if_true, List.cons_append]
      rw [execL_cons, exec1_doc ft k s st hd]
      exact execL_takeWhile_doc ft k s X rest
    · simp [hd]

theorem execL_dropWhile_doc (ft : FTab) (k : Nat) (s : St) (l : List Stmt) :
    execL ⟨ft, o⟩ k s l = execL ⟨ft, o⟩ k s (l.dropWhile isDocStmt) := by
  conv => lhs; rw [← List.takeWhile_append_dropWhile (p := isDocStmt) (l := l)]
  exact execL_takeWhile_doc ft k s _ l

theorem isDoc_ren (π : Ren) (st : Stmt) : isDocStmt (renStmt π st) = isDocStmt st := by
  cases st <;> try rfl
  rename_i e
  cases e <;> rfl

theorem dropWhile_ren (π : Ren) : ∀ b : List Stmt, (renBody π b).dropWhile isDocStmt = renBody π (b.dropWhile isDocStmt)
  | [] => by simp [renBody]
  | st :: rest => by
    simp only [renBody, List.dropWhile_cons, isDoc_ren]
    by_cases hd : isDocStmt st = true
    · simp only [hd, if_true]; exact dropWhile_ren π rest
    · simp [hd, renBody]

/-! ### the arguments of a call -/

theorem zip_get_none : ∀ (ps : List String) (vs : List Val) (x : String), x ∉ ps → Env.get (ps.zip vs) x = none
  | [], _, _, _ => rfl
  | _ :: _, [], _, _ => rfl
  | p :: ps, v :: vs, x, h => by
    simp only [List.mem_cons, not_or] at h
    simp only [List.zip_cons_cons, Env.get, List.lookup]
    have : (x == p) = false := by simpa using h.1
    simp only [this]
    exact zip_get_none ps vs x h.2

theorem zip_get_mem : ∀ (ps : List String) (vs : List Val) (p : String), p ∈ ps → ps.length = vs.length →
    ∃ v, v ∈ vs ∧ Env.get (ps.zip vs) p = some v
  | [], _, _, h, _ => by simp at h
  | q :: ps, [], _, _, hl => by simp at hl
  | q :: ps, v :: vs, p, h, hl => by
    simp only [List.zip_cons_cons, Env.get, List.lookup]
    by_cases hq : (p == q) = true
    · exact ⟨v, by simp, by simp [hq]⟩
    · have hq' : (p == q) = false := by simpa using hq
      have hp : p ∈ ps := by
        simp only [List.mem_cons] at h
        rcases h with rfl | h
        · simp at hq'
        · exact h
      obtain ⟨w, hw, hg⟩ := zip_get_mem ps vs p hp (by simpa using hl)
      exact ⟨w, by simp [hw], by simpa [hq', Env.get] using hg⟩

/-! ### what `fnOK` says -/

structure FnFacts (π : Ren) (pro ps : List String) (b : List Stmt) (bound bound' : List String) : Prop where
  inj : ∀ x y, x ∈ fnNames ps b → y ∈ fnNames ps b → π x = π y → x = y
  moved : ∀ x, x ∈ fnNames ps b → isLoc ps bound (declaredGlobals b) x = false → π x = x
  locEq : ∀ x, x ∈ fnNames ps b →
    isLoc ps bound' (declaredGlobals (renFnBody π pro b)) (π x) = isLoc ps bound (declaredGlobals b) x
  res : ∀ r, r ∈ reserved → π r = r
  proIff : ∀ p, p ∈ ps → (p ∈ pro ↔ π p ≠ p)
  proPs : ∀ p, p ∈ pro → p ∈ ps
  proLoc : ∀ p, p ∈ pro → isLoc ps bound' (declaredGlobals (renFnBody π pro b)) p = true
  stale : ∀ p, p ∈ pro → ∀ x, x ∈ fnNames ps b → π x ≠ p
  nodup : pro.Nodup
  fixedL : RenameAst.fixedL π b = true

theorem fnOK_facts (π : Ren) (pro ps : List String) (b : List Stmt) (bound bound' : List String)
    (hb : bindTop b = some bound) (hb' : bindTop (renFnBody π pro b) = some bound') (h : fnOK π pro ps b = true) :
    FnFacts π pro ps b bound bound' := by
  unfold fnOK at h
  simp only [hb, hb', Bool.and_eq_true, List.all_eq_true, Bool.or_eq_true, bne_iff_ne, ne_eq, beq_iff_eq,
    decide_eq_true_eq, List.contains_iff_mem] at h
  obtain ⟨⟨⟨⟨⟨⟨⟨⟨h1, h2⟩, h3⟩, h4⟩, h5⟩, h6⟩, h7⟩, _⟩, h9⟩ := h
  refine ⟨?_, ?_, ?_, h4, ?_, ?_, ?_, ?_, h7, h9⟩
  · intro x y hx hy hxy
    rcases h1 x hx y hy with hne | heq
    · exact absurd hxy hne
    · exact heq
  · intro x hx hl
    rcases h2 x hx with hloc | hfix
    · rw [hl] at hloc; simp at hloc
    · exact hfix
  · intro x hx; exact h3 x hx
  · intro p hp
    have := h5 p hp
    constructor
    · intro hin
      have hc : pro.contains p = true := by simpa using hin
      rw [hc] at this
      simpa using this.symm
    · intro hne
      have hc : (π p != p) = true := by simpa using hne
      rw [hc] at this
      simpa using this
  · intro p hp; exact (h6 p hp).1.1
  · intro p hp; exact (h6 p hp).1.2
  · intro p hp x hx; exact (h6 p hp).2 x hx

/-! ### the parameter copies -/

theorem exec1_prologue (ft : FTab) (k : Nat) (π : Ren) (s : St) (p : String) (v : Val)
    (hd : p ≠ "__debug__") (hl : s.lookup p = some v) (hm : ∀ n, v ≠ .mod n) :
    exec1 ⟨ft, o⟩ k s (prologueStmt π p) = .ok (.normal (s.assign (π p) v)) := by
  unfold prologueStmt
  rw [exec1_flat _ _ _ _ rfl, flat_simple _ _ _ _ rfl rfl]
  have hd' : (p == "__debug__") = false := by simpa using hd
  simp only [simpleExec, assignTarget, evalThen, evalE, hd', Bool.false_eq_true, if_false, hl]

/-- the state after the copies of the parameters in `done`, seen from the locals -/
structure ProInv (π : Ren) (ps : List String) (vs : List Val) (s0 : St) (done : List String) (s' : St) : Prop where
  globals : s'.globals = s0.globals
  out : s'.out = s0.out
  imports : s'.imports = s0.imports
  decl : s'.declGlobal = s0.declGlobal
  lnames : s'.localNames = s0.localNames
  locals : ∃ l', s'.locals = some l' ∧
    (∀ y, (∀ p, p ∈ done → π p ≠ y) → Env.get l' y = Env.get (ps.zip vs) y) ∧
    (∀ p, p ∈ done → Env.get l' (π p) = Env.get (ps.zip vs) p)

theorem isLocal_of_fields (s s' : St) (h1 : s'.locals.isSome = s.locals.isSome) (h2 : s'.declGlobal = s.declGlobal)
    (h3 : s'.localNames = s.localNames) (x : String) : s'.isLocal x = s.isLocal x := by
  unfold St.isLocal; rw [h1, h2, h3]

theorem prologue_run (ft : FTab) (k : Nat) (π : Ren) (ps : List String) (vs : List Val) (hlen : ps.length = vs.length)
    (hvs : ∀ v ∈ vs, ∀ n, v ≠ .mod n) (s0 : St) (hs0 : s0.locals = some (ps.zip vs)) (tail : List Stmt)
    (all : List String)
    (hps : ∀ p, p ∈ all → p ∈ ps) (hdbg : ∀ p, p ∈ all → p ≠ "__debug__")
    (hlocp : ∀ p, p ∈ all → s0.isLocal p = true) (hloct : ∀ p, p ∈ all → s0.isLocal (π p) = true)
    (hstale : ∀ p q, p ∈ all → q ∈ all → π q ≠ p) (hinj : ∀ p q, p ∈ all → q ∈ all → π p = π q → p = q) :
    ∀ (todo done : List String) (s' : St), (∀ p, p ∈ todo → p ∈ all) → (∀ p, p ∈ done → p ∈ all) → todo.Nodup →
      (∀ p, p ∈ todo → p ∉ done) → ProInv π ps vs s0 done s' →
      ∃ s1', execL ⟨ft, o⟩ k s' (todo.map (prologueStmt π) ++ tail) = execL ⟨ft, o⟩ k s1' tail ∧
        ProInv π ps vs s0 (todo ++ done) s1'
  | [], done, s', _, _, _, _, hinv => ⟨s', rfl, by simpa using hinv⟩
  | p :: rest, done, s', htodo, hdone, hnd, hdisj, hinv => by
    obtain ⟨l', hl', hc1, hc2⟩ := hinv.locals
    have hpall : p ∈ all := htodo p (by simp)
    have hsome : s'.locals.isSome = s0.locals.isSome := by rw [hl', hs0]; rfl
    have hisl : ∀ x, s'.isLocal x = s0.isLocal x := isLocal_of_fields s0 s' hsome hinv.decl hinv.lnames
    obtain ⟨v, hv, hzip⟩ := zip_get_mem ps vs p (hps p hpall) hlen
    have hget : Env.get l' p = some v := by
      rw [hc1 p (fun q hq => hstale p q hpall (hdone q hq))]; exact hzip
    have hlook : s'.lookup p = some v := by
      unfold St.lookup
      rw [hisl p, hlocp p hpall]
      simp [hl', hget]
    have hex := exec1_prologue (o := o) ft k π s' p v (hdbg p hpall) hlook (hvs v hv)
    have hloc' : s'.isLocal (π p) = true := by rw [hisl]; exact hloct p hpall
    have hinv' : ProInv π ps vs s0 (p :: done) (s'.assign (π p) v) := by
      have hloc : (s'.assign (π p) v).locals = some (l'.set (π p) v) := by
        rw [locals_assign_local s' (π p) v hloc', hl']; rfl
      refine ⟨?_, ?_, ?_, ?_, ?_, ⟨l'.set (π p) v, hloc, ?_, ?_⟩⟩
      · unfold St.assign; simp only [hloc', if_true]; exact hinv.globals
      · unfold St.assign; simp only [hloc', if_true]; exact hinv.out
      · unfold St.assign; simp only [hloc', if_true]; exact hinv.imports
      · unfold St.assign; simp only [hloc', if_true]; exact hinv.decl
      · unfold St.assign; simp only [hloc', if_true]; exact hinv.lnames
      · intro y hy
        rw [Env.get_set]
        have hne : (y == π p) = false := by
          have := hy p (by simp)
          simpa using (fun h : y = π p => this h.symm)
        simp only [hne, Bool.false_eq_true, if_false]
        exact hc1 y (fun q hq => hy q (by simp [hq]))
      · intro q hq
        simp only [List.mem_cons] at hq
        rw [Env.get_set]
        rcases hq with rfl | hq
        · simp [hzip]
        · have hne : (π q == π p) = false := by
            apply Bool.eq_false_iff.mpr
            intro hc
            have heq : π q = π p := by simpa using hc
            have := hinj q p (hdone q hq) hpall heq
            subst this
            exact hdisj q (by simp) hq
          simp only [hne, Bool.false_eq_true, if_false]
          exact hc2 q hq
    have hnd' : rest.Nodup := (List.nodup_cons.mp hnd).2
    have hpn : p ∉ rest := (List.nodup_cons.mp hnd).1
    obtain ⟨s1', he, hfin⟩ := prologue_run ft k π ps vs hlen hvs s0 hs0 tail all hps hdbg hlocp hloct hstale hinj rest (p :: done)
      (s'.assign (π p) v) (fun q hq => htodo q (by simp [hq]))
      (by intro q hq; simp only [List.mem_cons] at hq; rcases hq with rfl | hq; exact hpall; exact hdone q hq) hnd'
      (by
        intro q hq hqd
        simp only [List.mem_cons] at hqd
        rcases hqd with rfl | hqd
        · exact hpn hq
        · exact hdisj q (by simp [hq]) hqd) hinv'
    refine ⟨s1', ?_, ?_⟩
    · simp only [List.map_cons, List.cons_append]
      rw [execL_cons, hex]
      exact he
    · have : p :: rest ++ done = p :: (rest ++ done) := rfl
      -- the invariant only talks about membership in `done`
      obtain ⟨l1, hl1, hd1, hd2⟩ := hfin.locals
      refine ⟨hfin.globals, hfin.out, hfin.imports, hfin.decl, hfin.lnames, ⟨l1, hl1, ?_, ?_⟩⟩
      · intro y hy
        exact hd1 y (fun q hq => hy q (by
          simp only [List.mem_append, List.mem_cons] at hq ⊢
          rcases hq with hq | rfl | hq
          · exact Or.inl (Or.inr hq)
          · exact Or.inl (Or.inl rfl)
          · exact Or.inr hq))
      · intro q hq
        exact hd2 q (by
          simp only [List.mem_append, List.mem_cons] at hq ⊢
          rcases hq with (rfl | hq) | hq
          · exact Or.inr (Or.inl rfl)
          · exact Or.inl hq
          · exact Or.inr (Or.inr hq))


/-! ### the callee -/

def TableOK (R : RenTable) (ft : FTab) : Prop :=
  ∀ f ps b, ft.lookup f = some (ps, b) → fnOK (R f).1 (R f).2 ps b = true

theorem asCall_rel {Q : St → St → Prop} (r r' : Res Flow) (h : ResRel Q r r') : ResRel Q (asCall r) (asCall r') := by
  cases r with
  | ok fl =>
    cases r' with
    | ok fl' =>
      cases fl with
      | normal s1 => cases fl' <;> first | exact ⟨rfl, h⟩ | exact h.elim
      | returned v s1 => cases fl' <;> first | exact h | exact h.elim
      | broke s1 => cases fl' <;> first | exact h | exact h.elim
      | continued s1 => cases fl' <;> first | exact h | exact h.elim
    | _ => exact h.elim
  | raised x s1 => cases r' <;> first | exact h | exact h.elim
  | stuck => cases r' <;> first | exact h | exact h.elim
  | timeout => cases r' <;> first | exact h | exact h.elim

theorem mem_fnNames_res (ps : List String) (b : List Stmt) (r : String) (h : r ∈ reserved) : r ∈ fnNames ps b := by
  unfold fnNames; simp [h]

theorem mem_fnNames_ps (ps : List String) (b : List Stmt) (p : String) (h : p ∈ ps) : p ∈ fnNames ps b := by
  unfold fnNames; simp [h]

theorem mem_fnNames_body (ps : List String) (b : List Stmt) (x : String) (h : x ∈ namesL b) : x ∈ fnNames ps b := by
  unfold fnNames; simp [h]

theorem fnP_iff (ps : List String) (b : List Stmt) (x : String) : fnP ps b x = true ↔ x ∈ fnNames ps b := by
  unfold fnP; simp

theorem stat_of_facts {π : Ren} {pro ps : List String} {b : List Stmt} {bound bound' : List String}
    (F : FnFacts π pro ps b bound bound') : Stat π (fnP ps b) where
  resP := fun r hr => (fnP_iff ps b r).mpr (mem_fnNames_res ps b r hr)
  resFix := F.res

theorem okL_dropWhile (π : Ren) (P : String → Bool) : ∀ l : List Stmt, okL π P l = true → okL π P (l.dropWhile isDocStmt) = true
  | [], h => h
  | st :: rest, h => by
    simp only [List.dropWhile_cons]
    split
    · apply okL_dropWhile π P rest
      simp only [okL, namesL, fixedL, List.all_append, Bool.and_eq_true] at h ⊢
      exact ⟨h.1.2, h.2.2⟩
    · exact h

theorem okL_of_facts {π : Ren} {pro ps : List String} {b : List Stmt} {bound bound' : List String}
    (F : FnFacts π pro ps b bound bound') : okL π (fnP ps b) b = true := by
  unfold okL
  rw [Bool.and_eq_true]
  refine ⟨?_, F.fixedL⟩
  rw [List.all_eq_true]
  intro x hx
  exact (fnP_iff ps b x).mpr (mem_fnNames_body ps b x hx)

theorem isLocal_inner (g : Env) (l : Env) (dg : List String) (out imps ln : List String) (x : String) :
    St.isLocal { globals := g, locals := some l, declGlobal := dg, out := out, imports := imps, localNames := ln } x =
      (!dg.contains x && ln.contains x) := by
  unfold St.isLocal; simp

theorem calleeOK_of (R : RenTable) (ft : FTab) (htab : TableOK R ft) (k : Nat)
    (hlist : ∀ (π : Ren) (P : String → Bool), Stat π P → ∀ s s', Rel π P s s' → ∀ l, okL π P l = true →
      ResRel (Rel π P) (execL ⟨ft, o⟩ k s l) (execL ⟨renFT R ft, o⟩ k s' (renBody π l))) :
    CalleeOK o R ft k := by
  intro f ps b bound bound' hl hb hb' g out imps vs hvs hlen
  have F := fnOK_facts (R f).1 (R f).2 ps b bound bound' hb hb' (htab f ps b hl)
  generalize hπ : (R f).1 = π at F ⊢
  generalize hpro : (R f).2 = pro at F ⊢
  have hS := stat_of_facts F
  have hpN : ∀ p, p ∈ pro → p ∈ fnNames ps b := fun p hp => mem_fnNames_ps ps b p (F.proPs p hp)
  have hmoved : ∀ p, p ∈ pro → π p ≠ p := fun p hp => (F.proIff p (F.proPs p hp)).mp hp
  apply asCall_rel
  rw [execL_dropWhile_doc ft k _ b]
  -- the renamed run starts with the parameter copies
  let s0' : St := { globals := g, locals := some (ps.zip vs), declGlobal := declaredGlobals (renFnBody π pro b), out := out, imports := imps,
                    localNames := ps ++ canonNames bound' }
  have hloc0 : ∀ x, s0'.isLocal x = isLoc ps bound' (declaredGlobals (renFnBody π pro b)) x := by
    intro x; rw [isLocal_inner]; rfl
  have hrun := prologue_run (o := o) (renFT R ft) k π ps vs hlen hvs s0' rfl (renBody π (b.dropWhile isDocStmt)) pro
    F.proPs
    (by
      intro p hp hc
      subst hc
      exact hmoved _ hp (F.res _ (by simp [reserved])))
    (by intro p hp; rw [hloc0]; exact F.proLoc p hp)
    (by
      intro p hp
      rw [hloc0, F.locEq p (hpN p hp)]
      by_cases hc : isLoc ps bound (declaredGlobals b) p = true
      · exact hc
      · exact absurd (F.moved p (hpN p hp) (by simpa using hc)) (hmoved p hp))
    (by intro p q hp hq; exact F.stale p hp q (hpN q hq))
    (by intro p q hp hq; exact F.inj p q (hpN p hp) (hpN q hq))
    pro [] s0' (fun _ h => h) (by simp) F.nodup (by simp)
    ⟨rfl, rfl, rfl, rfl, rfl, ⟨ps.zip vs, rfl, fun _ _ => rfl, by simp⟩⟩
  obtain ⟨s1', he, hinv⟩ := hrun
  have hunf : renFnBody π pro b = List.takeWhile isDocStmt (renBody π b) ++
      (List.map (prologueStmt π) pro ++ renBody π (List.dropWhile isDocStmt b)) := by
    unfold renFnBody; simp only [List.append_assoc, dropWhile_ren]
  show ResRel _ _ (execL ⟨renFT R ft, o⟩ k s0' (renFnBody π pro b))
  rw [hunf, execL_takeWhile_doc, he]
  simp only [List.append_nil] at hinv
  obtain ⟨l1, hl1, hd1, hd2⟩ := hinv.locals
  have hisl1 : ∀ x, s1'.isLocal x = s0'.isLocal x :=
    isLocal_of_fields s0' s1' (by rw [hl1]; rfl) hinv.decl hinv.lnames
  let s0 : St := { globals := g, locals := some (ps.zip vs), declGlobal := declaredGlobals b, out := out, imports := imps,
                   localNames := ps ++ canonNames bound }
  have hlocS : ∀ x, s0.isLocal x = isLoc ps bound (declaredGlobals b) x := by
    intro x; rw [isLocal_inner]; rfl
  have hrel : Rel π (fnP ps b) s0 s1' := by
    refine ⟨hinv.globals, hinv.out, hinv.imports, by rw [hl1]; rfl, ?_, ?_, ?_, ?_⟩
    · intro x hx
      rw [hisl1, hloc0, hlocS]
      exact F.locEq x ((fnP_iff ps b x).mp hx)
    · intro x hx hlx
      have hxN := (fnP_iff ps b x).mp hx
      show (s1'.locals.bind fun l => Env.get l (π x)) = Env.get (ps.zip vs) x
      rw [hl1]
      simp only [Option.bind_some]
      by_cases hxp : x ∈ pro
      · exact hd2 x hxp
      · have hne : ∀ p, p ∈ pro → π p ≠ π x := by
          intro p hp hc
          have := F.inj p x (hpN p hp) hxN hc
          subst this
          exact hxp hp
        rw [hd1 (π x) hne]
        by_cases hxps : x ∈ ps
        · have : π x = x := by
            by_cases hc : π x = x
            · exact hc
            · exact absurd ((F.proIff x hxps).mpr hc) hxp
          rw [this]
        · rw [zip_get_none ps vs x hxps]
          apply zip_get_none
          intro hq
          by_cases hqp : π x ∈ pro
          · exact F.stale (π x) hqp x hxN rfl
          · have hfix : π (π x) = π x := by
              by_cases hc : π (π x) = π x
              · exact hc
              · exact absurd ((F.proIff (π x) hq).mpr hc) hqp
            have := F.inj (π x) x (mem_fnNames_ps ps b _ hq) hxN hfix
            rw [this] at hq
            exact hxps hq
    · intro x hx hlx
      rw [hlocS] at hlx
      exact F.moved x ((fnP_iff ps b x).mp hx) hlx
    · intro x y hx hy hxy
      exact F.inj x y ((fnP_iff ps b x).mp hx) ((fnP_iff ps b y).mp hy) hxy
  exact hlist π (fnP ps b) hS s0 s1' hrel (b.dropWhile isDocStmt) (okL_dropWhile π _ b (okL_of_facts F))


/-! ### every fuel -/

theorem fnOK_isSome (π : Ren) (pro ps : List String) (b : List Stmt) (h : fnOK π pro ps b = true) :
    (bindTop (renFnBody π pro b)).isSome = (bindTop b).isSome := by
  unfold fnOK at h
  simp only [Bool.and_eq_true] at h
  exact beq_iff_eq.mp h.1.2

theorem static_of_table (R : RenTable) (ft : FTab) (htab : TableOK R ft) : StaticOK R ft :=
  fun f ps b hl => fnOK_isSome _ _ ps b (htab f ps b hl)

theorem goodR_all (R : RenTable) (ft : FTab) (htab : TableOK R ft) (n : Nat) : GoodR o R ft n := by
  have hst := static_of_table R ft htab
  induction n using Nat.strongRecOn with
  | _ n ih =>
    exact ⟨fun π P hs s s' h st hok => exec1_ren R ft hst n ih hs st s s' h hok,
      fun π P hs s s' h l hok => execL_ren R ft hst n ih hs l s s' h hok,
      calleeOK_of R ft htab n (fun π P hs s s' h l hok => execL_ren R ft hst n ih hs l s s' h hok)⟩

/-! ### the module level: nothing is renamed there -/

theorem all_fixed_of_id (π : Ren) (hπ : ∀ x, π x = x) (l : List String) : l.all (fun x => π x == x) = true := by
  rw [List.all_eq_true]; intro x _; simp [hπ x]

theorem renAlias_id (π : Ren) (hπ : ∀ x, π x = x) (a : Alias) : renAlias π a = a := by
  unfold renAlias
  cases h : a.asname with
  | none => rfl
  | some c =>
    simp only [hπ c]
    cases a
    simp_all

theorem map_renAlias_id (π : Ren) (hπ : ∀ x, π x = x) : ∀ l : List Alias, l.map (renAlias π) = l
  | [] => rfl
  | a :: rest => by simp only [List.map_cons, renAlias_id π hπ a, map_renAlias_id π hπ rest]

theorem map_id' (π : Ren) (hπ : ∀ x, π x = x) : ∀ l : List String, l.map π = l
  | [] => rfl
  | a :: rest => by simp only [List.map_cons, hπ a, map_id' π hπ rest]

mutual
theorem renStmt_id (π : Ren) (hπ : ∀ x, π x = x) : (st : Stmt) → renStmt π st = st
  | .return_ v => by simp only [renStmt, renO_fixed π v (all_fixed_of_id π hπ _)]
  | .assign ts v => by
    simp only [renStmt, renEs_fixed π ts (all_fixed_of_id π hπ _), renE_fixed π v (all_fixed_of_id π hπ _)]
  | .augAssign tg op v => by
    simp only [renStmt, renE_fixed π tg (all_fixed_of_id π hπ _), renE_fixed π v (all_fixed_of_id π hπ _)]
  | .for_ a tg it body orelse => by
    simp only [renStmt, renE_fixed π tg (all_fixed_of_id π hπ _), renE_fixed π it (all_fixed_of_id π hπ _),
      renBody_id π hπ body, renBody_id π hπ orelse]
  | .while_ c body orelse => by
    simp only [renStmt, renE_fixed π c (all_fixed_of_id π hπ _), renBody_id π hπ body, renBody_id π hπ orelse]
  | .if_ c body orelse => by
    simp only [renStmt, renE_fixed π c (all_fixed_of_id π hπ _), renBody_id π hπ body, renBody_id π hπ orelse]
  | .raise_ e c => by
    simp only [renStmt, renO_fixed π e (all_fixed_of_id π hπ _), renO_fixed π c (all_fixed_of_id π hπ _)]
  | .try_ st body hs orelse fin => by
    simp only [renStmt, renBody_id π hπ body, renHandlers_id π hπ hs, renBody_id π hπ orelse, renBody_id π hπ fin]
  | .assert_ c msg => by
    simp only [renStmt, renE_fixed π c (all_fixed_of_id π hπ _), renO_fixed π msg (all_fixed_of_id π hπ _)]
  | .import_ names => by simp only [renStmt, map_renAlias_id π hπ names]
  | .importFrom m names l => by simp only [renStmt, map_renAlias_id π hπ names]
  | .global ns => by simp only [renStmt, map_id' π hπ ns]
  | .expr v => by simp only [renStmt, renE_fixed π v (all_fixed_of_id π hπ _)]
  | .functionDef .. => rfl
  | .classDef .. => rfl
  | .delete _ => rfl
  | .typeAlias .. => rfl
  | .annAssign tg ann v simple => by
    simp only [renStmt, renE_fixed π tg (all_fixed_of_id π hπ _), renE_fixed π ann (all_fixed_of_id π hπ _),
      renO_fixed π v (all_fixed_of_id π hπ _)]
  | .with_ .. => rfl
  | .match_ .. => rfl
  | .nonlocal _ => rfl
  | .pass => rfl
  | .break_ => rfl
  | .continue_ => rfl
theorem renBody_id (π : Ren) (hπ : ∀ x, π x = x) : (l : List Stmt) → renBody π l = l
  | [] => rfl
  | st :: rest => by simp only [renBody, renStmt_id π hπ st, renBody_id π hπ rest]
theorem renHandlers_id (π : Ren) (hπ : ∀ x, π x = x) : (hs : List Handler) → renHandlers π hs = hs
  | [] => rfl
  | .mk ty nm body :: rest => by
    simp only [renHandlers, renO_fixed π ty (all_fixed_of_id π hπ _), renBody_id π hπ body, renHandlers_id π hπ rest]
end

mutual
theorem fixedS_id (π : Ren) (hπ : ∀ x, π x = x) : (st : Stmt) → fixedS π st = true
  | .expr e => by
    simp only [fixedS]
    split <;> simp [hπ]
  | .assign _ e => by
    simp only [fixedS]
    split <;> simp [hπ]
  | .for_ _ _ _ body orelse => by simp only [fixedS, fixedL_id π hπ body, fixedL_id π hπ orelse, Bool.and_self]
  | .while_ _ body orelse => by simp only [fixedS, fixedL_id π hπ body, fixedL_id π hπ orelse, Bool.and_self]
  | .if_ _ body orelse => by simp only [fixedS, fixedL_id π hπ body, fixedL_id π hπ orelse, Bool.and_self]
  | .raise_ e c => by simp only [fixedS]; exact all_fixed_of_id π hπ _
  | .try_ _ body hs orelse fin => by
    simp only [fixedS, fixedL_id π hπ body, fixedH_id π hπ hs, fixedL_id π hπ orelse, fixedL_id π hπ fin, Bool.and_self]
  | .import_ names => by simp [fixedS, hπ]
  | .importFrom _ names _ => by simp [fixedS, hπ]
  | .functionDef .. => rfl
  | .classDef .. => rfl
  | .return_ _ => rfl
  | .delete _ => rfl
  | .typeAlias .. => rfl
  | .augAssign .. => rfl
  | .annAssign .. => rfl
  | .with_ .. => rfl
  | .match_ .. => rfl
  | .assert_ .. => rfl
  | .global _ => rfl
  | .nonlocal _ => rfl
  | .pass => rfl
  | .break_ => rfl
  | .continue_ => rfl
theorem fixedL_id (π : Ren) (hπ : ∀ x, π x = x) : (l : List Stmt) → fixedL π l = true
  | [] => rfl
  | st :: rest => by simp only [fixedL, fixedS_id π hπ st, fixedL_id π hπ rest, Bool.and_self]
theorem fixedH_id (π : Ren) (hπ : ∀ x, π x = x) : (hs : List Handler) → fixedH π hs = true
  | [] => rfl
  | .mk ty _ body :: rest => by
    simp only [fixedH, all_fixed_of_id π hπ _, fixedL_id π hπ body, fixedH_id π hπ rest, Bool.and_self]
end

theorem rel_id_refl (s : St) : Rel id (fun _ => true) s s :=
  ⟨rfl, rfl, rfl, rfl, fun _ _ => rfl, fun _ _ _ => rfl, fun _ _ _ => rfl, fun _ _ _ _ h => h⟩

theorem stat_id : Stat id (fun _ => true) := ⟨fun _ _ => rfl, fun _ _ => rfl⟩

theorem okS_id (st : Stmt) : okS id (fun _ => true) st = true := by
  unfold okS
  rw [Bool.and_eq_true]
  exact ⟨by rw [List.all_eq_true]; intro _ _; rfl, fixedS_id id (fun _ => rfl) st⟩

/-- a table-shaped `def` at module level -/
def isTableDef : Stmt → Bool
  | .functionDef false _ _ _ [] none [] => true
  | _ => false

theorem renTop_notDef (R : RenTable) (st : Stmt) (h : isTableDef st = false) : renTop R st = st := by
  unfold renTop
  split
  · simp [isTableDef] at h
  · rfl

theorem exec1_def (ft : FTab) (n : Nat) (s : St) (st : Stmt) (h : isTableDef st = true) :
    exec1 ⟨ft, o⟩ n s st = if isPlainDef st then .ok (.normal s) else .stuck := by
  unfold isTableDef at h
  split at h
  · rw [exec1_flat _ _ _ _ rfl, flat_simple _ _ _ _ rfl rfl]; rfl
  · simp at h

theorem isTableDef_renTop (R : RenTable) (st : Stmt) (h : isTableDef st = true) :
    isTableDef (renTop R st) = true ∧ isPlainDef (renTop R st) = isPlainDef st := by
  unfold isTableDef at h
  split at h
  · exact ⟨rfl, rfl⟩
  · simp at h

theorem execTop_ren (R : RenTable) (ft : FTab) (htab : TableOK R ft) (n : Nat) : ∀ (l : List Stmt) (s s' : St),
    Rel id (fun _ => true) s s' →
    ResRel (Rel id (fun _ => true)) (execL ⟨ft, o⟩ n s l) (execL ⟨renFT R ft, o⟩ n s' (l.map (renTop R)))
  | [], s, s', h => by simp only [List.map_nil, execL_nil]; exact h
  | st :: rest, s, s', h => by
    simp only [List.map_cons]
    apply execL_cons_rel
    · by_cases hd : isTableDef st = true
      · rw [exec1_def ft n s st hd, exec1_def (renFT R ft) n s' _ (isTableDef_renTop R st hd).1, (isTableDef_renTop R st hd).2]
        split
        · exact h
        · trivial
      · have hd' : isTableDef st = false := by simpa using hd
        rw [renTop_notDef R st hd']
        have := (goodR_all (o := o) R ft htab n).1 id (fun _ => true) stat_id s s' h st (okS_id st)
        rw [renStmt_id id (fun _ => rfl) st] at this
        exact this
    · intro s1 s1' h1; exact execTop_ren R ft htab n rest s1 s1' h1

theorem defOf_renTop (R : RenTable) (st : Stmt) :
    defOf (renTop R st) = (defOf st).map (fun e => (e.1, e.2.1, renFnBody (R e.1).1 (R e.1).2 e.2.2)) := by
  unfold renTop
  split
  · rename_i n args body
    simp only [defOf]
    cases paramNames args <;> rfl
  · rename_i hne
    cases hd : defOf st with
    | none => rfl
    | some e =>
      exfalso
      unfold defOf at hd
      split at hd
      · exact hne _ _ _ rfl
      · simp at hd

theorem collect_renTop (R : RenTable) : ∀ l : List Stmt, collect (l.map (renTop R)) = renFT R (collect l)
  | [] => rfl
  | st :: rest => by
    simp only [List.map_cons, collect, defOf_renTop]
    cases defOf st with
    | none => simp only [Option.map_none]; exact collect_renTop R rest
    | some e =>
      obtain ⟨f, ps, b⟩ := e
      simp only [Option.map_some, renFT, collect_renTop R rest]

theorem lookup_collect_mem (l : List Stmt) (f : String) (ps : List String) (b : List Stmt)
    (h : (collect l).lookup f = some (ps, b)) : (f, ps, b) ∈ collect l := lookup_mem _ f (ps, b) h

theorem tableOK_of_modOK (R : RenTable) (m : Module) (h : modOK R m = true) : TableOK R (collect m.body) := by
  intro f ps b hl
  unfold modOK at h
  rw [List.all_eq_true] at h
  exact h (f, ps, b) (lookup_collect_mem m.body f ps b hl)

theorem observe_rel (r r' : Res Flow) (h : ResRel (Rel id (fun _ => true)) r r') (fb : St) : observe r' fb = observe r fb := by
  cases r with
  | ok fl =>
    cases r' with
    | ok fl' =>
      cases fl with
      | normal s1 => cases fl' <;> first | (simp only [observe, h.globals, h.out, h.imports]) | exact h.elim
      | returned v s1 => cases fl' <;> first | (simp only [observe, h.2.globals, h.2.out, h.2.imports]) | exact h.elim
      | broke s1 => cases fl' <;> first | (simp only [observe, h.globals, h.out, h.imports]) | exact h.elim
      | continued s1 => cases fl' <;> first | (simp only [observe, h.globals, h.out, h.imports]) | exact h.elim
    | _ => exact h.elim
  | raised x s1 =>
    cases r' with
    | raised x' s1' => obtain ⟨hx, hr⟩ := h; subst hx; simp only [observe, hr.globals, hr.out, hr.imports]
    | _ => exact h.elim
  | stuck => cases r' <;> first | rfl | exact h.elim
  | timeout => cases r' <;> first | rfl | exact h.elim

/-- T01.13: a module whose functions had their local names renamed (each function with its own renaming, parameters
    copied at the start of the body) behaves like the original: same printed lines, same ending, same globals, same
    import events — for every fuel — provided the renaming satisfies the checkable condition `modOK`. -/
theorem run_renModule (R : RenTable) (m : Module) (h : modOK R m = true) (n : Nat) : run n (renModule R m) = run n m := by
  unfold run renModule
  simp only
  rw [collect_renTop]
  exact observe_rel _ _ (execTop_ren R (collect m.body) (tableOK_of_modOK R m h) n m.body St.init St.init (rel_id_refl _)) St.init

theorem runO_renModule (R : RenTable) (m : Module) (h : modOK R m = true) (n : Nat) : runO n (renModule R m) = runO n m := by
  unfold runO renModule
  simp only
  rw [collect_renTop]
  exact observe_rel _ _ (execTop_ren R (collect m.body) (tableOK_of_modOK R m h) n m.body St.init St.init (rel_id_refl _)) St.init

end PMV.PyCore

import PMV.Model.Taint
import PMV.Proofs.Resolve
namespace PMV.Taint
open PMV.Resolve

/-- a module is tainted by names exactly when some lookup of a trigger name finds no binding on Python's lookup path: the name
    then means the builtin -/
theorem taintedByNames_iff (t : Tree) (fuel : Nat) (lookups : List Lookup) :
    taintedByNames t fuel lookups = true ↔
      ∃ l ∈ lookups, l.1 ∈ triggers ∧ ∀ a ∈ lookupPath t l.1 fuel l.2, (info t a).bindings.contains l.1 = false := by
  unfold taintedByNames taintsBy
  rw [List.any_eq_true]
  constructor
  · rintro ⟨l, hl, hc⟩
    simp only [Bool.and_eq_true, List.contains_eq_mem, decide_eq_true_eq, Option.isNone_iff_eq_none] at hc
    refine ⟨l, hl, hc.1, ?_⟩
    have := hc.2
    rw [getBinding_spec] at this
    unfold resolveSpec at this
    intro a ha
    have h := List.find?_eq_none.mp this a ha
    simpa using h
  · rintro ⟨l, hl, ht, hn⟩
    refine ⟨l, hl, ?_⟩
    simp only [Bool.and_eq_true, List.contains_eq_mem, decide_eq_true_eq, Option.isNone_iff_eq_none]
    refine ⟨ht, ?_⟩
    rw [getBinding_spec]
    unfold resolveSpec
    apply List.find?_eq_none.mpr
    intro a ha
    have := hn a ha
    simpa using this

/-- a trigger name bound in a scope the use can see is not the builtin: no taint from that lookup -/
theorem bound_trigger_does_not_taint (t : Tree) (fuel : Nat) (l : Lookup) (a : Nat)
    (ha : a ∈ lookupPath t l.1 fuel l.2) (hb : (info t a).bindings.contains l.1 = true) : taintsBy t fuel l = false := by
  unfold taintsBy
  rw [getBinding_spec]
  unfold resolveSpec
  cases hf : (lookupPath t l.1 fuel l.2).find? fun a => (info t a).bindings.contains l.1 with
  | some _ => simp
  | none =>
    have := List.find?_eq_none.mp hf a ha
    exact absurd hb (by simpa using this)

end PMV.Taint

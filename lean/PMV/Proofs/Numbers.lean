import PMV.Model.Token
import PMV.Spec.Numbers
namespace PMV.Token
open PMV.Spec.Numbers

def ofDigitsLE (b : Nat) : List Nat → Nat
  | [] => 0
  | d :: ds => d + b * ofDigitsLE b ds

theorem ofDigits_digitsAux (b : Nat) (hb : b ≥ 2) : ∀ (f n : Nat), f > n → ofDigitsLE b (digitsAux b f n) = n := by
  intro f
  induction f with
  | zero => intro n h; omega
  | succ f ih =>
    intro n h
    simp only [digitsAux]
    split
    · simp [ofDigitsLE]
    · rename_i hn
      have hdiv : n / b < n := Nat.div_lt_self (by omega) (by omega)
      simp only [ofDigitsLE, ih (n / b) (by omega)]
      exact Nat.mod_add_div n b

theorem digitsAux_lt (b : Nat) (hb : b ≥ 2) : ∀ (f n : Nat), ∀ d ∈ digitsAux b f n, d < b := by
  intro f
  induction f with
  | zero => intro n d h; simp [digitsAux] at h
  | succ f ih =>
    intro n d h
    simp only [digitsAux] at h
    split at h
    · simp at h; omega
    · simp only [List.mem_cons] at h
      rcases h with h | h
      · subst h; exact Nat.mod_lt _ (by omega)
      · exact ih _ d h

theorem digitsAux_ne_nil (b : Nat) (f n : Nat) (h : f > 0) : digitsAux b f n ≠ [] := by
  cases f with
  | zero => omega
  | succ f => simp only [digitsAux]; split <;> simp

theorem charVal_digitChar (d : Nat) (h : d < 16) : charVal (digitChar d) = some d := by
  have : d = 0 ∨ d = 1 ∨ d = 2 ∨ d = 3 ∨ d = 4 ∨ d = 5 ∨ d = 6 ∨ d = 7 ∨ d = 8 ∨ d = 9 ∨ d = 10 ∨ d = 11
      ∨ d = 12 ∨ d = 13 ∨ d = 14 ∨ d = 15 := by omega
  rcases this with h | h | h | h | h | h | h | h | h | h | h | h | h | h | h | h <;> subst h <;> decide

/-- big-endian evaluation of the reversed little-endian digit list. -/
theorem digitsValue_reverse (b : Nat) (hb16 : b ≤ 16) (ds : List Nat) (hd : ∀ d ∈ ds, d < b) (acc : Nat) :
    (ds.reverse.map digitChar).foldl (fun acc c => do
        let a ← acc
        let d ← charVal c
        if d < b then some (a * b + d) else none) (some acc)
      = some (acc * b ^ ds.length + ofDigitsLE b ds) := by
  induction ds generalizing acc with
  | nil => simp [ofDigitsLE]
  | cons d ds ih =>
    have hdb : d < b := hd d (by simp)
    have := ih (fun x hx => hd x (by simp [hx])) acc
    simp only [List.reverse_cons, List.map_append, List.foldl_append, this, List.map_cons, List.map_nil,
      List.foldl_cons, List.foldl_nil]
    simp only [charVal_digitChar d (by omega), ofDigitsLE, List.length_cons, bind, Option.bind, hdb, if_true]
    congr 1
    rw [Nat.pow_succ, Nat.add_mul, Nat.mul_assoc, Nat.mul_comm (ofDigitsLE b ds) b]
    omega

theorem digitsValue_hex (n : Nat) : digitsValue 16 (hexDigits n) = some n := by
  unfold digitsValue hexDigits digitsLE
  rw [digitsValue_reverse 16 (by omega) _ (digitsAux_lt 16 (by omega) _ _) 0]
  simp [ofDigits_digitsAux 16 (by omega) (n + 1) n (by omega)]

theorem digitsValue_dec (n : Nat) : digitsValue 10 (decDigits n) = some n := by
  unfold digitsValue decDigits digitsLE
  rw [digitsValue_reverse 10 (by omega) _ (digitsAux_lt 10 (by omega) _ _) 0]
  simp [ofDigits_digitsAux 10 (by omega) (n + 1) n (by omega)]

end PMV.Token

namespace PMV.Token
open PMV.Spec.Numbers

theorem digitChar_ne_x (d : Nat) (h : d < 10) : digitChar d ≠ 'x' := by
  have : d = 0 ∨ d = 1 ∨ d = 2 ∨ d = 3 ∨ d = 4 ∨ d = 5 ∨ d = 6 ∨ d = 7 ∨ d = 8 ∨ d = 9 := by omega
  rcases this with h | h | h | h | h | h | h | h | h | h <;> subst h <;> decide

theorem decDigits_ne_nil (n : Nat) : decDigits n ≠ [] := by
  unfold decDigits digitsLE
  simp only [ne_eq, List.map_eq_nil_iff, List.reverse_eq_nil_iff]
  exact digitsAux_ne_nil 10 (n + 1) n (by omega)

theorem hexDigits_ne_nil (n : Nat) : hexDigits n ≠ [] := by
  unfold hexDigits digitsLE
  simp only [ne_eq, List.map_eq_nil_iff, List.reverse_eq_nil_iff]
  exact digitsAux_ne_nil 16 (n + 1) n (by omega)

theorem decDigits_all (n : Nat) : ∀ c ∈ decDigits n, c ≠ 'x' := by
  intro c hc
  unfold decDigits digitsLE at hc
  simp only [List.mem_map, List.mem_reverse] at hc
  obtain ⟨d, hd, rfl⟩ := hc
  exact digitChar_ne_x d (digitsAux_lt 10 (by omega) _ _ d hd)

theorem litValue_dec (n : Nat) : litValue (decDigits n) = some n := by
  have hne := decDigits_ne_nil n
  have hall := decDigits_all n
  have hv := digitsValue_dec n
  match hd : decDigits n with
  | [] => exact absurd hd hne
  | [c] => rw [hd] at hv; simpa [litValue] using hv
  | c :: c2 :: rest =>
    rw [hd] at hv hall
    have hx : c2 ≠ 'x' := hall c2 (by simp)
    unfold litValue
    split
    · rename_i heq; cases heq; exact absurd rfl hx
    · rename_i heq; cases heq
    · exact hv

theorem litValue_hex (n : Nat) : litValue ('0' :: 'x' :: hexDigits n) = some n := by
  have hne := hexDigits_ne_nil n
  simp only [litValue]
  cases h : hexDigits n with
  | nil => exact absurd h hne
  | cons c cs => rw [← h]; simpa [h] using digitsValue_hex n

/-- T02.6 (integers): the text printed for a non-negative integer denotes that integer, whichever
    of the decimal and hexadecimal spellings is chosen. -/
theorem litValue_natChars (n : Nat) : litValue (natChars n) = some n := by
  unfold natChars
  simp only
  split
  · exact litValue_hex n
  · split
    · exact litValue_hex n
    · exact litValue_dec n

end PMV.Token

import PMV.Model.TaintSyntax
/-
  The import part of taint detection looks at every statement of the module: `taintedByImports m` holds exactly when some
  statement, at any depth, is an import with a tainting alias.
-/
namespace PMV.TaintSyntax
open PMV

mutual
theorem taintS_spec : (st : Stmt) → taintS st = (subS st).any stmtTaints
  | .functionDef _ _ _ body _ _ _ => by simp only [taintS, subS, List.any_cons, stmtTaints, Bool.false_or, taintL_spec body]
  | .classDef _ _ _ body _ _ => by simp only [taintS, subS, List.any_cons, stmtTaints, Bool.false_or, taintL_spec body]
  | .for_ _ _ _ body orelse => by
    simp only [taintS, subS, List.any_cons, List.any_append, stmtTaints, Bool.false_or, taintL_spec body, taintL_spec orelse]
  | .while_ _ body orelse => by
    simp only [taintS, subS, List.any_cons, List.any_append, stmtTaints, Bool.false_or, taintL_spec body, taintL_spec orelse]
  | .if_ _ body orelse => by
    simp only [taintS, subS, List.any_cons, List.any_append, stmtTaints, Bool.false_or, taintL_spec body, taintL_spec orelse]
  | .with_ _ _ body => by simp only [taintS, subS, List.any_cons, stmtTaints, Bool.false_or, taintL_spec body]
  | .match_ _ cases => by simp only [taintS, subS, List.any_cons, stmtTaints, Bool.false_or, taintC_spec cases]
  | .try_ _ body hs orelse fin => by
    simp only [taintS, subS, List.any_cons, List.any_append, stmtTaints, Bool.false_or, taintL_spec body, taintH_spec hs,
      taintL_spec orelse, taintL_spec fin]
  | .import_ names => by simp only [taintS, subS, List.any_cons, List.any_nil, stmtTaints, Bool.or_false]
  | .importFrom _ names _ => by simp only [taintS, subS, List.any_cons, List.any_nil, stmtTaints, Bool.or_false]
  | .return_ _ => by simp [taintS, subS, stmtTaints]
  | .delete _ => by simp [taintS, subS, stmtTaints]
  | .assign _ _ => by simp [taintS, subS, stmtTaints]
  | .typeAlias _ _ _ => by simp [taintS, subS, stmtTaints]
  | .augAssign _ _ _ => by simp [taintS, subS, stmtTaints]
  | .annAssign _ _ _ _ => by simp [taintS, subS, stmtTaints]
  | .raise_ _ _ => by simp [taintS, subS, stmtTaints]
  | .assert_ _ _ => by simp [taintS, subS, stmtTaints]
  | .global _ => by simp [taintS, subS, stmtTaints]
  | .nonlocal _ => by simp [taintS, subS, stmtTaints]
  | .expr _ => by simp [taintS, subS, stmtTaints]
  | .pass => by simp [taintS, subS, stmtTaints]
  | .break_ => by simp [taintS, subS, stmtTaints]
  | .continue_ => by simp [taintS, subS, stmtTaints]
theorem taintL_spec : (ss : List Stmt) → taintL ss = (subL ss).any stmtTaints
  | [] => by simp [taintL, subL]
  | s :: ss => by simp only [taintL, subL, List.any_append, taintS_spec s, taintL_spec ss]
theorem taintH_spec : (hs : List Handler) → taintH hs = (subH hs).any stmtTaints
  | [] => by simp [taintH, subH]
  | .mk _ _ body :: hs => by simp only [taintH, subH, List.any_append, taintL_spec body, taintH_spec hs]
theorem taintC_spec : (cs : List MatchCase) → taintC cs = (subC cs).any stmtTaints
  | [] => by simp [taintC, subC]
  | .mk _ _ body :: cs => by simp only [taintC, subC, List.any_append, taintL_spec body, taintC_spec cs]
end

theorem isOnlyDeclared_spec (refs : List RefKind) :
    isOnlyDeclared refs = true ↔ (∀ r ∈ refs, r ≠ .other) ∧ .globalDecl ∈ refs := by
  unfold isOnlyDeclared
  simp only [Bool.and_eq_true, List.all_eq_true, List.any_eq_true, Bool.or_eq_true, beq_iff_eq]
  constructor
  · rintro ⟨h1, r, hr, rfl⟩
    refine ⟨fun r hr => ?_, hr⟩
    rcases h1 r hr with h | h <;> simp [h]
  · rintro ⟨h1, h2⟩
    refine ⟨fun r hr => ?_, .globalDecl, h2, rfl⟩
    have := h1 r hr
    cases r <;> simp at this ⊢

end PMV.TaintSyntax

import PMV.Proofs.Layout4
import PMV.Proofs.LayoutSim
/-
  T02.4: the statement printer's token stream lays out as the specification says — for every statement tree.
-/
namespace PMV.Spec.Layout
open PMV PMV.Token PMV.Printer

theorem okS_simple {t : PrecTable} {st : StmtTable} {s : Stmt} (hc : isCompoundSyn s = false) (h : okS t st s = true) :
    nlay (simpleToks t st s) = true ∧ (simpleToks t st s).isEmpty = false := by
  cases s <;> simp [isCompoundSyn] at hc <;> simpa [okS] using h

theorem emitS_simple (t : PrecTable) (st : StmtTable) (s : Stmt) (hc : isCompoundSyn s = false) (el : Bool) (d : Nat) :
    emitS t st el d s = T (simpleToks t st s) := by
  cases s <;> simp [isCompoundSyn] at hc <;> simp [emitS]

theorem lay_simple (t : PrecTable) (st : StmtTable) (s : Stmt) (hc : isCompoundSyn s = false) (h : okS t st s = true) : ClaimS t st s :=
  claimS_simple t st s hc (okS_simple hc h).1 (okS_simple hc h).2 (emitS_simple t st s hc)

mutual
theorem stmt_lay (t : PrecTable) (st : StmtTable) (hT : TableOK st) : (s0 : Stmt) → okS t st s0 = true → ClaimS t st s0
  | .functionDef a n args body decs r tps, h => by
    simp only [okS, Bool.and_eq_true] at h
    exact lay_functionDef t st hT a n args body decs r tps h.1.1 h.1.2 (body_lay t st hT body h.2)
  | .classDef n bases kws body decs tps, h => by
    simp only [okS, Bool.and_eq_true] at h
    exact lay_classDef t st hT n bases kws body decs tps h.1.1 h.1.2 (body_lay t st hT body h.2)
  | .for_ a tg it body orelse, h => by
    simp only [okS, Bool.and_eq_true] at h
    exact lay_for t st hT a tg it body orelse h.1.1 (body_lay t st hT body h.1.2) (body_lay t st hT orelse h.2)
  | .while_ c body orelse, h => by
    simp only [okS, Bool.and_eq_true] at h
    exact lay_while t st hT c body orelse h.1.1 (body_lay t st hT body h.1.2) (body_lay t st hT orelse h.2)
  | .if_ c body orelse, h => by
    simp only [okS, Bool.and_eq_true] at h
    exact lay_if t st hT c body orelse h.1.1 (body_lay t st hT body h.1.2) (body_lay t st hT orelse h.2)
  | .with_ a items body, h => by
    simp only [okS, Bool.and_eq_true] at h
    exact lay_with t st hT a items body h.1 (body_lay t st hT body h.2)
  | .match_ subj cases, h => by
    simp only [okS, Bool.and_eq_true] at h
    exact lay_match t st hT subj cases h.1 (cases_lay t st hT cases h.2)
  | .try_ star body hs orelse fin, h => by
    simp only [okS, Bool.and_eq_true] at h
    exact lay_try t st hT star body hs orelse fin (body_lay t st hT body h.1.1.1) (handlers_lay t st hT star hs h.1.1.2)
      (body_lay t st hT orelse h.1.2) (body_lay t st hT fin h.2)
  | .return_ v, h => lay_simple t st _ rfl h
  | .delete ts, h => lay_simple t st _ rfl h
  | .assign ts v, h => lay_simple t st _ rfl h
  | .typeAlias n tps v, h => lay_simple t st _ rfl h
  | .augAssign tg op v, h => lay_simple t st _ rfl h
  | .annAssign tg ann v sm, h => lay_simple t st _ rfl h
  | .raise_ e c, h => lay_simple t st _ rfl h
  | .assert_ c m, h => lay_simple t st _ rfl h
  | .import_ ns, h => lay_simple t st _ rfl h
  | .importFrom m ns l, h => lay_simple t st _ rfl h
  | .global ns, h => lay_simple t st _ rfl h
  | .nonlocal ns, h => lay_simple t st _ rfl h
  | .expr v, h => lay_simple t st _ rfl h
  | .pass, h => lay_simple t st _ rfl h
  | .break_, h => lay_simple t st _ rfl h
  | .continue_, h => lay_simple t st _ rfl h
theorem body_lay (t : PrecTable) (st : StmtTable) (hT : TableOK st) : (l : List Stmt) → okL t st l = true → ClaimLS t st l
  | [], _ => claimLS_nil t st
  | s :: ss, h => by
    simp only [okL, Bool.and_eq_true] at h
    exact claimLS_cons t st s ss (stmt_lay t st hT s h.1) (body_lay t st hT ss h.2)
theorem handlers_lay (t : PrecTable) (st : StmtTable) (hT : TableOK st) (star : Bool) : (hs : List Handler) → okH t st star hs = true → ClaimH t st star hs
  | [], _ => claimH_nil t st star
  | .mk ty name body :: hs, h => by
    simp only [okH, Bool.and_eq_true] at h
    exact claimH_cons t st star ty name body hs h.1.1 (suite_of_body t st hT.1 body (body_lay t st hT body h.1.2).1) (handlers_lay t st hT star hs h.2)
theorem cases_lay (t : PrecTable) (st : StmtTable) (hT : TableOK st) : (cs : List MatchCase) → okC t st cs = true → ClaimC t st cs
  | [], _ => fun h => absurd rfl h
  | .mk pat guard body :: cs, h => by
    simp only [okC, Bool.and_eq_true] at h
    exact claimC_cons t st pat guard body cs h.1.1 (suite_of_body t st hT.1 body (body_lay t st hT body h.1.2).1) (cases_lay t st hT cs h.2)
end

/-- the layout machine over the tokens of a module, trailing layout removed -/
def machineLayout (ts : List Tok) : List LT := ((eff ts ⟨[], 0⟩).acc.dropWhile LT.isLay).reverse

/-- T02.4 (layout machine = layout specification), for every module whose header and statement tokens are real tokens -/
theorem module_layout (t : PrecTable) (st : StmtTable) (hT : TableOK st) (m : Module) (hok : okL t st m.body = true) :
    machineLayout (moduleToks t st m) = emitModule t st m := by
  unfold machineLayout moduleToks emitModule
  by_cases hb : m.body = []
  · rw [hb]; rfl
  · have hL := (body_lay t st hT m.body hok).1
    rw [hL.2 ⟨[], 0⟩ hb]
    simp only [List.dropWhile_cons, pendS_isLay, if_true]
    have : commit [] (firstCmp m.body) 0 = [] := rfl
    rw [this, List.append_nil]
    obtain ⟨pre, tok, hpt⟩ := hL.1 hb 0
    rw [hpt]
    simp [List.dropWhile_cons, LT.isLay]

/-! ### the two machines agree (spacing does not influence layout) -/

theorem erase_dropWhile (acc : List LTok) : (acc.dropWhile LTok.isLay).map LTok.erase = (acc.map LTok.erase).dropWhile LT.isLay := by
  induction acc with
  | nil => rfl
  | cons x xs ih => cases x <;> simp [List.dropWhile_cons, LTok.isLay, LT.isLay, LTok.erase, ih]

theorem erase_step (sp : Spacing) (ls : LSt) (tok : Tok) :
    (⟨(lstep sp ls tok).acc.map LTok.erase, (lstep sp ls tok).indent⟩ : L0) = l0step ⟨ls.acc.map LTok.erase, ls.indent⟩ tok := by
  have hnl : ∀ ls : LSt, (⟨(lnewline ls).acc.map LTok.erase, (lnewline ls).indent⟩ : L0) = l0newline ⟨ls.acc.map LTok.erase, ls.indent⟩ := by
    intro ls
    unfold lnewline l0newline
    cases hacc : ls.acc with
    | nil => simp [hacc]
    | cons x xs => simp [hacc, erase_dropWhile, LTok.erase]
  cases tok with
  | newline => exact hnl ls
  | indentInc => rfl
  | indentDec => rfl
  | endStmt =>
    simp only [lstep, l0step]
    by_cases h0 : (ls.indent == 0) = true
    · simp only [h0, if_true]; exact hnl ls
    · simp only [h0, Bool.false_eq_true, if_false]
      cases hacc : ls.acc with
      | nil => rfl
      | cons x xs => cases x <;> rfl
  | ident x => rfl
  | kw x => rfl
  | strLit x => rfl
  | bytesLit x => rfl
  | fstr x => rfl
  | delim x => rfl
  | op x => rfl
  | num x => rfl

theorem erase_run (sp : Spacing) (ts : List Tok) (ls : LSt) :
    (⟨(ts.foldl (lstep sp) ls).acc.map LTok.erase, (ts.foldl (lstep sp) ls).indent⟩ : L0) = eff ts ⟨ls.acc.map LTok.erase, ls.indent⟩ := by
  induction ts generalizing ls with
  | nil => rfl
  | cons x xs ih =>
    rw [List.foldl_cons, ih, eff_cons, ← erase_step]

/-- the layout tokens behind the printed text, spacing decisions forgotten, are the specified layout -/
theorem printed_layout (sp : Spacing) (t : PrecTable) (st : StmtTable) (hT : TableOK st) (m : Module) (hok : okL t st m.body = true) :
    (((lrun sp (moduleToks t st m)).acc.dropWhile LTok.isLay).map LTok.erase).reverse = emitModule t st m := by
  rw [erase_dropWhile, ← module_layout t st hT m hok]
  unfold machineLayout lrun
  have := erase_run sp (moduleToks t st m) LSt.init
  have h2 : (List.foldl (lstep sp) LSt.init (moduleToks t st m)).acc.map LTok.erase = (eff (moduleToks t st m) ⟨[], 0⟩).acc := by
    have := congrArg L0.acc this
    simpa [LSt.init] using this
  rw [h2]

end PMV.Spec.Layout

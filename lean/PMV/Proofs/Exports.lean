import PMV.Model.Exports
/-
  `find__all__` computes exactly the exported names: a string is in the result iff some simple statement that runs
  at module level assigns a list display containing it to `__all__`.
-/
namespace PMV.Exports
open PMV

theorem allS_simple (st : Stmt) (h : isCompound st = false) : allS st = ownNames st := by
  cases st <;> first | rfl | (simp [isCompound] at h)

theorem ownNames_compound (st : Stmt) (h : isCompound st = true) : ownNames st = [] := by
  cases st <;> first | rfl | (simp [isCompound] at h)

/-! soundness: everything the function returns is exported -/

mutual
theorem allS_sound (s : String) : (st : Stmt) → s ∈ allS st →
    ∃ st' v, ReachS st st' ∧ isCompound st' = false ∧ allValue st' = some v ∧ s ∈ listStrings v
  | .functionDef .., h => by simp [allS] at h
  | .classDef .., h => by simp [allS] at h
  | .for_ a tg it body orelse, h => by
    simp only [allS, List.mem_append] at h
    rcases h with h | h
    · obtain ⟨st', v, hr, h1, h2, h3⟩ := allL_sound s body h; exact ⟨st', v, .forBody hr, h1, h2, h3⟩
    · obtain ⟨st', v, hr, h1, h2, h3⟩ := allL_sound s orelse h; exact ⟨st', v, .forElse hr, h1, h2, h3⟩
  | .while_ c body orelse, h => by
    simp only [allS, List.mem_append] at h
    rcases h with h | h
    · obtain ⟨st', v, hr, h1, h2, h3⟩ := allL_sound s body h; exact ⟨st', v, .whileBody hr, h1, h2, h3⟩
    · obtain ⟨st', v, hr, h1, h2, h3⟩ := allL_sound s orelse h; exact ⟨st', v, .whileElse hr, h1, h2, h3⟩
  | .if_ c body orelse, h => by
    simp only [allS, List.mem_append] at h
    rcases h with h | h
    · obtain ⟨st', v, hr, h1, h2, h3⟩ := allL_sound s body h; exact ⟨st', v, .ifBody hr, h1, h2, h3⟩
    · obtain ⟨st', v, hr, h1, h2, h3⟩ := allL_sound s orelse h; exact ⟨st', v, .ifElse hr, h1, h2, h3⟩
  | .with_ a items body, h => by
    simp only [allS] at h
    obtain ⟨st', v, hr, h1, h2, h3⟩ := allL_sound s body h; exact ⟨st', v, .withBody hr, h1, h2, h3⟩
  | .match_ subj cases, h => by
    simp only [allS] at h
    obtain ⟨st', v, hr, h1, h2, h3⟩ := allC_sound s cases h; exact ⟨st', v, .matchCase hr, h1, h2, h3⟩
  | .try_ star body hs orelse fin, h => by
    simp only [allS, List.mem_append] at h
    rcases h with ((h | h) | h) | h
    · obtain ⟨st', v, hr, h1, h2, h3⟩ := allL_sound s body h; exact ⟨st', v, .tryBody hr, h1, h2, h3⟩
    · obtain ⟨st', v, hr, h1, h2, h3⟩ := allH_sound s hs h; exact ⟨st', v, .tryHandler hr, h1, h2, h3⟩
    · obtain ⟨st', v, hr, h1, h2, h3⟩ := allL_sound s orelse h; exact ⟨st', v, .tryElse hr, h1, h2, h3⟩
    · obtain ⟨st', v, hr, h1, h2, h3⟩ := allL_sound s fin h; exact ⟨st', v, .tryFinally hr, h1, h2, h3⟩
  | .return_ v, h => simple_sound s (.return_ v) rfl h
  | .delete ts, h => simple_sound s (.delete ts) rfl h
  | .assign ts v, h => simple_sound s (.assign ts v) rfl h
  | .typeAlias n tps v, h => simple_sound s (.typeAlias n tps v) rfl h
  | .augAssign tg op v, h => simple_sound s (.augAssign tg op v) rfl h
  | .annAssign tg ann v sm, h => simple_sound s (.annAssign tg ann v sm) rfl h
  | .raise_ e c, h => simple_sound s (.raise_ e c) rfl h
  | .assert_ c m, h => simple_sound s (.assert_ c m) rfl h
  | .import_ ns, h => simple_sound s (.import_ ns) rfl h
  | .importFrom m ns l, h => simple_sound s (.importFrom m ns l) rfl h
  | .global ns, h => simple_sound s (.global ns) rfl h
  | .nonlocal ns, h => simple_sound s (.nonlocal ns) rfl h
  | .expr v, h => simple_sound s (.expr v) rfl h
  | .pass, h => simple_sound s .pass rfl h
  | .break_, h => simple_sound s .break_ rfl h
  | .continue_, h => simple_sound s .continue_ rfl h
theorem allL_sound (s : String) : (l : List Stmt) → s ∈ allL l →
    ∃ st' v, ReachL l st' ∧ isCompound st' = false ∧ allValue st' = some v ∧ s ∈ listStrings v
  | [], h => by simp [allL] at h
  | st :: rest, h => by
    simp only [allL, List.mem_append] at h
    rcases h with h | h
    · obtain ⟨st', v, hr, h1, h2, h3⟩ := allS_sound s st h; exact ⟨st', v, .head hr, h1, h2, h3⟩
    · obtain ⟨st', v, hr, h1, h2, h3⟩ := allL_sound s rest h; exact ⟨st', v, .tail hr, h1, h2, h3⟩
theorem allH_sound (s : String) : (hs : List Handler) → s ∈ allH hs →
    ∃ st' v, ReachH hs st' ∧ isCompound st' = false ∧ allValue st' = some v ∧ s ∈ listStrings v
  | [], h => by simp [allH] at h
  | .mk ty nm body :: rest, h => by
    simp only [allH, List.mem_append] at h
    rcases h with h | h
    · obtain ⟨st', v, hr, h1, h2, h3⟩ := allL_sound s body h; exact ⟨st', v, .head hr, h1, h2, h3⟩
    · obtain ⟨st', v, hr, h1, h2, h3⟩ := allH_sound s rest h; exact ⟨st', v, .tail hr, h1, h2, h3⟩
theorem allC_sound (s : String) : (cs : List MatchCase) → s ∈ allC cs →
    ∃ st' v, ReachC cs st' ∧ isCompound st' = false ∧ allValue st' = some v ∧ s ∈ listStrings v
  | [], h => by simp [allC] at h
  | .mk p g body :: rest, h => by
    simp only [allC, List.mem_append] at h
    rcases h with h | h
    · obtain ⟨st', v, hr, h1, h2, h3⟩ := allL_sound s body h; exact ⟨st', v, .head hr, h1, h2, h3⟩
    · obtain ⟨st', v, hr, h1, h2, h3⟩ := allC_sound s rest h; exact ⟨st', v, .tail hr, h1, h2, h3⟩
theorem simple_sound (s : String) (st : Stmt) (hc : isCompound st = false) (h : s ∈ allS st) :
    ∃ st' v, ReachS st st' ∧ isCompound st' = false ∧ allValue st' = some v ∧ s ∈ listStrings v := by
  rw [allS_simple st hc] at h
  unfold ownNames at h
  cases hv : allValue st with
  | none => simp [hv] at h
  | some v => rw [hv] at h; exact ⟨st, v, .here st, hc, hv, h⟩
end


/-! completeness: everything exported is returned -/

mutual
theorem allS_complete (s : String) (st' : Stmt) (v : Expr) (hc : isCompound st' = false) (hv : allValue st' = some v)
    (hs : s ∈ listStrings v) : {st : Stmt} → ReachS st st' → s ∈ allS st
  | _, .here _ => by rw [allS_simple st' hc]; unfold ownNames; rw [hv]; exact hs
  | _, .forBody h => by simp only [allS, List.mem_append]; exact Or.inl (allL_complete s st' v hc hv hs h)
  | _, .forElse h => by simp only [allS, List.mem_append]; exact Or.inr (allL_complete s st' v hc hv hs h)
  | _, .whileBody h => by simp only [allS, List.mem_append]; exact Or.inl (allL_complete s st' v hc hv hs h)
  | _, .whileElse h => by simp only [allS, List.mem_append]; exact Or.inr (allL_complete s st' v hc hv hs h)
  | _, .ifBody h => by simp only [allS, List.mem_append]; exact Or.inl (allL_complete s st' v hc hv hs h)
  | _, .ifElse h => by simp only [allS, List.mem_append]; exact Or.inr (allL_complete s st' v hc hv hs h)
  | _, .withBody h => by simp only [allS]; exact allL_complete s st' v hc hv hs h
  | _, .matchCase h => by simp only [allS]; exact allC_complete s st' v hc hv hs h
  | _, .tryBody h => by simp only [allS, List.mem_append]; exact Or.inl (Or.inl (Or.inl (allL_complete s st' v hc hv hs h)))
  | _, .tryHandler h => by simp only [allS, List.mem_append]; exact Or.inl (Or.inl (Or.inr (allH_complete s st' v hc hv hs h)))
  | _, .tryElse h => by simp only [allS, List.mem_append]; exact Or.inl (Or.inr (allL_complete s st' v hc hv hs h))
  | _, .tryFinally h => by simp only [allS, List.mem_append]; exact Or.inr (allL_complete s st' v hc hv hs h)
theorem allL_complete (s : String) (st' : Stmt) (v : Expr) (hc : isCompound st' = false) (hv : allValue st' = some v)
    (hs : s ∈ listStrings v) : {l : List Stmt} → ReachL l st' → s ∈ allL l
  | _, .head h => by simp only [allL, List.mem_append]; exact Or.inl (allS_complete s st' v hc hv hs h)
  | _, .tail h => by simp only [allL, List.mem_append]; exact Or.inr (allL_complete s st' v hc hv hs h)
theorem allH_complete (s : String) (st' : Stmt) (v : Expr) (hc : isCompound st' = false) (hv : allValue st' = some v)
    (hs : s ∈ listStrings v) : {l : List Handler} → ReachH l st' → s ∈ allH l
  | _, .head h => by simp only [allH, List.mem_append]; exact Or.inl (allL_complete s st' v hc hv hs h)
  | _ :: _, .tail h => by
    rename_i hd rest
    cases hd
    simp only [allH, List.mem_append]; exact Or.inr (allH_complete s st' v hc hv hs h)
theorem allC_complete (s : String) (st' : Stmt) (v : Expr) (hc : isCompound st' = false) (hv : allValue st' = some v)
    (hs : s ∈ listStrings v) : {l : List MatchCase} → ReachC l st' → s ∈ allC l
  | _, .head h => by simp only [allC, List.mem_append]; exact Or.inl (allL_complete s st' v hc hv hs h)
  | _ :: _, .tail h => by
    rename_i hd rest
    cases hd
    simp only [allC, List.mem_append]; exact Or.inr (allC_complete s st' v hc hv hs h)
end

/-- T10.2: `find__all__` returns exactly the exported names -/
theorem findAll_spec (m : Module) (s : String) : s ∈ findAll m ↔ Exported m s := by
  constructor
  · intro h
    obtain ⟨st', v, hr, h1, h2, h3⟩ := allL_sound s m.body h
    exact ⟨st', v, hr, h1, h2, h3⟩
  · rintro ⟨st', v, hr, h1, h2, h3⟩
    exact allL_complete s st' v h1 h2 h3 hr

end PMV.Exports

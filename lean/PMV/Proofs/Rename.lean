import PMV.Model.Rename
/-
  T03.1: the NameAssigner never introduces a clash: two bindings whose reservation scopes share a
  namespace end up with different names whenever at least one of them was renamed.
-/
namespace PMV.Rename

theorem reserve_mono {n m : String} {sc : List Ns} {a : Assigned} {ns : Ns} (h : m ∈ a ns) : m ∈ reserve n sc a ns := by
  unfold reserve; split <;> simp [h]

theorem reserve_mem {n : String} {sc : List Ns} {a : Assigned} {ns : Ns} (h : ns ∈ sc) : n ∈ reserve n sc a ns := by
  unfold reserve; simp [h]

theorem after_mono {a : Assigned} {r : Result} {ns : Ns} {m : String} (h : m ∈ a ns) : m ∈ after a r ns := by
  unfold after
  cases r.final with
  | some n => exact reserve_mono h
  | none => exact h

theorem not_avail_of_mem {a : Assigned} {n : String} {sc : List Ns} {ns : Ns} (h1 : ns ∈ sc) (h2 : n ∈ a ns) :
    avail a n sc = false := by
  unfold avail
  apply Bool.eq_false_iff.mpr
  intro hall
  rw [List.all_eq_true] at hall
  have := hall ns h1
  simp [h2] at this

theorem availableName_avail {names : List String} {pfx : String} {a : Assigned} {sc : List Ns} {n : String}
    (h : availableName names pfx a sc = some n) : avail a n sc = true := by
  unfold availableName at h
  have := List.find?_some h
  simpa using this

theorem availableName_from {names : List String} {pfx : String} {a : Assigned} {sc : List Ns} {n : String}
    (h : availableName names pfx a sc = some n) : ∃ m ∈ names, n = pfx ++ m := by
  unfold availableName at h
  have := List.mem_of_find?_eq_some h
  simp only [List.mem_map] at this
  obtain ⟨m, hm, rfl⟩ := this
  exact ⟨m, hm, rfl⟩

theorem decide1_b (names : List String) (pg : Bool) (a : Assigned) (b : Binding) : (decide1 names pg a b).b = b := by
  unfold decide1
  split
  · split
    · rfl
    · split <;> rfl
  · rfl

/-- what a renamed result looks like -/
theorem decide1_renamed {names : List String} {pg : Bool} {a : Assigned} {b : Binding}
    (h : (decide1 names pg a b).renamed = true) :
    ∃ cand, availableName names (pfxOf b pg) a b.scope = some cand ∧
      (decide1 names pg a b).final = some cand ∧ b.allow = true := by
  unfold decide1 at h ⊢
  by_cases hal : b.allow = true
  · rw [if_pos hal] at h ⊢
    cases hav : availableName names (pfxOf b pg) a b.scope with
    | none => rw [hav] at h; simp at h
    | some cand =>
      rw [hav] at h
      simp only at h ⊢
      by_cases hc : (shouldRename b cand || mustRename a b) = true
      · rw [if_pos hc]; exact ⟨cand, rfl, rfl, hal⟩
      · rw [if_neg hc] at h; simp at h
  · rw [if_neg hal] at h; simp at h

/-- what an unrenamed, non-exhausted result looks like -/
theorem decide1_kept {names : List String} {pg : Bool} {a : Assigned} {b : Binding}
    (h : (decide1 names pg a b).renamed = false) (hx : (decide1 names pg a b).exhausted = false) :
    (decide1 names pg a b).final = b.name ∧ (b.allow = true → mustRename a b = false) := by
  unfold decide1 at h hx ⊢
  by_cases hal : b.allow = true
  · rw [if_pos hal] at h hx ⊢
    cases hav : availableName names (pfxOf b pg) a b.scope with
    | none => rw [hav] at hx; simp at hx
    | some cand =>
      rw [hav] at h
      simp only at h ⊢
      by_cases hc : (shouldRename b cand || mustRename a b) = true
      · rw [if_pos hc] at h; simp at h
      · rw [if_neg hc]
        simp only [Bool.or_eq_true, not_or, Bool.not_eq_true] at hc
        exact ⟨rfl, fun _ => hc.2⟩
  · rw [if_neg hal]
    exact ⟨rfl, fun h' => absurd h' hal⟩

/-- the name of a kept NameBinding is either reserved for it or still free in its scope -/
theorem mustRename_false {a : Assigned} {b : Binding} {o : String} (hk : b.kind ≠ .hoisted) (hn : b.name = some o)
    (h : mustRename a b = false) : b.reserved = some o ∨ avail a o b.scope = true := by
  unfold mustRename at h
  cases hkind : b.kind with
  | hoisted => exact absurd hkind hk
  | name =>
    simp only [hkind, hn] at h
    by_cases hr : b.reserved = some o
    · exact Or.inl hr
    · right
      have : (b.reserved == some o) = false := by simpa using hr
      simpa [this] using h
  | builtin =>
    simp only [hkind, hn] at h
    by_cases hr : b.reserved = some o
    · exact Or.inl hr
    · right
      have : (b.reserved == some o) = false := by simpa using hr
      simpa [this] using h

/-! ### invariants of the loop -/

/-- A name recorded in a namespace is never given to a later binding whose scope contains that namespace. -/
theorem later_fresh (names : List String) (pg : Bool) (bs : List Binding) :
    ∀ (a : Assigned) (ns : Ns) (m : String), m ∈ a ns →
      ∀ r ∈ loop names pg a bs, ns ∈ r.b.scope → r.renamed = true → r.final ≠ some m := by
  induction bs with
  | nil => intro a ns m _ r hr; simp [loop] at hr
  | cons b bs ih =>
    intro a ns m hm r hr hns hren
    simp only [loop, List.mem_cons] at hr
    rcases hr with rfl | hr
    · rw [decide1_b] at hns
      obtain ⟨cand, hav, hfin, _⟩ := decide1_renamed hren
      rw [hfin]
      intro heq
      injection heq with heq
      have h1 := availableName_avail hav
      rw [heq, not_avail_of_mem hns hm] at h1
      cases h1
    · exact ih _ ns m (after_mono hm) r hr hns hren

theorem final_recorded (names : List String) (pg : Bool) (a : Assigned) (b : Binding) (n : String) (ns : Ns)
    (h : (decide1 names pg a b).final = some n) (hns : ns ∈ b.scope) :
    n ∈ after a (decide1 names pg a b) ns := by
  unfold after; rw [h]; simp only; rw [decide1_b]; exact reserve_mem hns

/-- earlier binding with a final name vs. later *renamed* binding -/
theorem pairwise_later_renamed (names : List String) (pg : Bool) (bs : List Binding) (a : Assigned) :
    (loop names pg a bs).Pairwise (fun r1 r2 =>
      r2.renamed = true → (∃ ns, ns ∈ r1.b.scope ∧ ns ∈ r2.b.scope) → r1.final.isSome → r1.final ≠ r2.final) := by
  induction bs generalizing a with
  | nil => simp [loop]
  | cons b bs ih =>
    simp only [loop, List.pairwise_cons]
    refine ⟨?_, ih _⟩
    intro r2 hr2 hren ⟨ns, h1, h2⟩ hsome
    rw [decide1_b] at h1
    obtain ⟨n, hn⟩ := Option.isSome_iff_exists.mp hsome
    rw [hn]
    have hrec := final_recorded names pg a b n ns hn h1
    exact (later_fresh names pg bs _ ns n hrec r2 hr2 h2 hren).symm

/-- precondition on the input (decidable; true of what the binder produces): a named binding that may
    not be renamed has its name reserved; hoisted bindings have no name. -/
def WFB (b : Binding) : Bool :=
  (b.kind != .hoisted || b.name.isNone) &&
  (b.allow || b.name.isNone || b.reserved == b.name)

/-- a name recorded in `ns` before the loop stays the final name of no later *kept* binding with `ns`
    in scope, unless it is that binding's own reserved name (in which case it was recorded up-front:
    see `initial_reserved`).  Here: later kept binding vs. a name `n` that became recorded *and* that
    is different from every reserved-up-front name is handled through availability. -/
theorem later_kept (names : List String) (pg : Bool) (bs : List Binding) :
    ∀ (a : Assigned) (ns : Ns) (n : String), n ∈ a ns →
      ∀ r ∈ loop names pg a bs, ns ∈ r.b.scope → r.renamed = false → r.exhausted = false →
        r.b.kind ≠ .hoisted → r.b.allow = true → r.final = some n → r.b.reserved = some n := by
  induction bs with
  | nil => intro a ns n _ r hr; simp [loop] at hr
  | cons b bs ih =>
    intro a ns n hn r hr hns hren hx hk hal hfin
    simp only [loop, List.mem_cons] at hr
    rcases hr with rfl | hr
    · rw [decide1_b] at hns hk hal
      obtain ⟨hf, hm⟩ := decide1_kept hren hx
      rw [hf] at hfin
      rw [decide1_b]
      rcases mustRename_false hk hfin (hm hal) with h | h
      · exact h
      · rw [not_avail_of_mem hns hn] at h; cases h
    · exact ih _ ns n (after_mono hn) r hr hns hren hx hk hal hfin

end PMV.Rename

namespace PMV.Rename

theorem loop_mem_b (names : List String) (pg : Bool) : ∀ (bs : List Binding) (a : Assigned) (r : Result),
    r ∈ loop names pg a bs → r.b ∈ bs := by
  intro bs
  induction bs with
  | nil => intro a r h; simp [loop] at h
  | cons b bs ih =>
    intro a r h
    simp only [loop, List.mem_cons] at h
    rcases h with rfl | h
    · rw [decide1_b]; exact List.mem_cons_self
    · exact List.mem_cons_of_mem _ (ih _ r h)

/-- every reserved name of a binding still to be processed is recorded throughout its scope -/
def ReservedRecorded (a : Assigned) (bs : List Binding) : Prop :=
  ∀ b ∈ bs, ∀ r, b.reserved = some r → ∀ ns ∈ b.scope, r ∈ a ns

theorem reservedRecorded_after {a : Assigned} {b : Binding} {bs : List Binding} (r : Result)
    (h : ReservedRecorded a (b :: bs)) : ReservedRecorded (after a r) bs :=
  fun c hc rn hr ns hns => after_mono (h c (List.mem_cons_of_mem _ hc) rn hr ns hns)

/-- The loop never introduces a clash (any start state that records the reserved names). -/
theorem loop_no_new_clash (names : List String) (pg : Bool) (bs : List Binding) (a : Assigned)
    (hwf : ∀ b ∈ bs, WFB b = true) (hrec : ReservedRecorded a bs) :
    (loop names pg a bs).Pairwise (fun r1 r2 =>
      (r1.renamed = true ∨ r2.renamed = true) → r1.exhausted = false → r2.exhausted = false →
      (∃ ns, ns ∈ r1.b.scope ∧ ns ∈ r2.b.scope) → r1.final.isSome → r1.final ≠ r2.final) := by
  induction bs generalizing a with
  | nil => simp [loop]
  | cons b bs ih =>
    simp only [loop, List.pairwise_cons]
    refine ⟨?_, ih _ (fun c hc => hwf c (List.mem_cons_of_mem _ hc)) (reservedRecorded_after _ hrec)⟩
    intro r2 hr2 hor hx1 hx2 ⟨ns, h1, h2⟩ hsome
    obtain ⟨n, hn⟩ := Option.isSome_iff_exists.mp hsome
    rw [decide1_b] at h1
    have hrecd := final_recorded names pg a b n ns hn h1
    by_cases hren2 : r2.renamed = true
    · rw [hn]; exact (later_fresh names pg bs _ ns n hrecd r2 hr2 h2 hren2).symm
    · -- r2 kept its name, so r1 was renamed to n, a name that was free in r1's scope
      have hren1 : (decide1 names pg a b).renamed = true := by
        rcases hor with h | h
        · exact h
        · exact absurd h hren2
      obtain ⟨cand, hav, hfin, _⟩ := decide1_renamed hren1
      rw [hfin] at hn
      injection hn with hn
      subst hn
      have havail := availableName_avail hav
      have hr2mem : r2.b ∈ bs := loop_mem_b names pg bs _ r2 hr2
      have hwf2 := hwf r2.b (List.mem_cons_of_mem _ hr2mem)
      simp only [WFB, Bool.and_eq_true, Bool.or_eq_true, bne_iff_ne, ne_eq, beq_iff_eq] at hwf2
      have hren2' : r2.renamed = false := by simpa using hren2
      rw [hfin]
      intro heq
      -- the reserved name of r2.b is recorded in `a` throughout its scope; cand is free in b.scope ∋ ns
      have key : r2.b.reserved = some cand := by
        by_cases hk : r2.b.kind = .hoisted
        · -- hoisted bindings have no name, and an unrenamed result keeps the (absent) name
          have hnone : r2.b.name.isNone = true := by
            rcases hwf2.1 with h | h
            · exact absurd hk h
            · exact h
          exfalso
          -- r2.final = r2.b.name for kept results; derive it from the loop structure
          have : ∀ (l : List Binding) (a' : Assigned) (r : Result), r ∈ loop names pg a' l → r.renamed = false →
              r.exhausted = false → r.final = r.b.name := by
            intro l
            induction l with
            | nil => intro a' r h; simp [loop] at h
            | cons c cs ihc =>
              intro a' r h hr hx
              simp only [loop, List.mem_cons] at h
              rcases h with rfl | h
              · rw [decide1_b]; exact (decide1_kept hr hx).1
              · exact ihc _ r h hr hx
          have hf := this bs _ r2 hr2 hren2' hx2
          rw [← heq] at hf
          rw [← hf] at hnone
          simp at hnone
        · by_cases hal : r2.b.allow = true
          · exact later_kept names pg bs _ ns cand hrecd r2 hr2 h2 hren2' hx2 hk hal heq.symm
          · -- pinned: reserved == name, and an unrenamed result keeps its name
            have : ∀ (l : List Binding) (a' : Assigned) (r : Result), r ∈ loop names pg a' l → r.renamed = false →
                r.exhausted = false → r.final = r.b.name := by
              intro l
              induction l with
              | nil => intro a' r h; simp [loop] at h
              | cons c cs ihc =>
                intro a' r h hr hx
                simp only [loop, List.mem_cons] at h
                rcases h with rfl | h
                · rw [decide1_b]; exact (decide1_kept hr hx).1
                · exact ihc _ r h hr hx
            have hf := this bs _ r2 hr2 hren2' hx2
            rw [← heq] at hf
            rcases hwf2.2 with (h | h) | h
            · exact absurd h hal
            · rw [← hf] at h; simp at h
            · rw [h]; exact hf.symm
      have hin := hrec r2.b (List.mem_cons_of_mem _ hr2mem) cand key ns h2
      rw [not_avail_of_mem h1 hin] at havail
      cases havail

theorem foldl_reserve_mono (l : List Binding) (a : Assigned) (ns : Ns) (m : String) (h : m ∈ a ns) :
    m ∈ (l.foldl (fun a b => match b.reserved with | some r => reserve r b.scope a | none => a) a) ns := by
  induction l generalizing a with
  | nil => exact h
  | cons c cs ih =>
    simp only [List.foldl_cons]
    apply ih
    cases c.reserved with
    | none => exact h
    | some r => exact reserve_mono h

theorem foldl_reserve_mem (l : List Binding) (a : Assigned) (b : Binding) (hb : b ∈ l) (r : String)
    (hr : b.reserved = some r) (ns : Ns) (hns : ns ∈ b.scope) :
    r ∈ (l.foldl (fun a b => match b.reserved with | some r => reserve r b.scope a | none => a) a) ns := by
  induction l generalizing a with
  | nil => simp at hb
  | cons c cs ih =>
    simp only [List.foldl_cons]
    rcases List.mem_cons.mp hb with rfl | hb
    · apply foldl_reserve_mono
      rw [hr]; exact reserve_mem hns
    · exact ih _ hb

theorem foldl_globals_mono (l : List String) (moduleNs : Ns) (a : Assigned) (ns : Ns) (m : String) (h : m ∈ a ns) :
    m ∈ (l.foldl (fun a n => reserve n [moduleNs] a) a) ns := by
  induction l generalizing a with
  | nil => exact h
  | cons c cs ih => simp only [List.foldl_cons]; exact ih _ (reserve_mono h)

/-- the reservations made before the loop record every reserved name throughout its binding's scope -/
theorem initial_reserved (bindings : List Binding) (moduleNs : Ns) (rg : List String) :
    ReservedRecorded (initial bindings moduleNs rg) bindings := by
  intro b hb r hr ns hns
  unfold initial
  exact foldl_globals_mono rg moduleNs _ ns r (foldl_reserve_mem bindings _ b hb r hr ns hns)

/-- T03.1 for the whole assigner, in processing order (which covers every unordered pair). -/
theorem assign_no_new_clash (names : List String) (pg : Bool) (moduleNs : Ns) (rg : List String)
    (bindings : List Binding) (hwf : ∀ b ∈ bindings, WFB b = true) :
    (assign names pg moduleNs rg bindings).Pairwise (fun r1 r2 =>
      (r1.renamed = true ∨ r2.renamed = true) → r1.exhausted = false → r2.exhausted = false →
      (∃ ns, ns ∈ r1.b.scope ∧ ns ∈ r2.b.scope) → r1.final.isSome → r1.final ≠ r2.final) := by
  unfold assign
  have hperm : ∀ b, b ∈ sortBindings bindings ↔ b ∈ bindings := fun b => by
    unfold sortBindings; exact (List.mergeSort_perm _ _).mem_iff
  apply loop_no_new_clash
  · intro b hb; exact hwf b ((hperm b).mp hb)
  · intro b hb r hr ns hns
    exact initial_reserved bindings moduleNs rg b ((hperm b).mp hb) r hr ns hns

/-- a renamed binding gets a name of the generator table (with the module prefix when requested) -/
theorem renamed_from_table (names : List String) (pg : Bool) : ∀ (bs : List Binding) (a : Assigned) (r : Result),
    r ∈ loop names pg a bs → r.renamed = true → ∃ m ∈ names, r.final = some (pfxOf r.b pg ++ m) := by
  intro bs
  induction bs with
  | nil => intro a r h; simp [loop] at h
  | cons b bs ih =>
    intro a r h hren
    simp only [loop, List.mem_cons] at h
    rcases h with rfl | h
    · obtain ⟨cand, hav, hfin, _⟩ := decide1_renamed hren
      obtain ⟨m, hm, rfl⟩ := availableName_from hav
      rw [decide1_b]
      exact ⟨m, hm, hfin⟩
    · exact ih _ r h hren

/-- a binding that may not be renamed keeps its name -/
theorem pinned_kept (names : List String) (pg : Bool) : ∀ (bs : List Binding) (a : Assigned) (r : Result),
    r ∈ loop names pg a bs → r.b.allow = false → r.final = r.b.name ∧ r.renamed = false := by
  intro bs
  induction bs with
  | nil => intro a r h; simp [loop] at h
  | cons b bs ih =>
    intro a r h hal
    simp only [loop, List.mem_cons] at h
    rcases h with rfl | h
    · rw [decide1_b] at hal ⊢
      unfold decide1
      simp [hal]
    · exact ih _ r h hal

end PMV.Rename

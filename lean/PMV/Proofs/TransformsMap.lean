import PMV.Proofs.Transforms
/-
  C05, statement-mapping transforms: a transformer that rewrites single statements (`stmtF`) and function bodies
  (`funcBodyF`) in ways the canonical form absorbs leaves the canonical form of the module unchanged.
  Instances: remove_object_base, remove_explicit_return_none.
-/
namespace PMV.Transforms
open PMV PMV.Spec.Rewrites

/-- a transformer that does not filter suites -/
def mapT (f : Stmt → Stmt) (g : List Stmt → List Stmt) : SuiteT := { suiteF := fun _ b => b, stmtF := f, funcBodyF := g }

@[simp] theorem mapT_suiteF (f : Stmt → Stmt) (g : List Stmt → List Stmt) (m : Bool) (b : List Stmt) : (mapT f g).suiteF m b = b := rfl
@[simp] theorem mapT_stmtF (f : Stmt → Stmt) (g : List Stmt → List Stmt) (s : Stmt) : (mapT f g).stmtF s = f s := rfl
@[simp] theorem mapT_funcBodyF (f : Stmt → Stmt) (g : List Stmt → List Stmt) (b : List Stmt) : (mapT f g).funcBodyF b = g b := rfl

section AbsorbMap
variable (c : COpts) (f : Stmt → Stmt) (g : List Stmt → List Stmt)
  (hf : ∀ cls s, cStmt c cls (f s) = cStmt c cls s)
  (hg : ∀ b, cSuite c true (cBody c none (g b)) = cSuite c true (cBody c none b))
include hf hg

mutual
theorem mapAbsorbStmt : (s : Stmt) → (cls : Option (List Expr × List Expr)) →
    cStmt c cls (travStmt (mapT f g) s) = cStmt c cls s
  | .functionDef a n args body decs ret tps, cls => by
    simp only [travStmt, mapT_suiteF, mapT_stmtF, mapT_funcBodyF]
    rw [hf]
    simp only [cStmt]
    rw [hg, mapAbsorbBody body none]
  | .classDef n bases kws body decs tps, cls => by
    simp only [travStmt, mapT_suiteF, mapT_stmtF, mapT_funcBodyF]
    rw [hf]
    simp only [cStmt]
    rw [mapAbsorbBody body _]
  | .for_ a tg it body orelse, cls => by
    simp only [travStmt, mapT_suiteF, mapT_stmtF, mapT_funcBodyF, cStmt]
    rw [mapAbsorbBody body cls]
    cases orelse with
    | nil => simp [cBody]
    | cons o os => simp only [List.isEmpty_cons, Bool.false_eq_true, if_false]; rw [mapAbsorbBody (o :: os) cls]
  | .while_ t body orelse, cls => by
    simp only [travStmt, mapT_suiteF, mapT_stmtF, mapT_funcBodyF, cStmt]
    rw [mapAbsorbBody body cls]
    cases orelse with
    | nil => simp [cBody]
    | cons o os => simp only [List.isEmpty_cons, Bool.false_eq_true, if_false]; rw [mapAbsorbBody (o :: os) cls]
  | .if_ t body orelse, cls => by
    simp only [travStmt, mapT_suiteF, mapT_stmtF, mapT_funcBodyF, cStmt]
    rw [mapAbsorbBody body cls]
    cases orelse with
    | nil => simp [cBody]
    | cons o os => simp only [List.isEmpty_cons, Bool.false_eq_true, if_false]; rw [mapAbsorbBody (o :: os) cls]
  | .with_ a items body, cls => by
    simp only [travStmt, mapT_suiteF, mapT_stmtF, mapT_funcBodyF, cStmt]
    rw [mapAbsorbBody body cls]
  | .try_ false body hs orelse fin, cls => by
    simp only [travStmt, mapT_suiteF, mapT_stmtF, mapT_funcBodyF, cStmt]
    rw [mapAbsorbBody body cls, mapAbsorbHandlers hs cls]
    have ho : cSuite c false (cBody c cls (if orelse.isEmpty then [] else travBody (mapT f g) orelse)) = cSuite c false (cBody c cls orelse) := by
      cases orelse with
      | nil => simp [cBody]
      | cons o os => simp only [List.isEmpty_cons, Bool.false_eq_true, if_false]; rw [mapAbsorbBody (o :: os) cls]
    have hfin : cSuite c false (cBody c cls (if fin.isEmpty then [] else travBody (mapT f g) fin)) = cSuite c false (cBody c cls fin) := by
      cases fin with
      | nil => simp [cBody]
      | cons o os => simp only [List.isEmpty_cons, Bool.false_eq_true, if_false]; rw [mapAbsorbBody (o :: os) cls]
    rw [ho, hfin]
  | .try_ true body hs orelse fin, cls => by
    simp only [travStmt, cStmt]
    rw [mapAbsorbBody body cls, mapAbsorbHandlers hs cls, mapAbsorbBody orelse cls, mapAbsorbBody fin cls]
  | .match_ s cases, cls => by
    simp only [travStmt, cStmt]
    rw [mapAbsorbCases cases cls]
  | .return_ v, cls => by simp only [travStmt, mapT_stmtF]; exact hf cls _
  | .delete ts, cls => by simp only [travStmt, mapT_stmtF]; exact hf cls _
  | .assign ts v, cls => by simp only [travStmt, mapT_stmtF]; exact hf cls _
  | .typeAlias n tps v, cls => by simp only [travStmt, mapT_stmtF]; exact hf cls _
  | .augAssign tg op v, cls => by simp only [travStmt, mapT_stmtF]; exact hf cls _
  | .annAssign tg ann v s, cls => by simp only [travStmt, mapT_stmtF]; exact hf cls _
  | .raise_ e ca, cls => by simp only [travStmt, mapT_stmtF]; exact hf cls _
  | .assert_ t m, cls => by simp only [travStmt, mapT_stmtF]; exact hf cls _
  | .import_ ns, cls => by simp only [travStmt, mapT_stmtF]; exact hf cls _
  | .importFrom m ns l, cls => by simp only [travStmt, mapT_stmtF]; exact hf cls _
  | .global ns, cls => by simp only [travStmt, mapT_stmtF]; exact hf cls _
  | .nonlocal ns, cls => by simp only [travStmt, mapT_stmtF]; exact hf cls _
  | .expr v, cls => by simp only [travStmt, mapT_stmtF]; exact hf cls _
  | .pass, cls => by simp only [travStmt, mapT_stmtF]; exact hf cls _
  | .break_, cls => by simp only [travStmt, mapT_stmtF]; exact hf cls _
  | .continue_, cls => by simp only [travStmt, mapT_stmtF]; exact hf cls _
theorem mapAbsorbBody : (b : List Stmt) → (cls : Option (List Expr × List Expr)) →
    cBody c cls (travBody (mapT f g) b) = cBody c cls b
  | [], cls => by simp [travBody, cBody]
  | s :: ss, cls => by
    simp only [travBody, cBody]
    rw [mapAbsorbStmt s cls, mapAbsorbBody ss cls]
theorem mapAbsorbHandlers : (hs : List Handler) → (cls : Option (List Expr × List Expr)) →
    cHandlers c cls (travHandlers (mapT f g) hs) = cHandlers c cls hs
  | [], cls => by simp [travHandlers, cHandlers]
  | .mk ty n body :: hs, cls => by
    simp only [travHandlers, cHandlers]
    rw [mapAbsorbBody body cls, mapAbsorbHandlers hs cls]
theorem mapAbsorbCases : (cs : List MatchCase) → (cls : Option (List Expr × List Expr)) →
    cCases c cls (travCases (mapT f g) cs) = cCases c cls cs
  | [], cls => by simp [travCases, cCases]
  | .mk p gd body :: cs, cls => by
    simp only [travCases, cCases]
    rw [mapAbsorbBody body cls, mapAbsorbCases cs cls]
end

end AbsorbMap

/-- module-level absorption for a statement-mapping transform -/
theorem canon_mapT (c : COpts) (f : Stmt → Stmt) (g : List Stmt → List Stmt)
    (hf : ∀ cls s, cStmt c cls (f s) = cStmt c cls s)
    (hg : ∀ b, cSuite c true (cBody c none (g b)) = cSuite c true (cBody c none b))
    (hl : (c.literals && c.keepModuleDoc) = false) (hp : c.posargs = false) (m : Module) :
    canonModule c (travModule (mapT f g) m) = canonModule c m := by
  rw [canonModule_simple c hl hp, canonModule_simple c hl hp]
  simp only [travModule, mapT_suiteF]
  rw [mapAbsorbBody c f g hf hg m.body none]

/-! when no annotation option is on, the class context does not matter -/

def AnnOff (c : COpts) : Prop := c.ann.variables = false ∧ c.ann.classAttrs = false

theorem annAssign_off (c : COpts) (h : AnnOff c) (cls : Option (List Expr × List Expr)) (tg ann : Expr) (v : Option Expr) (s : Bool) :
    annAssign c.ann cls tg ann v s = .annAssign tg ann v s := by
  unfold annAssign annEnabled
  cases cls <;> simp [h.1, h.2]

mutual
theorem cStmt_cls (c : COpts) (h : AnnOff c) : (s : Stmt) → (cls cls' : Option (List Expr × List Expr)) → cStmt c cls s = cStmt c cls' s
  | .functionDef a n args body decs ret tps, cls, cls' => by simp only [cStmt]
  | .classDef n bases kws body decs tps, cls, cls' => by simp only [cStmt]
  | .for_ a tg it body orelse, cls, cls' => by simp only [cStmt]; rw [cBody_cls c h body cls cls', cBody_cls c h orelse cls cls']
  | .while_ t body orelse, cls, cls' => by simp only [cStmt]; rw [cBody_cls c h body cls cls', cBody_cls c h orelse cls cls']
  | .if_ t body orelse, cls, cls' => by simp only [cStmt]; rw [cBody_cls c h body cls cls', cBody_cls c h orelse cls cls']
  | .with_ a items body, cls, cls' => by simp only [cStmt]; rw [cBody_cls c h body cls cls']
  | .try_ st body hs orelse fin, cls, cls' => by
    simp only [cStmt]
    rw [cBody_cls c h body cls cls', cHandlers_cls c h hs cls cls', cBody_cls c h orelse cls cls', cBody_cls c h fin cls cls']
  | .match_ s cases, cls, cls' => by simp only [cStmt]; rw [cCases_cls c h cases cls cls']
  | .annAssign tg ann v s, cls, cls' => by simp only [cStmt, annAssign_off c h]
  | .return_ v, cls, cls' => by simp only [cStmt]
  | .delete ts, cls, cls' => by simp only [cStmt]
  | .assign ts v, cls, cls' => by simp only [cStmt]
  | .typeAlias n tps v, cls, cls' => by simp only [cStmt]
  | .augAssign tg op v, cls, cls' => by simp only [cStmt]
  | .raise_ e ca, cls, cls' => by simp only [cStmt]
  | .assert_ t m, cls, cls' => by simp only [cStmt]
  | .import_ ns, cls, cls' => by simp only [cStmt]
  | .importFrom m ns l, cls, cls' => by simp only [cStmt]
  | .global ns, cls, cls' => by simp only [cStmt]
  | .nonlocal ns, cls, cls' => by simp only [cStmt]
  | .expr v, cls, cls' => by simp only [cStmt]
  | .pass, cls, cls' => by simp only [cStmt]
  | .break_, cls, cls' => by simp only [cStmt]
  | .continue_, cls, cls' => by simp only [cStmt]
theorem cBody_cls (c : COpts) (h : AnnOff c) : (b : List Stmt) → (cls cls' : Option (List Expr × List Expr)) → cBody c cls b = cBody c cls' b
  | [], _, _ => by simp [cBody]
  | s :: ss, cls, cls' => by simp only [cBody]; rw [cStmt_cls c h s cls cls', cBody_cls c h ss cls cls']
theorem cHandlers_cls (c : COpts) (h : AnnOff c) : (hs : List Handler) → (cls cls' : Option (List Expr × List Expr)) → cHandlers c cls hs = cHandlers c cls' hs
  | [], _, _ => by simp [cHandlers]
  | .mk ty n body :: hs, cls, cls' => by simp only [cHandlers]; rw [cBody_cls c h body cls cls', cHandlers_cls c h hs cls cls']
theorem cCases_cls (c : COpts) (h : AnnOff c) : (cs : List MatchCase) → (cls cls' : Option (List Expr × List Expr)) → cCases c cls cs = cCases c cls' cs
  | [], _, _ => by simp [cCases]
  | .mk p g body :: cs, cls, cls' => by simp only [cCases]; rw [cBody_cls c h body cls cls', cCases_cls c h cs cls cls']
end

/-- remove_object_base: output = input modulo dropping `object` from base lists -/
theorem removeObject_canon (m : Module) :
    canonModule { object := true } (travModule removeObject m) = canonModule { object := true } m := by
  have : removeObject = mapT removeObjectStmt id := rfl
  rw [this]
  apply canon_mapT
  · intro cls s
    cases s <;> simp [removeObjectStmt, cStmt, List.filter_filter]
    exact congrArg _ (cBody_cls _ ⟨rfl, rfl⟩ _ _ _)
  · intro b; rfl
  · rfl
  · rfl


/-! ### remove_explicit_return_none -/

theorem cBody_append (c : COpts) (cls : Option (List Expr × List Expr)) (a b : List Stmt) :
    cBody c cls (a ++ b) = cBody c cls a ++ cBody c cls b := by
  induction a with
  | nil => simp [cBody]
  | cons x xs ih => simp [cBody, ih]

theorem dtbr_snoc (l : List Stmt) : dropTrailingBareReturn (l ++ [.return_ none]) = dropTrailingBareReturn l := by
  induction l with
  | nil => simp [dropTrailingBareReturn, isBareReturn]
  | cons x xs ih => simp only [List.cons_append, dropTrailingBareReturn, ih]

def RetOnly : COpts := { returnNone := true }

theorem cSuite_retOnly (fb : Bool) (b : List Stmt) :
    cSuite RetOnly fb b = ((if fb then dropTrailingBareReturn (b.filter (fun s => !isZero s)) else b.filter (fun s => !isZero s))).filter (fun s => !isZero s) := by
  unfold cSuite
  have h1 : b.flatMap (debugSplice RetOnly) = b := by
    rw [show (debugSplice RetOnly) = (fun s => [s]) from funext (debugSplice_id RetOnly rfl)]; exact flatMap_single b
  have h2 : ∀ l : List Stmt, l.flatMap (splitImport RetOnly) = l := fun l => by
    rw [show (splitImport RetOnly) = (fun s => [s]) from funext (splitImport_id RetOnly rfl)]; exact flatMap_single l
  have h3 : (fun s => !dropStmt RetOnly s) = (fun s => !isZero s) := by
    funext s; simp [dropStmt, RetOnly, COpts.placeholders]
  simp only [h1, h2, h3]
  cases fb <;> simp [RetOnly]

theorem getLast_split (b : List Stmt) (x : Stmt) (h : b.getLast? = some x) : b = b.dropLast ++ [x] := by
  have hne : b ≠ [] := by intro e; rw [e] at h; cases h
  have := List.dropLast_concat_getLast hne
  rw [List.getLast?_eq_some_getLast hne] at h
  cases h
  exact this.symm

theorem dtr_ret (p : List Stmt) : dropTrailingReturn (p ++ [.return_ none]) = if p.isEmpty then [zeroStmt] else p := by
  simp [dropTrailingReturn, List.getLast?_append]

theorem dtr_other (b : List Stmt) (h : b.getLast? ≠ some (.return_ none)) : dropTrailingReturn b = if b.isEmpty then [zeroStmt] else b := by
  unfold dropTrailingReturn
  split
  · rename_i heq; exact absurd heq h
  · rfl

theorem returnNone_body (b : List Stmt) :
    cSuite RetOnly true (cBody RetOnly none (dropTrailingReturn b)) = cSuite RetOnly true (cBody RetOnly none b) := by
  have hzero : cSuite RetOnly true (cBody RetOnly none [zeroStmt]) = cSuite RetOnly true (cBody RetOnly none []) := by
    rw [cSuite_retOnly, cSuite_retOnly]
    simp [cBody, cStmt, zeroStmt, cExpr, isZero, dropTrailingBareReturn]
  by_cases hl : b.getLast? = some (.return_ none)
  · have hb := getLast_split b _ hl
    rw [hb, dtr_ret]
    have key : cSuite RetOnly true (cBody RetOnly none (b.dropLast ++ [.return_ none])) = cSuite RetOnly true (cBody RetOnly none b.dropLast) := by
      rw [cBody_append, cSuite_retOnly, cSuite_retOnly]
      simp only [if_true]
      have h1 : cBody RetOnly none [Stmt.return_ none] = [Stmt.return_ none] := by simp [cBody, cStmt]
      rw [h1, List.filter_append]
      have h2 : [Stmt.return_ none].filter (fun s => !isZero s) = [Stmt.return_ none] := by simp [isZero]
      rw [h2, dtbr_snoc]
    rw [key]
    by_cases he : b.dropLast.isEmpty = true
    · have : b.dropLast = [] := by simpa using he
      simp only [he, if_true]
      rw [this]; exact hzero
    · simp [he]
  · rw [dtr_other b hl]
    by_cases he : b.isEmpty = true
    · have : b = [] := by simpa using he
      subst this
      simpa using hzero
    · simp [he]

/-- remove_explicit_return_none: output = input modulo `return None` ≡ `return` and trailing bare returns of functions -/
theorem removeReturnNone_canon (m : Module) :
    canonModule RetOnly (travModule removeReturnNone m) = canonModule RetOnly m := by
  have : removeReturnNone = mapT returnNoneStmt dropTrailingReturn := rfl
  rw [this]
  apply canon_mapT
  · intro cls s
    cases s with
    | return_ v =>
      cases v with
      | none => rfl
      | some e => cases e <;> first | rfl | (rename_i k; cases k <;> simp [returnNoneStmt, cStmt, RetOnly, cExpr])
    | _ => rfl
  · exact returnNone_body
  · rfl
  · rfl

end PMV.Transforms

import PMV.Proofs.LayoutBal2
/-
  Simple statements are bracket-balanced; every line break and `;` of the specified layout is outside all brackets.
-/
namespace PMV.Spec.Layout
open PMV PMV.Token PMV.Printer

theorem tAlias_bal (a : Alias) : Bal (tAlias a) := by
  unfold tAlias
  cases a.asname with
  | none => exact Bal.tok _ (fun _ e => by cases e)
  | some n => exact Bal.ident _ (Bal.kw _ (Bal.ident _ Bal.nil))

theorem aliases_bal (names : List Alias) (f : Alias → List Tok) (hf : ∀ a, Bal (f a)) : Bal (commaSep (names.map f)) := by
  apply commaSep_bal
  induction names with
  | nil => exact BalAll.nil
  | cons a as ih => exact BalAll.cons (hf a) ih

theorem idents_bal (ns : List String) : Bal (commaSep (ns.map fun n => [Tok.ident n])) := by
  apply commaSep_bal
  induction ns with
  | nil => exact BalAll.nil
  | cons a as ih => exact BalAll.cons (Bal.tok _ (fun _ e => by cases e)) ih

theorem targets_bal (t : PrecTable) (ts : List Expr) : Bal (ts.flatMap fun tg => tTestlist t tg ++ [Tok.delim "="]) := by
  induction ts with
  | nil => exact Bal.nil
  | cons a as ih =>
    simp only [List.flatMap_cons]
    exact Bal.append (Bal.append (tTestlist_bal t a) (Bal.eq Bal.nil)) ih

theorem replicate_dot_bal (l : Nat) : Bal (List.replicate l (Tok.delim ".")) := by
  induction l with
  | zero => exact Bal.nil
  | succ k ih => simp only [List.replicate_succ]; exact Bal.dot ih

theorem simpleToks_bal (t : PrecTable) (st : StmtTable) (s : Stmt) (hc : isCompoundSyn s = false) : Bal (simpleToks t st s) := by
  cases s <;> simp [isCompoundSyn] at hc
  case return_ v =>
    cases v with
    | none => simpa [simpleToks, stmtToks] using Bal.kw "return" Bal.nil
    | some e => simpa [simpleToks, stmtToks, List.dropLast_cons_of_ne_nil] using Bal.kw "return" (tTestlist_bal t e)
  case delete ts =>
    simpa [simpleToks, stmtToks, List.dropLast_cons_of_ne_nil] using Bal.kw "del" (commaSep_bal _ (map_tExpr_bal t ts))
  case assign ts v =>
    have e : simpleToks t st (.assign ts v) = (ts.flatMap fun tg => tTestlist t tg ++ [Tok.delim "="]) ++ tValue t v := by
      simp [simpleToks, stmtToks]
    rw [e]; exact Bal.append (targets_bal t ts) (tValue_bal t v)
  case typeAlias n tps v =>
    have := Bal.kw "type" (Bal.append (tVisit_bal t n) (Bal.append (typeParamsToks_bal t tps) (Bal.eq (tExpr_bal t v))))
    simpa [simpleToks, stmtToks, List.dropLast_cons_of_ne_nil, List.append_assoc] using this
  case augAssign tg op v =>
    have := Bal.append (tTestlist_bal t tg) (Bal.append (binOpTok_bal op) (Bal.eq (tValue_bal t v)))
    simpa [simpleToks, stmtToks, List.dropLast_cons_of_ne_nil, List.append_assoc] using this
  case annAssign tg ann v sm =>
    have htg : Bal (if sm then tVisit t tg else Tok.delim "(" :: tExpr t tg ++ [Tok.delim ")"]) := by
      cases sm with
      | true => exact tVisit_bal t tg
      | false => exact Bal.paren (tExpr_bal t tg)
    cases v with
    | none =>
      have := Bal.append htg (Bal.colon (tExpr_bal t ann))
      cases sm <;> simpa [simpleToks, stmtToks, List.dropLast_cons_of_ne_nil, List.append_assoc] using this
    | some e =>
      have := Bal.append htg (Bal.colon (Bal.append (tExpr_bal t ann) (Bal.eq (tExpr_bal t e))))
      cases sm <;> simpa [simpleToks, stmtToks, List.dropLast_cons_of_ne_nil, List.append_assoc] using this
  case raise_ e c =>
    have he : Bal (tOptExpr t e) := by
      cases e with
      | none => exact Bal.nil
      | some x => exact tExpr_bal t x
    cases c with
    | none => simpa [simpleToks, stmtToks, List.dropLast_cons_of_ne_nil] using Bal.kw "raise" he
    | some x =>
      have := Bal.kw "raise" (Bal.append he (Bal.kw "from" (tExpr_bal t x)))
      simpa [simpleToks, stmtToks, List.dropLast_cons_of_ne_nil, List.append_assoc] using this
  case assert_ c m =>
    cases m with
    | none => simpa [simpleToks, stmtToks, List.dropLast_cons_of_ne_nil] using Bal.kw "assert" (tExpr_bal t c)
    | some x =>
      have := Bal.kw "assert" (Bal.append (tExpr_bal t c) (Bal.comma (tExpr_bal t x)))
      simpa [simpleToks, stmtToks, List.dropLast_cons_of_ne_nil, List.append_assoc] using this
  case import_ ns =>
    simpa [simpleToks, stmtToks, List.dropLast_cons_of_ne_nil] using Bal.kw "import" (aliases_bal ns tAlias tAlias_bal)
  case importFrom m ns l =>
    have h1 : Bal (commaSep (ns.map fun a => if a.name == "*" then [Tok.op "*"] else tAlias a)) :=
      aliases_bal ns _ (fun a => by
        split
        · exact Bal.tok _ (fun _ e => by cases e)
        · exact tAlias_bal a)
    cases m with
    | none =>
      have := Bal.kw "from" (Bal.append (replicate_dot_bal l) (Bal.kw "import" h1))
      simpa [simpleToks, stmtToks, List.dropLast_cons_of_ne_nil, List.append_assoc] using this
    | some x =>
      have := Bal.kw "from" (Bal.append (replicate_dot_bal l) (Bal.ident x (Bal.kw "import" h1)))
      simpa [simpleToks, stmtToks, List.dropLast_cons_of_ne_nil, List.append_assoc] using this
  case global ns => simpa [simpleToks, stmtToks, List.dropLast_cons_of_ne_nil] using Bal.kw "global" (idents_bal ns)
  case nonlocal ns => simpa [simpleToks, stmtToks, List.dropLast_cons_of_ne_nil] using Bal.kw "nonlocal" (idents_bal ns)
  case expr v =>
    have e : simpleToks t st (.expr v) = tValue t v := by simp [simpleToks, stmtToks]
    rw [e]; exact tValue_bal t v
  case pass => simpa [simpleToks, stmtToks] using Bal.kw "pass" Bal.nil
  case break_ => simpa [simpleToks, stmtToks] using Bal.kw "break" Bal.nil
  case continue_ => simpa [simpleToks, stmtToks] using Bal.kw "continue" Bal.nil

/-! ### the bracket depth along the layout -/

def bracketStep (d : Nat) : Tok → Option Nat
  | .delim "(" => some (d + 1)
  | .delim "[" => some (d + 1)
  | .delim "{" => some (d + 1)
  | .delim ")" => if d = 0 then none else some (d - 1)
  | .delim "]" => if d = 0 then none else some (d - 1)
  | .delim "}" => if d = 0 then none else some (d - 1)
  | _ => some d

def depthT : Nat → List Tok → Option Nat
  | d, [] => some d
  | d, x :: xs => (bracketStep d x).bind fun d' => depthT d' xs

theorem depthT_append (d : Nat) (a b : List Tok) : depthT d (a ++ b) = (depthT d a).bind fun d' => depthT d' b := by
  induction a generalizing d with
  | nil => simp [depthT]
  | cons x xs ih =>
    simp only [List.cons_append, depthT]
    cases bracketStep d x with
    | none => rfl
    | some d' => simpa using ih d'

theorem bracketStep_tok (d : Nat) (t : Tok) (h : ∀ s, t ≠ .delim s) : bracketStep d t = some d := by
  cases t <;> first | rfl | exact absurd rfl (h _)

theorem bracketStep_plain (d : Nat) (s : String) (h : s ≠ "(" ∧ s ≠ ")" ∧ s ≠ "[" ∧ s ≠ "]" ∧ s ≠ "{" ∧ s ≠ "}") :
    bracketStep d (.delim s) = some d := by
  unfold bracketStep
  split <;> first | rfl | (rename_i heq; cases heq; simp at h)

/-- a balanced run returns to the depth it started from (and never goes below it) -/
theorem depthT_bal {xs : List Tok} (h : Bal xs) : ∀ d, depthT d xs = some d := by
  induction h with
  | nil => intro d; rfl
  | tok t ht => intro d; simp [depthT, bracketStep_tok d t ht]
  | delim s hs => intro d; simp [depthT, bracketStep_plain d s hs]
  | paren _ ih =>
    intro d
    simp only [depthT, bracketStep, Option.bind_some, depthT_append, ih (d + 1)]
    simp [depthT, bracketStep]
  | brack _ ih =>
    intro d
    simp only [depthT, bracketStep, Option.bind_some, depthT_append, ih (d + 1)]
    simp [depthT, bracketStep]
  | brace _ ih =>
    intro d
    simp only [depthT, bracketStep, Option.bind_some, depthT_append, ih (d + 1)]
    simp [depthT, bracketStep]
  | append _ _ iha ihb => intro d; simp [depthT_append, iha d, ihb d]

/-- bracket depth along a layout: a line break or `;` is allowed at depth 0 only -/
def depthL : Nat → List LT → Option Nat
  | d, [] => some d
  | d, .t tok :: rest => (bracketStep d tok).bind fun d' => depthL d' rest
  | d, _ :: rest => if d = 0 then depthL 0 rest else none

theorem depthL_append (d : Nat) (a b : List LT) : depthL d (a ++ b) = (depthL d a).bind fun d' => depthL d' b := by
  induction a generalizing d with
  | nil => simp [depthL]
  | cons x xs ih =>
    cases x with
    | t tok =>
      simp only [List.cons_append, depthL]
      cases bracketStep d tok with
      | none => rfl
      | some d' => simpa using ih d'
    | nl k =>
      simp only [List.cons_append, depthL]
      split
      · exact ih 0
      · rfl
    | semi =>
      simp only [List.cons_append, depthL]
      split
      · exact ih 0
      · rfl

theorem depthL_T (d : Nat) (xs : List Tok) : depthL d (T xs) = depthT d xs := by
  induction xs generalizing d with
  | nil => rfl
  | cons x xs ih =>
    simp only [T, List.map_cons, depthL, depthT]
    cases bracketStep d x with
    | none => rfl
    | some d' => simpa [T] using ih d'

/-- the layout keeps every line break and `;` outside all brackets -/
def Flat0 (l : List LT) : Prop := depthL 0 l = some 0

theorem Flat0.nil : Flat0 [] := rfl
theorem Flat0.append {a b : List LT} (ha : Flat0 a) (hb : Flat0 b) : Flat0 (a ++ b) := by
  unfold Flat0 at *; rw [depthL_append, ha]; simpa using hb
theorem Flat0_T {xs : List Tok} (h : Bal xs) : Flat0 (T xs) := by
  unfold Flat0; rw [depthL_T]; exact depthT_bal h 0
theorem Flat0.cons_nl {b : List LT} (d : Nat) (hb : Flat0 b) : Flat0 (LT.nl d :: b) := by
  unfold Flat0 at *; simpa [depthL] using hb
theorem Flat0_lay (x : LT) (hx : x.isLay = true) : Flat0 [x] := by
  cases x <;> simp [LT.isLay] at hx <;> rfl

end PMV.Spec.Layout

import PMV.Model.Fold
/-
  C07 helper lemmas: an evaluator for closed literal arithmetic (`evalLit`) and the fact that the
  folding model preserves it — value, type tag and error alike — at any nesting depth.
-/
namespace PMV.Fold
open PMV PMV.Printer PMV.Token

/-- negation of a value (`-v`); complex negation is an oracle parameter. `-True` is the int `-1`. -/
def negVal (orc : Oracle) : FVal → Option FVal
  | .int n => some (.int (-n))
  | .bool b => some (.int (-(if b then 1 else 0)))
  | .float neg mag => some (.float (!neg) mag)
  | .complex r => (orc.neg.lookup ("c:" ++ r)).bind parseKey
  | .none => none

/-- value of `l op r` for every operator (division and power always through the oracle). -/
def evalBinAll (orc : Oracle) (op : BinOpK) (l r : FVal) : Option FVal :=
  if op == .div || op == .pow then
    match orc.binop.lookup (binOpName op ++ "|" ++ l.key ++ "|" ++ r.key) with
    | some k => parseKey k
    | none => none
  else evalBin orc op l r

/-- Specification: the value of a closed literal arithmetic expression (`none` = raises / not literal). -/
def evalLit (orc : Oracle) : Expr → Option FVal
  | .constant c => operandVal (.constant c)
  | .unaryOp .uSub e => (evalLit orc e).bind (negVal orc)
  | .binOp l op r =>
    match evalLit orc l, evalLit orc r with
    | some a, some b => evalBinAll orc op a b
    | _, _ => none
  | _ => none

/-- the oracle's complex negation is an involution (true of CPython: negation is exact). -/
def NegInvolutive (orc : Oracle) : Prop :=
  ∀ r k r', orc.neg.lookup ("c:" ++ r) = some k → parseKey k = some (.complex r') →
    (orc.neg.lookup ("c:" ++ r')).bind parseKey = some (.complex r)

theorem operandVal_evalLit (orc : Oracle) (e : Expr) (v : FVal) (h : operandVal e = some v) :
    evalLit orc e = some v := by
  cases e with
  | constant c => simpa [evalLit] using h
  | _ => simp [operandVal] at h

theorem newNode_evalLit (orc : Oracle) (hneg : NegInvolutive orc) (v : FVal) (nn : Expr)
    (h : newNode orc v = some nn) : evalLit orc nn = some v := by
  cases v with
  | none => simp [newNode] at h
  | bool b =>
    simp only [newNode, Option.some.injEq] at h
    subst h
    cases b <;> simp [evalLit, operandVal]
  | int n =>
    simp only [newNode] at h
    split at h
    · simp at h
    · split at h
      · simp only [Option.some.injEq] at h; subst h
        simp [evalLit, operandVal, negVal]
      · simp only [Option.some.injEq] at h; subst h
        simp [evalLit, operandVal]
  | float neg mag =>
    simp only [newNode] at h
    cases neg with
    | true => simp only [if_true, Option.some.injEq] at h; subst h; simp [evalLit, operandVal, negVal]
    | false => simp only [Bool.false_eq_true, if_false, Option.some.injEq] at h; subst h; simp [evalLit, operandVal]
  | complex r =>
    simp only [newNode] at h
    split at h
    · simp at h
    · split at h
      · split at h
        · rename_i k hk
          split at h
          · rename_i r' hr'
            simp only [Option.some.injEq] at h; subst h
            simp only [evalLit, operandVal, Option.bind_some, negVal]
            exact hneg r k r' hk hr'
          · simp at h
        · simp at h
      · simp only [Option.some.injEq] at h; subst h; simp [evalLit, operandVal]

/-- One folding step preserves the value of the expression (and its being an error). -/
theorem foldBinOp_value (t : PrecTable) (sp : Spacing) (orc : Oracle) (hneg : NegInvolutive orc)
    (l : Expr) (op : BinOpK) (r : Expr) :
    evalLit orc (foldBinOp t sp orc l op r) = evalLit orc (.binOp l op r) := by
  unfold foldBinOp
  simp only
  split
  · rename_i lv rv hl hr
    split
    · rfl
    · rename_i hop
      split
      · rfl
      · rename_i v hv
        split
        · rfl
        · split
          · rfl
          · rename_i nn hnn
            split
            · rfl
            · split
              · rfl
              · rw [newNode_evalLit orc hneg v nn hnn]
                simp only [evalLit, operandVal_evalLit orc l lv hl, operandVal_evalLit orc r rv hr, evalBinAll]
                simp only [Bool.or_eq_true, not_or] at hop
                simp [hop, hv]
  · rfl

/-- T07 core: folding preserves the value of every closed literal arithmetic expression, nested to
    any depth — including *which* expressions raise. -/
theorem foldE_value (t : PrecTable) (sp : Spacing) (orc : Oracle) (hneg : NegInvolutive orc) :
    (e : Expr) → evalLit orc (foldE t sp orc e) = evalLit orc e
  | .binOp l op r => by
    simp only [foldE]
    rw [foldBinOp_value t sp orc hneg]
    simp only [evalLit, foldE_value t sp orc hneg l, foldE_value t sp orc hneg r]
  | .unaryOp op v => by
    cases op <;> simp [foldE, evalLit, foldE_value t sp orc hneg v]
  | .constant c => by simp [foldE]
  | .boolOp .. => by simp [foldE, evalLit]
  | .namedExpr .. => by simp [foldE, evalLit]
  | .lambda .. => by simp [foldE, evalLit]
  | .ifExp .. => by simp [foldE, evalLit]
  | .dict .. => by simp [foldE, evalLit]
  | .set .. => by simp [foldE, evalLit]
  | .listComp .. => by simp [foldE, evalLit]
  | .setComp .. => by simp [foldE, evalLit]
  | .dictComp .. => by simp [foldE, evalLit]
  | .generatorExp .. => by simp [foldE, evalLit]
  | .await .. => by simp [foldE, evalLit]
  | .yield .. => by simp [foldE, evalLit]
  | .yieldFrom .. => by simp [foldE, evalLit]
  | .compare .. => by simp [foldE, evalLit]
  | .call .. => by simp [foldE, evalLit]
  | .joinedStr .. => by simp [foldE, evalLit]
  | .attribute .. => by simp [foldE, evalLit]
  | .subscript .. => by simp [foldE, evalLit]
  | .starred .. => by simp [foldE, evalLit]
  | .name .. => by simp [foldE, evalLit]
  | .list .. => by simp [foldE, evalLit]
  | .tuple .. => by simp [foldE, evalLit]
  | .slice .. => by simp [foldE, evalLit]
  | .paren .. => by simp [foldE, evalLit]

/-- A step either leaves the node alone or replaces it by a strictly shorter literal. -/
theorem foldBinOp_shorter (t : PrecTable) (sp : Spacing) (orc : Oracle) (l : Expr) (op : BinOpK) (r : Expr) :
    foldBinOp t sp orc l op r = .binOp l op r ∨
    (exprText t sp (foldBinOp t sp orc l op r)).length < (exprText t sp (.binOp l op r)).length := by
  unfold foldBinOp
  simp only
  split
  · split
    · left; rfl
    · split
      · left; rfl
      · split
        · left; rfl
        · split
          · left; rfl
          · split
            · left; rfl
            · split
              · left; rfl
              · rename_i hlen _
                right; omega
  · left; rfl

/-- When a step changes the node: both operands are literals, the operator is neither `/` nor `**`,
    evaluation succeeds with a non-NaN value `v`, and the new node is the literal for `v`. -/
theorem foldBinOp_changed (t : PrecTable) (sp : Spacing) (orc : Oracle) (l : Expr) (op : BinOpK) (r : Expr)
    (h : foldBinOp t sp orc l op r ≠ .binOp l op r) :
    ∃ lv rv v, operandVal l = some lv ∧ operandVal r = some rv ∧ op ≠ .div ∧ op ≠ .pow ∧
      evalBin orc op lv rv = some v ∧ isNan v = false ∧ newNode orc v = some (foldBinOp t sp orc l op r) := by
  unfold foldBinOp at h ⊢
  simp only at h ⊢
  split at h
  · rename_i lv rv hl hr
    split at h
    · exact absurd rfl h
    · rename_i hop
      split at h
      · exact absurd rfl h
      · rename_i v hv
        split at h
        · exact absurd rfl h
        · rename_i hnan
          split at h
          · exact absurd rfl h
          · rename_i nn hnn
            split at h
            · exact absurd rfl h
            · split at h
              · exact absurd rfl h
              · simp only [Bool.or_eq_true, not_or, beq_iff_eq] at hop
                refine ⟨lv, rv, v, ?_, ?_, hop.1, hop.2, ?_, by simpa using hnan, ?_⟩ <;> simp_all
  · exact absurd rfl h

end PMV.Fold

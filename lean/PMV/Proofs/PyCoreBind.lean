import PMV.Spec.PyCore
import PMV.Proofs.Transforms
import PMV.Model.Minify
/-
  C01 helper lemmas about the static part of the PyCore semantics: which names a function body binds
  (`bindTop`), and that the statement-level transforms leave that list alone.
-/
namespace PMV.PyCore
open PMV PMV.Transforms

/-- `canonNames` keeps membership: the semantics only asks whether a name is in the list -/
theorem mem_insertName (x z : String) : ∀ l : List String, z ∈ insertName x l ↔ z = x ∨ z ∈ l
  | [] => by simp [insertName]
  | y :: ys => by
    simp only [insertName]
    split
    · rename_i h
      have : x = y := by simpa using h
      subst this
      simp
    · split
      · simp
      · simp only [List.mem_cons, mem_insertName x z ys]
        constructor
        · rintro (h | h | h)
          · exact Or.inr (Or.inl h)
          · exact Or.inl h
          · exact Or.inr (Or.inr h)
        · rintro (h | h | h)
          · exact Or.inr (Or.inl h)
          · exact Or.inl h
          · exact Or.inr (Or.inr h)

theorem mem_canonNames (z : String) : ∀ l : List String, z ∈ canonNames l ↔ z ∈ l
  | [] => by simp [canonNames]
  | x :: xs => by
    have ih := mem_canonNames z xs
    simp only [canonNames, List.foldr_cons] at ih ⊢
    rw [mem_insertName, ih]; simp

/-- the names of a statement at the top level of a function body: a `global` declaration is allowed there -/
def bindS0 : Stmt → Option (List String)
  | .global _ => some []
  | st => bindS st

/-- `f` over a list, appended; `none` if any is -/
def obind (f : Stmt → Option (List String)) : List Stmt → Option (List String)
  | [] => some []
  | st :: rest => oapp (f st) (obind f rest)

theorem bindL_eq : ∀ b : List Stmt, bindL b = obind bindS b
  | [] => by rw [bindL]; rfl
  | st :: rest => by rw [bindL, bindL_eq rest]; rfl

theorem bindTop_eq : ∀ b : List Stmt, bindTop b = obind bindS0 b
  | [] => rfl
  | st :: rest => by
    cases st <;> simp only [bindTop, obind, bindS0, bindTop_eq rest]
    case global => cases obind bindS0 rest <;> rfl

@[simp] theorem oapp_nil_left (a : Option (List String)) : oapp (some []) a = a := by cases a <;> rfl
@[simp] theorem oapp_none_left (a : Option (List String)) : oapp none a = none := by cases a <;> rfl
@[simp] theorem oapp_none_right (a : Option (List String)) : oapp a none = none := by cases a <;> rfl
@[simp] theorem oapp_nil_right (a : Option (List String)) : oapp a (some []) = a := by cases a <;> simp [oapp]

theorem oapp_assoc (a b c : Option (List String)) : oapp (oapp a b) c = oapp a (oapp b c) := by
  cases a <;> cases b <;> cases c <;> simp [oapp]

theorem obind_append (f : Stmt → Option (List String)) : ∀ a b : List Stmt, obind f (a ++ b) = oapp (obind f a) (obind f b)
  | [], b => by simp [obind]
  | st :: rest, b => by simp only [List.cons_append, obind, obind_append f rest b, oapp_assoc]

theorem obind_filter (f : Stmt → Option (List String)) (q : Stmt → Bool) (hq : ∀ st, q st = true → f st = some []) :
    ∀ b : List Stmt, obind f (b.filter (fun s => !q s)) = obind f b
  | [] => rfl
  | st :: rest => by
    by_cases h : q st = true
    · simp only [List.filter, h, Bool.not_true, obind, hq st h, oapp_nil_left]
      exact obind_filter f q hq rest
    · have h' : q st = false := by simpa using h
      simp only [List.filter, h', Bool.not_false, obind, obind_filter f q hq rest]

theorem obind_flatMap (f : Stmt → Option (List String)) (g : Stmt → List Stmt) (hg : ∀ st, obind f (g st) = f st) :
    ∀ b : List Stmt, obind f (b.flatMap g) = obind f b
  | [] => rfl
  | st :: rest => by simp only [List.flatMap_cons, obind_append, hg, obind, obind_flatMap f g hg rest]

theorem obind_congr (f : Stmt → Option (List String)) (g : Stmt → Stmt) (hg : ∀ st, f (g st) = f st) :
    ∀ b : List Stmt, obind f (b.map g) = obind f b
  | [] => rfl
  | st :: rest => by simp only [List.map_cons, obind, hg, obind_congr f g hg rest]

theorem obind_zero_bindS : obind bindS [zeroStmt] = some [] := by
  simp [obind, zeroStmt, bindS, oguard, coreX, coreE]

theorem obind_zero_bindS0 : obind bindS0 [zeroStmt] = some [] := by
  simp [obind, zeroStmt, bindS0, bindS, oguard, coreX, coreE]

/-- dropping statements that bind nothing (and are core statements) keeps the list -/
theorem obind_filterSuite (f : Stmt → Option (List String)) (hz : obind f [zeroStmt] = some []) (q : Stmt → Bool)
    (hq : ∀ st, q st = true → f st = some []) (m : IsModule) (b : List Stmt) :
    obind f (filterSuite q m b) = obind f b := by
  unfold filterSuite
  simp only
  split
  · rename_i he
    have : obind f (b.filter (fun s => !q s)) = some [] := by
      have : b.filter (fun s => !q s) = [] := by simpa using he
      rw [this]; rfl
    rw [← obind_filter f q hq b, this]
    split
    · rfl
    · exact hz
  · exact obind_filter f q hq b

/-! ### the traversal of a suite transformer keeps the bound names when its pieces do -/

structure BindOK (t : SuiteT) : Prop where
  stmt : ∀ st, bindS (t.stmtF st) = bindS st
  stmt0 : ∀ st, bindS0 (t.stmtF st) = bindS0 st
  suite : ∀ m b, bindL (t.suiteF m b) = bindL b
  suite0 : ∀ m b, bindTop (t.suiteF m b) = bindTop b
  body : ∀ b, bindTop (t.funcBodyF b) = bindTop b

theorem bindL_orelse (t : SuiteT) (h : BindOK t) (os : List Stmt) (ho : bindL (travBody t os) = bindL os) :
    bindL (if os.isEmpty then [] else t.suiteF false (travBody t os)) = bindL os := by
  cases os with
  | nil => rfl
  | cons x xs => simp only [List.isEmpty_cons, Bool.false_eq_true, if_false]; rw [h.suite, ho]

mutual
theorem bindS_trav (t : SuiteT) (h : BindOK t) : ∀ st : Stmt, bindS (travStmt t st) = bindS st
  | .functionDef .. => by simp only [travStmt]; rw [h.stmt]; simp [bindS]
  | .classDef .. => by simp only [travStmt]; rw [h.stmt]; simp [bindS]
  | .for_ a tg it body orelse => by
    simp only [travStmt]
    cases a
    · simp only [bindS]
      rw [h.suite, bindL_trav t h body, bindL_orelse t h orelse (bindL_trav t h orelse)]
    · simp [bindS]
  | .while_ c body orelse => by
    simp only [travStmt, bindS]
    rw [h.suite, bindL_trav t h body, bindL_orelse t h orelse (bindL_trav t h orelse)]
  | .if_ c body orelse => by
    simp only [travStmt, bindS]
    rw [h.suite, bindL_trav t h body, bindL_orelse t h orelse (bindL_trav t h orelse)]
  | .with_ .. => by simp [travStmt, bindS]
  | .match_ .. => by simp [travStmt, bindS]
  | .try_ false body hs orelse fin => by
    simp only [travStmt, bindS]
    rw [h.suite, bindL_trav t h body, bindH_trav t h hs, bindL_orelse t h orelse (bindL_trav t h orelse),
      bindL_orelse t h fin (bindL_trav t h fin)]
  | .try_ true .. => by simp [travStmt, bindS]
  | .return_ _ => by simp only [travStmt]; rw [h.stmt]
  | .delete _ => by simp only [travStmt]; rw [h.stmt]
  | .assign .. => by simp only [travStmt]; rw [h.stmt]
  | .typeAlias .. => by simp only [travStmt]; rw [h.stmt]
  | .augAssign .. => by simp only [travStmt]; rw [h.stmt]
  | .annAssign .. => by simp only [travStmt]; rw [h.stmt]
  | .raise_ .. => by simp only [travStmt]; rw [h.stmt]
  | .assert_ .. => by simp only [travStmt]; rw [h.stmt]
  | .import_ .. => by simp only [travStmt]; rw [h.stmt]
  | .importFrom .. => by simp only [travStmt]; rw [h.stmt]
  | .global _ => by simp only [travStmt]; rw [h.stmt]
  | .nonlocal _ => by simp only [travStmt]; rw [h.stmt]
  | .expr _ => by simp only [travStmt]; rw [h.stmt]
  | .pass => by simp only [travStmt]; rw [h.stmt]
  | .break_ => by simp only [travStmt]; rw [h.stmt]
  | .continue_ => by simp only [travStmt]; rw [h.stmt]
theorem bindL_trav (t : SuiteT) (h : BindOK t) : ∀ b : List Stmt, bindL (travBody t b) = bindL b
  | [] => by simp [travBody]
  | st :: rest => by simp only [travBody, bindL]; rw [bindS_trav t h st, bindL_trav t h rest]
theorem bindH_trav (t : SuiteT) (h : BindOK t) : ∀ hs : List Handler, bindH (travHandlers t hs) = bindH hs
  | [] => by simp [travHandlers]
  | .mk ty nm body :: rest => by simp only [travHandlers, bindH]; rw [bindL_trav t h body, bindH_trav t h rest]
end

/-- at the top level of a body only the statement's own kind matters besides `bindS` -/
theorem bindS0_trav (t : SuiteT) (h : BindOK t) (st : Stmt) : bindS0 (travStmt t st) = bindS0 st := by
  have hb := bindS_trav t h st
  cases st
  case functionDef => simp only [travStmt]; rw [h.stmt0]; simp [bindS0, bindS]
  case classDef => simp only [travStmt]; rw [h.stmt0]; simp [bindS0, bindS]
  case for_ => simp only [travStmt] at hb ⊢; exact hb
  case while_ => simp only [travStmt] at hb ⊢; exact hb
  case if_ => simp only [travStmt] at hb ⊢; exact hb
  case with_ => simp only [travStmt] at hb ⊢; exact hb
  case match_ => simp only [travStmt] at hb ⊢; exact hb
  case try_ star _ _ _ _ => cases star <;> (simp only [travStmt] at hb ⊢; exact hb)
  all_goals (simp only [travStmt]; rw [h.stmt0])

theorem bindTop_trav (t : SuiteT) (h : BindOK t) : ∀ b : List Stmt, bindTop (travBody t b) = bindTop b
  | [] => by simp [travBody]
  | st :: rest => by
    rw [bindTop_eq, bindTop_eq] 
    simp only [travBody, obind]
    rw [bindS0_trav t h st, ← bindTop_eq, ← bindTop_eq, bindTop_trav t h rest]

/-- the local names of every function body survive the transform -/
theorem bindTop_bodyT (t : SuiteT) (h : BindOK t) (b : List Stmt) :
    bindTop (t.funcBodyF (t.suiteF false (travBody t b))) = bindTop b := by
  rw [h.body, h.suite0, bindTop_trav t h b]

end PMV.PyCore

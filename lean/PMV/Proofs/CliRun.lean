import PMV.Model.Cli
/- Helper lemmas for C14/C15: the abstract file system and the main loop. -/
namespace PMV.Cli

theorem FS.get_set (fs : FS) (p q : String) (b : List UInt8) :
    (FS.set fs p b).get q = if q = p then some b else fs.get q := by
  induction fs with
  | nil =>
    simp only [FS.set, FS.get, List.lookup]
    by_cases h : q = p
    · simp [h]
    · have : (q == p) = false := by simpa using h
      simp [this, h]
  | cons hd tl ih =>
    obtain ⟨k, c⟩ := hd
    simp only [FS.set]
    by_cases hk : k = p
    · subst hk
      simp only [beq_self_eq_true, if_true, FS.get, List.lookup]
      by_cases h : q = k
      · simp [h]
      · have : (q == k) = false := by simpa using h
        simp [this, h]
    · have hkp : (k == p) = false := by simpa using hk
      simp only [hkp, Bool.false_eq_true, if_false, FS.get, List.lookup]
      by_cases hq : q = k
      · subst hq
        have : ¬ q = p := hk
        simp [this]
      · have : (q == k) = false := by simpa using hq
        simp only [this]
        exact ih

theorem doMinify_le (src m r : List UInt8) (h : doMinify false src m = some r) : r.length ≤ src.length := by
  unfold doMinify at h
  simp only [Bool.false_eq_true, if_false] at h
  split at h
  · cases h
  · cases h; omega

theorem written_le (src m : List UInt8) : (written false src m).length ≤ src.length := by
  unfold written
  cases h : doMinify false src m with
  | none => simp
  | some r => exact doMinify_le src m r h

theorem written_passthrough (src m : List UInt8) (h : m.length > src.length) : written false src m = src := by
  simp [written, doMinify, h]

theorem written_is_api_or_src (force : Bool) (src m : List UInt8) :
    written force src m = m ∨ written force src m = src := by
  unfold written doMinify
  by_cases hf : force = true
  · simp [hf]
  · simp only [hf, if_false]
    split <;> simp_all

theorem written_force (src m : List UInt8) : written true src m = m := by
  simp [written, doMinify]

/-- Once failed, the state never changes again. -/
theorem foldl_failed (force : Bool) (mode : Mode) (out : String) (api : List UInt8 → Outcome)
    (l : List String) (st : RunState) (h : st.failed = true) :
    l.foldl (visit force mode out api) st = st := by
  induction l with
  | nil => rfl
  | cons p ps ih => simp only [List.foldl_cons]; rw [show visit force mode out api st p = st by simp [visit, h]]; exact ih

end PMV.Cli

namespace PMV.Cli

/-- Post-state predicate for in-place runs, relative to the initial file system `fs0`. -/
def Good (force : Bool) (api : List UInt8 → Outcome) (fs0 : FS) (st : RunState) : Prop :=
  ∀ p, st.fs.get p = fs0.get p ∨
    ∃ src m, fs0.get p = some src ∧ api src = .ok m ∧ st.fs.get p = some (written force src m)

theorem visit_inplace_other (force : Bool) (out : String) (api : List UInt8 → Outcome)
    (st : RunState) (a q : String) (h : q ≠ a) :
    (visit force .inPlace out api st a).fs.get q = st.fs.get q := by
  unfold visit
  split
  · rfl
  · split
    · rfl
    · split
      · rfl
      · simp only [FS.get_set, h, if_false]

theorem visit_stdout_fs (force : Bool) (out : String) (api : List UInt8 → Outcome) (st : RunState) (a : String) :
    (visit force .stdout out api st a).fs = st.fs := by
  unfold visit
  split
  · rfl
  · split
    · rfl
    · split <;> rfl

theorem visit_output_other (force : Bool) (out : String) (api : List UInt8 → Outcome)
    (st : RunState) (a q : String) (h : q ≠ out) :
    (visit force .output out api st a).fs.get q = st.fs.get q := by
  unfold visit
  split
  · rfl
  · split
    · rfl
    · split
      · rfl
      · simp only [FS.get_set, h, if_false]

theorem run_inplace_inv (force : Bool) (out : String) (api : List UInt8 → Outcome) (fs0 : FS) :
    ∀ (l : List String) (st : RunState), l.Nodup → (∀ q ∈ l, st.fs.get q = fs0.get q) →
      Good force api fs0 st →
      Good force api fs0 (l.foldl (visit force .inPlace out api) st) ∧
      (∀ q, q ∉ l → (l.foldl (visit force .inPlace out api) st).fs.get q = st.fs.get q) := by
  intro l
  induction l with
  | nil => intro st _ _ hg; exact ⟨hg, fun _ _ => rfl⟩
  | cons a as ih =>
    intro st hnd hfresh hg
    have hnd' := List.nodup_cons.mp hnd
    simp only [List.foldl_cons]
    have hfresh' : ∀ q ∈ as, (visit force .inPlace out api st a).fs.get q = fs0.get q := by
      intro q hq
      have hqa : q ≠ a := fun h => hnd'.1 (h ▸ hq)
      rw [visit_inplace_other force out api st a q hqa]
      exact hfresh q (List.mem_cons_of_mem _ hq)
    have hg' : Good force api fs0 (visit force .inPlace out api st a) := by
      intro p
      by_cases hpa : p = a
      · subst hpa
        have hsrc := hfresh p List.mem_cons_self
        unfold visit
        split
        · exact hg p
        · split
          · exact hg p
          · rename_i src hget
            split
            · exact hg p
            · rename_i m hapi
              right
              refine ⟨src, m, ?_, hapi, ?_⟩
              · rw [← hsrc]; exact hget
              · simp [FS.get_set]
      · rw [visit_inplace_other force out api st a p hpa]; exact hg p
    obtain ⟨h1, h2⟩ := ih _ hnd'.2 hfresh' hg'
    refine ⟨h1, ?_⟩
    intro q hq
    have hqa : q ≠ a := fun h => hq (h ▸ List.mem_cons_self)
    have hqas : q ∉ as := fun h => hq (List.mem_cons_of_mem _ h)
    rw [h2 q hqas, visit_inplace_other force out api st a q hqa]

theorem run_inplace_untouched (force : Bool) (out : String) (api : List UInt8 → Outcome) :
    ∀ (l : List String) (st : RunState) (q : String), q ∉ l →
      (l.foldl (visit force .inPlace out api) st).fs.get q = st.fs.get q := by
  intro l
  induction l with
  | nil => intro _ _ _; rfl
  | cons a as ih =>
    intro st q hq
    simp only [List.foldl_cons]
    rw [ih _ q (fun h => hq (List.mem_cons_of_mem _ h))]
    exact visit_inplace_other force out api st a q (fun h => hq (h ▸ List.mem_cons_self))

theorem run_stdout_fs (force : Bool) (out : String) (api : List UInt8 → Outcome) :
    ∀ (l : List String) (st : RunState), (l.foldl (visit force .stdout out api) st).fs = st.fs := by
  intro l
  induction l with
  | nil => intro _; rfl
  | cons a as ih => intro st; simp only [List.foldl_cons]; rw [ih, visit_stdout_fs]

theorem run_output_other (force : Bool) (out : String) (api : List UInt8 → Outcome) :
    ∀ (l : List String) (st : RunState) (q : String), q ≠ out →
      (l.foldl (visit force .output out api) st).fs.get q = st.fs.get q := by
  intro l
  induction l with
  | nil => intro _ _ _; rfl
  | cons a as ih =>
    intro st q hq
    simp only [List.foldl_cons]
    rw [ih _ q hq, visit_output_other force out api st a q hq]

/-- A visit of a file that cannot be read or minified sets `failed` and changes nothing. -/
theorem visit_fail (force : Bool) (mode : Mode) (out : String) (api : List UInt8 → Outcome)
    (st : RunState) (a : String)
    (h : st.fs.get a = none ∨ ∃ src, st.fs.get a = some src ∧ api src = .fail) :
    (visit force mode out api st a).failed = true ∧ (visit force mode out api st a).fs = st.fs := by
  unfold visit
  by_cases hf : st.failed = true
  · simp [hf]
  · simp only [hf, Bool.false_eq_true, if_false]
    rcases h with h | ⟨src, h1, h2⟩
    · simp [h]
    · simp [h1, h2]

end PMV.Cli

import PMV.Model.Resolve
namespace PMV.Resolve

/-- T03.3a: `get_binding` answers with the first scope on Python's lookup path that binds the name -/
theorem getBinding_spec (t : Tree) (x : String) : ∀ (fuel n : Nat), getBinding t x fuel n = resolveSpec t x fuel n := by
  intro fuel
  induction fuel with
  | zero => intro n; rfl
  | succ f ih =>
    intro n
    unfold resolveSpec at ih ⊢
    simp only [getBinding, lookupPath]
    cases hk : (info t n).kind == NsKind.module with
    | true =>
      have hk' : ((info t n).kind != NsKind.module) = false := by simp [bne, hk]
      simp only [hk', Bool.false_and, Bool.false_eq_true, if_false, if_true, List.find?]
      cases (info t n).bindings.contains x <;> simp
    | false =>
      have hk' : ((info t n).kind != NsKind.module) = true := by simp [bne, hk]
      simp only [hk', Bool.true_and, Bool.false_eq_true, if_false, if_true]
      by_cases hg : (info t n).globals.contains x = true
      · simp only [hg, if_true]; exact ih 0
      · simp only [hg, Bool.false_eq_true, if_false]
        by_cases hn : (info t n).nonlocals.contains x = true
        · simp only [hn, if_true]; exact ih _
        · simp only [hn, Bool.false_eq_true, if_false, List.find?]
          cases hb : (info t n).bindings.contains x with
          | true => simp
          | false => simpa using ih _


/-- a dumped tree: namespace 0 is the module, every other namespace comes after its parent -/
structure WFTree (t : Tree) : Prop where
  root : (info t 0).kind = .module ∧ (info t 0).parent = 0
  parentBefore : ∀ n, n ≠ 0 → (info t n).parent < n

/-- the enclosing namespace that `get_nonlocal_namespace` returns is never a class body -/
theorem nonlocalNs_not_class (t : Tree) (h : WFTree t) : ∀ (fuel n : Nat), n ≤ fuel → (info t (nonlocalNs t fuel n)).kind ≠ .class_ := by
  intro fuel
  induction fuel with
  | zero =>
    intro n hn
    have : n = 0 := by omega
    subst this
    simp [nonlocalNs, h.root.2, h.root.1]
  | succ f ih =>
    intro n hn
    simp only [nonlocalNs]
    by_cases hc : ((info t (info t n).parent).kind == NsKind.class_) = true
    · simp only [hc, if_true]
      by_cases hz : n = 0
      · subst hz
        rw [h.root.2] at hc
        rw [h.root.1] at hc
        cases hc
      · exact ih _ (by have := h.parentBefore n hz; omega)
    · simp only [hc, Bool.false_eq_true, if_false]
      intro hk
      exact hc (by simp [hk])

theorem nonlocalNs_le (t : Tree) (h : WFTree t) : ∀ (fuel n : Nat), nonlocalNs t fuel n ≤ n := by
  intro fuel
  induction fuel with
  | zero =>
    intro n
    by_cases hz : n = 0
    · subst hz; simp [nonlocalNs, h.root.2]
    · simp only [nonlocalNs]; exact Nat.le_of_lt (h.parentBefore n hz)
  | succ f ih =>
    intro n
    simp only [nonlocalNs]
    have hp : (info t n).parent ≤ n := by
      by_cases hz : n = 0
      · subst hz; simp [h.root.2]
      · exact Nat.le_of_lt (h.parentBefore n hz)
    split
    · exact Nat.le_trans (ih _) hp
    · exact hp

/-- T03.3b: apart from the scope the use itself is in, no class body is ever consulted (names bound in a class body are not
    visible from the functions, lambdas and comprehensions nested in it) -/
theorem lookupPath_skips_classes (t : Tree) (h : WFTree t) (x : String) (fuel n : Nat) (hn : n ≤ t.length) :
    ∀ a ∈ (lookupPath t x fuel n).drop 1, (info t a).kind ≠ .class_ := by
  have hnl := nonlocalNs_not_class t h t.length
  have key : ∀ (fuel n : Nat), n ≤ t.length → (info t n).kind ≠ .class_ → ∀ a ∈ lookupPath t x fuel n, (info t a).kind ≠ .class_ := by
    intro fuel
    induction fuel with
    | zero => intro n _ _ a ha; simp [lookupPath] at ha
    | succ f ih =>
      intro n hlen hk a ha
      have hnext : nonlocalNs t t.length n ≤ t.length := Nat.le_trans (nonlocalNs_le t h _ n) hlen
      simp only [lookupPath] at ha
      split at ha
      · simp at ha; rw [ha]; exact hk
      · split at ha
        · exact ih 0 (Nat.zero_le _) (by rw [h.root.1]; simp) a ha
        · split at ha
          · exact ih _ hnext (hnl n hlen) a ha
          · rcases List.mem_cons.mp ha with rfl | ha'
            · exact hk
            · exact ih _ hnext (hnl n hlen) a ha'
  intro a ha
  cases fuel with
  | zero => simp [lookupPath] at ha
  | succ f =>
    have hnext : nonlocalNs t t.length n ≤ t.length := Nat.le_trans (nonlocalNs_le t h _ n) hn
    simp only [lookupPath] at ha
    split at ha
    · simp at ha
    · split at ha
      · exact key f 0 (Nat.zero_le _) (by rw [h.root.1]; simp) a (List.mem_of_mem_drop ha)
      · split at ha
        · exact key f _ hnext (hnl n hn) a (List.mem_of_mem_drop ha)
        · simp only [List.drop_succ_cons, List.drop_zero] at ha
          exact key f _ hnext (hnl n hn) a ha

end PMV.Resolve

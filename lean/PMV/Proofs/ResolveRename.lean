import PMV.Proofs.Resolve
import PMV.Proofs.RenameResolve
/-
  T03.3 and T03.4 put together: Python's own lookup (the model of `get_binding`, proved to follow the lookup path), run on the
  namespace tree *after* renaming, finds the scope it found before.
-/
namespace PMV.Resolve
open PMV.Rename

/-- `t'` is the namespace tree after the renaming `rs`, as far as the lookup of a use of `x`, now spelled `y`, is concerned:
    same shape; the scopes bind what `rs` says they bind, before and after; `global` / `nonlocal` declarations of `x` became
    declarations of `y` -/
structure RenamedFor (t t' : Tree) (rs : List Result) (x y : String) : Prop where
  length : t'.length = t.length
  kind : ∀ a, (info t' a).kind = (info t a).kind
  parent : ∀ a, (info t' a).parent = (info t a).parent
  bindsBefore : ∀ a, (info t a).bindings.contains x = bindsOrig rs a x
  bindsAfter : ∀ a, (info t' a).bindings.contains y = bindsFinal rs a y
  globals : ∀ a, (info t' a).globals.contains y = (info t a).globals.contains x
  nonlocals : ∀ a, (info t' a).nonlocals.contains y = (info t a).nonlocals.contains x

theorem nonlocalNs_congr (t t' : Tree) (hk : ∀ a, (info t' a).kind = (info t a).kind) (hp : ∀ a, (info t' a).parent = (info t a).parent) :
    ∀ (fuel n : Nat), nonlocalNs t' fuel n = nonlocalNs t fuel n := by
  intro fuel
  induction fuel with
  | zero => intro n; simp [nonlocalNs, hp]
  | succ f ih => intro n; simp only [nonlocalNs, hp, hk, ih]

theorem lookupPath_congr (t t' : Tree) (rs : List Result) (x y : String) (h : RenamedFor t t' rs x y) :
    ∀ (fuel n : Nat), lookupPath t' y fuel n = lookupPath t x fuel n := by
  intro fuel
  induction fuel with
  | zero => intro n; rfl
  | succ f ih =>
    intro n
    simp only [lookupPath, h.kind, h.globals, h.nonlocals, h.length, nonlocalNs_congr t t' h.kind h.parent, ih]

/-- before renaming, the model of `get_binding` is `resolveOrig` along the lookup path -/
theorem getBinding_resolveOrig (t t' : Tree) (rs : List Result) (x y : String) (h : RenamedFor t t' rs x y) (fuel n : Nat) :
    getBinding t x fuel n = resolveOrig rs (lookupPath t x fuel n) x := by
  rw [getBinding_spec]
  unfold resolveSpec resolveOrig
  congr 1
  funext a
  exact h.bindsBefore a

/-- after renaming, it is `resolveFinal` along the *same* path -/
theorem getBinding_resolveFinal (t t' : Tree) (rs : List Result) (x y : String) (h : RenamedFor t t' rs x y) (fuel n : Nat) :
    getBinding t' y fuel n = resolveFinal rs (lookupPath t x fuel n) y := by
  rw [getBinding_spec]
  unfold resolveSpec resolveFinal
  rw [lookupPath_congr t t' rs x y h]
  congr 1
  funext a
  exact h.bindsAfter a

/-- T03.6: a use of `x` in namespace `n` that `get_binding` resolves to the binding `r` resolves, after renaming, on the renamed
    tree and under its new spelling, to the same scope — under the hypotheses of T03.4 with Python's lookup path as the path. -/
theorem lookup_after_renaming (t t' : Tree) (rs : List Result) (r : Result) (x y : String) (fuel n : Nat)
    (h : RenamedFor t t' rs x y)
    (hr : r ∈ rs) (hname : r.b.name = some x) (hfin : r.final = some y)
    (horig : getBinding t x fuel n = some r.b.home)
    (cover : ∀ a ∈ (lookupPath t x fuel n).takeWhile (fun a => !bindsOrig rs a x), a ∈ r.b.scope)
    (clash : ∀ r' ∈ rs, r'.b.home ≠ r.b.home → (r.renamed = true ∨ r'.renamed = true) → (∃ ns, ns ∈ r.b.scope ∧ ns ∈ r'.b.scope) → r'.final ≠ r.final)
    (kept : ∀ r' ∈ rs, r'.renamed = false → r'.final = r'.b.name)
    (homeIn : ∀ r' ∈ rs, r'.b.home ∈ r'.b.scope) :
    getBinding t' y fuel n = getBinding t x fuel n := by
  rw [horig, getBinding_resolveFinal t t' rs x y h]
  rw [getBinding_resolveOrig t t' rs x y h] at horig
  exact renaming_preserves_resolution rs _ r x hr hname y hfin horig cover clash kept homeIn

/-! ### a concrete instance (non-vacuity): module binds `value` (→ `A`), function 1 binds `local_one` (→ `B`) and reads `value` -/

def exGv : Binding := ⟨0, .name, some "value", 0, true, none, 0, true, [], [⟨.name, []⟩, ⟨.name, [1, 0]⟩]⟩
def exLv : Binding := ⟨1, .name, some "local_one", 0, true, none, 1, false, [], [⟨.name, []⟩, ⟨.name, []⟩]⟩
def exRs : List Result := [⟨exGv, some "A", true, false⟩, ⟨exLv, some "B", true, false⟩]
def exT : Tree := [⟨.module, 0, ["value"], [], []⟩, ⟨.function, 0, ["local_one"], [], []⟩]
def exT' : Tree := [⟨.module, 0, ["A"], [], []⟩, ⟨.function, 0, ["B"], [], []⟩]

theorem info_ge (t : Tree) (a : Nat) (h : t.length ≤ a) : info t a = default := by
  unfold info
  simp [List.getD, List.getElem?_eq_none h]

theorem exRenamed : RenamedFor exT exT' exRs "value" "A" := by
  have big : ∀ a, 2 ≤ a → info exT a = default ∧ info exT' a = default :=
    fun a h => ⟨info_ge _ _ (by simpa [exT] using h), info_ge _ _ (by simpa [exT'] using h)⟩
  have orig : ∀ a, 2 ≤ a → bindsOrig exRs a "value" = false ∧ bindsFinal exRs a "A" = false := by
    intro a h
    simp [bindsOrig, bindsFinal, exRs, exGv, exLv]
    intro h0
    rw [← h0] at h
    exact absurd h (by decide)
  refine ⟨rfl, ?_, ?_, ?_, ?_, ?_, ?_⟩ <;> intro a <;>
    (rcases a with _ | _ | a
     · decide
     · decide
     · have hb := big (a + 2) (Nat.le_add_left 2 a)
       have ho := orig (a + 2) (Nat.le_add_left 2 a)
       simp [hb.1, hb.2, ho.1, ho.2]
       try decide)

/-- every hypothesis of T03.6 holds for the example: the theorem applies and yields what evaluation yields -/
theorem exApplies : getBinding exT' "A" 4 1 = getBinding exT "value" 4 1 :=
  lookup_after_renaming exT exT' exRs ⟨exGv, some "A", true, false⟩ "value" "A" 4 1 exRenamed
    List.mem_cons_self rfl rfl (by decide) (by decide) (by decide) (by decide) (by decide)

end PMV.Resolve

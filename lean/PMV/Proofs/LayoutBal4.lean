import PMV.Proofs.LayoutBal3
/-
  T02.4d: in the specified layout of every module, every line break and every `;` is at bracket depth 0, and the brackets of
  every line are balanced.
-/
namespace PMV.Spec.Layout
open PMV PMV.Token PMV.Printer

theorem Flat0_suiteStart (d : Nat) (body : List Stmt) : Flat0 (suiteStart d body) := by
  unfold suiteStart; split <;> rfl

theorem Flat0_clause (t : PrecTable) (st : StmtTable) (d : Nat) (body : List Stmt) (hdr : List Tok) (hh : Bal hdr)
    (hb : Flat0 (emitBody t st (d + 1) body)) : Flat0 (T hdr ++ suiteStart d body ++ emitBody t st (d + 1) body) :=
  ((Flat0_T hh).append (Flat0_suiteStart d body)).append hb

theorem Flat0_opt (t : PrecTable) (st : StmtTable) (kwd : String) (d : Nat) (body : List Stmt)
    (hb : Flat0 (emitBody t st (d + 1) body)) : Flat0 (optClause t st kwd d body) := by
  unfold optClause
  split
  · exact Flat0.nil
  · have := (Flat0_clause t st d body [.kw kwd, .delim ":"] (Bal.kw _ (Bal.colon Bal.nil)) hb).cons_nl d
    simpa [List.append_assoc] using this

theorem Flat0_deco (t : PrecTable) (d : Nat) (decs : List Expr) : Flat0 (decoLines t d decs) := by
  induction decs with
  | nil => exact Flat0.nil
  | cons dec rest ih =>
    have h1 : decoLines t d (dec :: rest) = T (.op "@" :: tExpr t dec) ++ (LT.nl d :: decoLines t d rest) := by
      simp [decoLines, List.append_assoc]
    rw [h1]
    exact (Flat0_T (Bal.op _ (tExpr_bal t dec))).append (ih.cons_nl d)

theorem Flat0_sep (d : Nat) (a : Stmt) (rest : List Stmt) : Flat0 [sepNext d a rest] := by
  apply Flat0_lay
  cases rest with
  | nil => rfl
  | cons b r => simp only [sepNext, sep]; split <;> rfl

mutual
theorem flatS (t : PrecTable) (st : StmtTable) : (s : Stmt) → ∀ el d, Flat0 (emitS t st el d s)
  | .functionDef a n args body decs r tps, el, d => by
    rw [emitS]
    have := (Flat0_deco t d decs).append (Flat0_clause t st d body _ (hdrDef_bal t a n args r tps) (flatL t st body (d + 1)))
    simpa [List.append_assoc] using this
  | .classDef n bases kws body decs tps, el, d => by
    rw [emitS]
    have := (Flat0_deco t d decs).append (Flat0_clause t st d body _ (hdrClass_bal t n bases kws tps) (flatL t st body (d + 1)))
    simpa [List.append_assoc] using this
  | .for_ a tg it body orelse, el, d => by
    have := (Flat0_clause t st d body _ (hdrFor_bal t a tg it) (flatL t st body (d + 1))).append (Flat0_opt t st "else" d orelse (flatL t st orelse (d + 1)))
    rw [emitS]; unfold optClause at this
    by_cases ho : orelse.isEmpty = true <;> simpa [ho, List.append_assoc] using this
  | .while_ c body orelse, el, d => by
    have hh : Bal (.kw "while" :: tExpr t c ++ [.delim ":"]) := by
      have := Bal.kw "while" (Bal.append (tExpr_bal t c) (Bal.colon Bal.nil)); simpa using this
    have := (Flat0_clause t st d body _ hh (flatL t st body (d + 1))).append (Flat0_opt t st "else" d orelse (flatL t st orelse (d + 1)))
    rw [emitS]; unfold optClause at this
    by_cases ho : orelse.isEmpty = true <;> simpa [ho, List.append_assoc] using this
  | .if_ c body orelse, el, d => by
    have hh : Bal (.kw (if el then "elif" else "if") :: tExpr t c ++ [.delim ":"]) := by
      have := Bal.kw (if el then "elif" else "if") (Bal.append (tExpr_bal t c) (Bal.colon Bal.nil)); simpa using this
    have hc := Flat0_clause t st d body _ hh (flatL t st body (d + 1))
    rw [emitS]
    by_cases ho : orelse.isEmpty = true
    · simpa [ho] using hc
    · simp only [ho, Bool.false_eq_true, if_false]
      by_cases he : isElifList orelse = true
      · simp only [he, if_true]
        have := hc.append ((flatElif t st orelse d).cons_nl d)
        simpa [List.append_assoc] using this
      · simp only [he, Bool.false_eq_true, if_false]
        have h2 := (Flat0_clause t st d orelse [.kw "else", .delim ":"] (Bal.kw _ (Bal.colon Bal.nil)) (flatL t st orelse (d + 1))).cons_nl d
        have := hc.append h2
        simpa [List.append_assoc] using this
  | .with_ a items body, el, d => by
    rw [emitS]
    exact Flat0_clause t st d body _ (hdrWith_bal t a items) (flatL t st body (d + 1))
  | .match_ subj cases, el, d => by
    rw [emitS]
    have hh : Bal (.kw "match" :: tExpr t subj ++ [.delim ":"]) := by
      have := Bal.kw "match" (Bal.append (tExpr_bal t subj) (Bal.colon Bal.nil)); simpa using this
    by_cases hc : cases.isEmpty = true
    · simp only [hc, if_true, List.append_nil]; exact Flat0_T hh
    · simp only [hc, Bool.false_eq_true, if_false]
      exact (Flat0_T hh).append ((flatC t st cases (d + 1)).cons_nl (d + 1))
  | .try_ star body hs orelse fin, el, d => by
    have h1 := Flat0_clause t st d body [.kw "try", .delim ":"] (Bal.kw _ (Bal.colon Bal.nil)) (flatL t st body (d + 1))
    have h4 := ((h1.append (flatH t st star hs d)).append (Flat0_opt t st "else" d orelse (flatL t st orelse (d + 1)))).append
      (Flat0_opt t st "finally" d fin (flatL t st fin (d + 1)))
    rw [emitS]; unfold optClause at h4
    by_cases ho : orelse.isEmpty = true <;> by_cases hf : fin.isEmpty = true <;> simpa [ho, hf, List.append_assoc] using h4
  | .return_ v, el, d => by rw [emitS_simple t st _ rfl]; exact Flat0_T (simpleToks_bal t st _ rfl)
  | .delete ts, el, d => by rw [emitS_simple t st _ rfl]; exact Flat0_T (simpleToks_bal t st _ rfl)
  | .assign ts v, el, d => by rw [emitS_simple t st _ rfl]; exact Flat0_T (simpleToks_bal t st _ rfl)
  | .typeAlias n tps v, el, d => by rw [emitS_simple t st _ rfl]; exact Flat0_T (simpleToks_bal t st _ rfl)
  | .augAssign tg op v, el, d => by rw [emitS_simple t st _ rfl]; exact Flat0_T (simpleToks_bal t st _ rfl)
  | .annAssign tg ann v sm, el, d => by rw [emitS_simple t st _ rfl]; exact Flat0_T (simpleToks_bal t st _ rfl)
  | .raise_ e c, el, d => by rw [emitS_simple t st _ rfl]; exact Flat0_T (simpleToks_bal t st _ rfl)
  | .assert_ c m, el, d => by rw [emitS_simple t st _ rfl]; exact Flat0_T (simpleToks_bal t st _ rfl)
  | .import_ ns, el, d => by rw [emitS_simple t st _ rfl]; exact Flat0_T (simpleToks_bal t st _ rfl)
  | .importFrom m ns l, el, d => by rw [emitS_simple t st _ rfl]; exact Flat0_T (simpleToks_bal t st _ rfl)
  | .global ns, el, d => by rw [emitS_simple t st _ rfl]; exact Flat0_T (simpleToks_bal t st _ rfl)
  | .nonlocal ns, el, d => by rw [emitS_simple t st _ rfl]; exact Flat0_T (simpleToks_bal t st _ rfl)
  | .expr v, el, d => by rw [emitS_simple t st _ rfl]; exact Flat0_T (simpleToks_bal t st _ rfl)
  | .pass, el, d => by rw [emitS_simple t st _ rfl]; exact Flat0_T (simpleToks_bal t st _ rfl)
  | .break_, el, d => by rw [emitS_simple t st _ rfl]; exact Flat0_T (simpleToks_bal t st _ rfl)
  | .continue_, el, d => by rw [emitS_simple t st _ rfl]; exact Flat0_T (simpleToks_bal t st _ rfl)
theorem flatL (t : PrecTable) (st : StmtTable) : (l : List Stmt) → ∀ d, Flat0 (emitBody t st d l)
  | [], d => Flat0.nil
  | s :: ss, d => by
    rw [emitBody_cons]
    apply (flatS t st s false d).append
    by_cases he : ss.isEmpty = true
    · simp only [he, if_true]; exact Flat0.nil
    · simp only [he, Bool.false_eq_true, if_false]
      exact (Flat0_sep d s ss).append (flatL t st ss d)
theorem flatElif (t : PrecTable) (st : StmtTable) : (l : List Stmt) → ∀ d, Flat0 (emitElif t st d l)
  | [], d => Flat0.nil
  | s :: _, d => by rw [emitElif]; exact flatS t st s true d
theorem flatH (t : PrecTable) (st : StmtTable) (star : Bool) : (hs : List Handler) → ∀ d, Flat0 (emitHandlers t st star d hs)
  | [], d => Flat0.nil
  | .mk ty name body :: hs, d => by
    have := ((Flat0_clause t st d body _ (hdrExcept_bal t star ty name) (flatL t st body (d + 1))).cons_nl d).append (flatH t st star hs d)
    simpa [emitHandlers, List.append_assoc] using this
theorem flatC (t : PrecTable) (st : StmtTable) : (cs : List MatchCase) → ∀ d, Flat0 (emitCases t st d cs)
  | [], d => Flat0.nil
  | .mk pat guard body :: cs, d => by
    have hc := Flat0_clause t st d body _ (hdrCase_bal t pat guard) (flatL t st body (d + 1))
    rw [emitCases]
    by_cases he : cs.isEmpty = true
    · simpa [he] using hc
    · simp only [he, Bool.false_eq_true, if_false]
      have := hc.append ((flatC t st cs d).cons_nl d)
      simpa [List.append_assoc] using this
end

/-- every line break and `;` of the specified layout is outside all brackets, and the brackets close by the end -/
theorem module_brackets (t : PrecTable) (st : StmtTable) (m : Module) : depthL 0 (emitModule t st m) = some 0 :=
  flatL t st m.body 0

end PMV.Spec.Layout

import PMV.Proofs.PyCore
/-
  Fuel is only a bound on the number of loop iterations and the call depth: a run that finishes within
  fuel `n` gives exactly the same result with any larger fuel.  (So "for every fuel" in the C01 theorems
  means "for the program's behaviour", not for an artefact of the bound.)
-/
namespace PMV.PyCore
open PMV

variable {o : Bool}

/-- the claim at fuel `n` -/
def Mono (o : Bool) (ft : FTab) (n : Nat) : Prop :=
  (∀ s st, exec1 ⟨ft, o⟩ n s st ≠ .timeout → exec1 ⟨ft, o⟩ (n + 1) s st = exec1 ⟨ft, o⟩ n s st) ∧
  (∀ s l, execL ⟨ft, o⟩ n s l ≠ .timeout → execL ⟨ft, o⟩ (n + 1) s l = execL ⟨ft, o⟩ n s l)

theorem execL_cons_ne (ft : FTab) (n : Nat) (s : St) (st : Stmt) (rest : List Stmt)
    (h : execL ⟨ft, o⟩ n s (st :: rest) ≠ .timeout) : exec1 ⟨ft, o⟩ n s st ≠ .timeout := by
  intro ht
  rw [execL_cons, ht] at h
  exact h rfl

theorem callFn_mono (ft : FTab) (n : Nat) (ih : ∀ m, m < n → Mono o ft m)
    (s : St) (f : String) (args : List Expr) (tgt : Option String)
    (h : callFn ⟨ft, o⟩ n s f args tgt ≠ .timeout) : callFn ⟨ft, o⟩ (n + 1) s f args tgt = callFn ⟨ft, o⟩ n s f args tgt := by
  revert h
  rw [callFn, callFn]
  cases evalArgs s args with
  | none => intro _; rfl
  | some r =>
    cases r with
    | error x => intro _; rfl
    | ok vs =>
      cases ft.lookup f with
      | none => intro _; rfl
      | some pb =>
        obtain ⟨ps, b⟩ := pb
        simp only
        cases bindTop b with
        | none => intro _; rfl
        | some bound =>
        simp only
        by_cases hlen : (ps.length != vs.length) = true
        · simp only [hlen, if_true]; intro _; trivial
        · simp only [hlen, Bool.false_eq_true, if_false]
          cases n with
          | zero => intro h; exact absurd rfl h
          | succ k =>
            simp only
            intro h
            have hinner : execL ⟨ft, o⟩ k { globals := s.globals, locals := some (ps.zip vs), declGlobal := declaredGlobals b, out := s.out, imports := s.imports, localNames := ps ++ canonNames bound } b ≠ .timeout := by
              intro ht
              rw [ht] at h
              exact h rfl
            rw [(ih k (Nat.lt_succ_self k)).2 _ b hinner]


theorem afterBody_mono (r0 : Res Flow) (e e' : St → Res Flow) (hd hd' : String → St → Res Flow)
    (h : afterBody r0 e hd ≠ .timeout)
    (he : ∀ s1, e s1 ≠ .timeout → e' s1 = e s1) (hh : ∀ x s1, hd x s1 ≠ .timeout → hd' x s1 = hd x s1) :
    afterBody r0 e' hd' = afterBody r0 e hd := by
  cases r0 with
  | ok fl =>
    cases fl with
    | normal s1 => exact he s1 h
    | _ => rfl
  | raised x s1 => exact hh x s1 h
  | _ => rfl

theorem afterBody_ne (r0 : Res Flow) (e : St → Res Flow) (hd : String → St → Res Flow)
    (h : afterBody r0 e hd ≠ .timeout) : r0 ≠ .timeout := by
  intro ht; rw [ht] at h; exact h rfl

theorem withFinally_mono (r1 : Res Flow) (f f' : St → Res Flow)
    (h : withFinally r1 f ≠ .timeout) (hf : ∀ s1, f s1 ≠ .timeout → f' s1 = f s1) :
    withFinally r1 f' = withFinally r1 f := by
  unfold withFinally at h ⊢
  cases hs : stateOf? r1 with
  | none => rfl
  | some s1 =>
    simp only [hs] at h ⊢
    have hne : f s1 ≠ .timeout := by
      intro ht; rw [ht] at h; exact h rfl
    rw [hf s1 hne]

theorem withFinally_ne (r1 : Res Flow) (f : St → Res Flow) (h : withFinally r1 f ≠ .timeout) : r1 ≠ .timeout := by
  intro ht; rw [ht] at h; exact h rfl

/-- `for` loops: monotone in fuel when body and `else` are, at every fuel up to the current one -/
theorem execFor_mono (ft : FTab) (body orelse : List Stmt) (N : Nat)
    (hb : ∀ f, f ≤ N → ∀ s, execL ⟨ft, o⟩ f s body ≠ .timeout → execL ⟨ft, o⟩ (f + 1) s body = execL ⟨ft, o⟩ f s body)
    (ho : ∀ f, f ≤ N → ∀ s, execL ⟨ft, o⟩ f s orelse ≠ .timeout → execL ⟨ft, o⟩ (f + 1) s orelse = execL ⟨ft, o⟩ f s orelse) :
    ∀ f, f ≤ N → ∀ (s : St) (x : String) (i k : Int),
      execFor ⟨ft, o⟩ f s x i k body orelse ≠ .timeout → execFor ⟨ft, o⟩ (f + 1) s x i k body orelse = execFor ⟨ft, o⟩ f s x i k body orelse := by
  intro f
  induction f with
  | zero =>
    intro hf s x i k h
    rw [execFor.eq_1] at h
    rw [execFor.eq_2, execFor.eq_1]
    by_cases hik : i < k
    · simp only [hik, if_true] at h; exact absurd rfl h
    · simp only [hik, if_false] at h ⊢; exact ho 0 hf s h
  | succ f ihf =>
    intro hf s x i k h
    rw [execFor.eq_2] at h
    rw [execFor.eq_2, execFor.eq_2 ⟨ft, o⟩ s x i k body orelse f]
    by_cases hik : i < k
    · simp only [hik, if_true] at h ⊢
      have hbody : execL ⟨ft, o⟩ (f + 1) (s.assign x (.int i)) body ≠ .timeout := by
        intro ht; rw [ht] at h; exact h rfl
      rw [hb (f + 1) hf _ hbody]
      revert h
      cases execL ⟨ft, o⟩ (f + 1) (s.assign x (.int i)) body with
      | ok fl =>
        cases fl with
        | normal s' => intro h; exact ihf (Nat.le_of_succ_le hf) s' x (i + 1) k h
        | continued s' => intro h; exact ihf (Nat.le_of_succ_le hf) s' x (i + 1) k h
        | broke s' => intro _; rfl
        | returned v s' => intro _; rfl
      | _ => intro _; rfl
    · simp only [hik, if_false] at h ⊢; exact ho (f + 1) hf s h

theorem flat_mono (ft : FTab) (n : Nat) (ih : ∀ m, m < n → Mono o ft m) (s : St) (st : Stmt)
    (hst : isBlockStmt st = false) (h : exec1 ⟨ft, o⟩ n s st ≠ .timeout) : exec1 ⟨ft, o⟩ (n + 1) s st = exec1 ⟨ft, o⟩ n s st := by
  rw [exec1_flat _ _ _ _ hst] at h
  rw [exec1_flat _ _ _ _ hst, exec1_flat _ _ _ _ hst]
  unfold flatExec at h ⊢
  simp only at h ⊢
  by_cases ha : (o && isAssertStmt st) = true
  · simp only [ha, if_true]
  · simp only [ha, Bool.false_eq_true, if_false] at h ⊢
    cases hc : callOf st with
    | none => rfl
    | some p =>
      obtain ⟨f, args, tgt⟩ := p
      simp only [hc] at h ⊢
      exact callFn_mono ft n ih s f args tgt h

mutual
theorem exec1_mono (ft : FTab) (n : Nat) (ih : ∀ m, m < n → Mono o ft m) :
    (st : Stmt) → (s : St) → exec1 ⟨ft, o⟩ n s st ≠ .timeout → exec1 ⟨ft, o⟩ (n + 1) s st = exec1 ⟨ft, o⟩ n s st
  | .if_ c body orelse, s, h => by
    rw [exec1.eq_1] at h
    rw [exec1.eq_1, exec1.eq_1]
    cases hc : condE (RunEnv.mk ft o).opt s c with
    | none => rfl
    | some r =>
      cases r with
      | error x => rfl
      | ok v =>
        simp only [hc] at h ⊢
        by_cases hv : v.truthy = true
        · simp only [hv, if_true] at h ⊢; exact execL_mono ft n ih body s h
        · simp only [hv, Bool.false_eq_true, if_false] at h ⊢; exact execL_mono ft n ih orelse s h
  | .while_ c body orelse, s, h => by
    cases n with
    | zero =>
      rw [exec1.eq_2] at h
      rw [exec1.eq_3, exec1.eq_2]
      cases hc : evalE s c with
      | none => rfl
      | some r =>
        cases r with
        | error x => rfl
        | ok v =>
          simp only [hc] at h ⊢
          by_cases hv : v.truthy = true
          · simp only [hv, if_true] at h; exact absurd rfl h
          · simp only [hv, Bool.false_eq_true, if_false] at h ⊢; exact execL_mono ft 0 ih orelse s h
    | succ k =>
      rw [exec1.eq_3] at h
      rw [exec1.eq_3, exec1.eq_3 ⟨ft, o⟩ s c body orelse k]
      cases hc : evalE s c with
      | none => rfl
      | some r =>
        cases r with
        | error x => rfl
        | ok v =>
          simp only [hc] at h ⊢
          by_cases hv : v.truthy = true
          · simp only [hv, if_true] at h ⊢
            have hbody : execL ⟨ft, o⟩ (k + 1) s body ≠ .timeout := by
              intro ht; rw [ht] at h; exact h rfl
            rw [execL_mono ft (k + 1) ih body s hbody]
            revert h
            cases execL ⟨ft, o⟩ (k + 1) s body with
            | ok fl =>
              cases fl with
              | normal s' => intro h; exact (ih k (Nat.lt_succ_self k)).1 s' _ h
              | continued s' => intro h; exact (ih k (Nat.lt_succ_self k)).1 s' _ h
              | broke s' => intro _; rfl
              | returned v' s' => intro _; rfl
            | _ => intro _; rfl
          · simp only [hv, Bool.false_eq_true, if_false] at h ⊢; exact execL_mono ft (k + 1) ih orelse s h
  | .for_ false tg it body orelse, s, h => by
    rw [exec1.eq_4] at h
    rw [exec1.eq_4, exec1.eq_4]
    cases hfr : forRange tg it with
    | none => rfl
    | some p =>
      obtain ⟨x, e⟩ := p
      simp only [hfr] at h ⊢
      unfold evalThen at h ⊢
      cases he : evalE s e with
      | none => rfl
      | some r =>
        cases r with
        | error err => rfl
        | ok v =>
          simp only [he] at h ⊢
          cases hk : v.asInt with
          | none => rfl
          | some k =>
            simp only [hk] at h ⊢
            have hb : ∀ f, f ≤ n → ∀ s, execL ⟨ft, o⟩ f s body ≠ .timeout → execL ⟨ft, o⟩ (f + 1) s body = execL ⟨ft, o⟩ f s body := by
              intro f hf s' hne
              rcases Nat.lt_or_eq_of_le hf with hlt | heq
              · exact (ih f hlt).2 s' body hne
              · subst heq; exact execL_mono ft f ih body s' hne
            have ho : ∀ f, f ≤ n → ∀ s, execL ⟨ft, o⟩ f s orelse ≠ .timeout → execL ⟨ft, o⟩ (f + 1) s orelse = execL ⟨ft, o⟩ f s orelse := by
              intro f hf s' hne
              rcases Nat.lt_or_eq_of_le hf with hlt | heq
              · exact (ih f hlt).2 s' orelse hne
              · subst heq; exact execL_mono ft f ih orelse s' hne
            exact execFor_mono ft body orelse n hb ho n (Nat.le_refl n) s x 0 k h
  | .try_ false body hs orelse fin, s, h => by
    rw [exec1.eq_5] at h
    rw [exec1.eq_5, exec1.eq_5]
    have h1 := withFinally_ne _ _ h
    have h0 := afterBody_ne _ _ _ h1
    rw [execL_mono ft n ih body s h0]
    have hab : afterBody (execL ⟨ft, o⟩ n s body) (fun s1 => execL ⟨ft, o⟩ (n + 1) s1 orelse) (fun x s1 => execH ⟨ft, o⟩ (n + 1) s1 x hs)
        = afterBody (execL ⟨ft, o⟩ n s body) (fun s1 => execL ⟨ft, o⟩ n s1 orelse) (fun x s1 => execH ⟨ft, o⟩ n s1 x hs) :=
      afterBody_mono _ _ _ _ _ h1 (fun s1 hne => execL_mono ft n ih orelse s1 hne) (fun x s1 hne => execH_mono ft n ih hs s1 x hne)
    rw [hab]
    exact withFinally_mono _ _ _ h (fun s1 hne => execL_mono ft n ih fin s1 hne)
  | .for_ true .., s, h => flat_mono ft n ih s _ rfl h
  | .try_ true .., s, h => flat_mono ft n ih s _ rfl h
  | .functionDef .., s, h => flat_mono ft n ih s _ rfl h
  | .classDef .., s, h => flat_mono ft n ih s _ rfl h
  | .with_ .., s, h => flat_mono ft n ih s _ rfl h
  | .match_ .., s, h => flat_mono ft n ih s _ rfl h
  | .return_ _, s, h => flat_mono ft n ih s _ rfl h
  | .delete _, s, h => flat_mono ft n ih s _ rfl h
  | .assign .., s, h => flat_mono ft n ih s _ rfl h
  | .typeAlias .., s, h => flat_mono ft n ih s _ rfl h
  | .augAssign .., s, h => flat_mono ft n ih s _ rfl h
  | .annAssign .., s, h => flat_mono ft n ih s _ rfl h
  | .raise_ .., s, h => flat_mono ft n ih s _ rfl h
  | .assert_ .., s, h => flat_mono ft n ih s _ rfl h
  | .import_ .., s, h => flat_mono ft n ih s _ rfl h
  | .importFrom .., s, h => flat_mono ft n ih s _ rfl h
  | .global _, s, h => flat_mono ft n ih s _ rfl h
  | .nonlocal _, s, h => flat_mono ft n ih s _ rfl h
  | .expr _, s, h => flat_mono ft n ih s _ rfl h
  | .pass, s, h => flat_mono ft n ih s _ rfl h
  | .break_, s, h => flat_mono ft n ih s _ rfl h
  | .continue_, s, h => flat_mono ft n ih s _ rfl h
theorem execL_mono (ft : FTab) (n : Nat) (ih : ∀ m, m < n → Mono o ft m) :
    (l : List Stmt) → (s : St) → execL ⟨ft, o⟩ n s l ≠ .timeout → execL ⟨ft, o⟩ (n + 1) s l = execL ⟨ft, o⟩ n s l
  | [], s, _ => by rw [execL_nil, execL_nil]
  | st :: rest, s, h => by
    have h1 := execL_cons_ne ft n s st rest h
    rw [execL_cons] at h
    rw [execL_cons, execL_cons, exec1_mono ft n ih st s h1]
    revert h
    cases exec1 ⟨ft, o⟩ n s st with
    | ok fl =>
      cases fl with
      | normal s' => intro h; exact execL_mono ft n ih rest s' h
      | _ => intro _; rfl
    | _ => intro _; rfl
theorem execH_mono (ft : FTab) (n : Nat) (ih : ∀ m, m < n → Mono o ft m) :
    (hs : List Handler) → (s : St) → (x : String) → execH ⟨ft, o⟩ n s x hs ≠ .timeout → execH ⟨ft, o⟩ (n + 1) s x hs = execH ⟨ft, o⟩ n s x hs
  | [], s, x, _ => by rw [execH.eq_1, execH.eq_1]
  | .mk ty nm hbody :: rest, s, x, h => by
    rw [execH.eq_2] at h
    rw [execH.eq_2, execH.eq_2]
    cases hc : catches (excKind ty) nm x with
    | none => rfl
    | some b =>
      simp only [hc] at h ⊢
      cases b with
      | true => exact execL_mono ft n ih hbody s h
      | false => exact execH_mono ft n ih rest s x h
end

end PMV.PyCore

namespace PMV.PyCore
open PMV

theorem mono_all (ft : FTab) (n : Nat) : Mono o ft n := by
  induction n using Nat.strongRecOn with
  | _ n ih => exact ⟨fun s st h => exec1_mono ft n ih st s h, fun s l h => execL_mono ft n ih l s h⟩

/-- more fuel never changes a finished run -/
theorem execL_more_fuel (ft : FTab) (n k : Nat) (s : St) (l : List Stmt) (h : execL ⟨ft, o⟩ n s l ≠ .timeout) :
    execL ⟨ft, o⟩ (n + k) s l = execL ⟨ft, o⟩ n s l := by
  induction k with
  | zero => rfl
  | succ k ihk =>
    have : execL ⟨ft, o⟩ (n + k) s l ≠ .timeout := by rw [ihk]; exact h
    rw [← Nat.add_assoc, (mono_all ft (n + k)).2 s l this, ihk]

/-- T01.9: a module whose run ends within fuel `n` (it does not end in `timeout`) behaves identically with any larger
    fuel: the observable of a terminating program does not depend on the bound. -/
theorem run_more_fuel (n k : Nat) (m : Module) (h : (run n m).ending ≠ "timeout") : run (n + k) m = run n m := by
  unfold run at *
  have hne : execL ⟨collect m.body, false⟩ n St.init m.body ≠ .timeout := by
    intro ht
    rw [ht] at h
    exact h rfl
  rw [execL_more_fuel (o := false) _ n k _ _ hne]

end PMV.PyCore

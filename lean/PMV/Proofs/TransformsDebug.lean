import PMV.Proofs.TransformsMap
/-
  C05: absorption for a statement-dropping transform, given only the suite-level step (so that it also serves options
  whose canonical form is more than a filter: remove_debug).
-/
namespace PMV.Transforms
open PMV PMV.Spec.Rewrites

section AbsorbG
variable (c : COpts) (q : Stmt → Bool)
  (hsuite : ∀ (cls : Option (List Expr × List Expr)) (fb m : Bool) (ys : List Stmt),
    cSuite c fb (cBody c cls (filterSuite q m ys)) = cSuite c fb (cBody c cls ys))
include hsuite

mutual
theorem gAbsorbStmt : (s : Stmt) → (cls : Option (List Expr × List Expr)) →
    cStmt c cls (travStmt (dropT q) s) = cStmt c cls s
  | .functionDef a n args body decs ret tps, cls => by
    simp only [travStmt, dropT_suiteF, dropT_stmtF, dropT_funcBodyF, cStmt]
    rw [hsuite none, gAbsorbBody body none]
  | .classDef n bases kws body decs tps, cls => by
    simp only [travStmt, dropT_suiteF, dropT_stmtF, dropT_funcBodyF, cStmt]
    rw [hsuite _, gAbsorbBody body _]
  | .for_ a tg it body orelse, cls => by
    simp only [travStmt, dropT_suiteF, dropT_stmtF, dropT_funcBodyF, cStmt]
    rw [hsuite cls, gAbsorbBody body cls]
    cases orelse with
    | nil => simp [cBody]
    | cons o os =>
      simp only [List.isEmpty_cons, Bool.false_eq_true, if_false]
      rw [hsuite cls, gAbsorbBody (o :: os) cls]
  | .while_ t body orelse, cls => by
    simp only [travStmt, dropT_suiteF, dropT_stmtF, dropT_funcBodyF, cStmt]
    rw [hsuite cls, gAbsorbBody body cls]
    cases orelse with
    | nil => simp [cBody]
    | cons o os =>
      simp only [List.isEmpty_cons, Bool.false_eq_true, if_false]
      rw [hsuite cls, gAbsorbBody (o :: os) cls]
  | .if_ t body orelse, cls => by
    simp only [travStmt, dropT_suiteF, dropT_stmtF, dropT_funcBodyF, cStmt]
    rw [hsuite cls, gAbsorbBody body cls]
    cases orelse with
    | nil => simp [cBody]
    | cons o os =>
      simp only [List.isEmpty_cons, Bool.false_eq_true, if_false]
      rw [hsuite cls, gAbsorbBody (o :: os) cls]
  | .with_ a items body, cls => by
    simp only [travStmt, dropT_suiteF, dropT_stmtF, dropT_funcBodyF, cStmt]
    rw [hsuite cls, gAbsorbBody body cls]
  | .try_ false body hs orelse fin, cls => by
    simp only [travStmt, dropT_suiteF, dropT_stmtF, dropT_funcBodyF, cStmt]
    rw [hsuite cls, gAbsorbBody body cls, gAbsorbHandlers hs cls]
    have ho : cSuite c false (cBody c cls (if orelse.isEmpty then [] else filterSuite q false (travBody (dropT q) orelse)))
        = cSuite c false (cBody c cls orelse) := by
      cases orelse with
      | nil => simp [cBody]
      | cons o os =>
        simp only [List.isEmpty_cons, Bool.false_eq_true, if_false]
        rw [hsuite cls, gAbsorbBody (o :: os) cls]
    have hf : cSuite c false (cBody c cls (if fin.isEmpty then [] else filterSuite q false (travBody (dropT q) fin)))
        = cSuite c false (cBody c cls fin) := by
      cases fin with
      | nil => simp [cBody]
      | cons o os =>
        simp only [List.isEmpty_cons, Bool.false_eq_true, if_false]
        rw [hsuite cls, gAbsorbBody (o :: os) cls]
    rw [ho, hf]
  | .try_ true body hs orelse fin, cls => by
    simp only [travStmt, dropT_suiteF, dropT_stmtF, dropT_funcBodyF, cStmt]
    rw [gAbsorbBody body cls, gAbsorbHandlers hs cls, gAbsorbBody orelse cls, gAbsorbBody fin cls]
  | .match_ s cases, cls => by
    simp only [travStmt, dropT_suiteF, dropT_stmtF, dropT_funcBodyF, cStmt]
    rw [gAbsorbCases cases cls]
  | .return_ v, cls => by simp [travStmt]
  | .delete ts, cls => by simp [travStmt]
  | .assign ts v, cls => by simp [travStmt]
  | .typeAlias n tps v, cls => by simp [travStmt]
  | .augAssign tg op v, cls => by simp [travStmt]
  | .annAssign tg ann v s, cls => by simp [travStmt]
  | .raise_ e ca, cls => by simp [travStmt]
  | .assert_ t m, cls => by simp [travStmt]
  | .import_ ns, cls => by simp [travStmt]
  | .importFrom m ns l, cls => by simp [travStmt]
  | .global ns, cls => by simp [travStmt]
  | .nonlocal ns, cls => by simp [travStmt]
  | .expr v, cls => by simp [travStmt]
  | .pass, cls => by simp [travStmt]
  | .break_, cls => by simp [travStmt]
  | .continue_, cls => by simp [travStmt]
theorem gAbsorbBody : (b : List Stmt) → (cls : Option (List Expr × List Expr)) →
    cBody c cls (travBody (dropT q) b) = cBody c cls b
  | [], cls => by simp [travBody, cBody]
  | s :: ss, cls => by
    simp only [travBody, cBody]
    rw [gAbsorbStmt s cls, gAbsorbBody ss cls]
theorem gAbsorbHandlers : (hs : List Handler) → (cls : Option (List Expr × List Expr)) →
    cHandlers c cls (travHandlers (dropT q) hs) = cHandlers c cls hs
  | [], cls => by simp [travHandlers, cHandlers]
  | .mk ty n body :: hs, cls => by
    simp only [travHandlers, cHandlers]
    rw [gAbsorbBody body cls, gAbsorbHandlers hs cls]
theorem gAbsorbCases : (cs : List MatchCase) → (cls : Option (List Expr × List Expr)) →
    cCases c cls (travCases (dropT q) cs) = cCases c cls cs
  | [], cls => by simp [travCases, cCases]
  | .mk p g body :: cs, cls => by
    simp only [travCases, cCases]
    rw [gAbsorbBody body cls, gAbsorbCases cs cls]
end

end AbsorbG

theorem canon_dropG (c : COpts) (q : Stmt → Bool)
    (hsuite : ∀ (cls : Option (List Expr × List Expr)) (fb m : Bool) (ys : List Stmt),
      cSuite c fb (cBody c cls (filterSuite q m ys)) = cSuite c fb (cBody c cls ys))
    (hl : (c.literals && c.keepModuleDoc) = false) (hp : c.posargs = false) (m : Module) :
    canonModule c (travModule (dropT q) m) = canonModule c m := by
  rw [canonModule_simple c hl hp, canonModule_simple c hl hp]
  simp only [travModule, dropT_suiteF]
  rw [hsuite none, gAbsorbBody c q hsuite m.body none]


/-! ### remove_debug -/

def DbgOnly : COpts := { debug := true }

theorem cSuite_dbgOnly (fb : Bool) (b : List Stmt) :
    cSuite DbgOnly fb b = (b.flatMap (debugSplice DbgOnly)).filter (fun s => !isZero s) := by
  unfold cSuite
  have h2 : ∀ l : List Stmt, l.flatMap (splitImport DbgOnly) = l := fun l => by
    rw [show (splitImport DbgOnly) = (fun s => [s]) from funext (splitImport_id DbgOnly rfl)]; exact flatMap_single l
  have h3 : (fun s => !dropStmt DbgOnly s) = (fun s => !isZero s) := by
    funext s; simp [dropStmt, DbgOnly, COpts.placeholders]
  simp only [h2, h3]
  simp [DbgOnly, List.filter_filter]

theorem isDebugName_eq {l : Expr} (h : isDebugName l = true) : ∃ x, l = .name "__debug__" x := by
  unfold isDebugName at h
  split at h
  · exact ⟨_, rfl⟩
  · cases h

/-- what the implementation removes, the specification splices to nothing -/
theorem splice_removed (cls : Option (List Expr × List Expr)) (s : Stmt) (h : canRemoveDebug s = true) :
    debugSplice DbgOnly (cStmt DbgOnly cls s) = [] := by
  cases s with
  | if_ test body orelse =>
    simp only [canRemoveDebug, Bool.and_eq_true] at h
    obtain ⟨he, ht⟩ := h
    have he' : orelse = [] := by simpa using he
    subst he'
    have hdt : isDebugTest test = true := by
      split at ht
      · simp [isDebugTest]
      · obtain ⟨x, rfl⟩ := isDebugName_eq ht; simp [isDebugTest]
      · obtain ⟨x, rfl⟩ := isDebugName_eq ht; simp [isDebugTest]
      · obtain ⟨x, rfl⟩ := isDebugName_eq ht; simp [isDebugTest]
      · cases ht
    simp [cStmt, cExpr, debugSplice, DbgOnly, hdt, cBody, cSuite]
  | _ => simp [canRemoveDebug] at h

theorem splice_filter (cls : Option (List Expr × List Expr)) : (ys : List Stmt) →
    (cBody DbgOnly cls ys).flatMap (debugSplice DbgOnly) = (cBody DbgOnly cls (ys.filter (fun s => !canRemoveDebug s))).flatMap (debugSplice DbgOnly)
  | [] => by simp [cBody]
  | s :: ss => by
    simp only [cBody, List.flatMap_cons, List.filter_cons]
    cases hq : canRemoveDebug s
    · simp [cBody, List.flatMap_cons, splice_filter cls ss]
    · simp [splice_removed cls s hq, splice_filter cls ss]

theorem debug_suite (cls : Option (List Expr × List Expr)) (fb m : Bool) (ys : List Stmt) :
    cSuite DbgOnly fb (cBody DbgOnly cls (filterSuite canRemoveDebug m ys)) = cSuite DbgOnly fb (cBody DbgOnly cls ys) := by
  rw [cSuite_dbgOnly, cSuite_dbgOnly, splice_filter cls ys]
  unfold filterSuite
  by_cases he : (ys.filter (fun s => !canRemoveDebug s)).isEmpty = true
  · have : ys.filter (fun s => !canRemoveDebug s) = [] := by simpa using he
    rw [this]
    cases m <;> simp [cBody, cStmt, zeroStmt, cExpr, debugSplice, isZero]
  · simp [he]


end PMV.Transforms

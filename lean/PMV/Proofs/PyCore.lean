import PMV.Spec.PyCore
import PMV.Proofs.Transforms
import PMV.Model.Minify
import PMV.Proofs.PyCoreBind
import PMV.Model.Scope
/-
  C01 helper lemmas: a suite transformer whose pieces are semantically neutral (`Sound`) preserves the
  PyCore behaviour of every statement, at every nesting depth, through loops and calls, for every fuel.
-/
namespace PMV.PyCore
open PMV PMV.Transforms

variable {o : Bool}

/-- the function table of the transformed module -/
def mapT (t : SuiteT) : FTab → FTab
  | [] => []
  | (n, ps, b) :: rest => (n, ps, bodyT t b) :: mapT t rest

/-- the pieces of a transformer are semantically neutral -/
structure Sound (o : Bool) (t : SuiteT) : Prop where
  suite : ∀ ft fuel s m b, execL ⟨ft, o⟩ fuel s (t.suiteF m b) = execL ⟨ft, o⟩ fuel s b
  stmt : ∀ ft fuel s st, exec1 ⟨ft, o⟩ fuel s (t.stmtF st) = exec1 ⟨ft, o⟩ fuel s st
  body : ∀ ft fuel s b, asCall (execL ⟨ft, o⟩ fuel s (t.funcBodyF b)) = asCall (execL ⟨ft, o⟩ fuel s b)
  globals : ∀ b, declaredGlobals (bodyT t b) = declaredGlobals b

theorem lookup_mapT (t : SuiteT) (f : String) : ∀ ft : FTab,
    (mapT t ft).lookup f = (ft.lookup f).map (fun pb => (pb.1, bodyT t pb.2))
  | [] => rfl
  | (n, ps, b) :: rest => by
    simp only [mapT, List.lookup]
    cases f == n <;> simp [lookup_mapT t f rest]

theorem execL_nil (ft : FTab) (fuel : Nat) (s : St) : execL ⟨ft, o⟩ fuel s [] = .ok (.normal s) := by
  rw [execL]

theorem execL_cons (ft : FTab) (fuel : Nat) (s : St) (st : Stmt) (rest : List Stmt) :
    execL ⟨ft, o⟩ fuel s (st :: rest) =
      (match exec1 ⟨ft, o⟩ fuel s st with
       | .ok (.normal s') => execL ⟨ft, o⟩ fuel s' rest
       | r => r) := by
  rw [execL]; rfl

/-- a statement that is neither `if` nor `while`: a call of a table function or a simple statement -/
def flatExec (env : RunEnv) (fuel : Nat) (s : St) (st : Stmt) : Res Flow :=
  if env.opt && isAssertStmt st then .ok (.normal s)
  else match callOf st with
    | some (f, args, target) => callFn env fuel s f args target
    | none => simpleExec s st

def isBlockStmt : Stmt → Bool
  | .if_ .. => true
  | .while_ .. => true
  | .try_ false .. => true
  | .for_ false .. => true
  | _ => false

theorem flat_simple (env : RunEnv) (fuel : Nat) (s : St) (st : Stmt) (ha : isAssertStmt st = false) (hc : callOf st = none) :
    flatExec env fuel s st = simpleExec s st := by
  unfold flatExec
  simp [ha, hc]

theorem exec1_flat (ft : FTab) (fuel : Nat) (s : St) (st : Stmt) (h : isBlockStmt st = false) :
    exec1 ⟨ft, o⟩ fuel s st = flatExec ⟨ft, o⟩ fuel s st := by
  cases st
  case try_ star _ _ _ _ =>
    cases star
    · simp [isBlockStmt] at h
    · simp only [exec1, flatExec]; rfl
  case for_ isAsync _ _ _ _ =>
    cases isAsync
    · simp [isBlockStmt] at h
    · simp only [exec1, flatExec]; rfl
  all_goals first | (simp [isBlockStmt] at h; done) | (simp only [exec1, flatExec]; rfl)

end PMV.PyCore

namespace PMV.PyCore
open PMV PMV.Transforms

/-- the transform leaves the set of local names of every function of the table alone (and keeps its body inside the core) -/
def Stable (t : SuiteT) (ft : FTab) : Prop :=
  ∀ f ps b, ft.lookup f = some (ps, b) → (bindTop (bodyT t b)).map canonNames = (bindTop b).map canonNames

/-- the claim at one fuel level -/
def Good (o : Bool) (t : SuiteT) (ft : FTab) (n : Nat) : Prop :=
  (∀ s st, exec1 ⟨mapT t ft, o⟩ n s (travStmt t st) = exec1 ⟨ft, o⟩ n s st) ∧
  (∀ s l, execL ⟨mapT t ft, o⟩ n s (travBody t l) = execL ⟨ft, o⟩ n s l)

theorem callFn_ok (t : SuiteT) (h : Sound o t) (ft : FTab) (hft : Stable t ft) (n : Nat) (ih : ∀ m, m < n → Good o t ft m)
    (s : St) (f : String) (args : List Expr) (tgt : Option String) :
    callFn ⟨mapT t ft, o⟩ n s f args tgt = callFn ⟨ft, o⟩ n s f args tgt := by
  rw [callFn, callFn]
  cases evalArgs s args with
  | none => rfl
  | some r =>
    cases r with
    | error x => rfl
    | ok vs =>
      simp only [lookup_mapT]
      cases hl : ft.lookup f with
      | none => rfl
      | some pb =>
        obtain ⟨ps, b⟩ := pb
        simp only [Option.map_some]
        have hst := hft f ps b hl
        cases h1 : bindTop (bodyT t b) with
        | none =>
          cases h2 : bindTop b with
          | none => rfl
          | some bound => rw [h1, h2] at hst; simp at hst
        | some bound' =>
        cases h2 : bindTop b with
        | none => rw [h1, h2] at hst; simp at hst
        | some bound =>
        rw [h1, h2] at hst
        simp only [Option.map_some, Option.some.injEq] at hst
        simp only [hst]
        cases n with
        | zero => rfl
        | succ k =>
          simp only [h.globals]
          have hb : ∀ inner, asCall (execL ⟨mapT t ft, o⟩ k inner (bodyT t b)) = asCall (execL ⟨ft, o⟩ k inner b) := by
            intro inner
            unfold bodyT
            rw [h.body, h.suite, (ih k (Nat.lt_succ_self k)).2]
          simp only [hb]

theorem flat_same (t : SuiteT) (h : Sound o t) (ft : FTab) (hft : Stable t ft) (n : Nat) (ih : ∀ m, m < n → Good o t ft m)
    (s : St) (st : Stmt) (hst : isBlockStmt st = false) :
    exec1 ⟨mapT t ft, o⟩ n s st = exec1 ⟨ft, o⟩ n s st := by
  rw [exec1_flat _ _ _ _ hst, exec1_flat _ _ _ _ hst]
  unfold flatExec
  simp only
  by_cases ha : (o && isAssertStmt st) = true
  · simp only [ha, if_true]
  · simp only [ha, Bool.false_eq_true, if_false]
    cases callOf st with
    | none => rfl
    | some r => obtain ⟨f, args, tgt⟩ := r; exact callFn_ok t h ft hft n ih s f args tgt

theorem orelse_ok (t : SuiteT) (h : Sound o t) (ft : FTab) (n : Nat) (s : St) (os : List Stmt)
    (ho : execL ⟨mapT t ft, o⟩ n s (travBody t os) = execL ⟨ft, o⟩ n s os) :
    execL ⟨mapT t ft, o⟩ n s (if os.isEmpty then [] else t.suiteF false (travBody t os)) = execL ⟨ft, o⟩ n s os := by
  cases os with
  | nil => simp [execL_nil]
  | cons x xs => simp only [List.isEmpty_cons, Bool.false_eq_true, if_false]; rw [h.suite, ho]

/-- `for` loops agree when body and `else` agree at every fuel up to the current one -/
theorem execFor_congr (ft ft' : FTab) (body body' orelse orelse' : List Stmt) (N : Nat)
    (hb : ∀ f, f ≤ N → ∀ s, execL ⟨ft', o⟩ f s body' = execL ⟨ft, o⟩ f s body)
    (ho : ∀ f, f ≤ N → ∀ s, execL ⟨ft', o⟩ f s orelse' = execL ⟨ft, o⟩ f s orelse) :
    ∀ f, f ≤ N → ∀ (s : St) (x : String) (i k : Int),
      execFor ⟨ft', o⟩ f s x i k body' orelse' = execFor ⟨ft, o⟩ f s x i k body orelse := by
  intro f
  induction f with
  | zero =>
    intro hf s x i k
    rw [execFor.eq_1, execFor.eq_1, ho 0 hf]
  | succ f ihf =>
    intro hf s x i k
    rw [execFor.eq_2, execFor.eq_2, hb (f + 1) hf, ho (f + 1) hf]
    have hrec : ∀ s', execFor ⟨ft', o⟩ f s' x (i + 1) k body' orelse' = execFor ⟨ft, o⟩ f s' x (i + 1) k body orelse :=
      fun s' => ihf (Nat.le_of_succ_le hf) s' x (i + 1) k
    simp only [hrec]

mutual
theorem exec1_ok (t : SuiteT) (h : Sound o t) (ft : FTab) (hft : Stable t ft) (n : Nat) (ih : ∀ m, m < n → Good o t ft m) :
    (st : Stmt) → (s : St) → exec1 ⟨mapT t ft, o⟩ n s (travStmt t st) = exec1 ⟨ft, o⟩ n s st
  | .if_ c body orelse, s => by
    simp only [travStmt]
    rw [exec1.eq_1, exec1.eq_1, h.suite, execL_ok t h ft hft n ih body s,
      orelse_ok t h ft n s orelse (execL_ok t h ft hft n ih orelse s)]
  | .while_ c body orelse, s => by
    simp only [travStmt]
    cases n with
    | zero =>
      rw [exec1.eq_2, exec1.eq_2, orelse_ok t h ft 0 s orelse (execL_ok t h ft hft 0 ih orelse s)]
    | succ k =>
      rw [exec1.eq_3, exec1.eq_3, h.suite, execL_ok t h ft hft (k + 1) ih body s,
        orelse_ok t h ft (k + 1) s orelse (execL_ok t h ft hft (k + 1) ih orelse s)]
      have hw : ∀ s', exec1 ⟨mapT t ft, o⟩ k s'
          (.while_ c (t.suiteF false (travBody t body)) (if orelse.isEmpty then [] else t.suiteF false (travBody t orelse)))
          = exec1 ⟨ft, o⟩ k s' (.while_ c body orelse) := by
        intro s'
        have := (ih k (Nat.lt_succ_self k)).1 s' (.while_ c body orelse)
        simpa only [travStmt] using this
      simp only [hw]
  | .functionDef a nm args body decs ret tps, s => by
    simp only [travStmt]
    rw [h.stmt, exec1_flat _ _ _ _ rfl, exec1_flat _ _ _ _ rfl]
    have hp : ∀ b1 b2, isPlainDef (.functionDef a nm args b1 decs ret tps) = isPlainDef (.functionDef a nm args b2 decs ret tps) := by
      intro b1 b2; cases a <;> cases decs <;> cases ret <;> cases tps <;> rfl
    simp [flatExec, isAssertStmt, callOf, simpleExec, hp _ body]
  | .classDef nm bases kws body decs tps, s => by
    simp only [travStmt]
    rw [h.stmt, exec1_flat _ _ _ _ rfl, exec1_flat _ _ _ _ rfl]
    simp [flatExec, isAssertStmt, callOf, simpleExec]
  | .for_ true .., s => by
    simp only [travStmt]
    rw [exec1_flat _ _ _ _ rfl, exec1_flat _ _ _ _ rfl]
    simp [flatExec, isAssertStmt, callOf, simpleExec]
  | .for_ false tg it body orelse, s => by
    simp only [travStmt]
    rw [exec1.eq_4, exec1.eq_4]
    have hb : ∀ f, f ≤ n → ∀ s, execL ⟨mapT t ft, o⟩ f s (t.suiteF false (travBody t body)) = execL ⟨ft, o⟩ f s body := by
      intro f hf s
      rw [h.suite]
      rcases Nat.lt_or_eq_of_le hf with hlt | heq
      · exact (ih f hlt).2 s body
      · subst heq; exact execL_ok t h ft hft f ih body s
    have ho : ∀ f, f ≤ n → ∀ s, execL ⟨mapT t ft, o⟩ f s (if orelse.isEmpty then [] else t.suiteF false (travBody t orelse)) = execL ⟨ft, o⟩ f s orelse := by
      intro f hf s
      apply orelse_ok t h ft f s orelse
      rcases Nat.lt_or_eq_of_le hf with hlt | heq
      · exact (ih f hlt).2 s orelse
      · subst heq; exact execL_ok t h ft hft f ih orelse s
    have hfor : ∀ (s : St) (x : String) (k : Int),
        execFor ⟨mapT t ft, o⟩ n s x 0 k (t.suiteF false (travBody t body)) (if orelse.isEmpty then [] else t.suiteF false (travBody t orelse))
          = execFor ⟨ft, o⟩ n s x 0 k body orelse :=
      fun s x k => execFor_congr ft (mapT t ft) body _ orelse _ n hb ho n (Nat.le_refl n) s x 0 k
    simp only [hfor]
  | .with_ .., s => by
    simp only [travStmt]
    rw [exec1_flat _ _ _ _ rfl, exec1_flat _ _ _ _ rfl]
    simp [flatExec, isAssertStmt, callOf, simpleExec]
  | .try_ true .., s => by
    simp only [travStmt]
    rw [exec1_flat _ _ _ _ rfl, exec1_flat _ _ _ _ rfl]
    simp [flatExec, isAssertStmt, callOf, simpleExec]
  | .try_ false body hs orelse fin, s => by
    simp only [travStmt]
    rw [exec1.eq_5, exec1.eq_5, h.suite, execL_ok t h ft hft n ih body s]
    have he : (fun s1 => execL ⟨mapT t ft, o⟩ n s1 (if orelse.isEmpty then [] else t.suiteF false (travBody t orelse)))
        = (fun s1 => execL ⟨ft, o⟩ n s1 orelse) := by
      funext s1; exact orelse_ok t h ft n s1 orelse (execL_ok t h ft hft n ih orelse s1)
    have hf : (fun s1 => execL ⟨mapT t ft, o⟩ n s1 (if fin.isEmpty then [] else t.suiteF false (travBody t fin)))
        = (fun s1 => execL ⟨ft, o⟩ n s1 fin) := by
      funext s1; exact orelse_ok t h ft n s1 fin (execL_ok t h ft hft n ih fin s1)
    have hh : (fun x s1 => execH ⟨mapT t ft, o⟩ n s1 x (travHandlers t hs)) = (fun x s1 => execH ⟨ft, o⟩ n s1 x hs) := by
      funext x s1; exact execH_ok t h ft hft n ih hs s1 x
    rw [he, hf, hh]
  | .match_ .., s => by
    simp only [travStmt]
    rw [exec1_flat _ _ _ _ rfl, exec1_flat _ _ _ _ rfl]
    simp [flatExec, isAssertStmt, callOf, simpleExec]
  | .return_ v, s => by simp only [travStmt]; rw [h.stmt]; exact flat_same t h ft hft n ih s _ rfl
  | .delete v, s => by simp only [travStmt]; rw [h.stmt]; exact flat_same t h ft hft n ih s _ rfl
  | .assign .., s => by simp only [travStmt]; rw [h.stmt]; exact flat_same t h ft hft n ih s _ rfl
  | .typeAlias .., s => by simp only [travStmt]; rw [h.stmt]; exact flat_same t h ft hft n ih s _ rfl
  | .augAssign .., s => by simp only [travStmt]; rw [h.stmt]; exact flat_same t h ft hft n ih s _ rfl
  | .annAssign .., s => by simp only [travStmt]; rw [h.stmt]; exact flat_same t h ft hft n ih s _ rfl
  | .raise_ .., s => by simp only [travStmt]; rw [h.stmt]; exact flat_same t h ft hft n ih s _ rfl
  | .assert_ .., s => by simp only [travStmt]; rw [h.stmt]; exact flat_same t h ft hft n ih s _ rfl
  | .import_ .., s => by simp only [travStmt]; rw [h.stmt]; exact flat_same t h ft hft n ih s _ rfl
  | .importFrom .., s => by simp only [travStmt]; rw [h.stmt]; exact flat_same t h ft hft n ih s _ rfl
  | .global _, s => by simp only [travStmt]; rw [h.stmt]; exact flat_same t h ft hft n ih s _ rfl
  | .nonlocal _, s => by simp only [travStmt]; rw [h.stmt]; exact flat_same t h ft hft n ih s _ rfl
  | .expr _, s => by simp only [travStmt]; rw [h.stmt]; exact flat_same t h ft hft n ih s _ rfl
  | .pass, s => by simp only [travStmt]; rw [h.stmt]; exact flat_same t h ft hft n ih s _ rfl
  | .break_, s => by simp only [travStmt]; rw [h.stmt]; exact flat_same t h ft hft n ih s _ rfl
  | .continue_, s => by simp only [travStmt]; rw [h.stmt]; exact flat_same t h ft hft n ih s _ rfl
theorem execH_ok (t : SuiteT) (h : Sound o t) (ft : FTab) (hft : Stable t ft) (n : Nat) (ih : ∀ m, m < n → Good o t ft m) :
    (hs : List Handler) → (s : St) → (x : String) → execH ⟨mapT t ft, o⟩ n s x (travHandlers t hs) = execH ⟨ft, o⟩ n s x hs
  | [], s, x => by simp only [travHandlers]; rw [execH.eq_1, execH.eq_1]
  | .mk ty nm hbody :: rest, s, x => by
    simp only [travHandlers]
    rw [execH.eq_2, execH.eq_2, execL_ok t h ft hft n ih hbody s, execH_ok t h ft hft n ih rest s x]
theorem execL_ok (t : SuiteT) (h : Sound o t) (ft : FTab) (hft : Stable t ft) (n : Nat) (ih : ∀ m, m < n → Good o t ft m) :
    (l : List Stmt) → (s : St) → execL ⟨mapT t ft, o⟩ n s (travBody t l) = execL ⟨ft, o⟩ n s l
  | [], s => by simp [travBody, execL_nil]
  | st :: rest, s => by
    simp only [travBody]
    rw [execL_cons, execL_cons, exec1_ok t h ft hft n ih st s]
    have hr : ∀ s', execL ⟨mapT t ft, o⟩ n s' (travBody t rest) = execL ⟨ft, o⟩ n s' rest := execL_ok t h ft hft n ih rest
    simp only [hr]
end

theorem good_all (t : SuiteT) (h : Sound o t) (ft : FTab) (hft : Stable t ft) (n : Nat) : Good o t ft n := by
  induction n using Nat.strongRecOn with
  | _ n ih => exact ⟨fun s st => exec1_ok t h ft hft n ih st s, fun s l => execL_ok t h ft hft n ih l s⟩

end PMV.PyCore

/-! ### from statements to whole modules -/
namespace PMV.PyCore
open PMV PMV.Transforms

/-- extra conditions for the module level: the transformer neither makes nor loses table entries -/
structure TableSound (t : SuiteT) : Prop where
  stmtDef : ∀ st, defOf (t.stmtF st) = defOf st
  suiteDef : ∀ b, collect (t.suiteF true b) = collect b

theorem defOf_trav (t : SuiteT) (ht : TableSound t) (st : Stmt) :
    defOf (travStmt t st) = (defOf st).map (fun e => (e.1, e.2.1, bodyT t e.2.2)) := by
  cases st
  case functionDef a n args body decs ret tps =>
    simp only [travStmt, ht.stmtDef]
    cases a <;> cases decs <;> cases ret <;> cases tps <;> simp [defOf, bodyT]
    cases paramNames args <;> simp
  case try_ st _ _ _ _ => cases st <;> simp [travStmt, defOf]
  all_goals (simp only [travStmt, ht.stmtDef]; simp [defOf])

theorem collect_trav (t : SuiteT) (ht : TableSound t) : ∀ l, collect (travBody t l) = mapT t (collect l)
  | [] => rfl
  | st :: rest => by
    simp only [travBody, collect, defOf_trav t ht st]
    cases defOf st with
    | none => simp [collect_trav t ht rest]
    | some e => obtain ⟨n, ps, b⟩ := e; simp [mapT, collect_trav t ht rest]

/-- Whole-module preservation for a sound transformer: same printed lines, same ending, same globals,
    for every fuel (so also the same divergence behaviour up to any bound). -/
theorem run_trav (t : SuiteT) (h : Sound false t) (ht : TableSound t) (n : Nat) (m : Module)
    (hst : Stable t (collect m.body)) :
    run n (travModule t m) = run n m := by
  unfold run travModule
  simp only
  rw [ht.suiteDef, collect_trav t ht, h.suite, (good_all t h (collect m.body) hst n).2]

/-- the same under `python -O` -/
theorem runO_trav (t : SuiteT) (h : Sound true t) (ht : TableSound t) (n : Nat) (m : Module)
    (hst : Stable t (collect m.body)) :
    runO n (travModule t m) = runO n m := by
  unfold runO travModule
  simp only
  rw [ht.suiteDef, collect_trav t ht, h.suite, (good_all t h (collect m.body) hst n).2]

theorem lookup_mem {α β : Type} [BEq α] [LawfulBEq α] (l : List (α × β)) (k : α) (v : β) (h : l.lookup k = some v) : (k, v) ∈ l := by
  induction l with
  | nil => simp at h
  | cons p rest ih =>
    obtain ⟨k', v'⟩ := p
    simp only [List.lookup] at h
    by_cases hk : (k == k') = true
    · simp only [hk] at h
      have : k = k' := by simpa using hk
      subst this
      simp only [Option.some.injEq] at h
      subst h
      simp
    · have hk' : (k == k') = false := by simpa using hk
      simp only [hk'] at h
      exact List.mem_cons_of_mem _ (ih h)

theorem stable_of_scopeStable (t : SuiteT) (m : Module) (h : scopeStable t m = true) : Stable t (collect m.body) := by
  intro f ps b hl
  have hm := lookup_mem _ f (ps, b) hl
  unfold scopeStable at h
  rw [List.all_eq_true] at h
  have := h _ hm
  simpa using this

/-- a transform whose pieces keep the bound names keeps the local names of every function -/
theorem stable_of_bindOK (t : SuiteT) (h : BindOK t) (ft : FTab) : Stable t ft :=
  fun _ _ b _ => by rw [show bindTop (bodyT t b) = bindTop b from bindTop_bodyT t h b]

/-! ### instances: dropping statements that do nothing -/

structure NoOpPred (o : Bool) (q : Stmt → Bool) : Prop where
  exec : ∀ ft fuel s st, q st = true → exec1 ⟨ft, o⟩ fuel s st = .ok (.normal s)
  notDef : ∀ st, q st = true → defOf st = none
  notGlobal : ∀ st, q st = true → globalsOf st = []

theorem exec_zero (ft : FTab) (fuel : Nat) (s : St) : exec1 ⟨ft, o⟩ fuel s zeroStmt = .ok (.normal s) := by
  rw [exec1_flat _ _ _ _ rfl, flat_simple _ _ _ _ rfl rfl]; rfl

theorem execL_filter (q : Stmt → Bool) (hq : NoOpPred o q) (ft : FTab) (fuel : Nat) :
    ∀ (b : List Stmt) (s : St), execL ⟨ft, o⟩ fuel s (b.filter (fun st => !q st)) = execL ⟨ft, o⟩ fuel s b
  | [], _ => rfl
  | st :: rest, s => by
    cases hst : q st with
    | true =>
      simp only [List.filter, hst, Bool.not_true]
      rw [execL_cons, hq.exec ft fuel s st hst]
      exact execL_filter q hq ft fuel rest s
    | false =>
      simp only [List.filter, hst, Bool.not_false]
      rw [execL_cons, execL_cons]
      have hr : ∀ s', execL ⟨ft, o⟩ fuel s' (rest.filter (fun st => !q st)) = execL ⟨ft, o⟩ fuel s' rest := execL_filter q hq ft fuel rest
      simp only [hr]

theorem execL_filterSuite (q : Stmt → Bool) (hq : NoOpPred o q) (ft : FTab) (fuel : Nat) (s : St) (m : Bool) (b : List Stmt) :
    execL ⟨ft, o⟩ fuel s (filterSuite q m b) = execL ⟨ft, o⟩ fuel s b := by
  rcases filterSuite_cases q m b with h | ⟨he, _, hz⟩
  · rw [h, execL_filter q hq]
  · rw [hz, ← execL_filter q hq ft fuel b s, he, execL_cons, exec_zero]

theorem collect_filter (q : Stmt → Bool) (hq : NoOpPred o q) : ∀ b : List Stmt, collect (b.filter (fun st => !q st)) = collect b
  | [] => rfl
  | st :: rest => by
    cases hst : q st with
    | true => simp [List.filter, hst, collect, hq.notDef st hst, collect_filter q hq rest]
    | false => simp [List.filter, hst, collect, collect_filter q hq rest]

theorem globals_filter (q : Stmt → Bool) (hq : NoOpPred o q) : ∀ b : List Stmt,
    declaredGlobals (b.filter (fun st => !q st)) = declaredGlobals b
  | [] => rfl
  | st :: rest => by
    cases hst : q st with
    | true => simp [List.filter, hst, declaredGlobals, hq.notGlobal st hst, globals_filter q hq rest]
    | false => simp [List.filter, hst, declaredGlobals, globals_filter q hq rest]

theorem globalsOf_trav (t : SuiteT) (hs : ∀ st, globalsOf (t.stmtF st) = globalsOf st) (st : Stmt) :
    globalsOf (travStmt t st) = globalsOf st := by
  cases st
  case try_ st _ _ _ _ => cases st <;> simp [travStmt, globalsOf]
  all_goals (simp only [travStmt, hs]; try simp [globalsOf])

theorem globals_trav (t : SuiteT) (hs : ∀ st, globalsOf (t.stmtF st) = globalsOf st) :
    ∀ b, declaredGlobals (travBody t b) = declaredGlobals b
  | [] => rfl
  | st :: rest => by simp [travBody, declaredGlobals, globalsOf_trav t hs st, globals_trav t hs rest]

theorem dropT_sound (q : Stmt → Bool) (hq : NoOpPred o q) : Sound o (dropT q) where
  suite := fun ft fuel s m b => execL_filterSuite q hq ft fuel s m b
  stmt := fun _ _ _ _ => rfl
  body := fun _ _ _ _ => rfl
  globals := by
    intro b
    unfold bodyT
    simp only [dropT_funcBodyF, dropT_suiteF]
    rcases filterSuite_cases q false (travBody (dropT q) b) with h | ⟨he, _, hz⟩
    · rw [h, globals_filter q hq, globals_trav (dropT q) (fun _ => rfl)]
    · rw [hz, ← globals_trav (dropT q) (fun _ => rfl) b, ← globals_filter q hq (travBody (dropT q) b), he]
      rfl

theorem dropT_table (q : Stmt → Bool) (hq : NoOpPred o q) : TableSound (dropT q) where
  stmtDef := fun _ => rfl
  suiteDef := by
    intro b
    simp only [dropT_suiteF]
    rcases filterSuite_cases q true b with h | ⟨_, hm, _⟩
    · rw [h, collect_filter q hq]
    · cases hm

theorem isPass_noop : NoOpPred o isPass where
  exec := by
    intro ft fuel s st h
    cases st <;> simp [isPass] at h
    rw [exec1_flat _ _ _ _ rfl, flat_simple _ _ _ _ rfl rfl]; rfl
  notDef := by intro st h; cases st <;> simp [isPass] at h; rfl
  notGlobal := by intro st h; cases st <;> simp [isPass] at h; rfl

end PMV.PyCore

namespace PMV.PyCore
open PMV PMV.Transforms

theorem isLiteral_noop : NoOpPred o isLiteralStmt where
  exec := by
    intro ft fuel s st h
    cases st with
    | expr e =>
      cases e with
      | constant c => rw [exec1_flat _ _ _ _ rfl, flat_simple _ _ _ _ rfl rfl]; rfl
      | _ => simp [isLiteralStmt] at h
    | _ => simp [isLiteralStmt] at h
  notDef := by
    intro st h
    cases st with
    | expr e => rfl
    | _ => simp [isLiteralStmt] at h
  notGlobal := by
    intro st h
    cases st with
    | expr e => rfl
    | _ => simp [isLiteralStmt] at h

/-! ### `return None` → `return`, and dropping a trailing `return` -/

theorem exec_returnNoneStmt (ft : FTab) (fuel : Nat) (s : St) (st : Stmt) :
    exec1 ⟨ft, o⟩ fuel s (returnNoneStmt st) = exec1 ⟨ft, o⟩ fuel s st := by
  unfold returnNoneStmt
  split
  · rw [exec1_flat _ _ _ _ rfl, exec1_flat _ _ _ _ rfl, flat_simple _ _ _ _ rfl rfl, flat_simple _ _ _ _ rfl rfl]; rfl
  · rfl

theorem asCall_append_return (ft : FTab) (fuel : Nat) : ∀ (l : List Stmt) (s : St),
    asCall (execL ⟨ft, o⟩ fuel s (l ++ [.return_ none])) = asCall (execL ⟨ft, o⟩ fuel s l)
  | [], s => by
    simp only [List.nil_append]
    rw [execL_cons, exec1_flat _ _ _ _ rfl, flat_simple _ _ _ _ rfl rfl, execL_nil]; rfl
  | st :: rest, s => by
    simp only [List.cons_append]
    rw [execL_cons, execL_cons]
    cases exec1 ⟨ft, o⟩ fuel s st with
    | ok fl =>
      cases fl with
      | normal s' => exact asCall_append_return ft fuel rest s'
      | _ => rfl
    | _ => rfl

theorem eq_dropLast_append {α : Type} (l : List α) (x : α) (h : l.getLast? = some x) : l = l.dropLast ++ [x] := by
  obtain ⟨ys, rfl⟩ := List.getLast?_eq_some_iff.mp h
  simp

theorem asCall_dropTrailingReturn (ft : FTab) (fuel : Nat) (s : St) (b : List Stmt) :
    asCall (execL ⟨ft, o⟩ fuel s (dropTrailingReturn b)) = asCall (execL ⟨ft, o⟩ fuel s b) := by
  have key : ∀ b' : List Stmt, asCall (execL ⟨ft, o⟩ fuel s b') = asCall (execL ⟨ft, o⟩ fuel s b) →
      asCall (execL ⟨ft, o⟩ fuel s (if b'.isEmpty then [zeroStmt] else b')) = asCall (execL ⟨ft, o⟩ fuel s b) := by
    intro b' hb'
    cases b' with
    | nil =>
      simp only [List.isEmpty_nil, if_true]
      rw [← hb', execL_cons, exec_zero]
    | cons x xs => simpa using hb'
  unfold dropTrailingReturn
  simp only
  apply key
  split
  · rename_i hlast
    have : b = b.dropLast ++ [.return_ none] := eq_dropLast_append _ _ hlast
    conv => rhs; rw [this]
    rw [asCall_append_return]
  · rfl

theorem globals_dropLast_return (b : List Stmt) (h : b.getLast? = some (.return_ none)) :
    declaredGlobals b.dropLast = declaredGlobals b := by
  have hb : b = b.dropLast ++ [.return_ none] := eq_dropLast_append _ _ h
  have happ : ∀ l : List Stmt, declaredGlobals (l ++ [.return_ none]) = declaredGlobals l := by
    intro l
    induction l with
    | nil => rfl
    | cons x xs ih => simp [declaredGlobals, ih]
  conv => rhs; rw [hb]
  rw [happ]

theorem globals_dropTrailingReturn (b : List Stmt) : declaredGlobals (dropTrailingReturn b) = declaredGlobals b := by
  have key : ∀ b' : List Stmt, declaredGlobals (if b'.isEmpty then [zeroStmt] else b') = declaredGlobals b' := by
    intro b'; cases b' <;> rfl
  unfold dropTrailingReturn
  simp only
  rw [key]
  split
  · rename_i hlast; exact globals_dropLast_return b hlast
  · rfl

theorem globalsOf_returnNoneStmt (st : Stmt) : globalsOf (returnNoneStmt st) = globalsOf st := by
  unfold returnNoneStmt; split <;> rfl

theorem defOf_returnNoneStmt (st : Stmt) : defOf (returnNoneStmt st) = defOf st := by
  unfold returnNoneStmt; split <;> rfl

theorem returnNone_sound : Sound o removeReturnNone where
  suite := fun _ _ _ _ _ => rfl
  stmt := fun ft fuel s st => exec_returnNoneStmt ft fuel s st
  body := fun ft fuel s b => asCall_dropTrailingReturn ft fuel s b
  globals := by
    intro b
    unfold bodyT
    show declaredGlobals (dropTrailingReturn (travBody removeReturnNone b)) = declaredGlobals b
    rw [globals_dropTrailingReturn, globals_trav removeReturnNone globalsOf_returnNoneStmt]

theorem returnNone_table : TableSound removeReturnNone where
  stmtDef := defOf_returnNoneStmt
  suiteDef := fun _ => rfl

end PMV.PyCore

namespace PMV.PyCore
open PMV PMV.Transforms PMV.Minify

/-! ### `raise N()` → `raise N` -/

theorem raiseName_stripCall (el : List String) (e c : Option Expr) :
    raiseName (stripCall el e) (stripCall el c) = raiseName e c := by
  cases c with
  | some c' =>
    have h1 : ∀ x, raiseName x (some c') = none := by intro x; unfold raiseName; split <;> simp_all
    have : ∃ c'', stripCall el (some c') = some c'' := by unfold stripCall; split <;> (try split) <;> simp
    obtain ⟨c'', hc⟩ := this
    have h2 : ∀ x, raiseName x (some c'') = none := by intro x; unfold raiseName; split <;> simp_all
    rw [hc, h1, h2]
  | none =>
    have hn : stripCall el none = none := rfl
    rw [hn]
    unfold stripCall
    split
    · split <;> rfl
    · rfl

theorem exec_bracketsStmt (el : List String) (ft : FTab) (fuel : Nat) (s : St) (st : Stmt) :
    exec1 ⟨ft, o⟩ fuel s (bracketsStmt el st) = exec1 ⟨ft, o⟩ fuel s st := by
  cases st
  case raise_ e c =>
    simp only [bracketsStmt]
    rw [exec1_flat _ _ _ _ rfl, exec1_flat _ _ _ _ rfl]
    rw [flat_simple _ _ _ _ rfl rfl, flat_simple _ _ _ _ rfl rfl]
    simp only [simpleExec, raiseName_stripCall]
  all_goals rfl

theorem brackets_sound (el : List String) : Sound o (removeBrackets el) where
  suite := fun _ _ _ _ _ => rfl
  stmt := fun ft fuel s st => exec_bracketsStmt el ft fuel s st
  body := fun _ _ _ _ => rfl
  globals := by
    intro b
    unfold bodyT
    show declaredGlobals (travBody (removeBrackets el) b) = declaredGlobals b
    apply globals_trav
    intro st
    cases st <;> rfl

theorem brackets_table (el : List String) : TableSound (removeBrackets el) where
  stmtDef := by intro st; cases st <;> rfl
  suiteDef := fun _ => rfl

end PMV.PyCore

namespace PMV.PyCore
open PMV PMV.Transforms PMV.Minify

theorem exec_removeObjectStmt (ft : FTab) (fuel : Nat) (s : St) (st : Stmt) :
    exec1 ⟨ft, o⟩ fuel s (removeObjectStmt st) = exec1 ⟨ft, o⟩ fuel s st := by
  cases st
  case classDef =>
    simp only [removeObjectStmt]
    rw [exec1_flat _ _ _ _ rfl, exec1_flat _ _ _ _ rfl, flat_simple _ _ _ _ rfl rfl, flat_simple _ _ _ _ rfl rfl]; rfl
  all_goals rfl

theorem object_sound : Sound o removeObject where
  suite := fun _ _ _ _ _ => rfl
  stmt := exec_removeObjectStmt
  body := fun _ _ _ _ => rfl
  globals := by
    intro b
    unfold bodyT
    show declaredGlobals (travBody removeObject b) = declaredGlobals b
    apply globals_trav
    intro st
    cases st <;> rfl

theorem object_table : TableSound removeObject where
  stmtDef := by intro st; cases st <;> rfl
  suiteDef := fun _ => rfl

end PMV.PyCore

/-! ### under `python -O`: asserts and `if __debug__:` blocks do nothing -/
namespace PMV.PyCore
open PMV PMV.Transforms

theorem isAssert_noop : NoOpPred true isAssert where
  exec := by
    intro ft fuel s st h
    cases st <;> simp [isAssert] at h
    rw [exec1_flat _ _ _ _ rfl]
    simp [flatExec, isAssertStmt]
  notDef := by intro st h; cases st <;> simp [isAssert] at h; rfl
  notGlobal := by intro st h; cases st <;> simp [isAssert] at h; rfl

theorem isDebugName_eq (e : Expr) (h : isDebugName e = true) : ∃ c, e = .name "__debug__" c := by
  unfold isDebugName at h
  split at h
  · exact ⟨_, rfl⟩
  · simp at h

theorem debugTest_of_canRemove (test : Expr) (body orelse : List Stmt) (h : canRemoveDebug (.if_ test body orelse) = true) :
    orelse = [] ∧ isDebugTest test = true := by
  simp only [canRemoveDebug, Bool.and_eq_true, List.isEmpty_iff] at h
  obtain ⟨h1, h2⟩ := h
  refine ⟨h1, ?_⟩
  split at h2
  · rfl
  · obtain ⟨c, rfl⟩ := isDebugName_eq _ h2; rfl
  · obtain ⟨c, rfl⟩ := isDebugName_eq _ h2; rfl
  · obtain ⟨c, rfl⟩ := isDebugName_eq _ h2; rfl
  · simp at h2

/-- the documented spellings are tests of the flag -/
theorem condE_of_isDebugTest (opt : Bool) (s : St) (c : Expr) (h : isDebugTest c = true) :
    condE opt s c = some (.ok (.bool (!opt))) := by
  unfold isDebugTest at h
  split at h
  · simp [condE, isDbgName]
  · simp [condE, isDbgName, debugCmp, evalE, debugSense]
  · simp [condE, isDbgName, debugCmp, evalE, debugSense]
  · simp [condE, isDbgName, debugCmp, evalE, debugSense]
  · simp at h

theorem canRemoveDebug_noop : NoOpPred true canRemoveDebug where
  exec := by
    intro ft fuel s st h
    cases st <;> try (simp [canRemoveDebug] at h; done)
    rename_i test body orelse
    obtain ⟨ho, ht⟩ := debugTest_of_canRemove test body orelse h
    subst ho
    rw [exec1.eq_1]
    simp [condE_of_isDebugTest true s test ht, Val.truthy, execL_nil]
  notDef := by
    intro st h
    cases st <;> first | rfl | (simp [canRemoveDebug] at h; done)
  notGlobal := by
    intro st h
    cases st <;> first | rfl | (simp [canRemoveDebug] at h; done)

end PMV.PyCore

import PMV.Proofs.Layout2
/-
  T02.4, continued: decorators, optional clauses, handlers, cases, `else` branches.
-/
namespace PMV.Spec.Layout
open PMV PMV.Token PMV.Printer

theorem NLay_two (a b : Tok) (ha : Spec.Lex.isLayout a = false) (hb : Spec.Lex.isLayout b = false) : NLay [a, b] :=
  NLay.cons ha (NLay.cons hb NLay.nil)

theorem NLay_kw_colon (k : String) {xs : List Tok} (h : NLay xs) : NLay (.kw k :: xs ++ [.delim ":"]) :=
  NLay.append (NLay.cons rfl h) (NLay.cons rfl NLay.nil)

/-- decorators: each on a line of its own -/
theorem deco_eff (t : PrecTable) (decs : List Expr) (h : decs.all (fun dec => nlay (tExpr t dec)) = true) (B : List LT) (d : Nat) :
    eff (decoratorToks t decs) ⟨B, d⟩ = ⟨(decoLines t d decs).reverse ++ B, d⟩ := by
  induction decs generalizing B with
  | nil => rfl
  | cons dec rest ih =>
    simp only [List.all_cons, Bool.and_eq_true] at h
    have hn : NLay (.op "@" :: tExpr t dec) := NLay.cons rfl (NLay_of_nlay h.1)
    have hE : EndsT (T (.op "@" :: tExpr t dec)) := EndsT_T (by simp)
    have h1 : decoratorToks t (dec :: rest) = (.op "@" :: tExpr t dec) ++ (.newline :: decoratorToks t rest) := by
      simp [decoratorToks]
    rw [h1, eff_append, eff_nlay _ hn, eff_cons]
    have : l0step ⟨(T (.op "@" :: tExpr t dec)).reverse ++ B, d⟩ .newline = ⟨.nl d :: ((T (.op "@" :: tExpr t dec)).reverse ++ B), d⟩ :=
      newline_on hE B d
    rw [this, ih h.2]
    simp [decoLines]

/-- an optional `else` / `finally` clause -/
def optClause (t : PrecTable) (st : StmtTable) (kwd : String) (d : Nat) (body : List Stmt) : List LT :=
  if body.isEmpty then [] else .nl d :: T [.kw kwd, .delim ":"] ++ suiteStart d body ++ emitBody t st (d + 1) body

theorem opt_clause (t : PrecTable) (st : StmtTable) (kwd : String) (nlb : Bool) (body : List Stmt) (hB : ClaimSuite t st body)
    (X C : List LT) (d : Nat) (hX : EndsT X) :
    eff (if body.isEmpty then [] else (if nlb then [.newline] else []) ++ ([.kw kwd, .delim ":"] ++ suiteWrap (body.any (isCompound st)) (bodyToks t st body)))
        ⟨.nl d :: (X.reverse ++ C), d⟩ =
      ⟨.nl d :: ((X ++ optClause t st kwd d body).reverse ++ C), d⟩ ∧ EndsT (X ++ optClause t st kwd d body) := by
  unfold optClause
  by_cases hb : body.isEmpty = true
  · simp only [hb, if_true, eff_nil, List.append_nil]; exact ⟨by first | rfl | trivial, hX⟩
  · simp only [hb, Bool.false_eq_true, if_false]
    have hn : NLay [Tok.kw kwd, .delim ":"] := NLay_two _ _ rfl rfl
    cases nlb with
    | true =>
      have := clause_step_nl t st body hB X C d _ hn (by simp) hX
      simpa [List.append_assoc] using this
    | false =>
      have := clause_step t st body hB X C d _ hn (by simp) hX
      simpa [List.append_assoc] using this

def ClaimH (t : PrecTable) (st : StmtTable) (star : Bool) (hs : List Handler) : Prop :=
  ∀ (X C : List LT) (d : Nat), EndsT X →
    eff (handlersToks t st star hs) ⟨.nl d :: (X.reverse ++ C), d⟩ = ⟨.nl d :: ((X ++ emitHandlers t st star d hs).reverse ++ C), d⟩ ∧
    EndsT (X ++ emitHandlers t st star d hs)

theorem claimH_nil (t : PrecTable) (st : StmtTable) (star : Bool) : ClaimH t st star [] := by
  intro X C d hX
  simp only [handlersToks, eff_nil, emitHandlers, List.append_nil]
  exact ⟨by first | rfl | trivial, hX⟩

theorem hdrExcept_ne (t : PrecTable) (star : Bool) (ty : Option Expr) (name : Option String) : hdrExcept t star ty name ≠ [] := by
  simp [hdrExcept]

theorem claimH_cons (t : PrecTable) (st : StmtTable) (star : Bool) (ty : Option Expr) (name : Option String) (body : List Stmt)
    (hs : List Handler) (hn : nlay (hdrExcept t star ty name) = true) (hB : ClaimSuite t st body) (hH : ClaimH t st star hs) :
    ClaimH t st star (.mk ty name body :: hs) := by
  intro X C d hX
  have h1 : handlersToks t st star (.mk ty name body :: hs) =
      (hdrExcept t star ty name ++ suiteWrap (body.any (isCompound st)) (bodyToks t st body)) ++ handlersToks t st star hs := by
    cases name <;> simp [handlersToks, hdrExcept, List.append_assoc]
  obtain ⟨e1, e2⟩ := clause_step t st body hB X C d _ (NLay_of_nlay hn) (hdrExcept_ne t star ty name) hX
  rw [h1, eff_append, e1]
  obtain ⟨e3, e4⟩ := hH _ C d e2
  rw [e3]
  have : X ++ emitHandlers t st star d (.mk ty name body :: hs) =
      X ++ .nl d :: (T (hdrExcept t star ty name) ++ suiteStart d body ++ emitBody t st (d + 1) body) ++ emitHandlers t st star d hs := by
    simp [emitHandlers, List.append_assoc]
  rw [this]
  exact ⟨rfl, e4⟩

def ClaimC (t : PrecTable) (st : StmtTable) (cs : List MatchCase) : Prop :=
  cs ≠ [] → ∀ (B : List LT) (e : Nat),
    eff (casesToks t st cs) ⟨B, e⟩ = ⟨.nl e :: ((emitCases t st e cs).reverse ++ B), e⟩ ∧ EndsT (emitCases t st e cs)

theorem hdrCase_ne (t : PrecTable) (pat : Pattern) (guard : Option Expr) : hdrCase t pat guard ≠ [] := by
  simp [hdrCase]

theorem claimC_cons (t : PrecTable) (st : StmtTable) (pat : Pattern) (guard : Option Expr) (body : List Stmt) (cs : List MatchCase)
    (hn : nlay (hdrCase t pat guard) = true) (hB : ClaimSuite t st body) (hC : ClaimC t st cs) :
    ClaimC t st (.mk pat guard body :: cs) := by
  intro _ B e
  have h1 : casesToks t st (.mk pat guard body :: cs) =
      (hdrCase t pat guard ++ suiteWrap (body.any (isCompound st)) (bodyToks t st body)) ++ casesToks t st cs := by
    cases guard <;> simp [casesToks, hdrCase, List.append_assoc]
  obtain ⟨e1, e2⟩ := hB B e _ (NLay_of_nlay hn) (hdrCase_ne t pat guard)
  rw [h1, eff_append, e1]
  cases cs with
  | nil =>
    simp only [casesToks, eff_nil, emitCases, List.isEmpty_nil, if_true, List.append_nil]
    exact ⟨by first | rfl | trivial, e2⟩
  | cons c cs' =>
    obtain ⟨e3, e4⟩ := hC (by simp) (.nl e :: ((T (hdrCase t pat guard) ++ suiteStart e body ++ emitBody t st (e + 1) body).reverse ++ B)) e
    rw [e3]
    have : emitCases t st e (.mk pat guard body :: c :: cs') =
        (T (hdrCase t pat guard) ++ suiteStart e body ++ emitBody t st (e + 1) body) ++ .nl e :: emitCases t st e (c :: cs') := by
      simp [emitCases]
    rw [this]
    refine ⟨?_, EndsT.append_left _ (EndsT.cons _ e4)⟩
    simp

/-! ### the branch after an `if` suite -/

def elsePart (t : PrecTable) (st : StmtTable) (d : Nat) (orelse : List Stmt) : List LT :=
  if orelse.isEmpty then []
  else if isElifList orelse then .nl d :: emitElif t st d orelse
  else .nl d :: T [.kw "else", .delim ":"] ++ suiteStart d orelse ++ emitBody t st (d + 1) orelse

theorem isElifList_cons (s : Stmt) (ss : List Stmt) : isElifList (s :: ss) = (isIfStmt s && ss.isEmpty) := by
  cases ss with
  | nil => simp [isElifList]
  | cons a b => simp [isElifList]

theorem else_lay (t : PrecTable) (st : StmtTable) (hst : ∀ s, isCompound st s = isCompoundSyn s) (orelse : List Stmt)
    (hLS : ClaimLS t st orelse) (X C : List LT) (d : Nat) (hX : EndsT X) :
    eff (elseToks t st orelse) ⟨.nl d :: (X.reverse ++ C), d⟩ = ⟨.nl d :: ((X ++ elsePart t st d orelse).reverse ++ C), d⟩ ∧
    EndsT (X ++ elsePart t st d orelse) := by
  cases orelse with
  | nil => simp only [elseToks, eff_nil, elsePart, List.isEmpty_nil, if_true, List.append_nil]; exact ⟨by first | rfl | trivial, hX⟩
  | cons s ss =>
    unfold elsePart
    simp only [List.isEmpty_cons, Bool.false_eq_true, if_false, isElifList_cons]
    rw [elseToks]
    by_cases hel : (isIfStmt s && ss.isEmpty) = true
    · simp only [hel, if_true]
      have hif : isIfStmt s = true := by simp only [Bool.and_eq_true] at hel; exact hel.1
      obtain ⟨hE, hS⟩ := hLS.2 s List.mem_cons_self true (fun _ => hif)
      rw [eff_append]
      have h1 := hS ⟨.nl d :: (X.reverse ++ C), d⟩
      simp only [if_true] at h1
      rw [h1, isIf_compound s hif]
      have hc : commit (.nl d :: (X.reverse ++ C)) true d = .nl d :: (X.reverse ++ C) := by
        rw [commit_cons]; simp [List.dropWhile_cons, LT.isLay, strip_pending hX C]
      rw [hc, eff_cons, eff_nil]
      have hp : pendS d true = .nl d := rfl
      rw [hp]
      have : l0step ⟨.nl d :: ((emitS t st true d s).reverse ++ .nl d :: (X.reverse ++ C)), d⟩ .newline =
          ⟨.nl d :: ((emitS t st true d s).reverse ++ .nl d :: (X.reverse ++ C)), d⟩ :=
        newline_after (hE d) (.nl d) rfl _ d
      rw [this]
      refine ⟨by simp [emitElif], ?_⟩
      simp only [emitElif]
      exact EndsT.append_left _ (EndsT.cons _ (hE d))
    · simp only [hel, Bool.false_eq_true, if_false]
      have hB := suite_of_body t st hst (s :: ss) hLS.1
      have hn : NLay [Tok.kw "else", .delim ":"] := NLay_two _ _ rfl rfl
      have := clause_step t st (s :: ss) hB X C d _ hn (by simp) hX
      simpa [List.append_assoc, bodyToks_cons] using this

end PMV.Spec.Layout

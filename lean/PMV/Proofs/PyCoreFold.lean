import PMV.Spec.PyCore
import PMV.Proofs.Fold
/-
  C01/C07 link: constant folding preserves the PyCore value of every expression that PyCore gives a
  value (or an exception) to — for *any* oracle: inside the core only integer / bool arithmetic is
  defined, and that is computed by `PyInt.eval` on both sides.
-/
namespace PMV.PyCore
open PMV PMV.Fold PMV.Printer PMV.Token

/-- the PyCore value of a literal operand -/
def litVal : FVal → Option Val
  | .none => some .none
  | .bool b => some (.bool b)
  | .int n => some (.int n)
  | _ => none

theorem evalE_operand (s : St) (e : Expr) (lv : FVal) (h : operandVal e = some lv) :
    evalE s e = (litVal lv).map Except.ok := by
  cases e with
  | constant c =>
    cases c <;> simp [operandVal] at h <;> subst h <;> simp [evalE, litVal]
  | _ => simp [operandVal] at h

theorem pyOp_opOf (op : BinOpK) (o : PyInt.Op) (h : pyOp op = some o) : o = opOf op := by
  cases op <;> simp [pyOp] at h <;> subst h <;> rfl

theorem binVal_none_left (b : Val) (op : BinOpK) : binVal .none b op = none := by
  cases b <;> cases op <;> simp [binVal, Val.asInt]

theorem binVal_none_right (a : Val) (op : BinOpK) : binVal a .none op = none := by
  cases a <;> cases op <;> simp [binVal, Val.asInt]

/-- the value the folding model computes for int-like operands is the PyCore value -/
def foldVal (ab bb : Bool) (op : BinOpK) (w : Int) : Val :=
  if ab && bb && isBitwise op then .bool (w != 0) else .int w

theorem binVal_intLike (lv rv : FVal) (va vb : Val) (a b : Int) (ab bb : Bool) (op : BinOpK) (w : Int)
    (hla : intLike lv = some (a, ab)) (hlb : intLike rv = some (b, bb))
    (hva : litVal lv = some va) (hvb : litVal rv = some vb)
    (hne : binVal va vb op ≠ none) (hw : PyInt.eval (opOf op) a b = some w) :
    binVal va vb op = some (.ok (foldVal ab bb op w)) := by
  cases lv <;> simp [intLike] at hla <;> cases rv <;> simp [intLike] at hlb <;>
    simp [litVal] at hva hvb <;> subst hva <;> subst hvb <;>
    obtain ⟨ha1, ha2⟩ := hla <;> obtain ⟨hb1, hb2⟩ := hlb <;> subst ha1 <;> subst ha2 <;> subst hb1 <;> subst hb2
  all_goals
    cases op <;> simp [binVal, Val.asInt, pyOp, opOf] at hne hw ⊢ <;> simp_all [foldVal, isBitwise]
  all_goals
    rename_i x y
    cases x <;> cases y <;> simp [PyInt.eval, PyInt.land, PyInt.lor, PyInt.lxor] at hw <;> subst hw <;> decide


theorem evalE_newNode (s : St) (orc : Oracle) (ab bb : Bool) (op : BinOpK) (w : Int) (nn : Expr)
    (h : newNode orc (if ab && bb && isBitwise op then FVal.bool (w != 0) else FVal.int w) = some nn) :
    evalE s nn = some (.ok (foldVal ab bb op w)) := by
  unfold foldVal
  split at h
  · rename_i hc
    simp only [newNode, Option.some.injEq] at h
    subst h
    rw [if_pos hc]
    cases (w != 0) <;> simp [evalE]
  · rename_i hc
    rw [if_neg hc]
    simp only [newNode] at h
    split at h
    · simp at h
    · split at h
      · simp only [Option.some.injEq] at h; subst h
        simp [evalE, Val.asInt]
      · simp only [Option.some.injEq] at h; subst h
        simp [evalE]

theorem evalE_binOp_of (s : St) (l r : Expr) (op : BinOpK) (a b : Val)
    (hl : evalE s l = some (.ok a)) (hr : evalE s r = some (.ok b)) :
    evalE s (.binOp l op r) = binVal a b op := by
  simp [evalE, hl, hr]

/-- one folding step preserves the PyCore value of a binary operation that has one -/
theorem fold_step (t : PrecTable) (sp : Spacing) (orc : Oracle) (s : St) (l : Expr) (op : BinOpK) (r : Expr)
    (hne : evalE s (.binOp l op r) ≠ none) :
    evalE s (foldBinOp t sp orc l op r) = evalE s (.binOp l op r) := by
  by_cases hch : foldBinOp t sp orc l op r = .binOp l op r
  · rw [hch]
  · obtain ⟨lv, rv, v, hl, hr, _, _, hev, _, hnn⟩ := foldBinOp_changed t sp orc l op r hch
    have el := evalE_operand s l lv hl
    have er := evalE_operand s r rv hr
    cases hva : litVal lv with
    | none => rw [hva] at el; simp [evalE, el] at hne
    | some va =>
      cases hvb : litVal rv with
      | none => rw [hva] at el; rw [hvb] at er; simp [evalE, el, er] at hne
      | some vb =>
        rw [hva] at el; rw [hvb] at er
        simp only [Option.map_some] at el er
        rw [evalE_binOp_of s l r op va vb el er] at hne ⊢
        cases hil : intLike lv with
        | none =>
          cases lv <;> simp [intLike] at hil <;> simp [litVal] at hva
          subst hva
          exact absurd (binVal_none_left vb op) hne
        | some pa =>
          cases hir : intLike rv with
          | none =>
            cases rv <;> simp [intLike] at hir <;> simp [litVal] at hvb
            subst hvb
            exact absurd (binVal_none_right va op) hne
          | some pb =>
            obtain ⟨a, ab⟩ := pa
            obtain ⟨b, bb⟩ := pb
            simp only [evalBin, hil, hir] at hev
            cases hw : PyInt.eval (opOf op) a b with
            | none => rw [hw] at hev; simp at hev
            | some w =>
              rw [hw] at hev
              simp only at hev
              have hv : v = (if ab && bb && isBitwise op then FVal.bool (w != 0) else FVal.int w) := by
                split at hev <;> simp_all
              rw [hv] at hnn
              rw [evalE_newNode s orc ab bb op w _ hnn]
              exact (binVal_intLike lv rv va vb a b ab bb op w hil hir hva hvb hne hw).symm


/-- `g` acts homomorphically on the constructors PyCore evaluates, except that a binary operation may be
    replaced by `stepB` of the transformed operands -/
structure Homo (g : Expr → Expr) (stepB : Expr → BinOpK → Expr → Expr) : Prop where
  const : ∀ c, g (.constant c) = .constant c
  name : ∀ x c, g (.name x c) = .name x c
  unary : ∀ op v, g (.unaryOp op v) = .unaryOp op (g v)
  binOp : ∀ l op r, g (.binOp l op r) = stepB (g l) op (g r)
  compare1 : ∀ l op r, g (.compare l [op] [r]) = .compare (g l) [op] [g r]
  boolOp2 : ∀ op a b, g (.boolOp op [a, b]) = .boolOp op [g a, g b]
  ifExp : ∀ c a b, g (.ifExp c a b) = .ifExp (g c) (g a) (g b)
  step : ∀ s l op r, evalE s (.binOp l op r) ≠ none → evalE s (stepB l op r) = evalE s (.binOp l op r)

/-- a homomorphic rewrite preserves the PyCore result — value or exception — of every expression that has one -/
theorem homo_evalE (g : Expr → Expr) (stepB : Expr → BinOpK → Expr → Expr) (hg : Homo g stepB) (s : St) :
    (e : Expr) → evalE s e ≠ none → evalE s (g e) = evalE s e
  | .constant c, _ => by rw [hg.const]
  | .name x c, _ => by rw [hg.name]
  | .unaryOp op v, h => by
    have ih := homo_evalE g stepB hg s v
    rw [hg.unary]
    cases op with
    | not_ =>
      simp only [evalE] at h ⊢
      cases hv : evalE s v with
      | none => simp [hv] at h
      | some r => rw [ih (by simp [hv]), hv]
    | uSub =>
      simp only [evalE] at h ⊢
      cases hv : evalE s v with
      | none => simp [hv] at h
      | some r => rw [ih (by simp [hv]), hv]
    | invert => simp [evalE] at h
    | uAdd => simp [evalE] at h
  | .binOp l op r, h => by
    have ihl := homo_evalE g stepB hg s l
    have ihr := homo_evalE g stepB hg s r
    rw [hg.binOp]
    have hcong : evalE s (.binOp (g l) op (g r)) = evalE s (.binOp l op r) := by
      simp only [evalE] at h ⊢
      cases hl : evalE s l with
      | none => simp [hl] at h
      | some rl =>
        rw [ihl (by simp [hl]), hl]
        cases rl with
        | error x => rfl
        | ok a =>
          simp only [hl] at h
          cases hr : evalE s r with
          | none => simp [hr] at h
          | some rr => rw [ihr (by simp [hr]), hr]
    rw [hg.step s _ op _ (by rw [hcong]; exact h), hcong]
  | .compare l ops cs, h => by
    have ihl := homo_evalE g stepB hg s l
    match ops, cs, h with
    | [op], [r], h =>
      have ihr := homo_evalE g stepB hg s r
      rw [hg.compare1]
      simp only [evalE] at h ⊢
      cases hl : evalE s l with
      | none => simp [hl] at h
      | some rl =>
        rw [ihl (by simp [hl]), hl]
        cases rl with
        | error x => rfl
        | ok a =>
          simp only [hl] at h
          cases hr : evalE s r with
          | none => simp [hr] at h
          | some rr => rw [ihr (by simp [hr]), hr]
    | [], _, h => simp [evalE] at h
    | [_], [], h => simp [evalE] at h
    | [_], _ :: _ :: _, h => simp [evalE] at h
    | _ :: _ :: _, _, h => simp [evalE] at h
  | .boolOp op vs, h => by
    match op, vs, h with
    | .and_, [a, b], h =>
      have iha := homo_evalE g stepB hg s a
      have ihb := homo_evalE g stepB hg s b
      rw [hg.boolOp2]
      simp only [evalE] at h ⊢
      cases ha : evalE s a with
      | none => simp [ha] at h
      | some ra =>
        rw [iha (by simp [ha]), ha]
        cases ra with
        | error x => rfl
        | ok v =>
          simp only [ha] at h
          by_cases hv : v.truthy = true
          · simp only [hv, if_true] at h ⊢
            exact ihb h
          · simp [hv]
    | .or_, [a, b], h =>
      have iha := homo_evalE g stepB hg s a
      have ihb := homo_evalE g stepB hg s b
      rw [hg.boolOp2]
      simp only [evalE] at h ⊢
      cases ha : evalE s a with
      | none => simp [ha] at h
      | some ra =>
        rw [iha (by simp [ha]), ha]
        cases ra with
        | error x => rfl
        | ok v =>
          simp only [ha] at h
          by_cases hv : v.truthy = true
          · simp [hv]
          · simp only [hv, Bool.false_eq_true, if_false] at h ⊢
            exact ihb h
    | op, [], h => cases op <;> simp [evalE] at h
    | op, [_], h => cases op <;> simp [evalE] at h
    | op, _ :: _ :: _ :: _, h => cases op <;> simp [evalE] at h
  | .ifExp c a b, h => by
    have ihc := homo_evalE g stepB hg s c
    have iha := homo_evalE g stepB hg s a
    have ihb := homo_evalE g stepB hg s b
    rw [hg.ifExp]
    simp only [evalE] at h ⊢
    cases hc : evalE s c with
    | none => simp [hc] at h
    | some rc =>
      rw [ihc (by simp [hc]), hc]
      cases rc with
      | error x => rfl
      | ok v =>
        simp only [hc] at h
        by_cases hv : v.truthy = true
        · simp only [hv, if_true] at h ⊢; exact iha h
        · simp only [hv, Bool.false_eq_true, if_false] at h ⊢; exact ihb h
  | .namedExpr .., h => by simp [evalE] at h
  | .lambda .., h => by simp [evalE] at h
  | .dict .., h => by simp [evalE] at h
  | .set _, h => by simp [evalE] at h
  | .listComp .., h => by simp [evalE] at h
  | .setComp .., h => by simp [evalE] at h
  | .dictComp .., h => by simp [evalE] at h
  | .generatorExp .., h => by simp [evalE] at h
  | .await .., h => by simp [evalE] at h
  | .yield .., h => by simp [evalE] at h
  | .yieldFrom .., h => by simp [evalE] at h
  | .call .., h => by simp [evalE] at h
  | .joinedStr .., h => by simp [evalE] at h
  | .attribute .., h => by simp [evalE] at h
  | .subscript .., h => by simp [evalE] at h
  | .starred .., h => by simp [evalE] at h
  | .list .., h => by simp [evalE] at h
  | .tuple .., h => by simp [evalE] at h
  | .slice .., h => by simp [evalE] at h
  | .paren .., h => by simp [evalE] at h

theorem fold_homo (t : PrecTable) (sp : Spacing) (orc : Oracle) : Homo (foldE t sp orc) (foldBinOp t sp orc) where
  const := fun c => by simp [foldE]
  name := fun x c => by simp [foldE]
  unary := fun op v => by simp [foldE]
  binOp := fun l op r => by simp [foldE]
  compare1 := fun l op r => by simp [foldE, foldL]
  boolOp2 := fun op a b => by simp [foldE, foldL]
  ifExp := fun c a b => by simp [foldE]
  step := fun s l op r h => fold_step t sp orc s l op r h

/-- T01.7 (expressions): folding preserves the PyCore result — value or exception — of every expression that
    PyCore gives one to, at any nesting depth and for any oracle. -/
theorem foldE_evalE (t : PrecTable) (sp : Spacing) (orc : Oracle) (s : St) (e : Expr) (h : evalE s e ≠ none) :
    evalE s (foldE t sp orc e) = evalE s e :=
  homo_evalE _ _ (fold_homo t sp orc) s e h

end PMV.PyCore

import PMV.Proofs.Layout5
/-
  Expression tokens are real tokens: `flat` never emits a layout token.  Hence the side condition `okL` of T02.4 only
  asks that no `yield` is *visited as a statement* inside a header (the printer's `visit_Yield` ends the statement) and
  that no simple statement prints as nothing.
-/
namespace PMV.Spec.Layout
open PMV PMV.Token PMV.Printer

def nlayAll (xs : List (List Tok)) : Bool := xs.all nlay
def nlayOpts (xs : List (Option (List Tok))) : Bool := xs.all fun o => match o with | some x => nlay x | none => true

@[simp] theorem nlay_nil : nlay [] = true := rfl
@[simp] theorem nlay_cons (x : Tok) (xs : List Tok) : nlay (x :: xs) = (!Spec.Lex.isLayout x && nlay xs) := by simp [nlay]
@[simp] theorem nlay_append (a b : List Tok) : nlay (a ++ b) = (nlay a && nlay b) := by simp [nlay]
@[simp] theorem nlayAll_nil : nlayAll [] = true := rfl
@[simp] theorem nlayAll_cons (x : List Tok) (xs : List (List Tok)) : nlayAll (x :: xs) = (nlay x && nlayAll xs) := by simp [nlayAll]
@[simp] theorem nlayAll_append (a b : List (List Tok)) : nlayAll (a ++ b) = (nlayAll a && nlayAll b) := by simp [nlayAll]
@[simp] theorem nlayOpts_nil : nlayOpts [] = true := rfl
@[simp] theorem nlayOpts_cons_some (x : List Tok) (xs) : nlayOpts (some x :: xs) = (nlay x && nlayOpts xs) := by simp [nlayOpts]
@[simp] theorem nlayOpts_cons_none (xs) : nlayOpts (none :: xs) = nlayOpts xs := by simp [nlayOpts]

theorem commaSep_nlay : (xs : List (List Tok)) → nlayAll xs = true → nlay (commaSep xs) = true
  | [], _ => rfl
  | [x], h => by simpa [commaSep] using h
  | x :: y :: rest, h => by
    simp only [nlayAll_cons, Bool.and_eq_true] at h
    have := commaSep_nlay (y :: rest) (by simp [h.2.1, h.2.2])
    simp [commaSep, h.1, this, Spec.Lex.isLayout]

theorem joinWith_nlay (sep : Tok) (hs : Spec.Lex.isLayout sep = false) : (xs : List (List Tok)) → nlayAll xs = true → nlay (joinWith sep xs) = true
  | [], _ => rfl
  | [x], h => by simpa [joinWith] using h
  | x :: y :: rest, h => by
    simp only [nlayAll_cons, Bool.and_eq_true] at h
    have := joinWith_nlay sep hs (y :: rest) (by simp [h.2.1, h.2.2])
    simp [joinWith, h.1, this, hs]

theorem dictItems_nlay : (ks : List (Option (List Tok))) → (vs : List (List Tok)) → nlayOpts ks = true → nlayAll vs = true →
    nlayAll (dictItems ks vs) = true
  | [], _, _, _ => by simp [dictItems]
  | none :: ks, [], _, _ => by simp [dictItems]
  | some _ :: ks, [], _, _ => by simp [dictItems]
  | none :: ks, v :: vs, hk, hv => by
    simp only [nlayOpts_cons_none] at hk
    simp only [nlayAll_cons, Bool.and_eq_true] at hv
    simp [dictItems, hv.1, dictItems_nlay ks vs hk hv.2, Spec.Lex.isLayout]
  | some k :: ks, v :: vs, hk, hv => by
    simp only [nlayOpts_cons_some, Bool.and_eq_true] at hk
    simp only [nlayAll_cons, Bool.and_eq_true] at hv
    simp [dictItems, hk.1, hv.1, dictItems_nlay ks vs hk.2 hv.2, Spec.Lex.isLayout]

theorem tupleToks_nlay (xs : List (List Tok)) (h : nlayAll xs = true) : nlay (tupleToks xs) = true := by
  match xs, h with
  | [], _ => simp [tupleToks, Spec.Lex.isLayout]
  | [x], h => simp only [nlayAll_cons, Bool.and_eq_true] at h; simp [tupleToks, h.1, Spec.Lex.isLayout]
  | x :: y :: rest, h => simpa [tupleToks] using commaSep_nlay _ h

theorem posArgToks_nlay : (as : List (List Tok)) → (n : Nat) → (ds : List (List Tok)) → (p : Nat) → nlayAll as = true → nlayAll ds = true →
    nlayAll (posArgToks as n ds p) = true
  | [], _, _, _, _, _ => by simp [posArgToks]
  | a :: as, 0, d :: ds, p, ha, hd => by
    simp only [nlayAll_cons, Bool.and_eq_true] at ha hd
    have := posArgToks_nlay as 0 ds (p - 1) ha.2 hd.2
    by_cases hp : (p == 1) = true <;> simp [posArgToks, hp, ha.1, hd.1, this, Spec.Lex.isLayout]
  | a :: as, 0, [], p, ha, hd => by
    simp only [nlayAll_cons, Bool.and_eq_true] at ha
    have := posArgToks_nlay as 0 [] (p - 1) ha.2 hd
    by_cases hp : (p == 1) = true <;> simp [posArgToks, hp, ha.1, this, Spec.Lex.isLayout]
  | a :: as, n + 1, ds, p, ha, hd => by
    simp only [nlayAll_cons, Bool.and_eq_true] at ha
    have := posArgToks_nlay as n ds (p - 1) ha.2 hd
    by_cases hp : (p == 1) = true <;> simp [posArgToks, hp, ha.1, this, Spec.Lex.isLayout]

theorem kwOnlyToks_nlay : (as : List (List Tok)) → (ds : List (Option (List Tok))) → nlayAll as = true → nlayOpts ds = true →
    nlay (kwOnlyToks as ds) = true
  | [], _, _, _ => by simp [kwOnlyToks]
  | a :: as, none :: ds, ha, hd => by
    simp only [nlayAll_cons, Bool.and_eq_true] at ha
    simp only [nlayOpts_cons_none] at hd
    simp [kwOnlyToks, ha.1, kwOnlyToks_nlay as ds ha.2 hd, Spec.Lex.isLayout]
  | a :: as, some d :: ds, ha, hd => by
    simp only [nlayAll_cons, Bool.and_eq_true] at ha
    simp only [nlayOpts_cons_some, Bool.and_eq_true] at hd
    simp [kwOnlyToks, ha.1, hd.1, kwOnlyToks_nlay as ds ha.2 hd.2, Spec.Lex.isLayout]
  | a :: as, [], ha, _ => by
    simp only [nlayAll_cons, Bool.and_eq_true] at ha
    simp [kwOnlyToks, ha.1, kwOnlyToks_nlay as [] ha.2 rfl, Spec.Lex.isLayout]

theorem binOpTok_nlay (op : BinOpK) : Spec.Lex.isLayout (binOpTok op) = false := by cases op <;> rfl
theorem unaryOpTok_nlay (op : UnaryOpK) : Spec.Lex.isLayout (unaryOpTok op) = false := by cases op <;> rfl
theorem boolOpTok_nlay (op : BoolOpK) : Spec.Lex.isLayout (boolOpTok op) = false := by cases op <;> rfl
theorem cmpOpToks_nlay (op : CmpOpK) : nlay (cmpOpToks op) = true := by cases op <;> rfl
theorem constToks_nlay (c : Const) : nlay (constToks c) = true := by cases c <;> rfl

/-- the call printer: a sole generator argument loses its own parentheses -/
theorem flat_call_nlay (f : Expr) (as : List Expr) (ks : List Keyword) (h1 : nlay (flat f) = true)
    (h3 : nlayAll (flatEach as) = true) (h4 : nlayAll (flatKeywords ks) = true) : nlay (flat (.call f as ks)) = true := by
  have h2 := commaSep_nlay _ (show nlayAll (flatEach as ++ flatKeywords ks) = true by simp [h3, h4])
  cases as with
  | nil => simp_all [flat, Spec.Lex.isLayout]
  | cons a rest =>
    cases rest with
    | cons b rest' => simp_all [flat, Spec.Lex.isLayout]
    | nil =>
      cases ks with
      | cons k ks' => simp_all [flat, Spec.Lex.isLayout]
      | nil => cases a <;> simp_all [flat, flatEach, Spec.Lex.isLayout]

mutual
theorem flat_nlay : (e : Expr) → nlay (flat e) = true
  | .boolOp op vs => by rw [flat]; exact joinWith_nlay _ (boolOpTok_nlay op) _ (flatEach_nlay vs)
  | .namedExpr tg v => by simp [flat, flat_nlay tg, flat_nlay v, Spec.Lex.isLayout]
  | .binOp l op r => by simp [flat, flat_nlay l, flat_nlay r, binOpTok_nlay]
  | .unaryOp op v => by simp [flat, flat_nlay v, unaryOpTok_nlay]
  | .lambda a b => by simp [flat, flatArguments_nlay a, flat_nlay b, Spec.Lex.isLayout]
  | .ifExp c b o => by simp [flat, flat_nlay c, flat_nlay b, flat_nlay o, Spec.Lex.isLayout]
  | .dict ks vs => by
    have := commaSep_nlay _ (dictItems_nlay _ _ (flatOptEach_nlay ks) (flatEach_nlay vs))
    simp [flat, this, Spec.Lex.isLayout]
  | .set es => by
    have := commaSep_nlay _ (flatEach_nlay es)
    simp [flat, this, Spec.Lex.isLayout]
  | .listComp e gs => by simp [flat, flat_nlay e, flatComps_nlay gs, Spec.Lex.isLayout]
  | .setComp e gs => by simp [flat, flat_nlay e, flatComps_nlay gs, Spec.Lex.isLayout]
  | .dictComp k v gs => by simp [flat, flat_nlay k, flat_nlay v, flatComps_nlay gs, Spec.Lex.isLayout]
  | .generatorExp e gs => by simp [flat, flat_nlay e, flatComps_nlay gs, Spec.Lex.isLayout]
  | .await v => by simp [flat, flat_nlay v, Spec.Lex.isLayout]
  | .yield v => by simp [flat, flatOpt_nlay v, Spec.Lex.isLayout]
  | .yieldFrom v => by simp [flat, flat_nlay v, Spec.Lex.isLayout]
  | .compare l ops cs => by simp [flat, flat_nlay l, flatCompareRest_nlay ops cs]
  | .call f as ks => flat_call_nlay f as ks (flat_nlay f) (flatEach_nlay as) (flatKeywords_nlay ks)
  | .joinedStr s ps => by simp [flat, Spec.Lex.isLayout]
  | .constant c => by rw [flat]; exact constToks_nlay c
  | .attribute v a => by simp [flat, flat_nlay v, Spec.Lex.isLayout]
  | .subscript v s => by simp [flat, flat_nlay v, flat_nlay s, Spec.Lex.isLayout]
  | .starred v => by simp [flat, flat_nlay v, Spec.Lex.isLayout]
  | .name i c => by simp [flat, Spec.Lex.isLayout]
  | .list es => by
    have := commaSep_nlay _ (flatEach_nlay es)
    simp [flat, this, Spec.Lex.isLayout]
  | .tuple es => by rw [flat]; exact tupleToks_nlay _ (flatEach_nlay es)
  | .slice l u s => by
    cases s with
    | none => simp [flat, flatOpt_nlay l, flatOpt_nlay u, Spec.Lex.isLayout]
    | some x => simp [flat, flatOpt_nlay l, flatOpt_nlay u, flat_nlay x, Spec.Lex.isLayout]
  | .paren e => by simp [flat, flat_nlay e, Spec.Lex.isLayout]
theorem flatEach_nlay : (es : List Expr) → nlayAll (flatEach es) = true
  | [] => rfl
  | e :: es => by simp [flatEach, flat_nlay e, flatEach_nlay es]
theorem flatOpt_nlay : (e : Option Expr) → nlay (flatOpt e) = true
  | none => rfl
  | some e => by simp [flatOpt, flat_nlay e]
theorem flatCompareRest_nlay : (ops : List CmpOpK) → (cs : List Expr) → nlay (flatCompareRest ops cs) = true
  | [], _ => by simp [flatCompareRest]
  | _ :: _, [] => by simp [flatCompareRest]
  | o :: os, c :: cs => by simp [flatCompareRest, cmpOpToks_nlay o, flat_nlay c, flatCompareRest_nlay os cs]
theorem flatOptEach_nlay : (es : List (Option Expr)) → nlayOpts (flatOptEach es) = true
  | [] => rfl
  | none :: es => by simp [flatOptEach, flatOptEach_nlay es]
  | some e :: es => by simp [flatOptEach, flat_nlay e, flatOptEach_nlay es]
theorem flatArgs_nlay : (as : List Arg) → nlayAll (flatArgs as) = true
  | [] => rfl
  | a :: as => by simp [flatArgs, flatArg_nlay a, flatArgs_nlay as]
theorem flatKeyword_nlay : (k : Keyword) → nlay (flatKeyword k) = true
  | .mk none v => by simp [flatKeyword, flat_nlay v, Spec.Lex.isLayout]
  | .mk (some a) v => by simp [flatKeyword, flat_nlay v, Spec.Lex.isLayout]
theorem flatKeywords_nlay : (ks : List Keyword) → nlayAll (flatKeywords ks) = true
  | [] => rfl
  | k :: ks => by simp [flatKeywords, flatKeyword_nlay k, flatKeywords_nlay ks]
theorem flatComps_nlay : (gs : List Comprehension) → nlay (flatComps gs) = true
  | [] => rfl
  | .mk tg it ifs a :: gs => by
    cases a <;> simp [flatComps, flat_nlay tg, flat_nlay it, flatCompIfs_nlay ifs, flatComps_nlay gs, Spec.Lex.isLayout]
theorem flatCompIfs_nlay : (cs : List Expr) → nlay (flatCompIfs cs) = true
  | [] => rfl
  | c :: cs => by simp [flatCompIfs, flat_nlay c, flatCompIfs_nlay cs, Spec.Lex.isLayout]
theorem flatArg_nlay : (a : Arg) → nlay (flatArg a) = true
  | .mk a none => by simp [flatArg, Spec.Lex.isLayout]
  | .mk a (some ann) => by simp [flatArg, flat_nlay ann, Spec.Lex.isLayout]
theorem flatArguments_nlay : (a : Arguments) → nlay (flatArguments a) = true
  | .mk po as va ko kd kw ds => by
    have hpos : nlayAll (flatArgs po ++ flatArgs as) = true := by simp [flatArgs_nlay po, flatArgs_nlay as]
    have hitems := posArgToks_nlay (flatArgs po ++ flatArgs as) ((flatArgs po ++ flatArgs as).length - ds.length) (flatEach ds) po.length hpos (flatEach_nlay ds)
    have hkwo := kwOnlyToks_nlay (flatArgs ko) (flatOptEach kd) (flatArgs_nlay ko) (flatOptEach_nlay kd)
    unfold flatArguments
    apply commaSep_nlay
    simp only [nlayAll_append, hitems, Bool.true_and, Bool.and_eq_true]
    constructor
    · cases va with
      | none => by_cases hk : ko.isEmpty = true <;> simp [hk, hkwo, Spec.Lex.isLayout]
      | some v => simp [flatArg_nlay v, hkwo, Spec.Lex.isLayout]
    · cases kw with
      | none => simp
      | some k => simp [flatArg_nlay k, Spec.Lex.isLayout]
end

/-- every expression printed through `_expression` / `_testlist` / a value slot is a run of real tokens -/
theorem tExpr_nlay (t : PrecTable) (e : Expr) : nlay (tExpr t e) = true := flat_nlay _
theorem tTestlist_nlay (t : PrecTable) (e : Expr) : nlay (tTestlist t e) = true := flat_nlay _
theorem tValue_nlay (t : PrecTable) (e : Expr) : nlay (tValue t e) = true := by
  unfold tValue; split <;> first | exact flat_nlay _ | exact tTestlist_nlay t _

end PMV.Spec.Layout

import PMV.Proofs.PyCore
import PMV.Proofs.PyCoreMap
import PMV.Model.RenameAst
/-
  C01 / C03, T01.13: renaming the local names of functions preserves the PyCore behaviour.
  The states of the original and of the renamed function are related (`Rel`): same globals, output and import
  events, and the local named `π x` in the renamed run holds what the local `x` holds in the original run.
  Every statement maps related states to related outcomes (`ResRel`), through loops, handlers and calls (each
  callee is renamed with its own map), at every fuel.
-/
namespace PMV.PyCore
open PMV PMV.RenameAst

variable {o : Bool}

/-! ### environments -/

theorem Env.get_set (l : Env) (k k' : String) (v : Val) :
    Env.get (Env.set l k v) k' = if k' == k then some v else Env.get l k' := by
  induction l with
  | nil =>
    simp only [Env.set, Env.get, List.lookup]
    cases k' == k <;> rfl
  | cons p rest ih =>
    obtain ⟨y, w⟩ := p
    simp only [Env.set]
    by_cases hy : (y == k) = true
    · have hyk : y = k := by simpa using hy
      subst hyk
      simp only [beq_self_eq_true, if_true, Env.get, List.lookup]
      cases k' == y <;> rfl
    · have hy' : (y == k) = false := by simpa using hy
      simp only [hy', Bool.false_eq_true, if_false, Env.get, List.lookup]
      simp only [Env.get] at ih
      by_cases hk : (k' == y) = true
      · have : k' = y := by simpa using hk
        subst this
        simp [hy']
      · have hk' : (k' == y) = false := by simpa using hk
        simp only [hk']
        exact ih

/-! ### the relation between the two runs -/

/-- `s'` is `s` with the local names renamed by `π` (on the names satisfying `P`); `s'` may hold further locals -/
structure Rel (π : Ren) (P : String → Bool) (s s' : St) : Prop where
  globals : s'.globals = s.globals
  out : s'.out = s.out
  imports : s'.imports = s.imports
  mode : s'.locals.isSome = s.locals.isSome
  isLocal : ∀ x, P x = true → s'.isLocal (π x) = s.isLocal x
  lget : ∀ x, P x = true → s.isLocal x = true →
    (s'.locals.bind (fun l => l.get (π x))) = (s.locals.bind (fun l => l.get x))
  fixed : ∀ x, P x = true → s.isLocal x = false → π x = x
  inj : ∀ x y, P x = true → P y = true → π x = π y → x = y

theorem Rel.lookup {π : Ren} {P : String → Bool} {s s' : St} (h : Rel π P s s') (x : String) (hx : P x = true) :
    s'.lookup (π x) = s.lookup x := by
  unfold St.lookup
  rw [h.isLocal x hx]
  by_cases hl : s.isLocal x = true
  · simp only [hl, if_true]; exact h.lget x hx hl
  · have hl' : s.isLocal x = false := by simpa using hl
    simp only [hl', Bool.false_eq_true, if_false]
    rw [h.fixed x hx hl', h.globals]

theorem Rel.unbound {π : Ren} {P : String → Bool} {s s' : St} (h : Rel π P s s') (x : String) (hx : P x = true) :
    s'.unbound (π x) = s.unbound x := by
  unfold St.unbound
  rw [h.isLocal x hx]

theorem isLocal_assign (s : St) (x y : String) (v : Val) : (s.assign x v).isLocal y = s.isLocal y := by
  unfold St.assign
  split
  · unfold St.isLocal; cases s.locals <;> rfl
  · rfl

theorem locals_assign_local (s : St) (x : String) (v : Val) (h : s.isLocal x = true) :
    (s.assign x v).locals = s.locals.map (fun l => l.set x v) := by
  unfold St.assign; simp [h]

theorem Rel.assign {π : Ren} {P : String → Bool} {s s' : St} (h : Rel π P s s') (x : String) (hx : P x = true) (v : Val) :
    Rel π P (s.assign x v) (s'.assign (π x) v) := by
  have hloc := h.isLocal x hx
  by_cases hl : s.isLocal x = true
  · have hl' : s'.isLocal (π x) = true := by rw [hloc]; exact hl
    refine ⟨?_, ?_, ?_, ?_, ?_, ?_, ?_, h.inj⟩
    · unfold St.assign; simp only [hl, hl', if_true]; exact h.globals
    · unfold St.assign; simp only [hl, hl', if_true]; exact h.out
    · unfold St.assign; simp only [hl, hl', if_true]; exact h.imports
    · rw [locals_assign_local s x v hl, locals_assign_local s' (π x) v hl']
      simp only [Option.isSome_map]; exact h.mode
    · intro y hy; rw [isLocal_assign, isLocal_assign]; exact h.isLocal y hy
    · intro y hy hly
      rw [isLocal_assign] at hly
      rw [locals_assign_local s x v hl, locals_assign_local s' (π x) v hl']
      have hg := h.lget y hy hly
      cases hs : s.locals with
      | none => unfold St.isLocal at hl; simp [hs] at hl
      | some l =>
        cases hs' : s'.locals with
        | none => unfold St.isLocal at hl'; simp [hs'] at hl'
        | some l' =>
          rw [hs, hs'] at hg
          simp only [Option.map_some, Option.bind_some] at hg ⊢
          rw [Env.get_set, Env.get_set]
          by_cases hxy : (y == x) = true
          · have : y = x := by simpa using hxy
            subst this; simp
          · have hxy' : (y == x) = false := by simpa using hxy
            have hne : (π y == π x) = false := by
              apply Bool.eq_false_iff.mpr
              intro hc
              have : π y = π x := by simpa using hc
              have := h.inj y x hy hx this
              subst this; simp at hxy'
            simp only [hxy', hne, Bool.false_eq_true, if_false]
            exact hg
    · intro y hy hly; rw [isLocal_assign] at hly; exact h.fixed y hy hly
  · have hlf : s.isLocal x = false := by simpa using hl
    have hl' : s'.isLocal (π x) = false := by rw [hloc]; exact hlf
    have hfix := h.fixed x hx hlf
    refine ⟨?_, ?_, ?_, ?_, ?_, ?_, ?_, h.inj⟩
    · unfold St.assign; simp only [hlf, hl', Bool.false_eq_true, if_false]; rw [hfix, h.globals]
    · unfold St.assign; simp only [hlf, hl', Bool.false_eq_true, if_false]; exact h.out
    · unfold St.assign; simp only [hlf, hl', Bool.false_eq_true, if_false]; exact h.imports
    · unfold St.assign; simp only [hlf, hl', Bool.false_eq_true, if_false]; exact h.mode
    · intro y hy; rw [isLocal_assign, isLocal_assign]; exact h.isLocal y hy
    · intro y hy hly
      rw [isLocal_assign] at hly
      have hg := h.lget y hy hly
      unfold St.assign; simp only [hlf, hl', Bool.false_eq_true, if_false]; exact hg
    · intro y hy hly; rw [isLocal_assign] at hly; exact h.fixed y hy hly

/-- changing the output and the import events alike keeps the relation -/
theorem Rel.withOut {π : Ren} {P : String → Bool} {s s' : St} (h : Rel π P s s') (f : List String → List String)
    (g : List String → List String) :
    Rel π P { s with out := f s.out, imports := g s.imports } { s' with out := f s'.out, imports := g s'.imports } := by
  refine ⟨h.globals, ?_, ?_, h.mode, ?_, ?_, ?_, h.inj⟩
  · show f s'.out = f s.out; rw [h.out]
  · show g s'.imports = g s.imports; rw [h.imports]
  · intro y hy; exact h.isLocal y hy
  · intro y hy hly; exact h.lget y hy hly
  · intro y hy hly; exact h.fixed y hy hly

/-! ### expressions -/

/-- static facts about the renaming: the names the semantics gives a meaning to keep their spelling -/
structure Stat (π : Ren) (P : String → Bool) : Prop where
  resP : ∀ r, r ∈ reserved → P r = true
  resFix : ∀ r, r ∈ reserved → π r = r

def okE (P : String → Bool) (e : Expr) : Bool := (namesE e).all P
def okEs (P : String → Bool) (es : List Expr) : Bool := (namesEs es).all P

theorem res_iff {π : Ren} {P : String → Bool} {s s' : St} (h : Rel π P s s') (hs : Stat π P) (r : String) (hr : r ∈ reserved)
    (x : String) (hx : P x = true) : (π x == r) = (x == r) := by
  by_cases hd : x = r
  · subst hd; rw [hs.resFix _ hr]
  · have : π x ≠ r := by
      intro hc
      have := h.inj x r hx (hs.resP _ hr) (by rw [hc, hs.resFix _ hr])
      exact hd this
    have h1 : (π x == r) = false := by simpa using this
    have h2 : (x == r) = false := by simpa using hd
    rw [h1, h2]

theorem debug_iff {π : Ren} {P : String → Bool} {s s' : St} (h : Rel π P s s') (hs : Stat π P) (x : String) (hx : P x = true) :
    (π x == "__debug__") = (x == "__debug__") := res_iff h hs _ (by simp [reserved]) x hx

theorem okE_unary {P : String → Bool} {op : UnaryOpK} {e : Expr} (h : okE P (.unaryOp op e) = true) : okE P e = true := by
  simpa [okE, namesE] using h

theorem evalE_ren {π : Ren} {P : String → Bool} {s s' : St} (h : Rel π P s s') (hs : Stat π P) :
    (e : Expr) → okE P e = true → evalE s' (renE π e) = evalE s e
  | .constant c, _ => by cases c <;> simp [renE, evalE]
  | .name x c, hok => by
    have hx : P x = true := by simpa [okE, namesE] using hok
    simp only [renE, evalE, debug_iff h hs x hx, h.lookup x hx, h.unbound x hx]
  | .unaryOp op v, hok => by
    have ih := evalE_ren h hs v (okE_unary hok)
    cases op <;> simp only [renE, evalE, ih]
  | .binOp l op r, hok => by
    have hl : okE P l = true ∧ okE P r = true := by simpa [okE, namesE, List.all_append] using hok
    simp only [renE, evalE, evalE_ren h hs l hl.1, evalE_ren h hs r hl.2]
  | .compare l ops cs, hok => by
    match ops, cs, hok with
    | [op], [r], hok =>
      have hl : okE P l = true ∧ okE P r = true := by simpa [okE, namesE, namesEs, List.all_append] using hok
      simp only [renE, renEs, evalE, evalE_ren h hs l hl.1, evalE_ren h hs r hl.2]
    | [], cs, _ => simp [renE, evalE]
    | [_], [], _ => simp [renE, renEs, evalE]
    | [_], _ :: _ :: _, _ => simp [renE, renEs, evalE]
    | _ :: _ :: _, _, _ => simp [renE, evalE]
  | .boolOp op vs, hok => by
    match op, vs, hok with
    | .and_, [a, b], hok =>
      have hl : okE P a = true ∧ okE P b = true := by simpa [okE, namesE, namesEs, List.all_append] using hok
      simp only [renE, renEs, evalE, evalE_ren h hs a hl.1, evalE_ren h hs b hl.2]
    | .or_, [a, b], hok =>
      have hl : okE P a = true ∧ okE P b = true := by simpa [okE, namesE, namesEs, List.all_append] using hok
      simp only [renE, renEs, evalE, evalE_ren h hs a hl.1, evalE_ren h hs b hl.2]
    | op, [], _ => cases op <;> simp [renE, renEs, evalE]
    | op, [_], _ => cases op <;> simp [renE, renEs, evalE]
    | op, _ :: _ :: _ :: _, _ => cases op <;> simp [renE, renEs, evalE]
  | .ifExp c a b, hok => by
    have hl : okE P c = true ∧ okE P a = true ∧ okE P b = true := by
      simpa [okE, namesE, List.all_append, and_assoc] using hok
    simp only [renE, evalE, evalE_ren h hs c hl.1, evalE_ren h hs a hl.2.1, evalE_ren h hs b hl.2.2]
  | .call .., _ => by simp [renE, evalE]
  | .tuple .., _ => by simp [renE, evalE]
  | .namedExpr .., _ => by simp [renE, evalE]
  | .lambda .., _ => by simp [renE, evalE]
  | .dict .., _ => by simp [renE, evalE]
  | .set _, _ => by simp [renE, evalE]
  | .listComp .., _ => by simp [renE, evalE]
  | .setComp .., _ => by simp [renE, evalE]
  | .dictComp .., _ => by simp [renE, evalE]
  | .generatorExp .., _ => by simp [renE, evalE]
  | .await .., _ => by simp [renE, evalE]
  | .yield .., _ => by simp [renE, evalE]
  | .yieldFrom .., _ => by simp [renE, evalE]
  | .joinedStr .., _ => by simp [renE, evalE]
  | .attribute .., _ => by simp [renE, evalE]
  | .subscript .., _ => by simp [renE, evalE]
  | .starred .., _ => by simp [renE, evalE]
  | .list .., _ => by simp [renE, evalE]
  | .slice .., _ => by simp [renE, evalE]
  | .paren .., _ => by simp [renE, evalE]

theorem evalArgs_ren {π : Ren} {P : String → Bool} {s s' : St} (h : Rel π P s s') (hs : Stat π P) :
    (args : List Expr) → okEs P args = true → evalArgs s' (renEs π args) = evalArgs s args
  | [], _ => rfl
  | e :: es, hok => by
    have hl : okE P e = true ∧ okEs P es = true := by simpa [okE, okEs, namesEs, List.all_append] using hok
    simp only [renEs, evalArgs, evalE_ren h hs e hl.1, evalArgs_ren h hs es hl.2]


/-! ### outcomes -/

def FlowRel (R : St → St → Prop) : Flow → Flow → Prop
  | .normal s, .normal s' => R s s'
  | .returned v s, .returned v' s' => v = v' ∧ R s s'
  | .broke s, .broke s' => R s s'
  | .continued s, .continued s' => R s s'
  | _, _ => False

/-- the same kind of outcome (value, exception name), in related states -/
def ResRel (R : St → St → Prop) : Res Flow → Res Flow → Prop
  | .ok f, .ok f' => FlowRel R f f'
  | .raised x s, .raised x' s' => x = x' ∧ R s s'
  | .stuck, .stuck => True
  | .timeout, .timeout => True
  | _, _ => False

theorem evalThen_ren {π : Ren} {P : String → Bool} {s s' : St} (h : Rel π P s s') (hs : Stat π P) (e : Expr) (hok : okE P e = true)
    (k k' : Val → Res Flow) (hk : ∀ v, ResRel (Rel π P) (k v) (k' v)) :
    ResRel (Rel π P) (evalThen s e k) (evalThen s' (renE π e) k') := by
  unfold evalThen
  rw [evalE_ren h hs e hok]
  cases evalE s e with
  | none => trivial
  | some r =>
    cases r with
    | error x => exact ⟨rfl, h⟩
    | ok v => exact hk v

/-- what a statement needs: its names are covered by `P`, and the names the semantics resolves outside the function keep
    their spelling -/
def okS (π : Ren) (P : String → Bool) (st : Stmt) : Bool := (namesS st).all P && fixedS π st
def okL (π : Ren) (P : String → Bool) (l : List Stmt) : Bool := (namesL l).all P && fixedL π l
def okH (π : Ren) (P : String → Bool) (hs : List Handler) : Bool := (namesH hs).all P && fixedH π hs

theorem isConst_ren (π : Ren) (e : Expr) : isConst (renE π e) = isConst e := by
  cases e <;> simp [renE, isConst]

theorem assignTarget_ren (π : Ren) (ts : List Expr) : assignTarget (renEs π ts) = (assignTarget ts).map π := by
  match ts with
  | [] => rfl
  | [e] => cases e <;> simp [renEs, renE, assignTarget]
  | _ :: _ :: _ => simp [renEs, assignTarget]

theorem nameOf_ren (π : Ren) (e : Expr) : nameOf (renE π e) = (nameOf e).map (fun p => (π p.1, p.2)) := by
  cases e <;> simp [renE, nameOf]

theorem raiseName_ren (π : Ren) (e c : Option Expr) : raiseName (renO π e) (renO π c) = (raiseName e c).map π := by
  cases c with
  | some c' =>
    have h1 : ∀ x y, raiseName x (some y) = none := by intro x y; unfold raiseName; split <;> simp_all
    simp [renO, h1]
  | none =>
    cases e with
    | none => rfl
    | some e' =>
      cases e' <;> simp [renO, renE, raiseName]
      rename_i f args kws
      cases f <;> simp [renE, raiseName]
      cases args <;> simp [renEs, raiseName]
      cases kws <;> simp [raiseName]


theorem printArgs_ren {π : Ren} {P : String → Bool} {s s' : St} (h : Rel π P s s') (hs : Stat π P) (e : Expr) (hok : okE P e = true) :
    printArgs (renE π e) = (printArgs e).map (renEs π) := by
  cases e <;> try (simp [renE, printArgs]; done)
  rename_i f args kws
  cases f <;> try (simp [renE, printArgs]; done)
  rename_i g c
  cases kws with
  | cons k ks => simp [renE, printArgs]
  | nil =>
    have hg : P g = true := by
      have : (namesE (.call (.name g c) args [])).all P = true := hok
      simp only [namesE, List.cons_append, List.nil_append, List.all_cons, Bool.and_eq_true] at this
      exact this.1
    simp only [renE, printArgs, res_iff h hs "print" (by simp [reserved]) g hg]
    cases g == "print" <;> rfl

theorem okEs_of_printArgs {P : String → Bool} (e : Expr) (args : List Expr) (hp : printArgs e = some args) (hok : okE P e = true) :
    okEs P args = true := by
  unfold printArgs at hp
  split at hp
  · rename_i g c as
    split at hp
    · simp only [Option.some.injEq] at hp
      subst hp
      have : (namesE (.call (.name g c) as [])).all P = true := hok
      simp only [namesE, List.cons_append, List.nil_append, List.all_cons, Bool.and_eq_true] at this
      exact this.2
    · simp at hp
  · simp at hp

theorem exprStmt_ren {π : Ren} {P : String → Bool} {s s' : St} (h : Rel π P s s') (hs : Stat π P) (e : Expr) (hok : okE P e = true) :
    ResRel (Rel π P) (exprStmt s e) (exprStmt s' (renE π e)) := by
  unfold exprStmt
  rw [isConst_ren, printArgs_ren h hs e hok]
  by_cases hc : isConst e = true
  · simp only [hc, if_true]; exact h
  · simp only [hc, Bool.false_eq_true, if_false]
    cases hp : printArgs e with
    | none => exact evalThen_ren h hs e hok _ _ (fun _ => h)
    | some args =>
      simp only [Option.map_some]
      rw [evalArgs_ren h hs args (okEs_of_printArgs e args hp hok)]
      cases evalArgs s args with
      | none => trivial
      | some r =>
        cases r with
        | error x => exact ⟨rfl, h⟩
        | ok vs => exact h.withOut (fun out => out ++ [" ".intercalate (vs.map Val.show)]) id

/-! imports -/

theorem importOne_ren {π : Ren} {P : String → Bool} {s s' : St} (h : Rel π P s s') (a : Alias)
    (hP : P (aliasBound a) = true) (hfix : (a.asname.isSome || π (aliasBound a) == aliasBound a) = true) :
    Rel π P (importOne s a) (importOne s' (renAlias π a)) := by
  have hb : (renAlias π a).asname.getD (firstComponent a.name) = π (aliasBound a) := by
    unfold renAlias aliasBound
    cases ha : a.asname with
    | some c => simp
    | none =>
      have : π (aliasBound a) = aliasBound a := by simpa [ha] using hfix
      unfold aliasBound at this
      rw [ha] at this
      simp only [ha, Option.getD_none] at this ⊢
      exact this.symm
  have hn : (renAlias π a).name = a.name := by unfold renAlias; cases a.asname <;> rfl
  unfold importOne
  simp only [hn, hb]
  exact (h.assign (aliasBound a) hP (.mod a.name)).withOut id (fun i => i ++ ["import " ++ a.name])

theorem importAll_ren {π : Ren} {P : String → Bool} : ∀ (names : List Alias) (s s' : St), Rel π P s s' →
    (names.map aliasBound).all P = true → names.all (fun a => a.asname.isSome || π (aliasBound a) == aliasBound a) = true →
    Rel π P (importAll s names) (importAll s' (names.map (renAlias π)))
  | [], _, _, h, _, _ => h
  | a :: rest, s, s', h, hP, hfix => by
    simp only [List.map_cons, List.all_cons, Bool.and_eq_true] at hP hfix
    exact importAll_ren rest _ _ (importOne_ren h a hP.1 hfix.1) hP.2 hfix.2

theorem importFromOne_ren {π : Ren} {P : String → Bool} {s s' : St} (h : Rel π P s s') (m : Option String) (l : Nat) (a : Alias)
    (hP : P (fromBound a) = true) (hfix : (a.asname.isSome || π (fromBound a) == fromBound a) = true) :
    Rel π P (importFromOne m l s a) (importFromOne m l s' (renAlias π a)) := by
  have hb : (renAlias π a).asname.getD a.name = π (fromBound a) := by
    unfold renAlias fromBound
    cases ha : a.asname with
    | some c => simp
    | none =>
      have : π (fromBound a) = fromBound a := by simpa [ha] using hfix
      unfold fromBound at this
      rw [ha] at this
      simp only [ha, Option.getD_none] at this ⊢
      exact this.symm
  have hn : (renAlias π a).name = a.name := by unfold renAlias; cases a.asname <;> rfl
  unfold importFromOne
  simp only [hn, hb]
  exact (h.assign (fromBound a) hP _).withOut id (fun i => i ++ ["from " ++ fromName m l ++ " import " ++ a.name])

theorem importFromAll_ren {π : Ren} {P : String → Bool} (m : Option String) (l : Nat) : ∀ (names : List Alias) (s s' : St), Rel π P s s' →
    (names.map fromBound).all P = true → names.all (fun a => a.asname.isSome || π (fromBound a) == fromBound a) = true →
    Rel π P (importFromAll m l s names) (importFromAll m l s' (names.map (renAlias π)))
  | [], _, _, h, _, _ => h
  | a :: rest, s, s', h, hP, hfix => by
    simp only [List.map_cons, List.all_cons, Bool.and_eq_true] at hP hfix
    exact importFromAll_ren m l rest _ _ (importFromOne_ren h m l a hP.1 hfix.1) hP.2 hfix.2

theorem hasStar_ren (π : Ren) (names : List Alias) : hasStar (names.map (renAlias π)) = hasStar names := by
  unfold hasStar
  induction names with
  | nil => rfl
  | cons a rest ih =>
    have hn : (renAlias π a).name = a.name := by unfold renAlias; cases a.asname <;> rfl
    simp only [List.map_cons, List.any_cons, hn, ih]


theorem assignTarget_mem (ts : List Expr) (x : String) (h : assignTarget ts = some x) : x ∈ namesEs ts := by
  match ts, h with
  | [e], h =>
    cases e <;> simp [assignTarget] at h
    subst h
    simp [namesEs, namesE]
  | [], h => simp [assignTarget] at h
  | _ :: _ :: _, h => simp [assignTarget] at h

theorem raiseName_mem (e c : Option Expr) (n : String) (h : raiseName e c = some n) : n ∈ namesO e := by
  unfold raiseName at h
  split at h
  · simp only [Option.some.injEq] at h; subst h; simp [namesO, namesE]
  · simp only [Option.some.injEq] at h; subst h; simp [namesO, namesE, namesEs]
  · simp at h

theorem all_of_mem {P : String → Bool} {l : List String} (h : l.all P = true) {x : String} (hx : x ∈ l) : P x = true := by
  rw [List.all_eq_true] at h; exact h x hx

theorem simpleExec_ren {π : Ren} {P : String → Bool} {s s' : St} (h : Rel π P s s') (hs : Stat π P) (st : Stmt)
    (hok : okS π P st = true) : ResRel (Rel π P) (simpleExec s st) (simpleExec s' (renStmt π st)) := by
  unfold okS at hok
  simp only [Bool.and_eq_true] at hok
  obtain ⟨hn, hf⟩ := hok
  cases st
  case pass => exact h
  case break_ => exact h
  case continue_ => exact h
  case global ns => exact h
  case functionDef a n args body decs ret tps =>
    simp only [renStmt, simpleExec]
    split
    · exact h
    · trivial
  case return_ v =>
    cases v with
    | none => exact ⟨rfl, h⟩
    | some e =>
      simp only [renStmt, renO, simpleExec]
      exact evalThen_ren h hs e (by simpa [namesS, namesO, okE] using hn) _ _ (fun v => ⟨rfl, h⟩)
  case expr e =>
    simp only [renStmt, simpleExec]
    exact exprStmt_ren h hs e (by simpa [namesS, okE] using hn)
  case assign ts e =>
    simp only [renStmt, simpleExec, assignTarget_ren]
    simp only [namesS, List.all_append, Bool.and_eq_true] at hn
    cases hx : assignTarget ts with
    | none => trivial
    | some x =>
      simp only [Option.map_some]
      have hPx : P x = true := all_of_mem hn.1 (assignTarget_mem ts x hx)
      exact evalThen_ren h hs e hn.2 _ _ (fun v => h.assign x hPx v)
  case augAssign tg op e =>
    simp only [renStmt, simpleExec, nameOf_ren]
    simp only [namesS, List.all_append, Bool.and_eq_true] at hn
    cases hx : nameOf tg with
    | none => trivial
    | some p =>
      obtain ⟨x, c⟩ := p
      simp only [Option.map_some]
      have htg : tg = .name x c := by
        cases tg <;> simp [nameOf] at hx
        obtain ⟨h1, h2⟩ := hx; subst h1; subst h2; rfl
      subst htg
      have hPx : P x = true := by simpa [namesE] using hn.1
      have hb : okE P (.binOp (.name x c) op e) = true := by
        simp only [okE, namesE, List.cons_append, List.nil_append, List.all_cons, Bool.and_eq_true]
        exact ⟨hPx, hn.2⟩
      exact evalThen_ren h hs (.binOp (.name x c) op e) hb _ _ (fun v => h.assign x hPx v)
  case assert_ c msg =>
    simp only [renStmt, simpleExec]
    simp only [namesS, List.all_append, Bool.and_eq_true] at hn
    refine evalThen_ren h hs c hn.1 _ _ (fun v => ?_)
    by_cases hv : v.truthy = true
    · simp only [hv, if_true]; exact h
    · simp only [hv, Bool.false_eq_true, if_false]; exact ⟨rfl, h⟩
  case import_ names =>
    simp only [renStmt, simpleExec]
    exact importAll_ren names s s' h (by simpa [namesS] using hn) (by simpa [fixedS] using hf)
  case importFrom m names l =>
    simp only [renStmt, simpleExec, hasStar_ren]
    by_cases hstar : hasStar names = true
    · simp only [hstar, if_true]; trivial
    · simp only [hstar, Bool.false_eq_true, if_false]
      exact importFromAll_ren m l names s s' h (by simpa [namesS] using hn) (by simpa [fixedS] using hf)
  case raise_ e c =>
    simp only [renStmt, simpleExec, raiseName_ren]
    cases hr : raiseName e c with
    | none => trivial
    | some n =>
      simp only [Option.map_some]
      have hmem := raiseName_mem e c n hr
      have hfix : π n = n := by
        simp only [fixedS] at hf
        have := all_of_mem (P := fun x => π x == x) hf (List.mem_append_left _ hmem)
        simpa using this
      rw [hfix]
      by_cases hk : knownExcs.contains n = true
      · simp only [hk, if_true]; exact ⟨rfl, h⟩
      · simp only [hk, Bool.false_eq_true, if_false]; trivial
  case annAssign tg ann v simple =>
    simp only [renStmt, simpleExec, nameOf_ren, h.mode]
    simp only [namesS, List.all_append, Bool.and_eq_true] at hn
    by_cases hc : (s.locals.isSome && simple) = true
    · simp only [hc, if_true]
      cases hx : nameOf tg with
      | none => trivial
      | some p =>
        obtain ⟨x, c⟩ := p
        have htg : tg = .name x c := by
          cases tg <;> simp [nameOf] at hx
          obtain ⟨h1, h2⟩ := hx; subst h1; subst h2; rfl
        subst htg
        have hPx : P x = true := by simpa [namesE] using hn.1.1
        cases v with
        | none => exact h
        | some e =>
          simp only [Option.map_some, renO]
          exact evalThen_ren h hs e (by simpa [namesO, okE] using hn.2) _ _ (fun w => h.assign x hPx w)
    · simp only [hc, Bool.false_eq_true, if_false]; trivial
  all_goals (simp only [renStmt, simpleExec]; trivial)


/-! ### calls -/

theorem asNameCall_ren (π : Ren) (e : Expr) :
    asNameCall (renE π e) = (asNameCall e).map (fun p => (π p.1, p.2.1, renEs π p.2.2)) := by
  cases e <;> try (simp [renE, asNameCall]; done)
  rename_i f args kws
  cases f <;> cases kws <;> simp [renE, asNameCall]

theorem asNameCall_names {P : String → Bool} (e : Expr) (g : String) (c : Ctx) (args : List Expr)
    (h : asNameCall e = some (g, c, args)) (hok : okE P e = true) : P g = true ∧ okEs P args = true := by
  rw [asNameCall_some e g c args h] at hok
  simpa [okE, okEs, namesE, List.all_append] using hok

/-- a statement-level call stays one; the callee keeps its name, the arguments and the target are renamed -/
theorem callOf_ren {π : Ren} {P : String → Bool} {s s' : St} (h : Rel π P s s') (hs : Stat π P) (st : Stmt)
    (hok : okS π P st = true) :
    callOf (renStmt π st) = (callOf st).map (fun p => (p.1, renEs π p.2.1, p.2.2.map π)) := by
  unfold okS at hok
  simp only [Bool.and_eq_true] at hok
  obtain ⟨hn, hf⟩ := hok
  cases st
  case expr e =>
    simp only [renStmt]
    rw [callOf_expr_eq, callOf_expr_eq, asNameCall_ren]
    cases hc : asNameCall e with
    | none => rfl
    | some p =>
      obtain ⟨g, c, args⟩ := p
      have hP := asNameCall_names e g c args hc (by simpa [namesS, okE] using hn)
      have hfix : π g = g := by
        rw [asNameCall_some e g c args hc] at hf
        simpa [fixedS] using hf
      simp only [Option.map_some, Option.bind_some, hfix]
      cases g == "print" <;> rfl
  case assign ts v =>
    simp only [renStmt]
    rw [callOf_assign_eq, callOf_assign_eq, asNameCall_ren, assignTarget_ren]
    cases assignTarget ts with
    | none => rfl
    | some x =>
      cases hc : asNameCall v with
      | none => rfl
      | some p =>
        obtain ⟨g, c, args⟩ := p
        have hfix : π g = g := by
          rw [asNameCall_some v g c args hc] at hf
          simpa [fixedS] using hf
        simp only [Option.map_some, Option.bind_some, hfix]
  all_goals (simp only [renStmt]; rfl)

def renFT (R : RenTable) : FTab → FTab
  | [] => []
  | (g, ps, b) :: rest => (g, ps, renFnBody (R g).1 (R g).2 b) :: renFT R rest

theorem lookup_renFT (R : RenTable) (f : String) : ∀ ft : FTab,
    (renFT R ft).lookup f = (ft.lookup f).map (fun pb => (pb.1, renFnBody (R f).1 (R f).2 pb.2))
  | [] => rfl
  | (g, ps, b) :: rest => by
    simp only [renFT, List.lookup]
    by_cases hg : (f == g) = true
    · have : f = g := by simpa using hg
      subst this; simp
    · have hg' : (f == g) = false := by simpa using hg
      simp only [hg']
      exact lookup_renFT R f rest

/-- the names the condition of a function talks about -/
def fnP (ps : List String) (b : List Stmt) : String → Bool := fun x => (fnNames ps b).contains x

theorem Rel.back {π : Ren} {P : String → Bool} {s s' : St} (h : Rel π P s s') (g : Env) (out imps : List String) :
    Rel π P { s with globals := g, out := out, imports := imps } { s' with globals := g, out := out, imports := imps } := by
  refine ⟨rfl, rfl, rfl, h.mode, ?_, ?_, ?_, h.inj⟩
  · intro y hy; exact h.isLocal y hy
  · intro y hy hly; exact h.lget y hy hly
  · intro y hy hly; exact h.fixed y hy hly

/-- the callee: the original body and the renamed body, run from the states a call builds, end alike -/
def CalleeOK (o : Bool) (R : RenTable) (ft : FTab) (k : Nat) : Prop :=
  ∀ f ps b bound bound', ft.lookup f = some (ps, b) → bindTop b = some bound →
    bindTop (renFnBody (R f).1 (R f).2 b) = some bound' →
    ∀ (g : Env) (out imps : List String) (vs : List Val), (∀ v ∈ vs, ∀ n, v ≠ .mod n) → ps.length = vs.length →
    ResRel (Rel (R f).1 (fnP ps b))
      (asCall (execL ⟨ft, o⟩ k
        { globals := g, locals := some (ps.zip vs), declGlobal := declaredGlobals b, out := out, imports := imps,
          localNames := ps ++ canonNames bound } b))
      (asCall (execL ⟨renFT R ft, o⟩ k
        { globals := g, locals := some (ps.zip vs), declGlobal := declaredGlobals (renFnBody (R f).1 (R f).2 b), out := out, imports := imps,
          localNames := ps ++ canonNames bound' } (renFnBody (R f).1 (R f).2 b)))

/-- evaluation never produces an imported (opaque) value -/
theorem evalE_noMod (s : St) : (e : Expr) → (v : Val) → evalE s e = some (.ok v) → ∀ n, v ≠ .mod n
  | .constant c, v, h => by
    cases c <;> simp [evalE] at h <;> (subst h; intro n; simp)
  | .name x c, v, h => by
    simp only [evalE] at h
    split at h
    · simp at h
    · split at h
      · simp at h
      · rename_i w hne hw
        simp only [Option.some.injEq, Except.ok.injEq] at h
        subst h
        intro n hn
        exact hne n hn
      · simp at h
  | .unaryOp op e, v, h => by
    cases op <;> simp only [evalE] at h
    · simp at h
    · cases he : evalE s e with
      | none => simp [he] at h
      | some r => cases r <;> simp [he] at h; subst h; intro n; simp
    · simp at h
    · cases he : evalE s e with
      | none => simp [he] at h
      | some r =>
        cases r <;> simp [he] at h
        rename_i w
        cases hw : w.asInt <;> simp [hw] at h
        subst h; intro n; simp
  | .binOp l op r, v, h => by
    simp only [evalE] at h
    cases hl : evalE s l with
    | none => simp [hl] at h
    | some rl =>
      cases rl with
      | error x => simp [hl] at h
      | ok a =>
        cases hr : evalE s r with
        | none => simp [hl, hr] at h
        | some rr =>
          cases rr with
          | error x => simp [hl, hr] at h
          | ok b =>
            simp only [hl, hr] at h
            intro n hn
            subst hn
            unfold binVal at h
            split at h <;> try (simp at h; done)
            split at h
            · split at h
              · simp at h
              · split at h <;> simp at h
            · simp at h
  | .compare l ops cs, v, h => by
    match ops, cs, h with
    | [op], [r], h =>
      simp only [evalE] at h
      cases hl : evalE s l with
      | none => simp [hl] at h
      | some rl =>
        cases rl with
        | error x => simp [hl] at h
        | ok a =>
          cases hr : evalE s r with
          | none => simp [hl, hr] at h
          | some rr =>
            cases rr with
            | error x => simp [hl, hr] at h
            | ok b =>
              simp only [hl, hr] at h
              intro n hn
              subst hn
              unfold cmpVal at h
              split at h
              · split at h <;> simp at h
              · split at h <;> simp at h
    | [], _, h => simp [evalE] at h
    | [_], [], h => simp [evalE] at h
    | [_], _ :: _ :: _, h => simp [evalE] at h
    | _ :: _ :: _, _, h => simp [evalE] at h
  | .boolOp op vs, v, h => by
    match op, vs, h with
    | .and_, [a, b], h =>
      simp only [evalE] at h
      cases ha : evalE s a with
      | none => simp [ha] at h
      | some ra =>
        cases ra with
        | error x => simp [ha] at h
        | ok w =>
          simp only [ha] at h
          by_cases hw : w.truthy = true
          · simp only [hw, if_true] at h; exact evalE_noMod s b v h
          · simp only [hw, Bool.false_eq_true, if_false, Option.some.injEq, Except.ok.injEq] at h
            subst h; exact evalE_noMod s a w ha
    | .or_, [a, b], h =>
      simp only [evalE] at h
      cases ha : evalE s a with
      | none => simp [ha] at h
      | some ra =>
        cases ra with
        | error x => simp [ha] at h
        | ok w =>
          simp only [ha] at h
          by_cases hw : w.truthy = true
          · simp only [hw, if_true, Option.some.injEq, Except.ok.injEq] at h
            subst h; exact evalE_noMod s a w ha
          · simp only [hw, Bool.false_eq_true, if_false] at h; exact evalE_noMod s b v h
    | op, [], h => cases op <;> simp [evalE] at h
    | op, [_], h => cases op <;> simp [evalE] at h
    | op, _ :: _ :: _ :: _, h => cases op <;> simp [evalE] at h
  | .ifExp c a b, v, h => by
    simp only [evalE] at h
    cases hc : evalE s c with
    | none => simp [hc] at h
    | some rc =>
      cases rc with
      | error x => simp [hc] at h
      | ok w =>
        simp only [hc] at h
        by_cases hw : w.truthy = true
        · simp only [hw, if_true] at h; exact evalE_noMod s a v h
        · simp only [hw, Bool.false_eq_true, if_false] at h; exact evalE_noMod s b v h
  | .call .., _, h => by simp [evalE] at h
  | .tuple .., _, h => by simp [evalE] at h
  | .namedExpr .., _, h => by simp [evalE] at h
  | .lambda .., _, h => by simp [evalE] at h
  | .dict .., _, h => by simp [evalE] at h
  | .set _, _, h => by simp [evalE] at h
  | .listComp .., _, h => by simp [evalE] at h
  | .setComp .., _, h => by simp [evalE] at h
  | .dictComp .., _, h => by simp [evalE] at h
  | .generatorExp .., _, h => by simp [evalE] at h
  | .await .., _, h => by simp [evalE] at h
  | .yield .., _, h => by simp [evalE] at h
  | .yieldFrom .., _, h => by simp [evalE] at h
  | .joinedStr .., _, h => by simp [evalE] at h
  | .attribute .., _, h => by simp [evalE] at h
  | .subscript .., _, h => by simp [evalE] at h
  | .starred .., _, h => by simp [evalE] at h
  | .list .., _, h => by simp [evalE] at h
  | .slice .., _, h => by simp [evalE] at h
  | .paren .., _, h => by simp [evalE] at h


/-! ### names that keep their spelling -/

mutual
theorem renE_fixed (π : Ren) : (e : Expr) → (namesE e).all (fun x => π x == x) = true → renE π e = e
  | .name x c, h => by
    have : π x = x := by simpa [namesE] using h
    simp [renE, this]
  | .unaryOp op v, h => by
    simp only [renE, renE_fixed π v (by simpa [namesE] using h)]
  | .binOp l op r, h => by
    have hl : (namesE l).all (fun x => π x == x) = true ∧ (namesE r).all (fun x => π x == x) = true := by
      simpa [namesE, List.all_append] using h
    simp only [renE, renE_fixed π l hl.1, renE_fixed π r hl.2]
  | .compare l ops cs, h => by
    have hl : (namesE l).all (fun x => π x == x) = true ∧ (namesEs cs).all (fun x => π x == x) = true := by
      simpa [namesE, List.all_append] using h
    simp only [renE, renE_fixed π l hl.1, renEs_fixed π cs hl.2]
  | .boolOp op vs, h => by
    simp only [renE, renEs_fixed π vs (by simpa [namesE] using h)]
  | .ifExp c a b, h => by
    have hl : (namesE c).all (fun x => π x == x) = true ∧ (namesE a).all (fun x => π x == x) = true ∧
        (namesE b).all (fun x => π x == x) = true := by
      simpa [namesE, List.all_append, and_assoc] using h
    simp only [renE, renE_fixed π c hl.1, renE_fixed π a hl.2.1, renE_fixed π b hl.2.2]
  | .call f args kws, h => by
    have hl : (namesE f).all (fun x => π x == x) = true ∧ (namesEs args).all (fun x => π x == x) = true := by
      simpa [namesE, List.all_append] using h
    simp only [renE, renE_fixed π f hl.1, renEs_fixed π args hl.2]
  | .tuple es, h => by
    simp only [renE, renEs_fixed π es (by simpa [namesE] using h)]
  | .constant _, _ => rfl
  | .namedExpr .., _ => rfl
  | .lambda .., _ => rfl
  | .dict .., _ => rfl
  | .set _, _ => rfl
  | .listComp .., _ => rfl
  | .setComp .., _ => rfl
  | .dictComp .., _ => rfl
  | .generatorExp .., _ => rfl
  | .await .., _ => rfl
  | .yield .., _ => rfl
  | .yieldFrom .., _ => rfl
  | .joinedStr .., _ => rfl
  | .attribute .., _ => rfl
  | .subscript .., _ => rfl
  | .starred .., _ => rfl
  | .list .., _ => rfl
  | .slice .., _ => rfl
  | .paren .., _ => rfl
theorem renEs_fixed (π : Ren) : (es : List Expr) → (namesEs es).all (fun x => π x == x) = true → renEs π es = es
  | [], _ => rfl
  | e :: rest, h => by
    have hl : (namesE e).all (fun x => π x == x) = true ∧ (namesEs rest).all (fun x => π x == x) = true := by
      simpa [namesEs, List.all_append] using h
    simp only [renEs, renE_fixed π e hl.1, renEs_fixed π rest hl.2]
end

theorem renO_fixed (π : Ren) (e : Option Expr) (h : (namesO e).all (fun x => π x == x) = true) : renO π e = e := by
  cases e with
  | none => rfl
  | some e' => simp only [renO, renE_fixed π e' (by simpa [namesO] using h)]

/-! ### `if` tests -/

theorem isDbgName_ren {π : Ren} {P : String → Bool} {s s' : St} (h : Rel π P s s') (hs : Stat π P) (c : Expr) (hok : okE P c = true) :
    isDbgName (renE π c) = isDbgName c := by
  cases c <;> try rfl
  rename_i x ctx
  have hx : P x = true := by simpa [okE, namesE] using hok
  simp only [renE, isDbgName, debug_iff h hs x hx]

theorem debugCmp_ren {π : Ren} {P : String → Bool} {s s' : St} (h : Rel π P s s') (hs : Stat π P) (c : Expr) (hok : okE P c = true) :
    debugCmp (renE π c) = (debugCmp c).map (fun p => (p.1, renE π p.2)) := by
  cases c <;> try rfl
  rename_i l ops cs
  cases l
  case name x ctx =>
    have hx : P x = true := by
      have : (namesE (.compare (.name x ctx) ops cs)).all P = true := hok
      simp only [namesE, List.cons_append, List.nil_append, List.all_cons, Bool.and_eq_true] at this
      exact this.1
    match ops, cs with
    | [op], [r] =>
      simp only [renE, renEs, debugCmp, debug_iff h hs x hx]
      split <;> rfl
    | [], _ => rfl
    | [_], [] => rfl
    | [_], _ :: _ :: _ => rfl
    | _ :: _ :: _, _ => rfl
  all_goals (simp only [renE]; rfl)

theorem debugCmp_names {P : String → Bool} (c : Expr) (op : CmpOpK) (e : Expr) (hd : debugCmp c = some (op, e)) (hok : okE P c = true) :
    okE P e = true := by
  unfold debugCmp at hd
  split at hd
  · rename_i x ctx op' e'
    split at hd
    · simp only [Option.some.injEq, Prod.mk.injEq] at hd
      obtain ⟨_, rfl⟩ := hd
      have : (namesE (.compare (.name x ctx) [op'] [e'])).all P = true := hok
      simp only [namesE, namesEs, List.cons_append, List.nil_append, List.append_nil, List.all_cons, Bool.and_eq_true] at this
      exact this.2
    · simp at hd
  · simp at hd

theorem condE_ren {π : Ren} {P : String → Bool} {s s' : St} (h : Rel π P s s') (hs : Stat π P) (c : Expr) (hok : okE P c = true) :
    condE o s' (renE π c) = condE o s c := by
  unfold condE
  rw [isDbgName_ren h hs c hok, debugCmp_ren h hs c hok]
  by_cases hdn : isDbgName c = true
  · simp only [hdn, if_true]
  · simp only [hdn, Bool.false_eq_true, if_false]
    cases hd : debugCmp c with
    | some p =>
      obtain ⟨op, e⟩ := p
      simp only [Option.map_some]
      rw [evalE_ren h hs e (debugCmp_names c op e hd hok)]
    | none =>
      simp only [Option.map_none]
      exact evalE_ren h hs c hok

theorem forRange_ren {π : Ren} {P : String → Bool} {s s' : St} (h : Rel π P s s') (hs : Stat π P) (tg it : Expr) (hok : okE P it = true) :
    forRange (renE π tg) (renE π it) = (forRange tg it).map (fun p => (π p.1, renE π p.2)) := by
  rw [forRange_eq, forRange_eq, nameOf_ren, asNameCall_ren]
  cases nameOf tg with
  | none => rfl
  | some p =>
    obtain ⟨x, c⟩ := p
    cases hc : asNameCall it with
    | none => rfl
    | some q =>
      obtain ⟨f, c2, args⟩ := q
      have hP := (asNameCall_names it f c2 args hc hok).1
      simp only [Option.map_some]
      match args with
      | [] => rfl
      | [e] =>
        simp only [renEs, res_iff h hs "range" (by simp [reserved]) f hP]
        cases f == "range" <;> rfl
      | _ :: _ :: _ => rfl

theorem forRange_names {P : String → Bool} (tg it : Expr) (x : String) (e : Expr) (h : forRange tg it = some (x, e))
    (htg : okE P tg = true) (hit : okE P it = true) : P x = true ∧ okE P e = true := by
  unfold forRange at h
  split at h
  · rename_i y c f c2 e'
    split at h
    · simp only [Option.some.injEq, Prod.mk.injEq] at h
      obtain ⟨h1, h2⟩ := h
      subst h1; subst h2
      constructor
      · simpa [okE, namesE] using htg
      · have : (namesE (.call (.name f c2) [e'] [])).all P = true := hit
        simp only [namesE, namesEs, List.cons_append, List.nil_append, List.append_nil, List.all_cons, Bool.and_eq_true] at this
        exact this.2
    · simp at h
  · simp at h

/-! ### the claim at one fuel level -/

def GoodR (o : Bool) (R : RenTable) (ft : FTab) (k : Nat) : Prop :=
  (∀ (π : Ren) (P : String → Bool), Stat π P → ∀ s s', Rel π P s s' → ∀ st, okS π P st = true →
      ResRel (Rel π P) (exec1 ⟨ft, o⟩ k s st) (exec1 ⟨renFT R ft, o⟩ k s' (renStmt π st))) ∧
  (∀ (π : Ren) (P : String → Bool), Stat π P → ∀ s s', Rel π P s s' → ∀ l, okL π P l = true →
      ResRel (Rel π P) (execL ⟨ft, o⟩ k s l) (execL ⟨renFT R ft, o⟩ k s' (renBody π l))) ∧
  CalleeOK o R ft k

/-- a body outside the core stays outside the core -/
def StaticOK (R : RenTable) (ft : FTab) : Prop :=
  ∀ f ps b, ft.lookup f = some (ps, b) → (bindTop (renFnBody (R f).1 (R f).2 b)).isSome = (bindTop b).isSome

theorem evalArgs_noMod (s : St) : ∀ (args : List Expr) (vs : List Val), evalArgs s args = some (.ok vs) → ∀ v ∈ vs, ∀ n, v ≠ .mod n
  | [], vs, h => by simp [evalArgs] at h; subst h; simp
  | e :: es, vs, h => by
    simp only [evalArgs] at h
    cases he : evalE s e with
    | none => simp [he] at h
    | some r =>
      cases r with
      | error x => simp [he] at h
      | ok v =>
        simp only [he] at h
        cases hes : evalArgs s es with
        | none => simp [hes] at h
        | some r2 =>
          cases r2 with
          | error x => simp [hes] at h
          | ok ws =>
            simp only [hes, Option.some.injEq, Except.ok.injEq] at h
            subst h
            intro w hw
            simp only [List.mem_cons] at hw
            rcases hw with rfl | hw
            · exact evalE_noMod s e w he
            · exact evalArgs_noMod s es ws hes w hw

theorem callFn_ren (R : RenTable) (ft : FTab) (hst : StaticOK R ft) (n : Nat) (ih : ∀ k, k < n → GoodR o R ft k)
    {π : Ren} {P : String → Bool} {s s' : St} (h : Rel π P s s') (hs : Stat π P) (f : String) (args : List Expr)
    (tgt : Option String) (hargs : okEs P args = true) (htgt : ∀ x, tgt = some x → P x = true) :
    ResRel (Rel π P) (callFn ⟨ft, o⟩ n s f args tgt) (callFn ⟨renFT R ft, o⟩ n s' f (renEs π args) (tgt.map π)) := by
  rw [callFn, callFn, evalArgs_ren h hs args hargs]
  cases hev : evalArgs s args with
  | none => trivial
  | some r =>
    cases r with
    | error x => exact ⟨rfl, h⟩
    | ok vs =>
      simp only [lookup_renFT]
      cases hl : ft.lookup f with
      | none => trivial
      | some pb =>
        obtain ⟨ps, b⟩ := pb
        simp only [Option.map_some]
        have hsome := hst f ps b hl
        cases hb : bindTop b with
        | none =>
          rw [hb] at hsome
          cases hb' : bindTop (renFnBody (R f).1 (R f).2 b) with
          | none => trivial
          | some _ => rw [hb'] at hsome; simp at hsome
        | some bound =>
          rw [hb] at hsome
          cases hb' : bindTop (renFnBody (R f).1 (R f).2 b) with
          | none => rw [hb'] at hsome; simp at hsome
          | some bound' =>
            simp only
            by_cases hlen : (ps.length != vs.length) = true
            · simp only [hlen, if_true]; exact ⟨rfl, h⟩
            · simp only [hlen, Bool.false_eq_true, if_false]
              have hlen' : ps.length = vs.length := by simpa using hlen
              cases n with
              | zero => trivial
              | succ k =>
                simp only
                have hc := (ih k (Nat.lt_succ_self k)).2.2 f ps b bound bound' hl hb hb' s.globals s.out s.imports vs
                  (evalArgs_noMod s args vs hev) hlen'
                rw [h.globals, h.out, h.imports]
                revert hc
                generalize asCall (execL ⟨ft, o⟩ k _ b) = r1
                generalize asCall (execL ⟨renFT R ft, o⟩ k _ (renFnBody (R f).1 (R f).2 b)) = r1'
                intro hc
                cases r1 with
                | stuck => cases r1' <;> first | trivial | exact hc.elim
                | timeout => cases r1' <;> first | trivial | exact hc.elim
                | raised x s1 =>
                  cases r1' with
                  | raised x' s1' =>
                    obtain ⟨hx, hr⟩ := hc
                    subst hx
                    refine ⟨rfl, ?_⟩
                    rw [hr.globals, hr.out, hr.imports]
                    exact h.back s1.globals s1.out s1.imports
                  | _ => exact hc.elim
                | ok fl =>
                  cases r1' with
                  | ok fl' =>
                    cases fl with
                    | returned v s1 =>
                      cases fl' with
                      | returned v' s1' =>
                        obtain ⟨hv, hr⟩ := hc
                        subst hv
                        show Rel π P _ _
                        rw [hr.globals, hr.out, hr.imports]
                        have hbk := h.back s1.globals s1.out s1.imports
                        cases tgt with
                        | none => exact hbk
                        | some x => exact hbk.assign x (htgt x rfl) v
                      | _ => exact hc.elim
                    | normal s1 => cases fl' <;> first | trivial | exact hc.elim
                    | broke s1 => cases fl' <;> first | trivial | exact hc.elim
                    | continued s1 => cases fl' <;> first | trivial | exact hc.elim
                  | _ => exact hc.elim


/-! ### sequencing -/

theorem execL_cons_rel {R : St → St → Prop} (ft ft' : FTab) (n : Nat) (s s' : St) (st st' : Stmt) (rest rest' : List Stmt)
    (h1 : ResRel R (exec1 ⟨ft, o⟩ n s st) (exec1 ⟨ft', o⟩ n s' st'))
    (h2 : ∀ s1 s1', R s1 s1' → ResRel R (execL ⟨ft, o⟩ n s1 rest) (execL ⟨ft', o⟩ n s1' rest')) :
    ResRel R (execL ⟨ft, o⟩ n s (st :: rest)) (execL ⟨ft', o⟩ n s' (st' :: rest')) := by
  rw [execL_cons, execL_cons]
  revert h1
  generalize exec1 ⟨ft, o⟩ n s st = r
  generalize exec1 ⟨ft', o⟩ n s' st' = r'
  intro h1
  cases r with
  | ok fl =>
    cases r' with
    | ok fl' =>
      cases fl with
      | normal s1 => cases fl' <;> first | exact h2 _ _ h1 | exact h1.elim
      | returned v s1 => cases fl' <;> first | exact h1 | exact h1.elim
      | broke s1 => cases fl' <;> first | exact h1 | exact h1.elim
      | continued s1 => cases fl' <;> first | exact h1 | exact h1.elim
    | _ => exact h1.elim
  | raised x s1 => cases r' <;> first | exact h1 | exact h1.elim
  | stuck => cases r' <;> first | exact h1 | exact h1.elim
  | timeout => cases r' <;> first | exact h1 | exact h1.elim

theorem afterBody_rel {R : St → St → Prop} (r0 r0' : Res Flow) (e e' : St → Res Flow) (hd hd' : String → St → Res Flow)
    (h0 : ResRel R r0 r0') (he : ∀ s1 s1', R s1 s1' → ResRel R (e s1) (e' s1'))
    (hh : ∀ x s1 s1', R s1 s1' → ResRel R (hd x s1) (hd' x s1')) :
    ResRel R (afterBody r0 e hd) (afterBody r0' e' hd') := by
  cases r0 with
  | ok fl =>
    cases r0' with
    | ok fl' =>
      cases fl with
      | normal s1 => cases fl' <;> first | exact he _ _ h0 | exact h0.elim
      | returned v s1 => cases fl' <;> first | exact h0 | exact h0.elim
      | broke s1 => cases fl' <;> first | exact h0 | exact h0.elim
      | continued s1 => cases fl' <;> first | exact h0 | exact h0.elim
    | _ => exact h0.elim
  | raised x s1 =>
    cases r0' with
    | raised x' s1' => obtain ⟨hx, hr⟩ := h0; subst hx; exact hh x _ _ hr
    | _ => exact h0.elim
  | stuck => cases r0' <;> first | exact h0 | exact h0.elim
  | timeout => cases r0' <;> first | exact h0 | exact h0.elim

theorem resume_rel {R : St → St → Prop} (r1 r1' : Res Flow) (h1 : ResRel R r1 r1') (s2 s2' : St) (h2 : R s2 s2') :
    ResRel R (resume r1 s2) (resume r1' s2') := by
  cases r1 with
  | ok fl =>
    cases r1' with
    | ok fl' =>
      cases fl with
      | normal s1 => cases fl' <;> first | exact h2 | exact h1.elim
      | returned v s1 => cases fl' <;> first | exact ⟨h1.1, h2⟩ | exact h1.elim
      | broke s1 => cases fl' <;> first | exact h2 | exact h1.elim
      | continued s1 => cases fl' <;> first | exact h2 | exact h1.elim
    | _ => exact h1.elim
  | raised x s1 =>
    cases r1' with
    | raised x' s1' => exact ⟨h1.1, h2⟩
    | _ => exact h1.elim
  | stuck => cases r1' <;> first | exact h1 | exact h1.elim
  | timeout => cases r1' <;> first | exact h1 | exact h1.elim

theorem withFinally_rel {R : St → St → Prop} (r1 r1' : Res Flow) (f f' : St → Res Flow)
    (h1 : ResRel R r1 r1') (hf : ∀ s1 s1', R s1 s1' → ResRel R (f s1) (f' s1')) :
    ResRel R (withFinally r1 f) (withFinally r1' f') := by
  have key : ∀ s1 s1', stateOf? r1 = some s1 → stateOf? r1' = some s1' → R s1 s1' →
      ResRel R (match f s1 with | .ok (.normal s2) => resume r1 s2 | rf => rf)
               (match f' s1' with | .ok (.normal s2) => resume r1' s2 | rf => rf) := by
    intro s1 s1' _ _ hr
    have hfr := hf s1 s1' hr
    revert hfr
    generalize f s1 = q
    generalize f' s1' = q'
    intro hfr
    cases q with
    | ok fl =>
      cases q' with
      | ok fl' =>
        cases fl with
        | normal s2 => cases fl' <;> first | exact resume_rel r1 r1' h1 _ _ hfr | exact hfr.elim
        | returned v s2 => cases fl' <;> first | exact hfr | exact hfr.elim
        | broke s2 => cases fl' <;> first | exact hfr | exact hfr.elim
        | continued s2 => cases fl' <;> first | exact hfr | exact hfr.elim
      | _ => exact hfr.elim
    | raised x s2 => cases q' <;> first | exact hfr | exact hfr.elim
    | stuck => cases q' <;> first | exact hfr | exact hfr.elim
    | timeout => cases q' <;> first | exact hfr | exact hfr.elim
  unfold withFinally
  cases r1 with
  | ok fl =>
    cases r1' with
    | ok fl' =>
      cases fl with
      | normal s1 => cases fl' <;> first | exact key _ _ rfl rfl h1 | exact h1.elim
      | returned v s1 => cases fl' <;> first | exact key _ _ rfl rfl h1.2 | exact h1.elim
      | broke s1 => cases fl' <;> first | exact key _ _ rfl rfl h1 | exact h1.elim
      | continued s1 => cases fl' <;> first | exact key _ _ rfl rfl h1 | exact h1.elim
    | _ => exact h1.elim
  | raised x s1 =>
    cases r1' with
    | raised x' s1' => exact key _ _ rfl rfl h1.2
    | _ => exact h1.elim
  | stuck => cases r1' <;> first | exact h1 | exact h1.elim
  | timeout => cases r1' <;> first | exact h1 | exact h1.elim

/-- `for` loops -/
theorem execFor_rel {π : Ren} {P : String → Bool} (ft ft' : FTab) (body body' orelse orelse' : List Stmt) (N : Nat) (x : String) (hx : P x = true)
    (hb : ∀ f, f ≤ N → ∀ s s', Rel π P s s' → ResRel (Rel π P) (execL ⟨ft, o⟩ f s body) (execL ⟨ft', o⟩ f s' body'))
    (ho : ∀ f, f ≤ N → ∀ s s', Rel π P s s' → ResRel (Rel π P) (execL ⟨ft, o⟩ f s orelse) (execL ⟨ft', o⟩ f s' orelse')) :
    ∀ f, f ≤ N → ∀ (s s' : St) (i k : Int), Rel π P s s' →
      ResRel (Rel π P) (execFor ⟨ft, o⟩ f s x i k body orelse) (execFor ⟨ft', o⟩ f s' (π x) i k body' orelse') := by
  intro f
  induction f with
  | zero =>
    intro hf s s' i k hr
    rw [execFor.eq_1, execFor.eq_1]
    by_cases hik : i < k
    · simp only [hik, if_true]; trivial
    · simp only [hik, if_false]; exact ho 0 hf s s' hr
  | succ f ihf =>
    intro hf s s' i k hr
    rw [execFor.eq_2, execFor.eq_2]
    by_cases hik : i < k
    · simp only [hik, if_true]
      have hbody := hb (f + 1) hf _ _ (hr.assign x hx (.int i))
      revert hbody
      generalize execL ⟨ft, o⟩ (f + 1) (s.assign x (.int i)) body = r
      generalize execL ⟨ft', o⟩ (f + 1) (s'.assign (π x) (.int i)) body' = r'
      intro hbody
      cases r with
      | ok fl =>
        cases r' with
        | ok fl' =>
          cases fl with
          | normal s1 => cases fl' <;> first | exact ihf (Nat.le_of_succ_le hf) _ _ (i + 1) k hbody | exact hbody.elim
          | continued s1 => cases fl' <;> first | exact ihf (Nat.le_of_succ_le hf) _ _ (i + 1) k hbody | exact hbody.elim
          | broke s1 => cases fl' <;> first | exact hbody | exact hbody.elim
          | returned v s1 => cases fl' <;> first | exact hbody | exact hbody.elim
        | _ => exact hbody.elim
      | raised y s1 => cases r' <;> first | exact hbody | exact hbody.elim
      | stuck => cases r' <;> first | exact hbody | exact hbody.elim
      | timeout => cases r' <;> first | exact hbody | exact hbody.elim
    · simp only [hik, if_false]; exact ho (f + 1) hf s s' hr


/-! ### statements -/

theorem callOf_names {π : Ren} {P : String → Bool} (st : Stmt) (f : String) (args : List Expr) (tgt : Option String)
    (h : callOf st = some (f, args, tgt)) (hok : okS π P st = true) :
    okEs P args = true ∧ ∀ x, tgt = some x → P x = true := by
  unfold okS at hok
  simp only [Bool.and_eq_true] at hok
  have hn := hok.1
  clear hok
  cases st
  case expr e =>
    rw [callOf_expr_eq] at h
    cases hc : asNameCall e with
    | none => simp [hc] at h
    | some p =>
      obtain ⟨g, c, as⟩ := p
      have hP := asNameCall_names e g c as hc (by simpa [namesS, okE] using hn)
      simp only [hc, Option.bind_some] at h
      split at h
      · simp at h
      · simp only [Option.some.injEq, Prod.mk.injEq] at h
        obtain ⟨_, h2, h3⟩ := h
        subst h2; subst h3
        exact ⟨hP.2, by intro x hx; simp at hx⟩
  case assign ts v =>
    rw [callOf_assign_eq] at h
    simp only [namesS, List.all_append, Bool.and_eq_true] at hn
    cases hx : assignTarget ts with
    | none => simp [hx] at h
    | some x =>
      cases hc : asNameCall v with
      | none => simp [hx, hc] at h
      | some p =>
        obtain ⟨g, c, as⟩ := p
        have hP := asNameCall_names v g c as hc hn.2
        simp only [hx, hc, Option.bind_some, Option.map_some, Option.some.injEq, Prod.mk.injEq] at h
        obtain ⟨_, h2, h3⟩ := h
        subst h2; subst h3
        refine ⟨hP.2, ?_⟩
        intro y hy
        simp only [Option.some.injEq] at hy
        subst hy
        exact all_of_mem hn.1 (assignTarget_mem ts _ hx)
  all_goals (simp [callOf] at h)

theorem flat_ren (R : RenTable) (ft : FTab) (hst : StaticOK R ft) (n : Nat) (ih : ∀ k, k < n → GoodR o R ft k)
    {π : Ren} {P : String → Bool} {s s' : St} (h : Rel π P s s') (hs : Stat π P) (st : Stmt) (hok : okS π P st = true)
    (hblk : isBlockStmt st = false) :
    ResRel (Rel π P) (exec1 ⟨ft, o⟩ n s st) (exec1 ⟨renFT R ft, o⟩ n s' (renStmt π st)) := by
  have hblk' : isBlockStmt (renStmt π st) = false := by
    cases st
    case try_ star _ _ _ _ => cases star <;> first | rfl | simp [isBlockStmt] at hblk
    case for_ isAsync _ _ _ _ => cases isAsync <;> first | rfl | simp [isBlockStmt] at hblk
    all_goals first | rfl | simp [isBlockStmt] at hblk
  have hasrt : isAssertStmt (renStmt π st) = isAssertStmt st := by cases st <;> rfl
  rw [exec1_flat _ _ _ _ hblk, exec1_flat _ _ _ _ hblk']
  unfold flatExec
  rw [callOf_ren h hs st hok, hasrt]
  simp only
  by_cases ha : (o && isAssertStmt st) = true
  · simp only [ha, if_true]; exact h
  · simp only [ha, Bool.false_eq_true, if_false]
    cases hc : callOf st with
    | none => exact simpleExec_ren h hs st hok
    | some p =>
      obtain ⟨f, args, tgt⟩ := p
      have hnm := callOf_names st f args tgt hc hok
      exact callFn_ren R ft hst n ih h hs f args tgt hnm.1 hnm.2

theorem catches_fixed (π : Ren) (ty : Option Expr) (hfix : (namesO ty).all (fun x => π x == x) = true) :
    excKind (renO π ty) = excKind ty := by rw [renO_fixed π ty hfix]

mutual
theorem exec1_ren (R : RenTable) (ft : FTab) (hst : StaticOK R ft) (n : Nat) (ih : ∀ k, k < n → GoodR o R ft k)
    {π : Ren} {P : String → Bool} (hs : Stat π P) :
    (st : Stmt) → (s s' : St) → Rel π P s s' → okS π P st = true →
      ResRel (Rel π P) (exec1 ⟨ft, o⟩ n s st) (exec1 ⟨renFT R ft, o⟩ n s' (renStmt π st))
  | .if_ c body orelse, s, s', h, hok => by
    have hp : okE P c = true ∧ okL π P body = true ∧ okL π P orelse = true := by
      simp only [okS, okL, okE, namesS, fixedS, List.all_append, Bool.and_eq_true] at hok ⊢
      exact ⟨hok.1.1.1, ⟨hok.1.1.2, hok.2.1⟩, ⟨hok.1.2, hok.2.2⟩⟩
    simp only [renStmt]
    rw [exec1.eq_1, exec1.eq_1]
    show ResRel (Rel π P) (match condE o s c with
        | some (.ok v) => if v.truthy then execL ⟨ft, o⟩ n s body else execL ⟨ft, o⟩ n s orelse
        | some (.error x) => .raised x s
        | none => .stuck)
      (match condE o s' (renE π c) with
        | some (.ok v) => if v.truthy then execL ⟨renFT R ft, o⟩ n s' (renBody π body) else execL ⟨renFT R ft, o⟩ n s' (renBody π orelse)
        | some (.error x) => .raised x s'
        | none => .stuck)
    rw [condE_ren h hs c hp.1]
    cases condE o s c with
    | none => trivial
    | some r =>
      cases r with
      | error x => exact ⟨rfl, h⟩
      | ok v =>
        by_cases hv : v.truthy = true
        · simp only [hv, if_true]; exact execL_ren R ft hst n ih hs body s s' h hp.2.1
        · simp only [hv, Bool.false_eq_true, if_false]; exact execL_ren R ft hst n ih hs orelse s s' h hp.2.2
  | .while_ c body orelse, s, s', h, hok => by
    have hp : okE P c = true ∧ okL π P body = true ∧ okL π P orelse = true := by
      simp only [okS, okL, okE, namesS, fixedS, List.all_append, Bool.and_eq_true] at hok ⊢
      exact ⟨hok.1.1.1, ⟨hok.1.1.2, hok.2.1⟩, ⟨hok.1.2, hok.2.2⟩⟩
    simp only [renStmt]
    cases n with
    | zero =>
      rw [exec1.eq_2, exec1.eq_2, evalE_ren h hs c hp.1]
      cases evalE s c with
      | none => trivial
      | some r =>
        cases r with
        | error x => exact ⟨rfl, h⟩
        | ok v =>
          by_cases hv : v.truthy = true
          · simp only [hv, if_true]; trivial
          · simp only [hv, Bool.false_eq_true, if_false]; exact execL_ren R ft hst 0 ih hs orelse s s' h hp.2.2
    | succ k =>
      rw [exec1.eq_3, exec1.eq_3, evalE_ren h hs c hp.1]
      cases evalE s c with
      | none => trivial
      | some r =>
        cases r with
        | error x => exact ⟨rfl, h⟩
        | ok v =>
          by_cases hv : v.truthy = true
          · simp only [hv, if_true]
            have hw : ∀ s1 s1', Rel π P s1 s1' → ResRel (Rel π P) (exec1 ⟨ft, o⟩ k s1 (.while_ c body orelse))
                (exec1 ⟨renFT R ft, o⟩ k s1' (.while_ (renE π c) (renBody π body) (renBody π orelse))) := by
              intro s1 s1' h1
              have := (ih k (Nat.lt_succ_self k)).1 π P hs s1 s1' h1 (.while_ c body orelse) hok
              simpa only [renStmt] using this
            have hbody := execL_ren R ft hst (k + 1) ih hs body s s' h hp.2.1
            revert hbody
            generalize execL ⟨ft, o⟩ (k + 1) s body = r
            generalize execL ⟨renFT R ft, o⟩ (k + 1) s' (renBody π body) = r'
            intro hbody
            cases r with
            | ok fl =>
              cases r' with
              | ok fl' =>
                cases fl with
                | normal s1 => cases fl' <;> first | exact hw _ _ hbody | exact hbody.elim
                | continued s1 => cases fl' <;> first | exact hw _ _ hbody | exact hbody.elim
                | broke s1 => cases fl' <;> first | exact hbody | exact hbody.elim
                | returned v s1 => cases fl' <;> first | exact hbody | exact hbody.elim
              | _ => exact hbody.elim
            | raised y s1 => cases r' <;> first | exact hbody | exact hbody.elim
            | stuck => cases r' <;> first | exact hbody | exact hbody.elim
            | timeout => cases r' <;> first | exact hbody | exact hbody.elim
          · simp only [hv, Bool.false_eq_true, if_false]; exact execL_ren R ft hst (k + 1) ih hs orelse s s' h hp.2.2
  | .for_ true tg it body orelse, s, s', h, hok => flat_ren R ft hst n ih h hs _ hok rfl
  | .for_ false tg it body orelse, s, s', h, hok => by
    have hp : okE P tg = true ∧ okE P it = true ∧ okL π P body = true ∧ okL π P orelse = true := by
      simp only [okS, okL, okE, namesS, fixedS, List.all_append, Bool.and_eq_true] at hok ⊢
      exact ⟨hok.1.1.1.1, hok.1.1.1.2, ⟨hok.1.1.2, hok.2.1⟩, ⟨hok.1.2, hok.2.2⟩⟩
    simp only [renStmt]
    rw [exec1.eq_4, exec1.eq_4, forRange_ren h hs tg it hp.2.1]
    cases hfr : forRange tg it with
    | none => trivial
    | some p =>
      obtain ⟨x, e⟩ := p
      simp only [Option.map_some]
      have hxe := forRange_names tg it x e hfr hp.1 hp.2.1
      have hb : ∀ f, f ≤ n → ∀ s s', Rel π P s s' →
          ResRel (Rel π P) (execL ⟨ft, o⟩ f s body) (execL ⟨renFT R ft, o⟩ f s' (renBody π body)) := by
        intro f hf s1 s1' h1
        rcases Nat.lt_or_eq_of_le hf with hlt | heq
        · exact (ih f hlt).2.1 π P hs s1 s1' h1 body hp.2.2.1
        · subst heq; exact execL_ren R ft hst f ih hs body s1 s1' h1 hp.2.2.1
      have ho : ∀ f, f ≤ n → ∀ s s', Rel π P s s' →
          ResRel (Rel π P) (execL ⟨ft, o⟩ f s orelse) (execL ⟨renFT R ft, o⟩ f s' (renBody π orelse)) := by
        intro f hf s1 s1' h1
        rcases Nat.lt_or_eq_of_le hf with hlt | heq
        · exact (ih f hlt).2.1 π P hs s1 s1' h1 orelse hp.2.2.2
        · subst heq; exact execL_ren R ft hst f ih hs orelse s1 s1' h1 hp.2.2.2
      refine evalThen_ren h hs e hxe.2 _ _ (fun v => ?_)
      cases v.asInt with
      | none => trivial
      | some k => exact execFor_rel ft (renFT R ft) body _ orelse _ n x hxe.1 hb ho n (Nat.le_refl n) s s' 0 k h
  | .try_ true body hs' orelse fin, s, s', h, hok => flat_ren R ft hst n ih h hs _ hok rfl
  | .try_ false body hs' orelse fin, s, s', h, hok => by
    have hp : okL π P body = true ∧ okH π P hs' = true ∧ okL π P orelse = true ∧ okL π P fin = true := by
      simp only [okS, okL, okH, namesS, fixedS, List.all_append, Bool.and_eq_true] at hok ⊢
      exact ⟨⟨hok.1.1.1.1, hok.2.1.1.1⟩, ⟨hok.1.1.1.2, hok.2.1.1.2⟩, ⟨hok.1.1.2, hok.2.1.2⟩, ⟨hok.1.2, hok.2.2⟩⟩
    simp only [renStmt]
    rw [exec1.eq_5, exec1.eq_5]
    apply withFinally_rel
    · apply afterBody_rel
      · exact execL_ren R ft hst n ih hs body s s' h hp.1
      · intro s1 s1' h1; exact execL_ren R ft hst n ih hs orelse s1 s1' h1 hp.2.2.1
      · intro x s1 s1' h1; exact execH_ren R ft hst n ih hs hs' s1 s1' x h1 hp.2.1
    · intro s1 s1' h1; exact execL_ren R ft hst n ih hs fin s1 s1' h1 hp.2.2.2
  | .functionDef .., s, s', h, hok => flat_ren R ft hst n ih h hs _ hok rfl
  | .classDef .., s, s', h, hok => flat_ren R ft hst n ih h hs _ hok rfl
  | .with_ .., s, s', h, hok => flat_ren R ft hst n ih h hs _ hok rfl
  | .match_ .., s, s', h, hok => flat_ren R ft hst n ih h hs _ hok rfl
  | .return_ _, s, s', h, hok => flat_ren R ft hst n ih h hs _ hok rfl
  | .delete _, s, s', h, hok => flat_ren R ft hst n ih h hs _ hok rfl
  | .assign .., s, s', h, hok => flat_ren R ft hst n ih h hs _ hok rfl
  | .typeAlias .., s, s', h, hok => flat_ren R ft hst n ih h hs _ hok rfl
  | .augAssign .., s, s', h, hok => flat_ren R ft hst n ih h hs _ hok rfl
  | .annAssign .., s, s', h, hok => flat_ren R ft hst n ih h hs _ hok rfl
  | .raise_ .., s, s', h, hok => flat_ren R ft hst n ih h hs _ hok rfl
  | .assert_ .., s, s', h, hok => flat_ren R ft hst n ih h hs _ hok rfl
  | .import_ .., s, s', h, hok => flat_ren R ft hst n ih h hs _ hok rfl
  | .importFrom .., s, s', h, hok => flat_ren R ft hst n ih h hs _ hok rfl
  | .global _, s, s', h, hok => flat_ren R ft hst n ih h hs _ hok rfl
  | .nonlocal _, s, s', h, hok => flat_ren R ft hst n ih h hs _ hok rfl
  | .expr _, s, s', h, hok => flat_ren R ft hst n ih h hs _ hok rfl
  | .pass, s, s', h, hok => flat_ren R ft hst n ih h hs _ hok rfl
  | .break_, s, s', h, hok => flat_ren R ft hst n ih h hs _ hok rfl
  | .continue_, s, s', h, hok => flat_ren R ft hst n ih h hs _ hok rfl
theorem execH_ren (R : RenTable) (ft : FTab) (hst : StaticOK R ft) (n : Nat) (ih : ∀ k, k < n → GoodR o R ft k)
    {π : Ren} {P : String → Bool} (hs : Stat π P) :
    (hl : List Handler) → (s s' : St) → (x : String) → Rel π P s s' → okH π P hl = true →
      ResRel (Rel π P) (execH ⟨ft, o⟩ n s x hl) (execH ⟨renFT R ft, o⟩ n s' x (renHandlers π hl))
  | [], s, s', x, h, _ => by simp only [renHandlers]; rw [execH.eq_1, execH.eq_1]; exact ⟨rfl, h⟩
  | .mk ty nm hbody :: rest, s, s', x, h, hok => by
    have hp : (namesO ty).all (fun y => π y == y) = true ∧ okL π P hbody = true ∧ okH π P rest = true := by
      simp only [okH, okL, namesH, fixedH, List.all_append, Bool.and_eq_true] at hok ⊢
      exact ⟨hok.2.1.1, ⟨hok.1.1.2, hok.2.1.2⟩, ⟨hok.1.2, hok.2.2⟩⟩
    simp only [renHandlers]
    rw [execH.eq_2, execH.eq_2, catches_fixed π ty hp.1]
    cases catches (excKind ty) nm x with
    | none => trivial
    | some b =>
      cases b with
      | true => exact execL_ren R ft hst n ih hs hbody s s' h hp.2.1
      | false => exact execH_ren R ft hst n ih hs rest s s' x h hp.2.2
theorem execL_ren (R : RenTable) (ft : FTab) (hst : StaticOK R ft) (n : Nat) (ih : ∀ k, k < n → GoodR o R ft k)
    {π : Ren} {P : String → Bool} (hs : Stat π P) :
    (l : List Stmt) → (s s' : St) → Rel π P s s' → okL π P l = true →
      ResRel (Rel π P) (execL ⟨ft, o⟩ n s l) (execL ⟨renFT R ft, o⟩ n s' (renBody π l))
  | [], s, s', h, _ => by simp only [renBody, execL_nil]; exact h
  | st :: rest, s, s', h, hok => by
    have hp : okS π P st = true ∧ okL π P rest = true := by
      simp only [okS, okL, namesL, fixedL, List.all_append, Bool.and_eq_true] at hok ⊢
      exact ⟨⟨hok.1.1, hok.2.1⟩, ⟨hok.1.2, hok.2.2⟩⟩
    simp only [renBody]
    exact execL_cons_rel ft (renFT R ft) n s s' st _ rest _ (exec1_ren R ft hst n ih hs st s s' h hp.1)
      (fun s1 s1' h1 => execL_ren R ft hst n ih hs rest s1 s1' h1 hp.2)
end

end PMV.PyCore

import PMV.Proofs.TransformsDebug
/-
  C05, combine_imports: output = input modulo splitting import statements into single-name imports.
-/
namespace PMV.Transforms
open PMV PMV.Spec.Rewrites

def ImpOnly : COpts := { imports := true }

theorem cSuite_impOnly (fb : Bool) (b : List Stmt) : cSuite ImpOnly fb b = b.flatMap (splitImport ImpOnly) := by
  unfold cSuite
  have h1 : b.flatMap (debugSplice ImpOnly) = b := by
    rw [show (debugSplice ImpOnly) = (fun s => [s]) from funext (debugSplice_id ImpOnly rfl)]; exact flatMap_single b
  have h3 : (fun s => !dropStmt ImpOnly s) = (fun _ => true) := by
    funext s; simp [dropStmt, ImpOnly, COpts.placeholders]
  have h4 : ∀ l : List Stmt, l.filter (fun _ => true) = l := by intro l; simp
  simp only [h1, h3, h4]
  simp [ImpOnly]

/-- the canonical form leaves import statements alone and never turns another statement into one -/
theorem cStmt_not_import (cls : Option (List Expr × List Expr)) (s : Stmt) (h : ∀ ns, s ≠ .import_ ns) (ns : List Alias) :
    cStmt ImpOnly cls s ≠ .import_ ns := by
  cases s with
  | import_ a => exact absurd rfl (h a)
  | return_ v => simp only [cStmt]; split <;> (try split) <;> (intro e; cases e)
  | annAssign tg ann v sm =>
    simp only [cStmt]
    rcases annAssign_shape ImpOnly.ann cls tg ann v sm with ⟨ts, val, e⟩ | ⟨a, b, c, d, e⟩ <;> rw [e] <;> intro e' <;> cases e'
  | _ => simp only [cStmt] <;> (intro e; cases e)

theorem cStmt_not_from (cls : Option (List Expr × List Expr)) (s : Stmt) (h : asImportFrom s = none) :
    asImportFrom (cStmt ImpOnly cls s) = none := by
  cases s with
  | importFrom m ns l => simp [asImportFrom] at h
  | return_ v => simp only [cStmt]; split <;> (try split) <;> rfl
  | annAssign tg ann v sm =>
    simp only [cStmt]
    rcases annAssign_shape ImpOnly.ann cls tg ann v sm with ⟨ts, val, e⟩ | ⟨a, b, c, d, e⟩ <;> rw [e] <;> rfl
  | _ => rfl

theorem combineImport_merge (a b : List Alias) (rest t : List Stmt) (h : combineImport rest = .import_ b :: t) :
    combineImport (.import_ a :: rest) = .import_ (a ++ b) :: t := by
  simp only [combineImport, h]

theorem combineImport_keep (a : List Alias) (rest : List Stmt) (h : ∀ b t, combineImport rest ≠ .import_ b :: t) :
    combineImport (.import_ a :: rest) = .import_ a :: combineImport rest := by
  cases hc : combineImport rest with
  | nil => simp only [combineImport, hc]
  | cons x t =>
    cases x with
    | import_ b => exact absurd hc (h b t)
    | _ => simp only [combineImport, hc]

theorem combineImport_other (s : Stmt) (rest : List Stmt) (h : ∀ a, s ≠ .import_ a) : combineImport (s :: rest) = s :: combineImport rest := by
  cases s <;> first | rfl | exact absurd rfl (h _)

theorem cBody_combineImport (cls : Option (List Expr × List Expr)) : (ys : List Stmt) →
    cBody ImpOnly cls (combineImport ys) = combineImport (cBody ImpOnly cls ys)
  | [] => by simp [combineImport, cBody]
  | s :: rest => by
    have ih := cBody_combineImport cls rest
    by_cases hs : ∃ a, s = .import_ a
    · obtain ⟨a, rfl⟩ := hs
      have e1 : cStmt ImpOnly cls (.import_ a) = .import_ a := rfl
      by_cases hm : ∃ b t, combineImport rest = .import_ b :: t
      · obtain ⟨b, t, hb⟩ := hm
        rw [combineImport_merge a b rest t hb]
        have hb' : combineImport (cBody ImpOnly cls rest) = .import_ b :: cBody ImpOnly cls t := by
          rw [← ih, hb]; simp [cBody]; rfl
        simp only [cBody, e1]
        rw [combineImport_merge a b _ _ hb']
        rfl
      · have hk : ∀ b t, combineImport rest ≠ .import_ b :: t := fun b t e => hm ⟨b, t, e⟩
        rw [combineImport_keep a rest hk]
        have hk' : ∀ b t, combineImport (cBody ImpOnly cls rest) ≠ .import_ b :: t := by
          intro b t e
          rw [← ih] at e
          cases hc : combineImport rest with
          | nil => rw [hc] at e; simp [cBody] at e
          | cons h tl =>
            rw [hc] at e
            simp only [cBody, List.cons.injEq] at e
            have hne : ∀ ns, h ≠ .import_ ns := fun ns en => hk ns tl (by rw [hc, en])
            exact cStmt_not_import cls h hne b e.1
        simp only [cBody, e1]
        rw [combineImport_keep a _ hk', ih]
    · have hne : ∀ a, s ≠ .import_ a := fun a e => hs ⟨a, e⟩
      rw [combineImport_other s rest hne]
      simp only [cBody]
      rw [combineImport_other _ _ (cStmt_not_import cls s hne), ih]

theorem cBody_flushFrom (cls : Option (List Expr × List Expr)) (prev : Option (Option String × Nat)) (acc : List Alias) :
    cBody ImpOnly cls (flushFrom prev acc) = flushFrom prev acc := by
  unfold flushFrom
  split <;> simp [cBody, cStmt]

theorem cBody_combineFromAux (cls : Option (List Expr × List Expr)) : (ys : List Stmt) → (prev : Option (Option String × Nat)) → (acc : List Alias) →
    cBody ImpOnly cls (combineFromAux prev acc ys) = combineFromAux prev acc (cBody ImpOnly cls ys)
  | [], prev, acc => by simp [combineFromAux, cBody, cBody_flushFrom]
  | s :: rest, prev, acc => by
    simp only [combineFromAux, cBody]
    cases hs : asImportFrom s with
    | some tr =>
      obtain ⟨m, a, l⟩ := tr
      have : s = .importFrom m a l := by
        cases s <;> simp [asImportFrom] at hs
        obtain ⟨h1, h2, h3⟩ := hs; subst h1; subst h2; subst h3; rfl
      subst this
      have e1 : cStmt ImpOnly cls (.importFrom m a l) = .importFrom m a l := rfl
      rw [e1]
      simp only [asImportFrom]
      by_cases hg : groupOK prev m a l = true
      · simp only [hg, if_true]; exact cBody_combineFromAux cls rest _ _
      · simp only [hg, Bool.false_eq_true, if_false]
        rw [cBody_append, cBody_flushFrom]
        simp only [cBody, e1]
        rw [cBody_combineFromAux cls rest prev []]
    | none =>
      have h2 := cStmt_not_from cls s hs
      simp only [h2]
      rw [cBody_append, cBody_flushFrom]
      simp only [cBody]
      rw [cBody_combineFromAux cls rest prev []]

theorem flatFrom_singles (ns : List Alias) : flatFrom (ns.map (fun a => Stmt.import_ [a])) = ns.map (fun a => Stmt.import_ [a]) := by
  induction ns with
  | nil => rfl
  | cons a as ih => simp only [List.map_cons, flatFrom, asImportFrom, ih, List.singleton_append]

theorem flattenImports_append (a b : List Stmt) : flattenImports (a ++ b) = flattenImports a ++ flattenImports b := by
  induction a with
  | nil => rfl
  | cons x xs ih => cases x <;> simp [flattenImports, ih]

theorem flatten_fromSingles (m : Option String) (l : Nat) (ns : List Alias) :
    flattenImports (ns.map (fun x => Stmt.importFrom m [x] l)) = ns.map (fun x => Stmt.importFrom m [x] l) := by
  induction ns with
  | nil => rfl
  | cons a as ih => simp only [List.map_cons, flattenImports, ih]

/-- splitting both kinds of import statement at once is splitting one kind after the other, in either order -/
theorem split_eq_flatFrom_flatten : (b : List Stmt) → b.flatMap (splitImport ImpOnly) = flatFrom (flattenImports b)
  | [] => rfl
  | s :: rest => by
    have ih := split_eq_flatFrom_flatten rest
    rw [List.flatMap_cons, ih]
    cases s with
    | import_ ns =>
      have : splitImport ImpOnly (.import_ ns) = ns.map (fun a => Stmt.import_ [a]) := rfl
      rw [this, flattenImports, flatFrom_append, flatFrom_singles]
    | importFrom m ns l =>
      have : splitImport ImpOnly (.importFrom m ns l) = ns.map (fun a => Stmt.importFrom m [a] l) := rfl
      rw [this]; rfl
    | _ => rfl

theorem split_eq_flatten_flatFrom : (b : List Stmt) → b.flatMap (splitImport ImpOnly) = flattenImports (flatFrom b)
  | [] => rfl
  | s :: rest => by
    have ih := split_eq_flatten_flatFrom rest
    rw [List.flatMap_cons, ih]
    cases s with
    | import_ ns =>
      have : splitImport ImpOnly (.import_ ns) = ns.map (fun a => Stmt.import_ [a]) := rfl
      rw [this]; rfl
    | importFrom m ns l =>
      have : splitImport ImpOnly (.importFrom m ns l) = ns.map (fun a => Stmt.importFrom m [a] l) := rfl
      rw [this]
      show _ = flattenImports (ns.map (fun x => Stmt.importFrom m [x] l) ++ flatFrom rest)
      rw [flattenImports_append, flatten_fromSingles]
    | _ => rfl

theorem imports_suite (cls : Option (List Expr × List Expr)) (fb : Bool) (ys : List Stmt) :
    cSuite ImpOnly fb (cBody ImpOnly cls (combineFrom (combineImport ys))) = cSuite ImpOnly fb (cBody ImpOnly cls ys) := by
  rw [cSuite_impOnly, cSuite_impOnly]
  unfold combineFrom
  rw [cBody_combineFromAux, cBody_combineImport]
  have h1 : ∀ W, (combineFromAux none [] W).flatMap (splitImport ImpOnly) = W.flatMap (splitImport ImpOnly) := by
    intro W
    rw [split_eq_flatten_flatFrom, split_eq_flatten_flatFrom]
    have := flatFrom_combineFrom W
    unfold combineFrom at this
    rw [this]
  rw [h1, split_eq_flatFrom_flatten, flatten_combineImport, ← split_eq_flatFrom_flatten]

def suiteT (F : Bool → List Stmt → List Stmt) : SuiteT := { suiteF := F }
@[simp] theorem suiteT_suiteF (F : Bool → List Stmt → List Stmt) (m : Bool) (b : List Stmt) : (suiteT F).suiteF m b = F m b := rfl
@[simp] theorem suiteT_stmtF (F : Bool → List Stmt → List Stmt) (s : Stmt) : (suiteT F).stmtF s = s := rfl
@[simp] theorem suiteT_funcBodyF (F : Bool → List Stmt → List Stmt) (b : List Stmt) : (suiteT F).funcBodyF b = b := rfl

section AbsorbS
variable (c : COpts) (F : Bool → List Stmt → List Stmt)
  (hsuite : ∀ (cls : Option (List Expr × List Expr)) (fb m : Bool) (ys : List Stmt), cSuite c fb (cBody c cls (F m ys)) = cSuite c fb (cBody c cls ys))
include hsuite


mutual
theorem sAbsorbStmt : (s : Stmt) → (cls : Option (List Expr × List Expr)) → cStmt c cls (travStmt (suiteT F) s) = cStmt c cls s
  | .functionDef a n args body decs ret tps, cls => by
    simp only [travStmt, suiteT_suiteF, suiteT_stmtF, suiteT_funcBodyF, cStmt]; rw [hsuite none, sAbsorbBody body none]
  | .classDef n bases kws body decs tps, cls => by
    simp only [travStmt, suiteT_suiteF, suiteT_stmtF, suiteT_funcBodyF, cStmt]; rw [hsuite _, sAbsorbBody body _]
  | .for_ a tg it body orelse, cls => by
    simp only [travStmt, suiteT_suiteF, suiteT_stmtF, suiteT_funcBodyF, cStmt]; rw [hsuite cls, sAbsorbBody body cls]
    cases orelse with
    | nil => simp [cBody]
    | cons o os => simp only [List.isEmpty_cons, Bool.false_eq_true, if_false]; rw [hsuite cls, sAbsorbBody (o :: os) cls]
  | .while_ t body orelse, cls => by
    simp only [travStmt, suiteT_suiteF, suiteT_stmtF, suiteT_funcBodyF, cStmt]; rw [hsuite cls, sAbsorbBody body cls]
    cases orelse with
    | nil => simp [cBody]
    | cons o os => simp only [List.isEmpty_cons, Bool.false_eq_true, if_false]; rw [hsuite cls, sAbsorbBody (o :: os) cls]
  | .if_ t body orelse, cls => by
    simp only [travStmt, suiteT_suiteF, suiteT_stmtF, suiteT_funcBodyF, cStmt]; rw [hsuite cls, sAbsorbBody body cls]
    cases orelse with
    | nil => simp [cBody]
    | cons o os => simp only [List.isEmpty_cons, Bool.false_eq_true, if_false]; rw [hsuite cls, sAbsorbBody (o :: os) cls]
  | .with_ a items body, cls => by
    simp only [travStmt, suiteT_suiteF, suiteT_stmtF, suiteT_funcBodyF, cStmt]; rw [hsuite cls, sAbsorbBody body cls]
  | .try_ false body hs orelse fin, cls => by
    simp only [travStmt, suiteT_suiteF, suiteT_stmtF, suiteT_funcBodyF, cStmt]
    rw [hsuite cls, sAbsorbBody body cls, sAbsorbHandlers hs cls]
    have ho : cSuite c false (cBody c cls (if orelse.isEmpty then [] else F false (travBody (suiteT F) orelse))) = cSuite c false (cBody c cls orelse) := by
      cases orelse with
      | nil => simp [cBody]
      | cons o os => simp only [List.isEmpty_cons, Bool.false_eq_true, if_false]; rw [hsuite cls, sAbsorbBody (o :: os) cls]
    have hfin : cSuite c false (cBody c cls (if fin.isEmpty then [] else F false (travBody (suiteT F) fin))) = cSuite c false (cBody c cls fin) := by
      cases fin with
      | nil => simp [cBody]
      | cons o os => simp only [List.isEmpty_cons, Bool.false_eq_true, if_false]; rw [hsuite cls, sAbsorbBody (o :: os) cls]
    rw [ho, hfin]
  | .try_ true body hs orelse fin, cls => by
    simp only [travStmt, cStmt]
    rw [sAbsorbBody body cls, sAbsorbHandlers hs cls, sAbsorbBody orelse cls, sAbsorbBody fin cls]
  | .match_ s cases, cls => by simp only [travStmt, cStmt]; rw [sAbsorbCases cases cls]
  | .return_ v, cls => by simp [travStmt]
  | .delete ts, cls => by simp [travStmt]
  | .assign ts v, cls => by simp [travStmt]
  | .typeAlias n tps v, cls => by simp [travStmt]
  | .augAssign tg op v, cls => by simp [travStmt]
  | .annAssign tg ann v s, cls => by simp [travStmt]
  | .raise_ e ca, cls => by simp [travStmt]
  | .assert_ t m, cls => by simp [travStmt]
  | .import_ ns, cls => by simp [travStmt]
  | .importFrom m ns l, cls => by simp [travStmt]
  | .global ns, cls => by simp [travStmt]
  | .nonlocal ns, cls => by simp [travStmt]
  | .expr v, cls => by simp [travStmt]
  | .pass, cls => by simp [travStmt]
  | .break_, cls => by simp [travStmt]
  | .continue_, cls => by simp [travStmt]
theorem sAbsorbBody : (b : List Stmt) → (cls : Option (List Expr × List Expr)) → cBody c cls (travBody (suiteT F) b) = cBody c cls b
  | [], cls => by simp [travBody, cBody]
  | s :: ss, cls => by simp only [travBody, cBody]; rw [sAbsorbStmt s cls, sAbsorbBody ss cls]
theorem sAbsorbHandlers : (hs : List Handler) → (cls : Option (List Expr × List Expr)) → cHandlers c cls (travHandlers (suiteT F) hs) = cHandlers c cls hs
  | [], cls => by simp [travHandlers, cHandlers]
  | .mk ty n body :: hs, cls => by simp only [travHandlers, cHandlers]; rw [sAbsorbBody body cls, sAbsorbHandlers hs cls]
theorem sAbsorbCases : (cs : List MatchCase) → (cls : Option (List Expr × List Expr)) → cCases c cls (travCases (suiteT F) cs) = cCases c cls cs
  | [], cls => by simp [travCases, cCases]
  | .mk p g body :: cs, cls => by simp only [travCases, cCases]; rw [sAbsorbBody body cls, sAbsorbCases cs cls]
end

end AbsorbS

/-- combine_imports: output = input modulo splitting import statements into single-name imports (no alias lost, added or moved) -/
theorem combineImports_canon (m : Module) :
    canonModule ImpOnly (travModule combineImports m) = canonModule ImpOnly m := by
  have : combineImports = suiteT (fun _ b => combineFrom (combineImport b)) := rfl
  rw [this, canonModule_simple ImpOnly rfl rfl, canonModule_simple ImpOnly rfl rfl]
  simp only [travModule, suiteT_suiteF]
  rw [imports_suite none false, sAbsorbBody ImpOnly (fun _ b => combineFrom (combineImport b)) (fun cls fb _ ys => imports_suite cls fb ys) m.body none]

/-- module-level absorption for a transform that only rewrites suites -/
theorem canon_suiteT (c : COpts) (F : Bool → List Stmt → List Stmt)
    (hsuite : ∀ (cls : Option (List Expr × List Expr)) (fb m : Bool) (ys : List Stmt), cSuite c fb (cBody c cls (F m ys)) = cSuite c fb (cBody c cls ys))
    (hl : (c.literals && c.keepModuleDoc) = false) (hp : c.posargs = false) (m : Module) :
    canonModule c (travModule (suiteT F) m) = canonModule c m := by
  rw [canonModule_simple c hl hp, canonModule_simple c hl hp]
  simp only [travModule, suiteT_suiteF]
  rw [hsuite none false true, sAbsorbBody c F hsuite m.body none]

end PMV.Transforms

import PMV.Proofs.PyCore
import PMV.Model.Traverse
/-
  C01: a transformer that rewrites expressions only (constant folding, positional-only conversion) and
  preserves the PyCore value of every expression that has one *refines* the behaviour of every
  statement: wherever the original program is inside the core (not `stuck`), the transformed program
  does exactly the same — through loops and calls, at every fuel.
-/
namespace PMV.PyCore
open PMV PMV.Traverse

variable {o : Bool}

/-- `r'` refines `r`: unless `r` is outside the core, `r'` is `r` -/
def Res.le (r r' : Res Flow) : Prop := r = .stuck ∨ r' = r

theorem Res.le_refl (r : Res Flow) : Res.le r r := Or.inr rfl

/-- `f(args)` with a plain name as the callee and no keywords -/
def asNameCall : Expr → Option (String × Ctx × List Expr)
  | .call (.name g c) args [] => some (g, c, args)
  | _ => none

theorem asNameCall_some (e : Expr) (g : String) (c : Ctx) (args : List Expr) (h : asNameCall e = some (g, c, args)) :
    e = .call (.name g c) args [] := by
  unfold asNameCall at h
  split at h
  · simp only [Option.some.injEq, Prod.mk.injEq] at h
    obtain ⟨h1, h2, h3⟩ := h
    subst h1; subst h2; subst h3; rfl
  · simp at h

/-- what an expression map must satisfy -/
structure ExprOK (m : ExprMap) : Prop where
  evalOK : ∀ s e, evalE s e ≠ none → evalE s (m.e e) = evalE s e
  name : ∀ x c, m.e (.name x c) = .name x c
  const : ∀ e, isConst e = true → m.e e = e
  call : ∀ g c args, m.e (.call (.name g c) args []) = .call (.name g c) (args.map m.e) []
  notCall : ∀ e, asNameCall e = none → asNameCall (m.e e) = none
  notName : ∀ e, nameOf e = none → nameOf (m.e e) = none
  params : ∀ a, paramNames (m.args a) = paramNames a
  handlerTy : ∀ ty, excKind (mapO m.e ty) = excKind ty
  dbgCmp : ∀ e, debugCmp (m.e e) = (debugCmp e).map (fun p => (p.1, m.e p.2))
  core : ∀ e, coreE (m.e e) = coreE e

theorem evalArgs_map (m : ExprMap) (h : ExprOK m) (s : St) : ∀ args : List Expr,
    evalArgs s args ≠ none → evalArgs s (args.map m.e) = evalArgs s args
  | [], _ => rfl
  | e :: es, hne => by
    simp only [List.map, evalArgs] at hne ⊢
    cases he : evalE s e with
    | none => simp [he] at hne
    | some r =>
      rw [h.evalOK s e (by simp [he]), he]
      cases r with
      | error x => rfl
      | ok v =>
        simp only [he] at hne
        have : evalArgs s es ≠ none := by
          intro hn; simp [hn] at hne
        rw [evalArgs_map m h s es this]

theorem evalThen_le (m : ExprMap) (h : ExprOK m) (s : St) (e : Expr) (k : Val → Res Flow) :
    Res.le (evalThen s e k) (evalThen s (m.e e) k) := by
  unfold evalThen
  cases he : evalE s e with
  | none => left; rfl
  | some r => right; rw [h.evalOK s e (by simp [he]), he]

theorem nameOf_some (e : Expr) (x : String) (c : Ctx) (h : nameOf e = some (x, c)) : e = .name x c := by
  cases e <;> simp [nameOf] at h
  obtain ⟨h1, h2⟩ := h; subst h1; subst h2; rfl

theorem nameOf_map (m : ExprMap) (h : ExprOK m) (e : Expr) : nameOf (m.e e) = nameOf e := by
  cases hn : nameOf e with
  | none => exact h.notName e hn
  | some p =>
    obtain ⟨x, c⟩ := p
    rw [nameOf_some e x c hn, h.name]; rfl

theorem assignTarget_eq (ts : List Expr) :
    assignTarget ts = (match ts with | [e] => (nameOf e).map Prod.fst | _ => none) := by
  match ts with
  | [] => rfl
  | [e] => cases e <;> rfl
  | a :: b :: r => cases a <;> simp [assignTarget]

theorem assignTarget_map (m : ExprMap) (h : ExprOK m) (ts : List Expr) :
    assignTarget (ts.map m.e) = assignTarget ts := by
  rw [assignTarget_eq, assignTarget_eq]
  match ts with
  | [] => rfl
  | [e] => simp [nameOf_map m h e]
  | _ :: _ :: _ => rfl

theorem printArgs_eq (e : Expr) :
    printArgs e = (asNameCall e).bind (fun p => if p.1 == "print" then some p.2.2 else none) := by
  unfold printArgs asNameCall
  split <;> simp_all

theorem asNameCall_map (m : ExprMap) (h : ExprOK m) (e : Expr) :
    asNameCall (m.e e) = (asNameCall e).map (fun p => (p.1, p.2.1, p.2.2.map m.e)) := by
  cases hc : asNameCall e with
  | none => simp [h.notCall e hc]
  | some p =>
    obtain ⟨g, c, args⟩ := p
    rw [asNameCall_some e g c args hc, h.call]
    rfl

theorem isConst_noError (s : St) (e : Expr) (x : String) (hc : isConst e = true) : evalE s e ≠ some (.error x) := by
  cases e <;> simp [isConst] at hc
  rename_i c
  cases c <;> simp [evalE]

theorem isConst_notCall (e : Expr) (hc : isConst e = true) : asNameCall e = none := by
  cases e <;> simp [isConst] at hc
  rfl


theorem exprStmt_le (m : ExprMap) (h : ExprOK m) (s : St) (e : Expr) :
    Res.le (exprStmt s e) (exprStmt s (m.e e)) := by
  by_cases hc : isConst e = true
  · rw [h.const e hc]; exact Res.le_refl _
  · unfold exprStmt
    simp only [hc, Bool.false_eq_true, if_false]
    rw [printArgs_eq e, printArgs_eq (m.e e), asNameCall_map m h e]
    cases hcall : asNameCall e with
    | some p =>
      obtain ⟨g, c, args⟩ := p
      have hnc : isConst (m.e e) = false := by
        rw [asNameCall_some e g c args hcall, h.call]; rfl
      simp only [hnc, Bool.false_eq_true, if_false, Option.map_some, Option.bind_some]
      by_cases hp : (g == "print") = true
      · simp only [hp, if_true]
        cases hargs : evalArgs s args with
        | none => left; rfl
        | some r => right; rw [evalArgs_map m h s args (by simp [hargs]), hargs]
      · simp only [hp, Bool.false_eq_true, if_false]
        exact evalThen_le m h s e _
    | none =>
      simp only [Option.map_none, Option.bind_none]
      cases he : evalE s e with
      | none => left; simp [evalThen, he]
      | some r =>
        right
        have hm : evalE s (m.e e) = some r := by rw [h.evalOK s e (by simp [he]), he]
        by_cases hmc : isConst (m.e e) = true
        · simp only [hmc, if_true, evalThen, he]
          cases r with
          | ok v => rfl
          | error x => exact absurd hm (isConst_noError s _ x hmc)
        · simp only [hmc, Bool.false_eq_true, if_false, evalThen, he, hm]

theorem evalE_binOp_right (m : ExprMap) (h : ExprOK m) (s : St) (l : Expr) (op : BinOpK) (r : Expr)
    (hne : evalE s (.binOp l op r) ≠ none) : evalE s (.binOp l op (m.e r)) = evalE s (.binOp l op r) := by
  simp only [evalE] at hne ⊢
  cases hl : evalE s l with
  | none => simp [hl] at hne
  | some rl =>
    cases rl with
    | error x => rfl
    | ok a =>
      simp only [hl] at hne
      cases hr : evalE s r with
      | none => simp [hr] at hne
      | some rr => rw [h.evalOK s r (by simp [hr]), hr]

theorem raiseName_map (m : ExprMap) (h : ExprOK m) (e c : Option Expr) :
    raiseName (mapO m.e e) (mapO m.e c) = raiseName e c := by
  cases c with
  | some c' =>
    have h1 : ∀ x y, raiseName x (some y) = none := by intro x y; unfold raiseName; split <;> simp_all
    simp [mapO, h1]
  | none =>
    cases e with
    | none => rfl
    | some e' =>
      simp only [mapO]
      cases hn : nameOf e' with
      | some p =>
        obtain ⟨x, c⟩ := p
        rw [nameOf_some e' x c hn, h.name]
      | none =>
        have hn' := h.notName e' hn
        cases hcall : asNameCall e' with
        | some p =>
          obtain ⟨g, c, args⟩ := p
          rw [asNameCall_some e' g c args hcall, h.call]
          cases args <;> rfl
        | none =>
          have hcall' := h.notCall e' hcall
          have key : ∀ x : Expr, nameOf x = none → asNameCall x = none → raiseName (some x) none = none := by
            intro x h1 h2
            unfold raiseName
            split
            · rename_i heq _; simp only [Option.some.injEq] at heq; subst heq; simp [nameOf] at h1
            · rename_i heq _; simp only [Option.some.injEq] at heq; subst heq; simp [asNameCall] at h2
            · rfl
          rw [key e' hn hcall, key (m.e e') hn' hcall']


/-! ### statements -/

def mapCall (m : ExprMap) (p : String × List Expr × Option String) : String × List Expr × Option String :=
  (p.1, p.2.1.map m.e, p.2.2)

theorem callOf_expr_eq (e : Expr) :
    callOf (.expr e) = (asNameCall e).bind (fun p => if p.1 == "print" then none else some (p.1, p.2.2, none)) := by
  unfold callOf asNameCall
  split <;> simp_all

theorem callOf_assign_eq (ts : List Expr) (v : Expr) :
    callOf (.assign ts v) = (assignTarget ts).bind (fun x => (asNameCall v).map (fun p => (p.1, p.2.2, some x))) := by
  rw [assignTarget_eq]
  match ts with
  | [] => rfl
  | [t] =>
    cases t <;> cases v <;> try rfl
    rename_i x c f args kws
    cases f <;> cases kws <;> rfl
  | a :: b :: r => cases a <;> rfl

theorem callOf_map (m : ExprMap) (h : ExprOK m) (st : Stmt) :
    callOf (mapStmt m st) = (callOf st).map (mapCall m) := by
  cases st
  case expr e =>
    simp only [mapStmt, callOf_expr_eq, asNameCall_map m h e]
    cases asNameCall e with
    | none => rfl
    | some p => obtain ⟨g, c, args⟩ := p; simp only [Option.map_some, Option.bind_some]; split <;> rfl
  case assign ts v =>
    simp only [mapStmt, callOf_assign_eq, assignTarget_map m h ts, asNameCall_map m h v]
    cases assignTarget ts with
    | none => rfl
    | some x =>
      cases asNameCall v with
      | none => rfl
      | some p => rfl
  all_goals (simp only [mapStmt]; rfl)

theorem simpleExec_le (m : ExprMap) (h : ExprOK m) (s : St) (st : Stmt) :
    Res.le (simpleExec s st) (simpleExec s (mapStmt m st)) := by
  cases st
  case return_ v =>
    cases v with
    | none => exact Res.le_refl _
    | some e => simp only [mapStmt, mapO, simpleExec]; exact evalThen_le m h s e _
  case expr e => simp only [mapStmt, simpleExec]; exact exprStmt_le m h s e
  case assign ts v =>
    simp only [mapStmt, simpleExec, assignTarget_map m h ts]
    cases assignTarget ts with
    | none => left; rfl
    | some x => exact evalThen_le m h s v _
  case augAssign tg op v =>
    simp only [mapStmt, simpleExec, nameOf_map m h tg]
    cases nameOf tg with
    | none => left; rfl
    | some p =>
      obtain ⟨x, c⟩ := p
      simp only [evalThen]
      cases he : evalE s (.binOp (.name x c) op v) with
      | none => left; rfl
      | some r => right; rw [evalE_binOp_right m h s _ op v (by simp [he]), he]
  case assert_ c msg => simp only [mapStmt, simpleExec]; exact evalThen_le m h s c _
  case raise_ e c => simp only [mapStmt, simpleExec, raiseName_map m h e c]; exact Res.le_refl _
  case functionDef a n args body decs ret tps =>
    simp only [mapStmt, simpleExec]
    by_cases hp : isPlainDef (.functionDef a n args body decs ret tps) = true
    · right
      have hp' : isPlainDef (.functionDef a n (m.args args) (mapBody m body) (decs.map m.e) (mapO m.e ret)
          (if m.funcTypeParams then tps.map (mapTypeParam m.e) else tps)) = true := by
        cases a <;> cases decs <;> cases ret <;> cases tps <;> simp [isPlainDef] at hp
        cases m.funcTypeParams <;> simp [isPlainDef, mapO, h.params, hp]
      simp only [hp, hp', if_true]
    · left; simp only [hp, Bool.false_eq_true, if_false]
  case pass => exact Res.le_refl _
  case break_ => exact Res.le_refl _
  case continue_ => exact Res.le_refl _
  case global => exact Res.le_refl _
  case import_ => exact Res.le_refl _
  case importFrom => exact Res.le_refl _
  case annAssign tg ann v simple =>
    simp only [mapStmt, simpleExec, nameOf_map m h tg]
    by_cases hc : (s.locals.isSome && simple) = true
    · simp only [hc, if_true]
      cases nameOf tg with
      | none => left; rfl
      | some p =>
        cases v with
        | none => exact Res.le_refl _
        | some e => simp only [mapO]; exact evalThen_le m h s e _
    · simp only [hc, Bool.false_eq_true, if_false]; left; rfl
  all_goals (left; rfl)

def mapFT (m : ExprMap) : FTab → FTab
  | [] => []
  | (n, ps, b) :: rest => (n, ps, mapBody m b) :: mapFT m rest

theorem lookup_mapFT (m : ExprMap) (f : String) : ∀ ft : FTab,
    (mapFT m ft).lookup f = (ft.lookup f).map (fun pb => (pb.1, mapBody m pb.2))
  | [] => rfl
  | (n, ps, b) :: rest => by
    simp only [mapFT, List.lookup]
    cases f == n <;> simp [lookup_mapFT m f rest]

theorem globalsOf_mapStmt (m : ExprMap) (st : Stmt) : globalsOf (mapStmt m st) = globalsOf st := by
  cases st <;> rfl

theorem globals_mapBody (m : ExprMap) : ∀ b, declaredGlobals (mapBody m b) = declaredGlobals b
  | [] => rfl
  | st :: rest => by simp [mapBody, declaredGlobals, globalsOf_mapStmt, globals_mapBody m rest]

theorem forRange_eq (tg it : Expr) :
    forRange tg it = (match nameOf tg, asNameCall it with
      | some (x, _), some (f, _, [e]) => if f == "range" then some (x, e) else none
      | _, _ => none) := by
  cases tg <;> cases it <;> try rfl
  rename_i x c f args kws
  cases f <;> try rfl
  cases kws with
  | cons k ks =>
    match args with
    | [] => rfl
    | [e] => rfl
    | _ :: _ :: _ => rfl
  | nil =>
    match args with
    | [] => rfl
    | [e] => rfl
    | _ :: _ :: _ => rfl

theorem forRange_map (m : ExprMap) (h : ExprOK m) (tg it : Expr) :
    forRange (m.e tg) (m.e it) = (forRange tg it).map (fun p => (p.1, m.e p.2)) := by
  rw [forRange_eq, forRange_eq, nameOf_map m h tg, asNameCall_map m h it]
  cases nameOf tg with
  | none => rfl
  | some p =>
    obtain ⟨x, c⟩ := p
    cases asNameCall it with
    | none => rfl
    | some q =>
      obtain ⟨f, c2, args⟩ := q
      match args with
      | [] => rfl
      | [e] => simp only [Option.map_some, List.map]; split <;> rfl
      | _ :: _ :: _ => rfl

/-! ### the bound names of a function body survive an expression map -/

theorem coreX_eq (e : Expr) : coreX e = (match asNameCall e with | some p => p.2.2.all coreE | none => coreE e) := by
  unfold coreX asNameCall
  split <;> simp_all

theorem all_core_map (m : ExprMap) (h : ExprOK m) : ∀ args : List Expr, (args.map m.e).all coreE = args.all coreE
  | [] => rfl
  | e :: es => by simp only [List.map, List.all_cons, h.core, all_core_map m h es]

theorem coreX_map (m : ExprMap) (h : ExprOK m) (e : Expr) : coreX (m.e e) = coreX e := by
  rw [coreX_eq, coreX_eq, asNameCall_map m h e]
  cases asNameCall e with
  | none => exact h.core e
  | some p => simp only [Option.map_some]; exact all_core_map m h p.2.2

mutual
theorem bindS_map (m : ExprMap) (h : ExprOK m) : ∀ st : Stmt, bindS (mapStmt m st) = bindS st
  | .functionDef .. => by simp [mapStmt, bindS]
  | .classDef .. => by simp [mapStmt, bindS]
  | .return_ v => by cases v <;> simp [mapStmt, mapO, bindS, h.core]
  | .delete _ => by simp [mapStmt, bindS]
  | .assign ts v => by simp only [mapStmt, bindS, assignTarget_map m h ts, coreX_map m h v]
  | .typeAlias .. => by simp [mapStmt, bindS]
  | .augAssign tg op v => by simp only [mapStmt, bindS, nameOf_map m h tg, h.core]
  | .annAssign tg ann v simple => by
    cases v <;> simp only [mapStmt, mapO, bindS, nameOf_map m h tg, h.core]
  | .for_ a tg it body orelse => by
    cases a
    · simp only [mapStmt, bindS, forRange_map m h tg it, bindL_map m h body, bindL_map m h orelse]
      cases forRange tg it with
      | none => rfl
      | some p => simp only [Option.map_some, h.core]
    · simp [mapStmt, bindS]
  | .while_ c body orelse => by simp only [mapStmt, bindS, h.core, bindL_map m h body, bindL_map m h orelse]
  | .if_ c body orelse => by simp only [mapStmt, bindS, h.core, bindL_map m h body, bindL_map m h orelse]
  | .with_ .. => by simp [mapStmt, bindS]
  | .match_ .. => by simp [mapStmt, bindS]
  | .raise_ e c => by simp only [mapStmt, bindS, raiseName_map m h e c]
  | .try_ st body hs orelse fin => by
    cases st
    · simp only [mapStmt, bindS, bindL_map m h body, bindH_map m h hs, bindL_map m h orelse, bindL_map m h fin]
    · simp [mapStmt, bindS]
  | .assert_ c msg => by cases msg <;> simp [mapStmt, mapO, bindS, h.core]
  | .import_ _ => by simp [mapStmt]
  | .importFrom .. => by simp [mapStmt]
  | .global _ => by simp [mapStmt]
  | .nonlocal _ => by simp [mapStmt]
  | .expr v => by simp only [mapStmt, bindS, coreX_map m h v]
  | .pass => by simp [mapStmt]
  | .break_ => by simp [mapStmt]
  | .continue_ => by simp [mapStmt]
theorem bindL_map (m : ExprMap) (h : ExprOK m) : ∀ b : List Stmt, bindL (mapBody m b) = bindL b
  | [] => by simp [mapBody]
  | st :: rest => by simp only [mapBody, bindL, bindS_map m h st, bindL_map m h rest]
theorem bindH_map (m : ExprMap) (h : ExprOK m) : ∀ hs : List Handler, bindH (mapHandlers m hs) = bindH hs
  | [] => by simp [mapHandlers]
  | .mk ty nm body :: rest => by simp only [mapHandlers, bindH, h.handlerTy, bindL_map m h body, bindH_map m h rest]
end

theorem bindTop_map (m : ExprMap) (h : ExprOK m) : ∀ b : List Stmt, bindTop (mapBody m b) = bindTop b
  | [] => by simp [mapBody]
  | st :: rest => by
    have hs := bindS_map m h st
    cases st <;> simp only [mapBody, mapStmt, bindTop, bindTop_map m h rest] <;> simp only [mapStmt] at hs <;> rw [hs]

/-- the refinement claim at one fuel level -/
def GoodM (o : Bool) (m : ExprMap) (ft : FTab) (n : Nat) : Prop :=
  (∀ s st, Res.le (exec1 ⟨ft, o⟩ n s st) (exec1 ⟨mapFT m ft, o⟩ n s (mapStmt m st))) ∧
  (∀ s l, Res.le (execL ⟨ft, o⟩ n s l) (execL ⟨mapFT m ft, o⟩ n s (mapBody m l)))

theorem callFn_le (m : ExprMap) (h : ExprOK m) (ft : FTab) (n : Nat) (ih : ∀ k, k < n → GoodM o m ft k)
    (s : St) (f : String) (args : List Expr) (tgt : Option String) :
    Res.le (callFn ⟨ft, o⟩ n s f args tgt) (callFn ⟨mapFT m ft, o⟩ n s f (args.map m.e) tgt) := by
  rw [callFn, callFn]
  cases hargs : evalArgs s args with
  | none => left; rfl
  | some r =>
    rw [evalArgs_map m h s args (by simp [hargs]), hargs]
    cases r with
    | error x => right; rfl
    | ok vs =>
      simp only [lookup_mapFT]
      cases ft.lookup f with
      | none => left; rfl
      | some pb =>
        obtain ⟨ps, b⟩ := pb
        simp only [Option.map_some, bindTop_map m h b]
        cases bindTop b with
        | none => left; rfl
        | some bound =>
        simp only
        cases n with
        | zero => right; rfl
        | succ k =>
          simp only [globals_mapBody]
          split
          · right; rfl
          · rcases (ih k (Nat.lt_succ_self k)).2
              { globals := s.globals, locals := some (ps.zip vs), declGlobal := declaredGlobals b, out := s.out, imports := s.imports, localNames := ps ++ canonNames bound } b with hb | hb
            · left; simp only [hb, asCall]
            · right; simp only [hb]

theorem execL_cons_le (ft ft' : FTab) (n : Nat) (s : St) (st st' : Stmt) (rest rest' : List Stmt)
    (h1 : Res.le (exec1 ⟨ft, o⟩ n s st) (exec1 ⟨ft', o⟩ n s st'))
    (h2 : ∀ s', Res.le (execL ⟨ft, o⟩ n s' rest) (execL ⟨ft', o⟩ n s' rest')) :
    Res.le (execL ⟨ft, o⟩ n s (st :: rest)) (execL ⟨ft', o⟩ n s (st' :: rest')) := by
  rw [execL_cons, execL_cons]
  rcases h1 with h1 | h1
  · left; rw [h1]
  · rw [h1]
    cases exec1 ⟨ft, o⟩ n s st with
    | ok fl =>
      cases fl with
      | normal s' => exact h2 s'
      | _ => right; rfl
    | _ => right; rfl


theorem flat_le (m : ExprMap) (h : ExprOK m) (ft : FTab) (n : Nat) (ih : ∀ k, k < n → GoodM o m ft k)
    (s : St) (st : Stmt) (hst : isBlockStmt st = false) :
    Res.le (exec1 ⟨ft, o⟩ n s st) (exec1 ⟨mapFT m ft, o⟩ n s (mapStmt m st)) := by
  have hst' : isBlockStmt (mapStmt m st) = false := by
    cases st
    case try_ star _ _ _ _ => cases star <;> first | rfl | simp [isBlockStmt] at hst
    case for_ isAsync _ _ _ _ => cases isAsync <;> first | rfl | simp [isBlockStmt] at hst
    all_goals first | rfl | simp [isBlockStmt] at hst
  have hasrt : isAssertStmt (mapStmt m st) = isAssertStmt st := by cases st <;> rfl
  rw [exec1_flat _ _ _ _ hst, exec1_flat _ _ _ _ hst']
  unfold flatExec
  rw [callOf_map m h st, hasrt]
  simp only
  by_cases ha : (o && isAssertStmt st) = true
  · simp only [ha, if_true]; exact Res.le_refl _
  · simp only [ha, Bool.false_eq_true, if_false]
    cases callOf st with
    | none => exact simpleExec_le m h s st
    | some p => obtain ⟨f, args, tgt⟩ := p; exact callFn_le m h ft n ih s f args tgt

def isTuple : Expr → Bool
  | .tuple _ => true
  | _ => false

theorem nameList_map (f : Expr → Expr) (hn : ∀ e, nameOf (f e) = nameOf e) : ∀ es : List Expr, nameList (es.map f) = nameList es
  | [] => rfl
  | e :: es => by simp [nameList, hn e, nameList_map f hn es]

/-- a rewrite that keeps names, maps tuples elementwise and never makes a tuple keeps every handler's exception pattern -/
theorem excKind_map (f : Expr → Expr) (hn : ∀ e, nameOf (f e) = nameOf e)
    (ht : ∀ es, f (.tuple es) = .tuple (es.map f)) (hnt : ∀ e, isTuple e = false → isTuple (f e) = false)
    (ty : Option Expr) : excKind (mapO f ty) = excKind ty := by
  cases ty with
  | none => rfl
  | some e =>
    simp only [mapO]
    by_cases he : isTuple e = true
    · cases e <;> simp [isTuple] at he
      rename_i es
      rw [ht]
      simp [excKind, nameList_map f hn es]
    · have he' : isTuple e = false := by simpa using he
      have hfe := hnt e he'
      have key : ∀ x : Expr, isTuple x = false → excKind (some x) = (match nameOf x with | some (n, _) => ExcPat.names [n] | none => ExcPat.unknown) := by
        intro x hx
        cases x <;> first | rfl | simp [isTuple] at hx
      rw [key e he', key (f e) hfe, hn e]

/-- `for` loops refine when body and `else` refine at every fuel up to the current one -/
theorem execFor_le (ft ft' : FTab) (body body' orelse orelse' : List Stmt) (N : Nat)
    (hb : ∀ f, f ≤ N → ∀ s, Res.le (execL ⟨ft, o⟩ f s body) (execL ⟨ft', o⟩ f s body'))
    (ho : ∀ f, f ≤ N → ∀ s, Res.le (execL ⟨ft, o⟩ f s orelse) (execL ⟨ft', o⟩ f s orelse')) :
    ∀ f, f ≤ N → ∀ (s : St) (x : String) (i k : Int),
      Res.le (execFor ⟨ft, o⟩ f s x i k body orelse) (execFor ⟨ft', o⟩ f s x i k body' orelse') := by
  intro f
  induction f with
  | zero =>
    intro hf s x i k
    rw [execFor.eq_1, execFor.eq_1]
    by_cases hik : i < k
    · simp only [hik, if_true]; exact Res.le_refl _
    · simp only [hik, if_false]; exact ho 0 hf s
  | succ f ihf =>
    intro hf s x i k
    rw [execFor.eq_2, execFor.eq_2]
    by_cases hik : i < k
    · simp only [hik, if_true]
      rcases hb (f + 1) hf (s.assign x (.int i)) with hs | hs
      · left; rw [hs]
      · rw [hs]
        cases execL ⟨ft, o⟩ (f + 1) (s.assign x (.int i)) body with
        | ok fl =>
          cases fl with
          | normal s' => exact ihf (Nat.le_of_succ_le hf) s' x (i + 1) k
          | continued s' => exact ihf (Nat.le_of_succ_le hf) s' x (i + 1) k
          | broke s' => right; rfl
          | returned v s' => right; rfl
        | _ => right; rfl
    · simp only [hik, if_false]; exact ho (f + 1) hf s

theorem isDbgName_eq (e : Expr) : isDbgName e = (match nameOf e with | some (x, _) => x == "__debug__" | none => false) := by
  cases e <;> rfl

/-- the value of an `if` test is refined -/
theorem condE_map (m : ExprMap) (h : ExprOK m) (s : St) (c : Expr) :
    condE o s c = none ∨ condE o s (m.e c) = condE o s c := by
  have hn : isDbgName (m.e c) = isDbgName c := by rw [isDbgName_eq (m.e c), isDbgName_eq c, nameOf_map m h c]
  unfold condE
  rw [hn, h.dbgCmp c]
  by_cases hdn : isDbgName c = true
  · right; simp only [hdn, if_true]
  · simp only [hdn, Bool.false_eq_true, if_false]
    cases hd : debugCmp c with
    | some p =>
      obtain ⟨op, e⟩ := p
      simp only [Option.map_some]
      cases he : evalE s e with
      | none => left; rfl
      | some r => right; rw [h.evalOK s e (by simp [he]), he]
    | none =>
      simp only [Option.map_none]
      cases hc : evalE s c with
      | none => left; rfl
      | some r => right; rw [h.evalOK s c (by simp [hc]), hc]

theorem afterBody_le (r0 r0' : Res Flow) (e e' : St → Res Flow) (hd hd' : String → St → Res Flow)
    (h0 : Res.le r0 r0') (he : ∀ s, Res.le (e s) (e' s)) (hh : ∀ x s, Res.le (hd x s) (hd' x s)) :
    Res.le (afterBody r0 e hd) (afterBody r0' e' hd') := by
  rcases h0 with h0 | h0
  · left; rw [h0]; rfl
  · rw [h0]
    cases r0 with
    | ok fl =>
      cases fl with
      | normal s1 => exact he s1
      | _ => right; rfl
    | raised x s1 => exact hh x s1
    | _ => right; rfl

theorem withFinally_le (r1 r1' : Res Flow) (f f' : St → Res Flow)
    (h1 : Res.le r1 r1') (hf : ∀ s, Res.le (f s) (f' s)) :
    Res.le (withFinally r1 f) (withFinally r1' f') := by
  rcases h1 with h1 | h1
  · left; rw [h1]; rfl
  · rw [h1]
    unfold withFinally
    cases stateOf? r1 with
    | none => right; rfl
    | some s1 =>
      rcases hf s1 with hs | hs
      · left; simp only [hs]
      · right; simp only [hs]

mutual
theorem exec1_le (m : ExprMap) (h : ExprOK m) (ft : FTab) (n : Nat) (ih : ∀ k, k < n → GoodM o m ft k) :
    (st : Stmt) → (s : St) → Res.le (exec1 ⟨ft, o⟩ n s st) (exec1 ⟨mapFT m ft, o⟩ n s (mapStmt m st))
  | .if_ c body orelse, s => by
    simp only [mapStmt]
    rw [exec1.eq_1, exec1.eq_1]
    show Res.le (match condE o s c with
        | some (.ok v) => if v.truthy then execL ⟨ft, o⟩ n s body else execL ⟨ft, o⟩ n s orelse
        | some (.error x) => .raised x s
        | none => .stuck)
      (match condE o s (m.e c) with
        | some (.ok v) => if v.truthy then execL ⟨mapFT m ft, o⟩ n s (mapBody m body) else execL ⟨mapFT m ft, o⟩ n s (mapBody m orelse)
        | some (.error x) => .raised x s
        | none => .stuck)
    rcases condE_map (o := o) m h s c with hc | hc
    · left; rw [hc]
    · rw [hc]
      cases condE o s c with
      | none => left; rfl
      | some r =>
        cases r with
        | error x => right; rfl
        | ok v =>
          by_cases hv : v.truthy = true
          · simp only [hv, if_true]; exact execL_le m h ft n ih body s
          · simp only [hv, Bool.false_eq_true, if_false]; exact execL_le m h ft n ih orelse s
  | .while_ c body orelse, s => by
    simp only [mapStmt]
    cases n with
    | zero =>
      rw [exec1.eq_2, exec1.eq_2]
      cases hc : evalE s c with
      | none => left; rfl
      | some r =>
        rw [h.evalOK s c (by simp [hc]), hc]
        cases r with
        | error x => right; rfl
        | ok v =>
          by_cases hv : v.truthy = true
          · simp only [hv, if_true]; right; trivial
          · simp only [hv, Bool.false_eq_true, if_false]; exact execL_le m h ft 0 ih orelse s
    | succ k =>
      rw [exec1.eq_3, exec1.eq_3]
      cases hc : evalE s c with
      | none => left; rfl
      | some r =>
        rw [h.evalOK s c (by simp [hc]), hc]
        cases r with
        | error x => right; rfl
        | ok v =>
          by_cases hv : v.truthy = true
          · simp only [hv, if_true]
            have hw : ∀ s', Res.le (exec1 ⟨ft, o⟩ k s' (.while_ c body orelse))
                (exec1 ⟨mapFT m ft, o⟩ k s' (.while_ (m.e c) (mapBody m body) (mapBody m orelse))) := by
              intro s'
              have := (ih k (Nat.lt_succ_self k)).1 s' (.while_ c body orelse)
              simpa only [mapStmt] using this
            rcases execL_le m h ft (k + 1) ih body s with hb | hb
            · left; rw [hb]
            · rw [hb]
              cases execL ⟨ft, o⟩ (k + 1) s body with
              | ok fl =>
                cases fl with
                | normal s' => exact hw s'
                | continued s' => exact hw s'
                | broke s' => right; rfl
                | returned v s' => right; rfl
              | _ => right; rfl
          · simp only [hv, Bool.false_eq_true, if_false]; exact execL_le m h ft (k + 1) ih orelse s
  | .functionDef .., s => flat_le m h ft n ih s _ rfl
  | .classDef .., s => flat_le m h ft n ih s _ rfl
  | .for_ true .., s => flat_le m h ft n ih s _ rfl
  | .for_ false tg it body orelse, s => by
    simp only [mapStmt]
    rw [exec1.eq_4, exec1.eq_4, forRange_map m h tg it]
    cases forRange tg it with
    | none => left; rfl
    | some p =>
      obtain ⟨x, e⟩ := p
      simp only [Option.map_some]
      have hb : ∀ f, f ≤ n → ∀ s, Res.le (execL ⟨ft, o⟩ f s body) (execL ⟨mapFT m ft, o⟩ f s (mapBody m body)) := by
        intro f hf s
        rcases Nat.lt_or_eq_of_le hf with hlt | heq
        · exact (ih f hlt).2 s body
        · subst heq; exact execL_le m h ft f ih body s
      have ho : ∀ f, f ≤ n → ∀ s, Res.le (execL ⟨ft, o⟩ f s orelse) (execL ⟨mapFT m ft, o⟩ f s (mapBody m orelse)) := by
        intro f hf s
        rcases Nat.lt_or_eq_of_le hf with hlt | heq
        · exact (ih f hlt).2 s orelse
        · subst heq; exact execL_le m h ft f ih orelse s
      unfold evalThen
      cases he : evalE s e with
      | none => left; rfl
      | some r =>
        rw [h.evalOK s e (by simp [he]), he]
        cases r with
        | error err => right; rfl
        | ok v =>
          simp only []
          cases v.asInt with
          | none => left; rfl
          | some k => exact execFor_le ft (mapFT m ft) body _ orelse _ n hb ho n (Nat.le_refl n) s x 0 k
  | .with_ .., s => flat_le m h ft n ih s _ rfl
  | .try_ true .., s => flat_le m h ft n ih s _ rfl
  | .try_ false body hs orelse fin, s => by
    simp only [mapStmt]
    rw [exec1.eq_5, exec1.eq_5]
    apply withFinally_le
    · apply afterBody_le
      · exact execL_le m h ft n ih body s
      · intro s1; exact execL_le m h ft n ih orelse s1
      · intro x s1; exact execH_le m h ft n ih hs s1 x
    · intro s1; exact execL_le m h ft n ih fin s1
  | .match_ .., s => flat_le m h ft n ih s _ rfl
  | .return_ _, s => flat_le m h ft n ih s _ rfl
  | .delete _, s => flat_le m h ft n ih s _ rfl
  | .assign .., s => flat_le m h ft n ih s _ rfl
  | .typeAlias .., s => flat_le m h ft n ih s _ rfl
  | .augAssign .., s => flat_le m h ft n ih s _ rfl
  | .annAssign .., s => flat_le m h ft n ih s _ rfl
  | .raise_ .., s => flat_le m h ft n ih s _ rfl
  | .assert_ .., s => flat_le m h ft n ih s _ rfl
  | .import_ .., s => flat_le m h ft n ih s _ rfl
  | .importFrom .., s => flat_le m h ft n ih s _ rfl
  | .global _, s => flat_le m h ft n ih s _ rfl
  | .nonlocal _, s => flat_le m h ft n ih s _ rfl
  | .expr _, s => flat_le m h ft n ih s _ rfl
  | .pass, s => flat_le m h ft n ih s _ rfl
  | .break_, s => flat_le m h ft n ih s _ rfl
  | .continue_, s => flat_le m h ft n ih s _ rfl
theorem execH_le (m : ExprMap) (h : ExprOK m) (ft : FTab) (n : Nat) (ih : ∀ k, k < n → GoodM o m ft k) :
    (hs : List Handler) → (s : St) → (x : String) →
      Res.le (execH ⟨ft, o⟩ n s x hs) (execH ⟨mapFT m ft, o⟩ n s x (mapHandlers m hs))
  | [], s, x => by simp only [mapHandlers]; rw [execH.eq_1, execH.eq_1]; exact Res.le_refl _
  | .mk ty nm hbody :: rest, s, x => by
    simp only [mapHandlers]
    rw [execH.eq_2, execH.eq_2, h.handlerTy ty]
    cases catches (excKind ty) nm x with
    | none => left; rfl
    | some b =>
      cases b with
      | true => exact execL_le m h ft n ih hbody s
      | false => exact execH_le m h ft n ih rest s x
theorem execL_le (m : ExprMap) (h : ExprOK m) (ft : FTab) (n : Nat) (ih : ∀ k, k < n → GoodM o m ft k) :
    (l : List Stmt) → (s : St) → Res.le (execL ⟨ft, o⟩ n s l) (execL ⟨mapFT m ft, o⟩ n s (mapBody m l))
  | [], s => by simp only [mapBody, execL_nil]; exact Res.le_refl _
  | st :: rest, s => by
    simp only [mapBody]
    exact execL_cons_le ft (mapFT m ft) n s st _ rest _ (exec1_le m h ft n ih st s) (fun s' => execL_le m h ft n ih rest s')
end

theorem goodM_all (m : ExprMap) (h : ExprOK m) (ft : FTab) (n : Nat) : GoodM o m ft n := by
  induction n using Nat.strongRecOn with
  | _ n ih => exact ⟨fun s st => exec1_le m h ft n ih st s, fun s l => execL_le m h ft n ih l s⟩

end PMV.PyCore

import PMV.Proofs.Layout
/-
  T02.4, continued: statements and blocks.
-/
namespace PMV.Spec.Layout
open PMV PMV.Token PMV.Printer

/-- the layout of one statement -/
def ClaimS (t : PrecTable) (st : StmtTable) (s0 : Stmt) : Prop :=
  ∀ (el : Bool), (el = true → isIfStmt s0 = true) →
    (∀ d, EndsT (emitS t st el d s0)) ∧
    ∀ s : L0, eff (if el then elifOf (stmtToks t st s0) else stmtToks t st s0) s =
      ⟨pendS s.indent (isCompoundSyn s0) :: ((emitS t st el s.indent s0).reverse ++ commit s.acc (isCompoundSyn s0) s.indent), s.indent⟩

/-- a block and each of its statements -/
def ClaimLS (t : PrecTable) (st : StmtTable) (body : List Stmt) : Prop :=
  ClaimL t st body ∧ ∀ s ∈ body, ClaimS t st s

theorem emitBody_cons (t : PrecTable) (st : StmtTable) (d : Nat) (a : Stmt) (rest : List Stmt) :
    emitBody t st d (a :: rest) = emitS t st false d a ++ (if rest.isEmpty then [] else sepNext d a rest :: emitBody t st d rest) := by
  rw [emitBody]

theorem bodyToks_cons (t : PrecTable) (st : StmtTable) (a : Stmt) (rest : List Stmt) :
    bodyToks t st (a :: rest) = stmtToks t st a ++ bodyToks t st rest := by
  rw [bodyToks]

theorem lastCmp_cons (a b : Stmt) (r : List Stmt) : lastCmp (a :: b :: r) = lastCmp (b :: r) := rfl

theorem claimL_nil (t : PrecTable) (st : StmtTable) : ClaimL t st [] :=
  ⟨fun h => absurd rfl h, fun _ h => absurd rfl h⟩

theorem commit_cons (p : LT) (rest : List LT) (cmp : Bool) (d : Nat) :
    commit (p :: rest) cmp d = if cmp then .nl d :: (p :: rest).dropWhile LT.isLay else p :: rest := by
  unfold commit; simp

/-- a block from its first statement and the rest -/
theorem claimL_cons (t : PrecTable) (st : StmtTable) (a : Stmt) (rest : List Stmt)
    (hS : ClaimS t st a) (hL : ClaimL t st rest) : ClaimL t st (a :: rest) := by
  obtain ⟨hEa, hSa⟩ := hS false (fun h => by cases h)
  have hE : ∀ d, EndsT (emitBody t st d (a :: rest)) := by
    intro d
    rw [emitBody_cons]
    cases rest with
    | nil => simpa using hEa d
    | cons b r => simp only [List.isEmpty_cons, Bool.false_eq_true, if_false]; exact EndsT.append_left _ (EndsT.cons _ (hL.1 (by simp) d))
  refine ⟨fun _ => hE, fun s _ => ?_⟩
  rw [bodyToks_cons, eff_append]
  have h1 := hSa s
  simp only [Bool.false_eq_true, if_false] at h1
  rw [h1]
  cases rest with
  | nil =>
    simp only [bodyToks, eff_nil, emitBody_cons, List.isEmpty_nil, if_true, List.append_nil, lastCmp, firstCmp]
  | cons b r =>
    rw [hL.2 _ (by simp)]
    simp only [emitBody_cons t st _ a (b :: r), List.isEmpty_cons, Bool.false_eq_true, if_false, lastCmp_cons, firstCmp, sepNext]
    congr 1
    simp only [List.reverse_append, List.reverse_cons, List.append_assoc, List.cons_append, List.nil_append]
    congr 1
    -- the separator: what the first statement left pending, or a line break when the next one is compound
    rw [commit_cons]
    by_cases hb : isCompoundSyn b = true
    · simp only [hb, if_true, List.dropWhile_cons, pendS_isLay, sep, Bool.or_true, Bool.true_or]
      rw [strip_pending (hEa s.indent)]
    · have hb' : isCompoundSyn b = false := by simpa using hb
      simp only [hb', Bool.false_eq_true, if_false, sep, Bool.or_false]
      congr 1
      unfold pendS
      by_cases ha : isCompoundSyn a = true
      · simp [ha]
      · have ha' : isCompoundSyn a = false := by simpa using ha
        by_cases hd : (s.indent == 0) = true
        · have : s.indent = 0 := by simpa using hd
          simp [ha', this]
        · simp [ha', hd]

theorem claimLS_nil (t : PrecTable) (st : StmtTable) : ClaimLS t st [] :=
  ⟨claimL_nil t st, fun _ h => by cases h⟩

theorem claimLS_cons (t : PrecTable) (st : StmtTable) (a : Stmt) (rest : List Stmt)
    (hS : ClaimS t st a) (hL : ClaimLS t st rest) : ClaimLS t st (a :: rest) :=
  ⟨claimL_cons t st a rest hS hL.1, fun s hs => by
    rcases List.mem_cons.mp hs with rfl | h
    · exact hS
    · exact hL.2 s h⟩

/-! ### clauses after the first -/

/-- a further clause (`else`, `except`, `finally`, `case`): it starts on the pending line break -/
theorem clause_step (t : PrecTable) (st : StmtTable) (body : List Stmt) (hB : ClaimSuite t st body)
    (X C : List LT) (d : Nat) (hdr : List Tok) (hn : NLay hdr) (hne : hdr ≠ []) (hX : EndsT X) :
    eff (hdr ++ suiteWrap (body.any (isCompound st)) (bodyToks t st body)) ⟨.nl d :: (X.reverse ++ C), d⟩ =
      ⟨.nl d :: ((X ++ .nl d :: (T hdr ++ suiteStart d body ++ emitBody t st (d + 1) body)).reverse ++ C), d⟩ ∧
    EndsT (X ++ .nl d :: (T hdr ++ suiteStart d body ++ emitBody t st (d + 1) body)) := by
  obtain ⟨h1, h2⟩ := hB (.nl d :: (X.reverse ++ C)) d hdr hn hne
  refine ⟨?_, EndsT.append_left _ (EndsT.cons _ h2)⟩
  rw [h1]
  simp

/-- the same with the printer's `newline` before the clause: the line break is already pending, nothing changes -/
theorem clause_step_nl (t : PrecTable) (st : StmtTable) (body : List Stmt) (hB : ClaimSuite t st body)
    (X C : List LT) (d : Nat) (hdr : List Tok) (hn : NLay hdr) (hne : hdr ≠ []) (hX : EndsT X) :
    eff (.newline :: (hdr ++ suiteWrap (body.any (isCompound st)) (bodyToks t st body))) ⟨.nl d :: (X.reverse ++ C), d⟩ =
      ⟨.nl d :: ((X ++ .nl d :: (T hdr ++ suiteStart d body ++ emitBody t st (d + 1) body)).reverse ++ C), d⟩ ∧
    EndsT (X ++ .nl d :: (T hdr ++ suiteStart d body ++ emitBody t st (d + 1) body)) := by
  rw [eff_cons]
  have : l0step ⟨.nl d :: (X.reverse ++ C), d⟩ .newline = ⟨.nl d :: (X.reverse ++ C), d⟩ := by
    show l0newline _ = _
    exact newline_after hX (.nl d) rfl C d
  rw [this]
  exact clause_step t st body hB X C d hdr hn hne hX

/-- the first clause of a compound statement, after the `newline` that starts the statement -/
theorem first_clause (t : PrecTable) (st : StmtTable) (body : List Stmt) (hB : ClaimSuite t st body)
    (s : L0) (hdr : List Tok) (hn : NLay hdr) (hne : hdr ≠ []) :
    eff (.newline :: (hdr ++ suiteWrap (body.any (isCompound st)) (bodyToks t st body))) s =
      ⟨.nl s.indent :: ((T hdr ++ suiteStart s.indent body ++ emitBody t st (s.indent + 1) body).reverse ++ commit s.acc true s.indent), s.indent⟩ ∧
    EndsT (T hdr ++ suiteStart s.indent body ++ emitBody t st (s.indent + 1) body) := by
  obtain ⟨acc, d⟩ := s
  rw [eff_cons]
  have : l0step ⟨acc, d⟩ .newline = ⟨commit acc true d, d⟩ := l0newline_eq acc d
  rw [this]
  exact hB (commit acc true d) d hdr hn hne

/-! ### simple statements -/

theorem stmtToks_simple (t : PrecTable) (st : StmtTable) (s : Stmt) (h : isCompoundSyn s = false) :
    stmtToks t st s = simpleToks t st s ++ [.endStmt] := by
  cases s <;> simp [isCompoundSyn] at h <;> simp [simpleToks, stmtToks, List.dropLast_cons_of_ne_nil]

theorem isIf_compound (s : Stmt) (h : isIfStmt s = true) : isCompoundSyn s = true := by
  cases s <;> simp [isIfStmt] at h <;> rfl

theorem claimS_simple (t : PrecTable) (st : StmtTable) (s0 : Stmt) (hc : isCompoundSyn s0 = false)
    (hn : nlay (simpleToks t st s0) = true) (hne : (simpleToks t st s0).isEmpty = false)
    (hemit : ∀ el d, emitS t st el d s0 = T (simpleToks t st s0)) : ClaimS t st s0 := by
  intro el hel
  have hel' : el = false := by
    cases el with
    | false => rfl
    | true => have := isIf_compound s0 (hel rfl); rw [hc] at this; cases this
  subst hel'
  have hne' : simpleToks t st s0 ≠ [] := by
    intro h; rw [h] at hne; cases hne
  have hE : EndsT (T (simpleToks t st s0)) := EndsT_T hne'
  refine ⟨fun d => by rw [hemit]; exact hE, fun s => ?_⟩
  simp only [Bool.false_eq_true, if_false]
  rw [stmtToks_simple t st s0 hc, eff_append, eff_nlay _ (NLay_of_nlay hn), hemit, hc]
  obtain ⟨acc, d⟩ := s
  simp only [eff_cons, eff_nil, l0step]
  by_cases hd : (d == 0) = true
  · have hd0 : d = 0 := by simpa using hd
    subst hd0
    simp only [beq_self_eq_true, if_true]
    rw [newline_on hE acc 0]
    unfold pendS commit
    cases acc <;> simp
  · simp only [hd, Bool.false_eq_true, if_false]
    obtain ⟨pre, tok, hpt⟩ := hE
    rw [hpt]
    simp only [List.reverse_append, List.reverse_cons, List.reverse_nil, List.nil_append, List.cons_append]
    unfold pendS commit
    cases acc <;> simp [hd]

end PMV.Spec.Layout

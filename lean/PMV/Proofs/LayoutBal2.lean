import PMV.Proofs.LayoutBal
/-
  Brackets are balanced in every clause header and simple statement, so every line break and `;` of the specified layout is
  outside all brackets.
-/
namespace PMV.Spec.Layout
open PMV PMV.Token PMV.Printer

theorem tVisit_bal (t : PrecTable) (e : Expr) : Bal (tVisit t e) := by
  unfold tVisit
  split
  · exact Bal.append (flat_bal _) (Bal.tok _ (fun _ h => by cases h))
  · exact Bal.append (flat_bal _) (Bal.tok _ (fun _ h => by cases h))
  · exact flat_bal _

theorem map_tExpr_bal (t : PrecTable) (es : List Expr) : BalAll (es.map (tExpr t)) := by
  induction es with
  | nil => exact BalAll.nil
  | cons e es ih => exact BalAll.cons (tExpr_bal t e) ih

theorem mappingItems_bal : (ks ps : List (List Tok)) → BalAll ks → BalAll ps → BalAll (mappingItems ks ps)
  | [], _, _, _ => by simp [mappingItems]; exact BalAll.nil
  | _ :: _, [], _, _ => by simp [mappingItems]; exact BalAll.nil
  | k :: ks, p :: ps, hk, hp => by
    simp only [mappingItems]
    exact BalAll.cons (Bal.append hk.head (Bal.colon hp.head)) (mappingItems_bal ks ps hk.tail hp.tail)

theorem kwdItems_bal : (as : List String) → (ps : List (List Tok)) → BalAll ps → BalAll (kwdItems as ps)
  | [], _, _ => by simp [kwdItems]; exact BalAll.nil
  | _ :: _, [], _ => by simp [kwdItems]; exact BalAll.nil
  | a :: as, p :: ps, hp => by
    simp only [kwdItems]
    exact BalAll.cons (Bal.ident _ (Bal.eq hp.head)) (kwdItems_bal as ps hp.tail)

theorem parenToksIf_bal (b : Bool) (ts : List Tok) (h : Bal ts) : Bal (parenToksIf b ts) := by
  cases b
  · simpa [parenToksIf] using h
  · simp only [parenToksIf, if_true]; exact Bal.paren h

mutual
theorem patToks_bal (t : PrecTable) : (p : Pattern) → Bal (patToks t p)
  | .matchValue v => by simp only [patToks]; exact tVisit_bal t v
  | .matchSingleton c => by simp only [patToks]; exact Bal.tok _ (fun _ e => by cases e)
  | .matchSequence ps => by simp only [patToks]; exact Bal.brack (commaSep_bal _ (patsToks_bal t ps))
  | .matchMapping ks ps rest => by
    simp only [patToks]
    apply Bal.brace
    apply commaSep_bal
    apply (mappingItems_bal _ _ (map_tExpr_bal t ks) (patsToks_bal t ps)).append
    cases rest with
    | none => exact BalAll.nil
    | some r => exact BalAll.cons (Bal.op _ (Bal.ident _ Bal.nil)) BalAll.nil
  | .matchClass cls ps kas kps => by
    simp only [patToks]
    have := Bal.append (tVisit_bal t cls) (Bal.paren (commaSep_bal _ ((patsToks_bal t ps).append (kwdItems_bal kas _ (patsToks_bal t kps)))))
    simpa [List.append_assoc] using this
  | .matchStar n => by simp only [patToks]; exact Bal.op _ (Bal.ident _ Bal.nil)
  | .matchAs none n => by simp only [patToks]; exact Bal.tok _ (fun _ e => by cases e)
  | .matchAs (some p) n => by
    simp only [patToks]; exact Bal.append (parenToksIf_bal _ _ (patToks_bal t p)) (Bal.kw _ (Bal.ident _ Bal.nil))
  | .matchOr ps => by simp only [patToks]; exact joinWith_bal _ (Bal.delim _ (by decide)) _ (orItems_bal t ps)
theorem patsToks_bal (t : PrecTable) : (ps : List Pattern) → BalAll (patsToks t ps)
  | [] => BalAll.nil
  | p :: ps => by simp only [patsToks]; exact BalAll.cons (patToks_bal t p) (patsToks_bal t ps)
theorem orItems_bal (t : PrecTable) : (ps : List Pattern) → BalAll (orItems t ps)
  | [] => BalAll.nil
  | p :: ps => by simp only [orItems]; exact BalAll.cons (parenToksIf_bal _ _ (patToks_bal t p)) (orItems_bal t ps)
end

theorem casePatToks_bal (t : PrecTable) (p : Pattern) : Bal (casePatToks t p) := by
  cases p with
  | matchSequence ps =>
    simp only [casePatToks]
    split
    · exact patToks_bal t _
    · exact commaSep_bal _ (patsToks_bal t ps)
  | _ => exact patToks_bal t _

theorem typeParamToks_balAll (t : PrecTable) (tps : List TypeParam) : BalAll (tps.map (typeParamToks t)) := by
  induction tps with
  | nil => exact BalAll.nil
  | cons tp rest ih =>
    refine BalAll.cons ?_ ih
    cases tp with
    | typeVar n b d =>
      cases b with
      | none =>
        cases d with
        | none => simp only [typeParamToks, List.append_nil]; exact Bal.tok _ (fun _ e => by cases e)
        | some dv => simp only [typeParamToks, List.append_nil, List.nil_append]; exact Bal.ident _ (Bal.eq (tExpr_bal t dv))
      | some bv =>
        cases d with
        | none => simp only [typeParamToks, List.append_nil]; exact Bal.ident _ (Bal.colon (tExpr_bal t bv))
        | some dv =>
          simp only [typeParamToks]
          have := Bal.ident n (Bal.append (Bal.colon (tExpr_bal t bv)) (Bal.eq (tExpr_bal t dv)))
          simpa [List.append_assoc] using this
    | paramSpec n d =>
      cases d with
      | none => simp only [typeParamToks]; exact Bal.op _ (Bal.op _ (Bal.ident _ Bal.nil))
      | some dv => simp only [typeParamToks]; exact Bal.op _ (Bal.op _ (Bal.ident _ (Bal.eq (tExpr_bal t dv))))
    | typeVarTuple n d =>
      cases d with
      | none => simp only [typeParamToks]; exact Bal.op _ (Bal.ident _ Bal.nil)
      | some dv => simp only [typeParamToks]; exact Bal.op _ (Bal.ident _ (Bal.eq (tExpr_bal t dv)))

theorem typeParamsToks_bal (t : PrecTable) (tps : List TypeParam) : Bal (typeParamsToks t tps) := by
  unfold typeParamsToks
  split
  · exact Bal.nil
  · exact Bal.brack (commaSep_bal _ (typeParamToks_balAll t tps))

theorem hdrDef_bal (t : PrecTable) (a : Bool) (n : String) (args : Arguments) (r : Option Expr) (tps : List TypeParam) :
    Bal (hdrDef t a n args r tps) := by
  have hargs := flatArguments_bal (parenArguments t args)
  have htp := typeParamsToks_bal t tps
  cases r with
  | none =>
    have core := Bal.kw "def" (Bal.ident n (Bal.append htp (Bal.paren_then hargs (Bal.colon Bal.nil))))
    cases a with
    | false => simpa [hdrDef, List.append_assoc] using core
    | true => simpa [hdrDef, List.append_assoc] using Bal.kw "async" core
  | some x =>
    have core := Bal.kw "def" (Bal.ident n (Bal.append htp (Bal.paren_then hargs (Bal.arrow (Bal.append (tExpr_bal t x) (Bal.colon Bal.nil))))))
    cases a with
    | false => simpa [hdrDef, List.append_assoc] using core
    | true => simpa [hdrDef, List.append_assoc] using Bal.kw "async" core

theorem tKeyword_bal (t : PrecTable) (k : Keyword) : Bal (tKeyword t k) := by
  cases k with
  | mk a v =>
    cases a with
    | none => simp only [tKeyword]; exact Bal.op _ (tExpr_bal t v)
    | some x => simp only [tKeyword]; exact Bal.ident _ (Bal.eq (tExpr_bal t v))

theorem hdrClass_bal (t : PrecTable) (n : String) (bases : List Expr) (kws : List Keyword) (tps : List TypeParam) :
    Bal (hdrClass t n bases kws tps) := by
  have h1 : BalAll (bases.map (tExpr t) ++ kws.map (tKeyword t)) := by
    apply (map_tExpr_bal t bases).append
    induction kws with
    | nil => exact BalAll.nil
    | cons k ks ih => exact BalAll.cons (tKeyword_bal t k) ih
  unfold hdrClass
  simp only
  split
  · have := Bal.kw "class" (Bal.ident n (Bal.append (typeParamsToks_bal t tps) (Bal.colon Bal.nil)))
    simpa [List.append_assoc] using this
  · have := Bal.kw "class" (Bal.ident n (Bal.append (typeParamsToks_bal t tps) (Bal.paren_then (commaSep_bal _ h1) (Bal.colon Bal.nil))))
    simpa [List.append_assoc] using this

theorem hdrFor_bal (t : PrecTable) (a : Bool) (tg it : Expr) : Bal (hdrFor t a tg it) := by
  have core := Bal.kw "for" (Bal.append (tExpr_bal t tg) (Bal.kw "in" (Bal.append (tExpr_bal t it) (Bal.colon Bal.nil))))
  unfold hdrFor
  cases a with
  | false => simpa [List.append_assoc] using core
  | true => simpa [List.append_assoc] using Bal.kw "async" core

theorem withItemToks_bal (t : PrecTable) (w : WithItem) : Bal (withItemToks t w) := by
  unfold withItemToks
  cases w.optionalVars with
  | none => simpa using tExpr_bal t w.contextExpr
  | some v => exact Bal.append (tExpr_bal t w.contextExpr) (Bal.kw _ (tExpr_bal t v))

theorem withItemsToks_bal (t : PrecTable) (items : List WithItem) : Bal (withItemsToks t items) := by
  have hall : BalAll (items.map (withItemToks t)) := by
    induction items with
    | nil => exact BalAll.nil
    | cons w ws ih => exact BalAll.cons (withItemToks_bal t w) ih
  unfold withItemsToks
  split
  · split
    · exact Bal.paren (withItemToks_bal t _)
    · exact withItemToks_bal t _
  · exact commaSep_bal _ hall

theorem hdrWith_bal (t : PrecTable) (a : Bool) (items : List WithItem) : Bal (hdrWith t a items) := by
  have core := Bal.kw "with" (Bal.append (withItemsToks_bal t items) (Bal.colon Bal.nil))
  unfold hdrWith
  cases a with
  | false => simpa [List.append_assoc] using core
  | true => simpa [List.append_assoc] using Bal.kw "async" core

theorem hdrExcept_bal (t : PrecTable) (star : Bool) (ty : Option Expr) (name : Option String) : Bal (hdrExcept t star ty name) := by
  have hty : Bal (tOptExpr t ty) := by
    cases ty with
    | none => exact Bal.nil
    | some x => exact tExpr_bal t x
  have hs : Bal (if star then [Tok.op "*"] else []) := by
    cases star with
    | false => exact Bal.nil
    | true => exact Bal.op _ Bal.nil
  cases name with
  | none =>
    have := Bal.kw "except" (Bal.append hs (Bal.append hty (Bal.colon Bal.nil)))
    simpa [hdrExcept, List.append_assoc] using this
  | some x =>
    have := Bal.kw "except" (Bal.append hs (Bal.append hty (Bal.kw "as" (Bal.ident x (Bal.colon Bal.nil)))))
    simpa [hdrExcept, List.append_assoc] using this

theorem hdrCase_bal (t : PrecTable) (pat : Pattern) (guard : Option Expr) : Bal (hdrCase t pat guard) := by
  cases guard with
  | none =>
    have := Bal.kw "case" (Bal.append (casePatToks_bal t pat) (Bal.colon Bal.nil))
    simpa [hdrCase, List.append_assoc] using this
  | some g =>
    have := Bal.kw "case" (Bal.append (casePatToks_bal t pat) (Bal.kw "if" (Bal.append (tExpr_bal t g) (Bal.colon Bal.nil))))
    simpa [hdrCase, List.append_assoc] using this

end PMV.Spec.Layout

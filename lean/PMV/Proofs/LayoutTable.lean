import PMV.Proofs.Layout5
import PMV.Generated.Stmt
namespace PMV.Spec.Layout
open PMV PMV.Token PMV.Printer

/-- G02.5: the compound-statement list regenerated from `_suite` agrees with the grammar -/
theorem stmtTable_ok : TableOK Generated.stmtTable := by
  refine ⟨fun s => ?_, by decide +kernel⟩
  cases s with
  | functionDef a _ _ _ _ _ _ => cases a <;> (simp only [isCompound, stmtClass, isCompoundSyn]; decide +kernel)
  | for_ a _ _ _ _ => cases a <;> (simp only [isCompound, stmtClass, isCompoundSyn]; decide +kernel)
  | with_ a _ _ => cases a <;> (simp only [isCompound, stmtClass, isCompoundSyn]; decide +kernel)
  | try_ a _ _ _ _ => cases a <;> (simp only [isCompound, stmtClass, isCompoundSyn]; decide +kernel)
  | _ => simp only [isCompound, stmtClass, isCompoundSyn]; decide +kernel

end PMV.Spec.Layout

import PMV.Spec.Lex
namespace PMV.Spec.Lex
open PMV.Token

theorem mem_allTokTypes (p : TokType) : p ∈ allTokTypes := by cases p <;> simp [allTokTypes]
theorem mem_nextAll (n : Next) : n ∈ Next.all := by cases n <;> simp [Next.all]

/-- T02.3 (parametric): if the spacing lists satisfy `SpacingOK`, then whenever the tokenizer would
    glue the next token to the previous one, `step` emits a space between them. -/
theorem step_separates (sp : Spacing) (h : SpacingOK sp = true) (st : St) (tok : Tok)
    (hl : isLayout tok = false) (hg : glues st.prev (nextOf tok) = true) :
    (step sp st tok).code = (text tok).toList.reverse ++ ' ' :: st.code := by
  have hsep : separates sp st.prev (nextOf tok) = true := by
    have := List.all_eq_true.mp (List.all_eq_true.mp h st.prev (mem_allTokTypes _)) (nextOf tok) (mem_nextAll _)
    simpa [hg] using this
  cases tok with
  | ident s => simp_all [step, nextOf, separates, push, spaceIf, text]
  | kw s => simp_all [step, nextOf, separates, push, spaceIf, text]
  | num s => simp_all [step, nextOf, separates, push, spaceIf, text]
  | fstr s => simp_all [step, nextOf, separates, push, spaceIf, text]
  | strLit r =>
    cases ha : startsAlpha r
    · cases hp : st.prev <;> simp_all [glues, nextOf]
    · simp_all [step, nextOf, separates, push, spaceIf, text]
  | bytesLit r =>
    cases ha : startsAlpha r
    · cases hp : st.prev <;> simp_all [glues, nextOf]
    · simp_all [step, nextOf, separates, push, spaceIf, text]
  | delim s => cases hp : st.prev <;> simp_all [glues, nextOf]
  | op s => cases hp : st.prev <;> simp_all [glues, nextOf]
  | newline => simp [isLayout] at hl
  | indentInc => simp [isLayout] at hl
  | indentDec => simp [isLayout] at hl
  | endStmt => simp [isLayout] at hl

/-- and never otherwise changes what was already emitted: non-layout tokens only append. -/
theorem step_appends (sp : Spacing) (st : St) (tok : Tok) (hl : isLayout tok = false) :
    (step sp st tok).code = (text tok).toList.reverse ++ st.code ∨
    (step sp st tok).code = (text tok).toList.reverse ++ ' ' :: st.code := by
  cases tok <;> simp_all [step, push, spaceIf, text, isLayout] <;> (try split) <;> simp_all

end PMV.Spec.Lex

import PMV.Model.HoistCollect
/-
  The collecting traversal of `HoistLiterals` meets its specification: it collects exactly the literal occurrences
  of the blanked module (patterns, string statements and class-level `__slots__` assignments erased), at any depth.
-/
namespace PMV.HoistCollect
open PMV

theorem allS_pass : allS .pass = [] := by simp [allS]

mutual
theorem colS_blank (cls : Bool) : (st : Stmt) → colS cls st = allS (blankS cls st)
  | .functionDef _ _ args body decs ret tps => by
    simp only [colS, blankS, allS, colL_blank false body]
  | .classDef _ bases kws body decs tps => by
    simp only [colS, blankS, allS, colL_blank true body]
  | .return_ v => by simp only [colS, blankS, allS]
  | .delete ts => by simp only [colS, blankS, allS]
  | .assign ts v => by
    simp only [colS, blankS]
    split <;> simp only [allS]
  | .typeAlias n tps v => by simp only [colS, blankS, allS]
  | .augAssign tg _ v => by
    simp only [colS, blankS]
    split <;> simp only [allS]
  | .annAssign tg ann v _ => by
    simp only [colS, blankS]
    split <;> simp only [allS]
  | .for_ _ tg it body orelse => by
    simp only [colS, blankS, allS, colL_blank cls body, colL_blank cls orelse]
  | .while_ c body orelse => by
    simp only [colS, blankS, allS, colL_blank cls body, colL_blank cls orelse]
  | .if_ c body orelse => by
    simp only [colS, blankS, allS, colL_blank cls body, colL_blank cls orelse]
  | .with_ _ items body => by
    simp only [colS, blankS, allS, colL_blank cls body]
  | .match_ s cases => by
    simp only [colS, blankS, allS, colC_blank cls cases]
  | .raise_ e c => by simp only [colS, blankS, allS]
  | .try_ _ body hs orelse fin => by
    simp only [colS, blankS, allS, colL_blank cls body, colH_blank cls hs, colL_blank cls orelse, colL_blank cls fin]
  | .assert_ c msg => by simp only [colS, blankS, allS]
  | .expr v => by
    simp only [colS, blankS]
    split <;> simp only [allS]
  | .import_ _ => by simp only [colS, blankS, allS]
  | .importFrom _ _ _ => by simp only [colS, blankS, allS]
  | .global _ => by simp only [colS, blankS, allS]
  | .nonlocal _ => by simp only [colS, blankS, allS]
  | .pass => by simp only [colS, blankS, allS]
  | .break_ => by simp only [colS, blankS, allS]
  | .continue_ => by simp only [colS, blankS, allS]
theorem colL_blank (cls : Bool) : (ss : List Stmt) → colL cls ss = allL (blankL cls ss)
  | [] => by simp only [colL, blankL, allL]
  | s :: ss => by simp only [colL, blankL, allL, colS_blank cls s, colL_blank cls ss]
theorem colH_blank (cls : Bool) : (hs : List Handler) → colH cls hs = allH (blankH cls hs)
  | [] => by simp only [colH, blankH, allH]
  | .mk ty _ body :: hs => by simp only [colH, blankH, allH, colL_blank cls body, colH_blank cls hs]
theorem colC_blank (cls : Bool) : (cs : List MatchCase) → colC cls cs = allC (blankC cls cs)
  | [] => by simp only [colC, blankC, allC]
  | .mk _ g body :: cs => by
    simp only [colC, blankC, allC, allP, allOP, colL_blank cls body, colC_blank cls cs, List.nil_append]
end

end PMV.HoistCollect

namespace PMV.HoistCollect
open PMV

/-- a list of constants all of which have a visitor -/
def AllH (l : List Const) : Prop := ∀ c ∈ l, hoistable c = true

theorem AllH.nil : AllH [] := by intro c h; cases h
theorem AllH.append {a b : List Const} (ha : AllH a) (hb : AllH b) : AllH (a ++ b) := by
  intro c h
  rcases List.mem_append.mp h with h | h
  · exact ha c h
  · exact hb c h

mutual
theorem colE_hoistable : (e : Expr) → AllH (colE e)
  | .boolOp _ vs => by simp only [colE]; exact colEs_hoistable vs
  | .namedExpr t v => by simp only [colE]; exact (colE_hoistable t).append (colE_hoistable v)
  | .binOp l _ r => by simp only [colE]; exact (colE_hoistable l).append (colE_hoistable r)
  | .unaryOp _ e => by simp only [colE]; exact colE_hoistable e
  | .lambda a b => by simp only [colE]; exact (colArguments_hoistable a).append (colE_hoistable b)
  | .ifExp c a b => by
    simp only [colE]; exact ((colE_hoistable c).append (colE_hoistable a)).append (colE_hoistable b)
  | .dict ks vs => by simp only [colE]; exact (colOEs_hoistable ks).append (colEs_hoistable vs)
  | .set es => by simp only [colE]; exact colEs_hoistable es
  | .listComp e gs => by simp only [colE]; exact (colE_hoistable e).append (colComps_hoistable gs)
  | .setComp e gs => by simp only [colE]; exact (colE_hoistable e).append (colComps_hoistable gs)
  | .dictComp k v gs => by
    simp only [colE]; exact ((colE_hoistable k).append (colE_hoistable v)).append (colComps_hoistable gs)
  | .generatorExp e gs => by simp only [colE]; exact (colE_hoistable e).append (colComps_hoistable gs)
  | .await e => by simp only [colE]; exact colE_hoistable e
  | .yield v => by simp only [colE]; exact colO_hoistable v
  | .yieldFrom e => by simp only [colE]; exact colE_hoistable e
  | .compare l _ cs => by simp only [colE]; exact (colE_hoistable l).append (colEs_hoistable cs)
  | .call f as kws => by
    simp only [colE]; exact ((colE_hoistable f).append (colEs_hoistable as)).append (colKws_hoistable kws)
  | .joinedStr _ parts => by simp only [colE]; exact colEs_hoistable parts
  | .constant c => by
    simp only [colE]
    split
    · intro d hd; simp only [List.mem_singleton] at hd; subst hd; assumption
    · exact AllH.nil
  | .attribute v _ => by simp only [colE]; exact colE_hoistable v
  | .subscript v s => by simp only [colE]; exact (colE_hoistable v).append (colE_hoistable s)
  | .starred v => by simp only [colE]; exact colE_hoistable v
  | .name _ _ => by simp only [colE]; exact AllH.nil
  | .list es => by simp only [colE]; exact colEs_hoistable es
  | .tuple es => by simp only [colE]; exact colEs_hoistable es
  | .slice l u s => by
    simp only [colE]; exact ((colO_hoistable l).append (colO_hoistable u)).append (colO_hoistable s)
  | .paren e => by simp only [colE]; exact colE_hoistable e
theorem colEs_hoistable : (es : List Expr) → AllH (colEs es)
  | [] => by simp only [colEs]; exact AllH.nil
  | e :: es => by simp only [colEs]; exact (colE_hoistable e).append (colEs_hoistable es)
theorem colO_hoistable : (o : Option Expr) → AllH (colO o)
  | none => by simp only [colO]; exact AllH.nil
  | some e => by simp only [colO]; exact colE_hoistable e
theorem colOEs_hoistable : (os : List (Option Expr)) → AllH (colOEs os)
  | [] => by simp only [colOEs]; exact AllH.nil
  | o :: os => by simp only [colOEs]; exact (colO_hoistable o).append (colOEs_hoistable os)
theorem colKws_hoistable : (ks : List Keyword) → AllH (colKws ks)
  | [] => by simp only [colKws]; exact AllH.nil
  | .mk _ v :: ks => by simp only [colKws]; exact (colE_hoistable v).append (colKws_hoistable ks)
theorem colComps_hoistable : (gs : List Comprehension) → AllH (colComps gs)
  | [] => by simp only [colComps]; exact AllH.nil
  | .mk t i ifs _ :: gs => by
    simp only [colComps]
    exact (((colE_hoistable t).append (colE_hoistable i)).append (colEs_hoistable ifs)).append (colComps_hoistable gs)
theorem colArg_hoistable : (a : Arg) → AllH (colArg a)
  | .mk _ ann => by simp only [colArg]; exact colO_hoistable ann
theorem colArgs_hoistable : (as : List Arg) → AllH (colArgs as)
  | [] => by simp only [colArgs]; exact AllH.nil
  | a :: as => by simp only [colArgs]; exact (colArg_hoistable a).append (colArgs_hoistable as)
theorem colOArg_hoistable : (a : Option Arg) → AllH (colOArg a)
  | none => by simp only [colOArg]; exact AllH.nil
  | some a => by simp only [colOArg]; exact colArg_hoistable a
theorem colArguments_hoistable : (a : Arguments) → AllH (colArguments a)
  | .mk po as va ko kd kw ds => by
    simp only [colArguments]
    exact ((((((colArgs_hoistable po).append (colArgs_hoistable as)).append (colOArg_hoistable va)).append
      (colArgs_hoistable ko)).append (colOEs_hoistable kd)).append (colOArg_hoistable kw)).append (colEs_hoistable ds)
end

theorem colTypeParams_hoistable : (ts : List TypeParam) → AllH (colTypeParams ts)
  | [] => by simp only [colTypeParams]; exact AllH.nil
  | t :: ts => by
    simp only [colTypeParams]
    refine AllH.append ?_ (colTypeParams_hoistable ts)
    cases t <;> simp only [colTypeParam]
    · exact (colO_hoistable _).append (colO_hoistable _)
    · exact colO_hoistable _
    · exact colO_hoistable _

theorem colWithItems_hoistable : (ws : List WithItem) → AllH (colWithItems ws)
  | [] => by simp only [colWithItems]; exact AllH.nil
  | w :: ws => by
    simp only [colWithItems]
    exact ((colE_hoistable _).append (colO_hoistable _)).append (colWithItems_hoistable ws)

mutual
theorem colS_hoistable (cls : Bool) : (st : Stmt) → AllH (colS cls st)
  | .functionDef _ _ args body decs ret tps => by
    simp only [colS]
    exact ((((colArguments_hoistable args).append (colL_hoistable false body)).append (colEs_hoistable decs)).append
      (colO_hoistable ret)).append (colTypeParams_hoistable tps)
  | .classDef _ bases kws body decs tps => by
    simp only [colS]
    exact ((((colEs_hoistable bases).append (colKws_hoistable kws)).append (colL_hoistable true body)).append
      (colEs_hoistable decs)).append (colTypeParams_hoistable tps)
  | .return_ v => by simp only [colS]; exact colO_hoistable v
  | .delete ts => by simp only [colS]; exact colEs_hoistable ts
  | .assign ts v => by
    simp only [colS]; split
    · exact AllH.nil
    · exact (colEs_hoistable ts).append (colE_hoistable v)
  | .typeAlias n tps v => by
    simp only [colS]; exact ((colE_hoistable n).append (colTypeParams_hoistable tps)).append (colE_hoistable v)
  | .augAssign tg _ v => by
    simp only [colS]; split
    · exact AllH.nil
    · exact (colE_hoistable tg).append (colE_hoistable v)
  | .annAssign tg ann v _ => by
    simp only [colS]; split
    · exact AllH.nil
    · exact ((colE_hoistable tg).append (colE_hoistable ann)).append (colO_hoistable v)
  | .for_ _ tg it body orelse => by
    simp only [colS]
    exact (((colE_hoistable tg).append (colE_hoistable it)).append (colL_hoistable cls body)).append (colL_hoistable cls orelse)
  | .while_ c body orelse => by
    simp only [colS]; exact ((colE_hoistable c).append (colL_hoistable cls body)).append (colL_hoistable cls orelse)
  | .if_ c body orelse => by
    simp only [colS]; exact ((colE_hoistable c).append (colL_hoistable cls body)).append (colL_hoistable cls orelse)
  | .with_ _ items body => by
    simp only [colS]; exact (colWithItems_hoistable items).append (colL_hoistable cls body)
  | .match_ s cases => by simp only [colS]; exact (colE_hoistable s).append (colC_hoistable cls cases)
  | .raise_ e c => by simp only [colS]; exact (colO_hoistable e).append (colO_hoistable c)
  | .try_ _ body hs orelse fin => by
    simp only [colS]
    exact (((colL_hoistable cls body).append (colH_hoistable cls hs)).append (colL_hoistable cls orelse)).append
      (colL_hoistable cls fin)
  | .assert_ c msg => by simp only [colS]; exact (colE_hoistable c).append (colO_hoistable msg)
  | .expr v => by
    simp only [colS]; split
    · exact AllH.nil
    · exact colE_hoistable v
  | .import_ _ => by simp only [colS]; exact AllH.nil
  | .importFrom _ _ _ => by simp only [colS]; exact AllH.nil
  | .global _ => by simp only [colS]; exact AllH.nil
  | .nonlocal _ => by simp only [colS]; exact AllH.nil
  | .pass => by simp only [colS]; exact AllH.nil
  | .break_ => by simp only [colS]; exact AllH.nil
  | .continue_ => by simp only [colS]; exact AllH.nil
theorem colL_hoistable (cls : Bool) : (ss : List Stmt) → AllH (colL cls ss)
  | [] => by simp only [colL]; exact AllH.nil
  | s :: ss => by simp only [colL]; exact (colS_hoistable cls s).append (colL_hoistable cls ss)
theorem colH_hoistable (cls : Bool) : (hs : List Handler) → AllH (colH cls hs)
  | [] => by simp only [colH]; exact AllH.nil
  | .mk ty _ body :: hs => by
    simp only [colH]; exact ((colO_hoistable ty).append (colL_hoistable cls body)).append (colH_hoistable cls hs)
theorem colC_hoistable (cls : Bool) : (cs : List MatchCase) → AllH (colC cls cs)
  | [] => by simp only [colC]; exact AllH.nil
  | .mk _ g body :: cs => by
    simp only [colC]; exact ((colO_hoistable g).append (colL_hoistable cls body)).append (colC_hoistable cls cs)
end

end PMV.HoistCollect

namespace PMV.HoistCollect
open PMV

def total (g : List (Const × Nat)) : Nat := (g.map (·.2)).sum

theorem sameValue_refl (c : Const) (h : hoistable c = true) : sameValue c c = true := by
  cases c <;> simp [hoistable] at h <;> simp [sameValue]

theorem sameValue_trans (a b c : Const) (h1 : sameValue a b = true) (h2 : sameValue b c = true) : sameValue a c = true := by
  cases a <;> cases b <;> simp [sameValue] at h1 <;> cases c <;> simp [sameValue] at h2 ⊢
  · exact h1.trans h2
  · exact h1.trans h2

theorem insertG_total (c : Const) : (g : List (Const × Nat)) → total (insertG c g) = total g + 1
  | [] => by simp [insertG, total]
  | (k, n) :: rest => by
    simp only [insertG]
    split
    · simp [total]; omega
    · have := insertG_total c rest
      simp [total] at this ⊢; omega

theorem insertG_keeps (c : Const) : (g : List (Const × Nat)) → ∀ e ∈ g, ∃ e' ∈ insertG c g, e'.1 = e.1
  | [], e, h => by cases h
  | (k, n) :: rest, e, h => by
    simp only [insertG]
    split
    · rcases List.mem_cons.mp h with h | h
      · exact ⟨(k, n + 1), List.mem_cons_self, by rw [h]⟩
      · exact ⟨e, List.mem_cons_of_mem _ h, rfl⟩
    · rcases List.mem_cons.mp h with h | h
      · exact ⟨(k, n), List.mem_cons_self, by rw [h]⟩
      · obtain ⟨e', he', hk⟩ := insertG_keeps c rest e h
        exact ⟨e', List.mem_cons_of_mem _ he', hk⟩

theorem insertG_covers (c : Const) (hc : hoistable c = true) : (g : List (Const × Nat)) → ∃ e ∈ insertG c g, sameValue e.1 c = true
  | [] => ⟨(c, 1), by simp [insertG], sameValue_refl c hc⟩
  | (k, n) :: rest => by
    simp only [insertG]
    split
    · rename_i h; exact ⟨(k, n + 1), List.mem_cons_self, h⟩
    · obtain ⟨e, he, hs⟩ := insertG_covers c hc rest
      exact ⟨e, List.mem_cons_of_mem _ he, hs⟩

/-- a key of the dictionary is a key that was there or the occurrence just added -/
theorem insertG_keys (c : Const) : (g : List (Const × Nat)) → ∀ e ∈ insertG c g, e.1 = c ∨ ∃ e' ∈ g, e'.1 = e.1
  | [], e, h => by simp [insertG] at h; exact Or.inl (by rw [h])
  | (k, n) :: rest, e, h => by
    simp only [insertG] at h
    split at h
    · rcases List.mem_cons.mp h with h | h
      · exact Or.inr ⟨(k, n), List.mem_cons_self, by rw [h]⟩
      · exact Or.inr ⟨e, List.mem_cons_of_mem _ h, rfl⟩
    · rcases List.mem_cons.mp h with h | h
      · exact Or.inr ⟨(k, n), List.mem_cons_self, by rw [h]⟩
      · rcases insertG_keys c rest e h with h | ⟨e', he', hk⟩
        · exact Or.inl h
        · exact Or.inr ⟨e', List.mem_cons_of_mem _ he', hk⟩

theorem groupsFrom_total : (l : List Const) → (g : List (Const × Nat)) → total (groupsFrom g l) = total g + l.length
  | [], g => by simp [groupsFrom]
  | c :: cs, g => by
    simp only [groupsFrom, List.length_cons]
    rw [groupsFrom_total cs, insertG_total]; omega

theorem groupsFrom_keeps : (l : List Const) → (g : List (Const × Nat)) → ∀ e ∈ g, ∃ e' ∈ groupsFrom g l, e'.1 = e.1
  | [], g, e, h => ⟨e, h, rfl⟩
  | c :: cs, g, e, h => by
    simp only [groupsFrom]
    obtain ⟨e1, h1, k1⟩ := insertG_keeps c g e h
    obtain ⟨e2, h2, k2⟩ := groupsFrom_keeps cs _ e1 h1
    exact ⟨e2, h2, k2.trans k1⟩

theorem groupsFrom_covers : (l : List Const) → (g : List (Const × Nat)) → (∀ c ∈ l, hoistable c = true) →
    ∀ c ∈ l, ∃ e ∈ groupsFrom g l, sameValue e.1 c = true
  | [], _, _, c, h => by cases h
  | d :: ds, g, hh, c, h => by
    simp only [groupsFrom]
    rcases List.mem_cons.mp h with h | h
    · subst h
      obtain ⟨e1, h1, s1⟩ := insertG_covers c (hh c List.mem_cons_self) g
      obtain ⟨e2, h2, k2⟩ := groupsFrom_keeps ds _ e1 h1
      exact ⟨e2, h2, by rw [k2]; exact s1⟩
    · exact groupsFrom_covers ds _ (fun x hx => hh x (List.mem_cons_of_mem _ hx)) c h

theorem groupsFrom_keys : (l : List Const) → (g : List (Const × Nat)) → ∀ e ∈ groupsFrom g l, e.1 ∈ l ∨ ∃ e' ∈ g, e'.1 = e.1
  | [], g, e, h => Or.inr ⟨e, h, rfl⟩
  | c :: cs, g, e, h => by
    simp only [groupsFrom] at h
    rcases groupsFrom_keys cs _ e h with h | ⟨e1, h1, k1⟩
    · exact Or.inl (List.mem_cons_of_mem _ h)
    · rcases insertG_keys c g e1 h1 with h2 | ⟨e2, h2, k2⟩
      · exact Or.inl (by rw [← k1, h2]; exact List.mem_cons_self)
      · exact Or.inr ⟨e2, h2, k2.trans k1⟩

end PMV.HoistCollect

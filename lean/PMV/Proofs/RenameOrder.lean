import PMV.Proofs.Rename
/-
  C11 helper lemmas: the assigner uses its sets (reservation scopes, assigned names, preserved
  names) only through membership, so the interpreter's set iteration order cannot influence the result.
-/
namespace PMV.Rename

/-- two states of `assigned_names` that hold the same names in every namespace -/
def AssignedEquiv (a a' : Assigned) : Prop := ∀ ns x, x ∈ a ns ↔ x ∈ a' ns

theorem contains_congr {l l' : List String} (h : ∀ x, x ∈ l ↔ x ∈ l') (n : String) : l.contains n = l'.contains n := by
  rw [Bool.eq_iff_iff]; simp [h n]

theorem avail_congr {a a' : Assigned} (h : AssignedEquiv a a') (n : String) (sc : List Ns) : avail a n sc = avail a' n sc := by
  unfold avail
  congr 1
  funext ns
  rw [contains_congr (h ns) n]

/-- the order (and multiplicity) in which a scope is listed is irrelevant for availability … -/
theorem avail_scope_congr (a : Assigned) (n : String) {sc sc' : List Ns} (h : ∀ ns, ns ∈ sc ↔ ns ∈ sc') :
    avail a n sc = avail a n sc' := by
  unfold avail
  rw [Bool.eq_iff_iff]
  simp only [List.all_eq_true]
  constructor
  · intro hall ns hns; exact hall ns ((h ns).mpr hns)
  · intro hall ns hns; exact hall ns ((h ns).mp hns)

/-- … and for reservation -/
theorem reserve_scope_congr (n : String) {sc sc' : List Ns} (h : ∀ ns, ns ∈ sc ↔ ns ∈ sc') (a : Assigned) :
    reserve n sc a = reserve n sc' a := by
  funext ns
  unfold reserve
  have : sc.contains ns = sc'.contains ns := by rw [Bool.eq_iff_iff]; simp [h ns]
  rw [this]

theorem reserve_equiv {a a' : Assigned} (h : AssignedEquiv a a') (n : String) (sc : List Ns) :
    AssignedEquiv (reserve n sc a) (reserve n sc a') := by
  intro ns x
  unfold reserve
  split <;> simp [h ns x]

theorem availableName_congr {a a' : Assigned} (h : AssignedEquiv a a') (names : List String) (pfx : String) (sc : List Ns) :
    availableName names pfx a sc = availableName names pfx a' sc := by
  unfold availableName
  congr 1
  funext n
  rw [avail_congr h]

theorem mustRename_congr {a a' : Assigned} (h : AssignedEquiv a a') (b : Binding) : mustRename a b = mustRename a' b := by
  unfold mustRename
  cases b.kind <;> cases b.name <;> simp [avail_congr h]

/-- one step of the loop sees `assigned_names` only as sets -/
theorem decide1_congr {a a' : Assigned} (h : AssignedEquiv a a') (names : List String) (pg : Bool) (b : Binding) :
    decide1 names pg a b = decide1 names pg a' b := by
  unfold decide1
  rw [availableName_congr h, mustRename_congr h]

theorem after_equiv {a a' : Assigned} (h : AssignedEquiv a a') (r : Result) : AssignedEquiv (after a r) (after a' r) := by
  unfold after
  cases r.final with
  | none => exact h
  | some n => exact reserve_equiv h n _

/-- T11.1: the whole loop gives the same results from set-equal starting states. -/
theorem loop_congr (names : List String) (pg : Bool) : ∀ (bs : List Binding) (a a' : Assigned), AssignedEquiv a a' →
    loop names pg a bs = loop names pg a' bs := by
  intro bs
  induction bs with
  | nil => intro a a' _; rfl
  | cons b bs ih =>
    intro a a' h
    simp only [loop]
    rw [decide1_congr h]
    congr 1
    exact ih _ _ (after_equiv h _)

theorem foldl_globals_equiv (moduleNs : Ns) : ∀ (l : List String) (a a' : Assigned), AssignedEquiv a a' →
    AssignedEquiv (l.foldl (fun a n => reserve n [moduleNs] a) a) (l.foldl (fun a n => reserve n [moduleNs] a) a') := by
  intro l
  induction l with
  | nil => intro a a' h; exact h
  | cons x xs ih => intro a a' h; exact ih _ _ (reserve_equiv h x _)

theorem foldl_globals_mem (moduleNs : Ns) : ∀ (l : List String) (a : Assigned) (ns : Ns) (x : String),
    x ∈ (l.foldl (fun a n => reserve n [moduleNs] a) a) ns ↔ (x ∈ a ns ∨ (ns = moduleNs ∧ x ∈ l)) := by
  intro l
  induction l with
  | nil => intro a ns x; simp
  | cons y ys ih =>
    intro a ns x
    simp only [List.foldl_cons]
    rw [ih]
    unfold reserve
    by_cases hns : ns = moduleNs
    · subst hns
      simp only [List.contains_cons, beq_self_eq_true, Bool.true_or, if_true, List.mem_cons, true_and]
      constructor
      · rintro ((h | h) | h)
        · exact Or.inr (Or.inl h)
        · exact Or.inl h
        · exact Or.inr (Or.inr h)
      · rintro (h | h | h)
        · exact Or.inl (Or.inr h)
        · exact Or.inl (Or.inl h)
        · exact Or.inr h
    · have hc : [moduleNs].contains ns = false := by simp [hns]
      simp only [hc, Bool.false_eq_true, if_false, hns, false_and]

/-- the order in which the preserved globals (a set in the implementation) are listed is irrelevant -/
theorem initial_perm_equiv (bindings : List Binding) (moduleNs : Ns) (rg rg' : List String) (h : ∀ x, x ∈ rg ↔ x ∈ rg') :
    AssignedEquiv (initial bindings moduleNs rg) (initial bindings moduleNs rg') := by
  intro ns x
  unfold initial
  simp only [foldl_globals_mem, h x]

/-- T11.1 (whole assigner): permuting / duplicating the preserved-globals collection changes nothing. -/
theorem assign_preserved_order_irrelevant (names : List String) (pg : Bool) (moduleNs : Ns) (rg rg' : List String)
    (h : ∀ x, x ∈ rg ↔ x ∈ rg') (bindings : List Binding) :
    assign names pg moduleNs rg bindings = assign names pg moduleNs rg' bindings := by
  unfold assign
  exact loop_congr names pg _ _ _ (initial_perm_equiv bindings moduleNs rg rg' h)

end PMV.Rename

import PMV.Proofs.Rename
/-
  C03, T03.4: from "no new clash inside reservation scopes" to "every name still resolves to its binding".
  Name lookup is modelled as Python defines it: the first scope on the use's lookup path that binds the
  name.  The theorem is about any assignment of final names (`rs`): if the reservation scope of the
  binding a use resolves to covers the part of the lookup path below the binding's home, final names
  never clash inside intersecting reservation scopes when one of them is new, and kept bindings keep
  their spelling, then after renaming the use resolves to the same home scope — nothing on the way
  captures it and the binding itself still answers.
-/
namespace PMV.Rename

/-- does scope `a` bind `x` before renaming (`orig`) / after renaming (`fin`) -/
def bindsOrig (rs : List Result) (a : Ns) (x : String) : Bool :=
  rs.any fun r => r.b.home == a && r.b.name == some x

def bindsFinal (rs : List Result) (a : Ns) (x : String) : Bool :=
  rs.any fun r => r.b.home == a && r.final == some x

/-- Python name lookup: the first scope on the lookup path that binds the name -/
def resolveOrig (rs : List Result) (path : List Ns) (x : String) : Option Ns := path.find? fun a => bindsOrig rs a x
def resolveFinal (rs : List Result) (path : List Ns) (x : String) : Option Ns := path.find? fun a => bindsFinal rs a x

theorem find?_eq_of_prefix {α : Type} (p q : α → Bool) (a : α) :
    ∀ (l : List α), l.find? p = some a → q a = true → (∀ x ∈ l.takeWhile (fun y => !p y), q x = false) → l.find? q = some a
  | [], h, _, _ => by simp at h
  | y :: ys, h, hq, hpre => by
    by_cases hy : p y = true
    · simp only [List.find?, hy] at h
      simp only [Option.some.injEq] at h
      subst h
      simp [List.find?, hq]
    · have hy' : p y = false := by simpa using hy
      simp only [List.find?, hy'] at h
      have hqy : q y = false := hpre y (by simp [List.takeWhile, hy'])
      simp only [List.find?, hqy]
      apply find?_eq_of_prefix p q a ys h hq
      intro x hx
      exact hpre x (by simp [List.takeWhile, hy', hx])

theorem mem_takeWhile_pred {α : Type} (p : α → Bool) : ∀ (l : List α) (x : α), x ∈ l.takeWhile p → p x = true
  | [], _, h => by simp at h
  | y :: ys, x, h => by
    by_cases hy : p y = true
    · simp only [List.takeWhile, hy, List.mem_cons] at h
      rcases h with h | h
      · rw [h]; exact hy
      · exact mem_takeWhile_pred p ys x h
    · have hy' : p y = false := by simpa using hy
      simp [List.takeWhile, hy'] at h

/-- T03.4 -/
theorem renaming_preserves_resolution (rs : List Result) (path : List Ns) (r : Result) (x : String)
    (hr : r ∈ rs) (hname : r.b.name = some x) (y : String) (hfin : r.final = some y)
    (horig : resolveOrig rs path x = some r.b.home)
    -- the reservation scope covers the lookup path below the home scope
    (cover : ∀ a ∈ path.takeWhile (fun a => !bindsOrig rs a x), a ∈ r.b.scope)
    -- the assigner's guarantee (C03.no_new_clash), for bindings homed on that part of the path
    (clash : ∀ r' ∈ rs, r'.b.home ≠ r.b.home → (r.renamed = true ∨ r'.renamed = true) → (∃ ns, ns ∈ r.b.scope ∧ ns ∈ r'.b.scope) → r'.final ≠ r.final)
    -- a binding that was not renamed keeps its spelling
    (kept : ∀ r' ∈ rs, r'.renamed = false → r'.final = r'.b.name)
    (homeIn : ∀ r' ∈ rs, r'.b.home ∈ r'.b.scope) :
    resolveFinal rs path y = some r.b.home := by
  unfold resolveFinal
  unfold resolveOrig at horig
  apply find?_eq_of_prefix (fun a => bindsOrig rs a x) (fun a => bindsFinal rs a y) r.b.home path horig
  · -- the home scope still binds the final name
    unfold bindsFinal
    rw [List.any_eq_true]
    exact ⟨r, hr, by simp [hfin]⟩
  · -- nothing below the home captures it
    intro a ha
    have hacov := cover a ha
    have hnob : bindsOrig rs a x = false := by
      have := mem_takeWhile_pred _ path a ha
      simpa using this
    unfold bindsFinal
    rw [Bool.eq_false_iff]
    intro hany
    rw [List.any_eq_true] at hany
    obtain ⟨r', hr', hcond⟩ := hany
    simp only [Bool.and_eq_true, beq_iff_eq] at hcond
    obtain ⟨hhome, hfin'⟩ := hcond
    have hinter : ∃ ns, ns ∈ r.b.scope ∧ ns ∈ r'.b.scope := ⟨a, hacov, by rw [← hhome]; exact homeIn r' hr'⟩
    -- `a` does not bind `x`, the home of `r` does: another scope, so another binding
    have hother : r'.b.home ≠ r.b.home := by
      intro he
      have hb : bindsOrig rs a x = true := by
        unfold bindsOrig
        rw [List.any_eq_true]
        exact ⟨r, hr, by simp [← he, hhome, hname]⟩
      rw [hb] at hnob
      exact Bool.noConfusion hnob
    by_cases hren : r.renamed = true ∨ r'.renamed = true
    · exact clash r' hr' hother hren hinter (by rw [hfin', hfin])
    · have h1 : r.renamed = false := by cases h : r.renamed <;> simp_all
      have h2 : r'.renamed = false := by cases h : r'.renamed <;> simp_all
      have e1 := kept r hr h1
      have e2 := kept r' hr' h2
      -- both kept: r' would have bound x at `a` already, contradicting that `a` does not bind x
      have : r'.b.name = some x := by rw [← e2, hfin', ← hfin, e1, hname]
      have hb : bindsOrig rs a x = true := by
        unfold bindsOrig
        rw [List.any_eq_true]
        exact ⟨r', hr', by simp [hhome, this]⟩
      rw [hb] at hnob
      exact Bool.noConfusion hnob

end PMV.Rename

import PMV.Proofs.RemovePass
/-
  remove_asserts and remove_debug after fix F41: the suite is `filterSuite q` applied to `dropGuard q b` (a leading statement that
  is about to be removed is replaced by the placeholder `0` when a string statement would move to the front and become a
  docstring).  The replaced statement and `0` both do nothing under the semantics in which the option is documented to be safe
  (`python -O`), define nothing and declare nothing, and the canonical forms erase both: the theorems about the plain filter
  carry over.
-/
namespace PMV.Transforms
open PMV PMV.PyCore PMV.Spec.Rewrites

/-- `dropGuard` only ever replaces a leading statement that `q` removes by `0` -/
theorem dropGuard_cases (q : Stmt → Bool) (b : List Stmt) :
    dropGuard q b = b ∨ ∃ s0 rest, b = s0 :: rest ∧ q s0 = true ∧ dropGuard q b = zeroStmt :: rest := by
  unfold dropGuard
  split
  · rename_i s0 rest
    split
    · rename_i hq
      split
      · split
        · exact Or.inr ⟨s0, rest, rfl, hq, rfl⟩
        · exact Or.inl rfl
      · exact Or.inl rfl
    · exact Or.inl rfl
  · exact Or.inl rfl

@[simp] theorem guardT_suiteF (q : Stmt → Bool) (m : Bool) (b : List Stmt) : (guardT q).suiteF m b = filterSuite q m (dropGuard q b) := rfl
@[simp] theorem guardT_stmtF (q : Stmt → Bool) (s : Stmt) : (guardT q).stmtF s = s := rfl
@[simp] theorem guardT_funcBodyF (q : Stmt → Bool) (b : List Stmt) : (guardT q).funcBodyF b = b := rfl

end PMV.Transforms

namespace PMV.PyCore
open PMV PMV.Transforms PMV.Minify

theorem execL_dropGuard (q : Stmt → Bool) (hq : NoOpPred o q) (ft : FTab) (fuel : Nat) (s : St) (b : List Stmt) :
    execL ⟨ft, o⟩ fuel s (dropGuard q b) = execL ⟨ft, o⟩ fuel s b := by
  rcases dropGuard_cases q b with h | ⟨s0, rest, hb, hq0, h⟩
  · rw [h]
  · rw [h, hb, execL_cons, execL_cons, exec_zero, hq.exec ft fuel s s0 hq0]

theorem collect_dropGuard (q : Stmt → Bool) (hq : NoOpPred o q) (b : List Stmt) : collect (dropGuard q b) = collect b := by
  rcases dropGuard_cases q b with h | ⟨s0, rest, hb, hq0, h⟩
  · rw [h]
  · rw [h, hb]
    have hz : defOf zeroStmt = none := rfl
    simp only [collect, hz, hq.notDef s0 hq0]

theorem globals_dropGuard (q : Stmt → Bool) (hq : NoOpPred o q) (b : List Stmt) : declaredGlobals (dropGuard q b) = declaredGlobals b := by
  rcases dropGuard_cases q b with h | ⟨s0, rest, hb, hq0, h⟩
  · rw [h]
  · rw [h, hb]
    have hz : globalsOf zeroStmt = [] := rfl
    simp only [declaredGlobals, hz, hq.notGlobal s0 hq0]

theorem guardT_sound (q : Stmt → Bool) (hq : NoOpPred o q) : Sound o (guardT q) where
  suite := fun ft fuel s m b => by
    rw [guardT_suiteF, execL_filterSuite q hq, execL_dropGuard q hq]
  stmt := fun _ _ _ _ => rfl
  body := fun _ _ _ _ => rfl
  globals := by
    intro b
    unfold bodyT
    simp only [guardT_funcBodyF, guardT_suiteF]
    rcases filterSuite_cases q false (dropGuard q (travBody (guardT q) b)) with h | ⟨he, _, hz⟩
    · rw [h, globals_filter q hq, globals_dropGuard q hq, globals_trav (guardT q) (fun _ => rfl)]
    · rw [hz, ← globals_trav (guardT q) (fun _ => rfl) b, ← globals_dropGuard q hq (travBody (guardT q) b),
        ← globals_filter q hq (dropGuard q (travBody (guardT q) b)), he]
      rfl

theorem guardT_table (q : Stmt → Bool) (hq : NoOpPred o q) : TableSound (guardT q) where
  stmtDef := fun _ => rfl
  suiteDef := by
    intro b
    simp only [guardT_suiteF]
    rcases filterSuite_cases q true (dropGuard q b) with h | ⟨_, hm, _⟩
    · rw [h, collect_filter q hq, collect_dropGuard q hq]
    · cases hm

end PMV.PyCore

namespace PMV.Transforms
open PMV PMV.Spec.Rewrites

/-- the canonical form of the filtering options does not see the guard: the removed statement and the placeholder are both erased -/
theorem canon_dropGuard (c : COpts) (hc : FilterOnly c) (q : Stmt → Bool)
    (hq : ∀ (cls : Option (List Expr × List Expr)) (s : Stmt), q s = true → dropStmt c (cStmt c cls s) = true)
    (hz : dropStmt c zeroStmt = true)
    (cls : Option (List Expr × List Expr)) (fb : Bool) (ys : List Stmt) :
    cSuite c fb (cBody c cls (dropGuard q ys)) = cSuite c fb (cBody c cls ys) := by
  rcases dropGuard_cases q ys with h | ⟨s0, rest, hb, hq0, h⟩
  · rw [h]
  · rw [h, hb, cSuite_filterOnly c hc, cSuite_filterOnly c hc]
    have h1 : dropStmt c (cStmt c cls zeroStmt) = true := by rw [cStmt_zero]; exact hz
    simp [cBody, List.filter_cons, h1, hq cls s0 hq0]

theorem asserts_suite (cls : Option (List Expr × List Expr)) (fb m : Bool) (ys : List Stmt) :
    cSuite { asserts := true } fb (cBody { asserts := true } cls (filterSuite isAssert m (dropGuard isAssert ys))) =
      cSuite { asserts := true } fb (cBody { asserts := true } cls ys) := by
  have hc : FilterOnly ({ asserts := true } : COpts) := ⟨rfl, rfl, rfl⟩
  have hz : dropStmt ({ asserts := true } : COpts) zeroStmt = true := by simp [dropStmt, COpts.placeholders, isZero, zeroStmt]
  rw [cSuite_filterSuite _ hc cls isAssert (fun s hs => by simp [dropStmt, hs]) hz (fun s => (kind_cStmt _ cls s).2.1) (cStmt_zero _ cls),
    canon_dropGuard _ hc isAssert (fun cls s hs => by simp [dropStmt, (kind_cStmt _ cls s).2.1, hs]) hz]

/-- remove_asserts: output = input modulo dropping `assert` statements and `0` placeholders -/
theorem removeAsserts_canon (m : Module) :
    canonModule { asserts := true } (travModule removeAsserts m) = canonModule { asserts := true } m := by
  have : removeAsserts = suiteT (fun m b => filterSuite isAssert m (dropGuard isAssert b)) := rfl
  rw [this]
  exact canon_suiteT _ _ (fun cls fb m ys => asserts_suite cls fb m ys) rfl rfl m

theorem debug_dropGuard (cls : Option (List Expr × List Expr)) (fb : Bool) (ys : List Stmt) :
    cSuite DbgOnly fb (cBody DbgOnly cls (dropGuard canRemoveDebug ys)) = cSuite DbgOnly fb (cBody DbgOnly cls ys) := by
  rcases dropGuard_cases canRemoveDebug ys with h | ⟨s0, rest, hb, hq0, h⟩
  · rw [h]
  · rw [h, hb, cSuite_dbgOnly, cSuite_dbgOnly]
    have hz : debugSplice DbgOnly zeroStmt = [zeroStmt] := rfl
    have hiz : isZero zeroStmt = true := rfl
    simp only [cBody, List.flatMap_cons, splice_removed cls s0 hq0, cStmt_zero, hz, List.nil_append, List.cons_append, List.filter_cons, hiz]
    simp

theorem debug_guard_suite (cls : Option (List Expr × List Expr)) (fb m : Bool) (ys : List Stmt) :
    cSuite DbgOnly fb (cBody DbgOnly cls (filterSuite canRemoveDebug m (dropGuard canRemoveDebug ys))) = cSuite DbgOnly fb (cBody DbgOnly cls ys) := by
  rw [debug_suite, debug_dropGuard]

/-- remove_debug: output = input modulo replacing `if __debug__:` blocks by what `-O` runs (and `0` placeholders) -/
theorem removeDebug_canon (m : Module) :
    canonModule DbgOnly (travModule removeDebug m) = canonModule DbgOnly m := by
  have : removeDebug = suiteT (fun m b => filterSuite canRemoveDebug m (dropGuard canRemoveDebug b)) := rfl
  rw [this]
  exact canon_suiteT _ _ (fun cls fb m ys => debug_guard_suite cls fb m ys) rfl rfl m

/-! ### no block gains a docstring -/

theorem filter_head_kept (q : Stmt → Bool) (s : Stmt) (rest : List Stmt) (h : q s = false) (m : Bool) :
    filterSuite q m (s :: rest) = s :: rest.filter (fun x => !q x) := by
  simp [filterSuite, List.filter_cons, h]

theorem filter_head_dropped (q : Stmt → Bool) (s : Stmt) (rest : List Stmt) (h : q s = true) (m : Bool) :
    filterSuite q m (s :: rest) = filterSuite q m rest := by
  simp [filterSuite, List.filter_cons, h]

theorem dropGuard_not (q : Stmt → Bool) (s0 : Stmt) (rest : List Stmt) (h : q s0 = false) : dropGuard q (s0 :: rest) = s0 :: rest := by
  simp [dropGuard, h]

theorem dropGuard_nil (q : Stmt → Bool) (s0 : Stmt) (rest : List Stmt) (hf : rest.filter (fun s => !q s) = []) :
    dropGuard q (s0 :: rest) = s0 :: rest := by
  unfold dropGuard
  simp only [hf]
  split <;> rfl

theorem dropGuard_cons (q : Stmt → Bool) (s0 s : Stmt) (rest tl : List Stmt) (h : q s0 = true) (hf : rest.filter (fun s => !q s) = s :: tl) :
    dropGuard q (s0 :: rest) = if isStrStmt s then zeroStmt :: rest else s0 :: rest := by
  unfold dropGuard
  simp only [hf, h, if_true]

/-- the guarded filter never makes a string statement the first statement of a block -/
theorem guarded_no_new_docstring (q : Stmt → Bool) (hz : q zeroStmt = false) (m : Bool) (b : List Stmt)
    (h : startsWithString b = false) : startsWithString (filterSuite q m (dropGuard q b)) = false := by
  cases b with
  | nil => cases m <;> simp [dropGuard, filterSuite, startsWithString, isStrStmt, zeroStmt]
  | cons s0 rest =>
    have hs0 : isStrStmt s0 = false := h
    cases hq : q s0 with
    | false =>
      rw [dropGuard_not q s0 rest hq, filter_head_kept q s0 rest hq]
      exact hs0
    | true =>
      cases hf : rest.filter (fun s => !q s) with
      | nil =>
        rw [dropGuard_nil q s0 rest hf, filter_head_dropped q s0 rest hq]
        unfold filterSuite
        rw [hf]
        cases m <;> simp [startsWithString, isStrStmt, zeroStmt]
      | cons s tl =>
        rw [dropGuard_cons q s0 s rest tl hq hf]
        cases hstr : isStrStmt s with
        | true =>
          simp only [if_true]
          rw [filter_head_kept q zeroStmt rest hz]
          rfl
        | false =>
          simp only [Bool.false_eq_true, if_false]
          rw [filter_head_dropped q s0 rest hq]
          unfold filterSuite
          rw [hf]
          simpa [startsWithString] using hstr

theorem passGuard_eq (b : List Stmt) : passGuard b = dropGuard isPass b := by
  cases b with
  | nil => rfl
  | cons s0 rest =>
    cases s0 <;> simp [passGuard, dropGuard, isPass]

theorem isStrStmt_trav (t : SuiteT) (hs : ∀ s, t.stmtF s = s) (s : Stmt) : isStrStmt (travStmt t s) = isStrStmt s := by
  cases s
  case try_ st _ _ _ _ => cases st <;> simp [travStmt, isStrStmt, hs]
  all_goals simp [travStmt, isStrStmt, hs]

theorem startsWithString_trav (t : SuiteT) (hs : ∀ s, t.stmtF s = s) (b : List Stmt) :
    startsWithString (travBody t b) = startsWithString b := by
  cases b with
  | nil => simp [travBody, startsWithString]
  | cons s rest => simp [travBody, startsWithString, isStrStmt_trav t hs s]

/-- T05.6: whatever is nested in it, a block that does not start with a string statement does not start with one after
    remove_pass, remove_asserts or remove_debug: none of them gives a module, class or function a docstring (F39, F41) -/
theorem no_docstring_gained (m : Bool) (b : List Stmt) (h : startsWithString b = false) :
    startsWithString (removePass.suiteF m (travBody removePass b)) = false
    ∧ startsWithString (removeAsserts.suiteF m (travBody removeAsserts b)) = false
    ∧ startsWithString (removeDebug.suiteF m (travBody removeDebug b)) = false := by
  refine ⟨?_, ?_, ?_⟩
  · rw [removePass_suiteF, passGuard_eq]
    exact guarded_no_new_docstring isPass rfl m _ (by rw [startsWithString_trav removePass (fun _ => rfl)]; exact h)
  · exact guarded_no_new_docstring isAssert rfl m _ (by rw [startsWithString_trav removeAsserts (fun _ => rfl)]; exact h)
  · exact guarded_no_new_docstring canRemoveDebug rfl m _ (by rw [startsWithString_trav removeDebug (fun _ => rfl)]; exact h)


end PMV.Transforms

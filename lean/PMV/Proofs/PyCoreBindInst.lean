import PMV.Proofs.PyCore
import PMV.Proofs.PyCoreImports
/-
  The statement-level transforms keep the list of names a function body binds (`BindOK`), so the static
  local/global decision of the semantics is the same before and after: pass / literal removal, return None,
  exception brackets, object base, import combining — unconditionally; assert / `if __debug__` removal only
  when the removed statements bind nothing (a removed statement that holds the only binding of a name turns a
  local variable into a global one: `remove_debug_changes_scoping` in Properties/C01).
-/
namespace PMV.PyCore
open PMV PMV.Transforms PMV.Minify

theorem bindS0_of_bindS (st : Stmt) (h : bindS st = some []) : bindS0 st = some [] := by
  cases st <;> first | exact h | (simp [bindS] at h)

theorem dropT_bindOK (q : Stmt → Bool) (hb : ∀ st, q st = true → bindS st = some []) : BindOK (dropT q) where
  stmt := fun _ => rfl
  stmt0 := fun _ => rfl
  suite := by
    intro m b
    simp only [dropT_suiteF]
    rw [bindL_eq, bindL_eq]
    exact obind_filterSuite bindS obind_zero_bindS q hb m b
  suite0 := by
    intro m b
    simp only [dropT_suiteF]
    rw [bindTop_eq, bindTop_eq]
    exact obind_filterSuite bindS0 obind_zero_bindS0 q (fun st h => bindS0_of_bindS st (hb st h)) m b
  body := fun _ => rfl

theorem isPass_binds (st : Stmt) (h : isPass st = true) : bindS st = some [] := by
  cases st <;> simp [isPass] at h
  simp [bindS]

theorem isLiteral_binds (st : Stmt) (h : isLiteralStmt st = true) : bindS st = some [] := by
  cases st with
  | expr e =>
    cases e with
    | constant c => simp [bindS, oguard, coreX, coreE]
    | _ => simp [isLiteralStmt] at h
  | _ => simp [isLiteralStmt] at h

theorem oguard_nil_of_isSome (c : Bool) (h : (oguard c (some [])).isSome = true) : oguard c (some []) = some [] := by
  cases c <;> simp [oguard] at h ⊢

/-- a removed `assert` binds nothing when its expressions are core expressions -/
theorem isAssert_binds (st : Stmt) (h : isAssert st = true) (hc : (bindS st).isSome = true) : bindS st = some [] := by
  cases st <;> simp [isAssert] at h
  simp only [bindS] at hc ⊢
  exact oguard_nil_of_isSome _ hc

/-! return None -/

theorem bindS_returnNoneStmt (st : Stmt) : bindS (returnNoneStmt st) = bindS st := by
  unfold returnNoneStmt
  split
  · simp [bindS, oguard, coreE]
  · rfl

theorem bindS0_returnNoneStmt (st : Stmt) : bindS0 (returnNoneStmt st) = bindS0 st := by
  unfold returnNoneStmt
  split
  · simp [bindS0, bindS, oguard, coreE]
  · rfl

theorem obind_dropLast (f : Stmt → Option (List String)) : ∀ (b : List Stmt) (x : Stmt), b.getLast? = some x → f x = some [] →
    obind f b.dropLast = obind f b
  | [], _, h, _ => by simp at h
  | [y], x, h, hx => by
    simp at h; subst h
    simp [obind, hx]
  | y :: z :: rest, x, h, hx => by
    have h' : (z :: rest).getLast? = some x := by simpa [List.getLast?_cons_cons] using h
    simp only [List.dropLast_cons₂, obind]
    have := obind_dropLast f (z :: rest) x h' hx
    simp only [obind] at this
    rw [this]

theorem bindTop_dropTrailingReturn (b : List Stmt) : bindTop (dropTrailingReturn b) = bindTop b := by
  rw [bindTop_eq, bindTop_eq]
  unfold dropTrailingReturn
  have hcore : ∀ b' : List Stmt, obind bindS0 b' = obind bindS0 b →
      obind bindS0 (if b'.isEmpty then [zeroStmt] else b') = obind bindS0 b := by
    intro b' hb'
    cases b' with
    | nil => simp only [List.isEmpty_nil, if_true]; rw [obind_zero_bindS0, ← hb']; rfl
    | cons x xs => simpa using hb'
  apply hcore
  split
  · rename_i hl
    exact obind_dropLast bindS0 b _ hl (by simp [bindS0, bindS])
  · rfl

theorem returnNone_bindOK : BindOK removeReturnNone where
  stmt := bindS_returnNoneStmt
  stmt0 := bindS0_returnNoneStmt
  suite := fun _ _ => rfl
  suite0 := fun _ _ => rfl
  body := bindTop_dropTrailingReturn

/-! exception brackets -/

theorem bindS_bracketsStmt (el : List String) (st : Stmt) : bindS (bracketsStmt el st) = bindS st := by
  cases st <;> try rfl
  simp only [bracketsStmt, bindS, raiseName_stripCall]

theorem brackets_bindOK (el : List String) : BindOK (removeBrackets el) where
  stmt := bindS_bracketsStmt el
  stmt0 := by
    intro st
    have := bindS_bracketsStmt el st
    cases st <;> first | rfl | exact this
  suite := fun _ _ => rfl
  suite0 := fun _ _ => rfl
  body := fun _ => rfl

/-! object base -/

theorem object_bindOK : BindOK removeObject where
  stmt := by intro st; cases st <;> rfl
  stmt0 := by intro st; cases st <;> rfl
  suite := fun _ _ => rfl
  suite0 := fun _ _ => rfl
  body := fun _ => rfl

/-! import combining -/

theorem aliasBound_single (names : List Alias) :
    obind bindS (names.map (fun a => Stmt.import_ [a])) = some (names.map aliasBound) := by
  induction names with
  | nil => rfl
  | cons a rest ih => simp [obind, bindS, ih, oapp]

theorem fromBound_single (m : Option String) (l : Nat) (names : List Alias) (h : hasStar names = false) :
    obind bindS (names.map (fun a => Stmt.importFrom m [a] l)) = some (names.map fromBound) := by
  induction names with
  | nil => rfl
  | cons a rest ih =>
    rw [hasStar_cons] at h
    simp only [Bool.or_eq_false_iff] at h
    have h1 : hasStar [a] = false := by simp [hasStar, h.1]
    simp [obind, bindS, ih h.2, oapp, oguard, h1]

theorem fromBound_single_star (m : Option String) (l : Nat) (names : List Alias) (h : hasStar names = true) :
    obind bindS (names.map (fun a => Stmt.importFrom m [a] l)) = none := by
  induction names with
  | nil => simp [hasStar] at h
  | cons a rest ih =>
    rw [hasStar_cons] at h
    by_cases ha : (a.name == "*") = true
    · have h1 : hasStar [a] = true := by simp [hasStar, ha]
      simp [obind, bindS, oguard, h1]
    · have ha' : (a.name == "*") = false := by simpa using ha
      simp only [ha', Bool.false_or] at h
      simp [obind, ih h]

theorem flatI_bindS (st : Stmt) : obind bindS (flatI st) = bindS st := by
  cases st
  case import_ names => simp only [flatI, aliasBound_single, bindS]
  all_goals simp [flatI, obind]

theorem flatF_bindS (st : Stmt) : obind bindS (flatF st) = bindS st := by
  cases st
  case importFrom m names l =>
    simp only [flatF, asImportFrom]
    by_cases h : hasStar names = true
    · rw [fromBound_single_star m l names h]; simp [bindS, oguard, h]
    · have h' : hasStar names = false := by simpa using h
      rw [fromBound_single m l names h']; simp [bindS, oguard, h']
  all_goals simp [flatF, asImportFrom, obind]

theorem obind_bindS0_of (g : Stmt → List Stmt) (hg : ∀ st, obind bindS (g st) = bindS st)
    (hglob : ∀ ns, g (.global ns) = [.global ns]) (hng : ∀ st x, x ∈ g st → (∀ ns, st ≠ .global ns) → ∀ ns, x ≠ .global ns)
    (st : Stmt) : obind bindS0 (g st) = bindS0 st := by
  by_cases hst : ∃ ns, st = .global ns
  · obtain ⟨ns, rfl⟩ := hst
    rw [hglob]; simp [obind, bindS0]
  · have hne : ∀ ns, st ≠ .global ns := fun ns h => hst ⟨ns, h⟩
    have h0 : bindS0 st = bindS st := by cases st <;> first | rfl | exact absurd rfl (hne _)
    rw [h0, ← hg st]
    have : ∀ l : List Stmt, (∀ x ∈ l, ∀ ns, x ≠ .global ns) → obind bindS0 l = obind bindS l := by
      intro l
      induction l with
      | nil => intro _; rfl
      | cons x xs ih =>
        intro hl
        have hx : bindS0 x = bindS x := by
          have := hl x (by simp)
          cases x <;> first | rfl | exact absurd rfl (this _)
        simp only [obind, hx, ih (fun y hy => hl y (by simp [hy]))]
    exact this _ (fun x hx => hng st x hx hne)

theorem flatI_bindS0 (st : Stmt) : obind bindS0 (flatI st) = bindS0 st := by
  apply obind_bindS0_of flatI flatI_bindS (fun _ => rfl)
  intro st x hx hne ns
  cases st
  case import_ names =>
    simp only [flatI, List.mem_map] at hx
    obtain ⟨a, _, rfl⟩ := hx
    intro h; cases h
  all_goals (simp only [flatI, List.mem_singleton] at hx; subst hx; exact hne ns)

theorem flatF_bindS0 (st : Stmt) : obind bindS0 (flatF st) = bindS0 st := by
  apply obind_bindS0_of flatF flatF_bindS (fun _ => rfl)
  intro st x hx hne ns
  cases st
  case importFrom m names l =>
    simp only [flatF, asImportFrom, List.mem_map] at hx
    obtain ⟨a, _, rfl⟩ := hx
    intro h; cases h
  all_goals (simp only [flatF, asImportFrom, List.mem_singleton] at hx; subst hx; exact hne ns)

theorem obind_combine (f : Stmt → Option (List String)) (hI : ∀ st, obind f (flatI st) = f st) (hF : ∀ st, obind f (flatF st) = f st)
    (b : List Stmt) : obind f (combineFrom (combineImport b)) = obind f b := by
  have h1 : ∀ x, obind f (flatFrom x) = obind f x := fun x => by
    rw [flatFrom_eq]; exact obind_flatMap f flatF hF x
  have h2 : ∀ x, obind f (flattenImports x) = obind f x := fun x => by
    rw [flattenImports_eq]; exact obind_flatMap f flatI hI x
  rw [← h1 (combineFrom _), flatFrom_combineFrom, h1, ← h2 (combineImport _), flatten_combineImport, h2]

theorem combineImports_bindOK : BindOK combineImports where
  stmt := fun _ => rfl
  stmt0 := fun _ => rfl
  suite := by
    intro m b
    show bindL (combineFrom (combineImport b)) = bindL b
    rw [bindL_eq, bindL_eq]; exact obind_combine bindS flatI_bindS flatF_bindS b
  suite0 := by
    intro m b
    show bindTop (combineFrom (combineImport b)) = bindTop b
    rw [bindTop_eq, bindTop_eq]; exact obind_combine bindS0 flatI_bindS0 flatF_bindS0 b
  body := fun _ => rfl

end PMV.PyCore

import PMV.Proofs.LayoutPlain
/-
  The specified layout is tidy: it starts and ends with a real token and never has two layout tokens in a row — no empty
  line, no `;;`, no `;` before a line break, no trailing separator.
-/
namespace PMV.Spec.Layout
open PMV PMV.Token PMV.Printer

/-- non-empty, first and last are real tokens, no two adjacent layout tokens -/
inductive Tidy : List LT → Prop
  | one (tok : Tok) : Tidy [.t tok]
  | tt (tok : Tok) {l : List LT} : Tidy l → Tidy (.t tok :: l)
  | tl (tok : Tok) (x : LT) {l : List LT} : Tidy l → Tidy (.t tok :: x :: l)

theorem Tidy.ne_nil {l : List LT} (h : Tidy l) : l ≠ [] := by cases h <;> simp

theorem Tidy.append {a b : List LT} (ha : Tidy a) (hb : Tidy b) : Tidy (a ++ b) := by
  induction ha with
  | one tok => exact .tt tok hb
  | tt tok _ ih => exact .tt tok ih
  | tl tok x _ ih => exact .tl tok x ih

theorem Tidy.sep {a b : List LT} (ha : Tidy a) (x : LT) (hb : Tidy b) : Tidy (a ++ x :: b) := by
  induction ha with
  | one tok => exact .tl tok x hb
  | tt tok _ ih => exact .tt tok ih
  | tl tok y _ ih => exact .tl tok y ih

theorem Tidy_T {xs : List Tok} (h : xs ≠ []) : Tidy (T xs) := by
  induction xs with
  | nil => exact absurd rfl h
  | cons x rest ih =>
    cases rest with
    | nil => exact .one x
    | cons y r => exact .tt x (ih (by simp))

/-- tidy or empty -/
def Tidy0 (l : List LT) : Prop := l = [] ∨ Tidy l

theorem Tidy.append0 {a b : List LT} (ha : Tidy a) (hb : Tidy0 b) : Tidy (a ++ b) := by
  rcases hb with rfl | hb
  · simpa using ha
  · exact ha.append hb

theorem tidy_first {l : List LT} (h : Tidy l) : ∃ tok rest, l = .t tok :: rest := by
  cases h <;> exact ⟨_, _, rfl⟩

theorem tidy_last {l : List LT} (h : Tidy l) : EndsT l := by
  induction h with
  | one tok => exact ⟨[], tok, rfl⟩
  | tt tok _ ih => exact EndsT.cons _ ih
  | tl tok x _ ih => exact EndsT.cons _ (EndsT.cons _ ih)

def noAdj : List LT → Bool
  | a :: b :: rest => !(a.isLay && b.isLay) && noAdj (b :: rest)
  | _ => true

theorem tidy_noAdj {l : List LT} (h : Tidy l) : noAdj l = true := by
  induction h with
  | one tok => rfl
  | tt tok hl ih =>
    obtain ⟨t2, r, rfl⟩ := tidy_first hl
    simp [noAdj, LT.isLay, ih]
  | tl tok x hl ih =>
    obtain ⟨t2, r, rfl⟩ := tidy_first hl
    simp only [noAdj, LT.isLay, Bool.false_and, Bool.not_false, Bool.true_and, Bool.and_false] at ih ⊢
    exact ih

/-! suites and optional clauses -/

theorem tidy_suite (t : PrecTable) (st : StmtTable) (d : Nat) (body : List Stmt) (hb : Tidy0 (emitBody t st (d + 1) body))
    (hne : body.any isCompoundSyn = true → body ≠ []) (hdr : List Tok) (hh : hdr ≠ []) (hbody : body ≠ [] → Tidy (emitBody t st (d + 1) body)) :
    Tidy (T hdr ++ suiteStart d body ++ emitBody t st (d + 1) body) := by
  unfold suiteStart
  by_cases hblk : body.any isCompoundSyn = true
  · simp only [hblk, if_true, List.append_assoc, List.singleton_append]
    exact (Tidy_T hh).sep _ (hbody (hne hblk))
  · simp only [hblk, Bool.false_eq_true, if_false, List.append_nil]
    exact (Tidy_T hh).append0 hb

theorem any_ne_nil {body : List Stmt} (h : body.any isCompoundSyn = true) : body ≠ [] := by
  intro hb; rw [hb] at h; cases h

/-- what the induction carries for a block -/
def TidyL (t : PrecTable) (st : StmtTable) (body : List Stmt) : Prop := ∀ d, body ≠ [] → Tidy (emitBody t st d body)

theorem tidyL_tidy0 {t : PrecTable} {st : StmtTable} {body : List Stmt} (h : TidyL t st body) (d : Nat) : Tidy0 (emitBody t st d body) := by
  by_cases hb : body = []
  · left; rw [hb]; rfl
  · right; exact h d hb

theorem tidy_clause (t : PrecTable) (st : StmtTable) (d : Nat) (body : List Stmt) (hL : TidyL t st body) (hdr : List Tok) (hh : hdr ≠ []) :
    Tidy (T hdr ++ suiteStart d body ++ emitBody t st (d + 1) body) :=
  tidy_suite t st d body (tidyL_tidy0 hL (d + 1)) any_ne_nil hdr hh (hL (d + 1))

theorem tidy_opt (t : PrecTable) (st : StmtTable) (kwd : String) (d : Nat) (body : List Stmt) (hL : TidyL t st body) {X : List LT} (hX : Tidy X) :
    Tidy (X ++ optClause t st kwd d body) := by
  unfold optClause
  by_cases hb : body.isEmpty = true
  · simpa [hb] using hX
  · simp only [hb, Bool.false_eq_true, if_false]
    have := tidy_clause t st d body hL [.kw kwd, .delim ":"] (by simp)
    have h2 := hX.sep (.nl d) this
    simpa [List.append_assoc] using h2

mutual
theorem tidyS (t : PrecTable) (st : StmtTable) : (s : Stmt) → okS t st s = true → ∀ el d, Tidy (emitS t st el d s)
  | .functionDef a n args body decs r tps, h, el, d => by
    simp only [okS, Bool.and_eq_true] at h
    rw [emitS]
    have hc := tidy_clause t st d body (tidyL t st body h.2) _ (hdrDef_ne t a n args r tps)
    have : ∀ (ds : List Expr) {Y : List LT}, Tidy Y → Tidy (decoLines t d ds ++ Y) := by
      intro ds
      induction ds with
      | nil => intro Y hY; simpa [decoLines] using hY
      | cons dec rest ih =>
        intro Y hY
        have h1 : decoLines t d (dec :: rest) ++ Y = T (.op "@" :: tExpr t dec) ++ .nl d :: (decoLines t d rest ++ Y) := by
          simp [decoLines, List.append_assoc]
        rw [h1]
        exact (Tidy_T (by simp)).sep _ (ih hY)
    simpa [List.append_assoc] using this decs hc
  | .classDef n bases kws body decs tps, h, el, d => by
    simp only [okS, Bool.and_eq_true] at h
    rw [emitS]
    have hc := tidy_clause t st d body (tidyL t st body h.2) _ (hdrClass_ne t n bases kws tps)
    have : ∀ (ds : List Expr) {Y : List LT}, Tidy Y → Tidy (decoLines t d ds ++ Y) := by
      intro ds
      induction ds with
      | nil => intro Y hY; simpa [decoLines] using hY
      | cons dec rest ih =>
        intro Y hY
        have h1 : decoLines t d (dec :: rest) ++ Y = T (.op "@" :: tExpr t dec) ++ .nl d :: (decoLines t d rest ++ Y) := by
          simp [decoLines, List.append_assoc]
        rw [h1]
        exact (Tidy_T (by simp)).sep _ (ih hY)
    simpa [List.append_assoc] using this decs hc
  | .for_ a tg it body orelse, h, el, d => by
    simp only [okS, Bool.and_eq_true] at h
    have hc := tidy_clause t st d body (tidyL t st body h.1.2) _ (hdrFor_ne t a tg it)
    have := tidy_opt t st "else" d orelse (tidyL t st orelse h.2) hc
    rw [emitS]; unfold optClause at this
    by_cases ho : orelse.isEmpty = true <;> simpa [ho, List.append_assoc] using this
  | .while_ c body orelse, h, el, d => by
    simp only [okS, Bool.and_eq_true] at h
    have hc := tidy_clause t st d body (tidyL t st body h.1.2) (.kw "while" :: tExpr t c ++ [.delim ":"]) (by simp)
    have := tidy_opt t st "else" d orelse (tidyL t st orelse h.2) hc
    rw [emitS]; unfold optClause at this
    by_cases ho : orelse.isEmpty = true <;> simpa [ho, List.append_assoc] using this
  | .if_ c body orelse, h, el, d => by
    simp only [okS, Bool.and_eq_true] at h
    have hc := tidy_clause t st d body (tidyL t st body h.1.2) (.kw (if el then "elif" else "if") :: tExpr t c ++ [.delim ":"]) (by simp)
    rw [emitS]
    by_cases ho : orelse.isEmpty = true
    · simpa [ho] using hc
    · simp only [ho, Bool.false_eq_true, if_false]
      by_cases he : isElifList orelse = true
      · simp only [he, if_true]
        have := hc.sep (.nl d) (tidyElif t st orelse h.2 he d)
        simpa [List.append_assoc] using this
      · simp only [he, Bool.false_eq_true, if_false]
        have h2 := tidy_clause t st d orelse (tidyL t st orelse h.2) [.kw "else", .delim ":"] (by simp)
        have := hc.sep (.nl d) h2
        simpa [List.append_assoc] using this
  | .with_ a items body, h, el, d => by
    simp only [okS, Bool.and_eq_true] at h
    rw [emitS]
    exact tidy_clause t st d body (tidyL t st body h.2) _ (hdrWith_ne t a items)
  | .match_ subj cases, h, el, d => by
    simp only [okS, Bool.and_eq_true] at h
    rw [emitS]
    have hh : Tidy (T (.kw "match" :: tExpr t subj ++ [.delim ":"])) := Tidy_T (by simp)
    by_cases hc : cases.isEmpty = true
    · simpa [hc] using hh
    · simp only [hc, Bool.false_eq_true, if_false]
      have hne : cases ≠ [] := by intro e; rw [e] at hc; exact hc rfl
      exact hh.sep _ (tidyC t st cases h.2 (d + 1) hne)
  | .try_ star body hs orelse fin, h, el, d => by
    simp only [okS, Bool.and_eq_true] at h
    have hc := tidy_clause t st d body (tidyL t st body h.1.1.1) [.kw "try", .delim ":"] (by simp)
    have h2 := tidyH t st star hs h.1.1.2 d hc
    have h3 := tidy_opt t st "else" d orelse (tidyL t st orelse h.1.2) h2
    have h4 := tidy_opt t st "finally" d fin (tidyL t st fin h.2) h3
    rw [emitS]; unfold optClause at h4
    by_cases ho : orelse.isEmpty = true <;> by_cases hf : fin.isEmpty = true <;> simpa [ho, hf, List.append_assoc] using h4
  | .return_ v, h, el, d => tidy_simple t st _ rfl h el d
  | .delete ts, h, el, d => tidy_simple t st _ rfl h el d
  | .assign ts v, h, el, d => tidy_simple t st _ rfl h el d
  | .typeAlias n tps v, h, el, d => tidy_simple t st _ rfl h el d
  | .augAssign tg op v, h, el, d => tidy_simple t st _ rfl h el d
  | .annAssign tg ann v sm, h, el, d => tidy_simple t st _ rfl h el d
  | .raise_ e c, h, el, d => tidy_simple t st _ rfl h el d
  | .assert_ c m, h, el, d => tidy_simple t st _ rfl h el d
  | .import_ ns, h, el, d => tidy_simple t st _ rfl h el d
  | .importFrom m ns l, h, el, d => tidy_simple t st _ rfl h el d
  | .global ns, h, el, d => tidy_simple t st _ rfl h el d
  | .nonlocal ns, h, el, d => tidy_simple t st _ rfl h el d
  | .expr v, h, el, d => tidy_simple t st _ rfl h el d
  | .pass, h, el, d => tidy_simple t st _ rfl h el d
  | .break_, h, el, d => tidy_simple t st _ rfl h el d
  | .continue_, h, el, d => tidy_simple t st _ rfl h el d
theorem tidyL (t : PrecTable) (st : StmtTable) : (l : List Stmt) → okL t st l = true → TidyL t st l
  | [], _ => fun _ h => absurd rfl h
  | s :: ss, h => by
    simp only [okL, Bool.and_eq_true] at h
    intro d _
    rw [emitBody_cons]
    have h1 := tidyS t st s h.1 false d
    by_cases he : ss.isEmpty = true
    · simpa [he] using h1
    · simp only [he, Bool.false_eq_true, if_false]
      have hne : ss ≠ [] := by intro e; rw [e] at he; exact he rfl
      exact h1.sep _ (tidyL t st ss h.2 d hne)
theorem tidyElif (t : PrecTable) (st : StmtTable) : (l : List Stmt) → okL t st l = true → isElifList l = true → ∀ d, Tidy (emitElif t st d l)
  | [], _, he => by simp [isElifList] at he
  | s :: ss, h, _ => by
    simp only [okL, Bool.and_eq_true] at h
    intro d
    rw [emitElif]
    exact tidyS t st s h.1 true d
theorem tidyH (t : PrecTable) (st : StmtTable) (star : Bool) : (hs : List Handler) → okH t st star hs = true → ∀ d {X : List LT}, Tidy X →
    Tidy (X ++ emitHandlers t st star d hs)
  | [], _ => by intro d X hX; simpa [emitHandlers] using hX
  | .mk ty name body :: hs, h => by
    simp only [okH, Bool.and_eq_true] at h
    intro d X hX
    have hc := tidy_clause t st d body (tidyL t st body h.1.2) _ (hdrExcept_ne t star ty name)
    have := tidyH t st star hs h.2 d (hX.sep (.nl d) hc)
    simpa [emitHandlers, List.append_assoc] using this
theorem tidyC (t : PrecTable) (st : StmtTable) : (cs : List MatchCase) → okC t st cs = true → ∀ d, cs ≠ [] → Tidy (emitCases t st d cs)
  | [], _ => fun _ h => absurd rfl h
  | .mk pat guard body :: cs, h => by
    simp only [okC, Bool.and_eq_true] at h
    intro d _
    have hc := tidy_clause t st d body (tidyL t st body h.1.2) _ (hdrCase_ne t pat guard)
    rw [emitCases]
    by_cases he : cs.isEmpty = true
    · simpa [he] using hc
    · simp only [he, Bool.false_eq_true, if_false]
      have hne : cs ≠ [] := by intro e; rw [e] at he; exact he rfl
      have := hc.sep (.nl d) (tidyC t st cs h.2 d hne)
      simpa [List.append_assoc] using this
theorem tidy_simple (t : PrecTable) (st : StmtTable) (s : Stmt) (hc : isCompoundSyn s = false) (h : okS t st s = true) (el : Bool) (d : Nat) :
    Tidy (emitS t st el d s) := by
  rw [emitS_simple t st s hc]
  apply Tidy_T
  intro e
  have := (okS_simple hc h).2
  rw [e] at this
  cases this
end

/-- the specified layout of a non-empty module: first and last tokens are real, no two layout tokens in a row -/
theorem module_tidy (t : PrecTable) (st : StmtTable) (m : Module) (hok : okL t st m.body = true) (hne : m.body ≠ []) :
    Tidy (emitModule t st m) := tidyL t st m.body hok 0 hne

end PMV.Spec.Layout

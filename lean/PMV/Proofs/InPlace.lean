import PMV.Model.InPlace
namespace PMV.InPlace
open PMV

/-- the decision, stated outright -/
theorem argRenameInPlace_iff (f : Fn) (s : Slot) :
    argRenameInPlace f s = true ↔
      ((∃ i, s = .posonly i) ∨ s = .vararg ∨ s = .kwarg ∨ (selfLike f = true ∧ f.nPosonly = 0 ∧ 0 < f.nArgs ∧ s = .arg 0)) := by
  unfold argRenameInPlace firstSlot
  cases s with
  | posonly i => simp
  | vararg => simp
  | kwarg => simp
  | kwonly i =>
    by_cases h1 : 0 < f.nPosonly <;> by_cases h2 : 0 < f.nArgs <;> simp [h1, h2]
  | arg i =>
    by_cases h1 : 0 < f.nPosonly
    · simp [h1]; omega
    · by_cases h2 : 0 < f.nArgs
      · simp [h1, h2]
        intro _; omega
      · simp [h1, h2]

/-- a keyword-passable parameter is renamed in the signature only when it is the `self` / `cls` of a method -/
theorem keywordPassable_inPlace (f : Fn) (s : Slot) (hk : s.keywordPassable = true) (h : argRenameInPlace f s = true) :
    selfLike f = true ∧ s = .arg 0 ∧ f.nPosonly = 0 := by
  rcases (argRenameInPlace_iff f s).mp h with ⟨i, rfl⟩ | rfl | rfl | ⟨a, b, _, c⟩
  · simp [Slot.keywordPassable] at hk
  · simp [Slot.keywordPassable] at hk
  · simp [Slot.keywordPassable] at hk
  · exact ⟨a, c, b⟩

theorem kwonly_never_inPlace (f : Fn) (i : Nat) : argRenameInPlace f (.kwonly i) = false := by
  cases h : argRenameInPlace f (.kwonly i) with
  | false => rfl
  | true => have := (keywordPassable_inPlace f _ rfl h).2.1; cases this

theorem later_arg_never_inPlace (f : Fn) (i : Nat) : argRenameInPlace f (.arg (i + 1)) = false := by
  cases h : argRenameInPlace f (.arg (i + 1)) with
  | false => rfl
  | true => have := (keywordPassable_inPlace f _ rfl h).2.1; cases this

theorem function_arg_never_inPlace (f : Fn) (i : Nat) (h : f.inClass = false ∨ f.isLambda = true) :
    argRenameInPlace f (.arg i) = false := by
  cases h' : argRenameInPlace f (.arg i) with
  | false => rfl
  | true =>
    have := (keywordPassable_inPlace f _ rfl h').1
    unfold selfLike at this
    rcases h with h | h <;> simp [h] at this

end PMV.InPlace

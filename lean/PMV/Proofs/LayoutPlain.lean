import PMV.Proofs.LayoutExpr
import PMV.Spec.LayoutPlain
/-
  The side condition of T02.4 in syntactic form: `plainL` — no `yield` is visited as a statement inside a header or a
  pattern (the grammar allows none there), and an expression statement prints at least one token — implies `okL`.
-/
namespace PMV.Spec.Layout
open PMV PMV.Token PMV.Printer

theorem tVisit_nlay (t : PrecTable) (e : Expr) (h : isYield e = false) : nlay (tVisit t e) = true := by
  cases e <;> simp [isYield] at h <;> exact flat_nlay _

theorem mappingItems_nlay : (ks ps : List (List Tok)) → nlayAll ks = true → nlayAll ps = true → nlayAll (mappingItems ks ps) = true
  | [], _, _, _ => by simp [mappingItems]
  | _ :: _, [], _, _ => by simp [mappingItems]
  | k :: ks, p :: ps, hk, hp => by
    simp only [nlayAll_cons, Bool.and_eq_true] at hk hp
    simp [mappingItems, hk.1, hp.1, mappingItems_nlay ks ps hk.2 hp.2, Spec.Lex.isLayout]

theorem kwdItems_nlay : (as : List String) → (ps : List (List Tok)) → nlayAll ps = true → nlayAll (kwdItems as ps) = true
  | [], _, _ => by simp [kwdItems]
  | _ :: _, [], _ => by simp [kwdItems]
  | a :: as, p :: ps, hp => by
    simp only [nlayAll_cons, Bool.and_eq_true] at hp
    simp [kwdItems, hp.1, kwdItems_nlay as ps hp.2, Spec.Lex.isLayout]

theorem parenToksIf_nlay (b : Bool) (ts : List Tok) (h : nlay ts = true) : nlay (parenToksIf b ts) = true := by
  cases b <;> simp [parenToksIf, h, Spec.Lex.isLayout]

theorem map_tExpr_nlay (t : PrecTable) (es : List Expr) : nlayAll (es.map (tExpr t)) = true := by
  induction es with
  | nil => rfl
  | cons e es ih => simp [tExpr_nlay, ih]

mutual
theorem patToks_nlay (t : PrecTable) : (p : Pattern) → patOK p = true → nlay (patToks t p) = true
  | .matchValue v, h => by
    simp only [patOK, Bool.not_eq_true'] at h
    rw [patToks]; exact tVisit_nlay t v h
  | .matchSingleton c, _ => by simp [patToks, Spec.Lex.isLayout]
  | .matchSequence ps, h => by
    simp only [patOK] at h
    have := commaSep_nlay _ (patsToks_nlay t ps h)
    simp [patToks, this, Spec.Lex.isLayout]
  | .matchMapping ks ps rest, h => by
    simp only [patOK] at h
    have h1 := mappingItems_nlay _ _ (map_tExpr_nlay t ks) (patsToks_nlay t ps h)
    cases rest with
    | none =>
      have := commaSep_nlay _ (show nlayAll (mappingItems (ks.map (tExpr t)) (patsToks t ps) ++ []) = true by simp [h1])
      simp only [List.append_nil] at this
      simp [patToks, this, Spec.Lex.isLayout]
    | some r =>
      have := commaSep_nlay _ (show nlayAll (mappingItems (ks.map (tExpr t)) (patsToks t ps) ++ [[Tok.op "**", Tok.ident r]]) = true by
        simp [h1, Spec.Lex.isLayout])
      simp [patToks, this, Spec.Lex.isLayout]
  | .matchClass cls ps kas kps, h => by
    simp only [patOK, Bool.and_eq_true, Bool.not_eq_true'] at h
    have h1 := patsToks_nlay t ps h.1.2
    have h2 := kwdItems_nlay kas _ (patsToks_nlay t kps h.2)
    have := commaSep_nlay _ (show nlayAll (patsToks t ps ++ kwdItems kas (patsToks t kps)) = true by simp [h1, h2])
    simp [patToks, tVisit_nlay t cls h.1.1, this, Spec.Lex.isLayout]
  | .matchStar n, _ => by simp [patToks, Spec.Lex.isLayout]
  | .matchAs none n, _ => by simp [patToks, Spec.Lex.isLayout]
  | .matchAs (some p) n, h => by
    simp only [patOK] at h
    simp [patToks, parenToksIf_nlay _ _ (patToks_nlay t p h), Spec.Lex.isLayout]
  | .matchOr ps, h => by
    simp only [patOK] at h
    rw [patToks]; exact joinWith_nlay _ rfl _ (orItems_nlay t ps h)
theorem patsToks_nlay (t : PrecTable) : (ps : List Pattern) → patsOK ps = true → nlayAll (patsToks t ps) = true
  | [], _ => rfl
  | p :: ps, h => by
    simp only [patsOK, Bool.and_eq_true] at h
    simp [patsToks, patToks_nlay t p h.1, patsToks_nlay t ps h.2]
theorem orItems_nlay (t : PrecTable) : (ps : List Pattern) → patsOK ps = true → nlayAll (orItems t ps) = true
  | [], _ => rfl
  | p :: ps, h => by
    simp only [patsOK, Bool.and_eq_true] at h
    simp [orItems, parenToksIf_nlay _ _ (patToks_nlay t p h.1), orItems_nlay t ps h.2]
end

theorem casePatToks_nlay (t : PrecTable) (p : Pattern) (h : patOK p = true) : nlay (casePatToks t p) = true := by
  cases p with
  | matchSequence ps =>
    simp only [casePatToks]
    split
    · exact patToks_nlay t _ h
    · simp only [patOK] at h; exact commaSep_nlay _ (patsToks_nlay t ps h)
  | _ => exact patToks_nlay t _ h

theorem typeParamToks_all (t : PrecTable) (tps : List TypeParam) : nlayAll (tps.map (typeParamToks t)) = true := by
  induction tps with
  | nil => rfl
  | cons tp rest ih =>
    simp only [List.map_cons, nlayAll_cons, ih, Bool.and_true]
    cases tp with
    | typeVar n b d => cases b <;> cases d <;> simp [typeParamToks, tExpr_nlay, Spec.Lex.isLayout]
    | paramSpec n d => cases d <;> simp [typeParamToks, tExpr_nlay, Spec.Lex.isLayout]
    | typeVarTuple n d => cases d <;> simp [typeParamToks, tExpr_nlay, Spec.Lex.isLayout]

theorem typeParamsToks_nlay (t : PrecTable) (tps : List TypeParam) : nlay (typeParamsToks t tps) = true := by
  have := commaSep_nlay _ (typeParamToks_all t tps)
  unfold typeParamsToks
  split
  · rfl
  · simp [this, Spec.Lex.isLayout]

theorem hdrDef_nlay (t : PrecTable) (a : Bool) (n : String) (args : Arguments) (r : Option Expr) (tps : List TypeParam) :
    nlay (hdrDef t a n args r tps) = true := by
  cases a <;> cases r <;> simp [hdrDef, typeParamsToks_nlay, flatArguments_nlay, tExpr_nlay, Spec.Lex.isLayout]

theorem tKeyword_nlay (t : PrecTable) (k : Keyword) : nlay (tKeyword t k) = true := by
  cases k with
  | mk a v => cases a <;> simp [tKeyword, tExpr_nlay, Spec.Lex.isLayout]

theorem hdrClass_nlay (t : PrecTable) (n : String) (bases : List Expr) (kws : List Keyword) (tps : List TypeParam) :
    nlay (hdrClass t n bases kws tps) = true := by
  have h1 : nlayAll (bases.map (tExpr t) ++ kws.map (tKeyword t)) = true := by
    simp only [nlayAll_append, map_tExpr_nlay, Bool.true_and]
    induction kws with
    | nil => rfl
    | cons k ks ih => simp [tKeyword_nlay, ih]
  have := commaSep_nlay _ h1
  simp only [hdrClass]
  split <;> simp [typeParamsToks_nlay, this, Spec.Lex.isLayout]

theorem hdrFor_nlay (t : PrecTable) (a : Bool) (tg it : Expr) : nlay (hdrFor t a tg it) = true := by
  cases a <;> simp [hdrFor, tExpr_nlay, Spec.Lex.isLayout]

theorem withItemToks_nlay (t : PrecTable) (w : WithItem) : nlay (withItemToks t w) = true := by
  unfold withItemToks
  cases w.optionalVars <;> simp [tExpr_nlay, Spec.Lex.isLayout]

theorem hdrWith_nlay (t : PrecTable) (a : Bool) (items : List WithItem) : nlay (hdrWith t a items) = true := by
  have hall : nlayAll (items.map (withItemToks t)) = true := by
    induction items with
    | nil => rfl
    | cons w ws ih => simp [withItemToks_nlay, ih]
  have h1 : nlay (withItemsToks t items) = true := by
    unfold withItemsToks
    split
    · split <;> simp [withItemToks_nlay, Spec.Lex.isLayout]
    · exact commaSep_nlay _ hall
  cases a <;> simp [hdrWith, h1, Spec.Lex.isLayout]

theorem hdrExcept_nlay (t : PrecTable) (star : Bool) (ty : Option Expr) (name : Option String) : nlay (hdrExcept t star ty name) = true := by
  cases star <;> cases ty <;> cases name <;> simp [hdrExcept, tOptExpr, tExpr_nlay, Spec.Lex.isLayout]

theorem hdrCase_nlay (t : PrecTable) (pat : Pattern) (guard : Option Expr) (h : patOK pat = true) : nlay (hdrCase t pat guard) = true := by
  cases guard <;> simp [hdrCase, casePatToks_nlay t pat h, tExpr_nlay, Spec.Lex.isLayout]

theorem commaSep_map_nlay (t : PrecTable) (es : List Expr) : nlay (commaSep (es.map (tExpr t))) = true :=
  commaSep_nlay _ (map_tExpr_nlay t es)

theorem aliases_nlay (names : List Alias) (f : Alias → List Tok) (hf : ∀ a, nlay (f a) = true) : nlay (commaSep (names.map f)) = true := by
  apply commaSep_nlay
  induction names with
  | nil => rfl
  | cons a as ih => simp [hf, ih]

theorem tAlias_nlay (a : Alias) : nlay (tAlias a) = true := by
  unfold tAlias; cases a.asname <;> simp [Spec.Lex.isLayout]

theorem idents_nlay (ns : List String) : nlay (commaSep (ns.map fun n => [Tok.ident n])) = true := by
  apply commaSep_nlay
  induction ns with
  | nil => rfl
  | cons a as ih => simp [ih, Spec.Lex.isLayout]

theorem flatMap_targets_nlay (t : PrecTable) (ts : List Expr) : nlay (ts.flatMap fun tg => tTestlist t tg ++ [Tok.delim "="]) = true := by
  induction ts with
  | nil => rfl
  | cons a as ih => simp [List.flatMap_cons, tTestlist_nlay, ih, Spec.Lex.isLayout]

theorem replicate_dot_nlay (l : Nat) : nlay (List.replicate l (Tok.delim ".")) = true := by
  induction l with
  | zero => rfl
  | succ k ih => simp [List.replicate_succ, ih, Spec.Lex.isLayout]

theorem simple_okS (t : PrecTable) (st : StmtTable) (s : Stmt) (hc : isCompoundSyn s = false) (h : simpleOK t s = true) :
    okS t st s = true := by
  have key : nlay (simpleToks t st s) = true ∧ (simpleToks t st s).isEmpty = false := by
    cases s <;> simp [isCompoundSyn] at hc
    case return_ v => cases v <;> simp [simpleToks, stmtToks, List.dropLast_cons_of_ne_nil, tTestlist_nlay, Spec.Lex.isLayout]
    case delete ts => simp [simpleToks, stmtToks, List.dropLast_cons_of_ne_nil, commaSep_map_nlay, Spec.Lex.isLayout]
    case assign ts v =>
      simp only [simpleOK, Bool.not_eq_true', Bool.and_eq_false_iff] at h
      have e : simpleToks t st (.assign ts v) = (ts.flatMap fun tg => tTestlist t tg ++ [Tok.delim "="]) ++ tValue t v := by
        simp [simpleToks, stmtToks]
      rw [e]
      refine ⟨by simp [flatMap_targets_nlay, tValue_nlay], ?_⟩
      cases ts with
      | nil => simpa using h
      | cons a as => simp [List.flatMap_cons]
    case typeAlias n tps v =>
      simp only [simpleOK, Bool.not_eq_true'] at h
      simp [simpleToks, stmtToks, List.dropLast_cons_of_ne_nil, tVisit_nlay t n h, typeParamsToks_nlay, tExpr_nlay, Spec.Lex.isLayout]
    case augAssign tg op v =>
      cases op <;> simp [simpleToks, stmtToks, binOpTok, List.dropLast_cons_of_ne_nil, tTestlist_nlay, tValue_nlay, Spec.Lex.isLayout]
    case annAssign tg ann v sm =>
      cases sm with
      | true =>
        simp only [simpleOK, Bool.not_eq_true'] at h
        cases v <;> simp [simpleToks, stmtToks, List.dropLast_cons_of_ne_nil, tVisit_nlay t tg h, tExpr_nlay, Spec.Lex.isLayout]
      | false => cases v <;> simp [simpleToks, stmtToks, List.dropLast_cons_of_ne_nil, tExpr_nlay, Spec.Lex.isLayout]
    case raise_ e c => cases e <;> cases c <;> simp [simpleToks, stmtToks, List.dropLast_cons_of_ne_nil, tOptExpr, tExpr_nlay, Spec.Lex.isLayout]
    case assert_ c m => cases m <;> simp [simpleToks, stmtToks, List.dropLast_cons_of_ne_nil, tExpr_nlay, Spec.Lex.isLayout]
    case import_ ns => simp [simpleToks, stmtToks, List.dropLast_cons_of_ne_nil, aliases_nlay ns tAlias tAlias_nlay, Spec.Lex.isLayout]
    case importFrom m ns l =>
      have h1 : nlay (commaSep (ns.map fun a => if a.name == "*" then [Tok.op "*"] else tAlias a)) = true :=
        aliases_nlay ns _ (fun a => by split <;> simp [tAlias_nlay, Spec.Lex.isLayout])
      have h2 := replicate_dot_nlay l
      cases m <;> simp [simpleToks, stmtToks, List.dropLast_cons_of_ne_nil, h2, Spec.Lex.isLayout] <;> simpa using h1
    case global ns => simp [simpleToks, stmtToks, List.dropLast_cons_of_ne_nil, idents_nlay, Spec.Lex.isLayout]
    case nonlocal ns => simp [simpleToks, stmtToks, List.dropLast_cons_of_ne_nil, idents_nlay, Spec.Lex.isLayout]
    case expr v =>
      simp only [simpleOK, Bool.not_eq_true'] at h
      have e : simpleToks t st (.expr v) = tValue t v := by simp [simpleToks, stmtToks]
      rw [e]; exact ⟨tValue_nlay t v, h⟩
    case pass => simp [simpleToks, stmtToks, Spec.Lex.isLayout]
    case break_ => simp [simpleToks, stmtToks, Spec.Lex.isLayout]
    case continue_ => simp [simpleToks, stmtToks, Spec.Lex.isLayout]
  cases s <;> simp [isCompoundSyn] at hc <;> simp [okS, key.1, key.2]

theorem decs_nlay (t : PrecTable) (decs : List Expr) : decs.all (fun dec => nlay (tExpr t dec)) = true := by
  induction decs with
  | nil => rfl
  | cons d ds ih => simp [tExpr_nlay, ih]

mutual
theorem okS_of_plain (t : PrecTable) (st : StmtTable) : (s : Stmt) → plainS t s = true → okS t st s = true
  | .functionDef a n args body decs r tps, h => by
    simp only [plainS] at h
    simp [okS, decs_nlay, hdrDef_nlay, okL_of_plain t st body h]
  | .classDef n bases kws body decs tps, h => by
    simp only [plainS] at h
    simp [okS, decs_nlay, hdrClass_nlay, okL_of_plain t st body h]
  | .for_ a tg it body orelse, h => by
    simp only [plainS, Bool.and_eq_true] at h
    simp [okS, hdrFor_nlay, okL_of_plain t st body h.1, okL_of_plain t st orelse h.2]
  | .while_ c body orelse, h => by
    simp only [plainS, Bool.and_eq_true] at h
    simp [okS, tExpr_nlay, okL_of_plain t st body h.1, okL_of_plain t st orelse h.2]
  | .if_ c body orelse, h => by
    simp only [plainS, Bool.and_eq_true] at h
    simp [okS, tExpr_nlay, okL_of_plain t st body h.1, okL_of_plain t st orelse h.2]
  | .with_ a items body, h => by
    simp only [plainS] at h
    simp [okS, hdrWith_nlay, okL_of_plain t st body h]
  | .match_ subj cases, h => by
    simp only [plainS] at h
    simp [okS, tExpr_nlay, okC_of_plain t st cases h]
  | .try_ star body hs orelse fin, h => by
    simp only [plainS, Bool.and_eq_true] at h
    simp [okS, okL_of_plain t st body h.1.1.1, okH_of_plain t st star hs h.1.1.2, okL_of_plain t st orelse h.1.2, okL_of_plain t st fin h.2]
  | .return_ v, h => simple_okS t st _ rfl (by simpa [plainS] using h)
  | .delete ts, h => simple_okS t st _ rfl (by simpa [plainS] using h)
  | .assign ts v, h => simple_okS t st _ rfl (by simpa [plainS] using h)
  | .typeAlias n tps v, h => simple_okS t st _ rfl (by simpa [plainS] using h)
  | .augAssign tg op v, h => simple_okS t st _ rfl (by simpa [plainS] using h)
  | .annAssign tg ann v sm, h => simple_okS t st _ rfl (by simpa [plainS] using h)
  | .raise_ e c, h => simple_okS t st _ rfl (by simpa [plainS] using h)
  | .assert_ c m, h => simple_okS t st _ rfl (by simpa [plainS] using h)
  | .import_ ns, h => simple_okS t st _ rfl (by simpa [plainS] using h)
  | .importFrom m ns l, h => simple_okS t st _ rfl (by simpa [plainS] using h)
  | .global ns, h => simple_okS t st _ rfl (by simpa [plainS] using h)
  | .nonlocal ns, h => simple_okS t st _ rfl (by simpa [plainS] using h)
  | .expr v, h => simple_okS t st _ rfl (by simpa [plainS] using h)
  | .pass, h => simple_okS t st _ rfl (by simpa [plainS] using h)
  | .break_, h => simple_okS t st _ rfl (by simpa [plainS] using h)
  | .continue_, h => simple_okS t st _ rfl (by simpa [plainS] using h)
theorem okL_of_plain (t : PrecTable) (st : StmtTable) : (l : List Stmt) → plainL t l = true → okL t st l = true
  | [], _ => rfl
  | s :: ss, h => by
    simp only [plainL, Bool.and_eq_true] at h
    simp [okL, okS_of_plain t st s h.1, okL_of_plain t st ss h.2]
theorem okH_of_plain (t : PrecTable) (st : StmtTable) (star : Bool) : (hs : List Handler) → plainH t hs = true → okH t st star hs = true
  | [], _ => rfl
  | .mk ty name body :: hs, h => by
    simp only [plainH, Bool.and_eq_true] at h
    simp [okH, hdrExcept_nlay, okL_of_plain t st body h.1, okH_of_plain t st star hs h.2]
theorem okC_of_plain (t : PrecTable) (st : StmtTable) : (cs : List MatchCase) → plainC t cs = true → okC t st cs = true
  | [], _ => rfl
  | .mk pat guard body :: cs, h => by
    simp only [plainC, Bool.and_eq_true] at h
    simp [okC, hdrCase_nlay t pat guard h.1.1, okL_of_plain t st body h.1.2, okC_of_plain t st cs h.2]
end

end PMV.Spec.Layout

import PMV.Model.Hoist
namespace PMV.Hoist

theorem commonPath_prefix_left : ∀ (a b : List Nat), commonPath a b <+: a
  | [], _ => by simp [commonPath]
  | _ :: _, [] => by simp [commonPath]
  | x :: xs, y :: ys => by
    simp only [commonPath]
    split
    · exact List.prefix_cons_inj x |>.mpr (commonPath_prefix_left xs ys)
    · exact List.nil_prefix

theorem commonPath_prefix_right : ∀ (a b : List Nat), commonPath a b <+: b
  | [], _ => by simp [commonPath]
  | _ :: _, [] => by simp [commonPath]
  | x :: xs, y :: ys => by
    simp only [commonPath]
    split
    · rename_i h
      have : x = y := by simpa using h
      subst this
      exact List.prefix_cons_inj x |>.mpr (commonPath_prefix_right xs ys)
    · exact List.nil_prefix

theorem foldl_prefix (ps : List (List Nat)) : ∀ (acc : List Nat), acc ≠ [] → (∀ q ∈ ps, q.head? = acc.head?) →
    (ps.foldl (fun acc q => if acc.isEmpty then q else commonPath acc q) acc <+: acc) ∧
    (∀ q ∈ ps, ps.foldl (fun acc q => if acc.isEmpty then q else commonPath acc q) acc <+: q) ∧
    (ps.foldl (fun acc q => if acc.isEmpty then q else commonPath acc q) acc ≠ []) := by
  induction ps with
  | nil => intro acc hne _; exact ⟨List.prefix_refl _, by simp, hne⟩
  | cons p ps ih =>
    intro acc hne hhead
    have hne' : acc.isEmpty = false := by cases acc <;> simp_all
    simp only [List.foldl_cons, hne', Bool.false_eq_true, if_false]
    -- the common path with p is non-empty because both start with the same (module) namespace
    have hp := hhead p (by simp)
    have hcne : commonPath acc p ≠ [] := by
      cases acc with
      | nil => exact absurd rfl hne
      | cons a as =>
        cases p with
        | nil => simp at hp
        | cons b bs =>
          simp only [List.head?_cons, Option.some.injEq] at hp
          subst hp
          simp [commonPath]
    have hhead' : ∀ q ∈ ps, q.head? = (commonPath acc p).head? := by
      intro q hq
      rw [hhead q (List.mem_cons_of_mem _ hq)]
      cases acc with
      | nil => exact absurd rfl hne
      | cons a as =>
        cases p with
        | nil => simp at hp
        | cons b bs =>
          simp only [List.head?_cons, Option.some.injEq] at hp
          subst hp
          simp [commonPath]
    obtain ⟨h1, h2, h3⟩ := ih (commonPath acc p) hcne hhead'
    refine ⟨List.IsPrefix.trans h1 (commonPath_prefix_left _ _), ?_, h3⟩
    intro q hq
    rcases List.mem_cons.mp hq with rfl | hq
    · exact List.IsPrefix.trans h1 (commonPath_prefix_right _ _)
    · exact h2 q hq

/-- T06.3 (dominance): when every path starts at the module, the chosen path is a prefix of the path of
    every use — the namespace the alias is assigned in encloses all of them. -/
theorem placePath_prefix (m : Nat) (paths : List (List Nat)) (hm : ∀ p ∈ paths, p.head? = some m) :
    ∀ p ∈ paths, placePath paths <+: p := by
  cases paths with
  | nil => intro p hp; simp at hp
  | cons p0 ps =>
    intro p hp
    have hne : p0 ≠ [] := by
      have := hm p0 (by simp)
      intro h; rw [h] at this; simp at this
    have hh : ∀ q ∈ ps, q.head? = p0.head? := by
      intro q hq; rw [hm q (List.mem_cons_of_mem _ hq), hm p0 (by simp)]
    obtain ⟨h1, h2, _⟩ := foldl_prefix ps p0 hne hh
    simp only [placePath]
    rcases List.mem_cons.mp hp with rfl | hp
    · exact h1
    · exact h2 p hp

/-- T06.3 (placement in the body): the new statement follows only docstring / `__future__` statements,
    and the other statements keep their order. -/
theorem insertStmt_eq {α} (leading : α → Bool) (new : α) (s : List α) :
    insertStmt leading new s = s.takeWhile leading ++ new :: s.dropWhile leading := by
  induction s with
  | nil => simp [insertStmt]
  | cons x xs ih =>
    simp only [insertStmt, List.takeWhile_cons, List.dropWhile_cons]
    split <;> simp [ih]

theorem all_takeWhile {α} (p : α → Bool) : ∀ (l : List α), (l.takeWhile p).all p = true
  | [] => by simp
  | x :: xs => by
    simp only [List.takeWhile_cons]
    split
    · rename_i h; simp [h, all_takeWhile p xs]
    · simp

theorem insertStmt_before_all_leading {α} (leading : α → Bool) (new : α) (s : List α) :
    ∃ pre post, insertStmt leading new s = pre ++ new :: post ∧ pre.all leading = true ∧ pre ++ post = s := by
  exact ⟨s.takeWhile leading, s.dropWhile leading, insertStmt_eq leading new s, all_takeWhile leading s,
    List.takeWhile_append_dropWhile⟩

end PMV.Hoist

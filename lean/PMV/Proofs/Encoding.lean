import PMV.Model.Encoding
namespace PMV.Encoding

theorem lowerC_idem (c : Nat) : lowerC (lowerC c) = lowerC c := by
  unfold lowerC; split <;> (try split) <;> omega

theorem norm_lower (name : List Nat) : norm (name.map lowerC) = norm name := by
  have h : ∀ l : List Nat, (l.map lowerC).map lowerC = l.map lowerC := by
    intro l; rw [List.map_map]; apply List.map_congr_left; intro c _; simp [lowerC_idem]
  unfold norm
  rw [← List.map_take, h]

theorem norm_take (name : List Nat) : norm (name.take 12) = norm name := by
  unfold norm; rw [List.take_take]; simp

/-- only the class matters downstream -/
def cls : Enc → Nat
  | .utf8 => 0
  | .latin1 => 1
  | .other _ => 2

theorem cls_eq (a b : List Nat) (h : norm a = norm b) : cls (normalName a) = cls (normalName b) := by
  unfold normalName
  simp only [h]
  split
  · rfl
  · split <;> rfl

theorem dashC_lowerC_ne (d : Nat) (h1 : d ≠ 45) (h2 : d ≠ 95) : dashC (lowerC d) ≠ 45 := by
  unfold dashC lowerC; split <;> (try split) <;> omega

theorem norm_iso_cons (d : Nat) (rest : List Nat) :
    norm (iso88591 ++ d :: rest) = iso88591 ++ dashC (lowerC d) :: ((rest.take 1).map lowerC).map dashC := by
  simp [norm, iso88591, lowerC, dashC, List.take]
  grind

/-- `iso-8859-1` followed by anything but a separator is another encoding (iso-8859-10 … iso-8859-16): the name is kept -/
theorem iso8859_part_kept (d : Nat) (rest : List Nat) (h1 : d ≠ 45) (h2 : d ≠ 95) :
    normalName (iso88591 ++ d :: rest) = .other (iso88591 ++ d :: rest) := by
  have hd := dashC_lowerC_ne d h1 h2
  unfold normalName
  simp only [norm_iso_cons]
  generalize dashC (lowerC d) = d' at hd
  generalize List.map dashC (List.map lowerC (List.take 1 rest)) = tl
  simp [isOrDash, iso88591, utf8, latin1, isoLatin1]
  omega

/-- a suffix after a separator (`-unix`, `-dos`, `_mac`, …) does not change what the four names stand for -/
theorem utf8_suffix (s : List Nat) : normalName (utf8 ++ 45 :: s) = .utf8 := by
  simp [normalName, norm, utf8, isOrDash, lowerC, dashC, List.take]

theorem latin1_suffix (s : List Nat) : normalName (latin1 ++ 45 :: s) = .latin1 := by
  simp [normalName, norm, utf8, latin1, iso88591, isoLatin1, isOrDash, lowerC, dashC, List.take]

theorem iso88591_suffix (s : List Nat) : normalName (iso88591 ++ 45 :: s) = .latin1 := by
  simp [normalName, norm, utf8, latin1, iso88591, isoLatin1, isOrDash, lowerC, dashC, List.take]

theorem isoLatin1_suffix (s : List Nat) : normalName (isoLatin1 ++ 45 :: s) = .latin1 := by
  simp [normalName, norm, utf8, latin1, iso88591, isoLatin1, isOrDash, lowerC, dashC, List.take]

end PMV.Encoding

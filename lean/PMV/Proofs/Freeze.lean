import PMV.Model.Freeze
namespace PMV.Freeze

mutual
theorem freezeLocals_sound (rl : Bool) (pl : List String) (i : Nat) : (n : Node) → i ∈ freezeLocals rl pl n →
    ∃ b, LocalBinding n b ∧ b.1 = i ∧ frozenLocal rl pl b = true
  | .mk isNs isMod bs children, h => by
    simp only [freezeLocals, List.mem_append] at h
    rcases h with h | h
    · split at h
      · rename_i hc
        simp only [Bool.and_eq_true, Bool.not_eq_true'] at hc
        obtain ⟨b, hb, hi⟩ := List.mem_map.mp h
        obtain ⟨hmem, hf⟩ := List.mem_filter.mp hb
        obtain ⟨hns, hmod⟩ := hc
        subst hns
        exact ⟨b, .here hmod hmem, hi, hf⟩
      · simp at h
    · obtain ⟨b, hb, hi, hf⟩ := freezeLocalsL_sound rl pl i children h
      exact ⟨b, .inChild hb, hi, hf⟩
theorem freezeLocalsL_sound (rl : Bool) (pl : List String) (i : Nat) : (l : List Node) → i ∈ freezeLocalsL rl pl l →
    ∃ b, LocalBindingL l b ∧ b.1 = i ∧ frozenLocal rl pl b = true
  | [], h => by simp [freezeLocalsL] at h
  | n :: rest, h => by
    simp only [freezeLocalsL, List.mem_append] at h
    rcases h with h | h
    · obtain ⟨b, hb, hi, hf⟩ := freezeLocals_sound rl pl i n h; exact ⟨b, .head hb, hi, hf⟩
    · obtain ⟨b, hb, hi, hf⟩ := freezeLocalsL_sound rl pl i rest h; exact ⟨b, .tail hb, hi, hf⟩
end

mutual
theorem freezeLocals_complete (rl : Bool) (pl : List String) (b : Nat × Option String) (hf : frozenLocal rl pl b = true) :
    {n : Node} → LocalBinding n b → b.1 ∈ freezeLocals rl pl n
  | _, .here hmod hmem => by
    simp only [freezeLocals, List.mem_append]
    left
    simp only [hmod, Bool.not_false, Bool.and_self, if_true]
    exact List.mem_map.mpr ⟨b, List.mem_filter.mpr ⟨hmem, hf⟩, rfl⟩
  | _, .inChild h => by
    simp only [freezeLocals, List.mem_append]
    exact Or.inr (freezeLocalsL_complete rl pl b hf h)
theorem freezeLocalsL_complete (rl : Bool) (pl : List String) (b : Nat × Option String) (hf : frozenLocal rl pl b = true) :
    {l : List Node} → LocalBindingL l b → b.1 ∈ freezeLocalsL rl pl l
  | _, .head h => by simp only [freezeLocalsL, List.mem_append]; exact Or.inl (freezeLocals_complete rl pl b hf h)
  | _, .tail h => by simp only [freezeLocalsL, List.mem_append]; exact Or.inr (freezeLocalsL_complete rl pl b hf h)
end

/-- `allow_rename_locals` freezes exactly the bindings of the namespaces other than the module — at any depth, whatever kind of
    node they hang on — that are listed, or all of them when local renaming is off -/
theorem freezeLocals_spec (rl : Bool) (pl : List String) (n : Node) (i : Nat) :
    i ∈ freezeLocals rl pl n ↔ ∃ b, LocalBinding n b ∧ b.1 = i ∧ frozenLocal rl pl b = true := by
  constructor
  · exact freezeLocals_sound rl pl i n
  · rintro ⟨b, hb, hi, hf⟩
    rw [← hi]
    exact freezeLocals_complete rl pl b hf hb

theorem freezeGlobals_spec (rg : Bool) (pg ex : List String) (od : List Nat) (bs : List (Nat × Option String)) (i : Nat) :
    i ∈ freezeGlobals rg pg ex od bs ↔ ∃ b ∈ bs, b.1 = i ∧ (rg = false ∨ listedIn (pg ++ ex) b.2 = true ∨ od.contains b.1 = true) := by
  unfold freezeGlobals
  simp only [List.mem_map, List.mem_filter, Bool.or_eq_true, Bool.not_eq_true']
  constructor
  · rintro ⟨b, ⟨hb, hc⟩, hi⟩
    refine ⟨b, hb, hi, ?_⟩
    rcases hc with (h | h) | h
    · exact Or.inl h
    · exact Or.inr (Or.inl h)
    · exact Or.inr (Or.inr h)
  · rintro ⟨b, hb, hi, hc⟩
    refine ⟨b, ⟨hb, ?_⟩, hi⟩
    rcases hc with h | h | h
    · exact Or.inl (Or.inl h)
    · exact Or.inl (Or.inr h)
    · exact Or.inr h

end PMV.Freeze

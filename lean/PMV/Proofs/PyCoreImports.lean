import PMV.Proofs.PyCore
/-
  C01 / C05 helper lemmas: `combine_imports` preserves the PyCore behaviour.  In the semantics an import
  statement is a sequence of import events (one per alias, in order), each binding one name; merging
  adjacent statements keeps the sequence (`flatten_combineImport`, `flatFrom_combineFrom`), so it keeps
  the behaviour.  What the model abstracts: what an import *does* beyond the event and the binding (running
  the imported module) — the order of the events is what a module's side effects depend on.
-/
namespace PMV.PyCore
open PMV PMV.Transforms

variable {o : Bool}

theorem exec1_import (ft : FTab) (n : Nat) (s : St) (names : List Alias) :
    exec1 ⟨ft, o⟩ n s (.import_ names) = .ok (.normal (importAll s names)) := by
  rw [exec1_flat _ _ _ _ rfl, flat_simple _ _ _ _ rfl rfl]; rfl

theorem exec1_importFrom (ft : FTab) (n : Nat) (s : St) (m : Option String) (names : List Alias) (l : Nat) :
    exec1 ⟨ft, o⟩ n s (.importFrom m names l) =
      if hasStar names then .stuck else .ok (.normal (importFromAll m l s names)) := by
  rw [exec1_flat _ _ _ _ rfl, flat_simple _ _ _ _ rfl rfl]; rfl

/-- the single-alias statements do what the one statement does -/
theorem execL_import_singles (ft : FTab) (n : Nat) (tail : List Stmt) : ∀ (names : List Alias) (s : St),
    execL ⟨ft, o⟩ n s (names.map (fun a => Stmt.import_ [a]) ++ tail) = execL ⟨ft, o⟩ n (importAll s names) tail
  | [], s => rfl
  | a :: rest, s => by
    simp only [List.map_cons, List.cons_append]
    rw [execL_cons, exec1_import]
    simp only
    rw [execL_import_singles ft n tail rest]
    rfl

theorem execL_stuck_cons (ft : FTab) (n : Nat) (s : St) (st : Stmt) (rest : List Stmt)
    (h : exec1 ⟨ft, o⟩ n s st = .stuck) : execL ⟨ft, o⟩ n s (st :: rest) = .stuck := by
  rw [execL_cons, h]

theorem hasStar_cons (a : Alias) (rest : List Alias) : hasStar (a :: rest) = (a.name == "*" || hasStar rest) := by
  simp [hasStar]

theorem execL_from_singles (ft : FTab) (n : Nat) (m : Option String) (l : Nat) (tail : List Stmt) :
    ∀ (names : List Alias) (s : St),
    execL ⟨ft, o⟩ n s (names.map (fun a => Stmt.importFrom m [a] l) ++ tail) =
      if hasStar names then .stuck else execL ⟨ft, o⟩ n (importFromAll m l s names) tail
  | [], s => by simp [hasStar, importFromAll]
  | a :: rest, s => by
    simp only [List.map_cons, List.cons_append]
    rw [execL_cons, exec1_importFrom]
    by_cases ha : (a.name == "*") = true
    · have h1 : hasStar [a] = true := by simp [hasStar, ha]
      have h2 : hasStar (a :: rest) = true := by rw [hasStar_cons, ha]; rfl
      simp only [h1, h2, if_true]
    · have ha' : (a.name == "*") = false := by simpa using ha
      have h1 : hasStar [a] = false := by simp [hasStar, ha']
      have h2 : hasStar (a :: rest) = hasStar rest := by rw [hasStar_cons, ha']; rfl
      simp only [h1, h2, Bool.false_eq_true, if_false]
      rw [execL_from_singles ft n m l tail rest]
      rfl

/-- one statement as the list of its single-alias statements -/
def flatI : Stmt → List Stmt
  | .import_ names => names.map (fun a => Stmt.import_ [a])
  | s => [s]

def flatF (s : Stmt) : List Stmt :=
  match asImportFrom s with
  | some (m, a, l) => a.map (fun x => Stmt.importFrom m [x] l)
  | none => [s]

theorem flattenImports_eq : ∀ b : List Stmt, flattenImports b = b.flatMap flatI
  | [] => rfl
  | s :: rest => by
    cases s <;> simp [flattenImports, flatI, flattenImports_eq rest]

theorem flatFrom_eq : ∀ b : List Stmt, flatFrom b = b.flatMap flatF
  | [] => rfl
  | s :: rest => by
    simp only [flatFrom, flatF, List.flatMap_cons, flatFrom_eq rest]
    cases asImportFrom s <;> rfl

theorem execL_flatMap (f : Stmt → List Stmt) (ft : FTab) (n : Nat)
    (hf : ∀ s st tail, execL ⟨ft, o⟩ n s (f st ++ tail) = execL ⟨ft, o⟩ n s (st :: tail)) :
    ∀ (b : List Stmt) (s : St), execL ⟨ft, o⟩ n s (b.flatMap f) = execL ⟨ft, o⟩ n s b
  | [], _ => rfl
  | st :: rest, s => by
    simp only [List.flatMap_cons]
    rw [hf, execL_cons, execL_cons]
    cases exec1 ⟨ft, o⟩ n s st with
    | ok fl => cases fl <;> simp only [execL_flatMap f ft n hf rest]
    | raised => rfl
    | stuck => rfl
    | timeout => rfl

theorem flatI_exec (ft : FTab) (n : Nat) (s : St) (st : Stmt) (tail : List Stmt) :
    execL ⟨ft, o⟩ n s (flatI st ++ tail) = execL ⟨ft, o⟩ n s (st :: tail) := by
  cases st
  case import_ names =>
    simp only [flatI]
    rw [execL_import_singles, execL_cons, exec1_import]
  all_goals rfl

theorem flatF_exec (ft : FTab) (n : Nat) (s : St) (st : Stmt) (tail : List Stmt) :
    execL ⟨ft, o⟩ n s (flatF st ++ tail) = execL ⟨ft, o⟩ n s (st :: tail) := by
  cases st
  case importFrom m names l =>
    simp only [flatF, asImportFrom]
    rw [execL_from_singles, execL_cons, exec1_importFrom]
    by_cases h : hasStar names = true <;> simp [h]
  all_goals rfl

theorem execL_flattenImports (ft : FTab) (n : Nat) (s : St) (b : List Stmt) :
    execL ⟨ft, o⟩ n s (flattenImports b) = execL ⟨ft, o⟩ n s b := by
  rw [flattenImports_eq]; exact execL_flatMap flatI ft n (flatI_exec ft n) b s

theorem execL_flatFrom (ft : FTab) (n : Nat) (s : St) (b : List Stmt) :
    execL ⟨ft, o⟩ n s (flatFrom b) = execL ⟨ft, o⟩ n s b := by
  rw [flatFrom_eq]; exact execL_flatMap flatF ft n (flatF_exec ft n) b s

/-- merging adjacent `import` statements keeps the behaviour of the suite -/
theorem execL_combineImport (ft : FTab) (n : Nat) (s : St) (b : List Stmt) :
    execL ⟨ft, o⟩ n s (combineImport b) = execL ⟨ft, o⟩ n s b := by
  rw [← execL_flattenImports ft n s (combineImport b), flatten_combineImport, execL_flattenImports]

/-- merging adjacent `from m import …` statements of one module keeps the behaviour of the suite -/
theorem execL_combineFrom (ft : FTab) (n : Nat) (s : St) (b : List Stmt) :
    execL ⟨ft, o⟩ n s (combineFrom b) = execL ⟨ft, o⟩ n s b := by
  rw [← execL_flatFrom ft n s (combineFrom b), flatFrom_combineFrom, execL_flatFrom]

/-! the function table and the `global` declarations do not see import statements -/

theorem declaredGlobals_append : ∀ a b : List Stmt, declaredGlobals (a ++ b) = declaredGlobals a ++ declaredGlobals b
  | [], _ => rfl
  | st :: rest, b => by simp [declaredGlobals, declaredGlobals_append rest b]

theorem collect_append : ∀ a b : List Stmt, collect (a ++ b) = collect a ++ collect b
  | [], _ => rfl
  | st :: rest, b => by
    simp only [List.cons_append, collect]
    cases defOf st <;> simp [collect_append rest b]

theorem declaredGlobals_flatMap (f : Stmt → List Stmt) (hf : ∀ st, declaredGlobals (f st) = globalsOf st) :
    ∀ b : List Stmt, declaredGlobals (b.flatMap f) = declaredGlobals b
  | [] => rfl
  | st :: rest => by
    simp only [List.flatMap_cons, declaredGlobals_append, hf, declaredGlobals, declaredGlobals_flatMap f hf rest]

theorem collect_flatMap (f : Stmt → List Stmt) (hf : ∀ st, collect (f st) = collect [st]) :
    ∀ b : List Stmt, collect (b.flatMap f) = collect b
  | [] => rfl
  | st :: rest => by
    simp only [List.flatMap_cons, collect_append, hf, collect_flatMap f hf rest]
    simp only [collect]
    cases defOf st <;> rfl

theorem declaredGlobals_noGlobal : ∀ l : List Stmt, (∀ st ∈ l, globalsOf st = []) → declaredGlobals l = []
  | [], _ => rfl
  | st :: rest, h => by
    simp only [declaredGlobals, h st (by simp), List.nil_append]
    exact declaredGlobals_noGlobal rest (fun x hx => h x (by simp [hx]))

theorem collect_noDef : ∀ l : List Stmt, (∀ st ∈ l, defOf st = none) → collect l = []
  | [], _ => rfl
  | st :: rest, h => by
    simp only [collect, h st (by simp)]
    exact collect_noDef rest (fun x hx => h x (by simp [hx]))

theorem flatI_globals (st : Stmt) : declaredGlobals (flatI st) = globalsOf st := by
  cases st
  case import_ names =>
    simp only [flatI]
    exact declaredGlobals_noGlobal _ (by intro st h; simp only [List.mem_map] at h; obtain ⟨a, _, rfl⟩ := h; rfl)
  all_goals simp [flatI, declaredGlobals]

theorem flatF_globals (st : Stmt) : declaredGlobals (flatF st) = globalsOf st := by
  cases st
  case importFrom m names l =>
    simp only [flatF, asImportFrom]
    exact declaredGlobals_noGlobal _ (by intro st h; simp only [List.mem_map] at h; obtain ⟨a, _, rfl⟩ := h; rfl)
  all_goals simp [flatF, asImportFrom, declaredGlobals]

theorem flatI_collect (st : Stmt) : collect (flatI st) = collect [st] := by
  cases st
  case import_ names =>
    simp only [flatI]
    rw [collect_noDef _ (by intro st h; simp only [List.mem_map] at h; obtain ⟨a, _, rfl⟩ := h; rfl)]
    rfl
  all_goals rfl

theorem flatF_collect (st : Stmt) : collect (flatF st) = collect [st] := by
  cases st
  case importFrom m names l =>
    simp only [flatF, asImportFrom]
    rw [collect_noDef _ (by intro st h; simp only [List.mem_map] at h; obtain ⟨a, _, rfl⟩ := h; rfl)]
    rfl
  all_goals rfl

theorem globals_combine (b : List Stmt) : declaredGlobals (combineFrom (combineImport b)) = declaredGlobals b := by
  have h1 : ∀ x, declaredGlobals (flatFrom x) = declaredGlobals x := fun x => by
    rw [flatFrom_eq]; exact declaredGlobals_flatMap flatF flatF_globals x
  have h2 : ∀ x, declaredGlobals (flattenImports x) = declaredGlobals x := fun x => by
    rw [flattenImports_eq]; exact declaredGlobals_flatMap flatI flatI_globals x
  rw [← h1 (combineFrom _), flatFrom_combineFrom, h1, ← h2 (combineImport _), flatten_combineImport, h2]

theorem collect_combine (b : List Stmt) : collect (combineFrom (combineImport b)) = collect b := by
  have h1 : ∀ x, collect (flatFrom x) = collect x := fun x => by
    rw [flatFrom_eq]; exact collect_flatMap flatF flatF_collect x
  have h2 : ∀ x, collect (flattenImports x) = collect x := fun x => by
    rw [flattenImports_eq]; exact collect_flatMap flatI flatI_collect x
  rw [← h1 (combineFrom _), flatFrom_combineFrom, h1, ← h2 (combineImport _), flatten_combineImport, h2]

theorem combineImports_sound : Sound o combineImports where
  suite := fun ft fuel s _ b => by
    show execL ⟨ft, o⟩ fuel s (combineFrom (combineImport b)) = _
    rw [execL_combineFrom, execL_combineImport]
  stmt := fun _ _ _ _ => rfl
  body := fun _ _ _ _ => rfl
  globals := by
    intro b
    show declaredGlobals (combineFrom (combineImport (travBody combineImports b))) = _
    rw [globals_combine, globals_trav combineImports (fun _ => rfl)]

theorem combineImports_table : TableSound combineImports where
  stmtDef := fun _ => rfl
  suiteDef := fun b => collect_combine b

end PMV.PyCore

import PMV.Proofs.ResolveRename
/-
  Why the `cover` hypothesis of T03.4 / T03.6 holds for what `renamer.reservation_scope` computes: it adds every namespace on the
  parent chain from a reference up to the binding's home, and Python's lookup path is a strictly descending part of that chain.
-/
namespace PMV.Resolve
open PMV.Rename

/-- `a` is `n` or one of the namespaces that enclose it -/
inductive Anc (t : Tree) : Nat → Nat → Prop
  | refl (n : Nat) : Anc t n n
  | step {a n : Nat} : n ≠ 0 → Anc t a (info t n).parent → Anc t a n

theorem Anc.trans {t : Tree} {a b n : Nat} (h1 : Anc t a b) (h2 : Anc t b n) : Anc t a n := by
  induction h2 with
  | refl => exact h1
  | step hn _ ih => exact .step hn ih

theorem anc_root (t : Tree) (h : WFTree t) : ∀ n, Anc t 0 n := by
  intro n
  induction n using Nat.strongRecOn with
  | _ n ih =>
    by_cases hz : n = 0
    · subst hz; exact .refl 0
    · exact .step hz (ih _ (h.parentBefore n hz))

theorem kind_ne_zero (t : Tree) (h : WFTree t) (n : Nat) (hk : (info t n).kind ≠ .module) : n ≠ 0 := by
  intro hz; subst hz; exact hk h.root.1

theorem nonlocalNs_anc (t : Tree) (h : WFTree t) : ∀ (fuel n : Nat), n ≠ 0 → Anc t (nonlocalNs t fuel n) n := by
  intro fuel
  induction fuel with
  | zero => intro n hn; exact .step hn (.refl _)
  | succ f ih =>
    intro n hn
    simp only [nonlocalNs]
    split
    · rename_i hc
      have hp : (info t n).parent ≠ 0 := kind_ne_zero t h _ (by
        intro hm; rw [hm] at hc; cases hc)
      exact .step hn (ih _ hp)
    · exact .step hn (.refl _)

theorem nonlocalNs_lt (t : Tree) (h : WFTree t) (fuel n : Nat) (hn : n ≠ 0) : nonlocalNs t fuel n < n := by
  cases fuel with
  | zero => exact h.parentBefore n hn
  | succ f =>
    simp only [nonlocalNs]
    split
    · exact Nat.lt_of_le_of_lt (nonlocalNs_le t h f _) (h.parentBefore n hn)
    · exact h.parentBefore n hn

/-- every scope on the lookup path of a use in `n` is `n` or encloses it -/
theorem lookupPath_anc (t : Tree) (h : WFTree t) (x : String) : ∀ (fuel n : Nat), ∀ a ∈ lookupPath t x fuel n, Anc t a n := by
  intro fuel
  induction fuel with
  | zero => intro n a ha; simp [lookupPath] at ha
  | succ f ih =>
    intro n a ha
    simp only [lookupPath] at ha
    split at ha
    · simp at ha; rw [ha]; exact .refl n
    · rename_i hk
      have hn : n ≠ 0 := kind_ne_zero t h n (by intro hm; rw [hm] at hk; exact hk rfl)
      split at ha
      · exact (ih 0 a ha).trans (anc_root t h n)
      · split at ha
        · exact (ih _ a ha).trans (nonlocalNs_anc t h _ n hn)
        · rcases List.mem_cons.mp ha with rfl | ha'
          · exact .refl _
          · exact (ih _ a ha').trans (nonlocalNs_anc t h _ n hn)

/-- the lookup path descends strictly (namespaces are numbered parents first) and never leaves `n`'s ancestors -/
theorem lookupPath_desc (t : Tree) (h : WFTree t) (x : String) : ∀ (fuel n : Nat),
    (lookupPath t x fuel n).Pairwise (· > ·) ∧ ∀ a ∈ lookupPath t x fuel n, a ≤ n := by
  intro fuel
  induction fuel with
  | zero => intro n; simp [lookupPath]
  | succ f ih =>
    intro n
    simp only [lookupPath]
    split
    · simp
    · rename_i hk
      have hn : n ≠ 0 := kind_ne_zero t h n (by intro hm; rw [hm] at hk; exact hk rfl)
      split
      · exact ⟨(ih 0).1, fun a ha => Nat.le_trans ((ih 0).2 a ha) (Nat.zero_le n)⟩
      · have hlt := nonlocalNs_lt t h t.length n hn
        split
        · exact ⟨(ih _).1, fun a ha => Nat.le_trans ((ih _).2 a ha) (Nat.le_of_lt hlt)⟩
        · refine ⟨List.pairwise_cons.mpr ⟨fun a ha => Nat.lt_of_le_of_lt ((ih _).2 a ha) hlt, (ih _).1⟩, ?_⟩
          intro a ha
          rcases List.mem_cons.mp ha with rfl | ha'
          · exact Nat.le_refl _
          · exact Nat.le_trans ((ih _).2 a ha') (Nat.le_of_lt hlt)

theorem takeWhile_gt_of_find {p : Nat → Bool} : ∀ (l : List Nat) (home : Nat), l.Pairwise (· > ·) → l.find? p = some home →
    ∀ a ∈ l.takeWhile (fun a => !p a), a > home
  | [], _, _, hf, _, _ => by simp at hf
  | y :: ys, home, hp, hf, a, ha => by
    cases hy : p y with
    | true => simp [List.takeWhile, hy] at ha
    | false =>
      simp only [List.find?, hy] at hf
      simp only [List.takeWhile, hy, Bool.not_false, List.mem_cons] at ha
      obtain ⟨hhead, htail⟩ := List.pairwise_cons.mp hp
      rcases ha with rfl | ha
      · exact hhead home (List.mem_of_find?_eq_some hf)
      · exact takeWhile_gt_of_find ys home htail hf a ha

/-- T03.7: what `reservation_scope` adds for a reference — every namespace on the parent chain from the reference's namespace
    up to the binding's home — covers the lookup path below the home: the hypothesis `cover` of T03.4 / T03.6. -/
theorem cover_of_parent_chain (t t' : Tree) (hw : WFTree t) (rs : List Result) (x y : String) (h : RenamedFor t t' rs x y)
    (scope : List Ns) (fuel n home : Nat)
    (horig : getBinding t x fuel n = some home)
    (chain : ∀ a, Anc t a n → home < a → a ∈ scope) :
    ∀ a ∈ (lookupPath t x fuel n).takeWhile (fun a => !bindsOrig rs a x), a ∈ scope := by
  intro a ha
  have hpred : (fun a => !bindsOrig rs a x) = (fun a => !(info t a).bindings.contains x) := by
    funext a; rw [h.bindsBefore a]
  rw [hpred] at ha
  rw [getBinding_spec] at horig
  have hgt := takeWhile_gt_of_find (p := fun a => (info t a).bindings.contains x) _ home (lookupPath_desc t hw x fuel n).1 horig a ha
  exact chain a (lookupPath_anc t hw x fuel n a ((List.takeWhile_sublist _).subset ha)) hgt

/-- T03.6 with `cover` discharged by T03.7 -/
theorem lookup_after_renaming_of_chains (t t' : Tree) (hw : WFTree t) (rs : List Result) (r : Result) (x y : String) (fuel n : Nat)
    (h : RenamedFor t t' rs x y)
    (hr : r ∈ rs) (hname : r.b.name = some x) (hfin : r.final = some y)
    (horig : getBinding t x fuel n = some r.b.home)
    (chain : ∀ a, Anc t a n → r.b.home < a → a ∈ r.b.scope)
    (clash : ∀ r' ∈ rs, r'.b.home ≠ r.b.home → (r.renamed = true ∨ r'.renamed = true) → (∃ ns, ns ∈ r.b.scope ∧ ns ∈ r'.b.scope) → r'.final ≠ r.final)
    (kept : ∀ r' ∈ rs, r'.renamed = false → r'.final = r'.b.name)
    (homeIn : ∀ r' ∈ rs, r'.b.home ∈ r'.b.scope) :
    getBinding t' y fuel n = getBinding t x fuel n :=
  lookup_after_renaming t t' rs r x y fuel n h hr hname hfin horig
    (cover_of_parent_chain t t' hw rs x y h r.b.scope fuel n r.b.home horig chain) clash kept homeIn

/-! the concrete instance again, now through the chain hypothesis -/

theorem exWF : WFTree exT where
  root := by decide
  parentBefore := by
    intro n hn
    rcases n with _ | _ | n
    · exact absurd rfl hn
    · decide
    · rw [info_ge exT (n + 2) (by simp [exT])]
      exact Nat.succ_pos _

theorem exChain : ∀ a, Anc exT a 1 → exGv.home < a → a ∈ exGv.scope := by
  intro a ha hlt
  cases ha with
  | refl => decide
  | step _ h1 =>
    have hp : (info exT 1).parent = 0 := by decide
    rw [hp] at h1
    cases h1 with
    | refl => exact absurd hlt (by decide)
    | step h0 _ => exact absurd rfl h0

theorem exAppliesChains : getBinding exT' "A" 4 1 = getBinding exT "value" 4 1 :=
  lookup_after_renaming_of_chains exT exT' exWF exRs ⟨exGv, some "A", true, false⟩ "value" "A" 4 1 exRenamed
    List.mem_cons_self rfl rfl (by decide) exChain (by decide) (by decide) (by decide)

end PMV.Resolve

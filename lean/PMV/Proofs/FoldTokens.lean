import PMV.Model.Fold
/-
  T12.3: the text `FoldConstants` hands to `eval` is made of number literals, True/False/None,
  operators and parentheses only — no identifier, attribute, call, string or import can occur.
-/
namespace PMV.Fold
open PMV PMV.Printer PMV.Token

/-- characters of a number literal as the printer spells it (digits, hex digits, `.`, exponent, `j`,
    `x`, signs and parentheses of a complex repr) — in particular no `i`, `n`: never `inf` / `nan`. -/
def numChar (c : Char) : Bool :=
  c.isDigit || c == '.' || c == 'e' || c == 'j' || c == 'x' || c == '+' || c == '-' || c == '(' || c == ')'
  || c == 'a' || c == 'b' || c == 'c' || c == 'd' || c == 'f'

def numericText (s : String) : Bool := s.toList.all numChar

/-- closed literal arithmetic (possibly already parenthesised) whose number texts are numeric -/
def ClosedLit : Expr → Bool
  | .constant .none => true
  | .constant .true_ => true
  | .constant .false_ => true
  | .constant (.int n) => numericText (intText n)
  | .constant (.float r) => numericText (floatText r)
  | .constant (.complex r) => numericText (imagText r)
  | .binOp l _ r => ClosedLit l && ClosedLit r
  | .unaryOp .uSub v => ClosedLit v
  | .paren e => ClosedLit e
  | _ => false

def closedTok : Tok → Bool
  | .num s => numericText s
  | .op _ => true
  | .kw k => k == "None" || k == "True" || k == "False"
  | .delim d => d == "(" || d == ")"
  | _ => false

theorem closedLit_wrapIf (b : Bool) (e : Expr) : ClosedLit (wrapIf b e) = ClosedLit e := by
  cases b <;> simp [wrapIf, ClosedLit]

theorem closedLit_slotPrec (b : Bool) (o e : Expr) : ClosedLit (slotPrec b o e) = ClosedLit e := by
  simp [slotPrec, slotExpr, closedLit_wrapIf]

theorem paren_closed (t : PrecTable) : (e : Expr) → ClosedLit e = true → ClosedLit (paren t e) = true
  | .constant c, h => by simpa [paren] using h
  | .binOp l op r, h => by
    simp only [ClosedLit, Bool.and_eq_true] at h
    simp only [paren, ClosedLit, closedLit_slotPrec, Bool.and_eq_true]
    exact ⟨paren_closed t l h.1, paren_closed t r h.2⟩
  | .unaryOp .uSub v, h => by
    simp only [ClosedLit] at h
    simp only [paren, ClosedLit, closedLit_slotPrec]
    exact paren_closed t v h
  | .unaryOp .uAdd v, h => by simp [ClosedLit] at h
  | .unaryOp .not_ v, h => by simp [ClosedLit] at h
  | .unaryOp .invert v, h => by simp [ClosedLit] at h
  | .paren e, h => by
    simp only [ClosedLit] at h
    simp only [paren, ClosedLit]
    exact paren_closed t e h
  | .boolOp .., h => by simp [ClosedLit] at h
  | .namedExpr .., h => by simp [ClosedLit] at h
  | .lambda .., h => by simp [ClosedLit] at h
  | .ifExp .., h => by simp [ClosedLit] at h
  | .dict .., h => by simp [ClosedLit] at h
  | .set .., h => by simp [ClosedLit] at h
  | .listComp .., h => by simp [ClosedLit] at h
  | .setComp .., h => by simp [ClosedLit] at h
  | .dictComp .., h => by simp [ClosedLit] at h
  | .generatorExp .., h => by simp [ClosedLit] at h
  | .await .., h => by simp [ClosedLit] at h
  | .yield .., h => by simp [ClosedLit] at h
  | .yieldFrom .., h => by simp [ClosedLit] at h
  | .compare .., h => by simp [ClosedLit] at h
  | .call .., h => by simp [ClosedLit] at h
  | .joinedStr .., h => by simp [ClosedLit] at h
  | .attribute .., h => by simp [ClosedLit] at h
  | .subscript .., h => by simp [ClosedLit] at h
  | .starred .., h => by simp [ClosedLit] at h
  | .name .., h => by simp [ClosedLit] at h
  | .list .., h => by simp [ClosedLit] at h
  | .tuple .., h => by simp [ClosedLit] at h
  | .slice .., h => by simp [ClosedLit] at h

theorem binOpTok_closed (op : BinOpK) : closedTok (binOpTok op) = true := by cases op <;> rfl

theorem flat_closed : (e : Expr) → ClosedLit e = true → (flat e).all closedTok = true
  | .constant c, h => by
    cases c <;> simp_all [ClosedLit, flat, constToks, closedTok]
  | .binOp l op r, h => by
    simp only [ClosedLit, Bool.and_eq_true] at h
    simp only [flat, List.all_append, List.all_cons, Bool.and_eq_true]
    exact ⟨flat_closed l h.1, binOpTok_closed op, flat_closed r h.2⟩
  | .unaryOp .uSub v, h => by
    simp only [ClosedLit] at h
    simp only [flat, unaryOpTok, List.all_cons, closedTok, Bool.true_and]
    exact flat_closed v h
  | .unaryOp .uAdd v, h => by simp [ClosedLit] at h
  | .unaryOp .not_ v, h => by simp [ClosedLit] at h
  | .unaryOp .invert v, h => by simp [ClosedLit] at h
  | .paren e, h => by
    simp only [ClosedLit] at h
    have ih := flat_closed e h
    simp [flat, closedTok, ih]
  | .boolOp .., h => by simp [ClosedLit] at h
  | .namedExpr .., h => by simp [ClosedLit] at h
  | .lambda .., h => by simp [ClosedLit] at h
  | .ifExp .., h => by simp [ClosedLit] at h
  | .dict .., h => by simp [ClosedLit] at h
  | .set .., h => by simp [ClosedLit] at h
  | .listComp .., h => by simp [ClosedLit] at h
  | .setComp .., h => by simp [ClosedLit] at h
  | .dictComp .., h => by simp [ClosedLit] at h
  | .generatorExp .., h => by simp [ClosedLit] at h
  | .await .., h => by simp [ClosedLit] at h
  | .yield .., h => by simp [ClosedLit] at h
  | .yieldFrom .., h => by simp [ClosedLit] at h
  | .compare .., h => by simp [ClosedLit] at h
  | .call .., h => by simp [ClosedLit] at h
  | .joinedStr .., h => by simp [ClosedLit] at h
  | .attribute .., h => by simp [ClosedLit] at h
  | .subscript .., h => by simp [ClosedLit] at h
  | .starred .., h => by simp [ClosedLit] at h
  | .name .., h => by simp [ClosedLit] at h
  | .list .., h => by simp [ClosedLit] at h
  | .tuple .., h => by simp [ClosedLit] at h
  | .slice .., h => by simp [ClosedLit] at h

end PMV.Fold

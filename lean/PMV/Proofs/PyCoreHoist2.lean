import PMV.Proofs.PyCoreHoist
import PMV.Proofs.PyCoreImports
/-
  T01.14, static part: from the checkable condition `hoistOK` to the callee claim (the inserted assignments at the
  start of a hoisted body establish the relation) and to the whole-module theorem.
-/
namespace PMV.PyCore
open PMV PMV.RenameAst PMV.HoistAst

variable {o : Bool}

/-! ### constants and the names that hold them -/

theorem cfind_mem : ∀ (g : CMap) (c : Const) (a : String), cfind g c = some a → ∃ k, (k, a) ∈ g ∧ sameConst k c = true
  | [], _, _, h => by simp [cfind] at h
  | (k, b) :: rest, c, a, h => by
    simp only [cfind] at h
    by_cases hs : sameConst k c = true
    · simp only [hs, if_true, Option.some.injEq] at h
      subst h
      exact ⟨k, by simp, hs⟩
    · simp only [hs, Bool.false_eq_true, if_false] at h
      obtain ⟨k', hm, hk⟩ := cfind_mem rest c a h
      exact ⟨k', by simp [hm], hk⟩

theorem sameConst_val (k c : Const) (h : sameConst k c = true) : constVal k = constVal c := by
  cases k <;> cases c <;> simp [sameConst] at h <;> simp [constVal]
  subst h; rfl

theorem gvals_mem : ∀ (g : CMap) (k : Const) (a : String) (v : Val), (k, a) ∈ g → constVal k = some v → (a, v) ∈ gvals g
  | [], _, _, _, h, _ => by simp at h
  | (k', b) :: rest, k, a, v, h, hv => by
    simp only [List.mem_cons, Prod.mk.injEq] at h
    simp only [gvals]
    rcases h with ⟨rfl, rfl⟩ | h
    · simp [hv]
    · exact List.mem_append_right _ (gvals_mem rest k a v h hv)

theorem gvals_names : ∀ (g : CMap) (a : String) (v : Val), (a, v) ∈ gvals g → a ∈ gnames g
  | [], _, _, h => by simp [gvals] at h
  | (k, b) :: rest, a, v, h => by
    simp only [gvals, List.mem_append] at h
    simp only [gnames, List.map_cons, List.mem_cons]
    rcases h with h | h
    · cases hk : constVal k with
      | none => simp [hk] at h
      | some w => simp [hk] at h; exact Or.inl h.1
    · exact Or.inr (gvals_names rest a v h)

theorem cons_of (gl gm : CMap) (GL : List (String × Val)) (hvals : ∀ p, p ∈ gl ++ gm → (constVal p.1).isSome = true)
    (hGL : ∀ k a v, (k, a) ∈ gl → constVal k = some v → (a, v) ∈ GL) : Cons (gl ++ gm) (gvals gm) GL := by
  intro c a hf
  obtain ⟨k, hm, hs⟩ := cfind_mem (gl ++ gm) c a hf
  have hv := hvals (k, a) hm
  cases hk : constVal k with
  | none => simp [hk] at hv
  | some v =>
    refine ⟨v, by rw [← sameConst_val k c hs]; exact hk, ?_⟩
    rcases List.mem_append.mp hm with h1 | h1
    · exact Or.inr (hGL k a v h1 hk)
    · exact Or.inl (gvals_mem gm k a v h1 hk)

/-! ### the start of a hoisted body -/

theorem exec1_ghost (ft : FTab) (k : Nat) (s : St) (c : Const) (a : String) (v : Val) (hv : constVal c = some v) :
    exec1 ⟨ft, o⟩ k s (ghostStmt c a) = .ok (.normal (s.assign a v)) := by
  unfold ghostStmt
  rw [exec1_flat _ _ _ _ rfl, flat_simple _ _ _ _ rfl rfl]
  simp only [simpleExec, assignTarget, evalThen, constVal_eval s c v hv]

variable {P : String → Bool} {GA : List String} {GG GL : List (String × Val)}

/-- the hoisted run assigns a function-level constant -/
theorem RelH.ghostLocal {s s' : St} (h : RelH P GA GG GL s s') (a : String) (v : Val) (hloc : s'.isLocal a = true)
    (hP : P a = false) (hnew : ∀ b w, (b, w) ∈ GL → b ≠ a) : RelH P GA GG ((a, v) :: GL) s (s'.assign a v) := by
  have hne : ∀ y, P y = true → (y == a) = false := by
    intro y hy
    apply Bool.eq_false_iff.mpr
    intro hc
    have : y = a := by simpa using hc
    subst this
    rw [hP] at hy; exact absurd hy (by simp)
  refine ⟨?_, ?_, ?_, ?_, ?_, ?_, ?_, ?_, h.ggA, h.freshA, ?_⟩
  · rw [out_assign]; exact h.out
  · rw [imports_assign]; exact h.imports
  · rw [isSome_assign]; exact h.mode
  · intro y hy; rw [globals_assign_local s' a v hloc]; exact h.gget y hy
  · intro y hy; rw [isLocal_assign]; exact h.isLocal y hy
  · intro y hy hly
    rw [locals_assign_local s' a v hloc]
    have hg := h.lget y hy hly
    cases hs' : s'.locals with
    | none => unfold St.isLocal at hloc; simp [hs'] at hloc
    | some l' =>
      rw [hs'] at hg
      simp only [Option.map_some, Option.bind_some] at hg ⊢
      rw [Env.get_set]
      simp only [hne y hy, Bool.false_eq_true, if_false]; exact hg
  · intro b w hm
    obtain ⟨h1, h2⟩ := h.gghost b w hm
    exact ⟨by rw [isLocal_assign]; exact h1, by rw [globals_assign_local s' a v hloc]; exact h2⟩
  · intro b w hm
    simp only [List.mem_cons, Prod.mk.injEq] at hm
    rw [isLocal_assign, locals_assign_local s' a v hloc]
    cases hs' : s'.locals with
    | none => unfold St.isLocal at hloc; simp [hs'] at hloc
    | some l' =>
      simp only [Option.map_some, Option.bind_some]
      rw [Env.get_set]
      rcases hm with ⟨rfl, rfl⟩ | hm
      · exact ⟨hloc, by simp⟩
      · obtain ⟨h1, h2⟩ := h.lghost b w hm
        have hba : (b == a) = false := by
          apply Bool.eq_false_iff.mpr
          intro hc
          exact hnew b w hm (by simpa using hc)
        rw [hs'] at h2
        simp only [Option.bind_some] at h2
        simp only [hba, Bool.false_eq_true, if_false]
        exact ⟨h1, h2⟩
  · intro b w hm
    simp only [List.mem_cons, Prod.mk.injEq] at hm
    rcases hm with ⟨rfl, rfl⟩ | hm
    · exact hP
    · exact h.freshL b w hm

/-- what a copy between two names does -/
theorem exec1_copy (ft : FTab) (k : Nat) (s : St) (x p : String) (c1 c2 : Ctx) :
    exec1 ⟨ft, o⟩ k s (.assign [.name x c1] (.name p c2)) =
      (match evalE s (.name p c2) with
       | some (.ok v) => .ok (.normal (s.assign x v))
       | some (.error e) => .raised e s
       | none => .stuck) := by
  rw [exec1_flat _ _ _ _ rfl, flat_simple _ _ _ _ rfl rfl]
  simp only [simpleExec, assignTarget, evalThen]
  cases evalE s (.name p c2) with
  | none => rfl
  | some r => cases r <;> rfl

theorem evalE_name_h {s s' : St} (h : RelH P GA GG GL s s') (p : String) (c : Ctx) (hp : P p = true) :
    evalE s' (.name p c) = evalE s (.name p c) := by
  simp only [evalE, h.lookup p hp, h.unbound p hp]

theorem execL_cons_rel2 {R1 R2 : St → St → Prop} (hsub : ∀ s s', R1 s s' → R2 s s') (ft ft' : FTab) (n : Nat) (s s' : St)
    (st st' : Stmt) (rest rest' : List Stmt)
    (h1 : ResRel R1 (exec1 ⟨ft, o⟩ n s st) (exec1 ⟨ft', o⟩ n s' st'))
    (h2 : ∀ s1 s1', R1 s1 s1' → ResRel R2 (execL ⟨ft, o⟩ n s1 rest) (execL ⟨ft', o⟩ n s1' rest')) :
    ResRel R2 (execL ⟨ft, o⟩ n s (st :: rest)) (execL ⟨ft', o⟩ n s' (st' :: rest')) := by
  rw [execL_cons, execL_cons]
  revert h1
  generalize exec1 ⟨ft, o⟩ n s st = r
  generalize exec1 ⟨ft', o⟩ n s' st' = r'
  intro h1
  cases r with
  | ok fl =>
    cases r' with
    | ok fl' =>
      cases fl with
      | normal s1 => cases fl' <;> first | exact h2 _ _ h1 | exact h1.elim
      | returned v s1 => cases fl' <;> first | exact ⟨h1.1, hsub _ _ h1.2⟩ | exact h1.elim
      | broke s1 => cases fl' <;> first | exact hsub _ _ h1 | exact h1.elim
      | continued s1 => cases fl' <;> first | exact hsub _ _ h1 | exact h1.elim
    | _ => exact h1.elim
  | raised x s1 =>
    cases r' with
    | raised x' s1' => exact ⟨h1.1, hsub _ _ h1.2⟩
    | _ => exact h1.elim
  | stuck => cases r' <;> first | exact h1 | exact h1.elim
  | timeout => cases r' <;> first | exact h1 | exact h1.elim

theorem okHL_tail (g : CMap) (st : Stmt) (rest : List Stmt) (h : okHL g P (st :: rest) = true) :
    (namesS st).all P = true ∧ okHL g P rest = true := by
  simp only [okHL, namesL, List.all_append, Bool.and_eq_true] at h ⊢
  exact h

/-- the woven start: the hoisted run assigns the constants, both runs execute the copies in between, then the rest -/
theorem weave_exec (ft ft' : FTab) (k : Nat) (g : CMap) (hs : StatH P)
    (hrest : ∀ (GLd : List (String × Val)) (s s' : St) (l : List Stmt), RelH P GA GG GLd s s' → Cons g GG GLd → okHL g P l = true →
      ResRel (RelH P GA GG GLd) (execL ⟨ft, o⟩ k s l) (execL ⟨ft', o⟩ k s' (l.map (hoistStmt g))))
    (gl : CMap) (hgl : ∀ p, p ∈ gl → (constVal p.1).isSome = true) (hcons : ∀ GLd, (∀ k' a v, (k', a) ∈ gl → constVal k' = some v → (a, v) ∈ GLd) → Cons g GG GLd) :
    ∀ (pro : List PEntry) (rest : List Stmt) (doneG : CMap) (GLd : List (String × Val)) (s s' : St),
      RelH P GA GG GLd s s' → keepsOK pro rest = true → okHL g P rest = true →
      (∀ p, p ∈ gl → p ∈ doneG ∨ p ∈ ghostsOf pro) → (∀ p, p ∈ ghostsOf pro → p ∈ gl) →
      (∀ k' a v, (k', a) ∈ doneG → constVal k' = some v → (a, v) ∈ GLd) →
      (∀ b w, (b, w) ∈ GLd → b ∈ gnames doneG) →
      (gnames (doneG ++ ghostsOf pro)).Nodup →
      (∀ a, a ∈ gnames (ghostsOf pro) → s'.isLocal a = true ∧ P a = false) →
      ResRel (RelOut GA GG) (execL ⟨ft, o⟩ k s rest) (execL ⟨ft', o⟩ k s' (weave (hoistStmt g) pro rest))
  | [], rest, doneG, GLd, s, s', h, _, hok, hsplit, _, hdone, _, _, _ => by
    simp only [weave]
    have hc : Cons g GG GLd := hcons GLd (fun k' a v hm hv => by
      rcases hsplit (k', a) hm with h1 | h1
      · exact hdone k' a v h1 hv
      · simp [ghostsOf] at h1)
    exact ResRel.mono (fun _ _ hr => hr.toOut) _ _ (hrest GLd s s' rest h hc hok)
  | .ghost c a :: pro, rest, doneG, GLd, s, s', h, hk, hok, hsplit, hsub, hdone, hnames, hnd, hloc => by
    simp only [weave]
    have hmem : (c, a) ∈ gl := hsub (c, a) (by simp [ghostsOf])
    have hv := hgl (c, a) hmem
    cases hcv : constVal c with
    | none => simp [hcv] at hv
    | some v =>
      rw [execL_cons, exec1_ghost ft' k s' c a v hcv]
      simp only
      have hla := hloc a (by simp [ghostsOf, gnames])
      have hfresh : ∀ b w, (b, w) ∈ GLd → b ≠ a := by
        intro b w hm hba
        subst hba
        have hb := hnames b w hm
        simp only [ghostsOf, gnames, List.map_append, List.map_cons] at hnd hb
        rw [List.nodup_append] at hnd
        exact hnd.2.2 b hb b (by simp) rfl
      have h' := h.ghostLocal a v hla.1 hla.2 hfresh
      refine weave_exec ft ft' k g hs hrest gl hgl hcons pro rest (doneG ++ [(c, a)]) ((a, v) :: GLd) s (s'.assign a v) h'
        (by simpa [keepsOK] using hk) hok ?_ ?_ ?_ ?_ ?_ ?_
      · intro p hp
        rcases hsplit p hp with h1 | h1
        · exact Or.inl (by simp [h1])
        · simp only [ghostsOf, List.mem_cons] at h1
          rcases h1 with rfl | h1
          · exact Or.inl (by simp)
          · exact Or.inr h1
      · intro p hp; exact hsub p (by simp [ghostsOf, hp])
      · intro k' b w hm hw
        simp only [List.mem_append, List.mem_singleton, Prod.mk.injEq] at hm
        rcases hm with hm | ⟨rfl, rfl⟩
        · exact List.mem_cons_of_mem _ (hdone k' b w hm hw)
        · rw [hcv] at hw; simp only [Option.some.injEq] at hw; subst hw; simp
      · intro b w hm
        simp only [List.mem_cons, Prod.mk.injEq] at hm
        simp only [gnames, List.map_append, List.map_cons, List.map_nil, List.mem_append, List.mem_singleton]
        rcases hm with ⟨rfl, _⟩ | hm
        · exact Or.inr rfl
        · exact Or.inl (hnames b w hm)
      · simpa [ghostsOf, gnames, List.append_assoc] using hnd
      · intro b hb
        rw [isLocal_assign]
        exact hloc b (by simp only [ghostsOf, gnames, List.map_cons, List.mem_cons]; exact Or.inr hb)
  | .keep :: pro, st :: rest, doneG, GLd, s, s', h, hk, hok, hsplit, hsub, hdone, hnames, hnd, hloc => by
    simp only [weave]
    simp only [keepsOK, Bool.and_eq_true] at hk
    obtain ⟨hn, hok'⟩ := okHL_tail g st rest hok
    have hcopy := hk.1
    unfold isCopyStmt at hcopy
    split at hcopy
    · rename_i x c1 p c2
      have hP : P x = true ∧ P p = true := by simpa [namesS, namesEs, namesE] using hn
      rw [execL_cons, execL_cons, exec1_copy, exec1_copy, evalE_name_h h p c2 hP.2]
      cases evalE s (.name p c2) with
      | none => trivial
      | some r =>
        cases r with
        | error e => exact ⟨rfl, h.toOut⟩
        | ok v =>
          simp only
          refine weave_exec ft ft' k g hs hrest gl hgl hcons pro rest doneG GLd (s.assign x v) (s'.assign x v)
            (h.assign x hP.1 v) hk.2 hok' ?_ ?_ hdone hnames ?_ ?_
          · intro q hq; simpa [ghostsOf] using hsplit q hq
          · intro q hq; exact hsub q (by simpa [ghostsOf] using hq)
          · simpa [ghostsOf] using hnd
          · intro a ha
            rw [isLocal_assign]
            exact hloc a (by simpa [ghostsOf] using ha)
    · simp at hcopy
  | .keep :: pro, [], doneG, GLd, s, s', h, hk, _, _, _, _, _, _, _ => by
    simp [keepsOK] at hk


theorem hoistBody_eq_map (g : CMap) : ∀ l : List Stmt, hoistBody g l = l.map (hoistStmt g)
  | [] => by simp [hoistBody]
  | st :: rest => by simp [hoistBody, hoistBody_eq_map g rest]

/-! ### what `fnHoistOK` says -/

structure FnHFacts (gm : CMap) (pro : List PEntry) (ps : List String) (b : List Stmt) (bound bound' : List String) : Prop where
  fresh : ∀ x, x ∈ fnNames ps b → x ∉ gnames (ghostsOf pro ++ gm)
  vals : ∀ p, p ∈ ghostsOf pro ++ gm → (constVal p.1).isSome = true
  nodup : (gnames (ghostsOf pro ++ gm)).Nodup
  keeps : keepsOK pro (b.dropWhile isDocStmt) = true
  locEq : ∀ x, x ∈ fnNames ps b →
    isLoc ps bound' (declaredGlobals (hoistFnBody (ghostsOf pro ++ gm) pro b)) x = isLoc ps bound (declaredGlobals b) x
  locL : ∀ a, a ∈ gnames (ghostsOf pro) → isLoc ps bound' (declaredGlobals (hoistFnBody (ghostsOf pro ++ gm) pro b)) a = true
  locG : ∀ a, a ∈ gnames gm → isLoc ps bound' (declaredGlobals (hoistFnBody (ghostsOf pro ++ gm) pro b)) a = false

theorem fnHoistOK_facts (gm : CMap) (pro : List PEntry) (ps : List String) (b : List Stmt) (bound bound' : List String)
    (hb : bindTop b = some bound) (hb' : bindTop (hoistFnBody (ghostsOf pro ++ gm) pro b) = some bound')
    (h : fnHoistOK gm pro ps b = true) : FnHFacts gm pro ps b bound bound' := by
  unfold fnHoistOK at h
  simp only [hb, hb', Bool.and_eq_true, List.all_eq_true, Bool.not_eq_true', beq_iff_eq, decide_eq_true_eq,
    List.contains_iff_mem] at h
  obtain ⟨⟨⟨⟨⟨⟨⟨h1, h2⟩, h3⟩, h4⟩, _⟩, h7⟩, h8⟩, h9⟩ := h
  refine ⟨?_, h2, h3, h4, h7, h8, ?_⟩
  · intro x hx hm
    have := h1 x hx
    simp only [List.contains_eq_mem, decide_eq_false_iff_not] at this
    exact this hm
  · intro a ha; exact h9 a ha

theorem fnHoistOK_isSome (gm : CMap) (pro : List PEntry) (ps : List String) (b : List Stmt) (h : fnHoistOK gm pro ps b = true) :
    (bindTop (hoistFnBody (ghostsOf pro ++ gm) pro b)).isSome = (bindTop b).isSome := by
  unfold fnHoistOK at h
  simp only [Bool.and_eq_true] at h
  exact beq_iff_eq.mp h.1.1.1.2

def TableOKH (w : HoistW) (ft : FTab) : Prop :=
  ∀ f ps b, ft.lookup f = some (ps, b) → fnHoistOK w.gmod (w.proFn f) ps b = true

theorem staticH_of_table (w : HoistW) (ft : FTab) (htab : TableOKH w ft) : StaticOKH w ft :=
  fun f ps b hl => fnHoistOK_isSome w.gmod (w.proFn f) ps b (htab f ps b hl)

theorem okHL_dropWhile (g : CMap) : ∀ l : List Stmt, okHL g P l = true → okHL g P (l.dropWhile isDocStmt) = true
  | [], h => h
  | st :: rest, h => by
    simp only [List.dropWhile_cons]
    split
    · exact okHL_dropWhile g rest (okHL_tail g st rest h).2
    · exact h

theorem calleeOKH_of (w : HoistW) (ft : FTab) (htab : TableOKH w ft) (k : Nat)
    (hlist : ∀ (g : CMap) (P : String → Bool) (GL : List (String × Val)), Cons g (gvals w.gmod) GL → StatH P → ∀ s s',
      RelH P (gnames w.gmod) (gvals w.gmod) GL s s' → ∀ l, okHL g P l = true →
      ResRel (RelH P (gnames w.gmod) (gvals w.gmod) GL) (execL ⟨ft, o⟩ k s l) (execL ⟨hoistFT w ft, o⟩ k s' (hoistBody g l))) :
    CalleeOKH o w ft (gnames w.gmod) (gvals w.gmod) k := by
  intro f ps b bound bound' hl hb hb' g g' out imps vs hgg hgh hvs hlen
  have F := fnHoistOK_facts w.gmod (w.proFn f) ps b bound bound' hb hb' (htab f ps b hl)
  have hgfn : w.gfn f = ghostsOf (w.proFn f) ++ w.gmod := rfl
  rw [hgfn] at hb' ⊢
  generalize w.proFn f = pro at F hb' ⊢
  generalize hgm : w.gmod = gm at F hgg hgh hb' hlist ⊢
  have hS : StatH (fnP ps b) := fun r hr => (fnP_iff ps b r).mpr (mem_fnNames_res ps b r hr)
  apply asCall_rel
  rw [execL_dropWhile_doc ft k _ b]
  let s0' : St := { globals := g', locals := some (ps.zip vs), declGlobal := declaredGlobals (hoistFnBody (ghostsOf pro ++ gm) pro b),
                    out := out, imports := imps, localNames := ps ++ canonNames bound' }
  let s0 : St := { globals := g, locals := some (ps.zip vs), declGlobal := declaredGlobals b, out := out, imports := imps,
                   localNames := ps ++ canonNames bound }
  have hloc0 : ∀ x, s0'.isLocal x = isLoc ps bound' (declaredGlobals (hoistFnBody (ghostsOf pro ++ gm) pro b)) x := by
    intro x; rw [isLocal_inner]; rfl
  have hlocS : ∀ x, s0.isLocal x = isLoc ps bound (declaredGlobals b) x := by
    intro x; rw [isLocal_inner]; rfl
  have hPfresh : ∀ a, a ∈ gnames (ghostsOf pro ++ gm) → fnP ps b a = false := by
    intro a ha
    cases hp : fnP ps b a with
    | false => rfl
    | true => exact absurd ha (F.fresh a ((fnP_iff ps b a).mp hp))
  have hrel : RelH (fnP ps b) (gnames gm) (gvals gm) [] s0 s0' := by
    refine ⟨rfl, rfl, rfl, hgg, ?_, ?_, ?_, ?_, ?_, ?_, ?_⟩
    · intro x hx; rw [hloc0, hlocS]; exact F.locEq x ((fnP_iff ps b x).mp hx)
    · intro x _ _; rfl
    · intro a v hm
      exact ⟨by rw [hloc0]; exact F.locG a (gvals_names gm a v hm), hgh a v hm⟩
    · intro a v hm; simp at hm
    · intro a v hm; exact gvals_names gm a v hm
    · intro a ha; exact hPfresh a (by simp [gnames, List.map_append]; exact Or.inr (by simpa [gnames] using ha))
    · intro a v hm; simp at hm
  show ResRel _ _ (execL ⟨hoistFT w ft, o⟩ k s0' (hoistFnBody (ghostsOf pro ++ gm) pro b))
  unfold hoistFnBody
  rw [execL_takeWhile_doc]
  have hokL : okHL (ghostsOf pro ++ gm) (fnP ps b) b = true := by
    unfold okHL
    rw [List.all_eq_true]
    intro x hx
    exact (fnP_iff ps b x).mpr (mem_fnNames_body ps b x hx)
  refine weave_exec (GA := gnames gm) (GG := gvals gm) ft (hoistFT w ft) k (ghostsOf pro ++ gm) hS ?_ (ghostsOf pro)
    (fun p hp => F.vals p (List.mem_append_left _ hp))
    (fun GLd hG => cons_of (ghostsOf pro) gm GLd F.vals hG)
    pro (b.dropWhile isDocStmt) [] [] s0 s0' hrel F.keeps (okHL_dropWhile _ b hokL)
    (fun p hp => Or.inr hp) (fun p hp => hp) (by intro k' a v hm; simp at hm) (by intro b' w' hm; simp at hm) ?_ ?_
  · intro GLd s s' l hr hc hok
    have := hlist (ghostsOf pro ++ gm) (fnP ps b) GLd hc hS s s' hr l hok
    rw [hoistBody_eq_map] at this
    exact this
  · have := F.nodup
    simp only [gnames, List.map_append, List.nil_append] at this ⊢
    exact (List.nodup_append.mp this).1
  · intro a ha
    exact ⟨by rw [hloc0]; exact F.locL a ha, hPfresh a (by simp only [gnames, List.map_append, List.mem_append]; exact Or.inl ha)⟩

theorem goodH_all (w : HoistW) (ft : FTab) (htab : TableOKH w ft) (n : Nat) :
    GoodH o w ft (gnames w.gmod) (gvals w.gmod) n := by
  have hst := staticH_of_table w ft htab
  induction n using Nat.strongRecOn with
  | _ n ih =>
    exact ⟨fun g P GL hc hs s s' h st hok => exec1_h w ft hst n ih hs hc st s s' h hok,
      fun g P GL hc hs s s' h l hok => execL_h w ft hst n ih hs hc l s s' h hok,
      calleeOKH_of w ft htab n (fun g P GL hc hs s s' h l hok => execL_h w ft hst n ih hs hc l s s' h hok)⟩


/-! ### the module level -/

theorem weave_ghosts (f : Stmt → Stmt) : ∀ (pro : List PEntry) (rest : List Stmt), keepCount pro = 0 →
    weave f pro rest = (ghostsOf pro).map (fun p => ghostStmt p.1 p.2) ++ rest.map f
  | [], rest, _ => by simp [weave, ghostsOf]
  | .ghost c a :: pro, rest, h => by
    simp only [weave, ghostsOf, List.map_cons, List.cons_append]
    rw [weave_ghosts f pro rest (by simpa [keepCount] using h)]
  | .keep :: pro, rest, h => by simp [keepCount] at h

/-- the module-level assignments of the constants -/
theorem modGhosts_run (ft : FTab) (k : Nat) (tail : List Stmt) : ∀ (gs : CMap) (s' : St), s'.locals = none →
    (∀ p, p ∈ gs → (constVal p.1).isSome = true) → (gnames gs).Nodup →
    ∃ s1', execL ⟨ft, o⟩ k s' (gs.map (fun p => ghostStmt p.1 p.2) ++ tail) = execL ⟨ft, o⟩ k s1' tail ∧
      s1'.out = s'.out ∧ s1'.imports = s'.imports ∧ s1'.locals = none ∧
      (∀ x, x ∉ gnames gs → Env.get s1'.globals x = Env.get s'.globals x) ∧
      (∀ a v, (a, v) ∈ gvals gs → Env.get s1'.globals a = some v)
  | [], s', hl, _, _ => ⟨s', rfl, rfl, rfl, hl, fun _ _ => rfl, by intro a v hm; simp [gvals] at hm⟩
  | (c, a) :: rest, s', hl, hv, hnd => by
    have hcv := hv (c, a) (by simp)
    cases hc : constVal c with
    | none => simp [hc] at hcv
    | some v =>
      have hnl : s'.isLocal a = false := by unfold St.isLocal; simp [hl]
      simp only [gnames, List.map_cons, List.nodup_cons] at hnd
      obtain ⟨s1', he, ho, hi, hl1, hg1, hg2⟩ := modGhosts_run ft k tail rest (s'.assign a v)
        (by rw [locals_assign_global s' a v hnl]; exact hl) (fun p hp => hv p (by simp [hp])) hnd.2
      refine ⟨s1', ?_, ?_, ?_, hl1, ?_, ?_⟩
      · simp only [List.map_cons, List.cons_append]
        rw [execL_cons, exec1_ghost ft k s' c a v hc]
        exact he
      · rw [ho, out_assign]
      · rw [hi, imports_assign]
      · intro x hx
        simp only [gnames, List.map_cons, List.mem_cons, not_or] at hx
        rw [hg1 x (by simpa [gnames] using hx.2), globals_assign_global s' a v hnl, Env.get_set]
        have : (x == a) = false := by simpa using hx.1
        simp [this]
      · intro b w hm
        simp only [gvals, hc, List.mem_append, List.mem_singleton, Prod.mk.injEq] at hm
        rcases hm with ⟨rfl, rfl⟩ | hm
        · rw [hg1 b (by simpa [gnames] using hnd.1), globals_assign_global s' b w hnl, Env.get_set]
          simp
        · exact hg2 b w hm

theorem hoistTop_notDef (w : HoistW) (st : Stmt) (h : isTableDef st = false) : hoistTop w st = hoistStmt w.gmod st := by
  unfold hoistTop
  split
  · simp [isTableDef] at h
  · rfl

theorem isTableDef_hoistTop (w : HoistW) (st : Stmt) (h : isTableDef st = true) :
    isTableDef (hoistTop w st) = true ∧ isPlainDef (hoistTop w st) = isPlainDef st := by
  unfold isTableDef at h
  split at h
  · exact ⟨rfl, rfl⟩
  · simp at h

/-- the names of a module-level statement that is not a `def` are not names of constants -/
def topOK (g : CMap) (Pm : String → Bool) : List Stmt → Prop
  | [] => True
  | st :: rest => (isTableDef st = true ∨ okHS g Pm st = true) ∧ topOK g Pm rest

theorem execTop_h (w : HoistW) (ft : FTab) (htab : TableOKH w ft) (n : Nat) (Pm : String → Bool) (hs : StatH Pm)
    (hc : Cons w.gmod (gvals w.gmod) []) : ∀ (l : List Stmt) (s s' : St),
    RelH Pm (gnames w.gmod) (gvals w.gmod) [] s s' → topOK w.gmod Pm l →
    ResRel (RelH Pm (gnames w.gmod) (gvals w.gmod) []) (execL ⟨ft, o⟩ n s l) (execL ⟨hoistFT w ft, o⟩ n s' (l.map (hoistTop w)))
  | [], s, s', h, _ => by simp only [List.map_nil, execL_nil]; exact h
  | st :: rest, s, s', h, hok => by
    simp only [List.map_cons]
    obtain ⟨h1, h2⟩ := hok
    apply execL_cons_rel
    · by_cases hd : isTableDef st = true
      · rw [exec1_def ft n s st hd, exec1_def (hoistFT w ft) n s' _ (isTableDef_hoistTop w st hd).1, (isTableDef_hoistTop w st hd).2]
        split
        · exact h
        · trivial
      · have hd' : isTableDef st = false := by simpa using hd
        rw [hoistTop_notDef w st hd']
        rcases h1 with h1 | h1
        · exact absurd h1 hd
        · exact (goodH_all (o := o) w ft htab n).1 w.gmod Pm [] hc hs s s' h st h1
    · intro s1 s1' hr; exact execTop_h w ft htab n Pm hs hc rest s1 s1' hr h2

theorem defOf_hoistTop (w : HoistW) (st : Stmt) :
    defOf (hoistTop w st) = (defOf st).map (fun e => (e.1, e.2.1, hoistFnBody (w.gfn e.1) (w.proFn e.1) e.2.2)) := by
  unfold hoistTop
  split
  · rename_i n args body
    simp only [defOf]
    cases paramNames args <;> rfl
  · rename_i hne
    cases hd : defOf st with
    | none =>
      simp only [Option.map_none]
      cases st <;> first | rfl | exact hd | (simp only [hoistStmt]; first | rfl | (split <;> rfl))
    | some e =>
      exfalso
      unfold defOf at hd
      split at hd
      · exact hne _ _ _ rfl
      · simp at hd

theorem collect_hoistTop (w : HoistW) : ∀ l : List Stmt, collect (l.map (hoistTop w)) = hoistFT w (collect l)
  | [] => rfl
  | st :: rest => by
    simp only [List.map_cons, collect, defOf_hoistTop]
    cases defOf st with
    | none => simp only [Option.map_none]; exact collect_hoistTop w rest
    | some e =>
      obtain ⟨f, ps, b⟩ := e
      simp only [Option.map_some, hoistFT, collect_hoistTop w rest]

theorem collect_docs : ∀ l : List Stmt, collect (l.takeWhile isDocStmt) = []
  | [] => rfl
  | st :: rest => by
    simp only [List.takeWhile_cons]
    split
    · rename_i hd
      have : defOf st = none := by
        unfold isDocStmt at hd
        split at hd
        · rfl
        · simp at hd
      simp only [collect, this]
      exact collect_docs rest
    · rfl

theorem collect_ghosts : ∀ gs : CMap, collect (gs.map (fun p => ghostStmt p.1 p.2)) = []
  | [] => rfl
  | p :: rest => by simp only [List.map_cons, collect, ghostStmt, defOf]; exact collect_ghosts rest

theorem collect_dropDocs (l : List Stmt) : collect (l.dropWhile isDocStmt) = collect l := by
  conv => rhs; rw [← List.takeWhile_append_dropWhile (p := isDocStmt) (l := l)]
  rw [collect_append, collect_docs]; rfl

/-- the observable of the hoisted run, up to the names that hold the constants -/
structure ObsEq (GA : List String) (o' o : Obs) : Prop where
  out : o'.out = o.out
  ending : o'.ending = o.ending
  imports : o'.imports = o.imports
  globals : ∀ x, x ∉ GA → Env.get o'.globals x = Env.get o.globals x

theorem observe_relH {Pm : String → Bool} {GA : List String} {GG : List (String × Val)} (r r' : Res Flow)
    (h : ResRel (RelH Pm GA GG []) r r') (fb : St) : ObsEq GA (observe r' fb) (observe r fb) := by
  cases r with
  | ok fl =>
    cases r' with
    | ok fl' =>
      cases fl with
      | normal s1 => cases fl' <;> first | exact ⟨h.out, rfl, h.imports, h.gget⟩ | exact h.elim
      | returned v s1 => cases fl' <;> first | exact ⟨h.2.out, rfl, h.2.imports, h.2.gget⟩ | exact h.elim
      | broke s1 => cases fl' <;> first | exact ⟨h.out, rfl, h.imports, h.gget⟩ | exact h.elim
      | continued s1 => cases fl' <;> first | exact ⟨h.out, rfl, h.imports, h.gget⟩ | exact h.elim
    | _ => exact h.elim
  | raised x s1 =>
    cases r' with
    | raised x' s1' => obtain ⟨hx, hr⟩ := h; subst hx; exact ⟨hr.out, rfl, hr.imports, hr.gget⟩
    | _ => exact h.elim
  | stuck => cases r' <;> first | exact ⟨rfl, rfl, rfl, fun _ _ => rfl⟩ | exact h.elim
  | timeout => cases r' <;> first | exact ⟨rfl, rfl, rfl, fun _ _ => rfl⟩ | exact h.elim


/-! ### the whole module -/

theorem topOK_of (g : CMap) (Pm : String → Bool) : ∀ l : List Stmt, (topNames l).all Pm = true → topOK g Pm l
  | [], _ => trivial
  | st :: rest, hn => by
    cases st
    case functionDef a n args body decs ret tps =>
      simp only [topNames] at hn
      refine ⟨Or.inr ?_, topOK_of g Pm rest hn⟩
      simp [okHS, namesS]
    all_goals
      simp only [topNames, List.all_append, Bool.and_eq_true] at hn
      exact ⟨Or.inr (by simp only [okHS]; exact hn.1), topOK_of g Pm rest hn.2⟩

theorem topOK_dropWhile (g : CMap) (Pm : String → Bool) : ∀ l : List Stmt, topOK g Pm l → topOK g Pm (l.dropWhile isDocStmt)
  | [], h => h
  | st :: rest, h => by
    simp only [List.dropWhile_cons]
    split
    · exact topOK_dropWhile g Pm rest h.2
    · exact h

theorem tableOKH_of_hoistOK (w : HoistW) (m : Module) (h : hoistOK w m = true) : TableOKH w (collect m.body) := by
  intro f ps b hl
  unfold hoistOK at h
  simp only [Bool.and_eq_true, List.all_eq_true] at h
  exact h.2 (f, ps, b) (lookup_collect_mem m.body f ps b hl)

/-- T01.14: a module whose repeated literals were hoisted into names (the module's after its docstring, a function's
    own after the function's docstring, possibly between the parameter copies the renamer inserted) behaves like the
    original: same printed lines, same ending, same import events, and every global that is not one of the new names
    has the same value — for every fuel — provided the witness satisfies the checkable condition `hoistOK`. -/
theorem run_hoistModule (w : HoistW) (m : Module) (h : hoistOK w m = true) (n : Nat) :
    ObsEq (gnames w.gmod) (run n (hoistModule w m)) (run n m) := by
  have htab := tableOKH_of_hoistOK w m h
  unfold hoistOK at h
  simp only [Bool.and_eq_true, beq_iff_eq, decide_eq_true_eq] at h
  obtain ⟨⟨⟨⟨hk, hvals⟩, hnd⟩, hfresh⟩, _⟩ := h
  rw [List.all_eq_true] at hvals
  let Pm : String → Bool := fun x => !(gnames w.gmod).contains x
  have hfresh' : (reserved ++ topNames m.body).all Pm = true := hfresh
  rw [List.all_append, Bool.and_eq_true] at hfresh'
  have hs : StatH Pm := fun r hr => all_of_mem hfresh'.1 hr
  have hc : Cons w.gmod (gvals w.gmod) [] := by
    have := cons_of [] w.gmod [] (fun p hp => hvals p (by simpa using hp)) (by intro k a v hm; simp at hm)
    simpa using this
  have htop := topOK_dropWhile w.gmod Pm m.body (topOK_of w.gmod Pm m.body hfresh'.2)
  unfold run hoistModule
  simp only
  rw [weave_ghosts (hoistTop w) w.proMod _ hk]
  have hcol : collect (List.takeWhile isDocStmt m.body ++ (List.map (fun p => ghostStmt p.1 p.2) (ghostsOf w.proMod) ++
      List.map (hoistTop w) (List.dropWhile isDocStmt m.body))) = hoistFT w (collect m.body) := by
    rw [collect_append, collect_append, collect_docs, collect_ghosts, collect_hoistTop, collect_dropDocs]; rfl
  rw [hcol, execL_takeWhile_doc, execL_dropWhile_doc (collect m.body) n St.init m.body]
  obtain ⟨s1', he, ho, hi, hl1, hg1, hg2⟩ := modGhosts_run (o := false) (hoistFT w (collect m.body)) n
    (List.map (hoistTop w) (List.dropWhile isDocStmt m.body)) (ghostsOf w.proMod) St.init rfl hvals hnd
  rw [he]
  have hrel : RelH Pm (gnames w.gmod) (gvals w.gmod) [] St.init s1' := by
    have hnl : ∀ x, s1'.isLocal x = false := by intro x; unfold St.isLocal; simp [hl1]
    refine ⟨ho, hi, by rw [hl1]; rfl, hg1, ?_, ?_, ?_, ?_, ?_, ?_, ?_⟩
    · intro x _; rw [hnl]; rfl
    · intro x _ hx; simp [St.isLocal, St.init] at hx
    · intro a v hm; exact ⟨hnl a, hg2 a v hm⟩
    · intro a v hm; simp at hm
    · intro a v hm; exact gvals_names _ a v hm
    · intro a ha; simp [Pm, ha]
    · intro a v hm; simp at hm
  exact observe_relH _ _ (execTop_h w (collect m.body) htab n Pm hs hc _ St.init s1' hrel htop) St.init


/-- the same under `python -O` -/
theorem runO_hoistModule (w : HoistW) (m : Module) (h : hoistOK w m = true) (n : Nat) :
    ObsEq (gnames w.gmod) (runO n (hoistModule w m)) (runO n m) := by
  have htab := tableOKH_of_hoistOK w m h
  unfold hoistOK at h
  simp only [Bool.and_eq_true, beq_iff_eq, decide_eq_true_eq] at h
  obtain ⟨⟨⟨⟨hk, hvals⟩, hnd⟩, hfresh⟩, _⟩ := h
  rw [List.all_eq_true] at hvals
  let Pm : String → Bool := fun x => !(gnames w.gmod).contains x
  have hfresh' : (reserved ++ topNames m.body).all Pm = true := hfresh
  rw [List.all_append, Bool.and_eq_true] at hfresh'
  have hs : StatH Pm := fun r hr => all_of_mem hfresh'.1 hr
  have hc : Cons w.gmod (gvals w.gmod) [] := by
    have := cons_of [] w.gmod [] (fun p hp => hvals p (by simpa using hp)) (by intro k a v hm; simp at hm)
    simpa using this
  have htop := topOK_dropWhile w.gmod Pm m.body (topOK_of w.gmod Pm m.body hfresh'.2)
  unfold runO hoistModule
  simp only
  rw [weave_ghosts (hoistTop w) w.proMod _ hk]
  have hcol : collect (List.takeWhile isDocStmt m.body ++ (List.map (fun p => ghostStmt p.1 p.2) (ghostsOf w.proMod) ++
      List.map (hoistTop w) (List.dropWhile isDocStmt m.body))) = hoistFT w (collect m.body) := by
    rw [collect_append, collect_append, collect_docs, collect_ghosts, collect_hoistTop, collect_dropDocs]; rfl
  rw [hcol, execL_takeWhile_doc, execL_dropWhile_doc (collect m.body) n St.init m.body]
  obtain ⟨s1', he, ho, hi, hl1, hg1, hg2⟩ := modGhosts_run (o := true) (hoistFT w (collect m.body)) n
    (List.map (hoistTop w) (List.dropWhile isDocStmt m.body)) (ghostsOf w.proMod) St.init rfl hvals hnd
  rw [he]
  have hrel : RelH Pm (gnames w.gmod) (gvals w.gmod) [] St.init s1' := by
    have hnl : ∀ x, s1'.isLocal x = false := by intro x; unfold St.isLocal; simp [hl1]
    refine ⟨ho, hi, by rw [hl1]; rfl, hg1, ?_, ?_, ?_, ?_, ?_, ?_, ?_⟩
    · intro x _; rw [hnl]; rfl
    · intro x _ hx; simp [St.isLocal, St.init] at hx
    · intro a v hm; exact ⟨hnl a, hg2 a v hm⟩
    · intro a v hm; simp at hm
    · intro a v hm; exact gvals_names _ a v hm
    · intro a ha; simp [Pm, ha]
    · intro a v hm; simp at hm
  exact observe_relH _ _ (execTop_h w (collect m.body) htab n Pm hs hc _ St.init s1' hrel htop) St.init

end PMV.PyCore

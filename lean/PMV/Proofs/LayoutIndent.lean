import PMV.Proofs.LayoutTidy
/-
  Indentation discipline of the specified layout: reading the lines in order, a line is deeper than the one before it only
  by exactly one level and only right after a colon — which is when CPython's tokenizer emits INDENT and the grammar
  expects a block.  (Shallower lines are always fine with tab-count depths: every level in between was opened.)
-/
namespace PMV.Spec.Layout
open PMV PMV.Token PMV.Printer

def isColon : Option LT → Bool
  | some (.t (.delim ":")) => true
  | _ => false

/-- run over the layout: current depth and last token; `none` when a line break goes deeper without a colon before it -/
def indRun : Nat × Option LT → List LT → Option (Nat × Option LT)
  | s, [] => some s
  | (cur, last), .nl k :: rest =>
    if k ≤ cur || (k == cur + 1 && isColon last) then indRun (k, some (.nl k)) rest else none
  | (cur, _), .t tok :: rest => indRun (cur, some (.t tok)) rest
  | (cur, _), .semi :: rest => indRun (cur, some .semi) rest

theorem indRun_append (s : Nat × Option LT) (a b : List LT) : indRun s (a ++ b) = (indRun s a).bind fun s' => indRun s' b := by
  induction a generalizing s with
  | nil => simp [indRun]
  | cons x rest ih =>
    obtain ⟨cur, last⟩ := s
    cases x with
    | nl k =>
      simp only [List.cons_append, indRun]
      split
      · exact ih _
      · rfl
    | t tok => simp only [List.cons_append, indRun]; exact ih _
    | semi => simp only [List.cons_append, indRun]; exact ih _

/-- over real tokens the depth stays and the last token is remembered -/
theorem indRun_T (xs : List Tok) (cur : Nat) (last : Option LT) :
    indRun (cur, last) (T xs) = some (cur, if xs = [] then last else xs.getLast?.map .t) := by
  induction xs generalizing last with
  | nil => simp [T, indRun]
  | cons x rest ih =>
    simp only [T, List.map_cons, indRun]
    have := ih (some (.t x))
    simp only [T] at this
    rw [this]
    cases rest with
    | nil => simp
    | cons y r => simp [List.getLast?_cons_cons]

/-- `l` keeps the discipline from any state at depth ≥ `d` and ends at depth ≥ `d` -/
def Ind (d : Nat) (l : List LT) : Prop :=
  ∀ cur last, d ≤ cur → ∃ c x, indRun (cur, last) l = some (c, x) ∧ d ≤ c

theorem Ind.nil (d : Nat) : Ind d [] := fun cur last h => ⟨cur, last, by simp [indRun], h⟩

theorem Ind.append {d : Nat} {a b : List LT} (ha : Ind d a) (hb : Ind d b) : Ind d (a ++ b) := by
  intro cur last h
  obtain ⟨c1, x1, e1, h1⟩ := ha cur last h
  obtain ⟨c2, x2, e2, h2⟩ := hb c1 x1 h1
  exact ⟨c2, x2, by rw [indRun_append, e1]; simpa using e2, h2⟩

theorem Ind_T (d : Nat) (xs : List Tok) : Ind d (T xs) := fun cur last h => ⟨cur, _, indRun_T xs cur last, h⟩

theorem Ind_semi (d : Nat) : Ind d [LT.semi] := fun cur _ h => ⟨cur, some .semi, by simp [indRun], h⟩

theorem Ind_nl (d : Nat) : Ind d [LT.nl d] := by
  intro cur last h
  exact ⟨d, some (.nl d), by simp [indRun, h], Nat.le_refl d⟩

theorem Ind.cons_nl {d : Nat} {b : List LT} (hb : Ind d b) : Ind d (LT.nl d :: b) := (Ind_nl d).append hb

/-- a deeper block, entered through the colon that ends the header -/
theorem Ind_block (d : Nat) (hdr : List Tok) (hcolon : hdr.getLast? = some (.delim ":")) {b : List LT} (hb : Ind (d + 1) b) :
    Ind d (T hdr ++ LT.nl (d + 1) :: b) := by
  intro cur last h
  have hne : hdr ≠ [] := by intro e; rw [e] at hcolon; cases hcolon
  have e1 := indRun_T hdr cur last
  simp only [hne, if_false, hcolon, Option.map_some] at e1
  have hstep : indRun (cur, some (LT.t (.delim ":"))) (LT.nl (d + 1) :: b) = indRun (d + 1, some (.nl (d + 1))) b := by
    simp only [indRun]
    have : (d + 1 ≤ cur || (d + 1 == cur + 1 && isColon (some (LT.t (.delim ":"))))) = true := by
      by_cases hc : d + 1 ≤ cur
      · simp [hc]
      · have : cur = d := by omega
        subst this; simp [isColon]
    rw [this]; rfl
  obtain ⟨c2, x2, e2, h2⟩ := hb (d + 1) (some (.nl (d + 1))) (Nat.le_refl _)
  exact ⟨c2, x2, by rw [indRun_append, e1]; simp only [Option.bind_some, hstep, e2], by omega⟩

/-- no line break at all: fine at every depth -/
def noNl : List LT → Bool
  | [] => true
  | .nl _ :: _ => false
  | _ :: rest => noNl rest

theorem Ind_of_noNl (d : Nat) : (l : List LT) → noNl l = true → Ind d l
  | [], _ => Ind.nil d
  | .nl k :: rest, h => by simp [noNl] at h
  | .t tok :: rest, h => by
    have := Ind_of_noNl d rest (by simpa [noNl] using h)
    exact (Ind_T d [tok]).append this
  | .semi :: rest, h => by
    have := Ind_of_noNl d rest (by simpa [noNl] using h)
    exact (Ind_semi d).append this

theorem noNl_append (a b : List LT) : noNl (a ++ b) = (noNl a && noNl b) := by
  induction a with
  | nil => simp [noNl]
  | cons x rest ih => cases x <;> simp [noNl, ih]

theorem noNl_T (xs : List Tok) : noNl (T xs) = true := by
  induction xs with
  | nil => rfl
  | cons x r ih => simpa [T, noNl] using ih

/-- an inline suite has no line break -/
theorem inline_noNl (t : PrecTable) (st : StmtTable) (d : Nat) : (body : List Stmt) → body.any isCompoundSyn = false →
    noNl (emitBody t st (d + 1) body) = true
  | [], _ => rfl
  | s :: ss, h => by
    simp only [List.any_cons, Bool.or_eq_false_iff] at h
    rw [emitBody_cons, noNl_append, emitS_simple t st s h.1, noNl_T]
    by_cases he : ss.isEmpty = true
    · simp [he, noNl]
    · simp only [he, Bool.false_eq_true, if_false, Bool.true_and]
      cases ss with
      | nil => simp at he
      | cons b r =>
        simp only [List.any_cons, Bool.or_eq_false_iff] at h
        have : sepNext (d + 1) s (b :: r) = .semi := by simp [sepNext, sep, h.1, h.2.1]
        rw [this]
        simp only [noNl]
        exact inline_noNl t st d (b :: r) (by simp [h.2.1, h.2.2])

/-- a clause: header, colon, suite -/
theorem Ind_clause (t : PrecTable) (st : StmtTable) (d : Nat) (body : List Stmt) (hdr : List Tok) (hcolon : hdr.getLast? = some (.delim ":"))
    (hb : Ind (d + 1) (emitBody t st (d + 1) body)) : Ind d (T hdr ++ suiteStart d body ++ emitBody t st (d + 1) body) := by
  unfold suiteStart
  by_cases hblk : body.any isCompoundSyn = true
  · simp only [hblk, if_true, List.append_assoc, List.singleton_append]
    exact Ind_block d hdr hcolon hb
  · have hblk' : body.any isCompoundSyn = false := by simpa using hblk
    simp only [hblk', Bool.false_eq_true, if_false, List.append_nil]
    exact (Ind_T d hdr).append (Ind_of_noNl d _ (inline_noNl t st d body hblk'))

theorem Ind_opt (t : PrecTable) (st : StmtTable) (kwd : String) (d : Nat) (body : List Stmt)
    (hb : Ind (d + 1) (emitBody t st (d + 1) body)) : Ind d (optClause t st kwd d body) := by
  unfold optClause
  by_cases he : body.isEmpty = true
  · simp only [he, if_true]; exact Ind.nil d
  · simp only [he, Bool.false_eq_true, if_false]
    have := Ind_clause t st d body [.kw kwd, .delim ":"] (by simp) hb
    have h2 := this.cons_nl
    simpa [List.append_assoc] using h2

theorem Ind_deco (t : PrecTable) (d : Nat) (decs : List Expr) : Ind d (decoLines t d decs) := by
  induction decs with
  | nil => exact Ind.nil d
  | cons dec rest ih =>
    have h1 : decoLines t d (dec :: rest) = T (.op "@" :: tExpr t dec) ++ (LT.nl d :: decoLines t d rest) := by
      simp [decoLines, List.append_assoc]
    rw [h1]
    exact (Ind_T d _).append ih.cons_nl

theorem colon_last (xs : List Tok) : (xs ++ [Tok.delim ":"]).getLast? = some (.delim ":") := by simp

theorem hdrDef_colon (t : PrecTable) (a : Bool) (n : String) (args : Arguments) (r : Option Expr) (tps : List TypeParam) :
    (hdrDef t a n args r tps).getLast? = some (.delim ":") := by
  unfold hdrDef
  exact colon_last _
theorem hdrClass_colon (t : PrecTable) (n : String) (b : List Expr) (k : List Keyword) (tps : List TypeParam) :
    (hdrClass t n b k tps).getLast? = some (.delim ":") := by
  unfold hdrClass
  exact colon_last _
theorem hdrFor_colon (t : PrecTable) (a : Bool) (tg it : Expr) : (hdrFor t a tg it).getLast? = some (.delim ":") := by
  unfold hdrFor
  exact colon_last _
theorem hdrWith_colon (t : PrecTable) (a : Bool) (items : List WithItem) : (hdrWith t a items).getLast? = some (.delim ":") := by
  unfold hdrWith
  exact colon_last _
theorem hdrExcept_colon (t : PrecTable) (star : Bool) (ty : Option Expr) (name : Option String) :
    (hdrExcept t star ty name).getLast? = some (.delim ":") := by
  unfold hdrExcept
  exact colon_last _
theorem hdrCase_colon (t : PrecTable) (pat : Pattern) (guard : Option Expr) : (hdrCase t pat guard).getLast? = some (.delim ":") := by
  unfold hdrCase
  exact colon_last _
theorem kw_colon (k : String) (xs : List Tok) : (Tok.kw k :: xs ++ [Tok.delim ":"]).getLast? = some (Tok.delim ":") := colon_last _

mutual
theorem indS (t : PrecTable) (st : StmtTable) : (s : Stmt) → ∀ el d, Ind d (emitS t st el d s)
  | .functionDef a n args body decs r tps, el, d => by
    rw [emitS]
    have := (Ind_deco t d decs).append (Ind_clause t st d body _ (hdrDef_colon t a n args r tps) (indL t st body (d + 1)))
    simpa [List.append_assoc] using this
  | .classDef n bases kws body decs tps, el, d => by
    rw [emitS]
    have := (Ind_deco t d decs).append (Ind_clause t st d body _ (hdrClass_colon t n bases kws tps) (indL t st body (d + 1)))
    simpa [List.append_assoc] using this
  | .for_ a tg it body orelse, el, d => by
    have := (Ind_clause t st d body _ (hdrFor_colon t a tg it) (indL t st body (d + 1))).append (Ind_opt t st "else" d orelse (indL t st orelse (d + 1)))
    rw [emitS]; unfold optClause at this
    by_cases ho : orelse.isEmpty = true <;> simpa [ho, List.append_assoc] using this
  | .while_ c body orelse, el, d => by
    have := (Ind_clause t st d body (.kw "while" :: tExpr t c ++ [.delim ":"]) (kw_colon _ _) (indL t st body (d + 1))).append
      (Ind_opt t st "else" d orelse (indL t st orelse (d + 1)))
    rw [emitS]; unfold optClause at this
    by_cases ho : orelse.isEmpty = true <;> simpa [ho, List.append_assoc] using this
  | .if_ c body orelse, el, d => by
    have hc := Ind_clause t st d body (.kw (if el then "elif" else "if") :: tExpr t c ++ [.delim ":"]) (kw_colon _ _) (indL t st body (d + 1))
    rw [emitS]
    by_cases ho : orelse.isEmpty = true
    · simpa [ho] using hc
    · simp only [ho, Bool.false_eq_true, if_false]
      by_cases he : isElifList orelse = true
      · simp only [he, if_true]
        have := hc.append (indElif t st orelse d).cons_nl
        simpa [List.append_assoc] using this
      · simp only [he, Bool.false_eq_true, if_false]
        have h2 := (Ind_clause t st d orelse [.kw "else", .delim ":"] (by simp) (indL t st orelse (d + 1))).cons_nl
        have := hc.append h2
        simpa [List.append_assoc] using this
  | .with_ a items body, el, d => by
    rw [emitS]
    exact Ind_clause t st d body _ (hdrWith_colon t a items) (indL t st body (d + 1))
  | .match_ subj cases, el, d => by
    rw [emitS]
    by_cases hc : cases.isEmpty = true
    · simp only [hc, if_true, List.append_nil]; exact Ind_T d _
    · simp only [hc, Bool.false_eq_true, if_false]
      exact Ind_block d _ (kw_colon _ _) (indC t st cases (d + 1))
  | .try_ star body hs orelse fin, el, d => by
    have h1 := Ind_clause t st d body [.kw "try", .delim ":"] (by simp) (indL t st body (d + 1))
    have h4 := ((h1.append (indH t st star hs d)).append (Ind_opt t st "else" d orelse (indL t st orelse (d + 1)))).append
      (Ind_opt t st "finally" d fin (indL t st fin (d + 1)))
    rw [emitS]; unfold optClause at h4
    by_cases ho : orelse.isEmpty = true <;> by_cases hf : fin.isEmpty = true <;> simpa [ho, hf, List.append_assoc] using h4
  | .return_ v, el, d => by rw [emitS_simple t st _ rfl]; exact Ind_T d _
  | .delete ts, el, d => by rw [emitS_simple t st _ rfl]; exact Ind_T d _
  | .assign ts v, el, d => by rw [emitS_simple t st _ rfl]; exact Ind_T d _
  | .typeAlias n tps v, el, d => by rw [emitS_simple t st _ rfl]; exact Ind_T d _
  | .augAssign tg op v, el, d => by rw [emitS_simple t st _ rfl]; exact Ind_T d _
  | .annAssign tg ann v sm, el, d => by rw [emitS_simple t st _ rfl]; exact Ind_T d _
  | .raise_ e c, el, d => by rw [emitS_simple t st _ rfl]; exact Ind_T d _
  | .assert_ c m, el, d => by rw [emitS_simple t st _ rfl]; exact Ind_T d _
  | .import_ ns, el, d => by rw [emitS_simple t st _ rfl]; exact Ind_T d _
  | .importFrom m ns l, el, d => by rw [emitS_simple t st _ rfl]; exact Ind_T d _
  | .global ns, el, d => by rw [emitS_simple t st _ rfl]; exact Ind_T d _
  | .nonlocal ns, el, d => by rw [emitS_simple t st _ rfl]; exact Ind_T d _
  | .expr v, el, d => by rw [emitS_simple t st _ rfl]; exact Ind_T d _
  | .pass, el, d => by rw [emitS_simple t st _ rfl]; exact Ind_T d _
  | .break_, el, d => by rw [emitS_simple t st _ rfl]; exact Ind_T d _
  | .continue_, el, d => by rw [emitS_simple t st _ rfl]; exact Ind_T d _
theorem indL (t : PrecTable) (st : StmtTable) : (l : List Stmt) → ∀ d, Ind d (emitBody t st d l)
  | [], d => Ind.nil d
  | s :: ss, d => by
    rw [emitBody_cons]
    apply (indS t st s false d).append
    by_cases he : ss.isEmpty = true
    · simp only [he, if_true]; exact Ind.nil d
    · simp only [he, Bool.false_eq_true, if_false]
      have hsep : Ind d [sepNext d s ss] := by
        cases ss with
        | nil => exact Ind_nl d
        | cons b r =>
          simp only [sepNext, sep]
          split
          · exact Ind_nl d
          · exact Ind_semi d
      exact hsep.append (indL t st ss d)
theorem indElif (t : PrecTable) (st : StmtTable) : (l : List Stmt) → ∀ d, Ind d (emitElif t st d l)
  | [], d => Ind.nil d
  | s :: _, d => by rw [emitElif]; exact indS t st s true d
theorem indH (t : PrecTable) (st : StmtTable) (star : Bool) : (hs : List Handler) → ∀ d, Ind d (emitHandlers t st star d hs)
  | [], d => Ind.nil d
  | .mk ty name body :: hs, d => by
    have := ((Ind_clause t st d body _ (hdrExcept_colon t star ty name) (indL t st body (d + 1))).cons_nl).append (indH t st star hs d)
    simpa [emitHandlers, List.append_assoc] using this
theorem indC (t : PrecTable) (st : StmtTable) : (cs : List MatchCase) → ∀ d, Ind d (emitCases t st d cs)
  | [], d => Ind.nil d
  | .mk pat guard body :: cs, d => by
    have hc := Ind_clause t st d body _ (hdrCase_colon t pat guard) (indL t st body (d + 1))
    rw [emitCases]
    by_cases he : cs.isEmpty = true
    · simpa [he] using hc
    · simp only [he, Bool.false_eq_true, if_false]
      have := hc.append (indC t st cs d).cons_nl
      simpa [List.append_assoc] using this
end

/-- the indentation discipline holds for the layout of every module -/
theorem module_indent (t : PrecTable) (st : StmtTable) (m : Module) : (indRun (0, none) (emitModule t st m)).isSome = true := by
  obtain ⟨c, x, e, _⟩ := indL t st m.body 0 0 none (Nat.le_refl 0)
  unfold emitModule
  rw [e]; rfl

end PMV.Spec.Layout

import PMV.Model.ParenTable
/-
  T02.1: for any precedence table satisfying `TableOK`, the parenthesised tree of every well-formed
  expression is grammatical (`Gram`) and erasing the parentheses gives the input back.
-/
namespace PMV.Printer
open PMV.Spec.Grammar

/-! ### simple facts about wrapping -/

theorem gram_wrapIf (b : Bool) (x : Expr) : Gram (wrapIf b x) = Gram x := by
  cases b <;> simp [wrapIf, Gram]

theorem lvl_wrapIf (b : Bool) (x : Expr) : lvl (wrapIf b x) = if b then 16 else lvl x := by
  cases b <;> simp [wrapIf, lvl]

theorem gram_slotExpr (o x : Expr) : Gram (slotExpr o x) = Gram x := gram_wrapIf _ _
theorem gram_slotPrec (b : Bool) (o x : Expr) : Gram (slotPrec b o x) = Gram x := by
  simp [slotPrec, gram_wrapIf, gram_slotExpr]

theorem parenExprs_eq_nil (t : PrecTable) (es : List Expr) : parenExprs t es = [] ↔ es = [] := by
  cases es <;> simp [parenExprs]

theorem lvl_paren (t : PrecTable) (e : Expr) : lvl (paren t e) = lvl e := by
  cases e with
  | tuple es => cases es <;> simp [paren, parenExprs, lvl]
  | _ => simp [paren, lvl]

theorem isStarred_paren (t : PrecTable) (e : Expr) : isStarred (paren t e) = isStarred e := by
  cases e <;> simp [paren, isStarred]
theorem isSlice_paren (t : PrecTable) (e : Expr) : isSlice (paren t e) = isSlice e := by
  cases e <;> simp [paren, isSlice]

/-! ### class facts -/

theorem foldl_min_const (p : Nat) (l : List Nat) (h : ∀ x ∈ l, x = p) : l.foldl min p = p := by
  induction l with
  | nil => rfl
  | cons x xs ih =>
    have hx : x = p := h x (by simp)
    simp only [List.foldl_cons, hx, Nat.min_self]
    exact ih (fun y hy => h y (by simp [hy]))

theorem prec_compare (t : PrecTable) (hc : cmpAllSame t = true) (l : Expr) (ops : List CmpOpK) (cs : List Expr)
    (hne : ops.length ≥ 1) : prec t (.compare l ops cs) = cmpP t := by
  have hall : ∀ o : CmpOpK, t.get (cmpOpName o) = cmpP t := by
    intro o
    have := List.all_eq_true.mp hc o (by cases o <;> simp [allCmpOps])
    simpa using this
  cases ops with
  | nil => simp at hne
  | cons o os =>
    simp only [prec, List.map_cons, hall o]
    apply foldl_min_const
    intro x hx
    simp only [List.mem_map] at hx
    obtain ⟨o', _, rfl⟩ := hx
    exact hall o'

theorem prec_eq_precC (t : PrecTable) (hc : cmpAllSame t = true) (e : Expr) (hwf : WF e = true) :
    prec t e = precC t (clsOf e) := by
  cases e with
  | compare l ops cs =>
    have : ops.length ≥ 1 := by
      simp only [WF, Bool.and_eq_true, decide_eq_true_eq] at hwf
      exact hwf.1.2
    rw [prec_compare t hc l ops cs this]; rfl
  | tuple es => cases es <;> rfl
  | _ => first | rfl | simp [WF] at hwf

theorem lvl_eq_lvlC (e : Expr) (hp : proper e = true) : lvl e = lvlC (clsOf e) := by
  cases e with
  | tuple es => cases es <;> rfl
  | starred v => simp [proper, isStarred] at hp
  | slice l u s => simp [proper, isStarred, isSlice] at hp
  | _ => rfl

theorem needExprParen_eq (e : Expr) : needExprParen e = kindParen (clsOf e) := by
  cases e with
  | tuple es => cases es <;> rfl
  | _ => rfl

theorem clsOf_mem (e : Expr) : clsOf e ∈ Cls.all := by
  cases e with
  | boolOp op vs => cases op <;> simp [clsOf, Cls.all, allBoolOps]
  | binOp l op r => cases op <;> simp [clsOf, Cls.all, allBinOps]
  | unaryOp op v => cases op <;> simp [clsOf, Cls.all, allUnaryOps]
  | tuple es => cases es <;> simp [clsOf, Cls.all]
  | _ => simp [clsOf, Cls.all]

theorem slot_mem (s : Slot) : s ∈ Slot.all := by
  cases s with
  | binL op => cases op <;> simp [Slot.all, allBinOps]
  | binR op => cases op <;> simp [Slot.all, allBinOps]
  | unary op => cases op <;> simp [Slot.all, allUnaryOps]
  | boolVal op => cases op <;> simp [Slot.all, allBoolOps]
  | _ => simp [Slot.all]

theorem need_le_16 (s : Slot) : s.need ≤ 16 := by
  cases s with
  | binL op => cases op <;> simp [Slot.need, needL, binLvl]
  | binR op => cases op <;> simp [Slot.need, needR, binLvl]
  | unary op => cases op <;> simp [Slot.need, needUnary]
  | boolVal op => cases op <;> simp [Slot.need, needBool]
  | _ => simp [Slot.need]

theorem tableOK_cmp {t : PrecTable} (h : TableOK t = true) : cmpAllSame t = true := by
  simp only [TableOK, Bool.and_eq_true] at h; exact h.1

theorem tableOK_entry {t : PrecTable} (h : TableOK t = true) (s : Slot) (c : Cls) (hc : c ∈ Cls.all) :
    entryOK t s c = true := by
  simp only [TableOK, Bool.and_eq_true] at h
  exact List.all_eq_true.mp (List.all_eq_true.mp h.2 s (slot_mem s)) c hc

/-- The slot lemma: after the printer's decision, the child meets the slot's grammar level. -/
theorem slot_lvl (t : PrecTable) (h : TableOK t = true) (s : Slot) (c : Expr)
    (hwf : WF c = true) (hp : proper c = true) (b : Bool) (hb : b = true ∨ b = s.decide t (prec t c)) :
    lvl (slotPrec b c (paren t c)) ≥ s.need := by
  have hn := need_le_16 s
  rcases hb with hb | hb
  · subst hb; simp [slotPrec, lvl_wrapIf]; exact hn
  · have he := tableOK_entry h s (clsOf c) (clsOf_mem c)
    rw [prec_eq_precC t (tableOK_cmp h) c hwf] at hb
    simp only [entryOK, Bool.or_eq_true, decide_eq_true_eq] at he
    simp only [slotPrec, slotExpr, lvl_wrapIf, lvl_paren, needExprParen_eq, lvl_eq_lvlC c hp]
    rw [hb]
    rcases he with (he | he) | he
    · simp [he]; exact hn
    · simp only [he, if_true]; split <;> exact hn
    · split
      · exact hn
      · split
        · exact hn
        · exact he

/-- items of displays / argument lists stay admissible items. -/
theorem item_ok (t : PrecTable) (e : Expr) : itemOK (slotExpr e (paren t e)) = true := by
  simp only [itemOK, slotExpr, Bool.or_eq_true, decide_eq_true_eq]
  cases e with
  | tuple es => cases es <;> simp [needExprParen, wrapIf, lvl, paren, parenExprs]
  | starred v => left; right; simp [needExprParen, wrapIf, paren, isStarred]
  | slice l u s => right; simp [needExprParen, wrapIf, paren, isSlice]
  | boolOp op vs => cases op <;> simp [needExprParen, wrapIf, lvl, paren, boolLvl]
  | binOp l op r => cases op <;> simp [needExprParen, wrapIf, lvl, paren, binLvl]
  | unaryOp op v => cases op <;> simp [needExprParen, wrapIf, lvl, paren, unaryLvl]
  | _ => simp [needExprParen, wrapIf, lvl, paren]

/-- an `_expression` slot requiring only level 1 (`expression`) is met by every proper child. -/
theorem expr_slot_lvl (t : PrecTable) (e : Expr) (hp : proper e = true) : lvl (slotExpr e (paren t e)) ≥ 1 := by
  simp only [slotExpr]
  cases e with
  | tuple es => cases es <;> simp [needExprParen, wrapIf, lvl, paren, parenExprs]
  | starred v => simp [proper, isStarred] at hp
  | slice l u s => simp [proper, isStarred, isSlice] at hp
  | boolOp op vs => cases op <;> simp [needExprParen, wrapIf, lvl, paren, boolLvl]
  | binOp l op r => cases op <;> simp [needExprParen, wrapIf, lvl, paren, binLvl]
  | unaryOp op v => cases op <;> simp [needExprParen, wrapIf, lvl, paren, unaryLvl]
  | _ => simp [needExprParen, wrapIf, lvl, paren]

end PMV.Printer

import PMV.Model.Shebang
import PMV.Spec.Lines
namespace PMV.Shebang
open PMV.Spec.Lines

theorem findShebang_eq_firstLine (src : List Nat) (rest : List Nat) (h : src = 35 :: 33 :: rest) :
    findShebang src = some (firstLine src) := by
  subst h
  simp [findShebang, firstLine, Spec.Lines.isLineEnd, Shebang.isLineEnd]

theorem findShebang_none (src : List Nat) (h : ¬ ∃ rest, src = 35 :: 33 :: rest) : findShebang src = none := by
  match src with
  | [] => rfl
  | [c] => simp [findShebang]
  | a :: b :: rest =>
    by_cases ha : a = 35
    · by_cases hb : b = 33
      · exact absurd ⟨rest, by rw [ha, hb]⟩ h
      · unfold findShebang
        split
        · rename_i heq; simp at heq; exact absurd heq.2.1 hb
        · rfl
    · unfold findShebang
      split
      · rename_i heq; simp at heq; exact absurd heq.1 ha
      · rfl

theorem takeWhile_no_lineEnd : ∀ (l : List Nat), ∀ c ∈ l.takeWhile (fun c => !Spec.Lines.isLineEnd c), Spec.Lines.isLineEnd c = false
  | [], c, hc => by simp at hc
  | x :: xs, c, hc => by
    simp only [List.takeWhile_cons] at hc
    split at hc
    · rename_i hx
      rcases List.mem_cons.mp hc with rfl | h
      · simpa using hx
      · exact takeWhile_no_lineEnd xs c h
    · simp at hc

theorem firstLine_append_lf (a b : List Nat) (h : ∀ c ∈ a, Spec.Lines.isLineEnd c = false) : firstLine (a ++ 10 :: b) = a := by
  induction a with
  | nil => simp [firstLine, Spec.Lines.isLineEnd]
  | cons x xs ih =>
    have hx := h x (by simp)
    simp only [firstLine, List.cons_append, List.takeWhile_cons, hx, Bool.not_false, if_true]
    congr 1
    exact ih (fun c hc => h c (by simp [hc]))

end PMV.Shebang

import PMV.Proofs.PyCoreMap
import PMV.Proofs.PyCoreFold
import PMV.Model.Minify
/-
  C01: module-level refinement for expression-rewriting transforms, and its instances:
  constant folding and positional-only conversion.
-/
namespace PMV.PyCore
open PMV PMV.Traverse PMV.Fold PMV.Printer PMV.Token

theorem defOf_mapStmt (m : ExprMap) (h : ExprOK m) (st : Stmt) :
    defOf (mapStmt m st) = (defOf st).map (fun e => (e.1, e.2.1, mapBody m e.2.2)) := by
  cases st
  case functionDef a n args body decs ret tps =>
    simp only [mapStmt]
    cases a <;> cases decs <;> cases ret <;> cases tps <;> simp [defOf, mapO, h.params]
    · cases paramNames args <;> rfl
    · split
      · rename_i heq
        simp only [Stmt.functionDef.injEq] at heq
        obtain ⟨_, _, _, _, _, _, h7⟩ := heq
        split at h7 <;> simp at h7
      · rfl
  all_goals (simp only [mapStmt]; rfl)

theorem collect_mapBody (m : ExprMap) (h : ExprOK m) : ∀ l, collect (mapBody m l) = mapFT m (collect l)
  | [] => rfl
  | st :: rest => by
    simp only [mapBody, collect, defOf_mapStmt m h st]
    cases defOf st with
    | none => simp [collect_mapBody m h rest]
    | some e => obtain ⟨n, ps, b⟩ := e; simp [mapFT, collect_mapBody m h rest]

/-- Whole-module refinement: unless the original run leaves the core, the transformed module prints the same
    lines, ends the same way and leaves the same globals, at every fuel. -/
theorem run_map (m : ExprMap) (h : ExprOK m) (n : Nat) (md : Module) (hcore : (run n md).ending ≠ "stuck") :
    run n (mapModule m md) = run n md := by
  unfold run mapModule at *
  simp only at *
  rw [collect_mapBody m h]
  rcases (goodM_all (o := false) m h (collect md.body) n).2 St.init md.body with hs | hs
  · rw [hs] at hcore; simp [observe] at hcore
  · rw [hs]


/-- the same under `python -O` -/
theorem runO_map (m : ExprMap) (h : ExprOK m) (n : Nat) (md : Module) (hcore : (runO n md).ending ≠ "stuck") :
    runO n (mapModule m md) = runO n md := by
  unfold runO mapModule at *
  simp only at *
  rw [collect_mapBody m h]
  rcases (goodM_all (o := true) m h (collect md.body) n).2 St.init md.body with hs | hs
  · rw [hs] at hcore; simp [observe] at hcore
  · rw [hs]

/-! ### instance: constant folding -/

theorem foldL_eq_map (t : PrecTable) (sp : Spacing) (orc : Oracle) : ∀ l : List Expr, foldL t sp orc l = l.map (foldE t sp orc)
  | [] => by simp [foldL]
  | e :: es => by simp [foldL, foldL_eq_map t sp orc es]

/-- a folding step yields the node itself, a constant, or a negated constant -/
theorem foldBinOp_shape (t : PrecTable) (sp : Spacing) (orc : Oracle) (l : Expr) (op : BinOpK) (r : Expr) :
    foldBinOp t sp orc l op r = .binOp l op r ∨ (∃ c, foldBinOp t sp orc l op r = .constant c) ∨
      (∃ c, foldBinOp t sp orc l op r = .unaryOp .uSub (.constant c)) := by
  by_cases hch : foldBinOp t sp orc l op r = .binOp l op r
  · left; exact hch
  · right
    obtain ⟨_, _, v, _, _, _, _, _, _, hnn⟩ := foldBinOp_changed t sp orc l op r hch
    revert hnn
    generalize foldBinOp t sp orc l op r = nn
    intro hnn
    cases v with
    | none => simp [newNode] at hnn
    | bool b => simp only [newNode, Option.some.injEq] at hnn; left; exact ⟨_, hnn.symm⟩
    | int n =>
      simp only [newNode] at hnn
      split at hnn
      · simp at hnn
      · split at hnn <;> simp only [Option.some.injEq] at hnn
        · right; exact ⟨_, hnn.symm⟩
        · left; exact ⟨_, hnn.symm⟩
    | float neg mag =>
      simp only [newNode] at hnn
      split at hnn <;> simp only [Option.some.injEq] at hnn
      · right; exact ⟨_, hnn.symm⟩
      · left; exact ⟨_, hnn.symm⟩
    | complex r =>
      simp only [newNode] at hnn
      split at hnn
      · simp at hnn
      · split at hnn
        · split at hnn
          · split at hnn
            · simp only [Option.some.injEq] at hnn; right; exact ⟨_, hnn.symm⟩
            · simp at hnn
          · simp at hnn
        · simp only [Option.some.injEq] at hnn; left; exact ⟨_, hnn.symm⟩

theorem fold_nameOf (t : PrecTable) (sp : Spacing) (orc : Oracle) (e : Expr) (h : nameOf e = none) :
    nameOf (foldE t sp orc e) = none := by
  cases e
  case name => simp [nameOf] at h
  case binOp l op r =>
    simp only [foldE]
    rcases foldBinOp_shape t sp orc (foldE t sp orc l) op (foldE t sp orc r) with h1 | ⟨c, h1⟩ | ⟨c, h1⟩ <;> rw [h1] <;> rfl
  all_goals (simp only [foldE]; rfl)

theorem foldKeywords_nil (t : PrecTable) (sp : Spacing) (orc : Oracle) (ks : List Keyword) (h : foldKeywords t sp orc ks = []) : ks = [] := by
  cases ks with
  | nil => rfl
  | cons k rest => cases k; simp [foldKeywords] at h

theorem fold_asNameCall (t : PrecTable) (sp : Spacing) (orc : Oracle) (e : Expr) (h : asNameCall e = none) :
    asNameCall (foldE t sp orc e) = none := by
  cases e
  case call f args ks =>
    simp only [foldE]
    cases hf : nameOf f with
    | none =>
      have := fold_nameOf t sp orc f hf
      generalize foldE t sp orc f = f' at this
      cases f' <;> first | rfl | simp [nameOf] at this
    | some p =>
      obtain ⟨x, c⟩ := p
      rw [nameOf_some f x c hf] at h ⊢
      cases ks with
      | nil => simp [asNameCall] at h
      | cons k rest => cases k; simp [foldE, foldKeywords, asNameCall]
  case binOp l op r =>
    simp only [foldE]
    rcases foldBinOp_shape t sp orc (foldE t sp orc l) op (foldE t sp orc r) with h1 | ⟨c, h1⟩ | ⟨c, h1⟩ <;> rw [h1] <;> rfl
  all_goals (simp only [foldE]; rfl)

theorem foldArgs_names (t : PrecTable) (sp : Spacing) (orc : Oracle) : ∀ l : List Arg,
    (foldArgs t sp orc l).map argName = l.map argName
  | [] => by simp [foldArgs]
  | .mk n ann :: rest => by simp [foldArgs, foldArg, argName, foldArgs_names t sp orc rest]

theorem foldArgs_plain (t : PrecTable) (sp : Spacing) (orc : Oracle) : ∀ l : List Arg,
    (foldArgs t sp orc l).all argPlain = l.all argPlain
  | [] => by simp [foldArgs]
  | .mk n ann :: rest => by
    cases ann <;> simp [foldArgs, foldArg, foldO, argPlain, foldArgs_plain t sp orc rest]

theorem fold_params (t : PrecTable) (sp : Spacing) (orc : Oracle) (a : Arguments) :
    paramNames (foldArguments t sp orc a) = paramNames a := by
  obtain ⟨po, as, va, ko, kd, kw, ds⟩ := a
  simp only [foldArguments]
  cases va <;> cases ko <;> cases kd <;> cases kw <;> cases ds <;>
    simp only [paramNames, foldOptArg, foldArgs, foldOL, foldL]
  rw [List.all_append, List.all_append, foldArgs_plain, foldArgs_plain, List.map_append, List.map_append,
    foldArgs_names, foldArgs_names]


theorem fold_nameOf_eq (t : PrecTable) (sp : Spacing) (orc : Oracle) (e : Expr) : nameOf (foldE t sp orc e) = nameOf e := by
  cases hn : nameOf e with
  | none => exact fold_nameOf t sp orc e hn
  | some p => obtain ⟨x, c⟩ := p; rw [nameOf_some e x c hn]; simp [foldE, nameOf]

theorem fold_notTuple (t : PrecTable) (sp : Spacing) (orc : Oracle) (e : Expr) (h : isTuple e = false) :
    isTuple (foldE t sp orc e) = false := by
  cases e
  case tuple => simp [isTuple] at h
  case binOp l op r =>
    simp only [foldE]
    rcases foldBinOp_shape t sp orc (foldE t sp orc l) op (foldE t sp orc r) with h1 | ⟨c, h1⟩ | ⟨c, h1⟩ <;> rw [h1] <;> rfl
  all_goals (simp only [foldE]; rfl)

theorem isDebugTest_compare_left (l : Expr) (ops : List CmpOpK) (cs : List Expr) (h : isDebugTest (.compare l ops cs) = true) :
    ∃ c, l = .name "__debug__" c := by
  unfold isDebugTest at h
  split at h
  · rename_i heq; cases heq
  · rename_i heq; injection heq with h1 _ _; exact ⟨_, h1⟩
  · rename_i heq; injection heq with h1 _ _; exact ⟨_, h1⟩
  · rename_i heq; injection heq with h1 _ _; exact ⟨_, h1⟩
  · simp at h

theorem evalE_debug_compare (s : St) (c : Ctx) (ops : List CmpOpK) (cs : List Expr) :
    evalE s (.compare (.name "__debug__" c) ops cs) = none := by
  match ops, cs with
  | [op], [r] => simp [evalE]
  | [], _ => simp [evalE]
  | [_], [] => simp [evalE]
  | [_], _ :: _ :: _ => simp [evalE]
  | _ :: _ :: _, _ => simp [evalE]

/-- a comparison whose left side is not the name `__debug__` is an ordinary expression -/
theorem debugCmp_compare (l : Expr) (ops : List CmpOpK) (cs : List Expr) :
    debugCmp (.compare l ops cs) =
      (match nameOf l, ops, cs with
       | some (x, _), [op], [r] => if x == "__debug__" then some (op, r) else none
       | _, _, _ => none) := by
  cases l <;> try rfl
  rename_i x c
  match ops, cs with
  | [op], [r] => rfl
  | [], _ => rfl
  | [_], [] => rfl
  | [_], _ :: _ :: _ => rfl
  | _ :: _ :: _, _ => rfl

theorem fold_dbgCmp (t : PrecTable) (sp : Spacing) (orc : Oracle) (e : Expr) :
    debugCmp (foldE t sp orc e) = (debugCmp e).map (fun p => (p.1, foldE t sp orc p.2)) := by
  cases e
  case compare l ops cs =>
    simp only [foldE, foldL_eq_map]
    rw [debugCmp_compare, debugCmp_compare, fold_nameOf_eq]
    cases nameOf l with
    | none => rfl
    | some p =>
      obtain ⟨x, c⟩ := p
      match ops, cs with
      | [op], [r] => simp only [List.map]; split <;> rfl
      | [], _ => rfl
      | [_], [] => rfl
      | [_], _ :: _ :: _ => rfl
      | _ :: _ :: _, _ => rfl
  case binOp l op r =>
    simp only [foldE]
    rcases foldBinOp_shape t sp orc (foldE t sp orc l) op (foldE t sp orc r) with h | ⟨c, h⟩ | ⟨c, h⟩ <;> rw [h] <;> rfl
  all_goals (simp only [foldE]; rfl)

def foldMap (t : PrecTable) (sp : Spacing) (orc : Oracle) : ExprMap := ⟨foldE t sp orc, foldArguments t sp orc, false⟩

theorem operandVal_core (e : Expr) (v : FVal) (h : operandVal e = some v) : coreE e = true := by
  cases e <;> simp [operandVal] at h
  rfl

theorem foldBinOp_core (t : PrecTable) (sp : Spacing) (orc : Oracle) (l : Expr) (op : BinOpK) (r : Expr) :
    coreE (foldBinOp t sp orc l op r) = (coreE l && coreE r) := by
  by_cases hch : foldBinOp t sp orc l op r = .binOp l op r
  · rw [hch]; rfl
  · obtain ⟨lv, rv, _, hl, hr, _, _, _, _, _⟩ := foldBinOp_changed t sp orc l op r hch
    rw [operandVal_core l lv hl, operandVal_core r rv hr]
    rcases foldBinOp_shape t sp orc l op r with h1 | ⟨c, h1⟩ | ⟨c, h1⟩
    · exact absurd h1 hch
    · rw [h1]; rfl
    · rw [h1]; rfl

/-- folding neither makes nor unmakes a core expression -/
theorem fold_coreE (t : PrecTable) (sp : Spacing) (orc : Oracle) : (e : Expr) → coreE (foldE t sp orc e) = coreE e
  | .constant _ => by simp [foldE]
  | .name .. => by simp [foldE]
  | .unaryOp op v => by simp only [foldE, coreE]; exact fold_coreE t sp orc v
  | .binOp l op r => by
    simp only [foldE]
    rw [foldBinOp_core, fold_coreE t sp orc l, fold_coreE t sp orc r]; rfl
  | .compare l ops cs => by
    simp only [foldE, foldL_eq_map]
    match ops, cs with
    | [op], [r] => simp only [List.map, coreE]; rw [fold_coreE t sp orc l, fold_coreE t sp orc r]
    | [], _ => simp [coreE]
    | [_], [] => simp [coreE]
    | [_], _ :: _ :: _ => simp [coreE]
    | _ :: _ :: _, _ => simp [coreE]
  | .boolOp op vs => by
    simp only [foldE, foldL_eq_map]
    match vs with
    | [a, b] => simp only [List.map, coreE]; rw [fold_coreE t sp orc a, fold_coreE t sp orc b]
    | [] => simp [coreE]
    | [_] => simp [coreE]
    | _ :: _ :: _ :: _ => simp [coreE]
  | .ifExp c a b => by
    simp only [foldE, coreE]; rw [fold_coreE t sp orc c, fold_coreE t sp orc a, fold_coreE t sp orc b]
  | .namedExpr .. => by simp [foldE, coreE]
  | .lambda .. => by simp [foldE, coreE]
  | .dict .. => by simp [foldE, coreE]
  | .set _ => by simp [foldE, coreE]
  | .listComp .. => by simp [foldE, coreE]
  | .setComp .. => by simp [foldE, coreE]
  | .dictComp .. => by simp [foldE, coreE]
  | .generatorExp .. => by simp [foldE, coreE]
  | .await .. => by simp [foldE, coreE]
  | .yield .. => by simp [foldE, coreE]
  | .yieldFrom .. => by simp [foldE, coreE]
  | .call .. => by simp [foldE, coreE]
  | .joinedStr .. => by simp [foldE, coreE]
  | .attribute .. => by simp [foldE, coreE]
  | .subscript .. => by simp [foldE, coreE]
  | .starred .. => by simp [foldE, coreE]
  | .list .. => by simp [foldE, coreE]
  | .tuple .. => by simp [foldE, coreE]
  | .slice .. => by simp [foldE, coreE]
  | .paren .. => by simp [foldE, coreE]

theorem fold_exprOK (t : PrecTable) (sp : Spacing) (orc : Oracle) : ExprOK (foldMap t sp orc) where
  evalOK := fun s e h => foldE_evalE t sp orc s e h
  name := fun x c => by simp [foldMap, foldE]
  const := fun e h => by cases e <;> simp [isConst] at h; simp [foldMap, foldE]
  call := fun g c args => by simp [foldMap, foldE, foldKeywords, foldL_eq_map]
  notCall := fun e h => fold_asNameCall t sp orc e h
  notName := fun e h => fold_nameOf t sp orc e h
  params := fun a => fold_params t sp orc a
  handlerTy := fun ty => excKind_map _ (fold_nameOf_eq t sp orc) (fun es => by simp [foldE, foldL_eq_map]) (fold_notTuple t sp orc) ty
  dbgCmp := fold_dbgCmp t sp orc
  core := fold_coreE t sp orc

/-- constant folding of a whole module refines its PyCore behaviour, for any oracle -/
theorem run_foldModule (t : PrecTable) (sp : Spacing) (orc : Oracle) (n : Nat) (md : Module)
    (hcore : (run n md).ending ≠ "stuck") : run n (Minify.foldModule t sp orc md) = run n md :=
  run_map (foldMap t sp orc) (fold_exprOK t sp orc) n md hcore


/-! ### instance: positional-only parameters become ordinary parameters -/

open PMV.Transforms in
def posMap : ExprMap := ⟨ExprMap.mapE id mergePosonly, ExprMap.mapArguments id mergePosonly, true⟩

open PMV.Transforms in
theorem posE_homo : Homo (ExprMap.mapE id mergePosonly) (fun l op r => .binOp l op r) where
  const := fun c => by simp [ExprMap.mapE]
  name := fun x c => by simp [ExprMap.mapE]
  unary := fun op v => by simp [ExprMap.mapE]
  binOp := fun l op r => by simp [ExprMap.mapE]
  compare1 := fun l op r => by simp [ExprMap.mapE, ExprMap.mapL]
  boolOp2 := fun op a b => by simp [ExprMap.mapE, ExprMap.mapL]
  ifExp := fun c a b => by simp [ExprMap.mapE]
  step := fun _ _ _ _ _ => rfl

open PMV.Transforms in
theorem posL_eq_map : ∀ l : List Expr, ExprMap.mapL id mergePosonly l = l.map (ExprMap.mapE id mergePosonly)
  | [] => by simp [ExprMap.mapL]
  | e :: es => by simp [ExprMap.mapL, posL_eq_map es]

open PMV.Transforms in
theorem pos_nameOf (e : Expr) (h : nameOf e = none) : nameOf (ExprMap.mapE id mergePosonly e) = none := by
  cases e
  case name => simp [nameOf] at h
  all_goals (simp only [ExprMap.mapE, id]; rfl)

open PMV.Transforms in
theorem pos_asNameCall (e : Expr) (h : asNameCall e = none) : asNameCall (ExprMap.mapE id mergePosonly e) = none := by
  cases e
  case call f args ks =>
    simp only [ExprMap.mapE, id]
    cases hf : nameOf f with
    | none =>
      have := pos_nameOf f hf
      generalize ExprMap.mapE id mergePosonly f = f' at this
      cases f' <;> first | rfl | simp [nameOf] at this
    | some p =>
      obtain ⟨x, c⟩ := p
      rw [nameOf_some f x c hf] at h ⊢
      cases ks with
      | nil => simp [asNameCall] at h
      | cons k rest => cases k; simp [ExprMap.mapE, ExprMap.mapKeywords, asNameCall]
  all_goals (simp only [ExprMap.mapE, id]; rfl)

open PMV.Transforms in
theorem posArgs_names : ∀ l : List Arg, (ExprMap.mapArgs id mergePosonly l).map argName = l.map argName
  | [] => by simp [ExprMap.mapArgs]
  | .mk n ann :: rest => by simp [ExprMap.mapArgs, ExprMap.mapArg, argName, posArgs_names rest]

open PMV.Transforms in
theorem posArgs_plain : ∀ l : List Arg, (ExprMap.mapArgs id mergePosonly l).all argPlain = l.all argPlain
  | [] => by simp [ExprMap.mapArgs]
  | .mk n ann :: rest => by
    cases ann <;> simp [ExprMap.mapArgs, ExprMap.mapArg, ExprMap.mapO, argPlain, posArgs_plain rest]

open PMV.Transforms in
theorem pos_params (a : Arguments) : paramNames (ExprMap.mapArguments id mergePosonly a) = paramNames a := by
  obtain ⟨po, as, va, ko, kd, kw, ds⟩ := a
  simp only [ExprMap.mapArguments, mergePosonly]
  cases va <;> cases ko <;> cases kd <;> cases kw <;> cases ds <;>
    simp only [paramNames, ExprMap.mapOptArg, ExprMap.mapArgs, ExprMap.mapOL, ExprMap.mapL, List.nil_append]
  rw [List.all_append, List.all_append, posArgs_plain, posArgs_plain, List.map_append, List.map_append,
    posArgs_names, posArgs_names]

open PMV.Transforms in
theorem pos_nameOf_eq (e : Expr) : nameOf (ExprMap.mapE id mergePosonly e) = nameOf e := by
  cases hn : nameOf e with
  | none => exact pos_nameOf e hn
  | some p => obtain ⟨x, c⟩ := p; rw [nameOf_some e x c hn]; simp [ExprMap.mapE, nameOf]

open PMV.Transforms in
theorem pos_notTuple (e : Expr) (h : isTuple e = false) : isTuple (ExprMap.mapE id mergePosonly e) = false := by
  cases e
  case tuple => simp [isTuple] at h
  all_goals (simp only [ExprMap.mapE, id]; rfl)

open PMV.Transforms in
theorem pos_dbgCmp (e : Expr) :
    debugCmp (ExprMap.mapE id mergePosonly e) = (debugCmp e).map (fun p => (p.1, ExprMap.mapE id mergePosonly p.2)) := by
  cases e
  case compare l ops cs =>
    simp only [ExprMap.mapE, id, posL_eq_map]
    rw [debugCmp_compare, debugCmp_compare, pos_nameOf_eq]
    cases nameOf l with
    | none => rfl
    | some p =>
      obtain ⟨x, c⟩ := p
      match ops, cs with
      | [op], [r] => simp only [List.map]; split <;> rfl
      | [], _ => rfl
      | [_], [] => rfl
      | [_], _ :: _ :: _ => rfl
      | _ :: _ :: _, _ => rfl
  all_goals (simp only [ExprMap.mapE, id]; rfl)

open PMV.Transforms in
theorem pos_coreE : (e : Expr) → coreE (ExprMap.mapE id mergePosonly e) = coreE e
  | .constant _ => by simp [ExprMap.mapE]
  | .name .. => by simp [ExprMap.mapE]
  | .unaryOp op v => by simp only [ExprMap.mapE, id, coreE]; exact pos_coreE v
  | .binOp l op r => by simp only [ExprMap.mapE, id, coreE]; rw [pos_coreE l, pos_coreE r]
  | .compare l ops cs => by
    simp only [ExprMap.mapE, id, posL_eq_map]
    match ops, cs with
    | [op], [r] => simp only [List.map, coreE]; rw [pos_coreE l, pos_coreE r]
    | [], _ => simp [coreE]
    | [_], [] => simp [coreE]
    | [_], _ :: _ :: _ => simp [coreE]
    | _ :: _ :: _, _ => simp [coreE]
  | .boolOp op vs => by
    simp only [ExprMap.mapE, id, posL_eq_map]
    match vs with
    | [a, b] => simp only [List.map, coreE]; rw [pos_coreE a, pos_coreE b]
    | [] => simp [coreE]
    | [_] => simp [coreE]
    | _ :: _ :: _ :: _ => simp [coreE]
  | .ifExp c a b => by simp only [ExprMap.mapE, id, coreE]; rw [pos_coreE c, pos_coreE a, pos_coreE b]
  | .namedExpr .. => by simp [ExprMap.mapE, coreE]
  | .lambda .. => by simp [ExprMap.mapE, coreE]
  | .dict .. => by simp [ExprMap.mapE, coreE]
  | .set _ => by simp [ExprMap.mapE, coreE]
  | .listComp .. => by simp [ExprMap.mapE, coreE]
  | .setComp .. => by simp [ExprMap.mapE, coreE]
  | .dictComp .. => by simp [ExprMap.mapE, coreE]
  | .generatorExp .. => by simp [ExprMap.mapE, coreE]
  | .await .. => by simp [ExprMap.mapE, coreE]
  | .yield .. => by simp [ExprMap.mapE, coreE]
  | .yieldFrom .. => by simp [ExprMap.mapE, coreE]
  | .call .. => by simp [ExprMap.mapE, coreE]
  | .joinedStr .. => by simp [ExprMap.mapE, coreE]
  | .attribute .. => by simp [ExprMap.mapE, coreE]
  | .subscript .. => by simp [ExprMap.mapE, coreE]
  | .starred .. => by simp [ExprMap.mapE, coreE]
  | .list .. => by simp [ExprMap.mapE, coreE]
  | .tuple .. => by simp [ExprMap.mapE, coreE]
  | .slice .. => by simp [ExprMap.mapE, coreE]
  | .paren .. => by simp [ExprMap.mapE, coreE]

open PMV.Transforms in
theorem pos_exprOK : ExprOK posMap where
  evalOK := fun s e h => homo_evalE _ _ posE_homo s e h
  name := fun x c => by simp [posMap, ExprMap.mapE]
  const := fun e h => by cases e <;> simp [isConst] at h; simp [posMap, ExprMap.mapE]
  call := fun g c args => by simp [posMap, ExprMap.mapE, ExprMap.mapKeywords, posL_eq_map]
  notCall := fun e h => pos_asNameCall e h
  notName := fun e h => pos_nameOf e h
  params := fun a => pos_params a
  handlerTy := fun ty => excKind_map _ pos_nameOf_eq (fun es => by simp [ExprMap.mapE, posL_eq_map]) pos_notTuple ty
  dbgCmp := pos_dbgCmp
  core := pos_coreE

/-- positional-only conversion refines the PyCore behaviour of a whole module -/
theorem run_removePosargs (n : Nat) (md : Module) (hcore : (run n md).ending ≠ "stuck") :
    run n (Transforms.removePosargs md) = run n md :=
  run_map posMap pos_exprOK n md hcore

end PMV.PyCore

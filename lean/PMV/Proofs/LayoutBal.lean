import PMV.Proofs.LayoutIndent
/-
  Brackets are balanced in everything the expression printer emits, hence in every header and simple statement: a line
  break of the layout is never inside an open bracket (where the tokenizer would ignore it).
-/
namespace PMV.Spec.Layout
open PMV PMV.Token PMV.Printer

/-- balanced bracket structure of a token list (any token that is not a bracket counts as balanced on its own) -/
inductive Bal : List Tok → Prop
  | nil : Bal []
  | tok (t : Tok) (h : ∀ s, t ≠ .delim s) : Bal [t]
  | delim (s : String) (h : s ≠ "(" ∧ s ≠ ")" ∧ s ≠ "[" ∧ s ≠ "]" ∧ s ≠ "{" ∧ s ≠ "}") : Bal [.delim s]
  | paren {xs : List Tok} : Bal xs → Bal (.delim "(" :: xs ++ [.delim ")"])
  | brack {xs : List Tok} : Bal xs → Bal (.delim "[" :: xs ++ [.delim "]"])
  | brace {xs : List Tok} : Bal xs → Bal (.delim "{" :: xs ++ [.delim "}"])
  | append {a b : List Tok} : Bal a → Bal b → Bal (a ++ b)

theorem Bal.cons_tok {t : Tok} (h : ∀ s, t ≠ .delim s) {xs : List Tok} (hx : Bal xs) : Bal (t :: xs) :=
  Bal.append (Bal.tok t h) hx

theorem Bal.cons_delim {s : String} (h : s ≠ "(" ∧ s ≠ ")" ∧ s ≠ "[" ∧ s ≠ "]" ∧ s ≠ "{" ∧ s ≠ "}") {xs : List Tok} (hx : Bal xs) :
    Bal (.delim s :: xs) :=
  Bal.append (Bal.delim s h) hx

theorem Bal.kw (k : String) {xs : List Tok} (hx : Bal xs) : Bal (.kw k :: xs) := Bal.cons_tok (fun _ e => by cases e) hx
theorem Bal.op (k : String) {xs : List Tok} (hx : Bal xs) : Bal (.op k :: xs) := Bal.cons_tok (fun _ e => by cases e) hx
theorem Bal.ident (k : String) {xs : List Tok} (hx : Bal xs) : Bal (.ident k :: xs) := Bal.cons_tok (fun _ e => by cases e) hx
theorem Bal.comma {xs : List Tok} (hx : Bal xs) : Bal (.delim "," :: xs) := Bal.cons_delim (by decide) hx
theorem Bal.colon {xs : List Tok} (hx : Bal xs) : Bal (.delim ":" :: xs) := Bal.cons_delim (by decide) hx
theorem Bal.eq {xs : List Tok} (hx : Bal xs) : Bal (.delim "=" :: xs) := Bal.cons_delim (by decide) hx
theorem Bal.dot {xs : List Tok} (hx : Bal xs) : Bal (.delim "." :: xs) := Bal.cons_delim (by decide) hx
theorem Bal.arrow {xs : List Tok} (hx : Bal xs) : Bal (.delim "->" :: xs) := Bal.cons_delim (by decide) hx
theorem Bal.bar {xs : List Tok} (hx : Bal xs) : Bal (.delim "|" :: xs) := Bal.cons_delim (by decide) hx

/-- `( xs )` followed by more -/
theorem Bal.paren_then {xs ys : List Tok} (hx : Bal xs) (hy : Bal ys) : Bal (.delim "(" :: xs ++ .delim ")" :: ys) := by
  have := Bal.append (Bal.paren hx) hy
  simpa [List.append_assoc] using this
theorem Bal.brack_then {xs ys : List Tok} (hx : Bal xs) (hy : Bal ys) : Bal (.delim "[" :: xs ++ .delim "]" :: ys) := by
  have := Bal.append (Bal.brack hx) hy
  simpa [List.append_assoc] using this

def BalAll (xs : List (List Tok)) : Prop := ∀ x ∈ xs, Bal x
def BalOpts (xs : List (Option (List Tok))) : Prop := ∀ x ∈ xs, ∀ y, x = some y → Bal y

theorem BalAll.nil : BalAll [] := fun _ h => by cases h
theorem BalAll.cons {x : List Tok} {xs : List (List Tok)} (hx : Bal x) (hxs : BalAll xs) : BalAll (x :: xs) := by
  intro y hy
  rcases List.mem_cons.mp hy with rfl | h
  · exact hx
  · exact hxs y h
theorem BalAll.append {a b : List (List Tok)} (ha : BalAll a) (hb : BalAll b) : BalAll (a ++ b) := by
  intro y hy
  rcases List.mem_append.mp hy with h | h
  · exact ha y h
  · exact hb y h
theorem BalAll.head {x : List Tok} {xs : List (List Tok)} (h : BalAll (x :: xs)) : Bal x := h x List.mem_cons_self
theorem BalAll.tail {x : List Tok} {xs : List (List Tok)} (h : BalAll (x :: xs)) : BalAll xs := fun y hy => h y (List.mem_cons_of_mem _ hy)
theorem BalOpts.nil : BalOpts [] := fun _ h => by cases h
theorem BalOpts.cons_none {xs : List (Option (List Tok))} (hxs : BalOpts xs) : BalOpts (none :: xs) := by
  intro x hx y hy
  rcases List.mem_cons.mp hx with rfl | h
  · cases hy
  · exact hxs x h y hy
theorem BalOpts.cons_some {x : List Tok} {xs : List (Option (List Tok))} (hx : Bal x) (hxs : BalOpts xs) : BalOpts (some x :: xs) := by
  intro z hz y hy
  rcases List.mem_cons.mp hz with rfl | h
  · cases hy; exact hx
  · exact hxs z h y hy
theorem BalOpts.tail {x : Option (List Tok)} {xs : List (Option (List Tok))} (h : BalOpts (x :: xs)) : BalOpts xs :=
  fun z hz y hy => h z (List.mem_cons_of_mem _ hz) y hy
theorem BalOpts.head {x : List Tok} {xs : List (Option (List Tok))} (h : BalOpts (some x :: xs)) : Bal x :=
  h (some x) List.mem_cons_self x rfl

theorem commaSep_bal : (xs : List (List Tok)) → BalAll xs → Bal (commaSep xs)
  | [], _ => Bal.nil
  | [x], h => by simpa [commaSep] using h.head
  | x :: y :: rest, h => by
    simp only [commaSep]
    exact Bal.append h.head (Bal.comma (commaSep_bal (y :: rest) h.tail))

theorem joinWith_bal (sep : Tok) (hs : Bal [sep]) : (xs : List (List Tok)) → BalAll xs → Bal (joinWith sep xs)
  | [], _ => Bal.nil
  | [x], h => by simpa [joinWith] using h.head
  | x :: y :: rest, h => by
    simp only [joinWith]
    exact Bal.append h.head (Bal.append hs (joinWith_bal sep hs (y :: rest) h.tail))

theorem dictItems_bal : (ks : List (Option (List Tok))) → (vs : List (List Tok)) → BalOpts ks → BalAll vs → BalAll (dictItems ks vs)
  | [], _, _, _ => by simp [dictItems]; exact BalAll.nil
  | none :: ks, [], _, _ => by simp [dictItems]; exact BalAll.nil
  | some _ :: ks, [], _, _ => by simp [dictItems]; exact BalAll.nil
  | none :: ks, v :: vs, hk, hv => by
    simp only [dictItems]
    exact BalAll.cons (Bal.op _ hv.head) (dictItems_bal ks vs hk.tail hv.tail)
  | some k :: ks, v :: vs, hk, hv => by
    simp only [dictItems]
    exact BalAll.cons (Bal.append hk.head (Bal.colon hv.head)) (dictItems_bal ks vs hk.tail hv.tail)

theorem tupleToks_bal (xs : List (List Tok)) (h : BalAll xs) : Bal (tupleToks xs) := by
  match xs, h with
  | [], _ => exact Bal.paren Bal.nil
  | [x], h => simp only [tupleToks]; exact Bal.append h.head (Bal.comma Bal.nil)
  | x :: y :: rest, h => simpa [tupleToks] using commaSep_bal _ h

theorem posArgToks_bal : (as : List (List Tok)) → (n : Nat) → (ds : List (List Tok)) → (p : Nat) → BalAll as → BalAll ds →
    BalAll (posArgToks as n ds p)
  | [], _, _, _, _, _ => by simp [posArgToks]; exact BalAll.nil
  | a :: as, 0, d :: ds, p, ha, hd => by
    simp only [posArgToks]
    refine BalAll.cons ?_ (posArgToks_bal as 0 ds (p - 1) ha.tail hd.tail)
    by_cases hp : (p == 1) = true
    · simp only [hp, if_true]
      have := Bal.append ha.head (Bal.eq (Bal.append hd.head (Bal.comma (Bal.op "/" Bal.nil))))
      simpa [List.append_assoc] using this
    · simp only [hp, Bool.false_eq_true, if_false, List.append_nil]
      exact Bal.append ha.head (Bal.eq hd.head)
  | a :: as, 0, [], p, ha, hd => by
    simp only [posArgToks]
    refine BalAll.cons ?_ (posArgToks_bal as 0 [] (p - 1) ha.tail hd)
    by_cases hp : (p == 1) = true
    · simp only [hp, if_true]; exact Bal.append ha.head (Bal.comma (Bal.op "/" Bal.nil))
    · simp only [hp, Bool.false_eq_true, if_false, List.append_nil]; exact ha.head
  | a :: as, n + 1, ds, p, ha, hd => by
    simp only [posArgToks]
    refine BalAll.cons ?_ (posArgToks_bal as n ds (p - 1) ha.tail hd)
    by_cases hp : (p == 1) = true
    · simp only [hp, if_true]; exact Bal.append ha.head (Bal.comma (Bal.op "/" Bal.nil))
    · simp only [hp, Bool.false_eq_true, if_false, List.append_nil]; exact ha.head

theorem kwOnlyToks_bal : (as : List (List Tok)) → (ds : List (Option (List Tok))) → BalAll as → BalOpts ds → Bal (kwOnlyToks as ds)
  | [], _, _, _ => by simp [kwOnlyToks]; exact Bal.nil
  | a :: as, none :: ds, ha, hd => by
    simp only [kwOnlyToks, List.append_nil]
    exact Bal.comma (Bal.append ha.head (kwOnlyToks_bal as ds ha.tail hd.tail))
  | a :: as, some d :: ds, ha, hd => by
    simp only [kwOnlyToks]
    have := Bal.comma (Bal.append (Bal.append ha.head (Bal.eq hd.head)) (kwOnlyToks_bal as ds ha.tail hd.tail))
    simpa [List.append_assoc] using this
  | a :: as, [], ha, _ => by
    simp only [kwOnlyToks]
    exact Bal.comma (Bal.append ha.head (kwOnlyToks_bal as [] ha.tail BalOpts.nil))

theorem binOpTok_bal (op : BinOpK) : Bal [binOpTok op] := by cases op <;> exact Bal.tok _ (fun _ e => by cases e)
theorem unaryOpTok_bal (op : UnaryOpK) : Bal [unaryOpTok op] := by cases op <;> exact Bal.tok _ (fun _ e => by cases e)
theorem boolOpTok_bal (op : BoolOpK) : Bal [boolOpTok op] := by cases op <;> exact Bal.tok _ (fun _ e => by cases e)
theorem cmpOpToks_bal (op : CmpOpK) : Bal (cmpOpToks op) := by
  cases op <;> first | exact Bal.tok _ (fun _ e => by cases e) | exact Bal.kw _ (Bal.kw _ Bal.nil)
theorem constToks_bal (c : Const) : Bal (constToks c) := by
  cases c <;> first | exact Bal.tok _ (fun _ e => by cases e) | exact Bal.dot (Bal.dot (Bal.dot Bal.nil))


theorem Bal.snoc_close {o c : String} {xs : List Tok} (h : Bal (.delim o :: xs ++ [.delim c])) : Bal (.delim o :: (xs ++ [.delim c])) := by
  simpa using h

theorem flat_call_bal (f : Expr) (as : List Expr) (ks : List Keyword) (h1 : Bal (flat f))
    (h3 : BalAll (flatEach as)) (h4 : BalAll (flatKeywords ks)) : Bal (flat (.call f as ks)) := by
  have h2 := commaSep_bal _ (h3.append h4)
  have gen : Bal (flat f ++ .delim "(" :: commaSep (flatEach as ++ flatKeywords ks) ++ [.delim ")"]) := by
    have := Bal.append h1 (Bal.paren h2)
    simpa [List.append_assoc] using this
  cases as with
  | nil => simpa [flat] using gen
  | cons a rest =>
    cases rest with
    | cons b rest' => simpa [flat] using gen
    | nil =>
      cases ks with
      | cons k ks' => simpa [flat] using gen
      | nil =>
        cases a with
        | generatorExp e gs =>
          have hg : Bal (flat (.generatorExp e gs)) := h3.head
          simp only [flat] at hg ⊢
          have := Bal.append h1 hg
          simpa [List.append_assoc] using this
        | _ => simpa [flat] using gen

mutual
theorem flat_bal : (e : Expr) → Bal (flat e)
  | .boolOp op vs => by rw [flat]; exact joinWith_bal _ (boolOpTok_bal op) _ (flatEach_bal vs)
  | .namedExpr tg v => by rw [flat]; exact Bal.append (flat_bal tg) (Bal.op _ (flat_bal v))
  | .binOp l op r => by rw [flat]; exact Bal.append (flat_bal l) (Bal.append (binOpTok_bal op) (flat_bal r))
  | .unaryOp op v => by rw [flat]; exact Bal.append (unaryOpTok_bal op) (flat_bal v)
  | .lambda a b => by
    rw [flat]
    have := Bal.kw "lambda" (Bal.append (flatArguments_bal a) (Bal.colon (flat_bal b)))
    simpa [List.append_assoc] using this
  | .ifExp c b o => by
    rw [flat]
    have := Bal.append (flat_bal b) (Bal.kw "if" (Bal.append (flat_bal c) (Bal.kw "else" (flat_bal o))))
    simpa [List.append_assoc] using this
  | .dict ks vs => by
    rw [flat]; exact Bal.brace (commaSep_bal _ (dictItems_bal _ _ (flatOptEach_bal ks) (flatEach_bal vs)))
  | .set es => by rw [flat]; exact Bal.brace (commaSep_bal _ (flatEach_bal es))
  | .listComp e gs => by
    rw [flat]
    have := Bal.brack (Bal.append (flat_bal e) (flatComps_bal gs))
    simpa [List.append_assoc] using this
  | .setComp e gs => by
    rw [flat]
    have := Bal.brace (Bal.append (flat_bal e) (flatComps_bal gs))
    simpa [List.append_assoc] using this
  | .dictComp k v gs => by
    rw [flat]
    have := Bal.brace (Bal.append (flat_bal k) (Bal.colon (Bal.append (flat_bal v) (flatComps_bal gs))))
    simpa [List.append_assoc] using this
  | .generatorExp e gs => by
    rw [flat]
    have := Bal.paren (Bal.append (flat_bal e) (flatComps_bal gs))
    simpa [List.append_assoc] using this
  | .await v => by rw [flat]; exact Bal.kw _ (flat_bal v)
  | .yield v => by rw [flat]; exact Bal.kw _ (flatOpt_bal v)
  | .yieldFrom v => by rw [flat]; exact Bal.kw _ (Bal.kw _ (flat_bal v))
  | .compare l ops cs => by rw [flat]; exact Bal.append (flat_bal l) (flatCompareRest_bal ops cs)
  | .call f as ks => flat_call_bal f as ks (flat_bal f) (flatEach_bal as) (flatKeywords_bal ks)
  | .joinedStr s ps => by rw [flat]; exact Bal.tok _ (fun _ e => by cases e)
  | .constant c => by rw [flat]; exact constToks_bal c
  | .attribute v a => by rw [flat]; exact Bal.append (flat_bal v) (Bal.dot (Bal.ident _ Bal.nil))
  | .subscript v s => by
    rw [flat]
    have := Bal.append (flat_bal v) (Bal.brack (flat_bal s))
    simpa [List.append_assoc] using this
  | .starred v => by rw [flat]; exact Bal.op _ (flat_bal v)
  | .name i c => by rw [flat]; exact Bal.tok _ (fun _ e => by cases e)
  | .list es => by rw [flat]; exact Bal.brack (commaSep_bal _ (flatEach_bal es))
  | .tuple es => by rw [flat]; exact tupleToks_bal _ (flatEach_bal es)
  | .slice l u s => by
    cases s with
    | none => simpa [flat] using Bal.append (flatOpt_bal l) (Bal.colon (flatOpt_bal u))
    | some x =>
      have := Bal.append (flatOpt_bal l) (Bal.colon (Bal.append (flatOpt_bal u) (Bal.colon (flat_bal x))))
      simpa [flat, List.append_assoc] using this
  | .paren e => by rw [flat]; exact Bal.paren (flat_bal e)
theorem flatEach_bal : (es : List Expr) → BalAll (flatEach es)
  | [] => BalAll.nil
  | e :: es => by rw [flatEach]; exact BalAll.cons (flat_bal e) (flatEach_bal es)
theorem flatOpt_bal : (e : Option Expr) → Bal (flatOpt e)
  | none => Bal.nil
  | some e => by rw [flatOpt]; exact flat_bal e
theorem flatCompareRest_bal : (ops : List CmpOpK) → (cs : List Expr) → Bal (flatCompareRest ops cs)
  | [], _ => by simp [flatCompareRest]; exact Bal.nil
  | _ :: _, [] => by simp [flatCompareRest]; exact Bal.nil
  | o :: os, c :: cs => by
    rw [flatCompareRest]
    have := Bal.append (cmpOpToks_bal o) (Bal.append (flat_bal c) (flatCompareRest_bal os cs))
    simpa [List.append_assoc] using this
theorem flatOptEach_bal : (es : List (Option Expr)) → BalOpts (flatOptEach es)
  | [] => BalOpts.nil
  | none :: es => by rw [flatOptEach]; exact BalOpts.cons_none (flatOptEach_bal es)
  | some e :: es => by rw [flatOptEach]; exact BalOpts.cons_some (flat_bal e) (flatOptEach_bal es)
theorem flatArgs_bal : (as : List Arg) → BalAll (flatArgs as)
  | [] => BalAll.nil
  | a :: as => by rw [flatArgs]; exact BalAll.cons (flatArg_bal a) (flatArgs_bal as)
theorem flatKeyword_bal : (k : Keyword) → Bal (flatKeyword k)
  | .mk none v => by rw [flatKeyword]; exact Bal.op _ (flat_bal v)
  | .mk (some a) v => by rw [flatKeyword]; exact Bal.ident _ (Bal.eq (flat_bal v))
theorem flatKeywords_bal : (ks : List Keyword) → BalAll (flatKeywords ks)
  | [] => BalAll.nil
  | k :: ks => by rw [flatKeywords]; exact BalAll.cons (flatKeyword_bal k) (flatKeywords_bal ks)
theorem flatComps_bal : (gs : List Comprehension) → Bal (flatComps gs)
  | [] => Bal.nil
  | .mk tg it ifs a :: gs => by
    rw [flatComps]
    have h := Bal.kw "for" (Bal.append (flat_bal tg) (Bal.kw "in" (Bal.append (flat_bal it) (Bal.append (flatCompIfs_bal ifs) (flatComps_bal gs)))))
    cases a with
    | false => simpa [List.append_assoc] using h
    | true => simpa [List.append_assoc] using Bal.kw "async" h
theorem flatCompIfs_bal : (cs : List Expr) → Bal (flatCompIfs cs)
  | [] => Bal.nil
  | c :: cs => by
    rw [flatCompIfs]
    have := Bal.kw "if" (Bal.append (flat_bal c) (flatCompIfs_bal cs))
    simpa [List.append_assoc] using this
theorem flatArg_bal : (a : Arg) → Bal (flatArg a)
  | .mk a none => by rw [flatArg]; exact Bal.tok _ (fun _ e => by cases e)
  | .mk a (some ann) => by rw [flatArg]; exact Bal.ident _ (Bal.colon (flat_bal ann))
theorem flatArguments_bal : (a : Arguments) → Bal (flatArguments a)
  | .mk po as va ko kd kw ds => by
    have hpos : BalAll (flatArgs po ++ flatArgs as) := (flatArgs_bal po).append (flatArgs_bal as)
    have hitems := posArgToks_bal (flatArgs po ++ flatArgs as) ((flatArgs po ++ flatArgs as).length - ds.length) (flatEach ds) po.length hpos (flatEach_bal ds)
    have hkwo := kwOnlyToks_bal (flatArgs ko) (flatOptEach kd) (flatArgs_bal ko) (flatOptEach_bal kd)
    unfold flatArguments
    apply commaSep_bal
    refine (hitems.append ?_).append ?_
    · cases va with
      | none =>
        by_cases hk : ko.isEmpty = true
        · simp only [hk, if_true]; exact BalAll.nil
        · simp only [hk, Bool.false_eq_true, if_false]; exact BalAll.cons (Bal.op _ hkwo) BalAll.nil
      | some v =>
        refine BalAll.cons ?_ BalAll.nil
        have := Bal.op "*" (Bal.append (flatArg_bal v) hkwo)
        simpa [List.append_assoc] using this
    · cases kw with
      | none => exact BalAll.nil
      | some k => exact BalAll.cons (Bal.op _ (flatArg_bal k)) BalAll.nil
end

theorem tExpr_bal (t : PrecTable) (e : Expr) : Bal (tExpr t e) := flat_bal _
theorem tTestlist_bal (t : PrecTable) (e : Expr) : Bal (tTestlist t e) := flat_bal _
theorem tValue_bal (t : PrecTable) (e : Expr) : Bal (tValue t e) := by
  unfold tValue; split <;> first | exact flat_bal _ | exact tTestlist_bal t _

end PMV.Spec.Layout

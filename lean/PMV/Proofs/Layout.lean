import PMV.Spec.Layout
/-
  T02.4: the layout machine, run over the token stream the statement printer emits, produces exactly the layout the
  specification `emitBody` describes.  This file: the machine on token lists, suites and clauses.
-/
namespace PMV.Spec.Layout
open PMV PMV.Token PMV.Printer

def NLay (xs : List Tok) : Prop := ∀ x ∈ xs, Spec.Lex.isLayout x = false

theorem NLay_of_nlay {xs : List Tok} (h : nlay xs = true) : NLay xs := by
  intro x hx
  have := List.all_eq_true.mp h x hx
  simpa using this

theorem NLay.append {a b : List Tok} (ha : NLay a) (hb : NLay b) : NLay (a ++ b) := by
  intro x hx
  rcases List.mem_append.mp hx with h | h
  · exact ha x h
  · exact hb x h

theorem NLay.cons {a : Tok} {b : List Tok} (ha : Spec.Lex.isLayout a = false) (hb : NLay b) : NLay (a :: b) := by
  intro x hx
  rcases List.mem_cons.mp hx with rfl | h
  · exact ha
  · exact hb x h

theorem NLay.nil : NLay [] := fun _ h => by cases h

theorem eff_nil (s : L0) : eff [] s = s := rfl
theorem eff_cons (x : Tok) (xs : List Tok) (s : L0) : eff (x :: xs) s = eff xs (l0step s x) := rfl
theorem eff_append (a b : List Tok) (s : L0) : eff (a ++ b) s = eff b (eff a s) := by
  unfold eff; exact List.foldl_append

theorem l0step_tok (s : L0) (x : Tok) (h : Spec.Lex.isLayout x = false) : l0step s x = ⟨.t x :: s.acc, s.indent⟩ := by
  cases x <;> first | rfl | (simp [Spec.Lex.isLayout] at h)

theorem eff_nlay (xs : List Tok) (h : NLay xs) (s : L0) : eff xs s = ⟨(T xs).reverse ++ s.acc, s.indent⟩ := by
  induction xs generalizing s with
  | nil => rfl
  | cons x xs ih =>
    rw [eff_cons, l0step_tok s x (h x List.mem_cons_self), ih (fun y hy => h y (List.mem_cons_of_mem _ hy))]
    simp [T]

/-- the list ends with a real token -/
def EndsT (l : List LT) : Prop := ∃ pre tok, l = pre ++ [.t tok]

theorem EndsT.append_left (a : List LT) {b : List LT} (h : EndsT b) : EndsT (a ++ b) := by
  obtain ⟨pre, tok, rfl⟩ := h
  exact ⟨a ++ pre, tok, by simp⟩

theorem EndsT.cons (a : LT) {b : List LT} (h : EndsT b) : EndsT (a :: b) := EndsT.append_left [a] h

theorem EndsT_T {xs : List Tok} (h : xs ≠ []) : EndsT (T xs) := by
  obtain ⟨pre, x, rfl⟩ : ∃ pre x, xs = pre ++ [x] := ⟨xs.dropLast, xs.getLast h, (List.dropLast_concat_getLast h).symm⟩
  exact ⟨T pre, x, by simp [T]⟩

theorem EndsT.ne_nil {l : List LT} (h : EndsT l) : l ≠ [] := by
  obtain ⟨pre, tok, rfl⟩ := h; simp

/-- stripping the pending layout token in front of a reversed list that ends with a real token -/
theorem strip_pending {l : List LT} (h : EndsT l) (rest : List LT) :
    (l.reverse ++ rest).dropWhile LT.isLay = l.reverse ++ rest := by
  obtain ⟨pre, tok, rfl⟩ := h
  simp [List.dropWhile_cons, LT.isLay]

theorem rev_isEmpty {l : List LT} (h : EndsT l) (rest : List LT) : (l.reverse ++ rest).isEmpty = false := by
  obtain ⟨pre, tok, rfl⟩ := h
  simp

def pendS (d : Nat) (cmp : Bool) : LT := if cmp then .nl d else if d == 0 then .nl 0 else .semi

theorem pendS_isLay (d : Nat) (cmp : Bool) : (pendS d cmp).isLay = true := by
  unfold pendS
  split
  · rfl
  · split <;> rfl

/-- what a statement finds in front of it: a compound statement replaces the pending layout token by a line break -/
def commit (acc : List LT) (cmp : Bool) (d : Nat) : List LT :=
  if acc.isEmpty then [] else if cmp then .nl d :: acc.dropWhile LT.isLay else acc

theorem l0newline_eq (acc : List LT) (d : Nat) : l0newline ⟨acc, d⟩ = ⟨commit acc true d, d⟩ := by
  unfold l0newline commit
  cases acc <;> simp

/-- a line break after a pending layout token replaces it -/
theorem newline_after {l : List LT} (h : EndsT l) (p : LT) (hp : p.isLay = true) (rest : List LT) (d : Nat) :
    l0newline ⟨p :: (l.reverse ++ rest), d⟩ = ⟨.nl d :: (l.reverse ++ rest), d⟩ := by
  unfold l0newline
  simp [List.dropWhile_cons, hp, strip_pending h rest]

theorem newline_on {l : List LT} (h : EndsT l) (rest : List LT) (d : Nat) :
    l0newline ⟨l.reverse ++ rest, d⟩ = ⟨.nl d :: (l.reverse ++ rest), d⟩ := by
  unfold l0newline
  simp [rev_isEmpty h, strip_pending h rest]

def firstCmp : List Stmt → Bool
  | [] => false
  | s :: _ => isCompoundSyn s

def lastCmp : List Stmt → Bool
  | [] => false
  | [s] => isCompoundSyn s
  | _ :: rest => lastCmp rest

/-- the layout of a block -/
def ClaimL (t : PrecTable) (st : StmtTable) (body : List Stmt) : Prop :=
  (body ≠ [] → ∀ d, EndsT (emitBody t st d body)) ∧
  ∀ s : L0, body ≠ [] → eff (bodyToks t st body) s =
    ⟨pendS s.indent (lastCmp body) :: ((emitBody t st s.indent body).reverse ++ commit s.acc (firstCmp body) s.indent), s.indent⟩

/-- the layout of a clause: header tokens, colon, suite -/
def ClaimSuite (t : PrecTable) (st : StmtTable) (body : List Stmt) : Prop :=
  ∀ (B : List LT) (d : Nat) (hdr : List Tok), NLay hdr → hdr ≠ [] →
    eff (hdr ++ suiteWrap (body.any (isCompound st)) (bodyToks t st body)) ⟨B, d⟩ =
      ⟨.nl d :: ((T hdr ++ suiteStart d body ++ emitBody t st (d + 1) body).reverse ++ B), d⟩ ∧
    EndsT (T hdr ++ suiteStart d body ++ emitBody t st (d + 1) body)

theorem any_compound (st : StmtTable) (hst : ∀ s, isCompound st s = isCompoundSyn s) (body : List Stmt) :
    body.any (isCompound st) = body.any isCompoundSyn := by
  congr 1; funext s; exact hst s

theorem any_false_first {body : List Stmt} (h : body.any isCompoundSyn = false) : firstCmp body = false := by
  cases body with
  | nil => rfl
  | cons s ss => simp at h; exact h.1

theorem any_false_last {body : List Stmt} (h : body.any isCompoundSyn = false) : lastCmp body = false := by
  induction body with
  | nil => rfl
  | cons s ss ih =>
    cases ss with
    | nil => simp at h; simpa [lastCmp] using h
    | cons s' ss' =>
      simp only [lastCmp]
      apply ih
      simp at h ⊢
      exact h.2

theorem suite_of_body (t : PrecTable) (st : StmtTable) (hst : ∀ s, isCompound st s = isCompoundSyn s) (body : List Stmt)
    (hL : ClaimL t st body) : ClaimSuite t st body := by
  intro B d hdr hn hne
  have hE0 : EndsT (T hdr) := EndsT_T hne
  have hE : EndsT (T hdr ++ suiteStart d body ++ emitBody t st (d + 1) body) := by
    by_cases hb : body = []
    · subst hb; simpa [suiteStart, emitBody] using hE0
    · exact EndsT.append_left _ (hL.1 hb (d + 1))
  refine ⟨?_, hE⟩
  rw [eff_append, eff_nlay hdr hn, any_compound st hst]
  by_cases hb : body = []
  · subst hb
    simp only [List.any_nil, suiteWrap, Bool.false_eq_true, if_false, bodyToks, List.nil_append, suiteStart, emitBody,
      List.append_nil]
    simp only [List.cons_append, List.nil_append, eff_cons, eff_nil, l0step, Nat.add_sub_cancel]
    exact newline_on hE0 B d
  · have hbody := hL.2
    by_cases hblk : body.any isCompoundSyn = true
    · simp only [hblk, suiteWrap, if_true, suiteStart]
      rw [List.cons_append, List.cons_append, eff_cons, eff_cons, eff_append]
      simp only [l0step]
      rw [newline_on hE0 B (d + 1), hbody _ hb]
      simp only [eff_cons, eff_nil, l0step, Nat.add_sub_cancel]
      have hc : commit (.nl (d + 1) :: ((T hdr).reverse ++ B)) (firstCmp body) (d + 1) = .nl (d + 1) :: ((T hdr).reverse ++ B) := by
        unfold commit
        simp [List.dropWhile_cons, LT.isLay, strip_pending hE0 B]
      rw [hc]
      have := newline_after (hL.1 hb (d + 1)) (pendS (d + 1) (lastCmp body)) (pendS_isLay _ _) (.nl (d + 1) :: ((T hdr).reverse ++ B)) d
      rw [this]
      simp
    · have hblk' : body.any isCompoundSyn = false := by simpa using hblk
      simp only [hblk', suiteWrap, Bool.false_eq_true, if_false, suiteStart, List.append_nil]
      rw [List.cons_append, eff_cons, eff_append]
      simp only [l0step]
      rw [hbody _ hb]
      simp only [eff_cons, eff_nil, l0step, Nat.add_sub_cancel]
      have hc : commit ((T hdr).reverse ++ B) (firstCmp body) (d + 1) = (T hdr).reverse ++ B := by
        unfold commit
        simp [rev_isEmpty hE0 B, any_false_first hblk']
      rw [hc]
      have := newline_after (hL.1 hb (d + 1)) (pendS (d + 1) (lastCmp body)) (pendS_isLay _ _) ((T hdr).reverse ++ B) d
      rw [this]
      simp

end PMV.Spec.Layout

import PMV.Model.MiniString
import PMV.Spec.StrLex
namespace PMV.MiniString
open PMV.Spec.StrLex

/-- characters that are inert inside any string literal body -/
def inert (c : Nat) : Bool := c != 92 && c != 39 && c != 34 && c != 10 && c != 13

/-- a replacement text is a backslash pair followed by inert characters -/
def chunkOK : List Nat → Bool
  | 92 :: _ :: more => more.all inert
  | _ => false

/-- decidable obligation on the generated escape tables -/
def EscOK (t : EscTable) : Bool :=
  t.shortEscapesQuote && t.longEscapesQuote
  && (t.short.lookup 92).isSome && (t.short.lookup 10).isSome && (t.short.lookup 13).isSome
  && (t.long.lookup 92).isSome
  && t.short.all (fun kv => chunkOK kv.2) && t.long.all (fun kv => chunkOK kv.2)

theorem hexDigit_inert (d : Nat) (h : d < 16) : inert (hexDigit d) = true := by
  have : d = 0 ∨ d = 1 ∨ d = 2 ∨ d = 3 ∨ d = 4 ∨ d = 5 ∨ d = 6 ∨ d = 7 ∨ d = 8 ∨ d = 9 ∨ d = 10 ∨ d = 11
      ∨ d = 12 ∨ d = 13 ∨ d = 14 ∨ d = 15 := by omega
  rcases this with h | h | h | h | h | h | h | h | h | h | h | h | h | h | h | h <;> subst h <;> decide

theorem hexN_inert : ∀ (w v : Nat), (hexN w v).all inert = true
  | 0, _ => by simp [hexN]
  | w + 1, v => by
    simp only [hexN, List.all_append, List.all_cons, List.all_nil, Bool.and_true, Bool.and_eq_true]
    exact ⟨hexN_inert w (v / 16), hexDigit_inert _ (Nat.mod_lt _ (by omega))⟩

theorem lookup_mem {α} (l : List (Nat × α)) (k : Nat) (v : α) (h : l.lookup k = some v) : (k, v) ∈ l := by
  induction l with
  | nil => simp at h
  | cons hd tl ih =>
    obtain ⟨k', v'⟩ := hd
    simp only [List.lookup] at h
    split at h
    · rename_i heq
      simp only [beq_iff_eq] at heq
      cases h; subst heq; simp
    · exact List.mem_cons_of_mem _ (ih h)

theorem scanShort_cons (q c : Nat) (tl : List Nat) : scanShort q (c :: tl) =
    if c == 92 then (match tl with | _ :: r => scanShort q r | [] => none)
    else if c == q then some tl else if c == 10 || c == 13 then none else scanShort q tl := by
  rw [scanShort.eq_def]; rfl

theorem scanLong_cons (q c : Nat) (tl : List Nat) : scanLong q (c :: tl) =
    if c == 92 then (match tl with | _ :: r => scanLong q r | [] => none)
    else if c == q && tl.take 2 == [q, q] then some (tl.drop 2) else scanLong q tl := by
  rw [scanLong.eq_def]; rfl

/-! ### short strings -/

theorem scanShort_inert (q c : Nat) (tl : List Nat) (hq : q = 39 ∨ q = 34) (hc : inert c = true) :
    scanShort q (c :: tl) = scanShort q tl := by
  simp only [inert, Bool.and_eq_true, bne_iff_ne, ne_eq] at hc
  obtain ⟨⟨⟨⟨h1, h2⟩, h3⟩, h4⟩, h5⟩ := hc
  have hcq : c ≠ q := by rcases hq with rfl | rfl <;> assumption
  simp [scanShort_cons, h1, hcq, h4, h5]

theorem scanShort_inerts (q : Nat) (hq : q = 39 ∨ q = 34) : ∀ (more tl : List Nat), more.all inert = true →
    scanShort q (more ++ tl) = scanShort q tl
  | [], _, _ => rfl
  | c :: more, tl, h => by
    simp only [List.all_cons, Bool.and_eq_true] at h
    simp only [List.cons_append]
    rw [scanShort_inert q c _ hq h.1]
    exact scanShort_inerts q hq more tl h.2

theorem scanShort_chunk (q : Nat) (hq : q = 39 ∨ q = 34) (r tl : List Nat) (h : chunkOK r = true) :
    scanShort q (r ++ tl) = scanShort q tl := by
  match r, h with
  | 92 :: x :: more, h =>
    simp only [chunkOK] at h
    simp only [List.cons_append, scanShort_cons, beq_self_eq_true, if_true]
    exact scanShort_inerts q hq more tl h

theorem emitChar_short (t : EscTable) (hok : EscOK t = true) (q : Nat) (hq : q = 39 ∨ q = 34) (safe : Bool)
    (c : Nat) (tl : List Nat) :
    scanShort q (emitChar t.short t.shortEscapesQuote q safe c ++ tl) = scanShort q tl := by
  simp only [EscOK, Bool.and_eq_true] at hok
  obtain ⟨⟨⟨⟨⟨⟨⟨hsq, _⟩, h92⟩, h10⟩, h13⟩, _⟩, hall⟩, _⟩ := hok
  unfold emitChar
  cases hl : t.short.lookup c with
  | some r =>
    have := List.all_eq_true.mp hall (c, r) (lookup_mem _ _ _ hl)
    exact scanShort_chunk q hq r tl this
  | none =>
    simp only [hsq, Bool.true_and]
    by_cases hcq : c = q
    · subst hcq
      simp only [beq_self_eq_true, if_true]
      exact scanShort_chunk c hq [92, c] tl (by simp [chunkOK])
    · have hne : (c == q) = false := by simpa using hcq
      simp only [hne, Bool.false_eq_true, if_false]
      split
      · split
        · exact scanShort_chunk q hq _ tl (by simp [chunkOK, hexN_inert])
        · exact scanShort_chunk q hq _ tl (by simp [chunkOK, hexN_inert])
      · -- a raw character: not a key of the table, so none of backslash, LF, CR; and not the quote
        have n92 : c ≠ 92 := fun e => by subst e; simp [hl] at h92
        have n10 : c ≠ 10 := fun e => by subst e; simp [hl] at h10
        have n13 : c ≠ 13 := fun e => by subst e; simp [hl] at h13
        simp [scanShort_cons, n92, hcq, n10, n13]

/-- T12.1 (short): quote + to_short(s) + quote is exactly one string literal, for every string. -/
theorem toShort_closed (t : EscTable) (hok : EscOK t = true) (q : Nat) (hq : q = 39 ∨ q = 34) (safe : Bool)
    (rest : List Nat) : ∀ s : List Nat, scanShort q (toShort t q safe s ++ q :: rest) = some rest
  | [] => by
    have : q ≠ 92 := by rcases hq with rfl | rfl <;> decide
    simp [toShort, scanShort_cons, this]
  | c :: s => by
    have ih := toShort_closed t hok q hq safe rest s
    simp only [toShort, List.flatMap_cons, List.append_assoc] at ih ⊢
    rw [emitChar_short t hok q hq safe c]
    exact ih

/-! ### long strings -/

theorem scanLong_plain (q c : Nat) (tl : List Nat) (h1 : c ≠ 92) (h2 : c ≠ q) : scanLong q (c :: tl) = scanLong q tl := by
  simp [scanLong_cons, h1, h2]

theorem scanLong_inerts (q : Nat) (hq : q = 39 ∨ q = 34) : ∀ (more tl : List Nat), more.all inert = true →
    scanLong q (more ++ tl) = scanLong q tl
  | [], _, _ => rfl
  | c :: more, tl, h => by
    simp only [List.all_cons, Bool.and_eq_true] at h
    have hc := h.1
    simp only [inert, Bool.and_eq_true, bne_iff_ne, ne_eq] at hc
    obtain ⟨⟨⟨⟨h1, h2⟩, h3⟩, _⟩, _⟩ := hc
    have hcq : c ≠ q := by rcases hq with rfl | rfl <;> assumption
    simp only [List.cons_append]
    rw [scanLong_plain q c _ h1 hcq]
    exact scanLong_inerts q hq more tl h.2

theorem scanLong_chunk (q : Nat) (hq : q = 39 ∨ q = 34) (r tl : List Nat) (h : chunkOK r = true) :
    scanLong q (r ++ tl) = scanLong q tl := by
  match r, h with
  | 92 :: x :: more, h =>
    simp only [chunkOK] at h
    simp only [List.cons_append, scanLong_cons, beq_self_eq_true, if_true]
    exact scanLong_inerts q hq more tl h

theorem emitChar_long (t : EscTable) (hok : EscOK t = true) (q : Nat) (hq : q = 39 ∨ q = 34) (safe : Bool)
    (c : Nat) (tl : List Nat) :
    scanLong q (emitChar t.long t.longEscapesQuote q safe c ++ tl) = scanLong q tl := by
  simp only [EscOK, Bool.and_eq_true] at hok
  obtain ⟨⟨⟨⟨⟨⟨⟨_, hlq⟩, _⟩, _⟩, _⟩, h92⟩, _⟩, hall⟩ := hok
  unfold emitChar
  cases hl : t.long.lookup c with
  | some r =>
    have := List.all_eq_true.mp hall (c, r) (lookup_mem _ _ _ hl)
    exact scanLong_chunk q hq r tl this
  | none =>
    simp only [hlq, Bool.true_and]
    by_cases hcq : c = q
    · subst hcq
      simp only [beq_self_eq_true, if_true]
      exact scanLong_chunk c hq [92, c] tl (by simp [chunkOK])
    · have hne : (c == q) = false := by simpa using hcq
      simp only [hne, Bool.false_eq_true, if_false]
      split
      · split
        · exact scanLong_chunk q hq _ tl (by simp [chunkOK, hexN_inert])
        · exact scanLong_chunk q hq _ tl (by simp [chunkOK, hexN_inert])
      · have n92 : c ≠ 92 := fun e => by subst e; simp [hl] at h92
        exact scanLong_plain q c tl n92 hcq

/-- T12.1 (long): qqq + to_long(s) + qqq is exactly one string literal, for every string. -/
theorem toLong_closed (t : EscTable) (hok : EscOK t = true) (q : Nat) (hq : q = 39 ∨ q = 34) (safe : Bool)
    (rest : List Nat) : ∀ s : List Nat, scanLong q (toLong t q safe s ++ q :: q :: q :: rest) = some rest
  | [] => by
    have : q ≠ 92 := by rcases hq with rfl | rfl <;> decide
    simp [toLong, scanLong_cons, this]
  | c :: s => by
    have ih := toLong_closed t hok q hq safe rest s
    simp only [toLong, List.flatMap_cons, List.append_assoc] at ih ⊢
    rw [emitChar_long t hok q hq safe c]
    exact ih

end PMV.MiniString

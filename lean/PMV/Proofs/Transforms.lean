import PMV.Spec.Rewrites
/-
  C05 helper lemmas: the suite filters leave a block non-empty, only drop what they are meant to drop,
  and are absorbed by the documented-rewrite canonical form.
-/
namespace PMV.Transforms
open PMV PMV.Spec.Rewrites

/-! ### `filterSuite` by itself -/

theorem filterSuite_nonempty (q : Stmt → Bool) (b : List Stmt) : filterSuite q false b ≠ [] := by
  unfold filterSuite
  simp only
  split
  · simp
  · rename_i h; intro h'; rw [h'] at h; simp at h

theorem filterSuite_cases (q : Stmt → Bool) (m : Bool) (b : List Stmt) :
    filterSuite q m b = b.filter (fun s => !q s) ∨
    (b.filter (fun s => !q s) = [] ∧ m = false ∧ filterSuite q m b = [zeroStmt]) := by
  unfold filterSuite
  simp only
  split
  · rename_i h
    have he : b.filter (fun s => !q s) = [] := by simpa using h
    cases m
    · right; exact ⟨he, rfl, by simp⟩
    · left; simp [he]
  · left; rfl

/-- nothing that does not satisfy `q` is ever dropped, and order is kept -/
theorem filterSuite_keeps (q : Stmt → Bool) (m : Bool) (b : List Stmt) (s : Stmt) (hs : s ∈ b) (hq : q s = false) :
    s ∈ filterSuite q m b := by
  rcases filterSuite_cases q m b with h | ⟨h, _, _⟩
  · rw [h]; exact List.mem_filter.mpr ⟨hs, by simp [hq]⟩
  · have : s ∈ b.filter (fun s => !q s) := List.mem_filter.mpr ⟨hs, by simp [hq]⟩
    rw [h] at this; simp at this

/-! ### imports: combining never reorders and never loses an alias -/

def flattenImports : List Stmt → List Stmt
  | [] => []
  | .import_ names :: rest => names.map (fun a => Stmt.import_ [a]) ++ flattenImports rest
  | s :: rest => s :: flattenImports rest

theorem flatten_combineImport : ∀ b : List Stmt, flattenImports (combineImport b) = flattenImports b
  | [] => rfl
  | .import_ a :: rest => by
    have ih := flatten_combineImport rest
    simp only [combineImport]
    split
    · rename_i b rest' heq
      rw [heq] at ih
      simp only [flattenImports, List.map_append, List.append_assoc] at ih ⊢
      rw [ih]
    · simp only [flattenImports, ih]
  | .functionDef .. :: rest => by simp [combineImport, flattenImports, flatten_combineImport rest]
  | .classDef .. :: rest => by simp [combineImport, flattenImports, flatten_combineImport rest]
  | .return_ _ :: rest => by simp [combineImport, flattenImports, flatten_combineImport rest]
  | .delete _ :: rest => by simp [combineImport, flattenImports, flatten_combineImport rest]
  | .assign .. :: rest => by simp [combineImport, flattenImports, flatten_combineImport rest]
  | .typeAlias .. :: rest => by simp [combineImport, flattenImports, flatten_combineImport rest]
  | .augAssign .. :: rest => by simp [combineImport, flattenImports, flatten_combineImport rest]
  | .annAssign .. :: rest => by simp [combineImport, flattenImports, flatten_combineImport rest]
  | .for_ .. :: rest => by simp [combineImport, flattenImports, flatten_combineImport rest]
  | .while_ .. :: rest => by simp [combineImport, flattenImports, flatten_combineImport rest]
  | .if_ .. :: rest => by simp [combineImport, flattenImports, flatten_combineImport rest]
  | .with_ .. :: rest => by simp [combineImport, flattenImports, flatten_combineImport rest]
  | .match_ .. :: rest => by simp [combineImport, flattenImports, flatten_combineImport rest]
  | .raise_ .. :: rest => by simp [combineImport, flattenImports, flatten_combineImport rest]
  | .try_ .. :: rest => by simp [combineImport, flattenImports, flatten_combineImport rest]
  | .assert_ .. :: rest => by simp [combineImport, flattenImports, flatten_combineImport rest]
  | .importFrom .. :: rest => by simp [combineImport, flattenImports, flatten_combineImport rest]
  | .global _ :: rest => by simp [combineImport, flattenImports, flatten_combineImport rest]
  | .nonlocal _ :: rest => by simp [combineImport, flattenImports, flatten_combineImport rest]
  | .expr _ :: rest => by simp [combineImport, flattenImports, flatten_combineImport rest]
  | .pass :: rest => by simp [combineImport, flattenImports, flatten_combineImport rest]
  | .break_ :: rest => by simp [combineImport, flattenImports, flatten_combineImport rest]
  | .continue_ :: rest => by simp [combineImport, flattenImports, flatten_combineImport rest]

end PMV.Transforms

namespace PMV.Transforms
open PMV

/-- every `from m import a, b` split into `from m import a`, `from m import b` -/
def flatFrom : List Stmt → List Stmt
  | [] => []
  | s :: rest =>
    (match asImportFrom s with
     | some (m, a, l) => a.map (fun x => Stmt.importFrom m [x] l)
     | none => [s]) ++ flatFrom rest

def singles (prev : Option (Option String × Nat)) (acc : List Alias) : List Stmt :=
  match prev with
  | some (m, l) => acc.map (fun x => Stmt.importFrom m [x] l)
  | none => []

theorem flatFrom_append (a b : List Stmt) : flatFrom (a ++ b) = flatFrom a ++ flatFrom b := by
  induction a with
  | nil => rfl
  | cons s ss ih => simp [flatFrom, ih]

theorem flatFrom_flush (prev : Option (Option String × Nat)) (acc : List Alias) (h : acc ≠ [] → prev.isSome = true) :
    flatFrom (flushFrom prev acc) = singles prev acc := by
  cases prev with
  | none =>
    have : acc = [] := by
      by_cases ha : acc = []
      · exact ha
      · simpa using h ha
    subst this; simp [flushFrom, flatFrom, singles]
  | some ml =>
    obtain ⟨m, l⟩ := ml
    cases acc with
    | nil => simp [flushFrom, flatFrom, singles]
    | cons x xs => simp [flushFrom, flatFrom, singles, asImportFrom]

/-- T05.3 (imports): `_combine_import_from` neither reorders nor loses nor invents an imported name. -/
theorem flatFrom_combineFromAux : ∀ (b : List Stmt) (prev : Option (Option String × Nat)) (acc : List Alias),
    (acc ≠ [] → prev.isSome = true) → flatFrom (combineFromAux prev acc b) = singles prev acc ++ flatFrom b := by
  intro b
  induction b with
  | nil => intro prev acc h; simp [combineFromAux, flatFrom_flush prev acc h, flatFrom]
  | cons s rest ih =>
    intro prev acc h
    simp only [combineFromAux]
    cases hs : asImportFrom s with
    | none =>
      simp only [flatFrom_append, flatFrom_flush prev acc h, flatFrom, hs]
      rw [ih prev [] (by simp)]
      cases prev <;> simp [singles]
    | some mal =>
      obtain ⟨m, a, l⟩ := mal
      simp only
      by_cases hok : groupOK prev m a l = true
      · rw [if_pos hok, ih (some (m, l)) (acc ++ a) (by simp)]
        simp only [flatFrom, hs]
        unfold groupOK at hok
        simp only [Bool.and_eq_true, Bool.not_eq_true'] at hok
        cases prev with
        | none =>
          have : acc = [] := by
            by_cases ha : acc = []
            · exact ha
            · simpa using h ha
          subst this; simp [singles]
        | some ml' =>
          obtain ⟨m', l'⟩ := ml'
          have h2 := hok.2
          simp only [Bool.and_eq_true, beq_iff_eq] at h2
          obtain ⟨rfl, rfl⟩ := h2
          simp [singles, List.map_append]
      · rw [if_neg hok]
        simp only [flatFrom_append, flatFrom_flush prev acc h, flatFrom, hs]
        rw [ih prev [] (by simp)]
        cases prev <;> simp [singles]

theorem flatFrom_combineFrom (b : List Stmt) : flatFrom (combineFrom b) = flatFrom b := by
  unfold combineFrom
  rw [flatFrom_combineFromAux b none [] (by simp)]
  simp [singles]

end PMV.Transforms

namespace PMV.Transforms
open PMV PMV.Spec.Rewrites

/-- the canon erases nothing but statements (no debug splicing, import splitting, return / annotation /
    base / bracket rewriting): the setting of the three "drop a statement kind" options -/
structure FilterOnly (c : COpts) : Prop where
  debug : c.debug = false
  imports : c.imports = false
  returnNone : c.returnNone = false

theorem flatMap_single {α} (l : List α) : l.flatMap (fun s => [s]) = l := by
  induction l with
  | nil => rfl
  | cons x xs ih => simp [List.flatMap_cons, ih]

theorem debugSplice_id (c : COpts) (h : c.debug = false) (s : Stmt) : debugSplice c s = [s] := by
  cases s <;> simp [debugSplice, h]

theorem splitImport_id (c : COpts) (h : c.imports = false) (s : Stmt) : splitImport c s = [s] := by
  cases s <;> simp [splitImport, h]

theorem cSuite_filterOnly (c : COpts) (hc : FilterOnly c) (fb : Bool) (b : List Stmt) :
    cSuite c fb b = b.filter (fun s => !dropStmt c s) := by
  unfold cSuite
  have h1 : b.flatMap (debugSplice c) = b := by
    rw [show (debugSplice c) = (fun s => [s]) from funext (debugSplice_id c hc.debug)]; exact flatMap_single b
  simp only [h1]
  have h2 : ∀ l : List Stmt, l.flatMap (splitImport c) = l := fun l => by
    rw [show (splitImport c) = (fun s => [s]) from funext (splitImport_id c hc.imports)]; exact flatMap_single l
  simp only [h2, hc.returnNone, Bool.false_and, Bool.false_eq_true, if_false, List.filter_filter, Bool.and_self]

theorem cBody_filter (c : COpts) (cls : Option (List Expr × List Expr)) (q : Stmt → Bool)
    (hqc : ∀ s, q (cStmt c cls s) = q s) : ∀ b : List Stmt,
    cBody c cls (b.filter (fun s => !q s)) = (cBody c cls b).filter (fun s => !q s)
  | [] => by simp [cBody]
  | s :: ss => by
    simp only [List.filter_cons, cBody]
    cases h : q s
    · simp [cBody, hqc, h, cBody_filter c cls q hqc ss]
    · simp [hqc, h, cBody_filter c cls q hqc ss]

theorem cBody_all (c : COpts) (cls : Option (List Expr × List Expr)) (q : Stmt → Bool)
    (hqc : ∀ s, q (cStmt c cls s) = q s) : ∀ b : List Stmt, b.filter (fun s => !q s) = [] →
    (cBody c cls b).filter (fun s => !q s) = []
  | [], _ => by simp [cBody]
  | s :: ss, h => by
    simp only [List.filter_cons] at h
    cases hs : q s
    · simp [hs] at h
    · simp only [hs, Bool.not_true, Bool.false_eq_true, if_false] at h
      simp [cBody, hqc, hs, cBody_all c cls q hqc ss h]

/-- The suite-level step: canonicalising after `filterSuite` equals canonicalising without it. -/
theorem cSuite_filterSuite (c : COpts) (hc : FilterOnly c) (cls : Option (List Expr × List Expr)) (q : Stmt → Bool)
    (hq : ∀ s, q s = true → dropStmt c s = true) (hz : dropStmt c zeroStmt = true)
    (hqc : ∀ s, q (cStmt c cls s) = q s) (hzc : cStmt c cls zeroStmt = zeroStmt)
    (fb m : Bool) (ys : List Stmt) :
    cSuite c fb (cBody c cls (filterSuite q m ys)) = cSuite c fb (cBody c cls ys) := by
  rw [cSuite_filterOnly c hc, cSuite_filterOnly c hc]
  have hsub : ∀ l : List Stmt, (l.filter (fun s => !q s)).filter (fun s => !dropStmt c s) = l.filter (fun s => !dropStmt c s) := by
    intro l
    rw [List.filter_filter]
    apply List.filter_congr
    intro s _
    cases hqs : q s
    · simp
    · simp [hq s hqs]
  rcases filterSuite_cases q m ys with h | ⟨hnil, _, h⟩
  · rw [h, cBody_filter c cls q hqc, hsub]
  · rw [h]
    have hall := cBody_all c cls q hqc ys hnil
    have : (cBody c cls ys).filter (fun s => !dropStmt c s) = [] := by
      rw [← hsub, hall]; rfl
    rw [this]
    simp [cBody, hzc, hz]

end PMV.Transforms

namespace PMV.Transforms
open PMV PMV.Spec.Rewrites

/-- the transformer that drops the statements satisfying `q` -/
def dropT (q : Stmt → Bool) : SuiteT := { suiteF := filterSuite q }

@[simp] theorem dropT_suiteF (q : Stmt → Bool) : (dropT q).suiteF = filterSuite q := rfl
@[simp] theorem dropT_stmtF (q : Stmt → Bool) (s : Stmt) : (dropT q).stmtF s = s := rfl
@[simp] theorem dropT_funcBodyF (q : Stmt → Bool) (b : List Stmt) : (dropT q).funcBodyF b = b := rfl

section Absorb
variable (c : COpts) (hc : FilterOnly c) (q : Stmt → Bool)
  (hq : ∀ s, q s = true → dropStmt c s = true) (hz : dropStmt c zeroStmt = true)
  (hqc : ∀ cls s, q (cStmt c cls s) = q s) (hzc : ∀ cls, cStmt c cls zeroStmt = zeroStmt)
include hc hq hz hqc hzc

mutual
theorem absorbStmt : (s : Stmt) → (cls : Option (List Expr × List Expr)) →
    cStmt c cls (travStmt (dropT q) s) = cStmt c cls s
  | .functionDef a n args body decs ret tps, cls => by
    simp only [travStmt, dropT_suiteF, dropT_stmtF, dropT_funcBodyF, cStmt]
    rw [cSuite_filterSuite c hc none q hq hz (hqc none) (hzc none), absorbBody body none]
  | .classDef n bases kws body decs tps, cls => by
    simp only [travStmt, dropT_suiteF, dropT_stmtF, dropT_funcBodyF, cStmt]
    rw [cSuite_filterSuite c hc _ q hq hz (hqc _) (hzc _), absorbBody body _]
  | .for_ a tg it body orelse, cls => by
    simp only [travStmt, dropT_suiteF, dropT_stmtF, dropT_funcBodyF, cStmt]
    rw [cSuite_filterSuite c hc cls q hq hz (hqc cls) (hzc cls), absorbBody body cls]
    cases orelse with
    | nil => simp [cBody]
    | cons o os =>
      simp only [List.isEmpty_cons, Bool.false_eq_true, if_false]
      rw [cSuite_filterSuite c hc cls q hq hz (hqc cls) (hzc cls), absorbBody (o :: os) cls]
  | .while_ t body orelse, cls => by
    simp only [travStmt, dropT_suiteF, dropT_stmtF, dropT_funcBodyF, cStmt]
    rw [cSuite_filterSuite c hc cls q hq hz (hqc cls) (hzc cls), absorbBody body cls]
    cases orelse with
    | nil => simp [cBody]
    | cons o os =>
      simp only [List.isEmpty_cons, Bool.false_eq_true, if_false]
      rw [cSuite_filterSuite c hc cls q hq hz (hqc cls) (hzc cls), absorbBody (o :: os) cls]
  | .if_ t body orelse, cls => by
    simp only [travStmt, dropT_suiteF, dropT_stmtF, dropT_funcBodyF, cStmt]
    rw [cSuite_filterSuite c hc cls q hq hz (hqc cls) (hzc cls), absorbBody body cls]
    cases orelse with
    | nil => simp [cBody]
    | cons o os =>
      simp only [List.isEmpty_cons, Bool.false_eq_true, if_false]
      rw [cSuite_filterSuite c hc cls q hq hz (hqc cls) (hzc cls), absorbBody (o :: os) cls]
  | .with_ a items body, cls => by
    simp only [travStmt, dropT_suiteF, dropT_stmtF, dropT_funcBodyF, cStmt]
    rw [cSuite_filterSuite c hc cls q hq hz (hqc cls) (hzc cls), absorbBody body cls]
  | .try_ false body hs orelse fin, cls => by
    simp only [travStmt, dropT_suiteF, dropT_stmtF, dropT_funcBodyF, cStmt]
    rw [cSuite_filterSuite c hc cls q hq hz (hqc cls) (hzc cls), absorbBody body cls, absorbHandlers hs cls]
    have ho : cSuite c false (cBody c cls (if orelse.isEmpty then [] else filterSuite q false (travBody (dropT q) orelse)))
        = cSuite c false (cBody c cls orelse) := by
      cases orelse with
      | nil => simp [cBody]
      | cons o os =>
        simp only [List.isEmpty_cons, Bool.false_eq_true, if_false]
        rw [cSuite_filterSuite c hc cls q hq hz (hqc cls) (hzc cls), absorbBody (o :: os) cls]
    have hf : cSuite c false (cBody c cls (if fin.isEmpty then [] else filterSuite q false (travBody (dropT q) fin)))
        = cSuite c false (cBody c cls fin) := by
      cases fin with
      | nil => simp [cBody]
      | cons o os =>
        simp only [List.isEmpty_cons, Bool.false_eq_true, if_false]
        rw [cSuite_filterSuite c hc cls q hq hz (hqc cls) (hzc cls), absorbBody (o :: os) cls]
    rw [ho, hf]
  | .try_ true body hs orelse fin, cls => by
    simp only [travStmt, dropT_suiteF, dropT_stmtF, dropT_funcBodyF, cStmt]
    rw [absorbBody body cls, absorbHandlers hs cls, absorbBody orelse cls, absorbBody fin cls]
  | .match_ s cases, cls => by
    simp only [travStmt, dropT_suiteF, dropT_stmtF, dropT_funcBodyF, cStmt]
    rw [absorbCases cases cls]
  | .return_ v, cls => by simp [travStmt]
  | .delete ts, cls => by simp [travStmt]
  | .assign ts v, cls => by simp [travStmt]
  | .typeAlias n tps v, cls => by simp [travStmt]
  | .augAssign tg op v, cls => by simp [travStmt]
  | .annAssign tg ann v s, cls => by simp [travStmt]
  | .raise_ e ca, cls => by simp [travStmt]
  | .assert_ t m, cls => by simp [travStmt]
  | .import_ ns, cls => by simp [travStmt]
  | .importFrom m ns l, cls => by simp [travStmt]
  | .global ns, cls => by simp [travStmt]
  | .nonlocal ns, cls => by simp [travStmt]
  | .expr v, cls => by simp [travStmt]
  | .pass, cls => by simp [travStmt]
  | .break_, cls => by simp [travStmt]
  | .continue_, cls => by simp [travStmt]
theorem absorbBody : (b : List Stmt) → (cls : Option (List Expr × List Expr)) →
    cBody c cls (travBody (dropT q) b) = cBody c cls b
  | [], cls => by simp [travBody, cBody]
  | s :: ss, cls => by
    simp only [travBody, cBody]
    rw [absorbStmt s cls, absorbBody ss cls]
theorem absorbHandlers : (hs : List Handler) → (cls : Option (List Expr × List Expr)) →
    cHandlers c cls (travHandlers (dropT q) hs) = cHandlers c cls hs
  | [], cls => by simp [travHandlers, cHandlers]
  | .mk ty n body :: hs, cls => by
    simp only [travHandlers, cHandlers]
    rw [absorbBody body cls, absorbHandlers hs cls]
theorem absorbCases : (cs : List MatchCase) → (cls : Option (List Expr × List Expr)) →
    cCases c cls (travCases (dropT q) cs) = cCases c cls cs
  | [], cls => by simp [travCases, cCases]
  | .mk p g body :: cs, cls => by
    simp only [travCases, cCases]
    rw [absorbBody body cls, absorbCases cs cls]
end

end Absorb

end PMV.Transforms

namespace PMV.Transforms
open PMV PMV.Spec.Rewrites

theorem annAssign_shape (o : AnnOpts) (cls : Option (List Expr × List Expr)) (tg ann : Expr) (v : Option Expr) (s : Bool) :
    (∃ ts val, annAssign o cls tg ann v s = .assign ts val) ∨ (∃ a b c d, annAssign o cls tg ann v s = .annAssign a b c d) := by
  unfold annAssign
  by_cases h1 : (!annEnabled o cls) = true
  · rw [if_pos h1]; exact Or.inr ⟨_, _, _, _, rfl⟩
  · rw [if_neg h1]
    by_cases h2 : annExempt cls = true
    · rw [if_pos h2]; exact Or.inr ⟨_, _, _, _, rfl⟩
    · rw [if_neg h2]
      cases v with
      | none => exact Or.inr ⟨_, _, _, _, rfl⟩
      | some val => exact Or.inl ⟨_, _, rfl⟩

/-- canonicalisation never turns a statement into, or out of, one of the droppable kinds -/
theorem kind_cStmt (c : COpts) (cls : Option (List Expr × List Expr)) (s : Stmt) :
    isPass (cStmt c cls s) = isPass s ∧ isAssert (cStmt c cls s) = isAssert s ∧
    isLiteralStmt (cStmt c cls s) = isLiteralStmt s ∧ isZero (cStmt c cls s) = isZero s := by
  cases s with
  | annAssign tg ann v simple =>
    simp only [cStmt]
    rcases annAssign_shape c.ann cls tg ann v simple with ⟨ts, val, h⟩ | ⟨a, b, c', d, h⟩
    · rw [h]; simp [isPass, isAssert, isLiteralStmt, isZero]
    · rw [h]; simp [isPass, isAssert, isLiteralStmt, isZero]
  | return_ v =>
    simp only [cStmt]
    split
    · split <;> simp [isPass, isAssert, isLiteralStmt, isZero]
    · simp [isPass, isAssert, isLiteralStmt, isZero]
  | expr v => simp [cStmt, cExpr, isPass, isAssert, isLiteralStmt, isZero]
  | _ => simp [cStmt, isPass, isAssert, isLiteralStmt, isZero]

theorem dropStmt_cStmt (c : COpts) (cls : Option (List Expr × List Expr)) (s : Stmt) :
    dropStmt c (cStmt c cls s) = dropStmt c s := by
  obtain ⟨h1, h2, h3, h4⟩ := kind_cStmt c cls s
  simp [dropStmt, h1, h2, h3, h4]

theorem cStmt_zero (c : COpts) (cls : Option (List Expr × List Expr)) : cStmt c cls zeroStmt = zeroStmt := by
  simp [zeroStmt, cStmt, cExpr]

theorem canonModule_simple (c : COpts) (h : (c.literals && c.keepModuleDoc) = false) (hp : c.posargs = false) (m : Module) :
    canonModule c m = ⟨cSuite c false (cBody c none m.body)⟩ := by
  unfold canonModule
  simp only [hp, Bool.false_eq_true, if_false]
  cases hb : m.body with
  | nil => simp [cBody, cSuite]
  | cons d rest =>
    simp only
    have : (c.literals && c.keepModuleDoc && isDocstring d) = false := by simp [h]
    simp [this]

/-- module-level absorption for a statement-dropping transform -/
theorem canon_dropT (c : COpts) (hc : FilterOnly c) (q : Stmt → Bool)
    (hq : ∀ s, q s = true → dropStmt c s = true) (hz : dropStmt c zeroStmt = true)
    (hqc : ∀ cls s, q (cStmt c cls s) = q s)
    (hl : (c.literals && c.keepModuleDoc) = false) (hp : c.posargs = false) (m : Module) :
    canonModule c (travModule (dropT q) m) = canonModule c m := by
  rw [canonModule_simple c hl hp, canonModule_simple c hl hp]
  simp only [travModule, dropT_suiteF]
  rw [cSuite_filterSuite c hc none q hq hz (hqc none) (cStmt_zero c none),
    absorbBody c hc q hq hz hqc (cStmt_zero c) m.body none]

end PMV.Transforms

import PMV.Proofs.Layout3
/-
  T02.4: the mutual induction over the statement tree.
-/
namespace PMV.Spec.Layout
open PMV PMV.Token PMV.Printer

/-- a compound statement that is not an `if`: only the plain printing exists -/
theorem claimS_of_noif (t : PrecTable) (st : StmtTable) (s0 : Stmt) (hnot : isIfStmt s0 = false) (hcmp : isCompoundSyn s0 = true)
    (H : (∀ d, EndsT (emitS t st false d s0)) ∧ ∀ s : L0, eff (stmtToks t st s0) s =
      ⟨.nl s.indent :: ((emitS t st false s.indent s0).reverse ++ commit s.acc true s.indent), s.indent⟩) : ClaimS t st s0 := by
  intro el hel
  have : el = false := by
    cases el with
    | false => rfl
    | true => have := hel rfl; rw [hnot] at this; cases this
  subst this
  refine ⟨H.1, fun s => ?_⟩
  simp only [Bool.false_eq_true, if_false, hcmp]
  exact H.2 s

theorem hdrDef_ne (t : PrecTable) (a : Bool) (n : String) (args : Arguments) (r : Option Expr) (tps : List TypeParam) :
    hdrDef t a n args r tps ≠ [] := by
  cases a <;> simp [hdrDef]
theorem hdrClass_ne (t : PrecTable) (n : String) (b : List Expr) (k : List Keyword) (tps : List TypeParam) : hdrClass t n b k tps ≠ [] := by
  simp [hdrClass]
theorem hdrFor_ne (t : PrecTable) (a : Bool) (tg it : Expr) : hdrFor t a tg it ≠ [] := by
  cases a <;> simp [hdrFor]
theorem hdrWith_ne (t : PrecTable) (a : Bool) (items : List WithItem) : hdrWith t a items ≠ [] := by
  cases a <;> simp [hdrWith]

variable (t : PrecTable) (st : StmtTable) (hT : TableOK st)
include hT

theorem lay_functionDef (isAsync : Bool) (name : String) (args : Arguments) (body : List Stmt) (decs : List Expr)
    (returns : Option Expr) (tps : List TypeParam)
    (hd : decs.all (fun dec => nlay (tExpr t dec)) = true) (hn : nlay (hdrDef t isAsync name args returns tps) = true)
    (hB : ClaimLS t st body) : ClaimS t st (.functionDef isAsync name args body decs returns tps) := by
  apply claimS_of_noif t st _ rfl rfl
  have hS := suite_of_body t st hT.1 body hB.1
  have h1 : stmtToks t st (.functionDef isAsync name args body decs returns tps) =
      .newline :: (decoratorToks t decs ++ (hdrDef t isAsync name args returns tps ++ suiteWrap (body.any (isCompound st)) (bodyToks t st body))) := by
    cases returns <;> cases isAsync <;> simp [stmtToks, hdrDef, List.append_assoc]
  have hem : ∀ d, emitS t st false d (.functionDef isAsync name args body decs returns tps) =
      decoLines t d decs ++ (T (hdrDef t isAsync name args returns tps) ++ suiteStart d body ++ emitBody t st (d + 1) body) := by
    intro d; rw [emitS]; simp [List.append_assoc]
  constructor
  · intro d
    rw [hem]
    exact EndsT.append_left _ (hS [] d _ (NLay_of_nlay hn) (hdrDef_ne _ _ _ _ _ _)).2
  · intro s
    obtain ⟨acc, d⟩ := s
    rw [h1, eff_cons, hem]
    have : l0step ⟨acc, d⟩ .newline = ⟨commit acc true d, d⟩ := l0newline_eq acc d
    rw [this, eff_append, deco_eff t decs hd]
    rw [(hS _ d _ (NLay_of_nlay hn) (hdrDef_ne _ _ _ _ _ _)).1]
    simp

theorem lay_classDef (name : String) (bases : List Expr) (kws : List Keyword) (body : List Stmt) (decs : List Expr) (tps : List TypeParam)
    (hd : decs.all (fun dec => nlay (tExpr t dec)) = true) (hn : nlay (hdrClass t name bases kws tps) = true)
    (hB : ClaimLS t st body) : ClaimS t st (.classDef name bases kws body decs tps) := by
  apply claimS_of_noif t st _ rfl rfl
  have hS := suite_of_body t st hT.1 body hB.1
  have h1 : stmtToks t st (.classDef name bases kws body decs tps) =
      .newline :: (decoratorToks t decs ++ (hdrClass t name bases kws tps ++ suiteWrap (body.any (isCompound st)) (bodyToks t st body))) := by
    simp [stmtToks, hdrClass, List.append_assoc]
  have hem : ∀ d, emitS t st false d (.classDef name bases kws body decs tps) =
      decoLines t d decs ++ (T (hdrClass t name bases kws tps) ++ suiteStart d body ++ emitBody t st (d + 1) body) := by
    intro d; rw [emitS]; simp [List.append_assoc]
  constructor
  · intro d
    rw [hem]
    exact EndsT.append_left _ (hS [] d _ (NLay_of_nlay hn) (hdrClass_ne _ _ _ _ _)).2
  · intro s
    obtain ⟨acc, d⟩ := s
    rw [h1, eff_cons, hem]
    have : l0step ⟨acc, d⟩ .newline = ⟨commit acc true d, d⟩ := l0newline_eq acc d
    rw [this, eff_append, deco_eff t decs hd]
    rw [(hS _ d _ (NLay_of_nlay hn) (hdrClass_ne _ _ _ _ _)).1]
    simp

theorem lay_with (isAsync : Bool) (items : List WithItem) (body : List Stmt)
    (hn : nlay (hdrWith t isAsync items) = true) (hB : ClaimLS t st body) : ClaimS t st (.with_ isAsync items body) := by
  apply claimS_of_noif t st _ rfl rfl
  have hS := suite_of_body t st hT.1 body hB.1
  have h1 : stmtToks t st (.with_ isAsync items body) =
      .newline :: (hdrWith t isAsync items ++ suiteWrap (body.any (isCompound st)) (bodyToks t st body)) := by
    cases isAsync <;> simp [stmtToks, hdrWith, List.append_assoc]
  have hem : ∀ d, emitS t st false d (.with_ isAsync items body) =
      T (hdrWith t isAsync items) ++ suiteStart d body ++ emitBody t st (d + 1) body := by
    intro d; rw [emitS]
  constructor
  · intro d
    rw [hem]
    exact (hS [] d _ (NLay_of_nlay hn) (hdrWith_ne _ _ _)).2
  · intro s
    rw [h1, hem]
    exact (first_clause t st body hS s _ (NLay_of_nlay hn) (hdrWith_ne _ _ _)).1

theorem lay_for (isAsync : Bool) (tg it : Expr) (body orelse : List Stmt)
    (hn : nlay (hdrFor t isAsync tg it) = true) (hB : ClaimLS t st body) (hO : ClaimLS t st orelse) :
    ClaimS t st (.for_ isAsync tg it body orelse) := by
  apply claimS_of_noif t st _ rfl rfl
  have hS := suite_of_body t st hT.1 body hB.1
  have hSO := suite_of_body t st hT.1 orelse hO.1
  have h1 : stmtToks t st (.for_ isAsync tg it body orelse) =
      (.newline :: (hdrFor t isAsync tg it ++ suiteWrap (body.any (isCompound st)) (bodyToks t st body))) ++
      (if orelse.isEmpty then [] else (if true then [.newline] else []) ++
        ([.kw "else", .delim ":"] ++ suiteWrap (orelse.any (isCompound st)) (bodyToks t st orelse))) := by
    cases isAsync <;> by_cases ho : orelse.isEmpty = true <;> simp [stmtToks, hdrFor, List.append_assoc, ho]
  have hem : ∀ d, emitS t st false d (.for_ isAsync tg it body orelse) =
      (T (hdrFor t isAsync tg it) ++ suiteStart d body ++ emitBody t st (d + 1) body) ++ optClause t st "else" d orelse := by
    intro d; rw [emitS]; unfold optClause; by_cases ho : orelse.isEmpty = true <;> simp [ho, List.append_assoc]
  constructor
  · intro d
    rw [hem]
    exact (opt_clause t st "else" true orelse hSO _ [] d (hS [] d _ (NLay_of_nlay hn) (hdrFor_ne _ _ _ _)).2).2
  · intro s
    rw [h1, hem, eff_append]
    obtain ⟨e1, e2⟩ := first_clause t st body hS s _ (NLay_of_nlay hn) (hdrFor_ne _ _ _ _)
    rw [e1]
    exact (opt_clause t st "else" true orelse hSO _ _ s.indent e2).1

theorem lay_while (c : Expr) (body orelse : List Stmt)
    (hn : nlay (tExpr t c) = true) (hB : ClaimLS t st body) (hO : ClaimLS t st orelse) :
    ClaimS t st (.while_ c body orelse) := by
  apply claimS_of_noif t st _ rfl rfl
  have hS := suite_of_body t st hT.1 body hB.1
  have hSO := suite_of_body t st hT.1 orelse hO.1
  have hN : NLay (.kw "while" :: tExpr t c ++ [.delim ":"]) := NLay_kw_colon _ (NLay_of_nlay hn)
  have hne : (Tok.kw "while" :: tExpr t c ++ [.delim ":"]) ≠ [] := by simp
  have h1 : stmtToks t st (.while_ c body orelse) =
      (.newline :: ((.kw "while" :: tExpr t c ++ [.delim ":"]) ++ suiteWrap (body.any (isCompound st)) (bodyToks t st body))) ++
      (if orelse.isEmpty then [] else (if false then [.newline] else []) ++
        ([.kw "else", .delim ":"] ++ suiteWrap (orelse.any (isCompound st)) (bodyToks t st orelse))) := by
    by_cases ho : orelse.isEmpty = true <;> simp [stmtToks, List.append_assoc, ho]
  have hem : ∀ d, emitS t st false d (.while_ c body orelse) =
      (T (.kw "while" :: tExpr t c ++ [.delim ":"]) ++ suiteStart d body ++ emitBody t st (d + 1) body) ++ optClause t st "else" d orelse := by
    intro d; rw [emitS]; unfold optClause; by_cases ho : orelse.isEmpty = true <;> simp [ho, List.append_assoc]
  constructor
  · intro d
    rw [hem]
    exact (opt_clause t st "else" false orelse hSO _ [] d (hS [] d _ hN hne).2).2
  · intro s
    rw [h1, hem, eff_append]
    obtain ⟨e1, e2⟩ := first_clause t st body hS s _ hN hne
    rw [e1]
    exact (opt_clause t st "else" false orelse hSO _ _ s.indent e2).1

theorem lay_if (c : Expr) (body orelse : List Stmt)
    (hn : nlay (tExpr t c) = true) (hB : ClaimLS t st body) (hO : ClaimLS t st orelse) :
    ClaimS t st (.if_ c body orelse) := by
  intro el _
  have hS := suite_of_body t st hT.1 body hB.1
  have hN : NLay (.kw (if el then "elif" else "if") :: tExpr t c ++ [.delim ":"]) := NLay_kw_colon _ (NLay_of_nlay hn)
  have hne : (Tok.kw (if el then "elif" else "if") :: tExpr t c ++ [.delim ":"]) ≠ [] := by simp
  have h1 : (if el then elifOf (stmtToks t st (.if_ c body orelse)) else stmtToks t st (.if_ c body orelse)) =
      (.newline :: ((.kw (if el then "elif" else "if") :: tExpr t c ++ [.delim ":"]) ++ suiteWrap (body.any (isCompound st)) (bodyToks t st body))) ++
      elseToks t st orelse := by
    cases el <;> simp [stmtToks, elifOf, List.append_assoc]
  have hem : ∀ d, emitS t st el d (.if_ c body orelse) =
      (T (.kw (if el then "elif" else "if") :: tExpr t c ++ [.delim ":"]) ++ suiteStart d body ++ emitBody t st (d + 1) body) ++ elsePart t st d orelse := by
    intro d; rw [emitS]; unfold elsePart; rfl
  constructor
  · intro d
    rw [hem]
    exact (else_lay t st hT.1 orelse hO _ [] d (hS [] d _ hN hne).2).2
  · intro s
    rw [h1, hem, eff_append]
    obtain ⟨e1, e2⟩ := first_clause t st body hS s _ hN hne
    rw [e1]
    exact (else_lay t st hT.1 orelse hO _ _ s.indent e2).1

theorem lay_try (star : Bool) (body : List Stmt) (handlers : List Handler) (orelse finalbody : List Stmt)
    (hB : ClaimLS t st body) (hH : ClaimH t st star handlers) (hO : ClaimLS t st orelse) (hF : ClaimLS t st finalbody) :
    ClaimS t st (.try_ star body handlers orelse finalbody) := by
  apply claimS_of_noif t st _ rfl rfl
  have hS := suite_of_body t st hT.1 body hB.1
  have hSO := suite_of_body t st hT.1 orelse hO.1
  have hSF := suite_of_body t st hT.1 finalbody hF.1
  have hN : NLay [Tok.kw "try", .delim ":"] := NLay_two _ _ rfl rfl
  have hne : [Tok.kw "try", Tok.delim ":"] ≠ [] := by simp
  have h1 : stmtToks t st (.try_ star body handlers orelse finalbody) =
      (.newline :: ([.kw "try", .delim ":"] ++ suiteWrap (body.any (isCompound st)) (bodyToks t st body))) ++
      (handlersToks t st star handlers ++
      ((if orelse.isEmpty then [] else (if false then [.newline] else []) ++
        ([.kw "else", .delim ":"] ++ suiteWrap (orelse.any (isCompound st)) (bodyToks t st orelse))) ++
      (if finalbody.isEmpty then [] else (if false then [.newline] else []) ++
        ([.kw "finally", .delim ":"] ++ suiteWrap (finalbody.any (isCompound st)) (bodyToks t st finalbody))))) := by
    by_cases ho : orelse.isEmpty = true <;> by_cases hf : finalbody.isEmpty = true <;> simp [stmtToks, List.append_assoc, ho, hf]
  have hem : ∀ d, emitS t st false d (.try_ star body handlers orelse finalbody) =
      (((T [.kw "try", .delim ":"] ++ suiteStart d body ++ emitBody t st (d + 1) body) ++ emitHandlers t st star d handlers) ++
        optClause t st "else" d orelse) ++ optClause t st "finally" d finalbody := by
    intro d; rw [emitS]; unfold optClause
    by_cases ho : orelse.isEmpty = true <;> by_cases hf : finalbody.isEmpty = true <;> simp [ho, hf, List.append_assoc]
  constructor
  · intro d
    rw [hem]
    have e2 := (hS [] d _ hN hne).2
    have e4 := (hH _ [] d e2).2
    have e6 := (opt_clause t st "else" false orelse hSO _ [] d e4).2
    exact (opt_clause t st "finally" false finalbody hSF _ [] d e6).2
  · intro s
    rw [h1, hem, eff_append, eff_append, eff_append]
    obtain ⟨e1, e2⟩ := first_clause t st body hS s _ hN hne
    rw [e1]
    obtain ⟨e3, e4⟩ := hH _ (commit s.acc true s.indent) s.indent e2
    rw [e3]
    obtain ⟨e5, e6⟩ := opt_clause t st "else" false orelse hSO _ (commit s.acc true s.indent) s.indent e4
    rw [e5]
    exact (opt_clause t st "finally" false finalbody hSF _ _ s.indent e6).1

theorem lay_match (subj : Expr) (cases : List MatchCase) (hn : nlay (tExpr t subj) = true) (hC : ClaimC t st cases) :
    ClaimS t st (.match_ subj cases) := by
  apply claimS_of_noif t st _ rfl rfl
  have hN : NLay (.kw "match" :: tExpr t subj ++ [.delim ":"]) := NLay_kw_colon _ (NLay_of_nlay hn)
  have hE0 : EndsT (T (.kw "match" :: tExpr t subj ++ [.delim ":"])) := EndsT_T (by simp)
  have h1 : stmtToks t st (.match_ subj cases) =
      .newline :: ((.kw "match" :: tExpr t subj ++ [.delim ":"]) ++ (.indentInc :: .newline :: (casesToks t st cases ++ [.indentDec, .newline]))) := by
    have hmc : "match_case" ∈ st.compound := by simpa using hT.2
    simp [stmtToks, hmc, suiteWrap, List.append_assoc]
  have hem : ∀ d, emitS t st false d (.match_ subj cases) =
      T (.kw "match" :: tExpr t subj ++ [.delim ":"]) ++ (if cases.isEmpty then [] else .nl (d + 1) :: emitCases t st (d + 1) cases) := by
    intro d; rw [emitS]
  constructor
  · intro d
    rw [hem]
    by_cases hc : cases.isEmpty = true
    · simp only [hc, if_true, List.append_nil]; exact hE0
    · simp only [hc, Bool.false_eq_true, if_false]
      have hne : cases ≠ [] := by intro h; rw [h] at hc; exact hc rfl
      exact EndsT.append_left _ (EndsT.cons _ (hC hne [] (d + 1)).2)
  · intro s
    obtain ⟨acc, d⟩ := s
    rw [h1, hem, eff_cons]
    have : l0step ⟨acc, d⟩ .newline = ⟨commit acc true d, d⟩ := l0newline_eq acc d
    rw [this, eff_append, eff_nlay _ hN, eff_cons, eff_cons, eff_append]
    simp only [l0step]
    rw [newline_on hE0 _ (d + 1)]
    by_cases hc : cases.isEmpty = true
    · have hnil : cases = [] := by cases cases with | nil => rfl | cons a b => cases hc
      subst hnil
      simp only [casesToks, eff_nil, eff_cons, l0step, Nat.add_sub_cancel, List.isEmpty_nil, if_true, List.append_nil]
      exact newline_after hE0 (.nl (d + 1)) rfl _ d
    · simp only [hc, Bool.false_eq_true, if_false]
      have hne : cases ≠ [] := by intro h; rw [h] at hc; exact hc rfl
      obtain ⟨e1, e2⟩ := hC hne (.nl (d + 1) :: ((T (.kw "match" :: tExpr t subj ++ [.delim ":"])).reverse ++ commit acc true d)) (d + 1)
      rw [e1]
      simp only [eff_cons, eff_nil, l0step, Nat.add_sub_cancel]
      have := newline_after e2 (.nl (d + 1)) rfl (.nl (d + 1) :: ((T (.kw "match" :: tExpr t subj ++ [.delim ":"])).reverse ++ commit acc true d)) d
      rw [this]
      simp

end PMV.Spec.Layout

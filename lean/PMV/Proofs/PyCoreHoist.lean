import PMV.Proofs.PyCoreRename2
import PMV.Model.HoistAst
/-
  C01 / C06, T01.14: hoisting repeated literals preserves the PyCore behaviour.
  The hoisted run has extra variables (the names that hold the constants): the module's in the globals, a
  function's own in its locals.  The relation `RelH` says: every name of the program reads the same in both runs,
  output and import events are the same, and each constant's name holds its value.  Every statement maps related
  states to related outcomes, through loops, handlers and calls, at every fuel.
-/
namespace PMV.PyCore
open PMV PMV.RenameAst PMV.HoistAst

variable {o : Bool}

/-- `GA`: the names of all module-level constants (their globals may differ); `GG` / `GL`: the module-level and
    function-level constants that are in place, with their values; `P`: the names of the program -/
structure RelH (P : String → Bool) (GA : List String) (GG GL : List (String × Val)) (s s' : St) : Prop where
  out : s'.out = s.out
  imports : s'.imports = s.imports
  mode : s'.locals.isSome = s.locals.isSome
  gget : ∀ x, x ∉ GA → Env.get s'.globals x = Env.get s.globals x
  isLocal : ∀ x, P x = true → s'.isLocal x = s.isLocal x
  lget : ∀ x, P x = true → s.isLocal x = true →
    (s'.locals.bind (fun l => Env.get l x)) = (s.locals.bind (fun l => Env.get l x))
  gghost : ∀ a v, (a, v) ∈ GG → s'.isLocal a = false ∧ Env.get s'.globals a = some v
  lghost : ∀ a v, (a, v) ∈ GL → s'.isLocal a = true ∧ (s'.locals.bind (fun l => Env.get l a)) = some v
  ggA : ∀ a v, (a, v) ∈ GG → a ∈ GA
  freshA : ∀ a, a ∈ GA → P a = false
  freshL : ∀ a v, (a, v) ∈ GL → P a = false

variable {P : String → Bool} {GA : List String} {GG GL : List (String × Val)}

theorem RelH.lookup {s s' : St} (h : RelH P GA GG GL s s') (x : String) (hx : P x = true) : s'.lookup x = s.lookup x := by
  unfold St.lookup
  rw [h.isLocal x hx]
  by_cases hl : s.isLocal x = true
  · simp only [hl, if_true]; exact h.lget x hx hl
  · have hl' : s.isLocal x = false := by simpa using hl
    simp only [hl', Bool.false_eq_true, if_false]
    apply h.gget
    intro hmem
    rw [h.freshA x hmem] at hx
    exact absurd hx (by simp)

theorem RelH.unbound {s s' : St} (h : RelH P GA GG GL s s') (x : String) (hx : P x = true) : s'.unbound x = s.unbound x := by
  unfold St.unbound; rw [h.isLocal x hx]

theorem RelH.ghostLookup {s s' : St} (h : RelH P GA GG GL s s') (a : String) (v : Val) (hm : (a, v) ∈ GG ∨ (a, v) ∈ GL) :
    s'.lookup a = some v := by
  unfold St.lookup
  rcases hm with hm | hm
  · obtain ⟨h1, h2⟩ := h.gghost a v hm
    simp only [h1, Bool.false_eq_true, if_false]; exact h2
  · obtain ⟨h1, h2⟩ := h.lghost a v hm
    simp only [h1, if_true]; exact h2

theorem globals_assign_local (s : St) (x : String) (v : Val) (h : s.isLocal x = true) : (s.assign x v).globals = s.globals := by
  unfold St.assign; simp [h]

theorem locals_assign_global (s : St) (x : String) (v : Val) (h : s.isLocal x = false) : (s.assign x v).locals = s.locals := by
  unfold St.assign; simp [h]

theorem globals_assign_global (s : St) (x : String) (v : Val) (h : s.isLocal x = false) :
    (s.assign x v).globals = s.globals.set x v := by
  unfold St.assign; simp [h]

theorem out_assign (s : St) (x : String) (v : Val) : (s.assign x v).out = s.out := by
  unfold St.assign; split <;> rfl

theorem imports_assign (s : St) (x : String) (v : Val) : (s.assign x v).imports = s.imports := by
  unfold St.assign; split <;> rfl

theorem isSome_assign (s : St) (x : String) (v : Val) : (s.assign x v).locals.isSome = s.locals.isSome := by
  unfold St.assign; split
  · simp only [Option.isSome_map]
  · rfl

/-- both runs assign a name of the program -/
theorem RelH.assign {s s' : St} (h : RelH P GA GG GL s s') (x : String) (hx : P x = true) (v : Val) :
    RelH P GA GG GL (s.assign x v) (s'.assign x v) := by
  have hloc := h.isLocal x hx
  have hxA : x ∉ GA := fun hm => by rw [h.freshA x hm] at hx; exact absurd hx (by simp)
  refine ⟨?_, ?_, ?_, ?_, ?_, ?_, ?_, ?_, h.ggA, h.freshA, h.freshL⟩
  · rw [out_assign, out_assign]; exact h.out
  · rw [imports_assign, imports_assign]; exact h.imports
  · rw [isSome_assign, isSome_assign]; exact h.mode
  · intro y hy
    by_cases hl : s.isLocal x = true
    · rw [globals_assign_local s x v hl, globals_assign_local s' x v (by rw [hloc]; exact hl)]; exact h.gget y hy
    · have hl' : s.isLocal x = false := by simpa using hl
      rw [globals_assign_global s x v hl', globals_assign_global s' x v (by rw [hloc]; exact hl'), Env.get_set, Env.get_set,
        h.gget y hy]
  · intro y hy; rw [isLocal_assign, isLocal_assign]; exact h.isLocal y hy
  · intro y hy hly
    rw [isLocal_assign] at hly
    have hg := h.lget y hy hly
    by_cases hl : s.isLocal x = true
    · have hl2 : s'.isLocal x = true := by rw [hloc]; exact hl
      rw [locals_assign_local s x v hl, locals_assign_local s' x v hl2]
      cases hs : s.locals with
      | none => unfold St.isLocal at hl; simp [hs] at hl
      | some l =>
        cases hs' : s'.locals with
        | none => unfold St.isLocal at hl2; simp [hs'] at hl2
        | some l' =>
          rw [hs, hs'] at hg
          simp only [Option.map_some, Option.bind_some] at hg ⊢
          rw [Env.get_set, Env.get_set, hg]
    · have hl' : s.isLocal x = false := by simpa using hl
      rw [locals_assign_global s x v hl', locals_assign_global s' x v (by rw [hloc]; exact hl')]; exact hg
  · intro a w hm
    obtain ⟨h1, h2⟩ := h.gghost a w hm
    refine ⟨by rw [isLocal_assign]; exact h1, ?_⟩
    by_cases hl : s'.isLocal x = true
    · rw [globals_assign_local s' x v hl]; exact h2
    · have hl' : s'.isLocal x = false := by simpa using hl
      rw [globals_assign_global s' x v hl', Env.get_set]
      have hne : (a == x) = false := by
        apply Bool.eq_false_iff.mpr
        intro hc
        have : a = x := by simpa using hc
        subst this
        rw [h.freshA a (h.ggA a w hm)] at hx
        exact absurd hx (by simp)
      simp only [hne, Bool.false_eq_true, if_false]; exact h2
  · intro a w hm
    obtain ⟨h1, h2⟩ := h.lghost a w hm
    refine ⟨by rw [isLocal_assign]; exact h1, ?_⟩
    have hne : (a == x) = false := by
      apply Bool.eq_false_iff.mpr
      intro hc
      have : a = x := by simpa using hc
      subst this
      rw [h.freshL a w hm] at hx
      exact absurd hx (by simp)
    by_cases hl : s'.isLocal x = true
    · rw [locals_assign_local s' x v hl]
      cases hs' : s'.locals with
      | none => rw [hs'] at h2; simp at h2
      | some l' =>
        rw [hs'] at h2
        simp only [Option.map_some, Option.bind_some] at h2 ⊢
        rw [Env.get_set]
        simp only [hne, Bool.false_eq_true, if_false]; exact h2
    · have hl' : s'.isLocal x = false := by simpa using hl
      rw [locals_assign_global s' x v hl']; exact h2


theorem RelH.withOut {s s' : St} (h : RelH P GA GG GL s s') (f g : List String → List String) :
    RelH P GA GG GL { s with out := f s.out, imports := g s.imports } { s' with out := f s'.out, imports := g s'.imports } := by
  refine ⟨?_, ?_, h.mode, h.gget, ?_, ?_, ?_, ?_, h.ggA, h.freshA, h.freshL⟩
  · show f s'.out = f s.out; rw [h.out]
  · show g s'.imports = g s.imports; rw [h.imports]
  · intro y hy; exact h.isLocal y hy
  · intro y hy hly; exact h.lget y hy hly
  · intro a v hm; exact h.gghost a v hm
  · intro a v hm; exact h.lghost a v hm

/-! ### expressions -/

/-- the constants' names hold the constants' values -/
def Cons (g : CMap) (GG GL : List (String × Val)) : Prop :=
  ∀ c a, cfind g c = some a → ∃ v, constVal c = some v ∧ ((a, v) ∈ GG ∨ (a, v) ∈ GL)

theorem constVal_eval (s : St) (c : Const) (v : Val) (h : constVal c = some v) : evalE s (.constant c) = some (.ok v) := by
  cases c <;> simp [constVal] at h <;> subst h <;> simp [evalE]

theorem constVal_noMod (c : Const) (v : Val) (h : constVal c = some v) : ∀ n, v ≠ .mod n := by
  cases c <;> simp [constVal] at h <;> subst h <;> intro n <;> simp

/-- the names the semantics gives a meaning to are names of the program -/
def StatH (P : String → Bool) : Prop := ∀ r, r ∈ reserved → P r = true

theorem ghost_not_debug {s s' : St} (h : RelH P GA GG GL s s') (hs : StatH P) (a : String) (v : Val)
    (hm : (a, v) ∈ GG ∨ (a, v) ∈ GL) : (a == "__debug__") = false := by
  apply Bool.eq_false_iff.mpr
  intro hc
  have : a = "__debug__" := by simpa using hc
  subst this
  have hp := hs "__debug__" (by simp [reserved])
  rcases hm with hm | hm
  · rw [h.freshA _ (h.ggA _ v hm)] at hp; exact absurd hp (by simp)
  · rw [h.freshL _ v hm] at hp; exact absurd hp (by simp)

theorem evalE_ghost {s s' : St} (h : RelH P GA GG GL s s') (hs : StatH P) (a : String) (v : Val) (hv : ∀ n, v ≠ .mod n)
    (hm : (a, v) ∈ GG ∨ (a, v) ∈ GL) : evalE s' (.name a .load) = some (.ok v) := by
  simp only [evalE, ghost_not_debug h hs a v hm, Bool.false_eq_true, if_false, h.ghostLookup a v hm]

theorem evalE_h {g : CMap} {s s' : St} (h : RelH P GA GG GL s s') (hs : StatH P) (hc : Cons g GG GL) :
    (e : Expr) → okE P e = true → evalE s' (hoistE g e) = evalE s e
  | .constant c, _ => by
    simp only [hoistE]
    cases hf : cfind g c with
    | none => cases c <;> simp [evalE]
    | some a =>
      obtain ⟨v, hv, hm⟩ := hc c a hf
      simp only
      rw [evalE_ghost h hs a v (constVal_noMod c v hv) hm, constVal_eval s c v hv]
  | .name x c, hok => by
    have hx : P x = true := by simpa [okE, namesE] using hok
    simp only [hoistE, evalE, h.lookup x hx, h.unbound x hx]
  | .unaryOp op v, hok => by
    have ih := evalE_h h hs hc v (okE_unary hok)
    cases op <;> simp only [hoistE, evalE, ih]
  | .binOp l op r, hok => by
    have hl : okE P l = true ∧ okE P r = true := by simpa [okE, namesE, List.all_append] using hok
    simp only [hoistE, evalE, evalE_h h hs hc l hl.1, evalE_h h hs hc r hl.2]
  | .compare l ops cs, hok => by
    match ops, cs, hok with
    | [op], [r], hok =>
      have hl : okE P l = true ∧ okE P r = true := by simpa [okE, namesE, namesEs, List.all_append] using hok
      simp only [hoistE, hoistEs, evalE, evalE_h h hs hc l hl.1, evalE_h h hs hc r hl.2]
    | [], cs, _ => simp [hoistE, evalE]
    | [_], [], _ => simp [hoistE, hoistEs, evalE]
    | [_], _ :: _ :: _, _ => simp [hoistE, hoistEs, evalE]
    | _ :: _ :: _, _, _ => simp [hoistE, evalE]
  | .boolOp op vs, hok => by
    match op, vs, hok with
    | .and_, [a, b], hok =>
      have hl : okE P a = true ∧ okE P b = true := by simpa [okE, namesE, namesEs, List.all_append] using hok
      simp only [hoistE, hoistEs, evalE, evalE_h h hs hc a hl.1, evalE_h h hs hc b hl.2]
    | .or_, [a, b], hok =>
      have hl : okE P a = true ∧ okE P b = true := by simpa [okE, namesE, namesEs, List.all_append] using hok
      simp only [hoistE, hoistEs, evalE, evalE_h h hs hc a hl.1, evalE_h h hs hc b hl.2]
    | op, [], _ => cases op <;> simp [hoistE, hoistEs, evalE]
    | op, [_], _ => cases op <;> simp [hoistE, hoistEs, evalE]
    | op, _ :: _ :: _ :: _, _ => cases op <;> simp [hoistE, hoistEs, evalE]
  | .ifExp c a b, hok => by
    have hl : okE P c = true ∧ okE P a = true ∧ okE P b = true := by
      simpa [okE, namesE, List.all_append, and_assoc] using hok
    simp only [hoistE, evalE, evalE_h h hs hc c hl.1, evalE_h h hs hc a hl.2.1, evalE_h h hs hc b hl.2.2]
  | .call .., _ => by simp [hoistE, evalE]
  | .tuple .., _ => by simp [hoistE, evalE]
  | .namedExpr .., _ => by simp [hoistE, evalE]
  | .lambda .., _ => by simp [hoistE, evalE]
  | .dict .., _ => by simp [hoistE, evalE]
  | .set _, _ => by simp [hoistE, evalE]
  | .listComp .., _ => by simp [hoistE, evalE]
  | .setComp .., _ => by simp [hoistE, evalE]
  | .dictComp .., _ => by simp [hoistE, evalE]
  | .generatorExp .., _ => by simp [hoistE, evalE]
  | .await .., _ => by simp [hoistE, evalE]
  | .yield .., _ => by simp [hoistE, evalE]
  | .yieldFrom .., _ => by simp [hoistE, evalE]
  | .joinedStr .., _ => by simp [hoistE, evalE]
  | .attribute .., _ => by simp [hoistE, evalE]
  | .subscript .., _ => by simp [hoistE, evalE]
  | .starred .., _ => by simp [hoistE, evalE]
  | .list .., _ => by simp [hoistE, evalE]
  | .slice .., _ => by simp [hoistE, evalE]
  | .paren .., _ => by simp [hoistE, evalE]

theorem evalArgs_h {g : CMap} {s s' : St} (h : RelH P GA GG GL s s') (hs : StatH P) (hc : Cons g GG GL) :
    (args : List Expr) → okEs P args = true → evalArgs s' (hoistEs g args) = evalArgs s args
  | [], _ => rfl
  | e :: es, hok => by
    have hl : okE P e = true ∧ okEs P es = true := by simpa [okE, okEs, namesEs, List.all_append] using hok
    simp only [hoistEs, evalArgs, evalE_h h hs hc e hl.1, evalArgs_h h hs hc es hl.2]

theorem evalThen_h {g : CMap} {s s' : St} (h : RelH P GA GG GL s s') (hs : StatH P) (hc : Cons g GG GL) (e : Expr)
    (hok : okE P e = true) (k k' : Val → Res Flow) (hk : ∀ v, ResRel (RelH P GA GG GL) (k v) (k' v)) :
    ResRel (RelH P GA GG GL) (evalThen s e k) (evalThen s' (hoistE g e) k') := by
  unfold evalThen
  rw [evalE_h h hs hc e hok]
  cases evalE s e with
  | none => trivial
  | some r =>
    cases r with
    | error x => exact ⟨rfl, h⟩
    | ok v => exact hk v


/-! ### statements -/

def okHS (_g : CMap) (P : String → Bool) (st : Stmt) : Bool := (namesS st).all P
def okHL (_g : CMap) (P : String → Bool) (l : List Stmt) : Bool := (namesL l).all P
def okHH (_g : CMap) (P : String → Bool) (hs : List Handler) : Bool := (namesH hs).all P

theorem isConst_hoistE (g : CMap) (e : Expr) (h : isConst e = false) : isConst (hoistE g e) = false := by
  cases e <;> simp [isConst] at h <;> simp [hoistE, isConst]

theorem asNameCall_h (g : CMap) (e : Expr) :
    asNameCall (hoistE g e) = (asNameCall e).map (fun p => (p.1, p.2.1, hoistEs g p.2.2)) := by
  cases e
  case constant c =>
    simp only [hoistE]
    cases cfind g c <;> simp [asNameCall]
  case call f args kws =>
    cases f <;> cases kws <;> simp [hoistE, asNameCall]
  all_goals (simp [hoistE, asNameCall])

theorem printArgs_h (g : CMap) (e : Expr) : printArgs (hoistE g e) = (printArgs e).map (hoistEs g) := by
  rw [printArgs_eq, printArgs_eq, asNameCall_h]
  cases asNameCall e with
  | none => rfl
  | some p =>
    simp only [Option.map_some, Option.bind_some]
    split <;> rfl

theorem exprStmt_h {g : CMap} {s s' : St} (h : RelH P GA GG GL s s') (hs : StatH P) (hc : Cons g GG GL) (e : Expr)
    (hok : okE P e = true) :
    ResRel (RelH P GA GG GL) (exprStmt s e) (exprStmt s' (if isStrConst e then e else hoistE g e)) := by
  by_cases hstr : isStrConst e = true
  · simp only [hstr, if_true]
    have hcst : isConst e = true := by cases e <;> simp [isStrConst] at hstr <;> rfl
    unfold exprStmt
    simp only [hcst, if_true]; exact h
  · simp only [hstr, Bool.false_eq_true, if_false]
    by_cases hcst : isConst e = true
    · -- a `None` / `True` / number statement: nothing happens; its hoisted form reads the constant's name
      cases e <;> simp [isConst] at hcst
      rename_i c
      cases hf : cfind g c with
      | none =>
        have he : hoistE g (.constant c) = .constant c := by simp [hoistE, hf]
        rw [he]; unfold exprStmt; simp only [isConst, if_true]; exact h
      | some a =>
        have he : hoistE g (.constant c) = .name a .load := by simp [hoistE, hf]
        obtain ⟨v, hv, hm⟩ := hc c a hf
        rw [he]; unfold exprStmt
        simp only [isConst, if_true, Bool.false_eq_true, if_false, printArgs, evalThen,
          evalE_ghost h hs a v (constVal_noMod c v hv) hm]
        exact h
    · have hcst' : isConst e = false := by simpa using hcst
      unfold exprStmt
      rw [isConst_hoistE g e hcst', printArgs_h]
      simp only [hcst', Bool.false_eq_true, if_false]
      cases hp : printArgs e with
      | none => exact evalThen_h h hs hc e hok _ _ (fun _ => h)
      | some args =>
        simp only [Option.map_some]
        rw [evalArgs_h h hs hc args (okEs_of_printArgs e args hp hok)]
        cases evalArgs s args with
        | none => trivial
        | some r =>
          cases r with
          | error x => exact ⟨rfl, h⟩
          | ok vs => exact h.withOut (fun out => out ++ [" ".intercalate (vs.map Val.show)]) id

theorem importAll_h : ∀ (names : List Alias) (s s' : St), RelH P GA GG GL s s' → (names.map aliasBound).all P = true →
    RelH P GA GG GL (importAll s names) (importAll s' names)
  | [], _, _, h, _ => h
  | a :: rest, s, s', h, hP => by
    simp only [List.map_cons, List.all_cons, Bool.and_eq_true] at hP
    refine importAll_h rest _ _ ?_ hP.2
    unfold importOne
    exact (h.assign (aliasBound a) hP.1 (.mod a.name)).withOut id (fun i => i ++ ["import " ++ a.name])

theorem importFromAll_h (m : Option String) (l : Nat) : ∀ (names : List Alias) (s s' : St), RelH P GA GG GL s s' →
    (names.map fromBound).all P = true → RelH P GA GG GL (importFromAll m l s names) (importFromAll m l s' names)
  | [], _, _, h, _ => h
  | a :: rest, s, s', h, hP => by
    simp only [List.map_cons, List.all_cons, Bool.and_eq_true] at hP
    refine importFromAll_h m l rest _ _ ?_ hP.2
    unfold importFromOne
    exact (h.assign (fromBound a) hP.1 _).withOut id (fun i => i ++ ["from " ++ fromName m l ++ " import " ++ a.name])

theorem simpleExec_h {g : CMap} {s s' : St} (h : RelH P GA GG GL s s') (hs : StatH P) (hc : Cons g GG GL) (st : Stmt)
    (hok : okHS g P st = true) : ResRel (RelH P GA GG GL) (simpleExec s st) (simpleExec s' (hoistStmt g st)) := by
  unfold okHS at hok
  have hn := hok
  clear hok
  cases st
  case pass => exact h
  case break_ => exact h
  case continue_ => exact h
  case global ns => exact h
  case functionDef a n args body decs ret tps =>
    simp only [hoistStmt, simpleExec]
    split
    · exact h
    · trivial
  case return_ v =>
    cases v with
    | none => exact ⟨rfl, h⟩
    | some e =>
      simp only [hoistStmt, hoistO, simpleExec]
      exact evalThen_h h hs hc e (by simpa [namesS, namesO, okE] using hn) _ _ (fun v => ⟨rfl, h⟩)
  case expr e =>
    simp only [hoistStmt]
    have := exprStmt_h h hs hc e (by simpa [namesS, okE] using hn)
    by_cases hstr : isStrConst e = true
    · simp only [hstr, if_true] at this ⊢; exact this
    · simp only [hstr, Bool.false_eq_true, if_false] at this ⊢; exact this
  case assign ts e =>
    simp only [hoistStmt, simpleExec]
    simp only [namesS, List.all_append, Bool.and_eq_true] at hn
    cases hx : assignTarget ts with
    | none => trivial
    | some x =>
      have hPx : P x = true := all_of_mem hn.1 (assignTarget_mem ts x hx)
      exact evalThen_h h hs hc e hn.2 _ _ (fun v => h.assign x hPx v)
  case augAssign tg op e =>
    simp only [hoistStmt, simpleExec]
    simp only [namesS, List.all_append, Bool.and_eq_true] at hn
    cases hx : nameOf tg with
    | none => trivial
    | some p =>
      obtain ⟨x, c⟩ := p
      have htg : tg = .name x c := by
        cases tg <;> simp [nameOf] at hx
        obtain ⟨h1, h2⟩ := hx; subst h1; subst h2; rfl
      subst htg
      have hPx : P x = true := by simpa [namesE] using hn.1
      have hb : okE P (.binOp (.name x c) op e) = true := by
        simp only [okE, namesE, List.cons_append, List.nil_append, List.all_cons, Bool.and_eq_true]
        exact ⟨hPx, hn.2⟩
      have := evalThen_h h hs hc (.binOp (.name x c) op e) hb (fun v => .ok (.normal (s.assign x v)))
        (fun v => .ok (.normal (s'.assign x v))) (fun v => h.assign x hPx v)
      simpa only [hoistE] using this
  case assert_ c msg =>
    simp only [hoistStmt, simpleExec]
    simp only [namesS, List.all_append, Bool.and_eq_true] at hn
    refine evalThen_h h hs hc c hn.1 _ _ (fun v => ?_)
    by_cases hv : v.truthy = true
    · simp only [hv, if_true]; exact h
    · simp only [hv, Bool.false_eq_true, if_false]; exact ⟨rfl, h⟩
  case import_ names =>
    simp only [hoistStmt, simpleExec]
    exact importAll_h names s s' h (by simpa [namesS] using hn)
  case importFrom m names l =>
    simp only [hoistStmt, simpleExec]
    by_cases hstar : hasStar names = true
    · simp only [hstar, if_true]; trivial
    · simp only [hstar, Bool.false_eq_true, if_false]
      exact importFromAll_h m l names s s' h (by simpa [namesS] using hn)
  case raise_ e c =>
    simp only [hoistStmt, simpleExec]
    cases raiseName e c with
    | none => trivial
    | some n =>
      simp only
      split
      · exact ⟨rfl, h⟩
      · trivial
  case annAssign tg ann v simple =>
    simp only [hoistStmt, simpleExec, h.mode]
    simp only [namesS, List.all_append, Bool.and_eq_true] at hn
    by_cases hcs : (s.locals.isSome && simple) = true
    · simp only [hcs, if_true]
      cases hx : nameOf tg with
      | none => trivial
      | some p =>
        obtain ⟨x, c⟩ := p
        have htg : tg = .name x c := by
          cases tg <;> simp [nameOf] at hx
          obtain ⟨h1, h2⟩ := hx; subst h1; subst h2; rfl
        subst htg
        have hPx : P x = true := by simpa [namesE] using hn.1.1
        cases v with
        | none => exact h
        | some e =>
          simp only [hoistO]
          exact evalThen_h h hs hc e (by simpa [namesO, okE] using hn.2) _ _ (fun w => h.assign x hPx w)
    · simp only [hcs, Bool.false_eq_true, if_false]; trivial
  all_goals (simp only [hoistStmt, simpleExec]; trivial)

theorem callOf_h (g : CMap) (st : Stmt) :
    callOf (hoistStmt g st) = (callOf st).map (fun p => (p.1, hoistEs g p.2.1, p.2.2)) := by
  cases st
  case expr e =>
    simp only [hoistStmt]
    by_cases hstr : isStrConst e = true
    · simp only [hstr, if_true]
      cases e <;> simp [isStrConst] at hstr <;> rfl
    · simp only [hstr, Bool.false_eq_true, if_false]
      rw [callOf_expr_eq, callOf_expr_eq, asNameCall_h]
      cases asNameCall e with
      | none => rfl
      | some p =>
        simp only [Option.map_some, Option.bind_some]
        split <;> rfl
  case assign ts v =>
    simp only [hoistStmt]
    rw [callOf_assign_eq, callOf_assign_eq, asNameCall_h]
    cases assignTarget ts with
    | none => rfl
    | some x =>
      cases asNameCall v with
      | none => rfl
      | some p => rfl
  all_goals (simp only [hoistStmt]; rfl)


/-! ### `if` tests and `for` headers -/

theorem hoistE_eq_name (g : CMap) (e : Expr) (x : String) (c : Ctx) (h : hoistE g e = .name x c) :
    e = .name x c ∨ ∃ k, e = .constant k ∧ cfind g k = some x := by
  cases e <;> simp [hoistE] at h
  case constant k =>
    right
    cases hf : cfind g k with
    | none => simp [hf] at h
    | some a => simp [hf] at h; exact ⟨k, rfl, by rw [hf, h.1]⟩
  case name y c' => left; obtain ⟨h1, h2⟩ := h; subst h1; subst h2; rfl

theorem isDbgName_h (g : CMap) (hg : ∀ k a, cfind g k = some a → a ≠ "__debug__") (c : Expr) :
    isDbgName (hoistE g c) = isDbgName c := by
  cases c <;> try rfl
  rename_i k
  simp only [hoistE]
  cases hf : cfind g k with
  | none => rfl
  | some a =>
    have := hg k a hf
    simp [isDbgName, this]

theorem debugCmp_h (g : CMap) (hg : ∀ k a, cfind g k = some a → a ≠ "__debug__") (c : Expr) :
    debugCmp (hoistE g c) = (debugCmp c).map (fun p => (p.1, hoistE g p.2)) := by
  cases c
  case compare l ops cs =>
    cases l
    case name x ctx =>
      match ops, cs with
      | [op], [r] => simp only [hoistE, hoistEs, debugCmp]; split <;> rfl
      | [], _ => rfl
      | [_], [] => rfl
      | [_], _ :: _ :: _ => rfl
      | _ :: _ :: _, _ => rfl
    case constant k =>
      have hr : debugCmp (.compare (.constant k) ops cs) = none := rfl
      rw [hr]
      simp only [hoistE, Option.map_none]
      cases hf : cfind g k with
      | none => rfl
      | some a =>
        have hne : (a == "__debug__") = false := by simpa using hg k a hf
        match ops, cs with
        | [op], [r] => simp only [hoistEs, debugCmp, hne]; rfl
        | [], _ => rfl
        | [_], [] => rfl
        | [_], _ :: _ :: _ => rfl
        | _ :: _ :: _, _ => rfl
    all_goals (simp only [hoistE]; rfl)
  case constant k =>
    simp only [hoistE]
    cases cfind g k <;> rfl
  all_goals rfl

theorem condE_h {g : CMap} {s s' : St} (h : RelH P GA GG GL s s') (hs : StatH P) (hc : Cons g GG GL) (c : Expr)
    (hok : okE P c = true) : condE o s' (hoistE g c) = condE o s c := by
  have hg : ∀ k a, cfind g k = some a → a ≠ "__debug__" := by
    intro k a hk hd
    obtain ⟨v, _, hm⟩ := hc k a hk
    have := ghost_not_debug h hs a v hm
    simp [hd] at this
  unfold condE
  rw [isDbgName_h g hg c, debugCmp_h g hg c]
  by_cases hdn : isDbgName c = true
  · simp only [hdn, if_true]
  · simp only [hdn, Bool.false_eq_true, if_false]
    cases hd : debugCmp c with
    | some p =>
      obtain ⟨op, e⟩ := p
      simp only [Option.map_some]
      rw [evalE_h h hs hc e (debugCmp_names c op e hd hok)]
    | none =>
      simp only [Option.map_none]
      exact evalE_h h hs hc c hok

theorem forRange_h (g : CMap) (tg it : Expr) :
    forRange tg (hoistE g it) = (forRange tg it).map (fun p => (p.1, hoistE g p.2)) := by
  rw [forRange_eq, forRange_eq, asNameCall_h]
  cases nameOf tg with
  | none => rfl
  | some p =>
    obtain ⟨x, c⟩ := p
    cases asNameCall it with
    | none => rfl
    | some q =>
      obtain ⟨f, c2, args⟩ := q
      simp only [Option.map_some]
      match args with
      | [] => rfl
      | [e] => simp only [hoistEs]; split <;> rfl
      | _ :: _ :: _ => rfl

/-! ### calls -/

def hoistFT (w : HoistW) : FTab → FTab
  | [] => []
  | (f, ps, b) :: rest => (f, ps, hoistFnBody (w.gfn f) (w.proFn f) b) :: hoistFT w rest

theorem lookup_hoistFT (w : HoistW) (f : String) : ∀ ft : FTab,
    (hoistFT w ft).lookup f = (ft.lookup f).map (fun pb => (pb.1, hoistFnBody (w.gfn f) (w.proFn f) pb.2))
  | [] => rfl
  | (g, ps, b) :: rest => by
    simp only [hoistFT, List.lookup]
    by_cases hg : (f == g) = true
    · have : f = g := by simpa using hg
      subst this; simp
    · have hg' : (f == g) = false := by simpa using hg
      simp only [hg']
      exact lookup_hoistFT w f rest

/-- what a caller learns about a finished call -/
structure RelOut (GA : List String) (GG : List (String × Val)) (s s' : St) : Prop where
  out : s'.out = s.out
  imports : s'.imports = s.imports
  gget : ∀ x, x ∉ GA → Env.get s'.globals x = Env.get s.globals x
  gghost : ∀ a v, (a, v) ∈ GG → Env.get s'.globals a = some v

theorem RelH.toOut {s s' : St} (h : RelH P GA GG GL s s') : RelOut GA GG s s' :=
  ⟨h.out, h.imports, h.gget, fun a v hm => (h.gghost a v hm).2⟩

theorem ResRel.mono {Q Q' : St → St → Prop} (hq : ∀ s s', Q s s' → Q' s s') (r r' : Res Flow) (h : ResRel Q r r') : ResRel Q' r r' := by
  cases r with
  | ok fl =>
    cases r' with
    | ok fl' =>
      cases fl with
      | normal s1 => cases fl' <;> first | exact hq _ _ h | exact h.elim
      | returned v s1 => cases fl' <;> first | exact ⟨h.1, hq _ _ h.2⟩ | exact h.elim
      | broke s1 => cases fl' <;> first | exact hq _ _ h | exact h.elim
      | continued s1 => cases fl' <;> first | exact hq _ _ h | exact h.elim
    | _ => exact h.elim
  | raised x s1 =>
    cases r' with
    | raised x' s1' => exact ⟨h.1, hq _ _ h.2⟩
    | _ => exact h.elim
  | stuck => cases r' <;> first | exact h | exact h.elim
  | timeout => cases r' <;> first | exact h | exact h.elim

theorem RelH.back {s s' s1 s1' : St} (h : RelH P GA GG GL s s') (h1 : RelOut GA GG s1 s1') :
    RelH P GA GG GL { s with globals := s1.globals, out := s1.out, imports := s1.imports }
      { s' with globals := s1'.globals, out := s1'.out, imports := s1'.imports } := by
  refine ⟨h1.out, h1.imports, h.mode, h1.gget, ?_, ?_, ?_, ?_, h.ggA, h.freshA, h.freshL⟩
  · intro y hy; exact h.isLocal y hy
  · intro y hy hly; exact h.lget y hy hly
  · intro a v hm; exact ⟨(h.gghost a v hm).1, h1.gghost a v hm⟩
  · intro a v hm; exact h.lghost a v hm

def CalleeOKH (o : Bool) (w : HoistW) (ft : FTab) (GA : List String) (GG : List (String × Val)) (k : Nat) : Prop :=
  ∀ f ps b bound bound', ft.lookup f = some (ps, b) → bindTop b = some bound →
    bindTop (hoistFnBody (w.gfn f) (w.proFn f) b) = some bound' →
    ∀ (g g' : Env) (out imps : List String) (vs : List Val),
      (∀ x, x ∉ GA → Env.get g' x = Env.get g x) → (∀ a v, (a, v) ∈ GG → Env.get g' a = some v) →
      (∀ v ∈ vs, ∀ n, v ≠ .mod n) → ps.length = vs.length →
    ResRel (RelOut GA GG)
      (asCall (execL ⟨ft, o⟩ k
        { globals := g, locals := some (ps.zip vs), declGlobal := declaredGlobals b, out := out, imports := imps,
          localNames := ps ++ canonNames bound } b))
      (asCall (execL ⟨hoistFT w ft, o⟩ k
        { globals := g', locals := some (ps.zip vs), declGlobal := declaredGlobals (hoistFnBody (w.gfn f) (w.proFn f) b), out := out,
          imports := imps, localNames := ps ++ canonNames bound' } (hoistFnBody (w.gfn f) (w.proFn f) b)))

def GoodH (o : Bool) (w : HoistW) (ft : FTab) (GA : List String) (GG : List (String × Val)) (k : Nat) : Prop :=
  (∀ (g : CMap) (P : String → Bool) (GL : List (String × Val)), Cons g GG GL → StatH P → ∀ s s', RelH P GA GG GL s s' →
      ∀ st, okHS g P st = true →
      ResRel (RelH P GA GG GL) (exec1 ⟨ft, o⟩ k s st) (exec1 ⟨hoistFT w ft, o⟩ k s' (hoistStmt g st))) ∧
  (∀ (g : CMap) (P : String → Bool) (GL : List (String × Val)), Cons g GG GL → StatH P → ∀ s s', RelH P GA GG GL s s' →
      ∀ l, okHL g P l = true →
      ResRel (RelH P GA GG GL) (execL ⟨ft, o⟩ k s l) (execL ⟨hoistFT w ft, o⟩ k s' (hoistBody g l))) ∧
  CalleeOKH o w ft GA GG k

def StaticOKH (w : HoistW) (ft : FTab) : Prop :=
  ∀ f ps b, ft.lookup f = some (ps, b) → (bindTop (hoistFnBody (w.gfn f) (w.proFn f) b)).isSome = (bindTop b).isSome

theorem callFn_h (w : HoistW) (ft : FTab) (hst : StaticOKH w ft) (n : Nat) (ih : ∀ k, k < n → GoodH o w ft GA GG k)
    {g : CMap} {s s' : St} (h : RelH P GA GG GL s s') (hs : StatH P) (hc : Cons g GG GL) (f : String) (args : List Expr)
    (tgt : Option String) (hargs : okEs P args = true) (htgt : ∀ x, tgt = some x → P x = true) :
    ResRel (RelH P GA GG GL) (callFn ⟨ft, o⟩ n s f args tgt) (callFn ⟨hoistFT w ft, o⟩ n s' f (hoistEs g args) tgt) := by
  rw [callFn, callFn, evalArgs_h h hs hc args hargs]
  cases hev : evalArgs s args with
  | none => trivial
  | some r =>
    cases r with
    | error x => exact ⟨rfl, h⟩
    | ok vs =>
      simp only [lookup_hoistFT]
      cases hl : ft.lookup f with
      | none => trivial
      | some pb =>
        obtain ⟨ps, b⟩ := pb
        simp only [Option.map_some]
        have hsome := hst f ps b hl
        cases hb : bindTop b with
        | none =>
          rw [hb] at hsome
          cases hb' : bindTop (hoistFnBody (w.gfn f) (w.proFn f) b) with
          | none => trivial
          | some _ => rw [hb'] at hsome; simp at hsome
        | some bound =>
          rw [hb] at hsome
          cases hb' : bindTop (hoistFnBody (w.gfn f) (w.proFn f) b) with
          | none => rw [hb'] at hsome; simp at hsome
          | some bound' =>
            simp only
            by_cases hlen : (ps.length != vs.length) = true
            · simp only [hlen, if_true]; exact ⟨rfl, h⟩
            · simp only [hlen, Bool.false_eq_true, if_false]
              have hlen' : ps.length = vs.length := by simpa using hlen
              cases n with
              | zero => trivial
              | succ k =>
                simp only
                have hcal := (ih k (Nat.lt_succ_self k)).2.2 f ps b bound bound' hl hb hb' s.globals s'.globals s.out s.imports vs
                  h.gget (fun a v hm => (h.gghost a v hm).2) (evalArgs_noMod s args vs hev) hlen'
                rw [h.out, h.imports]
                revert hcal
                generalize asCall (execL ⟨ft, o⟩ k _ b) = r1
                generalize asCall (execL ⟨hoistFT w ft, o⟩ k _ (hoistFnBody (w.gfn f) (w.proFn f) b)) = r1'
                intro hcal
                cases r1 with
                | stuck => cases r1' <;> first | trivial | exact hcal.elim
                | timeout => cases r1' <;> first | trivial | exact hcal.elim
                | raised x s1 =>
                  cases r1' with
                  | raised x' s1' =>
                    obtain ⟨hx, hr⟩ := hcal
                    subst hx
                    exact ⟨rfl, h.back hr⟩
                  | _ => exact hcal.elim
                | ok fl =>
                  cases r1' with
                  | ok fl' =>
                    cases fl with
                    | returned v s1 =>
                      cases fl' with
                      | returned v' s1' =>
                        obtain ⟨hv, hr⟩ := hcal
                        subst hv
                        show RelH P GA GG GL _ _
                        have hbk := h.back hr
                        cases tgt with
                        | none => exact hbk
                        | some x => exact hbk.assign x (htgt x rfl) v
                      | _ => exact hcal.elim
                    | normal s1 => cases fl' <;> first | trivial | exact hcal.elim
                    | broke s1 => cases fl' <;> first | trivial | exact hcal.elim
                    | continued s1 => cases fl' <;> first | trivial | exact hcal.elim
                  | _ => exact hcal.elim


/-! ### statements, blocks -/

theorem callOf_namesH {g : CMap} (st : Stmt) (f : String) (args : List Expr) (tgt : Option String)
    (h : callOf st = some (f, args, tgt)) (hok : okHS g P st = true) :
    okEs P args = true ∧ ∀ x, tgt = some x → P x = true := by
  unfold okHS at hok
  have hn := hok
  clear hok
  cases st
  case expr e =>
    rw [callOf_expr_eq] at h
    cases hc : asNameCall e with
    | none => simp [hc] at h
    | some p =>
      obtain ⟨g', c, as⟩ := p
      have hP := asNameCall_names e g' c as hc (by simpa [namesS, okE] using hn)
      simp only [hc, Option.bind_some] at h
      split at h
      · simp at h
      · simp only [Option.some.injEq, Prod.mk.injEq] at h
        obtain ⟨_, h2, h3⟩ := h
        subst h2; subst h3
        exact ⟨hP.2, by intro x hx; simp at hx⟩
  case assign ts v =>
    rw [callOf_assign_eq] at h
    simp only [namesS, List.all_append, Bool.and_eq_true] at hn
    cases hx : assignTarget ts with
    | none => simp [hx] at h
    | some x =>
      cases hc : asNameCall v with
      | none => simp [hx, hc] at h
      | some p =>
        obtain ⟨g', c, as⟩ := p
        have hP := asNameCall_names v g' c as hc hn.2
        simp only [hx, hc, Option.bind_some, Option.map_some, Option.some.injEq, Prod.mk.injEq] at h
        obtain ⟨_, h2, h3⟩ := h
        subst h2; subst h3
        refine ⟨hP.2, ?_⟩
        intro y hy
        simp only [Option.some.injEq] at hy
        subst hy
        exact all_of_mem hn.1 (assignTarget_mem ts _ hx)
  all_goals (simp [callOf] at h)

theorem flat_h (w : HoistW) (ft : FTab) (hst : StaticOKH w ft) (n : Nat) (ih : ∀ k, k < n → GoodH o w ft GA GG k)
    {g : CMap} {s s' : St} (h : RelH P GA GG GL s s') (hs : StatH P) (hc : Cons g GG GL) (st : Stmt) (hok : okHS g P st = true)
    (hblk : isBlockStmt st = false) :
    ResRel (RelH P GA GG GL) (exec1 ⟨ft, o⟩ n s st) (exec1 ⟨hoistFT w ft, o⟩ n s' (hoistStmt g st)) := by
  have hblk' : isBlockStmt (hoistStmt g st) = false := by
    cases st
    case try_ star _ _ _ _ => cases star <;> first | rfl | simp [isBlockStmt] at hblk
    case for_ isAsync _ _ _ _ => cases isAsync <;> first | rfl | simp [isBlockStmt] at hblk
    case expr e => simp only [hoistStmt]; split <;> rfl
    all_goals first | rfl | simp [isBlockStmt] at hblk
  have hasrt : isAssertStmt (hoistStmt g st) = isAssertStmt st := by
    cases st
    case expr e => simp only [hoistStmt]; split <;> rfl
    all_goals rfl
  rw [exec1_flat _ _ _ _ hblk, exec1_flat _ _ _ _ hblk']
  unfold flatExec
  rw [callOf_h g st, hasrt]
  simp only
  by_cases ha : (o && isAssertStmt st) = true
  · simp only [ha, if_true]; exact h
  · simp only [ha, Bool.false_eq_true, if_false]
    cases hcl : callOf st with
    | none => exact simpleExec_h h hs hc st hok
    | some p =>
      obtain ⟨f, args, tgt⟩ := p
      have hnm := callOf_namesH st f args tgt hcl hok
      exact callFn_h w ft hst n ih h hs hc f args tgt hnm.1 hnm.2

theorem execFor_h (ft ft' : FTab) (body body' orelse orelse' : List Stmt) (N : Nat) (x : String) (hx : P x = true)
    (hb : ∀ f, f ≤ N → ∀ s s', RelH P GA GG GL s s' → ResRel (RelH P GA GG GL) (execL ⟨ft, o⟩ f s body) (execL ⟨ft', o⟩ f s' body'))
    (ho : ∀ f, f ≤ N → ∀ s s', RelH P GA GG GL s s' → ResRel (RelH P GA GG GL) (execL ⟨ft, o⟩ f s orelse) (execL ⟨ft', o⟩ f s' orelse')) :
    ∀ f, f ≤ N → ∀ (s s' : St) (i k : Int), RelH P GA GG GL s s' →
      ResRel (RelH P GA GG GL) (execFor ⟨ft, o⟩ f s x i k body orelse) (execFor ⟨ft', o⟩ f s' x i k body' orelse') := by
  intro f
  induction f with
  | zero =>
    intro hf s s' i k hr
    rw [execFor.eq_1, execFor.eq_1]
    by_cases hik : i < k
    · simp only [hik, if_true]; trivial
    · simp only [hik, if_false]; exact ho 0 hf s s' hr
  | succ f ihf =>
    intro hf s s' i k hr
    rw [execFor.eq_2, execFor.eq_2]
    by_cases hik : i < k
    · simp only [hik, if_true]
      have hbody := hb (f + 1) hf _ _ (hr.assign x hx (.int i))
      revert hbody
      generalize execL ⟨ft, o⟩ (f + 1) (s.assign x (.int i)) body = r
      generalize execL ⟨ft', o⟩ (f + 1) (s'.assign x (.int i)) body' = r'
      intro hbody
      cases r with
      | ok fl =>
        cases r' with
        | ok fl' =>
          cases fl with
          | normal s1 => cases fl' <;> first | exact ihf (Nat.le_of_succ_le hf) _ _ (i + 1) k hbody | exact hbody.elim
          | continued s1 => cases fl' <;> first | exact ihf (Nat.le_of_succ_le hf) _ _ (i + 1) k hbody | exact hbody.elim
          | broke s1 => cases fl' <;> first | exact hbody | exact hbody.elim
          | returned v s1 => cases fl' <;> first | exact hbody | exact hbody.elim
        | _ => exact hbody.elim
      | raised y s1 => cases r' <;> first | exact hbody | exact hbody.elim
      | stuck => cases r' <;> first | exact hbody | exact hbody.elim
      | timeout => cases r' <;> first | exact hbody | exact hbody.elim
    · simp only [hik, if_false]; exact ho (f + 1) hf s s' hr

mutual
theorem exec1_h (w : HoistW) (ft : FTab) (hst : StaticOKH w ft) (n : Nat) (ih : ∀ k, k < n → GoodH o w ft GA GG k)
    {g : CMap} (hs : StatH P) (hc : Cons g GG GL) :
    (st : Stmt) → (s s' : St) → RelH P GA GG GL s s' → okHS g P st = true →
      ResRel (RelH P GA GG GL) (exec1 ⟨ft, o⟩ n s st) (exec1 ⟨hoistFT w ft, o⟩ n s' (hoistStmt g st))
  | .if_ c body orelse, s, s', h, hok => by
    have hp : okE P c = true ∧ okHL g P body = true ∧ okHL g P orelse = true := by
      simp only [okHS, okHL, okE, namesS, List.all_append, Bool.and_eq_true] at hok ⊢
      exact ⟨hok.1.1, hok.1.2, hok.2⟩
    simp only [hoistStmt]
    rw [exec1.eq_1, exec1.eq_1]
    show ResRel (RelH P GA GG GL) (match condE o s c with
        | some (.ok v) => if v.truthy then execL ⟨ft, o⟩ n s body else execL ⟨ft, o⟩ n s orelse
        | some (.error x) => .raised x s
        | none => .stuck)
      (match condE o s' (hoistE g c) with
        | some (.ok v) => if v.truthy then execL ⟨hoistFT w ft, o⟩ n s' (hoistBody g body) else execL ⟨hoistFT w ft, o⟩ n s' (hoistBody g orelse)
        | some (.error x) => .raised x s'
        | none => .stuck)
    rw [condE_h h hs hc c hp.1]
    cases condE o s c with
    | none => trivial
    | some r =>
      cases r with
      | error x => exact ⟨rfl, h⟩
      | ok v =>
        by_cases hv : v.truthy = true
        · simp only [hv, if_true]; exact execL_h w ft hst n ih hs hc body s s' h hp.2.1
        · simp only [hv, Bool.false_eq_true, if_false]; exact execL_h w ft hst n ih hs hc orelse s s' h hp.2.2
  | .while_ c body orelse, s, s', h, hok => by
    have hp : okE P c = true ∧ okHL g P body = true ∧ okHL g P orelse = true := by
      simp only [okHS, okHL, okE, namesS, List.all_append, Bool.and_eq_true] at hok ⊢
      exact ⟨hok.1.1, hok.1.2, hok.2⟩
    simp only [hoistStmt]
    cases n with
    | zero =>
      rw [exec1.eq_2, exec1.eq_2, evalE_h h hs hc c hp.1]
      cases evalE s c with
      | none => trivial
      | some r =>
        cases r with
        | error x => exact ⟨rfl, h⟩
        | ok v =>
          by_cases hv : v.truthy = true
          · simp only [hv, if_true]; trivial
          · simp only [hv, Bool.false_eq_true, if_false]; exact execL_h w ft hst 0 ih hs hc orelse s s' h hp.2.2
    | succ k =>
      rw [exec1.eq_3, exec1.eq_3, evalE_h h hs hc c hp.1]
      cases evalE s c with
      | none => trivial
      | some r =>
        cases r with
        | error x => exact ⟨rfl, h⟩
        | ok v =>
          by_cases hv : v.truthy = true
          · simp only [hv, if_true]
            have hw : ∀ s1 s1', RelH P GA GG GL s1 s1' → ResRel (RelH P GA GG GL) (exec1 ⟨ft, o⟩ k s1 (.while_ c body orelse))
                (exec1 ⟨hoistFT w ft, o⟩ k s1' (.while_ (hoistE g c) (hoistBody g body) (hoistBody g orelse))) := by
              intro s1 s1' h1
              have := (ih k (Nat.lt_succ_self k)).1 g P GL hc hs s1 s1' h1 (.while_ c body orelse) hok
              simpa only [hoistStmt] using this
            have hbody := execL_h w ft hst (k + 1) ih hs hc body s s' h hp.2.1
            revert hbody
            generalize execL ⟨ft, o⟩ (k + 1) s body = r
            generalize execL ⟨hoistFT w ft, o⟩ (k + 1) s' (hoistBody g body) = r'
            intro hbody
            cases r with
            | ok fl =>
              cases r' with
              | ok fl' =>
                cases fl with
                | normal s1 => cases fl' <;> first | exact hw _ _ hbody | exact hbody.elim
                | continued s1 => cases fl' <;> first | exact hw _ _ hbody | exact hbody.elim
                | broke s1 => cases fl' <;> first | exact hbody | exact hbody.elim
                | returned v s1 => cases fl' <;> first | exact hbody | exact hbody.elim
              | _ => exact hbody.elim
            | raised y s1 => cases r' <;> first | exact hbody | exact hbody.elim
            | stuck => cases r' <;> first | exact hbody | exact hbody.elim
            | timeout => cases r' <;> first | exact hbody | exact hbody.elim
          · simp only [hv, Bool.false_eq_true, if_false]; exact execL_h w ft hst (k + 1) ih hs hc orelse s s' h hp.2.2
  | .for_ true tg it body orelse, s, s', h, hok => flat_h w ft hst n ih h hs hc _ hok rfl
  | .for_ false tg it body orelse, s, s', h, hok => by
    have hp : okE P tg = true ∧ okE P it = true ∧ okHL g P body = true ∧ okHL g P orelse = true := by
      simp only [okHS, okHL, okE, namesS, List.all_append, Bool.and_eq_true] at hok ⊢
      exact ⟨hok.1.1.1, hok.1.1.2, hok.1.2, hok.2⟩
    simp only [hoistStmt]
    rw [exec1.eq_4, exec1.eq_4, forRange_h g tg it]
    cases hfr : forRange tg it with
    | none => trivial
    | some p =>
      obtain ⟨x, e⟩ := p
      simp only [Option.map_some]
      have hxe := forRange_names tg it x e hfr hp.1 hp.2.1
      have hb : ∀ f, f ≤ n → ∀ s s', RelH P GA GG GL s s' →
          ResRel (RelH P GA GG GL) (execL ⟨ft, o⟩ f s body) (execL ⟨hoistFT w ft, o⟩ f s' (hoistBody g body)) := by
        intro f hf s1 s1' h1
        rcases Nat.lt_or_eq_of_le hf with hlt | heq
        · exact (ih f hlt).2.1 g P GL hc hs s1 s1' h1 body hp.2.2.1
        · subst heq; exact execL_h w ft hst f ih hs hc body s1 s1' h1 hp.2.2.1
      have ho : ∀ f, f ≤ n → ∀ s s', RelH P GA GG GL s s' →
          ResRel (RelH P GA GG GL) (execL ⟨ft, o⟩ f s orelse) (execL ⟨hoistFT w ft, o⟩ f s' (hoistBody g orelse)) := by
        intro f hf s1 s1' h1
        rcases Nat.lt_or_eq_of_le hf with hlt | heq
        · exact (ih f hlt).2.1 g P GL hc hs s1 s1' h1 orelse hp.2.2.2
        · subst heq; exact execL_h w ft hst f ih hs hc orelse s1 s1' h1 hp.2.2.2
      refine evalThen_h h hs hc e hxe.2 _ _ (fun v => ?_)
      cases v.asInt with
      | none => trivial
      | some k => exact execFor_h ft (hoistFT w ft) body _ orelse _ n x hxe.1 hb ho n (Nat.le_refl n) s s' 0 k h
  | .try_ true body hs' orelse fin, s, s', h, hok => flat_h w ft hst n ih h hs hc _ hok rfl
  | .try_ false body hs' orelse fin, s, s', h, hok => by
    have hp : okHL g P body = true ∧ okHH g P hs' = true ∧ okHL g P orelse = true ∧ okHL g P fin = true := by
      simp only [okHS, okHL, okHH, namesS, List.all_append, Bool.and_eq_true] at hok ⊢
      exact ⟨hok.1.1.1, hok.1.1.2, hok.1.2, hok.2⟩
    simp only [hoistStmt]
    rw [exec1.eq_5, exec1.eq_5]
    apply withFinally_rel
    · apply afterBody_rel
      · exact execL_h w ft hst n ih hs hc body s s' h hp.1
      · intro s1 s1' h1; exact execL_h w ft hst n ih hs hc orelse s1 s1' h1 hp.2.2.1
      · intro x s1 s1' h1; exact execH_h w ft hst n ih hs hc hs' s1 s1' x h1 hp.2.1
    · intro s1 s1' h1; exact execL_h w ft hst n ih hs hc fin s1 s1' h1 hp.2.2.2
  | .functionDef .., s, s', h, hok => flat_h w ft hst n ih h hs hc _ hok rfl
  | .classDef .., s, s', h, hok => flat_h w ft hst n ih h hs hc _ hok rfl
  | .with_ .., s, s', h, hok => flat_h w ft hst n ih h hs hc _ hok rfl
  | .match_ .., s, s', h, hok => flat_h w ft hst n ih h hs hc _ hok rfl
  | .return_ _, s, s', h, hok => flat_h w ft hst n ih h hs hc _ hok rfl
  | .delete _, s, s', h, hok => flat_h w ft hst n ih h hs hc _ hok rfl
  | .assign .., s, s', h, hok => flat_h w ft hst n ih h hs hc _ hok rfl
  | .typeAlias .., s, s', h, hok => flat_h w ft hst n ih h hs hc _ hok rfl
  | .augAssign .., s, s', h, hok => flat_h w ft hst n ih h hs hc _ hok rfl
  | .annAssign .., s, s', h, hok => flat_h w ft hst n ih h hs hc _ hok rfl
  | .raise_ .., s, s', h, hok => flat_h w ft hst n ih h hs hc _ hok rfl
  | .assert_ .., s, s', h, hok => flat_h w ft hst n ih h hs hc _ hok rfl
  | .import_ .., s, s', h, hok => flat_h w ft hst n ih h hs hc _ hok rfl
  | .importFrom .., s, s', h, hok => flat_h w ft hst n ih h hs hc _ hok rfl
  | .global _, s, s', h, hok => flat_h w ft hst n ih h hs hc _ hok rfl
  | .nonlocal _, s, s', h, hok => flat_h w ft hst n ih h hs hc _ hok rfl
  | .expr _, s, s', h, hok => flat_h w ft hst n ih h hs hc _ hok rfl
  | .pass, s, s', h, hok => flat_h w ft hst n ih h hs hc _ hok rfl
  | .break_, s, s', h, hok => flat_h w ft hst n ih h hs hc _ hok rfl
  | .continue_, s, s', h, hok => flat_h w ft hst n ih h hs hc _ hok rfl
theorem execH_h (w : HoistW) (ft : FTab) (hst : StaticOKH w ft) (n : Nat) (ih : ∀ k, k < n → GoodH o w ft GA GG k)
    {g : CMap} (hs : StatH P) (hc : Cons g GG GL) :
    (hl : List Handler) → (s s' : St) → (x : String) → RelH P GA GG GL s s' → okHH g P hl = true →
      ResRel (RelH P GA GG GL) (execH ⟨ft, o⟩ n s x hl) (execH ⟨hoistFT w ft, o⟩ n s' x (hoistHandlers g hl))
  | [], s, s', x, h, _ => by simp only [hoistHandlers]; rw [execH.eq_1, execH.eq_1]; exact ⟨rfl, h⟩
  | .mk ty nm hbody :: rest, s, s', x, h, hok => by
    have hp : okHL g P hbody = true ∧ okHH g P rest = true := by
      simp only [okHH, okHL, namesH, List.all_append, Bool.and_eq_true] at hok ⊢
      exact ⟨hok.1.2, hok.2⟩
    simp only [hoistHandlers]
    rw [execH.eq_2, execH.eq_2]
    cases catches (excKind ty) nm x with
    | none => trivial
    | some b =>
      cases b with
      | true => exact execL_h w ft hst n ih hs hc hbody s s' h hp.1
      | false => exact execH_h w ft hst n ih hs hc rest s s' x h hp.2
theorem execL_h (w : HoistW) (ft : FTab) (hst : StaticOKH w ft) (n : Nat) (ih : ∀ k, k < n → GoodH o w ft GA GG k)
    {g : CMap} (hs : StatH P) (hc : Cons g GG GL) :
    (l : List Stmt) → (s s' : St) → RelH P GA GG GL s s' → okHL g P l = true →
      ResRel (RelH P GA GG GL) (execL ⟨ft, o⟩ n s l) (execL ⟨hoistFT w ft, o⟩ n s' (hoistBody g l))
  | [], s, s', h, _ => by simp only [hoistBody, execL_nil]; exact h
  | st :: rest, s, s', h, hok => by
    have hp : okHS g P st = true ∧ okHL g P rest = true := by
      simp only [okHS, okHL, namesL, List.all_append, Bool.and_eq_true] at hok ⊢
      exact hok
    simp only [hoistBody]
    exact execL_cons_rel ft (hoistFT w ft) n s s' st _ rest _ (exec1_h w ft hst n ih hs hc st s s' h hp.1)
      (fun s1 s1' h1 => execL_h w ft hst n ih hs hc rest s1 s1' h1 hp.2)
end

end PMV.PyCore

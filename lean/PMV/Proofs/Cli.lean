import PMV.Model.CliCheck
/-
  Helper lemmas for C13: flag parsing as a function of flag *presence*, soundness of the finite
  equivalence check, and the parametric theorem `TableOK t → ∀ argv, forwarded = documented`.
-/
namespace PMV.Cli
open BExp

theorem BExp.eval_congr (e : BExp) (P Q : String → Bool) (h : ∀ v ∈ e.vars, P v = Q v) :
    e.eval P = e.eval Q := by
  induction e with
  | lit b => rfl
  | present f => simp only [BExp.eval]; exact h f (by simp [BExp.vars])
  | ite c a b ihc iha ihb =>
    simp only [BExp.eval]
    rw [ihc, iha, ihb] <;> intro v hv <;> apply h <;> simp [BExp.vars, hv]

theorem filter_mem_subsets {α} (p : α → Bool) : (l : List α) → l.filter p ∈ subsets l
  | [] => by simp [subsets]
  | x :: xs => by
    simp only [subsets, List.filter_cons]
    split
    · exact List.mem_append_left _ (List.mem_map_of_mem (filter_mem_subsets p xs))
    · exact List.mem_append_right _ (filter_mem_subsets p xs)

theorem equivB_sound (e1 e2 : BExp) (h : equivB e1 e2 = true) (P : String → Bool) :
    e1.eval P = e2.eval P := by
  have hs := filter_mem_subsets P (e1.vars ++ e2.vars)
  have hall := (List.all_eq_true.mp h) _ hs
  have hc : ∀ v ∈ e1.vars ++ e2.vars, ((e1.vars ++ e2.vars).filter P).contains v = P v := by
    intro v hv
    cases hp : P v <;> simp [List.contains_iff_mem, List.mem_filter, hv, hp] <;> simpa using hv
  have h1 := BExp.eval_congr e1 P (fun v => ((e1.vars ++ e2.vars).filter P).contains v)
    (fun v hv => (hc v (List.mem_append_left _ hv)).symm)
  have h2 := BExp.eval_congr e2 P (fun v => ((e1.vars ++ e2.vars).filter P).contains v)
    (fun v hv => (hc v (List.mem_append_right _ hv)).symm)
  rw [h1, h2]
  simpa using hall

/-! ### Table well-formedness (decidable; instantiated on the generated table by `decide`) -/

/-- "Some flag writing to `d` is in argv". -/
def hit (t : Table) (d : String) (argv : List String) : Bool :=
  t.flags.any fun f => f.dest == d && argv.contains f.name

theorem find_name_some {t : Table} {a : String} {f : BoolFlag}
    (h : t.flags.find? (fun g => g.name == a) = some f) : f ∈ t.flags ∧ f.name = a := by
  have := List.find?_some h
  exact ⟨List.mem_of_find?_eq_some h, by simpa using this⟩

theorem foldl_step (t : Table) (hc : constsConsistent t = true) (hu : namesUnique t = true) (d : String) :
    ∀ (argv : List String) (ns : Ns),
      argv.foldl (step t) ns d = if hit t d argv then constOf t d else ns d := by
  intro argv
  induction argv with
  | nil => intro ns; simp [hit]
  | cons a as ih =>
    intro ns
    simp only [List.foldl_cons]
    rw [ih]
    have hitcons : hit t d (a :: as) = (hit t d as || (t.flags.any fun f => f.dest == d && f.name == a)) := by
      simp only [hit, List.contains_cons]
      rw [Bool.eq_iff_iff]
      simp only [List.any_eq_true, Bool.and_eq_true, Bool.or_eq_true, beq_iff_eq]
      constructor
      · rintro ⟨f, hf, hd, h | h⟩
        · exact Or.inr ⟨f, hf, hd, h⟩
        · exact Or.inl ⟨f, hf, hd, h⟩
      · rintro (⟨f, hf, hd, h⟩ | ⟨f, hf, hd, h⟩)
        · exact ⟨f, hf, hd, Or.inr h⟩
        · exact ⟨f, hf, hd, Or.inl h⟩
    rw [hitcons]
    cases hh : hit t d as
    · simp only [Bool.false_or, Bool.false_eq_true, if_false]
      cases hf : t.flags.find? (fun g => g.name == a) with
      | some f =>
        have hstep : step t ns a = fun d' => if d' == f.dest then f.const else ns d' := by
          simp only [step, hf]
        rw [hstep]
        obtain ⟨hmem, hname⟩ := find_name_some hf
        by_cases hd : d = f.dest
        · subst hd
          have : (t.flags.any fun g => g.dest == f.dest && g.name == a) = true := by
            simp only [List.any_eq_true, Bool.and_eq_true, beq_iff_eq]; exact ⟨f, hmem, rfl, hname⟩
          simp only [this, if_true, beq_self_eq_true]
          have := (List.all_eq_true.mp hc) f hmem
          simp only [Bool.and_eq_true, beq_iff_eq] at this
          exact this.1
        · have hne : (d == f.dest) = false := by simpa using hd
          have : (t.flags.any fun g => g.dest == d && g.name == a) = false := by
            rw [Bool.eq_false_iff]; intro hcon
            simp only [List.any_eq_true, Bool.and_eq_true, beq_iff_eq] at hcon
            obtain ⟨g, hg, hgd, hga⟩ := hcon
            have hgu := (List.all_eq_true.mp hu) g hg
            simp only [beq_iff_eq] at hgu
            rw [hga, hf] at hgu
            cases hgu
            exact hd hgd.symm
          simp [this, hne]
      | none =>
        have hstep : step t ns a = ns := by simp only [step, hf]
        rw [hstep]
        have : (t.flags.any fun g => g.dest == d && g.name == a) = false := by
          rw [Bool.eq_false_iff]; intro hcon
          simp only [List.any_eq_true, Bool.and_eq_true, beq_iff_eq] at hcon
          obtain ⟨g, hg, _, hga⟩ := hcon
          have := List.find?_eq_none.mp hf g hg
          simp [hga] at this
        simp [this]
    · simp

theorem destExpAux_eval (t : Table) (hc : constsConsistent t = true) (d : String) (dflt : Bool) (P : String → Bool) :
    ∀ (l : List BoolFlag), (∀ f ∈ l, f ∈ t.flags) →
      (destExpAux d dflt l).eval P = if (l.any fun f => f.dest == d && P f.name) then constOf t d else dflt := by
  intro l
  induction l with
  | nil => intro _; simp [destExpAux, BExp.eval]
  | cons f fs ih =>
    intro hmem
    have ih' := ih (fun g hg => hmem g (List.mem_cons_of_mem _ hg))
    simp only [destExpAux]
    by_cases hd : f.dest = d
    · have hfc : f.const = constOf t d := by
        have := (List.all_eq_true.mp hc) f (hmem f (List.mem_cons_self))
        simp only [Bool.and_eq_true, beq_iff_eq] at this
        rw [← hd]; exact this.1
      simp only [hd, beq_self_eq_true, if_true, BExp.eval, List.any_cons, Bool.true_and]
      rw [ih', hfc]
      by_cases hp : P f.name = true <;> simp [hp]
    · have hne : (f.dest == d) = false := by simpa using hd
      simp only [hne, Bool.false_eq_true, if_false, List.any_cons, Bool.false_and, Bool.false_or]
      exact ih'

theorem parseBools_eq (t : Table) (hc : constsConsistent t = true) (hu : namesUnique t = true)
    (argv : List String) (d : String) :
    parseBools t argv d = (destExp t d).eval (fun f => argv.contains f) := by
  unfold parseBools destExp
  rw [foldl_step t hc hu d, destExpAux_eval t hc d _ _ t.flags (fun _ h => h)]
  rfl

theorem srcExp_eval (t : Table) (hc : constsConsistent t = true) (hu : namesUnique t = true)
    (argv : List String) (s : Src) :
    (srcExp t s).eval (fun f => argv.contains f) = evalSrc (parseBools t argv) s := by
  cases s with
  | dest d => simp [srcExp, evalSrc, parseBools_eq t hc hu]
  | const b => simp [srcExp, evalSrc, BExp.eval]

theorem eqExp_eval (e : BExp) (v : Bool) (P : String → Bool) : (eqExp e v).eval P = (e.eval P == v) := by
  cases v <;> simp [eqExp, BExp.not, BExp.eval]

theorem kwExpAux_eval (t : Table) (hc : constsConsistent t = true) (hu : namesUnique t = true)
    (argv : List String) (k : String) :
    ∀ (os : List Override) (base : BExp),
      (kwExpAux t k os base).eval (fun f => argv.contains f) =
        evalKwAux (parseBools t argv) k os (base.eval (fun f => argv.contains f)) := by
  intro os
  induction os with
  | nil => intro base; simp [kwExpAux, evalKwAux]
  | cons o os ih =>
    intro base
    simp only [kwExpAux, evalKwAux]
    by_cases hk : o.kw = k
    · simp only [hk, beq_self_eq_true, if_true, BExp.eval, eqExp_eval, parseBools_eq t hc hu,
        srcExp_eval t hc hu, ih base]
    · have hne : (o.kw == k) = false := by simpa using hk
      simp only [hne, Bool.false_eq_true, if_false]
      exact ih base

theorem kwExp_eval (t : Table) (hc : constsConsistent t = true) (hu : namesUnique t = true)
    (argv : List String) (k : String) :
    (kwExp t k).map (fun e => e.eval (fun f => argv.contains f)) = evalKw t (parseBools t argv) k := by
  unfold kwExp evalKw
  cases t.base.lookup k with
  | none => rfl
  | some s =>
    simp only [Option.map_some]
    rw [kwExpAux_eval t hc hu, srcExp_eval t hc hu]

/-! ### The obligation on the table, and the parametric theorem -/

theorem flags_forwarded_of_tableOK (t : Table) (h : TableOK t = true) (argv : List String) :
    ∀ k e, (k, e) ∈ Spec.Docs.docKw →
      evalKw t (parseBools t argv) k = some (e.eval (fun f => argv.contains f)) := by
  intro k e hke
  simp only [TableOK, Bool.and_eq_true] at h
  obtain ⟨⟨⟨⟨hu, hc⟩, _⟩, hkw⟩, _⟩ := h
  have := (List.all_eq_true.mp hkw) (k, e) hke
  rw [← kwExp_eval t hc hu]
  simp only at this
  cases hk : kwExp t k with
  | none => simp [hk] at this
  | some e' =>
    simp only [hk] at this
    simp [equivB_sound e' e this]

end PMV.Cli
